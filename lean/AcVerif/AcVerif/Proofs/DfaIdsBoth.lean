import AcVerif.Proofs.DfaIdsOne
/-!
# L1d-ids proofs, part 4: `finish_build_both_starts` — the remap tables and the interleaved rows
in closed form

`cntB na i`: the number of DFA state indices handed out before shuffled position `i`, where the
single-id positions are `0`, `1` (dead, fail), `na - 2`, `na - 1` (the start states).
-/
namespace AcVerif.L1dIdsP
open AcVerif AcVerif.CNfa AcVerif.L1cP AcVerif.L1dP AcVerif.L1eP

/-- positions that get one DFA id -/
abbrev sgl (na i : Nat) : Prop := i < 2 ∨ i + 2 = na ∨ i + 1 = na

/-- number of DFA indices allocated before position `i` -/
def cntB (na i : Nat) : Nat :=
  if i ≤ 2 then i else if i + 2 ≤ na then 2 * i - 2 else if i + 1 = na then 2 * na - 5 else 2 * i - 4

/-- the index of the anchored (or only) copy of position `i` -/
def iA (na i : Nat) : Nat := if sgl na i then cntB na i else cntB na i + 1

theorem cntB_succ {na : Nat} (h4 : 4 ≤ na) (i : Nat) :
    cntB na (i + 1) = cntB na i + if sgl na i then 1 else 2 := by
  unfold cntB
  by_cases hs : sgl na i
  · rw [if_pos hs]
    unfold sgl at hs
    repeat' split
    all_goals omega
  · rw [if_neg hs]
    unfold sgl at hs
    repeat' split
    all_goals omega

theorem cntB_mono {na : Nat} (h4 : 4 ≤ na) {i j : Nat} (h : i ≤ j) : cntB na i ≤ cntB na j := by
  induction j with
  | zero =>
    have : i = 0 := by omega
    subst this; exact Nat.le_refl _
  | succ j ih =>
    by_cases e : i = j + 1
    · subst e; exact Nat.le_refl _
    · have := ih (by omega)
      have := cntB_succ h4 j
      split at this <;> omega

theorem cntB_lt {na : Nat} (h4 : 4 ≤ na) {i j : Nat} (h : i < j) :
    cntB na i + (if sgl na i then 1 else 2) ≤ cntB na j := by
  rw [← cntB_succ h4 i]
  exact cntB_mono h4 h

theorem cntB_zero (na : Nat) : cntB na 0 = 0 := rfl

theorem cntB_one (na : Nat) : cntB na 1 = 1 := rfl

theorem cntB_eq_zero_iff {na : Nat} (h4 : 4 ≤ na) (i : Nat) : cntB na i = 0 ↔ i = 0 := by
  constructor
  · intro h
    by_cases e : i = 0
    · exact e
    · have := cntB_mono h4 (show 1 ≤ i by omega)
      rw [cntB_one] at this; omega
  · intro e; subst e; rfl

theorem cntB_inj {na : Nat} (h4 : 4 ≤ na) {i j : Nat} (h : cntB na i = cntB na j) : i = j := by
  by_cases e : i = j
  · exact e
  · exfalso
    by_cases hl : i < j
    · have := cntB_lt h4 hl
      split at this <;> omega
    · have := cntB_lt h4 (show j < i by omega)
      split at this <;> omega

theorem cntB_size {na sz : Nat} (h4 : 4 ≤ na) (h : na ≤ sz) : cntB na sz = 2 * sz - 4 := by
  unfold cntB
  split <;> (try split) <;> (try split) <;> omega

theorem cntB_le_two_mul {na : Nat} (h4 : 4 ≤ na) {i : Nat} (h : 2 ≤ i) : cntB na i ≤ 2 * i - 2 := by
  unfold cntB
  split <;> (try split) <;> (try split) <;> omega

theorem cntB_ge_two {na : Nat} (h4 : 4 ≤ na) {i : Nat} (h : 2 ≤ i) : 2 ≤ cntB na i := by
  have := cntB_mono h4 h
  have e : cntB na 2 = 2 := rfl
  omega

theorem iA_eq {na : Nat} (h4 : 4 ≤ na) (i : Nat) : iA na i = cntB na (i + 1) - 1 := by
  rw [cntB_succ h4]
  unfold iA
  split <;> omega

theorem iA_ge (na i : Nat) : cntB na i ≤ iA na i := by
  unfold iA; split <;> omega

theorem iA_lt {na : Nat} (h4 : 4 ≤ na) (i : Nat) : iA na i < cntB na (i + 1) := by
  rw [cntB_succ h4]
  unfold iA
  split <;> omega

/-- an index in the slot of position `p` is `≤` the last index of position `m` iff `p ≤ m` -/
theorem slot_le_iff {na : Nat} (h4 : 4 ≤ na) {p m x : Nat} (h1 : cntB na p ≤ x)
    (h2 : x < cntB na (p + 1)) : x ≤ iA na m ↔ p ≤ m := by
  rw [iA_eq h4]
  constructor
  · intro h
    by_cases e : p ≤ m
    · exact e
    · have := cntB_mono h4 (show m + 1 ≤ p by omega)
      have := cntB_mono h4 (show 1 ≤ m + 1 by omega)
      rw [cntB_one] at this
      omega
  · intro h
    have := cntB_mono h4 (show p + 1 ≤ m + 1 by omega)
    omega

/-- slots of different positions are disjoint -/
theorem slot_inj {na : Nat} (h4 : 4 ≤ na) {p q x : Nat} (h1 : cntB na p ≤ x)
    (h2 : x < cntB na (p + 1)) (h3 : cntB na q ≤ x) (h4' : x < cntB na (q + 1)) : p = q := by
  by_cases e : p = q
  · exact e
  · exfalso
    by_cases hl : p < q
    · have := cntB_mono h4 (show p + 1 ≤ q by omega); omega
    · have := cntB_mono h4 (show q + 1 ≤ p by omega); omega

/-! ## the remap tables -/

def remFoldB (na st m : Nat) : Array Nat × Array Nat × Nat :=
  (List.range m).foldl (idsRemStep na st) (#[], #[], 0)

theorem remFoldB_succ (na st m : Nat) :
    remFoldB na st (m + 1) = idsRemStep na st (remFoldB na st m) m := by
  unfold remFoldB
  rw [List.range_succ, List.foldl_append]
  rfl

theorem idsRemStep_cases {na : Nat} (h4 : 4 ≤ na) (st : Nat) (acc : Array Nat × Array Nat × Nat)
    (i : Nat) :
    idsRemStep na st acc i =
      (acc.1.push (if i + 1 = na then 0 else acc.2.2),
        acc.2.1.push (if i + 2 = na then 0 else if sgl na i then acc.2.2 else acc.2.2 + st),
        acc.2.2 + if sgl na i then st else 2 * st) := by
  unfold idsRemStep sgl
  by_cases h0 : i < 2
  · have e1 : (i == DEAD || i == FAIL) = true := by
      simp only [DEAD, FAIL, Bool.or_eq_true, beq_iff_eq]; omega
    simp only [e1, if_true]
    rw [if_neg (by omega), if_neg (by omega), if_pos (Or.inl h0), if_pos (Or.inl h0)]
  · have e1 : (i == DEAD || i == FAIL) = false := by
      simp only [DEAD, FAIL, Bool.or_eq_false_iff, beq_eq_false_iff_ne, ne_eq]; omega
    simp only [e1, Bool.false_eq_true, if_false]
    by_cases h2 : i + 2 = na
    · have e2 : (i == na - 2) = true := by simp only [beq_iff_eq]; omega
      simp only [e2, if_true]
      rw [if_neg (by omega), if_pos h2, if_pos (Or.inr (Or.inl h2))]
    · have e2 : (i == na - 2) = false := by simp only [beq_eq_false_iff_ne, ne_eq]; omega
      simp only [e2, Bool.false_eq_true, if_false]
      by_cases h3 : i + 1 = na
      · have e3 : (i == na - 1) = true := by simp only [beq_iff_eq]; omega
        simp only [e3, if_true]
        rw [if_pos h3, if_neg h2, if_pos (Or.inr (Or.inr h3)), if_pos (Or.inr (Or.inr h3))]
      · have e3 : (i == na - 1) = false := by simp only [beq_eq_false_iff_ne, ne_eq]; omega
        simp only [e3, Bool.false_eq_true, if_false]
        have ns : ¬ (i < 2 ∨ i + 2 = na ∨ i + 1 = na) := by omega
        rw [if_neg h3, if_neg h2, if_neg ns, if_neg ns]

/-- `remap_unanchored` at position `i` -/
def vU (na st i : Nat) : Nat := if i + 1 = na then 0 else cntB na i * st

/-- `remap_anchored` at position `i` -/
def vA (na st i : Nat) : Nat := if i + 2 = na then 0 else iA na i * st

structure RemB (na st m : Nat) (acc : Array Nat × Array Nat × Nat) : Prop where
  sizeU : acc.1.size = m
  sizeA : acc.2.1.size = m
  next : acc.2.2 = cntB na m * st
  valU : ∀ i, i < m → acc.1.getD i 0 = vU na st i
  valA : ∀ i, i < m → acc.2.1.getD i 0 = vA na st i

theorem remFoldB_spec {na : Nat} (h4 : 4 ≤ na) (st m : Nat) : RemB na st m (remFoldB na st m) := by
  induction m with
  | zero =>
    exact ⟨rfl, rfl, by rw [cntB_zero, Nat.zero_mul]; rfl, (by intro i hi; omega),
      (by intro i hi; omega)⟩
  | succ m ih =>
    rw [remFoldB_succ, idsRemStep_cases h4]
    refine ⟨?_, ?_, ?_, ?_, ?_⟩
    · simp [ih.sizeU]
    · simp [ih.sizeA]
    · show (remFoldB na st m).2.2 + (if sgl na m then st else 2 * st) = cntB na (m + 1) * st
      rw [cntB_succ h4, ih.next, Nat.add_mul]
      by_cases hs : sgl na m
      · rw [if_pos hs, if_pos hs, Nat.one_mul]
      · rw [if_neg hs, if_neg hs]
    · intro i hi
      show (Array.push _ _).getD i 0 = _
      by_cases him : i < m
      · rw [getD_push_lt _ _ _ (by rw [ih.sizeU]; exact him)]; exact ih.valU i him
      · have : i = m := by omega
        subst this
        have := getD_push_size (remFoldB na st i).1 (if i + 1 = na then 0 else (remFoldB na st i).2.2) 0
        rw [ih.sizeU] at this
        rw [this, ih.next]; rfl
    · intro i hi
      show (Array.push _ _).getD i 0 = _
      by_cases him : i < m
      · rw [getD_push_lt _ _ _ (by rw [ih.sizeA]; exact him)]; exact ih.valA i him
      · have : i = m := by omega
        subst this
        have := getD_push_size (remFoldB na st i).2.1
          (if i + 2 = na then 0 else if sgl na i then (remFoldB na st i).2.2
            else (remFoldB na st i).2.2 + st) 0
        rw [ih.sizeA] at this
        rw [this, ih.next]
        unfold vA iA
        split
        · rfl
        · split
          · rfl
          · rw [Nat.add_mul, Nat.one_mul]

/-! ## the interleaved rows / match lists -/

section
variable (n : CNfa) (classOf : UInt8 → Nat) (nc na : Nat) (order : Array Nat) (remU remA : Nat → Nat)

def rowsFoldB (m : Nat) : Array (Array Nat) × Array (List Nat) :=
  (List.range m).foldl (idsRowsStep n classOf nc na order remU remA) (#[], #[])

theorem rowsFoldB_succ (m : Nat) :
    rowsFoldB n classOf nc na order remU remA (m + 1) =
      idsRowsStep n classOf nc na order remU remA (rowsFoldB n classOf nc na order remU remA m) m := by
  unfold rowsFoldB
  rw [List.range_succ, List.foldl_append]
  rfl

theorem idsRowsStep_cases (h4 : 4 ≤ na) (acc : Array (Array Nat) × Array (List Nat)) (i : Nat) :
    idsRowsStep n classOf nc na order remU remA acc i =
      if i < 2 then (acc.1.push (Array.replicate nc 0), acc.2.push [])
      else if i + 2 = na then
        (acc.1.push (idsStartRow n classOf nc remU (order.getD i 0)),
          acc.2.push (n.getD (order.getD i 0) {}).matches_)
      else if i + 1 = na then
        (acc.1.push (idsStartRow n classOf nc remA (order.getD i 0)),
          acc.2.push (n.getD (order.getD i 0) {}).matches_)
      else
        ((acc.1.push (idsURow n classOf nc remU (order.getD i 0))).push
            (idsARow n classOf nc remA (order.getD i 0)),
          (acc.2.push (n.getD (order.getD i 0) {}).matches_).push
            (n.getD (order.getD i 0) {}).matches_) := by
  unfold idsRowsStep
  by_cases h0 : i < 2
  · have e1 : (i == DEAD || i == FAIL) = true := by
      simp only [DEAD, FAIL, Bool.or_eq_true, beq_iff_eq]; omega
    simp only [e1, if_true, if_pos h0]
  · have e1 : (i == DEAD || i == FAIL) = false := by
      simp only [DEAD, FAIL, Bool.or_eq_false_iff, beq_eq_false_iff_ne, ne_eq]; omega
    simp only [e1, Bool.false_eq_true, if_false, if_neg h0]
    by_cases h2 : i + 2 = na
    · have e2 : (i == na - 2) = true := by simp only [beq_iff_eq]; omega
      simp only [e2, Bool.true_or, if_true, if_pos h2]
    · have e2 : (i == na - 2) = false := by simp only [beq_eq_false_iff_ne, ne_eq]; omega
      simp only [e2, Bool.false_or, Bool.false_eq_true, if_false, if_neg h2]
      by_cases h3 : i + 1 = na
      · have e3 : (i == na - 1) = true := by simp only [beq_iff_eq]; omega
        simp only [e3, if_true, if_pos h3]
      · have e3 : (i == na - 1) = false := by simp only [beq_eq_false_iff_ne, ne_eq]; omega
        simp only [e3, Bool.false_eq_true, if_false, if_neg h3]

/-- what the arrays hold for position `i` -/
def RowAt (rows : Nat → Array Nat) (ms : Nat → List Nat) (i : Nat) : Prop :=
  if i < 2 then rows (cntB na i) = Array.replicate nc 0 ∧ ms (cntB na i) = []
  else if i + 2 = na then
    rows (cntB na i) = idsStartRow n classOf nc remU (order.getD i 0) ∧
      ms (cntB na i) = (n.getD (order.getD i 0) {}).matches_
  else if i + 1 = na then
    rows (cntB na i) = idsStartRow n classOf nc remA (order.getD i 0) ∧
      ms (cntB na i) = (n.getD (order.getD i 0) {}).matches_
  else
    rows (cntB na i) = idsURow n classOf nc remU (order.getD i 0) ∧
      rows (cntB na i + 1) = idsARow n classOf nc remA (order.getD i 0) ∧
      ms (cntB na i) = (n.getD (order.getD i 0) {}).matches_ ∧
      ms (cntB na i + 1) = (n.getD (order.getD i 0) {}).matches_

theorem RowAt_congr (h4 : 4 ≤ na) {rows rows' : Nat → Array Nat} {ms ms' : Nat → List Nat} {i : Nat}
    (hr : ∀ j, j < cntB na (i + 1) → rows' j = rows j)
    (hm : ∀ j, j < cntB na (i + 1) → ms' j = ms j)
    (h : RowAt n classOf nc na order remU remA rows ms i) :
    RowAt n classOf nc na order remU remA rows' ms' i := by
  have hs := cntB_succ h4 i
  unfold RowAt at h ⊢
  unfold sgl at hs
  by_cases h0 : i < 2
  · rw [if_pos h0] at h ⊢
    rw [if_pos (Or.inl h0)] at hs
    rw [hr _ (by omega), hm _ (by omega)]; exact h
  · rw [if_neg h0] at h ⊢
    by_cases h2 : i + 2 = na
    · rw [if_pos h2] at h ⊢
      rw [if_pos (Or.inr (Or.inl h2))] at hs
      rw [hr _ (by omega), hm _ (by omega)]; exact h
    · rw [if_neg h2] at h ⊢
      by_cases h3 : i + 1 = na
      · rw [if_pos h3] at h ⊢
        rw [if_pos (Or.inr (Or.inr h3))] at hs
        rw [hr _ (by omega), hm _ (by omega)]; exact h
      · rw [if_neg h3] at h ⊢
        rw [if_neg (by omega)] at hs
        rw [hr _ (by omega), hm _ (by omega), hr _ (by omega), hm _ (by omega)]; exact h

structure RowB (m : Nat) (acc : Array (Array Nat) × Array (List Nat)) : Prop where
  size1 : acc.1.size = cntB na m
  size2 : acc.2.size = cntB na m
  at_ : ∀ i, i < m →
    RowAt n classOf nc na order remU remA (fun j => acc.1.getD j #[]) (fun j => acc.2.getD j []) i

theorem rowsFoldB_spec (h4 : 4 ≤ na) (m : Nat) :
    RowB n classOf nc na order remU remA m (rowsFoldB n classOf nc na order remU remA m) := by
  induction m with
  | zero => exact ⟨rfl, rfl, (by intro i hi; omega)⟩
  | succ m ih =>
    rw [rowsFoldB_succ]
    generalize rowsFoldB n classOf nc na order remU remA m = acc at ih
    have hcs := cntB_succ h4 m
    have hcase := idsRowsStep_cases n classOf nc na order remU remA h4 acc m
    -- sizes and preservation of the old entries
    have hsz : (idsRowsStep n classOf nc na order remU remA acc m).1.size =
          acc.1.size + (if sgl na m then 1 else 2) ∧
        (idsRowsStep n classOf nc na order remU remA acc m).2.size =
          acc.2.size + (if sgl na m then 1 else 2) := by
      rw [hcase]
      unfold sgl
      by_cases h0 : m < 2
      · rw [if_pos h0, if_pos (Or.inl h0)]; simp
      · rw [if_neg h0]
        by_cases h2 : m + 2 = na
        · rw [if_pos h2, if_pos (Or.inr (Or.inl h2))]; simp
        · rw [if_neg h2]
          by_cases h3 : m + 1 = na
          · rw [if_pos h3, if_pos (Or.inr (Or.inr h3))]; simp
          · rw [if_neg h3, if_neg (by omega)]; simp
    have hp1 : ∀ j, j < acc.1.size →
        (idsRowsStep n classOf nc na order remU remA acc m).1.getD j #[] = acc.1.getD j #[] := by
      intro j hj
      rw [hcase]
      by_cases h0 : m < 2
      · rw [if_pos h0]; exact getD_push_lt _ _ _ hj
      · rw [if_neg h0]
        by_cases h2 : m + 2 = na
        · rw [if_pos h2]; exact getD_push_lt _ _ _ hj
        · rw [if_neg h2]
          by_cases h3 : m + 1 = na
          · rw [if_pos h3]; exact getD_push_lt _ _ _ hj
          · rw [if_neg h3]
            show (Array.push _ _).getD j #[] = _
            rw [getD_push_lt _ _ _ (by rw [Array.size_push]; omega), getD_push_lt _ _ _ hj]
    have hp2 : ∀ j, j < acc.2.size →
        (idsRowsStep n classOf nc na order remU remA acc m).2.getD j [] = acc.2.getD j [] := by
      intro j hj
      rw [hcase]
      by_cases h0 : m < 2
      · rw [if_pos h0]; exact getD_push_lt _ _ _ hj
      · rw [if_neg h0]
        by_cases h2 : m + 2 = na
        · rw [if_pos h2]; exact getD_push_lt _ _ _ hj
        · rw [if_neg h2]
          by_cases h3 : m + 1 = na
          · rw [if_pos h3]; exact getD_push_lt _ _ _ hj
          · rw [if_neg h3]
            show (Array.push _ _).getD j [] = _
            rw [getD_push_lt _ _ _ (by rw [Array.size_push]; omega), getD_push_lt _ _ _ hj]
    refine ⟨by rw [hsz.1, ih.size1, hcs], by rw [hsz.2, ih.size2, hcs], ?_⟩
    intro i hi
    by_cases him : i < m
    · have hle := cntB_mono h4 (show i + 1 ≤ m by omega)
      exact RowAt_congr n classOf nc na order remU remA h4
        (fun j hj => hp1 j (by rw [ih.size1]; omega))
        (fun j hj => hp2 j (by rw [ih.size2]; omega)) (ih.at_ i him)
    · have : i = m := by omega
      subst this
      unfold RowAt
      simp only
      rw [hcase]
      by_cases h0 : i < 2
      · rw [if_pos h0, if_pos h0]
        constructor
        · have := getD_push_size acc.1 (Array.replicate nc 0) #[]
          rw [ih.size1] at this; exact this
        · have := getD_push_size acc.2 ([] : List Nat) []
          rw [ih.size2] at this; exact this
      · rw [if_neg h0, if_neg h0]
        by_cases h2 : i + 2 = na
        · rw [if_pos h2, if_pos h2]
          constructor
          · have := getD_push_size acc.1 (idsStartRow n classOf nc remU (order.getD i 0)) #[]
            rw [ih.size1] at this; exact this
          · have := getD_push_size acc.2 (n.getD (order.getD i 0) {}).matches_ []
            rw [ih.size2] at this; exact this
        · rw [if_neg h2, if_neg h2]
          by_cases h3 : i + 1 = na
          · rw [if_pos h3, if_pos h3]
            constructor
            · have := getD_push_size acc.1 (idsStartRow n classOf nc remA (order.getD i 0)) #[]
              rw [ih.size1] at this; exact this
            · have := getD_push_size acc.2 (n.getD (order.getD i 0) {}).matches_ []
              rw [ih.size2] at this; exact this
          · rw [if_neg h3, if_neg h3]
            refine ⟨?_, ?_, ?_, ?_⟩
            · show (Array.push _ _).getD _ _ = _
              rw [getD_push_lt _ _ _ (by rw [Array.size_push, ih.size1]; omega)]
              have := getD_push_size acc.1 (idsURow n classOf nc remU (order.getD i 0)) #[]
              rw [ih.size1] at this; exact this
            · show (Array.push _ _).getD _ _ = _
              have := getD_push_size (acc.1.push (idsURow n classOf nc remU (order.getD i 0)))
                (idsARow n classOf nc remA (order.getD i 0)) #[]
              rw [Array.size_push, ih.size1] at this; exact this
            · show (Array.push _ _).getD _ _ = _
              rw [getD_push_lt _ _ _ (by rw [Array.size_push, ih.size2]; omega)]
              have := getD_push_size acc.2 (n.getD (order.getD i 0) {}).matches_ []
              rw [ih.size2] at this; exact this
            · show (Array.push _ _).getD _ _ = _
              have := getD_push_size (acc.2.push (n.getD (order.getD i 0) {}).matches_)
                (n.getD (order.getD i 0) {}).matches_ []
              rw [Array.size_push, ih.size2] at this; exact this

end

end AcVerif.L1dIdsP
