import AcVerif.PreScan
/-!
# C19: the prefilter work of one search (`findScan`) is bounded

The in-loop prefilter call at position `at` is given the span `at..e`; its answer accounts for
the stretch from `at` to the reported position and the loop resumes

* at `i` for a candidate `.pos i` with `i > at` (the stretch is `at..i`: no overlap),
* at `m.start` for a confirmed match `.mtch m` with `m.start > at`, while the stretch is
  `at..m.stop`: the next stretch may overlap this one by the length of `m`.

`scanLoop_le` is the loop invariant for a prefilter whose confirmed matches are at most `L`
long: `scanLoop … at acc ≤ acc + scanBound L (e - at)` with `scanBound L n = n + L * (n - 1)`.
`L = 0` covers the prefilters that never confirm a match.  `scanLoop_le_quad` needs no length
bound and gives the quadratic bound `n (n + 1) / 2`.
-/
namespace AcVerif
variable {σ α : Type}

/-- `n + L * (n - 1)`: `n` bytes of span, plus one match length of overlap for every in-loop
call but the last -/
def scanBound (L n : Nat) : Nat := n + L * (n - 1)

namespace ScanP

theorem scanBound_zero_left (n : Nat) : scanBound 0 n = n := by
  simp [scanBound]

theorem le_scanBound (L n : Nat) : n ≤ scanBound L n := Nat.le_add_right _ _

theorem scanBound_mono (L : Nat) {n n' : Nat} (h : n' ≤ n) : scanBound L n' ≤ scanBound L n := by
  unfold scanBound
  have : L * (n' - 1) ≤ L * (n - 1) := Nat.mul_le_mul_left L (by omega)
  omega

/-- a jump of `d ≥ 0` bytes accounted as `d`: no overlap -/
theorem scanBound_jump (L : Nat) {n n' d : Nat} (h : d + n' ≤ n) :
    d + scanBound L n' ≤ scanBound L n := by
  unfold scanBound
  have : L * (n' - 1) ≤ L * (n - 1) := Nat.mul_le_mul_left L (by omega)
  omega

/-- a jump to `n'` remaining bytes accounted as up to `(n - n') + L`: one match of overlap -/
theorem scanBound_overlap (L : Nat) {n n' x : Nat} (h1 : n' + 1 ≤ n) (hx : x ≤ n)
    (hx' : x + n' ≤ n + L) : x + scanBound L n' ≤ scanBound L n := by
  unfold scanBound
  rcases Nat.eq_zero_or_pos n' with rfl | hpos
  · simp only [Nat.zero_sub, Nat.mul_zero, Nat.add_zero]
    omega
  · obtain ⟨k, rfl⟩ : ∃ k, n' = k + 1 := ⟨n' - 1, by omega⟩
    have h2 : L * (k + 1) ≤ L * (n - 1) := Nat.mul_le_mul_left L (by omega)
    rw [Nat.mul_succ] at h2
    simp only [Nat.add_sub_cancel]
    omega

/-- the hypothesis on the in-loop answers for one haystack and one span end: a candidate or a
confirmed match stays inside the span, a confirmed match is at most `L` long -/
def LoopOk (L : Nat) (pre : Option (Prefilter α)) (hay : List α) (e : Nat) : Prop :=
  ∀ p, pre = some p → ∀ a, a ≤ e →
    match p hay a e with
    | .none => True
    | .pos i => i ≤ e
    | .mtch m => m.stop ≤ e ∧ m.stop ≤ m.start + L

/-- loop invariant: the stretches still to come are bounded by `scanBound L (e - at)` -/
theorem scanLoop_le (A : Aut σ α) (hay : List α) (s e : Nat) (he : e ≤ hay.length)
    (pre : Option (Prefilter α)) (L : Nat) (hok : LoopOk L pre hay e) (anch earliest : Bool) :
    ∀ (n : Nat) (sid : σ) (at_ acc : Nat), e - at_ = n →
      scanLoop A hay s e he pre anch earliest sid at_ acc ≤ acc + scanBound L (e - at_) := by
  intro n
  induction n using Nat.strongRecOn with
  | _ n ih =>
    intro sid at_ acc hn
    have step : ∀ (sid' : σ) (acc' : Nat), acc' ≤ acc →
        at_ < e → scanLoop A hay s e he pre anch earliest sid' (at_ + 1) acc' ≤
          acc + scanBound L (e - at_) := by
      intro sid' acc' hacc hlt
      have := ih (e - (at_ + 1)) (by omega) sid' (at_ + 1) acc' rfl
      have hm := scanBound_mono L (show e - (at_ + 1) ≤ e - at_ by omega)
      omega
    rw [scanLoop]
    split
    · rename_i hlt
      simp only
      split
      · split
        · exact Nat.le_add_right _ _
        · split
          · split
            · split
              · exact Nat.le_add_right _ _
              · exact step _ _ (Nat.le_refl _) hlt
            · exact step _ _ (Nat.le_refl _) hlt
          · cases pre with
            | none => exact step _ _ (Nat.le_refl _) hlt
            | some p =>
              simp only
              have hp := hok p rfl at_ (Nat.le_of_lt hlt)
              cases hc : p hay at_ e with
              | none =>
                simp only [Cand.intoOption, Cand.extent]
                have := le_scanBound L (e - at_)
                omega
              | pos i =>
                rw [hc] at hp
                simp only at hp
                simp only [Cand.intoOption, Cand.extent]
                split
                · rename_i hgt
                  refine Nat.le_trans (ih (e - i) (by omega) _ i (acc + (i - at_)) rfl) ?_
                  have hj := scanBound_jump L (show (i - at_) + (e - i) ≤ e - at_ by omega)
                  omega
                · rename_i hle
                  refine Nat.le_trans
                    (ih (e - (at_ + 1)) (by omega) _ (at_ + 1) (acc + (i - at_)) rfl) ?_
                  have hm := scanBound_mono L (show e - (at_ + 1) ≤ e - at_ by omega)
                  omega
              | mtch m =>
                rw [hc] at hp
                simp only at hp
                obtain ⟨hp1, hp2⟩ := hp
                simp only [Cand.intoOption, Cand.extent]
                split
                · rename_i hgt
                  refine Nat.le_trans
                    (ih (e - m.start) (by omega) _ m.start (acc + (m.stop - at_)) rfl) ?_
                  have hj := scanBound_overlap L (n := e - at_) (n' := e - m.start)
                    (x := m.stop - at_) (by omega) (by omega) (by omega)
                  omega
                · rename_i hle
                  refine Nat.le_trans
                    (ih (e - (at_ + 1)) (by omega) _ (at_ + 1) (acc + (m.stop - at_)) rfl) ?_
                  have hj := scanBound_overlap L (n := e - at_) (n' := e - (at_ + 1))
                    (x := m.stop - at_) (by omega) (by omega) (by omega)
                  omega
      · exact step _ _ (Nat.le_refl _) hlt
    · exact Nat.le_add_right _ _

/-- The first loop iteration when the loop starts on the very position the initial call was made
at: the in-loop call is the initial call again, it answers the same candidate (extent 0) and the
loop moves on by one byte. -/
theorem scanLoop_le_first (A : Aut σ α) (hay : List α) (s e : Nat) (he : e ≤ hay.length)
    (pre : Option (Prefilter α)) (L : Nat) (hok : LoopOk L pre hay e) (anch earliest : Bool)
    (sid : σ) (at_ acc : Nat) (hfirst : ∀ p, pre = some p → p hay at_ e = .pos at_) :
    scanLoop A hay s e he pre anch earliest sid at_ acc ≤ acc + scanBound L (e - at_ - 1) := by
  have step : ∀ (sid' : σ), scanLoop A hay s e he pre anch earliest sid' (at_ + 1) acc ≤
      acc + scanBound L (e - at_ - 1) := by
    intro sid'
    have := scanLoop_le A hay s e he pre L hok anch earliest _ sid' (at_ + 1) acc rfl
    rw [show e - (at_ + 1) = e - at_ - 1 by omega] at this
    exact this
  rw [scanLoop]
  split
  · simp only
    split
    · split
      · exact Nat.le_add_right _ _
      · split
        · split
          · split
            · exact Nat.le_add_right _ _
            · exact step _
          · exact step _
        · cases pre with
          | none => exact step _
          | some p =>
            simp only [hfirst p rfl, Cand.intoOption, Cand.extent, Nat.sub_self, Nat.add_zero,
              gt_iff_lt, Nat.lt_irrefl, if_false]
            exact step _
    · exact step _
  · exact Nat.le_add_right _ _

/-! ## without a length bound: quadratic -/

/-- in-loop answers stay inside the span (nothing about the length of a confirmed match) -/
def LoopIn (pre : Option (Prefilter α)) (hay : List α) (e : Nat) : Prop :=
  ∀ p, pre = some p → ∀ a, a ≤ e →
    match p hay a e with
    | .none => True
    | .pos i => i ≤ e
    | .mtch m => m.stop ≤ e

theorem tri_step {n n' x : Nat} (h1 : n' + 1 ≤ n) (hx : x ≤ n) :
    2 * x + n' * (n' + 1) ≤ n * (n + 1) := by
  obtain ⟨k, rfl⟩ : ∃ k, n = k + 1 := ⟨n - 1, by omega⟩
  have h2 : n' * (n' + 1) ≤ k * (k + 1) := Nat.mul_le_mul (by omega) (by omega)
  have h3 : (k + 1) * (k + 1 + 1) = k * (k + 1) + 2 * (k + 1) := by
    rw [Nat.mul_succ (k + 1) (k + 1), Nat.succ_mul k (k + 1)]; omega
  omega

theorem tri_mono {n n' : Nat} (h : n' ≤ n) : n' * (n' + 1) ≤ n * (n + 1) :=
  Nat.mul_le_mul h (by omega)

/-- every in-loop call is given at most the rest of the span and the loop advances by at least
one byte: `2 * work ≤ n (n + 1)` -/
theorem scanLoop_le_quad (A : Aut σ α) (hay : List α) (s e : Nat) (he : e ≤ hay.length)
    (pre : Option (Prefilter α)) (hok : LoopIn pre hay e) (anch earliest : Bool) :
    ∀ (n : Nat) (sid : σ) (at_ acc : Nat), e - at_ = n →
      2 * scanLoop A hay s e he pre anch earliest sid at_ acc ≤
        2 * acc + (e - at_) * (e - at_ + 1) := by
  intro n
  induction n using Nat.strongRecOn with
  | _ n ih =>
    intro sid at_ acc hn
    have step : ∀ (sid' : σ) (acc' x : Nat), acc' = acc + x → x ≤ e - at_ →
        at_ < e → 2 * scanLoop A hay s e he pre anch earliest sid' (at_ + 1) acc' ≤
          2 * acc + (e - at_) * (e - at_ + 1) := by
      intro sid' acc' x hacc hx hlt
      have := ih (e - (at_ + 1)) (by omega) sid' (at_ + 1) acc' rfl
      have hm := tri_step (n := e - at_) (n' := e - (at_ + 1)) (x := x) (by omega) hx
      omega
    rw [scanLoop]
    split
    · rename_i hlt
      simp only
      split
      · split
        · omega
        · split
          · split
            · split
              · omega
              · exact step _ _ 0 rfl (Nat.zero_le _) hlt
            · exact step _ _ 0 rfl (Nat.zero_le _) hlt
          · cases pre with
            | none => exact step _ _ 0 rfl (Nat.zero_le _) hlt
            | some p =>
              simp only
              have hp := hok p rfl at_ (Nat.le_of_lt hlt)
              cases hc : p hay at_ e with
              | none =>
                simp only [Cand.intoOption, Cand.extent]
                have := tri_step (n := e - at_) (n' := 0) (x := e - at_) (by omega)
                  (Nat.le_refl _)
                omega
              | pos i =>
                rw [hc] at hp
                simp only at hp
                simp only [Cand.intoOption, Cand.extent]
                split
                · rename_i hgt
                  refine Nat.le_trans (ih (e - i) (by omega) _ i (acc + (i - at_)) rfl) ?_
                  have hj := tri_step (n := e - at_) (n' := e - i) (x := i - at_) (by omega)
                    (by omega)
                  omega
                · exact step _ _ (i - at_) rfl (by omega) hlt
              | mtch m =>
                rw [hc] at hp
                simp only at hp
                simp only [Cand.intoOption, Cand.extent]
                split
                · rename_i hgt
                  refine Nat.le_trans
                    (ih (e - m.start) (by omega) _ m.start (acc + (m.stop - at_)) rfl) ?_
                  have hj := tri_step (n := e - at_) (n' := e - m.start) (x := m.stop - at_)
                    (by omega) (by omega)
                  omega
                · exact step _ _ (m.stop - at_) rfl (by omega) hlt
      · exact step _ _ 0 rfl (Nat.zero_le _) hlt
    · omega

end ScanP
end AcVerif

namespace AcVerif
namespace ScanP
variable {σ α : Type}

/-- `findScan` case by case: the initial answer ends the search (`.none`, `.mtch`) or starts
the loop (`.pos`) -/
theorem findScan_le_of (A : Aut σ α) (pre : Option (Prefilter α)) (i : Input α) (B : Nat)
    (hnone : ∀ p, pre = some p → i.s ≤ i.e → p i.hay i.s i.e = .none → i.e - i.s ≤ B)
    (hmtch : ∀ p m, pre = some p → i.s ≤ i.e → p i.hay i.s i.e = .mtch m → m.stop - i.s ≤ B)
    (hpos : ∀ p j, pre = some p → i.s ≤ i.e → p i.hay i.s i.e = .pos j →
      ∀ earliest sid, scanLoop A i.hay i.s i.e i.valid.1 pre false earliest sid j (j - i.s) ≤ B) :
    findScan A pre i ≤ B := by
  unfold findScan
  split
  · exact Nat.zero_le _
  · rename_i hd
    have hse : i.s ≤ i.e := by
      simp only [Input.isDone, decide_eq_true_eq] at hd
      omega
    simp only
    split
    · exact Nat.zero_le _
    · unfold scanImp
      split
      · exact Nat.zero_le _
      · split
        · exact Nat.zero_le _
        · cases pre with
          | none => exact Nat.zero_le _
          | some p =>
            simp only
            split
            · rename_i hc
              simp only [Cand.extent, hc]
              exact hnone p rfl hse hc
            · rename_i m hc
              simp only [Cand.extent, hc]
              exact hmtch p m rfl hse hc
            · rename_i j hc
              simp only [Cand.extent, hc]
              exact hpos p j rfl hse hc _ _

end ScanP
end AcVerif
