import AcVerif.Proofs.AlphabetTrieInv
/-!
# L1-alphabet proofs, part 5: `trieBytes` of the compiled NFA are the edge bytes of the trie

The phases after `build_trie` (`set_anchored_start_state`, `add_unanchored_start_state_loop`,
`fill_failure_transitions`, `close_start_state_loop_for_leftmost`) keep the transitions of the
nodes `≥ 4` and rewrite only the targets `FAIL` (to the start state, then possibly to `DEAD`) of
the unanchored start state – exactly the entries that `trieBytes` filters out.
-/
namespace AcVerif.AlphaP
open AcVerif AcVerif.CNfa AcVerif.Alphabet AcVerif.L1cP AcVerif.L1cFoldP AcVerif.MiscP

/-- what the later phases do to the transitions -/
structure Shape (bt N : CNfa) : Prop where
  size : N.size = bt.size
  node : ∀ sid, 4 ≤ sid → (N.getD sid {}).trans = (bt.getD sid {}).trans
  root : ∃ h : Nat → Nat, (∀ t, 4 ≤ t → h t = t) ∧ (h SU = SU ∨ h SU = DEAD) ∧
    (N.getD SU {}).trans =
      (bt.getD SU {}).trans.map fun x => (x.1, h (if x.2 == FAIL then SU else x.2))

theorem shape_of_fill (k : MatchKind) {bt nf : CNfa} (h4 : 4 ≤ bt.size)
    (hs : nf.size = (startPhase bt).size)
    (ht : ∀ sid, (nf.getD sid {}).trans = ((startPhase bt).getD sid {}).trans) :
    Shape bt (closeStartLoop k nf) := by
  have hget := getD_startPhase bt h4
  have hsz : nf.size = bt.size := by rw [hs, size_startPhase]
  have hnode : ∀ sid, 4 ≤ sid → (nf.getD sid {}).trans = (bt.getD sid {}).trans := by
    intro sid h
    rw [ht, hget, if_neg (by simp only [SU]; omega), if_neg (by simp only [SA]; omega)]
  have hroot : (nf.getD SU {}).trans =
      (bt.getD SU {}).trans.map fun x => (x.1, if x.2 == FAIL then SU else x.2) := by
    rw [ht, hget, if_pos rfl]
  rw [closeStartLoop_eq]
  by_cases hc : (k.isLeftmost && isMatch nf SU) = true
  · rw [if_pos hc]
    have hSU : SU < nf.size := by rw [hsz]; simp only [SU]; omega
    have hg := getD_closeSU nf hSU
    refine ⟨by unfold closeSU; rw [Array.size_modify]; exact hsz, ?_, ?_⟩
    · intro sid h
      rw [hg, if_neg (by simp only [SU]; omega)]; exact hnode sid h
    · refine ⟨fun t => if t == SU then DEAD else t, ?_, Or.inr (by simp), ?_⟩
      · intro t h
        have : (t == SU) = false := by simp only [SU, beq_eq_false_iff_ne, ne_eq]; omega
        simp only [this, Bool.false_eq_true, if_false]
      · rw [hg, if_pos rfl]
        show (nf.getD SU {}).trans.map _ = _
        rw [hroot, List.map_map]
        rfl
  · rw [if_neg hc]
    exact ⟨hsz, hnode, id, fun _ _ => rfl, Or.inl rfl, hroot⟩

theorem compile_shape (k : MatchKind) (fold : Bool) (P : List (List UInt8)) :
    Shape (buildTrie k fold P) (compile k fold P) := by
  have h4 : 4 ≤ (buildTrie k fold P).size := (buildTrieBS_inv k fold P).1.size
  cases fold with
  | false =>
    obtain ⟨L, hT⟩ := buildTrie_spec k P
    have hB := PB_startPhase hT
    obtain ⟨pend, hF, _⟩ := fillFailure_spec (k := k) hB
    rw [compile_eq]
    exact shape_of_fill k h4 hF.size hF.trans
  | true =>
    obtain ⟨L, hT⟩ := buildTrie_fold_spec k P
    have hB := PBf_startPhase hT
    obtain ⟨pend, hF, _⟩ := fillFailure_spec_f (k := k) hB
    rw [compile_eq_f]
    exact shape_of_fill k h4 hF.size hF.trans

/-- `trieBytes` reads the edge bytes of the trie off the compiled automaton -/
theorem mem_trieBytes_iff {bt N : CNfa} (hT : TW bt) (hS : Shape bt N) (c : UInt8) :
    c ∈ trieBytes N ↔ Edge bt c := by
  obtain ⟨h, hh4, hhSU, hroot⟩ := hS.root
  have h4 := hT.size
  unfold trieBytes
  rw [List.mem_flatMap]
  constructor
  · rintro ⟨sid, hsid, hc⟩
    by_cases hsp : (sid == DEAD || sid == FAIL || sid == SU || sid == SA) = true
    · rw [if_pos hsp] at hc
      by_cases hsu : (sid == SU) = true
      · rw [if_pos hsu] at hc
        have e : sid = SU := by simpa using hsu
        subst e
        obtain ⟨x, hx, hxc⟩ := List.mem_map.1 hc
        obtain ⟨hx1, hx2⟩ := List.mem_filter.1 hx
        rw [hroot] at hx1
        obtain ⟨y, hy, hyx⟩ := List.mem_map.1 hx1
        subst hyx
        simp only at hxc hx2
        rcases hT.root y hy with e | e
        · exfalso
          have e' : (y.2 == FAIL) = true := by rw [e]; simp
          rw [e', if_pos rfl] at hx2
          rcases hhSU with e2 | e2
          · rw [e2] at hx2; simp at hx2
          · rw [e2] at hx2; simp at hx2
        · have hne : y.2 ≠ FAIL := by simp only [FAIL]; omega
          exact ⟨SU, y.2, Or.inl rfl, hne, by rw [← hxc]; exact hy⟩
      · rw [if_neg hsu] at hc; simp at hc
    · rw [if_neg hsp] at hc
      have hs4 : 4 ≤ sid := by
        simp only [DEAD, FAIL, SU, SA, Bool.or_eq_true, beq_iff_eq, not_or] at hsp
        omega
      rw [hS.node sid hs4] at hc
      obtain ⟨x, hx, hxc⟩ := List.mem_map.1 hc
      have := hT.node sid hs4 x hx
      exact ⟨sid, x.2, Or.inr hs4, by simp only [FAIL]; omega, by rw [← hxc]; exact hx⟩
  · rintro ⟨sid, t, hs, ht, hm⟩
    rcases hs with e | e
    · subst e
      refine ⟨SU, List.mem_range.2 (by rw [hS.size]; simp only [SU]; omega), ?_⟩
      have hsp : (SU == DEAD || SU == FAIL || SU == SU || SU == SA) = true := by decide
      rw [if_pos hsp, if_pos (by simp)]
      rcases hT.root _ hm with e | e
      · exact absurd e ht
      · have e : 4 ≤ t ∧ t < bt.size := e
        have hne : (t == FAIL) = false := by simp only [FAIL, beq_eq_false_iff_ne, ne_eq]; omega
        refine List.mem_map.2 ⟨(c, t), List.mem_filter.2 ⟨?_, ?_⟩, rfl⟩
        · rw [hroot]
          refine List.mem_map.2 ⟨(c, t), hm, ?_⟩
          simp only [hne, Bool.false_eq_true, if_false, hh4 t e.1]
        · simp only [FAIL, SU, DEAD, Bool.and_eq_true, bne_iff_ne, ne_eq]
          omega
    · have hlt : sid < bt.size := by
        by_cases hlt : sid < bt.size
        · exact hlt
        · rw [getD_of_size_le _ (by omega)] at hm; simp at hm
      refine ⟨sid, List.mem_range.2 (by rw [hS.size]; exact hlt), ?_⟩
      have hsp : ¬ (sid == DEAD || sid == FAIL || sid == SU || sid == SA) = true := by
        simp only [DEAD, FAIL, SU, SA, Bool.or_eq_true, beq_iff_eq, not_or]
        omega
      rw [if_neg hsp, hS.node sid e]
      exact List.mem_map.2 ⟨(c, t), hm, rfl⟩

/-- the edge bytes of the trie are the `trieBytes` of the compiled automaton -/
theorem mem_trieBytes_compile (k : MatchKind) (fold : Bool) (P : List (List UInt8)) (c : UInt8) :
    c ∈ trieBytes (compile k fold P) ↔ Edge (buildTrie k fold P) c :=
  mem_trieBytes_iff (buildTrieBS_inv k fold P).1 (compile_shape k fold P) c

/-- the byte set filled by `build_trie` holds exactly the marks of `trieBytes` -/
theorem byteset_marks (k : MatchKind) (fold : Bool) (P : List (List UInt8)) (m : UInt8) :
    (buildTrieBS k fold P).2.set.contains m = true ↔
      m ∈ marksOf (trieBytes (compile k fold P)) := by
  rw [(buildTrieBS_inv k fold P).2.marks, mem_marksOf]
  constructor
  · rintro ⟨c, hc, hm⟩; exact ⟨c, (mem_trieBytes_compile k fold P c).2 hc, hm⟩
  · rintro ⟨c, hc, hm⟩; exact ⟨c, (mem_trieBytes_compile k fold P c).1 hc, hm⟩

end AcVerif.AlphaP
