import AcVerif.Fold
/-!
# Finite facts about ASCII case folding, by complete enumeration of the 256 bytes
-/
namespace AcVerif.MiscP

/-- a property of all bytes follows from the property of `UInt8.ofNat n` for the 256 values -/
theorem forall_uint8 (p : UInt8 → Prop) (h : ∀ n, n < 256 → p (UInt8.ofNat n)) : ∀ b, p b := by
  intro b
  have := h b.toNat b.toNat_lt
  simpa using this

theorem forall_uint8_2 (p : UInt8 → UInt8 → Prop)
    (h : ∀ n, n < 256 → ∀ m, m < 256 → p (UInt8.ofNat n) (UInt8.ofNat m)) : ∀ a b, p a b :=
  fun a b => forall_uint8 (fun a => p a b)
    (fun n hn => forall_uint8 (fun b => p (UInt8.ofNat n) b) (h n hn) b) a

theorem fold_idem : ∀ b : UInt8, foldByte (foldByte b) = foldByte b := by
  apply forall_uint8
  decide +kernel

theorem fold_nonletter : ∀ b : UInt8,
    ¬ ((0x41 ≤ b ∧ b ≤ 0x5A) ∨ (0x61 ≤ b ∧ b ≤ 0x7A)) → foldByte b = b ∧ oppositeAsciiCase b = b := by
  apply forall_uint8
  decide +kernel

theorem opp_involution : ∀ b : UInt8, oppositeAsciiCase (oppositeAsciiCase b) = b := by
  apply forall_uint8
  decide +kernel

theorem fold_opp : ∀ b : UInt8, foldByte (oppositeAsciiCase b) = foldByte b := by
  apply forall_uint8
  decide +kernel

theorem fold_self_or_opp : ∀ b : UInt8, foldByte b = b ∨ foldByte b = oppositeAsciiCase b := by
  apply forall_uint8
  decide +kernel

theorem fold_eq_iff (a b : UInt8) :
    foldByte a = foldByte b ↔ a = b ∨ a = oppositeAsciiCase b := by
  constructor
  · intro h
    rcases fold_self_or_opp a with ha | ha <;> rcases fold_self_or_opp b with hb | hb <;>
      rw [ha, hb] at h
    · exact Or.inl h
    · exact Or.inr h
    · right; rw [← h, opp_involution]
    · left; rw [← opp_involution a, h, opp_involution]
  · rintro (rfl | rfl)
    · rfl
    · exact fold_opp b

end AcVerif.MiscP
