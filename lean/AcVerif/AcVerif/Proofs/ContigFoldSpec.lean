import AcVerif.Proofs.ContigSpec
import AcVerif.Proofs.CompilerFoldFinal
/-!
# L1e (fold) proofs, part 1: the NFA compiled with `ascii_case_insensitive` meets `FSf` and the
list-level facts `FX`

Port of `Proofs/ContigSpec.lean` (`compile_specX`) to the folding compiler: sorted transition
lists, no `FAIL` target at trie nodes, full start states hold for `CNfa.compile k true P` too (they
are fields of the trie / start-phase invariants `TIf` / `PBf`, and the failure phase keeps the
lists).  `FX`, `FX_closeStartLoop` are re-used unchanged.
-/
namespace AcVerif.L1eFoldP
open AcVerif AcVerif.CNfa AcVerif.L1cP AcVerif.L1cFoldP AcVerif.L1eP

/-- `FX` at the end of the failure phase -/
theorem FX_of_FI_f {k : MatchKind} {Q : PatSet UInt8} {L : List (List UInt8)} {nT n : CNfa}
    {pend : List (List UInt8)} (hT : TIf nT L Q []) (h : FI k Q L (startPhase nT) n pend) :
    FX L n := by
  have hB := PBf_startPhase hT
  have h4 : 4 ≤ nT.size := by rw [hT.size]; omega
  refine { sorted := ?_, nofail := ?_, fullSU := ?_, fullSA := ?_ }
  · intro sid; rw [h.trans]; exact hB.sorted sid
  · intro u hu x hx; rw [h.trans] at hx; exact hB.nofail u hu x hx
  · intro b; rw [h.trans]; exact hB.full b
  · intro b
    rw [h.trans, getD_startPhase nT h4, if_neg (by simp [SA, SU]), if_pos rfl]
    exact hT.full b

/-- the compiled automaton meets `FSf` and the list-level facts `FX`, for the same node list `L` -/
theorem compile_specX_f (k : MatchKind) (P : List (List UInt8)) :
    ∃ L, FSf k (patSet k (P.map (·.map foldByte))) L (compile k true P) ∧ FX L (compile k true P) := by
  obtain ⟨L, hT⟩ := buildTrie_fold_spec k P
  have hB := PBf_startPhase hT
  obtain ⟨pend, hF, hall⟩ := fillFailure_spec_f (k := k) hB
  refine ⟨L, by rw [compile_eq_f]; exact FSf_of_FI hB hF hall, ?_⟩
  rw [compile_eq_f]
  apply FX_closeStartLoop k
  · rw [hF.size, hB.size]; simp [SU]
  · intro u hu
    have := nu_ge (L := L) (hB.ne_nil hu)
    simp only [SU]; omega
  · exact FX_of_FI_f hT hF



/-! ## match flags of the special states -/

/-- under `FSf`, the two start states have the same match list, and the dead state none -/
theorem FSf_isMatch_SU_SA {k : MatchKind} {Q : PatSet UInt8} {L : List (List UInt8)} {N : CNfa}
    (h : FSf k Q L N) : CNfa.isMatch N SU = CNfa.isMatch N SA := by
  have h1 := h.mats [] (Or.inl rfl)
  rw [nu_nil] at h1
  rw [isMatch_eq, isMatch_eq, h1, h.mats_sa]

theorem FSf_isMatch_dead {k : MatchKind} {Q : PatSet UInt8} {L : List (List UInt8)} {N : CNfa}
    (h : FSf k Q L N) : CNfa.isMatch N DEAD = false := by
  rw [isMatch_eq, h.mats_dead]; rfl

end AcVerif.L1eFoldP
