import AcVerif.TopLevel2
import AcVerif.Proofs.TopLevelPreEarliest
/-!
# Capstone proofs, part 7: stream replace and stream faults on a searcher returned by the builder

* `ref_stream_replace`, `ref_read_fault`, `ref_write_fault`: C08 / C18 (and their `Fold` versions) on
  the reference automaton, uniformly in `fold`, without the (unused) hypothesis `P ≠ []`;
* `Good.stream_replace_ref`: the stream replace on the searcher's automaton is the stream replace on
  the prefilter-free reference automaton;
* `api_whole_iter_ref`: the in-memory iterator over the whole haystack on a good searcher whose
  prefilter (if any) is sound is the iterator of the prefilter-free reference automaton;
* `api_stream_replace_with`, `api_stream_read_fault`, `api_stream_write_fault`: the public methods.
-/
namespace AcVerif.TopP
open AcVerif AcVerif.MiscP AcVerif.StreamP AcVerif.StreamX AcVerif.StdP

/-! ## the reference automaton -/

section ref
variable (f : Bool) (P : List (List UInt8)) (hne : ∀ p ∈ P, p ≠ [])
  (sk : StartKind) (hsk : supportsAnch sk false) (data : List UInt8) (sched : List Nat)
  (hs : ∀ x ∈ sched, 1 ≤ x) (spare : Option Nat) (minFactor defaultCap : Nat)
  (hcap : (Buffer.new (α := UInt8) (maxPatLen P) spare minFactor defaultCap).min <
      (Buffer.new (α := UInt8) (maxPatLen P) spare minFactor defaultCap).cap)
include hne hsk hs hcap

/-- C08: stream replace = in-memory replace over the in-memory iterator's matches -/
theorem ref_stream_replace (repl : Mat → List UInt8) :
    ∃ ms,
      findIter (refAut f .std P sk false) none (Input.whole data) = .ok ms ∧
      streamReplaceWith (refAut f .std P sk false) { data := data, sched := sched } spare {} repl
        minFactor defaultCap =
        .ok ({ out := (replaceBytes data ms repl none).1 },
          (replaceBytes data ms repl none).2, true, 0) := by
  cases f
  · have hcap' : (Buffer.new (α := UInt8) (ideal .std P sk false).maxLen spare minFactor
          defaultCap).min <
        (Buffer.new (α := UInt8) (ideal .std P sk false).maxLen spare minFactor defaultCap).cap :=
      hcap
    obtain ⟨it, cs, err, hnew, hd, hsp, he, hgo⟩ :=
      stream_master P sk hsk hne data sched hs spare minFactor defaultCap hcap' none
    have herr := he rfl
    subst herr
    have H := hyp_ideal P sk hsk hne data sched hs spare minFactor defaultCap hcap'
    have hm := (spec_mats H.FOK hsp (Nat.zero_le _)).2 rfl
    refine ⟨_, findIter_eq P sk hsk data, ?_⟩
    show streamReplaceWith (ideal .std P sk false) _ _ _ _ _ _ = _
    rw [iter_findAt P sk hsk hne data, ← hm]
    have hr := spec_replace repl hsp (Nat.le_refl _) 0 [] []
    rw [slice_self, List.append_nil] at hr
    simp only [streamReplaceWith, hnew, hgo]
    rw [hr]
    rfl
  · have hcap' : (Buffer.new (α := UInt8)
          ((ideal .std (P.map (·.map foldByte)) sk false).comap foldByte).maxLen spare minFactor
          defaultCap).min <
        (Buffer.new (α := UInt8)
          ((ideal .std (P.map (·.map foldByte)) sk false).comap foldByte).maxLen spare minFactor
          defaultCap).cap := by
      rw [foldAut_maxLen]; exact hcap
    have hnef := foldPats_ne P hne
    obtain ⟨it, cs, err, hnew, hd, hsp, he, hgo⟩ :=
      stream_master_comap _ foldByte sk hsk hnef data sched hs spare minFactor defaultCap hcap'
        none
    have herr := he rfl
    subst herr
    have H := hyp_comap _ foldByte sk hsk hnef data sched hs spare minFactor defaultCap hcap'
    have hm := (spec_mats H.FOK hsp (Nat.zero_le _)).2 rfl
    refine ⟨_, findIter_comap_eq _ foldByte sk hsk data, ?_⟩
    show streamReplaceWith ((ideal .std (P.map (·.map foldByte)) sk false).comap foldByte)
      _ _ _ _ _ _ = _
    rw [iter_findAt_comap _ foldByte sk hsk hnef data, ← hm]
    have hr := spec_replace repl hsp (Nat.le_refl _) 0 [] []
    rw [slice_self, List.append_nil] at hr
    simp only [streamReplaceWith, hnew, hgo]
    rw [hr]
    rfl

/-- C18: a read failure at call `k` -/
theorem ref_read_fault (k : Nat) :
    ∃ ms ms' err er,
      streamFind (refAut f .std P sk false) { data := data, sched := sched } spare
        minFactor defaultCap = .ok (ms, false, 0) ∧
      streamFind (refAut f .std P sk false) { data := data, sched := sched, failAt := some k }
        spare minFactor defaultCap = .ok (ms', err, er) ∧
      ms' <+: ms ∧ er = 0 ∧ (err = false → ms' = ms) := by
  cases f
  · have hcap' : (Buffer.new (α := UInt8) (ideal .std P sk false).maxLen spare minFactor
          defaultCap).min <
        (Buffer.new (α := UInt8) (ideal .std P sk false).maxLen spare minFactor defaultCap).cap :=
      hcap
    obtain ⟨it, cs, err, hnew, hd, hsp, he, _⟩ :=
      stream_master P sk hsk hne data sched hs spare minFactor defaultCap hcap' none
    have herr := he rfl
    subst herr
    obtain ⟨it', cs', err', hnew', hd', hsp', _, _⟩ :=
      stream_master P sk hsk hne data sched hs spare minFactor defaultCap hcap' (some k)
    have H := hyp_ideal P sk hsk hne data sched hs spare minFactor defaultCap hcap'
    have hm := (spec_mats H.FOK hsp (Nat.zero_le _)).2 rfl
    have hm' := spec_mats H.FOK hsp' (Nat.zero_le _)
    refine ⟨chunkMats cs, chunkMats cs', err', 0, ?_, ?_, ?_, rfl, ?_⟩
    · show streamFind (ideal .std P sk false) _ _ _ _ = _
      simp only [streamFind, hnew, hd]; rfl
    · show streamFind (ideal .std P sk false) _ _ _ _ = _
      simp only [streamFind, hnew', hd']; rfl
    · rw [hm]; exact hm'.1
    · intro h; rw [hm, hm'.2 h]
  · have hcap' : (Buffer.new (α := UInt8)
          ((ideal .std (P.map (·.map foldByte)) sk false).comap foldByte).maxLen spare minFactor
          defaultCap).min <
        (Buffer.new (α := UInt8)
          ((ideal .std (P.map (·.map foldByte)) sk false).comap foldByte).maxLen spare minFactor
          defaultCap).cap := by
      rw [foldAut_maxLen]; exact hcap
    have hnef := foldPats_ne P hne
    obtain ⟨it, cs, err, hnew, hd, hsp, he, _⟩ :=
      stream_master_comap _ foldByte sk hsk hnef data sched hs spare minFactor defaultCap hcap'
        none
    have herr := he rfl
    subst herr
    obtain ⟨it', cs', err', hnew', hd', hsp', _, _⟩ :=
      stream_master_comap _ foldByte sk hsk hnef data sched hs spare minFactor defaultCap hcap'
        (some k)
    have H := hyp_comap _ foldByte sk hsk hnef data sched hs spare minFactor defaultCap hcap'
    have hm := (spec_mats H.FOK hsp (Nat.zero_le _)).2 rfl
    have hm' := spec_mats H.FOK hsp' (Nat.zero_le _)
    refine ⟨chunkMats cs, chunkMats cs', err', 0, ?_, ?_, ?_, rfl, ?_⟩
    · show streamFind ((ideal .std (P.map (·.map foldByte)) sk false).comap foldByte) _ _ _ _ = _
      simp only [streamFind, hnew, hd]; rfl
    · show streamFind ((ideal .std (P.map (·.map foldByte)) sk false).comap foldByte) _ _ _ _ = _
      simp only [streamFind, hnew', hd']; rfl
    · rw [hm]; exact hm'.1
    · intro h; rw [hm, hm'.2 h]

/-- C18: a writer that fails after `l` bytes -/
theorem ref_write_fault (repl : Mat → List UInt8) (l : Nat) :
    ∃ w w' log log' ok',
      streamReplaceWith (refAut f .std P sk false) { data := data, sched := sched } spare {} repl
        minFactor defaultCap = .ok (w, log, true, 0) ∧
      streamReplaceWith (refAut f .std P sk false) { data := data, sched := sched } spare
        { limit := some l } repl minFactor defaultCap = .ok (w', log', ok', 0) ∧
      w'.out <+: w.out ∧ w'.out.length ≤ l ∧ (ok' = true → w'.out = w.out) := by
  cases f
  · have hcap' : (Buffer.new (α := UInt8) (ideal .std P sk false).maxLen spare minFactor
          defaultCap).min <
        (Buffer.new (α := UInt8) (ideal .std P sk false).maxLen spare minFactor defaultCap).cap :=
      hcap
    obtain ⟨it, cs, err, hnew, hd, hsp, he, hgo⟩ :=
      stream_master P sk hsk hne data sched hs spare minFactor defaultCap hcap' none
    have herr := he rfl
    subst herr
    have h1 := goPure_nolimit repl cs false [] []
    have h2 := goPure_limit repl cs false l [] [] (Nat.zero_le _)
    refine ⟨(goPure repl cs false {} []).1, (goPure repl cs false { limit := some l } []).1,
      (goPure repl cs false {} []).2.1, (goPure repl cs false { limit := some l } []).2.1,
      (goPure repl cs false { limit := some l } []).2.2, ?_, ?_, h2.1, h2.2.1, h2.2.2⟩
    · show streamReplaceWith (ideal .std P sk false) _ _ _ _ _ _ = _
      simp only [streamReplaceWith, hnew, hgo]
      have : (goPure repl cs false {} []).2.2 = true := h1.2
      rw [this]
    · show streamReplaceWith (ideal .std P sk false) _ _ _ _ _ _ = _
      simp only [streamReplaceWith, hnew, hgo]
  · have hcap' : (Buffer.new (α := UInt8)
          ((ideal .std (P.map (·.map foldByte)) sk false).comap foldByte).maxLen spare minFactor
          defaultCap).min <
        (Buffer.new (α := UInt8)
          ((ideal .std (P.map (·.map foldByte)) sk false).comap foldByte).maxLen spare minFactor
          defaultCap).cap := by
      rw [foldAut_maxLen]; exact hcap
    have hnef := foldPats_ne P hne
    obtain ⟨it, cs, err, hnew, hd, hsp, he, hgo⟩ :=
      stream_master_comap _ foldByte sk hsk hnef data sched hs spare minFactor defaultCap hcap'
        none
    have herr := he rfl
    subst herr
    have h1 := goPure_nolimit repl cs false [] []
    have h2 := goPure_limit repl cs false l [] [] (Nat.zero_le _)
    refine ⟨(goPure repl cs false {} []).1, (goPure repl cs false { limit := some l } []).1,
      (goPure repl cs false {} []).2.1, (goPure repl cs false { limit := some l } []).2.1,
      (goPure repl cs false { limit := some l } []).2.2, ?_, ?_, h2.1, h2.2.1, h2.2.2⟩
    · show streamReplaceWith ((ideal .std (P.map (·.map foldByte)) sk false).comap foldByte)
        _ _ _ _ _ _ = _
      simp only [streamReplaceWith, hnew, hgo]
      have : (goPure repl cs false {} []).2.2 = true := h1.2
      rw [this]
    · show streamReplaceWith ((ideal .std (P.map (·.map foldByte)) sk false).comap foldByte)
        _ _ _ _ _ _ = _
      simp only [streamReplaceWith, hnew, hgo]

end ref

/-! ## a good searcher -/

section good
variable {s : Searcher} {kd : AcKind} (hg : Good s kd)
include hg

/-- the stream replace on the searcher's automaton is the stream replace on the prefilter-free
reference automaton (standard kind) -/
theorem Good.stream_replace_ref (hk : s.cfg.matchKind = .std) (rdr : Reader UInt8)
    (spare : Option Nat) (w : Writer UInt8) (repl : Mat → List UInt8)
    (minFactor defaultCap : Nat) :
    streamReplaceWith s.aut rdr spare w repl minFactor defaultCap =
      streamReplaceWith (refAut s.cfg.fold .std s.pats (autSk kd s.cfg.startKind) false) rdr spare
        w repl minFactor defaultCap := by
  have h := hg.startEquiv false
  rw [hk] at h
  exact (tiedTo_ref s.cfg.fold s.pats (autSk kd s.cfg.startKind) s.cfg.hasPre false
    ((aut_kind' s).trans hk) (toAut_patLen _ _ _) (toAut_minLen _ _ _) (toAut_maxLen _ _ _)
    h).streamReplaceWith rdr spare w repl minFactor defaultCap

/-- the in-memory iterator over the whole haystack is the iterator of the prefilter-free reference
automaton (the searcher's prefilter, if any, being sound) -/
theorem api_whole_iter_ref (hok : PreOK s.cfg.fold s.cfg.matchKind s.pats s.pre)
    (h : supportsAnch s.cfg.startKind false) (data : List UInt8) :
    topFindIter s (Input.whole data) =
      findIter (refAut s.cfg.fold s.cfg.matchKind s.pats (autSk kd s.cfg.startKind) false) none
        (Input.whole data) := by
  unfold topFindIter
  rw [show (Input.whole data).anch = false from rfl, gate_none h]
  show findIter s.aut s.pre (Input.whole data) = _
  cases hpre : s.pre with
  | none => rw [hg.iter_ref, hg.hasPre_false hpre]
  | some p =>
    rw [hpre] at hok
    rw [hg.iter_ref, hg.hasPre_true hpre,
      ref_iter_pre _ _ _ hok.1 p _ _ hok.2 (Or.inr rfl) (supports_autSk kd h)]

/-- **`try_stream_replace_all_with`** -/
theorem api_stream_replace_with (hok : PreOK s.cfg.fold s.cfg.matchKind s.pats s.pre)
    (hk : s.cfg.matchKind = .std) (hne : ∀ p ∈ s.pats, p ≠ [])
    (h : supportsAnch s.cfg.startKind false) (data : List UInt8) (sched : List Nat)
    (hs : ∀ x ∈ sched, 1 ≤ x) (spare : Option Nat) (minFactor defaultCap : Nat)
    (hcap : (Buffer.new (α := UInt8) (maxPatLen s.pats) spare minFactor defaultCap).min <
        (Buffer.new (α := UInt8) (maxPatLen s.pats) spare minFactor defaultCap).cap)
    (repl : Mat → List UInt8) :
    ∃ ms, topFindIter s (Input.whole data) = .ok ms ∧
      topStreamReplaceAllWith s { data := data, sched := sched } spare {} repl minFactor
          defaultCap =
        .ok ({ out := (replaceBytes data ms repl none).1 },
          (replaceBytes data ms repl none).2, true, 0) := by
  obtain ⟨ms, h1, h2⟩ := ref_stream_replace s.cfg.fold s.pats hne (autSk kd s.cfg.startKind)
    (supports_autSk kd h) data sched hs spare minFactor defaultCap hcap repl
  refine ⟨ms, ?_, ?_⟩
  · rw [api_whole_iter_ref hg hok h, hk, h1]
  · unfold topStreamReplaceAllWith
    rw [gate_none h]
    show streamReplaceWith s.aut _ spare _ repl minFactor defaultCap = _
    rw [hg.stream_replace_ref hk, h2]

/-- **`try_stream_replace_all`** with a replacement table of the right length -/
theorem api_stream_replace (hok : PreOK s.cfg.fold s.cfg.matchKind s.pats s.pre)
    (hk : s.cfg.matchKind = .std) (hne : ∀ p ∈ s.pats, p ≠ [])
    (h : supportsAnch s.cfg.startKind false) (data : List UInt8) (sched : List Nat)
    (hs : ∀ x ∈ sched, 1 ≤ x) (spare : Option Nat) (minFactor defaultCap : Nat)
    (hcap : (Buffer.new (α := UInt8) (maxPatLen s.pats) spare minFactor defaultCap).min <
        (Buffer.new (α := UInt8) (maxPatLen s.pats) spare minFactor defaultCap).cap)
    (replaceWith : List (List UInt8)) (hl : replaceWith.length = s.pats.length) :
    ∃ ms, topFindIter s (Input.whole data) = .ok ms ∧
      topStreamReplaceAll s { data := data, sched := sched } spare {} replaceWith minFactor
          defaultCap =
        .ok (.ret ({ out := (replaceBytes data ms (fun m => replaceWith.getD m.pid []) none).1 },
          true, 0)) := by
  obtain ⟨ms, h1, h2⟩ := api_stream_replace_with hg hok hk hne h data sched hs spare minFactor
    defaultCap hcap (fun m => replaceWith.getD m.pid [])
  refine ⟨ms, h1, ?_⟩
  unfold topStreamReplaceAllWith at h2
  rw [gate_none h] at h2
  have h2' : streamReplaceWith s.aut { data := data, sched := sched } spare {}
      (fun m => replaceWith.getD m.pid []) minFactor defaultCap = _ := h2
  have hpl : s.aut.patternsLen = s.pats.length := toAut_patternsLen _ _ _
  unfold topStreamReplaceAll
  rw [gate_none h]
  simp only [hpl, hl, ne_eq, not_true_eq_false, if_false, h2']

/-- **a read failure at call `k`** of `try_stream_find_iter` -/
theorem api_stream_read_fault (hk : s.cfg.matchKind = .std) (hne : ∀ p ∈ s.pats, p ≠ [])
    (h : supportsAnch s.cfg.startKind false) (data : List UInt8) (sched : List Nat)
    (hs : ∀ x ∈ sched, 1 ≤ x) (spare : Option Nat) (minFactor defaultCap : Nat)
    (hcap : (Buffer.new (α := UInt8) (maxPatLen s.pats) spare minFactor defaultCap).min <
        (Buffer.new (α := UInt8) (maxPatLen s.pats) spare minFactor defaultCap).cap)
    (k : Nat) :
    ∃ ms ms' err er,
      topStreamFind s { data := data, sched := sched } spare minFactor defaultCap =
        .ok (ms, false, 0) ∧
      topStreamFind s { data := data, sched := sched, failAt := some k } spare minFactor
        defaultCap = .ok (ms', err, er) ∧
      ms' <+: ms ∧ er = 0 ∧ (err = false → ms' = ms) := by
  obtain ⟨ms, ms', err, er, h1, h2, h3⟩ := ref_read_fault s.cfg.fold s.pats hne
    (autSk kd s.cfg.startKind) (supports_autSk kd h) data sched hs spare minFactor defaultCap hcap k
  refine ⟨ms, ms', err, er, ?_, ?_, h3⟩
  · unfold topStreamFind
    rw [gate_none h]
    show streamFind s.aut _ spare minFactor defaultCap = _
    rw [hg.stream_ref hk, h1]
  · unfold topStreamFind
    rw [gate_none h]
    show streamFind s.aut _ spare minFactor defaultCap = _
    rw [hg.stream_ref hk, h2]

/-- **a writer that fails after `l` bytes** in `try_stream_replace_all_with` -/
theorem api_stream_write_fault (hk : s.cfg.matchKind = .std) (hne : ∀ p ∈ s.pats, p ≠ [])
    (h : supportsAnch s.cfg.startKind false) (data : List UInt8) (sched : List Nat)
    (hs : ∀ x ∈ sched, 1 ≤ x) (spare : Option Nat) (minFactor defaultCap : Nat)
    (hcap : (Buffer.new (α := UInt8) (maxPatLen s.pats) spare minFactor defaultCap).min <
        (Buffer.new (α := UInt8) (maxPatLen s.pats) spare minFactor defaultCap).cap)
    (repl : Mat → List UInt8) (l : Nat) :
    ∃ w w' log log' ok',
      topStreamReplaceAllWith s { data := data, sched := sched } spare {} repl minFactor
        defaultCap = .ok (w, log, true, 0) ∧
      topStreamReplaceAllWith s { data := data, sched := sched } spare { limit := some l } repl
        minFactor defaultCap = .ok (w', log', ok', 0) ∧
      w'.out <+: w.out ∧ w'.out.length ≤ l ∧ (ok' = true → w'.out = w.out) := by
  obtain ⟨w, w', log, log', ok', h1, h2, h3⟩ := ref_write_fault s.cfg.fold s.pats hne
    (autSk kd s.cfg.startKind) (supports_autSk kd h) data sched hs spare minFactor defaultCap hcap
    repl l
  refine ⟨w, w', log, log', ok', ?_, ?_, h3⟩
  · unfold topStreamReplaceAllWith
    rw [gate_none h]
    show streamReplaceWith s.aut _ spare _ repl minFactor defaultCap = _
    rw [hg.stream_replace_ref hk, h1]
  · unfold topStreamReplaceAllWith
    rw [gate_none h]
    show streamReplaceWith s.aut _ spare _ repl minFactor defaultCap = _
    rw [hg.stream_replace_ref hk, h2]

end good

end AcVerif.TopP
