import AcVerif.Proofs.TopLevelApi
import AcVerif.Theorems.C05Resumed
import AcVerif.Theorems.C06
import AcVerif.Theorems.C19Scan
/-!
# Capstone proofs, part 5: searchers built *with* a prefilter

* `PreSoundFor` / `PreSoundOvlFor`: what the engines need of a prefilter function, uniformly in
  `ascii_case_insensitive` (the prefilter reads the raw haystack, occurrences are read on
  `specPats` / `specHay`); `ref_*_pre`: on the reference automaton the engines with a sound
  prefilter are the engines without (C05, C05Resumed);
* `build_packed_exact`, `builder_sound`, `builder_sound_ovl`: **every** prefilter
  `prefilter::Builder::build` can return is sound, with no side hypothesis: a packed searcher it
  returns is `PackedSearcher.new` of exactly the supplied patterns and the matching kind, so C06
  discharges the hypothesis `hC06` of `C05_builder_sound`;
* `api_*_pre`: the public methods on a good searcher carrying a sound prefilter.
-/
namespace AcVerif.TopP
open AcVerif AcVerif.MiscP AcVerif.PreP AcVerif.PreP2

/-! ## soundness of a prefilter function, uniformly in `fold` -/

/-- what the non-overlapping engines need (`PrefilterSoundAt` for every raw haystack) -/
def PreSoundFor (f : Bool) (k : MatchKind) (P : List (List UInt8)) (pre : Prefilter UInt8) : Prop :=
  ∀ hay, PrefilterSoundAt k (specPats f P) (pre hay) (specHay f hay)

/-- what the overlapping engine needs -/
def PreSoundOvlFor (f : Bool) (P : List (List UInt8)) (pre : Prefilter UInt8) : Prop :=
  ∀ hay, PrefilterSoundOvlAt (specPats f P) (pre hay) (specHay f hay)

theorem specPats_ne (f : Bool) {P : List (List UInt8)} (hne : ∀ p ∈ P, p ≠ []) :
    ∀ p ∈ specPats f P, p ≠ [] := by
  cases f
  · exact hne
  · exact foldPats_ne_nil hne

/-! ## transparency on the reference automaton -/

section ref
variable (f : Bool) (k : MatchKind) (P : List (List UInt8)) (hne : ∀ p ∈ P, p ≠ [])
  (pre : Prefilter UInt8) (sk : StartKind) (i : Input UInt8)
include hne

theorem ref_find_pre (hs : PreSoundFor f k P pre) (he : k = .std ∨ i.earliest = false)
    (h : supportsAnch sk i.anch) :
    tryFindFwd (refAut f k P sk true) (some pre) i = tryFindFwd (refAut f k P sk false) none i := by
  cases f
  · have hs' : PrefilterSoundAt k P (pre i.hay) (i.hay.map id) := by
      rw [List.map_id]; exact hs i.hay
    exact transparent_comap k P hne pre sk id i hs' he h
  · exact transparent_comap k _ (foldPats_ne_nil hne) pre sk foldByte i (hs i.hay) he h

theorem ref_iter_pre (hs : PreSoundFor f k P pre) (he : k = .std ∨ i.earliest = false)
    (h : supportsAnch sk i.anch) :
    findIter (refAut f k P sk true) (some pre) i = findIter (refAut f k P sk false) none i := by
  cases f
  · have hs' : PrefilterSoundAt k P (pre i.hay) (i.hay.map id) := by
      rw [List.map_id]; exact hs i.hay
    exact findIter_transparent_comap k P hne pre sk id i hs' he h
  · exact findIter_transparent_comap k _ (foldPats_ne_nil hne) pre sk foldByte i (hs i.hay) he h

theorem ref_overlap_pre (hs : PreSoundOvlFor f P pre) (h : supportsAnch sk i.anch) (n : Nat) :
    ovlCalls (refAut f .std P sk true) (some pre) i n OState.start =
      ovlCalls (refAut f .std P sk false) none i n OState.start := by
  cases f
  · have hs' : PrefilterSoundOvlAt P (pre i.hay) (i.hay.map id) := by
      rw [List.map_id]; exact hs i.hay
    exact ovlCalls_transparent_comap P hne pre sk id i hs' h n _
  · exact ovlCalls_transparent_comap _ (foldPats_ne_nil hne) pre sk foldByte i (hs i.hay) h n _

theorem ref_overlap_iter_pre (hs : PreSoundOvlFor f P pre) (h : supportsAnch sk i.anch)
    (fuel : Nat) :
    ovlIterAux (refAut f .std P sk true) (some pre) i fuel OState.start =
      ovlIterAux (refAut f .std P sk false) none i fuel OState.start := by
  cases f
  · have hs' : PrefilterSoundOvlAt P (pre i.hay) (i.hay.map id) := by
      rw [List.map_id]; exact hs i.hay
    exact ovlIterAux_transparent_comap P hne pre sk id i hs' h fuel _
  · exact ovlIterAux_transparent_comap _ (foldPats_ne_nil hne) pre sk foldByte i (hs i.hay) h
      fuel _

end ref

/-! ## the prefilters of the builder model are sound -/

/-- the patterns handed to the packed sub-builder: all of them, in order, as long as it is alive -/
theorem foldl_packed (K : Consts) (freq : UInt8 → Nat) (pats : List (List UInt8))
    (hne : ∀ p ∈ pats, p ≠ []) : ∀ (b : PreBuilder), b.enabled = true →
    ∀ ps, (pats.foldl (PreBuilder.add K freq) b).packed = some ps →
      ∃ ps0, b.packed = some ps0 ∧ ps = ps0 ++ pats := by
  induction pats with
  | nil => intro b _ ps h; exact ⟨ps, h, (List.append_nil _).symm⟩
  | cons p rest ih =>
    intro b hb ps h
    have hp : p ≠ [] := hne p (by simp)
    have hen := (PreBuilder.add_nonempty K freq b p hb hp).1
    obtain ⟨ps1, h1, h2⟩ := ih (fun q hq => hne q (by simp [hq])) _ hen ps h
    have he : p.isEmpty = false := by
      cases p with
      | nil => exact absurd rfl hp
      | cons _ _ => rfl
    have hpk : (b.add K freq p).packed =
        match b.packed with
        | none => none
        | some ps => if ps.length ≥ K.patternLimit then none else some (ps ++ [p]) := by
      unfold PreBuilder.add
      simp [he, hb]
      cases b.packed <;> rfl
    rw [hpk] at h1
    cases hbp : b.packed with
    | none => rw [hbp] at h1; cases h1
    | some ps0 =>
      rw [hbp] at h1
      simp only at h1
      split at h1
      · cases h1
      · injection h1 with h1
        refine ⟨ps0, rfl, ?_⟩
        rw [h2, ← h1, List.append_assoc]; rfl

/-- a packed prefilter returned by `prefilter::Builder::build` was built by the packed builder for
the packed kind of the builder's match kind, from the patterns the builder holds -/
theorem build_packed_shape' {K : Consts} {b : PreBuilder} {avx2 ssse3 : Bool} {s : PackedSearcher}
    (h : PreBuilder.build K b avx2 ssse3 = some (.packed s)) :
    ∃ kind ps, (match b.kind with | .std => none | .lf => some PKind.lf | .ll => some PKind.ll) =
        some kind ∧ b.packed = some ps ∧
      packedBuild K kind ps none none none true avx2 ssse3 = some s := by
  have hT : (packedTriple K b avx2 ssse3).1 = some (.packed s) →
      ∃ kind ps, (match b.kind with | .std => none | .lf => some PKind.lf | .ll => some PKind.ll) =
          some kind ∧ b.packed = some ps ∧
        packedBuild K kind ps none none none true avx2 ssse3 = some s := by
    intro hT
    unfold packedTriple at hT
    split at hT
    · cases hT
    · split at hT
      · cases hT
      · rename_i pk hpk
        split at hT
        · cases hT
        · rename_i ps hps
          simp only [Option.map_eq_some_iff] at hT
          obtain ⟨s', hs', hinj⟩ := hT
          injection hinj with hinj
          subst hinj
          exact ⟨pk, ps, hpk, hps, hs'⟩
  rw [build_eq] at h
  split at h
  · cases h
  · split at h
    · cases h
    · simp only at h
      split at h
      · split at h
        · exact hT h
        · split at h
          · cases h
          · split at h <;> cases h
      · split at h
        · exact hT h
        · cases h
      · split at h
        · exact hT h
        · cases h
      · split at h
        · cases h
        · exact hT h

/-- a packed prefilter of the builder is the packed searcher of **exactly the supplied patterns**,
for the packed kind matching the match kind -/
theorem build_packed_exact (K : Consts) (k : MatchKind) (fold : Bool) (freq : UInt8 → Nat)
    (pats : List (List UInt8)) (avx2 ssse3 : Bool) (hne : ∀ p ∈ pats, p ≠ [])
    (srch : PackedSearcher)
    (hb : buildPrefilter K k fold freq pats avx2 ssse3 = some (.packed srch)) :
    pats ≠ [] ∧ ∃ kind v, kind.toMatchKind = k ∧ srch = PackedSearcher.new kind pats v := by
  unfold buildPrefilter at hb
  obtain ⟨kind, ps, hk, hps, hpb⟩ := build_packed_shape' hb
  obtain ⟨_, _, hkind, _⟩ :=
    PreBuilder.foldl_nonempty K freq pats hne (PreBuilder.new k fold) rfl
  have hkind' : (pats.foldl (PreBuilder.add K freq) (PreBuilder.new k fold)).kind = k := hkind
  rw [hkind'] at hk
  obtain ⟨ps0, h0, hpp⟩ := foldl_packed K freq pats hne (PreBuilder.new k fold) rfl ps hps
  have : ps0 = [] := by
    have : (PreBuilder.new k fold).packed = some [] := rfl
    rw [this] at h0; injection h0 with h0; exact h0.symm
  subst this
  rw [List.nil_append] at hpp
  subst hpp
  obtain ⟨hnil, _, v, hv⟩ := packedBuild_some hpb
  refine ⟨hnil, kind, v, ?_, hv⟩
  cases k
  · cases hk
  · injection hk with hk; subst hk; rfl
  · injection hk with hk; subst hk; rfl

/-- **every prefilter the builder can return is sound** (no hypothesis on the packed searcher) -/
theorem builder_sound (K : Consts) (k : MatchKind) (f : Bool) (freq : UInt8 → Nat)
    (pats : List (List UInt8)) (avx2 ssse3 : Bool) (hne : ∀ p ∈ pats, p ≠ []) (ch : PreChoice)
    (hb : buildPrefilter K k f freq pats avx2 ssse3 = some ch) :
    PreSoundFor f k pats ch.findIn := by
  cases f
  · have hC06 : ∀ srch, ch = .packed srch → ∀ hay s e, s ≤ e → e ≤ hay.length →
        IsFind k pats hay s e false (srch.findIn hay s e) := by
      intro srch hch hay s e hse he
      subst hch
      obtain ⟨hnil, kind, v, hk, rfl⟩ := build_packed_exact K k false freq pats avx2 ssse3 hne _ hb
      rw [← hk]
      exact C06_packed kind pats hnil hne v hay s e ⟨hse, he⟩
    intro hay
    exact (C05_builder_sound K k freq pats avx2 ssse3 hne ch hb hC06).at hay
  · intro hay
    exact C05_builder_sound_fold K k freq pats avx2 ssse3 hne ch hb hay

/-- … and for the overlapping loop (standard kind) -/
theorem builder_sound_ovl (K : Consts) (f : Bool) (freq : UInt8 → Nat)
    (pats : List (List UInt8)) (avx2 ssse3 : Bool) (hne : ∀ p ∈ pats, p ≠ []) (ch : PreChoice)
    (hb : buildPrefilter K .std f freq pats avx2 ssse3 = some ch) :
    PreSoundOvlFor f pats ch.findIn := by
  cases f
  · intro hay
    exact (C05_builder_sound_ovl K freq pats avx2 ssse3 hne ch hb).at hay
  · intro hay
    exact C05_builder_sound_ovl_fold K freq pats avx2 ssse3 hne ch hb hay

/-- the builder returns no prefilter when a pattern is empty -/
theorem builder_none_of_empty (K : Consts) (k : MatchKind) (f : Bool) (freq : UInt8 → Nat)
    (pats : List (List UInt8)) (avx2 ssse3 : Bool) (h : [] ∈ pats) :
    buildPrefilter K k f freq pats avx2 ssse3 = none :=
  (C05_builder_gates K k f freq pats avx2 ssse3).1 h

/-! ## the public methods with a sound prefilter -/

theorem Good.hasPre_true {s : Searcher} {kd : AcKind} (hg : Good s kd) {p : Prefilter UInt8}
    (hpre : s.pre = some p) : s.cfg.hasPre = true := by rw [hg.pre, hpre]; rfl

section withpre
variable {s : Searcher} {kd : AcKind} (hg : Good s kd) {p : Prefilter UInt8}
  (hpre : s.pre = some p) (hne : ∀ q ∈ s.pats, q ≠ [])
include hg hpre hne

theorem api_find_pre (hs : PreSoundFor s.cfg.fold s.cfg.matchKind s.pats p) (i : Input UInt8)
    (h : supportsAnch s.cfg.startKind i.anch)
    (he : s.cfg.matchKind = .std ∨ i.earliest = false) :
    ∃ r, topFind s i = .ok r ∧
      IsFind s.cfg.matchKind (specPats s.cfg.fold s.pats) (specHay s.cfg.fold i.hay)
        i.s i.e i.anch r := by
  obtain ⟨r, h1, h2⟩ := ref_find s.cfg.fold s.cfg.matchKind s.pats (autSk kd s.cfg.startKind) i
    (supports_autSk kd h) he
  refine ⟨r, ?_, h2⟩
  unfold topFind
  rw [gate_none h, hpre]
  show tryFindFwd s.aut (some p) i = _
  rw [hg.find_ref, hg.hasPre_true hpre,
    ref_find_pre _ _ _ hne p _ i hs he (supports_autSk kd h), h1]

theorem api_is_match_pre (hk : s.cfg.matchKind = .std)
    (hs : PreSoundFor s.cfg.fold s.cfg.matchKind s.pats p) (i : Input UInt8)
    (h : supportsAnch s.cfg.startKind i.anch) :
    ∃ b, topIsMatch s i = .ok b ∧
      (b = true ↔ ∃ m, IsOccA (specPats s.cfg.fold s.pats) (specHay s.cfg.fold i.hay)
        i.s i.e i.anch m) := by
  obtain ⟨r, h1, h2⟩ := ref_is_match s.cfg.fold s.cfg.matchKind s.pats
    (autSk kd s.cfg.startKind) i (supports_autSk kd h)
  refine ⟨r.isSome, ?_, h2⟩
  unfold topIsMatch
  rw [gate_none h, hpre]
  show (match tryFindFwd s.aut (some p) { i with earliest := true } with
    | .error e => Except.error e | .ok r => .ok r.isSome) = _
  rw [hg.find_ref, hg.hasPre_true hpre,
    ref_find_pre _ _ _ hne p _ { i with earliest := true } hs (Or.inl hk) (supports_autSk kd h),
    h1]

theorem api_iter_pre (hs : PreSoundFor s.cfg.fold s.cfg.matchKind s.pats p) (i : Input UInt8)
    (h : supportsAnch s.cfg.startKind i.anch)
    (he : s.cfg.matchKind = .std ∨ i.earliest = false) :
    ∃ F, (∀ st, st ≤ i.e + 1 →
        IsFind s.cfg.matchKind (specPats s.cfg.fold s.pats) (specHay s.cfg.fold i.hay)
          st i.e i.anch (F st)) ∧
      topFindIter s i = .ok (iterSpec F i.s i.e) := by
  obtain ⟨F, h1, h2⟩ := ref_iter s.cfg.fold s.cfg.matchKind s.pats (autSk kd s.cfg.startKind) i
    (supports_autSk kd h) he
  refine ⟨F, h1, ?_⟩
  unfold topFindIter
  rw [gate_none h, hpre]
  show findIter s.aut (some p) i = _
  rw [hg.iter_ref, hg.hasPre_true hpre,
    ref_iter_pre _ _ _ hne p _ i hs he (supports_autSk kd h), h2]

theorem api_overlap_pre (hk : s.cfg.matchKind = .std)
    (hs : PreSoundOvlFor s.cfg.fold s.pats p) (i : Input UInt8)
    (h : supportsAnch s.cfg.startKind i.anch) :
    ∃ l, IsOverlapList (specPats s.cfg.fold s.pats) (specHay s.cfg.fold i.hay)
        i.s i.e i.anch l ∧
      ∀ n, topOverlapping s i n =
        (l.take n).map (fun m => Except.ok (some m)) ++
          List.replicate (n - l.length) (Except.ok none) := by
  obtain ⟨l, h1, h2⟩ := ref_overlap s.cfg.fold s.pats (autSk kd s.cfg.startKind) i
    (supports_autSk kd h)
  refine ⟨l, h1, fun n => ?_⟩
  unfold topOverlapping
  rw [topOvlCalls_eq s i (gate_none h), hpre, hg.overlap_ref, hg.hasPre_true hpre, hk,
    ref_overlap_pre _ _ hne p _ i hs (supports_autSk kd h), h2]

theorem api_overlap_iter_pre (hk : s.cfg.matchKind = .std)
    (hs : PreSoundOvlFor s.cfg.fold s.pats p) (i : Input UInt8)
    (h : supportsAnch s.cfg.startKind i.anch) (ha : i.anch = false) :
    ∃ l, IsOverlapList (specPats s.cfg.fold s.pats) (specHay s.cfg.fold i.hay)
        i.s i.e i.anch l ∧
      ∀ fuel, l.length < fuel → topOverlappingIter s i fuel = .ok l := by
  obtain ⟨l, h1, h2⟩ := ref_overlap_iter s.cfg.fold s.pats (autSk kd s.cfg.startKind) i
    (supports_autSk kd h)
  refine ⟨l, h1, fun fuel hf => ?_⟩
  obtain ⟨q, hq⟩ := hg.start_isSome h
  have hkk : (s.aut.kind != .std) = false := by rw [aut_kind', hk]; rfl
  unfold topOverlappingIter
  rw [gate_none h]
  simp only [hkk, ha, Bool.false_eq_true, if_false]
  rw [ha] at hq
  simp only [hq]
  rw [hpre, hg.overlap_iter_ref, hg.hasPre_true hpre, hk,
    ref_overlap_iter_pre _ _ hne p _ i hs (supports_autSk kd h), h2 fuel hf]

theorem api_replace_pre (hs : PreSoundFor s.cfg.fold s.cfg.matchKind s.pats p)
    (hay : List UInt8) (repl : Mat → List UInt8) (stop : Option Nat)
    (h : supportsAnch s.cfg.startKind false) :
    ∃ F, (∀ st, st ≤ hay.length + 1 →
        IsFind s.cfg.matchKind (specPats s.cfg.fold s.pats) (specHay s.cfg.fold hay)
          st hay.length false (F st)) ∧
      topFindIter s (Input.whole hay) = .ok (iterSpec F 0 hay.length) ∧
      topReplaceAllWithBytes s hay repl stop =
        .ok (replaceBytes hay (iterSpec F 0 hay.length) repl stop) := by
  obtain ⟨F, h1, h2⟩ := api_iter_pre hg hpre hne hs (Input.whole hay) h (Or.inr rfl)
  refine ⟨F, h1, h2, ?_⟩
  unfold topFindIter at h2
  rw [show (Input.whole hay).anch = false from rfl, gate_none h] at h2
  unfold topReplaceAllWithBytes
  rw [gate_none h]
  simp only [h2]
  rfl

/-- the stream search does not consult the prefilter -/
theorem api_stream_pre (hk : s.cfg.matchKind = .std)
    (hs : PreSoundFor s.cfg.fold s.cfg.matchKind s.pats p)
    (h : supportsAnch s.cfg.startKind false) (data : List UInt8) (sched : List Nat)
    (hsch : ∀ x ∈ sched, 1 ≤ x) (spare : Option Nat) (minFactor defaultCap : Nat)
    (hcap : (Buffer.new (α := UInt8) (maxPatLen s.pats) spare minFactor defaultCap).min <
        (Buffer.new (α := UInt8) (maxPatLen s.pats) spare minFactor defaultCap).cap) :
    ∃ ms, topFindIter s (Input.whole data) = .ok ms ∧
      topStreamFind s { data := data, sched := sched } spare minFactor defaultCap =
        .ok (ms, false, 0) := by
  obtain ⟨ms, h1, h2⟩ := ref_stream s.cfg.fold s.pats hne (autSk kd s.cfg.startKind)
    (supports_autSk kd h) data sched hsch spare minFactor defaultCap hcap
  refine ⟨ms, ?_, ?_⟩
  · unfold topFindIter
    rw [show (Input.whole data).anch = false from rfl, gate_none h, hpre]
    show findIter s.aut (some p) (Input.whole data) = _
    rw [hg.iter_ref, hg.hasPre_true hpre,
      ref_iter_pre _ _ _ hne p _ _ hs (Or.inr rfl) (supports_autSk kd h), hk, h1]
  · unfold topStreamFind
    rw [gate_none h]
    show streamFind s.aut _ spare minFactor defaultCap = _
    rw [hg.stream_ref hk, h2]

end withpre

/-! ## a searcher's prefilter, if any, is sound -/

/-- the hypothesis on the prefilter of a searcher: none, or a sound one for non-empty patterns
(the real builder attaches no prefilter when a pattern is empty) -/
def PreOK (f : Bool) (k : MatchKind) (P : List (List UInt8)) :
    Option (Prefilter UInt8) → Prop
  | none => True
  | some p => (∀ q ∈ P, q ≠ []) ∧ PreSoundFor f k P p

/-- … for the overlapping search -/
def PreOKOvl (f : Bool) (P : List (List UInt8)) : Option (Prefilter UInt8) → Prop
  | none => True
  | some p => (∀ q ∈ P, q ≠ []) ∧ PreSoundOvlFor f P p

theorem not_mem_nil_of_some {K : Consts} {k : MatchKind} {f : Bool} {freq : UInt8 → Nat}
    {pats : List (List UInt8)} {avx2 ssse3 : Bool} {ch : PreChoice}
    (hb : buildPrefilter K k f freq pats avx2 ssse3 = some ch) : ∀ q ∈ pats, q ≠ [] := by
  intro q hq e
  subst e
  rw [builder_none_of_empty K k f freq pats avx2 ssse3 hq] at hb
  cases hb

/-- **the prefilter the builder attaches is always sound** -/
theorem builder_ok (K : Consts) (k : MatchKind) (f : Bool) (freq : UInt8 → Nat)
    (pats : List (List UInt8)) (avx2 ssse3 : Bool) :
    PreOK f k pats ((buildPrefilter K k f freq pats avx2 ssse3).map PreChoice.findIn) := by
  cases hb : buildPrefilter K k f freq pats avx2 ssse3 with
  | none => exact trivial
  | some ch =>
    exact ⟨not_mem_nil_of_some hb,
      builder_sound K k f freq pats avx2 ssse3 (not_mem_nil_of_some hb) ch hb⟩

theorem builder_ok_ovl (K : Consts) (f : Bool) (freq : UInt8 → Nat)
    (pats : List (List UInt8)) (avx2 ssse3 : Bool) :
    PreOKOvl f pats ((buildPrefilter K .std f freq pats avx2 ssse3).map PreChoice.findIn) := by
  cases hb : buildPrefilter K .std f freq pats avx2 ssse3 with
  | none => exact trivial
  | some ch =>
    exact ⟨not_mem_nil_of_some hb,
      builder_sound_ovl K f freq pats avx2 ssse3 (not_mem_nil_of_some hb) ch hb⟩

end AcVerif.TopP
