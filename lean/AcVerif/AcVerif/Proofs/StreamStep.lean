import AcVerif.Proofs.StreamInv
/-!
# Stream search: one `next` call preserves the invariant
-/
namespace AcVerif.StreamP
open AcVerif
variable {σ α : Type}

/-- stream position up to which bytes have been emitted in chunks -/
def off (it : ChunkIter σ α) : Nat := it.rdr.pos - it.buf.buf.length + it.reported

/-- the invariant of `StreamChunkIter`; `r` (ghost) is the end of the last emitted match -/
structure Inv (A : Aut σ α) (st0 : σ) (data : List α) (sched : List Nat) (fa : Option Nat)
    (Lm C : Nat) (r : Nat) (it : ChunkIter σ α) : Prop where
  rinv : RInv data sched fa it.rdr
  binv : BInv data Lm C it.buf it.rdr
  start : it.start = st0
  bp : it.bufPos ≤ it.buf.buf.length
  rep : it.reported ≤ it.bufPos
  abs : it.absPos = it.rdr.pos - it.buf.buf.length + it.bufPos
  scan : ScanAt A st0 data r it.absPos it.sid
  sem : ∀ m, firstMatch A st0 data r = some m →
    it.rdr.pos - it.buf.buf.length + it.reported ≤ m.start

/-- what a `next` call returns from a state satisfying the invariant, `o` being
the emitted-so-far position before the call -/
def Post (A : Aut σ α) (st0 : σ) (data : List α) (sched : List Nat) (fa : Option Nat)
    (Lm C : Nat) (r o : Nat) : NextResult σ α × ChunkIter σ α → Prop
  | (.done, it') =>
    it'.rdr.emptyReads = 0 ∧ o = data.length ∧ firstMatch A st0 data r = none
  | (.ioErr, it') => it'.rdr.emptyReads = 0 ∧ fa ≠ none
  | (.chunk (.nonMatch b), it') =>
    Inv A st0 data sched fa Lm C r it' ∧ o < off it' ∧ b = slice data o (off it')
  | (.chunk (.mtch b m), it') =>
    Inv A st0 data sched fa Lm C m.stop it' ∧ firstMatch A st0 data r = some m ∧
      m.start = o ∧ off it' = m.stop ∧ b = slice data m.start m.stop

section
variable {A : Aut σ α} {st0 : σ} {data : List α} {sched : List Nat} {fa : Option Nat}
  {Lm C : Nat}

theorem Inv.off_le {r : Nat} {it : ChunkIter σ α} (h : Inv A st0 data sched fa Lm C r it) :
    off it ≤ data.length := by
  have h1 := h.rinv.2.2.2.2
  have h2 := h.binv.2.2.1
  have h3 := h.bp
  have h4 := h.rep
  unfold off; omega

theorem matchStep_post (H : Hyp A st0 data sched Lm C) {r : Nat} {it : ChunkIter σ α}
    (h : Inv A st0 data sched fa Lm C r it) (hm : A.isMatch it.sid = true) :
    Post A st0 data sched fa Lm C r (off it) (matchStep A it) := by
  have hF := h.scan.firstMatch_of_match H.m0 hm
  have hrN : r ≤ data.length := Nat.le_trans h.scan.1 h.scan.2.1
  obtain ⟨f1, f2, f3⟩ := H.fok r _ hrN hF
  have hsem := h.sem _ hF
  have hstop : (getMatch A it.sid 0 it.absPos).stop = it.absPos := rfl
  have habs := h.abs
  have hbp := h.bp
  have hrep := h.rep
  have hlen := h.binv.2.2.1
  have hN := h.rinv.2.2.2.2
  have hpN := h.scan.2.1
  simp only [matchStep]
  generalize getMatch A it.sid 0 it.absPos = mat at hF f1 f2 f3 hsem hstop ⊢
  split
  · rename_i hgt
    simp only [Post]
    refine ⟨⟨h.rinv, h.binv, h.start, h.bp, ?_, h.abs, h.scan, ?_⟩, ?_, ?_⟩
    · show it.reported + (it.bufPos - (mat.stop - mat.start) - it.reported) ≤ it.bufPos
      omega
    · intro m hm'
      rw [hF] at hm'; cases hm'
      show it.rdr.pos - it.buf.buf.length +
        (it.reported + (it.bufPos - (mat.stop - mat.start) - it.reported)) ≤ mat.start
      omega
    · show off it < it.rdr.pos - it.buf.buf.length +
        (it.reported + (it.bufPos - (mat.stop - mat.start) - it.reported))
      unfold off; omega
    · show slice it.buf.buf it.reported (it.bufPos - (mat.stop - mat.start)) = slice data (off it)
        (it.rdr.pos - it.buf.buf.length +
          (it.reported + (it.bufPos - (mat.stop - mat.start) - it.reported)))
      rw [h.binv.slice_eq _ _ (by omega)]
      unfold off
      congr 1; omega
  · rename_i hgt
    simp only [Post]
    have hst0 := h.start
    refine ⟨⟨h.rinv, h.binv, h.start, h.bp, ?_, h.abs, ?_, ?_⟩, hF, ?_, ?_, ?_⟩
    · show it.reported + (it.bufPos - (it.bufPos - (mat.stop - mat.start))) ≤ it.bufPos
      omega
    · show ScanAt A st0 data mat.stop it.absPos it.start
      rw [hstop, hst0]
      exact ScanAt.init A st0 data hpN
    · intro m hm'
      have := H.fok mat.stop m (by omega) hm'
      show it.rdr.pos - it.buf.buf.length +
        (it.reported + (it.bufPos - (it.bufPos - (mat.stop - mat.start)))) ≤ m.start
      omega
    · unfold off; omega
    · show it.rdr.pos - it.buf.buf.length +
        (it.reported + (it.bufPos - (it.bufPos - (mat.stop - mat.start)))) = mat.stop
      omega
    · show slice it.buf.buf (it.bufPos - (mat.stop - mat.start)) it.bufPos =
        slice data mat.start mat.stop
      rw [h.binv.slice_eq _ _ hbp]
      congr 1 <;> omega

theorem preRollStep_post (H : Hyp A st0 data sched Lm C) {r : Nat} {it : ChunkIter σ α}
    (h : Inv A st0 data sched fa Lm C r it) (hm : A.isMatch it.sid = false)
    (hge : it.bufPos ≥ it.buf.buf.length)
    (hlt : it.reported < it.buf.buf.length - it.buf.min) :
    Post A st0 data sched fa Lm C r (off it) (preRollStep it) := by
  have habs := h.abs
  have hbp := h.bp
  have hrep := h.rep
  have hlen := h.binv.2.2.1
  have hmin := h.binv.1
  have hrN : r ≤ data.length := Nat.le_trans h.scan.1 h.scan.2.1
  simp only [preRollStep, Post]
  refine ⟨⟨h.rinv, h.binv, h.start, h.bp, ?_, h.abs, h.scan, ?_⟩, ?_, ?_⟩
  · show it.reported + (it.buf.buf.length - it.buf.min - it.reported) ≤ it.bufPos
    omega
  · intro m hm'
    have h1 := h.scan.firstMatch_stop_gt hm hm'
    have h2 := H.fok r m hrN hm'
    show it.rdr.pos - it.buf.buf.length +
      (it.reported + (it.buf.buf.length - it.buf.min - it.reported)) ≤ m.start
    omega
  · show off it < it.rdr.pos - it.buf.buf.length +
      (it.reported + (it.buf.buf.length - it.buf.min - it.reported))
    unfold off; omega
  · show slice it.buf.buf it.reported (it.buf.buf.length - it.buf.min) = slice data (off it)
      (it.rdr.pos - it.buf.buf.length +
        (it.reported + (it.buf.buf.length - it.buf.min - it.reported)))
    rw [h.binv.slice_eq _ _ (by omega)]
    unfold off
    congr 1; omega

/-- the conditional roll keeps the invariant and leaves room in the buffer -/
theorem rollStep_inv (H : Hyp A st0 data sched Lm C) {r : Nat} {it : ChunkIter σ α}
    (h : Inv A st0 data sched fa Lm C r it)
    (hge : it.bufPos ≥ it.buf.buf.length)
    (hlt : ¬ it.reported < it.buf.buf.length - it.buf.min) :
    Inv A st0 data sched fa Lm C r (rollStep it) ∧ off (rollStep it) = off it ∧
      (rollStep it).buf.buf.length ≤ Lm ∧
      (rollStep it).bufPos = (rollStep it).buf.buf.length ∧
      (rollStep it).sid = it.sid ∧ (rollStep it).rdr = it.rdr := by
  have habs := h.abs
  have hbp := h.bp
  have hrep := h.rep
  have hlen := h.binv.2.2.1
  have hmin := h.binv.1
  have hlm := H.lm1
  unfold rollStep
  split
  · rename_i hroll
    have hl : (it.buf.buf.drop (it.buf.buf.length - it.buf.min)).length = it.buf.min := by
      simp only [List.length_drop]; omega
    refine ⟨⟨h.rinv, ⟨h.binv.1, h.binv.2.1, ?_, ?_⟩, h.start, ?_, ?_, ?_, h.scan, ?_⟩,
      ?_, ?_, ?_, rfl, rfl⟩
    · show (it.buf.buf.drop (it.buf.buf.length - it.buf.min)).length ≤ it.rdr.pos
      rw [hl]; omega
    · show it.buf.buf.drop (it.buf.buf.length - it.buf.min) =
        slice data (it.rdr.pos - (it.buf.buf.drop (it.buf.buf.length - it.buf.min)).length)
          it.rdr.pos
      rw [hl, h.binv.drop_eq]
      congr 1; omega
    · show it.buf.min ≤ (it.buf.buf.drop (it.buf.buf.length - it.buf.min)).length
      rw [hl]; exact Nat.le_refl _
    · show it.reported - (it.buf.buf.length - it.buf.min) ≤ it.buf.min
      omega
    · show it.absPos = it.rdr.pos - (it.buf.buf.drop (it.buf.buf.length - it.buf.min)).length +
        it.buf.min
      rw [hl]; omega
    · intro m hm'
      have := h.sem m hm'
      show it.rdr.pos - (it.buf.buf.drop (it.buf.buf.length - it.buf.min)).length +
        (it.reported - (it.buf.buf.length - it.buf.min)) ≤ m.start
      rw [hl]; omega
    · show it.rdr.pos - (it.buf.buf.drop (it.buf.buf.length - it.buf.min)).length +
        (it.reported - (it.buf.buf.length - it.buf.min)) = off it
      rw [hl]; unfold off; omega
    · show (it.buf.buf.drop (it.buf.buf.length - it.buf.min)).length ≤ Lm
      rw [hl]; omega
    · show it.buf.min = (it.buf.buf.drop (it.buf.buf.length - it.buf.min)).length
      rw [hl]
  · rename_i hroll
    exact ⟨h, rfl, by omega, by omega, rfl, rfl⟩

/-- replacing buffer and reader by what `fill` returned -/
theorem fill_inv {r : Nat} {it : ChunkIter σ α}
    (h : Inv A st0 data sched fa Lm C r it) (hpl : it.bufPos = it.buf.buf.length)
    {b' : Buffer α} {rd' : Reader α}
    (hr' : RInv data sched fa rd') (hb' : BInv data Lm C b' rd')
    (hbase : rd'.pos - b'.buf.length = it.rdr.pos - it.buf.buf.length)
    (hpos : it.rdr.pos ≤ rd'.pos) :
    Inv A st0 data sched fa Lm C r { it with buf := b', rdr := rd' } ∧
      off { it with buf := b', rdr := rd' } = off it := by
  have hlen := h.binv.2.2.1
  have hlen' := hb'.2.2.1
  refine ⟨⟨hr', hb', h.start, ?_, h.rep, ?_, h.scan, ?_⟩, ?_⟩
  · show it.bufPos ≤ b'.buf.length
    omega
  · show it.absPos = rd'.pos - b'.buf.length + it.bufPos
    rw [hbase]; exact h.abs
  · intro m hm'
    show rd'.pos - b'.buf.length + it.reported ≤ m.start
    rw [hbase]; exact h.sem m hm'
  · show rd'.pos - b'.buf.length + it.reported = off it
    rw [hbase]; rfl

theorem eofStep_post {r : Nat} {it : ChunkIter σ α}
    (h : Inv A st0 data sched fa Lm C r it) (hm : A.isMatch it.sid = false)
    (hpl : it.bufPos = it.buf.buf.length) (hN : it.rdr.pos = data.length) :
    Post A st0 data sched fa Lm C r (off it) (eofStep it) := by
  have habs := h.abs
  have hrep := h.rep
  have hlen := h.binv.2.2.1
  have hp : it.absPos = data.length := by omega
  have hnone : firstMatch A st0 data r = none := by
    have := h.scan
    rw [hp] at this
    exact this.firstMatch_none hm
  unfold eofStep
  split
  · rename_i hlt
    simp only [Post]
    refine ⟨⟨h.rinv, h.binv, h.start, h.bp, ?_, h.abs, h.scan, ?_⟩, ?_, ?_⟩
    · show it.buf.buf.length ≤ it.bufPos
      omega
    · intro m hm'
      rw [hnone] at hm'; cases hm'
    · show off it < it.rdr.pos - it.buf.buf.length + it.buf.buf.length
      unfold off; omega
    · show it.buf.buf.drop it.reported =
        slice data (off it) (it.rdr.pos - it.buf.buf.length + it.buf.buf.length)
      rw [h.binv.drop_eq]
      unfold off
      congr 1; omega
  · rename_i hlt
    simp only [Post]
    refine ⟨h.rinv.2.2.2.1, ?_, hnone⟩
    unfold off; omega

/-- scanning keeps the invariant; afterwards the state is a match state or the
buffer is exhausted -/
theorem scanStep_inv {r : Nat} {it : ChunkIter σ α}
    (h : Inv A st0 data sched fa Lm C r it) (hm : A.isMatch it.sid = false) :
    Inv A st0 data sched fa Lm C r (scanStep A it) ∧ off (scanStep A it) = off it ∧
      (scanStep A it).rdr = it.rdr ∧ (scanStep A it).buf = it.buf ∧
      (A.isMatch (scanStep A it).sid = true ∨
        (scanStep A it).bufPos = (scanStep A it).buf.buf.length) := by
  have habs := h.abs
  have hbp := h.bp
  have hrep := h.rep
  have hlen := h.binv.2.2.1
  have hN := h.rinv.2.2.2.2
  have hd : it.buf.buf.drop it.bufPos = slice data it.absPos it.rdr.pos := by
    rw [h.binv.drop_eq, habs]
  have hle := scan_le A it.sid (it.buf.buf.drop it.bufPos)
  have hdl : (it.buf.buf.drop it.bufPos).length = it.buf.buf.length - it.bufPos := by
    simp only [List.length_drop]
  have hext := h.scan.extend hm (n := it.rdr.pos) (by omega) hN
  rw [← hd] at hext
  refine ⟨⟨h.rinv, h.binv, h.start, ?_, ?_, ?_, hext, h.sem⟩, rfl, rfl, rfl, ?_⟩
  · show it.bufPos + (scanBytes A it.sid 0 (it.buf.buf.drop it.bufPos)).2 ≤ it.buf.buf.length
    omega
  · show it.reported ≤ it.bufPos + (scanBytes A it.sid 0 (it.buf.buf.drop it.bufPos)).2
    omega
  · show it.absPos + (scanBytes A it.sid 0 (it.buf.buf.drop it.bufPos)).2 =
      it.rdr.pos - it.buf.buf.length +
        (it.bufPos + (scanBytes A it.sid 0 (it.buf.buf.drop it.bufPos)).2)
    omega
  · cases hq : A.isMatch (scanBytes A it.sid 0 (it.buf.buf.drop it.bufPos)).1 with
    | true => left; exact hq
    | false =>
      right
      have := scan_end A it.sid _ hq
      show it.bufPos + (scanBytes A it.sid 0 (it.buf.buf.drop it.bufPos)).2 = it.buf.buf.length
      omega

/-- fuel that suffices for one `next` call -/
def need (A : Aut σ α) (data : List α) (it : ChunkIter σ α) : Nat :=
  if A.isMatch it.sid then 1
  else data.length - it.rdr.pos + 2 + (if it.bufPos < it.buf.buf.length then 1 else 0)

theorem next_post (H : Hyp A st0 data sched Lm C) (fuel : Nat) (it : ChunkIter σ α) (r : Nat)
    (h : Inv A st0 data sched fa Lm C r it) (hf : need A data it ≤ fuel) :
    Post A st0 data sched fa Lm C r (off it) (ChunkIter.next A it fuel) := by
  induction fuel generalizing it with
  | zero =>
    unfold need at hf
    split at hf <;> omega
  | succ fuel ih =>
    rw [next_succ]
    cases hm : A.isMatch it.sid with
    | true =>
      simp only [if_true]
      exact matchStep_post H h hm
    | false =>
      simp only [Bool.false_eq_true, if_false]
      have hN := h.rinv.2.2.2.2
      simp only [need, hm, Bool.false_eq_true, if_false] at hf
      by_cases hge : it.bufPos ≥ it.buf.buf.length
      · rw [if_pos hge]
        by_cases hlt : it.reported < it.buf.buf.length - it.buf.min
        · rw [if_pos hlt]
          exact preRollStep_post H h hm hge hlt
        · rw [if_neg hlt]
          obtain ⟨hI, hoff, hl, hpl, hsid, hrdr⟩ := rollStep_inv H h hge hlt
          have hfill := fill_spec H.sch H.lmC
            ((rollStep it).rdr.data.length - (rollStep it).rdr.pos + 1) _ _ false hI.rinv hI.binv hl
            (by rw [hI.rinv.1]; omega)
          generalize Buffer.fill (rollStep it).buf (rollStep it).rdr false
            ((rollStep it).rdr.data.length - (rollStep it).rdr.pos + 1) = fres at hfill
          match fres, hfill with
          | .error (), hfill =>
            exact ⟨hI.rinv.2.2.2.1, hfill⟩
          | .ok (false, b', rd'), hfill =>
            obtain ⟨g1, g2, g3, g4, g5, g6⟩ := hfill
            obtain ⟨_, g7, g8⟩ := g5 rfl
            obtain ⟨hI', hoff'⟩ := fill_inv hI hpl g1 g2 g3 g4
            have hlen := hI.binv.2.2.1
            have hlen' := g2.2.2.1
            have := eofStep_post hI' (by show A.isMatch (rollStep it).sid = false; rw [hsid]; exact hm)
              (by show (rollStep it).bufPos = b'.buf.length; omega) g7
            rw [hoff', hoff] at this
            exact this
          | .ok (true, b', rd'), hfill =>
            obtain ⟨g1, g2, g3, g4, g5, g6⟩ := hfill
            have g7 : (rollStep it).rdr.pos < rd'.pos := by
              rcases g6 rfl with h | h
              · cases h
              · exact h
            rw [hrdr] at g7
            obtain ⟨hI', hoff'⟩ := fill_inv hI hpl g1 g2 g3 g4
            have hm' : A.isMatch ({ rollStep it with buf := b', rdr := rd' } : ChunkIter σ α).sid
                = false := by
              show A.isMatch (rollStep it).sid = false; rw [hsid]; exact hm
            obtain ⟨hI2, hoff2, hrdr2, hbuf2, hcase⟩ := scanStep_inv hI' hm'
            have hN' := g1.2.2.2.2
            have := ih _ hI2 (by
              unfold need
              split
              · omega
              · rw [hrdr2]
                show data.length - rd'.pos + 2 + _ ≤ fuel
                rcases hcase with hc | hc
                · rename_i hnm; rw [hc] at hnm; exact absurd rfl hnm
                · rw [if_neg (by omega)]; omega)
            rw [hoff2, hoff', hoff] at this
            exact this
      · rw [if_neg hge]
        rw [if_pos (by omega)] at hf
        obtain ⟨hI2, hoff2, hrdr2, hbuf2, hcase⟩ := scanStep_inv h hm
        have := ih _ hI2 (by
          unfold need
          split
          · omega
          · rw [hrdr2]
            rcases hcase with hc | hc
            · rename_i hnm; rw [hc] at hnm; exact absurd rfl hnm
            · rw [if_neg (by omega)]; omega)
        rw [hoff2] at this
        exact this

end

end AcVerif.StreamP
