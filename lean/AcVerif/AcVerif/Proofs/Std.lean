import AcVerif.Proofs.StdIdeal
import AcVerif.Proofs.Common
/-!
# Standard semantics: the ideal automaton's searches meet the specification

`allMatches` of the ideal standard automaton is *the* overlapping enumeration
(`isOverlapList_allMatches`); the non-overlapping search returns its head,
which is the `IsFind .std` answer (`isFind_head`).
-/
namespace AcVerif.StdP
open AcVerif

/-- an occurrence at `st`, read as a suffix of the text consumed up to its end -/
theorem occ_iff {α : Type} (hay p : List α) (s e st : Nat) (h1 : s ≤ st)
    (h2 : st + p.length ≤ e) (h3 : e ≤ hay.length) :
    p <+: hay.drop st ↔ p <:+ ((hay.take e).drop s).take (st + p.length - s) := by
  have hlen : (((hay.take e).drop s).take (st + p.length - s)).length = st + p.length - s := by
    simp only [List.length_take, List.length_drop]; omega
  have hdrop : (((hay.take e).drop s).take (st + p.length - s)).drop (st - s) =
      (hay.drop st).take p.length := by
    simp only [List.drop_take, List.take_take, List.drop_drop]
    rw [show min (st + p.length - s) (e - s) - (st - s) = p.length by omega,
      show s + (st - s) = st by omega]
  rw [List.prefix_iff_eq_take, List.suffix_iff_eq_drop, hlen,
    show st + p.length - s - p.length = st - s by omega, hdrop]

/-- the head of the overlapping enumeration is the standard non-overlapping answer -/
theorem isFind_head {α : Type} [DecidableEq α] {P : List (List α)} {hay : List α} {s e : Nat}
    {anch : Bool} {l : List Mat} (h : IsOverlapList P hay s e anch l) :
    IsFind .std P hay s e anch l.head? := by
  obtain ⟨hp, hm⟩ := h
  cases l with
  | nil =>
    intro m hocc
    simpa using (hm m).2 hocc
  | cons a l =>
    refine ⟨(hm a).1 (by simp), ?_⟩
    intro m' hocc
    rcases List.mem_cons.1 ((hm m').2 hocc) with rfl | hmem
    · right; exact ⟨rfl, Or.inr ⟨rfl, Nat.le_refl _⟩⟩
    · rcases (List.pairwise_cons.1 hp).1 m' hmem with h1 | ⟨h1, h2 | ⟨h2, h3⟩⟩
      · exact Or.inl h1
      · exact Or.inr ⟨h1, Or.inl h2⟩
      · exact Or.inr ⟨h1, Or.inr ⟨h2, Nat.le_of_lt h3⟩⟩

theorem stop_of_mem_repAt {σ α : Type} {A : Aut σ α} {s : Nat} {anch : Bool} {q : σ} {at_ : Nat}
    {m : Mat} (h : m ∈ repAt A s anch q at_) : m.stop = at_ := by
  simp only [repAt, List.mem_map] at h
  obtain ⟨pid, _, rfl⟩ := h
  rfl

section Ideal
variable {α : Type} [DecidableEq α]

omit [DecidableEq α] in
/-- an empty span (`is_done`) has no occurrences -/
theorem not_occ_of_done (P : List (List α)) (i : Input α) (hd : i.isDone = true) (m : Mat) :
    ¬ IsOccA P i.hay i.s i.e i.anch m := by
  rintro ⟨⟨p, _, h1, h2, h3, _⟩, _⟩
  simp only [Input.isDone, decide_eq_true_eq] at hd
  omega

omit [DecidableEq α] in
theorem isOverlapList_nil_of_done (P : List (List α)) (i : Input α) (hd : i.isDone = true) :
    IsOverlapList P i.hay i.s i.e i.anch [] :=
  ⟨List.Pairwise.nil, fun m => ⟨fun h => by simp at h, fun h => (not_occ_of_done P i hd m h).elim⟩⟩

theorem okPid_mono (P : List (List α)) (sk : StartKind) (s : Nat) (anch : Bool) (at_ : Nat)
    (a b : Nat) (hab : outOrd P a b)
    (hb : okPid (ideal .std P sk false) s anch at_ b = true) :
    okPid (ideal .std P sk false) s anch at_ a = true := by
  have h1 : (ideal .std P sk false).patLen a = lenOf P a := rfl
  have h2 : (ideal .std P sk false).patLen b = lenOf P b := rfl
  simp only [okPid, mk, h1, h2] at *
  cases anch with
  | false => simp
  | true =>
    simp only [Bool.true_and, Bool.not_eq_true', decide_eq_false_iff_not] at *
    rcases hab with h | ⟨h, _⟩ <;> omega

theorem repAt_eq_filter (P : List (List α)) (sk : StartKind) (s : Nat) (anch : Bool)
    (q : St α) (at_ : Nat) :
    repAt (ideal .std P sk false) s anch q at_ =
      (((ideal .std P sk false).mpats q).filter
        (okPid (ideal .std P sk false) s anch at_)).map (mk (ideal .std P sk false) at_) := by
  unfold repAt
  congr 1
  exact takeWhile_eq_filter_of_pairwise (R := outOrd P) (pairwise_out P q)
    (okPid_mono P sk s anch at_)

/-- what is reported at the position reached after consuming `w` -/
theorem mem_repAt_run (P : List (List α)) (sk : StartKind) (s : Nat) (anch : Bool)
    (w : List α) (m : Mat) :
    m ∈ repAt (ideal .std P sk false) s anch
        ((ideal .std P sk false).runFrom anch (.at []) w) (s + w.length) ↔
      ∃ p, P[m.pid]? = some p ∧ p <:+ w ∧ (anch = true → p = w) ∧
        m.start = s + w.length - p.length ∧ m.stop = s + w.length := by
  rw [repAt_eq_filter]
  simp only [List.mem_map, List.mem_filter]
  constructor
  · rintro ⟨pid, ⟨hmem, hok⟩, rfl⟩
    obtain ⟨p, hp, hs⟩ := mem_mpats_run hmem
    have hl : (ideal .std P sk false).patLen pid = p.length := lenOf_eq hp
    refine ⟨p, hp, hs, ?_, ?_, rfl⟩
    · intro ha
      subst ha
      apply hs.eq_of_length_le
      simp only [okPid, mk, hl, Bool.true_and, Bool.not_eq_true', decide_eq_false_iff_not] at hok
      omega
    · simp [mk, hl]
  · rintro ⟨p, hp, hs, ha, hst, hstop⟩
    have hl : (ideal .std P sk false).patLen m.pid = p.length := lenOf_eq hp
    refine ⟨m.pid, ⟨?_, ?_⟩, ?_⟩
    · cases anch with
      | false => exact mem_mpats_run_unanch hp hs
      | true =>
        have := ha rfl
        subst this
        exact mem_mpats_run_anch hp
    · cases anch with
      | false => simp [okPid]
      | true =>
        have := ha rfl
        subst this
        simp [okPid, mk, hl]
    · cases m
      simp only [mk, hl] at *
      simp [hst, hstop]

theorem pairwise_repAt_run (P : List (List α)) (sk : StartKind) (s : Nat) (anch : Bool)
    (w : List α) :
    (repAt (ideal .std P sk false) s anch
        ((ideal .std P sk false).runFrom anch (.at []) w) (s + w.length)).Pairwise ovlBefore := by
  unfold repAt
  rw [List.pairwise_map]
  have hsub := List.takeWhile_sublist (l := (ideal .std P sk false).mpats
    ((ideal .std P sk false).runFrom anch (.at []) w))
    (okPid (ideal .std P sk false) s anch (s + w.length))
  refine ((pairwise_out P _).sublist hsub).imp_of_mem ?_
  intro a b ha hb hab
  obtain ⟨pa, hpa, hsa⟩ := mem_mpats_run (hsub.subset ha)
  obtain ⟨pb, hpb, hsb⟩ := mem_mpats_run (hsub.subset hb)
  have hla : (ideal .std P sk false).patLen a = pa.length := lenOf_eq hpa
  have hlb : (ideal .std P sk false).patLen b = pb.length := lenOf_eq hpb
  have h1 := hsa.length_le
  have h2 := hsb.length_le
  right
  refine ⟨rfl, ?_⟩
  simp only [mk, hla, hlb]
  rcases hab with h | ⟨h, h'⟩
  · left
    rw [lenOf_eq hpa, lenOf_eq hpb] at h
    omega
  · right
    rw [lenOf_eq hpa, lenOf_eq hpb] at h
    exact ⟨by omega, h'⟩

/-- the list of all matches of the ideal standard automaton is the overlapping enumeration -/
theorem isOverlapList_allMatches (P : List (List α)) (sk : StartKind) (i : Input α)
    (hd : i.isDone = false) :
    IsOverlapList P i.hay i.s i.e i.anch
      (allMatches (ideal .std P sk false) i.s i.anch (.at []) ((i.hay.take i.e).drop i.s)) := by
  have hse : i.s ≤ i.e := by
    have := hd; simp only [Input.isDone, decide_eq_false_iff_not] at this; omega
  have he := i.valid.1
  have hT : ((i.hay.take i.e).drop i.s).length = i.e - i.s := by
    simp only [List.length_take, List.length_drop]; omega
  have htake : ∀ t, t ≤ i.e - i.s → (((i.hay.take i.e).drop i.s).take t).length = t := by
    intro t ht
    rw [List.length_take, hT]; omega
  rw [allMatches_eq_flatMap, hT]
  constructor
  · rw [List.pairwise_flatMap]
    constructor
    · intro t ht
      have ht' : t ≤ i.e - i.s := by have := List.mem_range.1 ht; omega
      have := pairwise_repAt_run P sk i.s i.anch (((i.hay.take i.e).drop i.s).take t)
      rw [htake t ht'] at this
      exact this
    · refine List.pairwise_lt_range.imp ?_
      intro t1 t2 hlt x hx y hy
      left
      rw [stop_of_mem_repAt hx, stop_of_mem_repAt hy]
      omega
  · intro m
    simp only [List.mem_flatMap, List.mem_range]
    constructor
    · rintro ⟨t, ht, hm⟩
      have ht' : t ≤ i.e - i.s := by omega
      have key := mem_repAt_run P sk i.s i.anch (((i.hay.take i.e).drop i.s).take t) m
      rw [htake t ht'] at key
      obtain ⟨p, hp, hs, ha, hst, hstop⟩ := key.1 hm
      have hpl : p.length ≤ t := by have := hs.length_le; rw [htake t ht'] at this; exact this
      refine ⟨⟨p, hp, by omega, by omega, by omega, ?_⟩, ?_⟩
      · rw [occ_iff i.hay p i.s i.e m.start (by omega) (by omega) he,
          show m.start + p.length - i.s = t by omega]
        exact hs
      · intro hanch
        have := congrArg List.length (ha hanch)
        rw [htake t ht'] at this
        omega
    · rintro ⟨⟨p, hp, h1, h2, h3, h4⟩, ha⟩
      refine ⟨m.stop - i.s, by omega, ?_⟩
      have ht' : m.stop - i.s ≤ i.e - i.s := by omega
      have hsuf := (occ_iff i.hay p i.s i.e m.start h1 (by omega) he).1 h4
      rw [show m.start + p.length - i.s = m.stop - i.s by omega] at hsuf
      have e1 : m.start = i.s + (m.stop - i.s) - p.length := by omega
      have e2 : m.stop = i.s + (m.stop - i.s) := by omega
      have e3 : i.anch = true → (m.stop - i.s) ≤ p.length := by
        intro hanch
        have := ha hanch
        omega
      have key := mem_repAt_run P sk i.s i.anch
        (((i.hay.take i.e).drop i.s).take (m.stop - i.s)) m
      rw [htake _ ht'] at key
      rw [key]
      refine ⟨p, hp, hsuf, ?_, e1, e2⟩
      intro hanch
      apply hsuf.eq_of_length_le
      rw [htake _ ht']
      exact e3 hanch

end Ideal

end AcVerif.StdP
