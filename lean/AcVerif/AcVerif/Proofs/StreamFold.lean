import AcVerif.Proofs.StreamIdeal
import AcVerif.Proofs.Comap
/-!
# Stream search with an automaton that maps every input symbol first (`Aut.comap`)

The case-insensitive searcher is `(ideal .std Q sk false).comap g` (`Q` the folded patterns,
`g = foldByte`).  The stream's scan loop on the RAW stream with the comap automaton is the scan
loop of the plain automaton on the MAPPED stream (`scanBytes_comap`, `firstMatch_comap`); positions
and lengths are unchanged by `List.map`.  Hence the standing assumptions `Hyp` of the generic
stream invariant hold for the comap automaton on the raw stream (`hyp_comap`), and the whole
generic machinery (`drain_spec`, `go_eq`, `spec_mats`, `spec_concat`, `spec_replace`) applies with
`data` = the RAW stream: chunks are slices of the raw bytes, matches are those of the mapped stream.
-/
namespace AcVerif.StreamP
open AcVerif AcVerif.StdP AcVerif.MiscP

section Generic
variable {σ α : Type}

theorem scanBytes_comap (A : Aut σ α) (g : α → α) (q : σ) (n : Nat) (w : List α) :
    scanBytes (A.comap g) q n w = scanBytes A q n (w.map g) := by
  induction w generalizing q n with
  | nil => rfl
  | cons c w ih =>
    simp only [List.map_cons, scanBytes, comap_next, comap_isMatch, ih]

/-- the in-memory search of the comap automaton on the raw stream is the in-memory search of the
plain automaton on the mapped stream -/
theorem firstMatch_comap (A : Aut σ α) (g : α → α) (st0 : σ) (data : List α) (r : Nat) :
    firstMatch (A.comap g) st0 data r = firstMatch A st0 (data.map g) r := by
  unfold firstMatch
  rw [scanBytes_comap, List.map_drop]
  rfl

theorem firstMatch_comap_fun (A : Aut σ α) (g : α → α) (st0 : σ) (data : List α) :
    firstMatch (A.comap g) st0 data = firstMatch A st0 (data.map g) :=
  funext (firstMatch_comap A g st0 data)

/-- the standing assumptions transfer from the mapped stream to the raw stream -/
theorem Hyp.comap {A : Aut σ α} {g : α → α} {st0 : σ} {data : List α} {sched : List Nat}
    {Lm C : Nat} (H : Hyp A st0 (data.map g) sched Lm C) :
    Hyp (A.comap g) st0 data sched Lm C where
  m0 := H.m0
  fok := by
    intro r m hr hf
    rw [firstMatch_comap] at hf
    exact H.fok r m (by rw [List.length_map]; exact hr) hf
  lm1 := H.lm1
  lmC := H.lmC
  sch := H.sch

/-- `StreamChunkIter::new` does not read the transition function -/
theorem new_comap (A : Aut σ α) (g : α → α) (rdr : Reader α) (spare : Option Nat)
    (minFactor defaultCap : Nat) :
    ChunkIter.new (A.comap g) rdr spare minFactor defaultCap =
      ChunkIter.new A rdr spare minFactor defaultCap := rfl

/-- the initial state satisfies the invariant, for any automaton -/
theorem inv_init_gen (A : Aut σ α) (st0 : σ) (data : List α) (sched : List Nat) (fa : Option Nat)
    (b : Buffer α) (hb : b.buf = []) :
    Inv A st0 data sched fa b.min b.cap 0
      { rdr := { data := data, sched := sched, failAt := fa }, buf := b, start := st0,
        sid := st0 } where
  rinv := ⟨rfl, rfl, rfl, rfl, Nat.zero_le _⟩
  binv := ⟨rfl, rfl, by show b.buf.length ≤ 0; rw [hb]; exact Nat.le_refl _, by
    show b.buf = slice data (0 - b.buf.length) 0
    rw [hb]; simp [slice]⟩
  start := rfl
  bp := Nat.zero_le _
  rep := Nat.le_refl _
  abs := by show 0 = 0 - b.buf.length + 0; rw [hb]; rfl
  scan := ScanAt.init _ _ _ (Nat.zero_le _)
  sem := by intro m _; show 0 - b.buf.length + 0 ≤ m.start; rw [hb]; exact Nat.zero_le _

/-- an input spanning a whole haystack, whatever the expression of its length -/
theorem input_eq_whole (hay : List α) (n : Nat) (hn : n = hay.length)
    (v : n ≤ hay.length ∧ 0 ≤ n + 1) :
    ({ hay := hay, s := 0, e := n, anch := false, earliest := false, valid := v } : Input α) =
      whole hay := by
  subst hn; rfl

theorem whole_mapHay (data : List α) (g : α → α) :
    (whole data).mapHay g = whole (data.map g) :=
  input_eq_whole _ _ (List.length_map g).symm _

end Generic

/-! ## the comap of the ideal standard automaton -/
section IdealComap
variable {α : Type} [DecidableEq α]

omit [DecidableEq α] in
/-- `maxLen` is not touched by `comap` -/
theorem comap_maxLen {σ : Type} (A : Aut σ α) (g : α → α) : (A.comap g).maxLen = A.maxLen := rfl

theorem hyp_comap (Q : List (List α)) (g : α → α) (sk : StartKind) (hsk : supportsAnch sk false)
    (hne : ∀ p ∈ Q, p ≠ []) (data : List α) (sched : List Nat) (hs : ∀ x ∈ sched, 1 ≤ x)
    (spare : Option Nat) (minFactor defaultCap : Nat)
    (hcap : (Buffer.new (α := α) ((ideal .std Q sk false).comap g).maxLen spare minFactor
          defaultCap).min <
        (Buffer.new (α := α) ((ideal .std Q sk false).comap g).maxLen spare minFactor
          defaultCap).cap) :
    Hyp ((ideal .std Q sk false).comap g) (.at []) data sched
      (Buffer.new (α := α) ((ideal .std Q sk false).comap g).maxLen spare minFactor defaultCap).min
      (Buffer.new (α := α) ((ideal .std Q sk false).comap g).maxLen spare minFactor
        defaultCap).cap :=
  (hyp_ideal Q sk hsk hne (data.map g) sched hs spare minFactor defaultCap hcap).comap

theorem new_ok_comap (Q : List (List α)) (g : α → α) (sk : StartKind)
    (hsk : supportsAnch sk false) (hne : ∀ p ∈ Q, p ≠ []) (rdr : Reader α) (spare : Option Nat)
    (minFactor defaultCap : Nat) :
    ChunkIter.new ((ideal .std Q sk false).comap g) rdr spare minFactor defaultCap =
      .ok { rdr := rdr,
            buf := Buffer.new ((ideal .std Q sk false).comap g).maxLen spare minFactor defaultCap,
            start := .at [], sid := .at [] } :=
  (new_comap _ g rdr spare minFactor defaultCap).trans
    (new_ok Q sk hsk hne rdr spare minFactor defaultCap)

omit [DecidableEq α] in
theorem buffer_new_buf (n : Nat) (spare : Option Nat) (minFactor defaultCap : Nat) :
    (Buffer.new (α := α) n spare minFactor defaultCap).buf = [] := rfl

/-- the state `ChunkIter.new` returns -/
abbrev it0c (Q : List (List α)) (g : α → α) (sk : StartKind) (data : List α) (sched : List Nat)
    (fa : Option Nat) (spare : Option Nat) (minFactor defaultCap : Nat) : ChunkIter (St α) α :=
  { rdr := { data := data, sched := sched, failAt := fa },
    buf := Buffer.new ((ideal .std Q sk false).comap g).maxLen spare minFactor defaultCap,
    start := .at [], sid := .at [] }

/-- everything the property theorems need (cf. `stream_master`), for the comap automaton on the
RAW stream -/
theorem stream_master_comap (Q : List (List α)) (g : α → α) (sk : StartKind)
    (hsk : supportsAnch sk false) (hne : ∀ p ∈ Q, p ≠ []) (data : List α) (sched : List Nat)
    (hs : ∀ x ∈ sched, 1 ≤ x) (spare : Option Nat) (minFactor defaultCap : Nat)
    (hcap : (Buffer.new (α := α) ((ideal .std Q sk false).comap g).maxLen spare minFactor
          defaultCap).min <
        (Buffer.new (α := α) ((ideal .std Q sk false).comap g).maxLen spare minFactor
          defaultCap).cap)
    (fa : Option Nat) :
    ∃ it cs err,
      ChunkIter.new ((ideal .std Q sk false).comap g)
        { data := data, sched := sched, failAt := fa } spare minFactor defaultCap = .ok it ∧
      ChunkIter.drain ((ideal .std Q sk false).comap g) (drainFuel data) it = (cs, err, 0) ∧
      Spec (firstMatch ((ideal .std Q sk false).comap g) (.at []) data) data err 0 0 cs ∧
      (fa = none → err = false) ∧
      ∀ (repl : Mat → List α) (w : Writer α),
        streamReplaceWith.go ((ideal .std Q sk false).comap g) repl (drainFuel data) it w [] =
          ((goPure repl cs err w []).1, (goPure repl cs err w []).2.1,
            (goPure repl cs err w []).2.2, 0) := by
  have H := hyp_comap Q g sk hsk hne data sched hs spare minFactor defaultCap hcap
  have hI := inv_init_gen ((ideal .std Q sk false).comap g) (.at []) data sched fa
    (Buffer.new (α := α) ((ideal .std Q sk false).comap g).maxLen spare minFactor defaultCap)
    (buffer_new_buf _ _ _ _)
  have hoff : off (it0c Q g sk data sched fa spare minFactor defaultCap) = 0 := rfl
  have hn : data.length - off (it0c Q g sk data sched fa spare minFactor defaultCap) + 1 ≤
      drainFuel data := by
    rw [hoff]; unfold drainFuel; omega
  obtain ⟨cs, err, hd, hsp, he⟩ := drain_spec H (drainFuel data) _ 0 hI hn
  rw [hoff] at hsp
  refine ⟨_, cs, err, new_ok_comap Q g sk hsk hne _ spare minFactor defaultCap, hd, hsp, he, ?_⟩
  intro repl w
  rw [go_eq H repl (drainFuel data) _ 0 w [] hI hn, hd]

/-- the in-memory search of the comap automaton (engine) is the stream's own scan loop -/
theorem findAt_comap_eq_firstMatch (Q : List (List α)) (g : α → α) (sk : StartKind)
    (hsk : supportsAnch sk false) (hne : ∀ p ∈ Q, p ≠ []) (data : List α) (r : Nat)
    (hr : r ≤ data.length) :
    findAt ((ideal .std Q sk false).comap g) none (whole data) r =
      firstMatch ((ideal .std Q sk false).comap g) (.at []) data r := by
  rw [findAt_comap, whole_mapHay, firstMatch_comap]
  exact findAt_eq_firstMatch Q sk hsk hne (data.map g) r (by rw [List.length_map]; exact hr)

theorem iter_findAt_comap (Q : List (List α)) (g : α → α) (sk : StartKind)
    (hsk : supportsAnch sk false) (hne : ∀ p ∈ Q, p ≠ []) (data : List α) :
    iterSpec (findAt ((ideal .std Q sk false).comap g) none (whole data)) 0 data.length =
      iterSpecAux (firstMatch ((ideal .std Q sk false).comap g) (.at []) data)
        (data.length + 2 - 0) 0 none :=
  iter_congr (fun r hr => findAt_comap_eq_firstMatch Q g sk hsk hne data r hr)
    (hyp_comap Q g sk hsk hne data [] (fun _ h => nomatch h) none 8 (64 * 1024)
      (hcap_default _ none)).FOK _ 0 none (Nat.zero_le _)

theorem findIter_comap_eq (Q : List (List α)) (g : α → α) (sk : StartKind)
    (hsk : supportsAnch sk false) (data : List α) :
    findIter ((ideal .std Q sk false).comap g) none (whole data) =
      .ok (iterSpec (findAt ((ideal .std Q sk false).comap g) none (whole data)) 0
        data.length) := by
  have : ((ideal .std Q sk false).comap g).start false = some (.at []) := ideal_start Q hsk
  simp only [findIter, this]

/-- each answer of the comap automaton's in-memory search is *the* standard answer on the mapped
haystack -/
theorem findAt_comap_isFind (Q : List (List α)) (g : α → α) (sk : StartKind)
    (hsk : supportsAnch sk false) (data : List α) (r : Nat) (hr : r ≤ data.length + 1) :
    IsFind .std Q (data.map g) r data.length false
      (findAt ((ideal .std Q sk false).comap g) none (whole data) r) := by
  rw [findAt_comap, whole_mapHay]
  have := findAt_isFind Q sk hsk (data.map g) r (by rw [List.length_map]; exact hr)
  rw [List.length_map] at this
  exact this

end IdealComap

end AcVerif.StreamP
