import AcVerif.Proofs.TopLevelAut
import AcVerif.Theorems.C12
import AcVerif.Theorems.C13
/-!
# Capstone proofs, part 4: the public methods on a searcher returned by the builder

`Good s kd`: the searcher holds the unchecked transcription of kind `kd` for its own configuration
and pattern list, fewer than `2^31` patterns, and its prefilter flag agrees with its prefilter.
Every successful `acBuild` returns a good searcher (`acBuild_good`), for any limits not above the
real ones.  On a good searcher each public method is the gate followed by the engine on the
reference automaton (`api_*_ref`, for every prefilter); without a prefilter the reference results
of `TopLevelRef.lean` / `TopLevelStream.lean` apply (`api_*`).
-/
namespace AcVerif.TopP
open AcVerif AcVerif.MiscP AcVerif.BuildP AcVerif.StreamX

/-! ## the gate -/

theorem gate_none_iff (sk : StartKind) (a : Bool) :
    anchoredGate sk a = none ↔ supportsAnch sk a := by
  cases sk <;> cases a <;> simp [anchoredGate, supportsAnch]

theorem gate_none {sk : StartKind} {a : Bool} (h : supportsAnch sk a) : anchoredGate sk a = none :=
  (gate_none_iff sk a).2 h

theorem gate_err {sk : StartKind} {a : Bool} (h : ¬ supportsAnch sk a) :
    anchoredGate sk a =
      some (if a then .invalidInputAnchored else .invalidInputUnanchored) := by
  cases sk <;> cases a <;> first | rfl | exact absurd (by simp [supportsAnch]) h

/-! ## what the builder returns -/

/-- a successful build returns the unchecked transcription of the kind it ends up with, and the
number of patterns passed the `PatternID` test -/
theorem buildChecked_ok_unchecked {L : Limits} {cfg : BuildCfg} {P : List (List UInt8)}
    {b : Built} (h : buildChecked L cfg P = .ok b) :
    b = buildUnchecked cfg P b.kind ∧ P.length ≤ L.patternIdLimit := by
  rw [buildChecked_eq] at h
  cases hc : compileChecked L cfg.matchKind cfg.fold cfg.nncDenseDepth P with
  | error e => rw [hc] at h; cases h
  | ok n =>
    rw [hc] at h
    have hn : n = CNfa.compile cfg.matchKind cfg.fold P := C20_build_nnc_eq hc
    have hlen := (C20_build_sizes hc).2.2.2
    refine ⟨?_, hlen⟩
    subst hn
    cases hk : cfg.kind with
    | none =>
      simp only [hk] at h
      unfold autoChoice at h
      split at h
      · cases h; rfl
      · split at h
        · cases h; rfl
        · cases h; rfl
    | some kd =>
      simp only [hk] at h
      cases kd with
      | noncontiguous => cases h; rfl
      | contiguous =>
        simp only at h
        split at h
        · cases h; rfl
        · cases h
      | dfa =>
        simp only at h
        split at h
        · cases h; rfl
        · cases h

/-- the searcher holds the unchecked transcription of kind `kd` -/
structure Good (s : Searcher) (kd : AcKind) : Prop where
  built : s.built = buildUnchecked s.cfg s.pats kd
  len : s.pats.length < 2147483648
  pre : s.cfg.hasPre = s.pre.isSome

theorem Good.kind {s : Searcher} {kd : AcKind} (h : Good s kd) : s.kind = kd := by
  unfold Searcher.kind; rw [h.built]; exact buildUnchecked_kind _ _ _

/-- what `acBuild` returns when it succeeds (limits not above the real `PatternID::LIMIT`) -/
theorem acBuild_good {L : Limits} {cfg : BuildCfg} {pre : Option (Prefilter UInt8)}
    {P : List (List UInt8)} {s : Searcher} (hL : L.patternIdLimit ≤ 2147483647)
    (h : acBuild L cfg pre P = .ok s) :
    Good s s.kind ∧ s.cfg = { cfg with hasPre := pre.isSome } ∧ s.pats = P ∧ s.pre = pre := by
  unfold acBuild at h
  cases hb : buildChecked L { cfg with hasPre := pre.isSome } P with
  | error e => rw [hb] at h; cases h
  | ok b =>
    rw [hb] at h
    cases h
    obtain ⟨h1, h2⟩ := buildChecked_ok_unchecked hb
    exact ⟨⟨h1, by show P.length < 2147483648; omega, rfl⟩, rfl, rfl, rfl⟩

/-! ## the searcher's automaton is the reference automaton -/

section good
variable {s : Searcher} {kd : AcKind} (hg : Good s kd)
include hg

theorem Good.startEquiv (anch : Bool) :
    StartEquiv s.aut
      (refAut s.cfg.fold s.cfg.matchKind s.pats (autSk kd s.cfg.startKind) s.cfg.hasPre)
      false anch := by
  have := built_startEquiv s.cfg s.pats hg.len kd anch
  rw [← hg.built] at this
  exact this

set_option linter.unusedSectionVars false in
theorem Good.aut_kind : s.aut.kind =
    (refAut s.cfg.fold s.cfg.matchKind s.pats (autSk kd s.cfg.startKind) s.cfg.hasPre).kind := by
  rw [refAut_kind]; exact toAut_kind _ _ _

omit hg in
theorem aut_kind' (s : Searcher) : s.aut.kind = s.cfg.matchKind := toAut_kind _ _ _

set_option linter.unusedSectionVars false in
theorem Good.aut_patLen (pid : Nat) : s.aut.patLen pid =
    (refAut s.cfg.fold s.cfg.matchKind s.pats (autSk kd s.cfg.startKind)
      s.cfg.hasPre).patLen pid := by
  rw [refAut_patLen]; exact toAut_patLen _ _ _ _

/-- the engines on the searcher's automaton are the engines on the reference automaton, for every
prefilter function -/
theorem Good.find_ref (pre : Option (Prefilter UInt8)) (i : Input UInt8) :
    tryFindFwd s.aut pre i =
      tryFindFwd (refAut s.cfg.fold s.cfg.matchKind s.pats (autSk kd s.cfg.startKind)
        s.cfg.hasPre) pre i :=
  C04_find_transfer _ _ pre i hg.aut_kind hg.aut_patLen
    (C04_StartEquiv_false_true _ _ _ (hg.startEquiv i.anch))

theorem Good.iter_ref (pre : Option (Prefilter UInt8)) (i : Input UInt8) :
    findIter s.aut pre i =
      findIter (refAut s.cfg.fold s.cfg.matchKind s.pats (autSk kd s.cfg.startKind)
        s.cfg.hasPre) pre i :=
  C04_iter_transfer _ _ pre i hg.aut_kind hg.aut_patLen
    (C04_StartEquiv_false_true _ _ _ (hg.startEquiv i.anch))

theorem Good.overlap_ref (pre : Option (Prefilter UInt8)) (i : Input UInt8) (n : Nat) :
    ovlCalls s.aut pre i n OState.start =
      ovlCalls (refAut s.cfg.fold s.cfg.matchKind s.pats (autSk kd s.cfg.startKind)
        s.cfg.hasPre) pre i n OState.start :=
  C04_overlap_transfer _ _ pre i hg.aut_kind hg.aut_patLen (hg.startEquiv i.anch) n

theorem Good.overlap_iter_ref (pre : Option (Prefilter UInt8)) (i : Input UInt8) (fuel : Nat) :
    ovlIterAux s.aut pre i fuel OState.start =
      ovlIterAux (refAut s.cfg.fold s.cfg.matchKind s.pats (autSk kd s.cfg.startKind)
        s.cfg.hasPre) pre i fuel OState.start :=
  C04_overlap_iter_transfer _ _ pre i hg.aut_kind hg.aut_patLen (hg.startEquiv i.anch) fuel

/-- `start_state` of the searcher's automaton accepts every mode the gate lets through -/
theorem Good.start_isSome {a : Bool} (h : supportsAnch s.cfg.startKind a) :
    ∃ q, s.aut.start a = some q := by
  rcases (hg.startEquiv a).cases with ⟨_, hB⟩ | ⟨q, _, hA, _, _⟩
  · rw [refAut_start _ _ _ _ (supports_autSk kd h)] at hB; cases hB
  · exact ⟨q, hA⟩

/-- the stream search on the searcher's automaton is the stream search on the prefilter-free
reference automaton (standard kind) -/
theorem Good.stream_ref (hk : s.cfg.matchKind = .std) (rdr : Reader UInt8) (spare : Option Nat)
    (minFactor defaultCap : Nat) :
    streamFind s.aut rdr spare minFactor defaultCap =
      streamFind (refAut s.cfg.fold .std s.pats (autSk kd s.cfg.startKind) false) rdr spare
        minFactor defaultCap := by
  have h := hg.startEquiv false
  rw [hk] at h
  exact (tiedTo_ref s.cfg.fold s.pats (autSk kd s.cfg.startKind) s.cfg.hasPre false
    ((aut_kind' s).trans hk) (toAut_patLen _ _ _) (toAut_minLen _ _ _) (toAut_maxLen _ _ _)
    h).streamFind rdr spare minFactor defaultCap

end good

/-! ## the overlapping call sequence behind the gate -/

theorem topOvlCalls_eq (s : Searcher) (i : Input UInt8)
    (h : anchoredGate s.cfg.startKind i.anch = none) (n : Nat) (st : OState Nat) :
    topOvlCalls s i n st = ovlCalls s.aut s.pre i n st := by
  induction n generalizing st with
  | zero => rfl
  | succ n ih =>
    simp only [topOvlCalls, ovlCalls, topOvlCall, h]
    cases tryFindOverlappingFwd s.aut s.pre i st with
    | error e => rfl
    | ok st' => simp only [ih]

theorem topOvlCalls_err (s : Searcher) (i : Input UInt8) (e : MatchErr)
    (h : anchoredGate s.cfg.startKind i.anch = some e) (n : Nat) (st : OState Nat) :
    topOvlCalls s i (n + 1) st = [.error e] := by
  simp only [topOvlCalls, topOvlCall, h]

/-- a non-standard searcher rejects every overlapping call -/
theorem ovlCalls_nonstd {σ : Type} (A : Aut σ UInt8) (pre : Option (Prefilter UInt8))
    (i : Input UInt8) (h : A.kind ≠ .std) (n : Nat) (st : OState σ) :
    ovlCalls A pre i (n + 1) st = [.error .unsupportedOverlapping] := by
  have : (A.kind != .std) = true := by simp [h]
  simp only [ovlCalls, tryFindOverlappingFwd, this, if_true]

/-! ## the public methods without a prefilter -/

section nopre
variable {s : Searcher} {kd : AcKind} (hg : Good s kd) (hpre : s.pre = none)
include hg hpre

theorem Good.hasPre_false : s.cfg.hasPre = false := by rw [hg.pre, hpre]; rfl

theorem api_find (i : Input UInt8) (h : supportsAnch s.cfg.startKind i.anch)
    (he : s.cfg.matchKind = .std ∨ i.earliest = false) :
    ∃ r, topFind s i = .ok r ∧
      IsFind s.cfg.matchKind (specPats s.cfg.fold s.pats) (specHay s.cfg.fold i.hay)
        i.s i.e i.anch r := by
  obtain ⟨r, h1, h2⟩ := ref_find s.cfg.fold s.cfg.matchKind s.pats (autSk kd s.cfg.startKind) i
    (supports_autSk kd h) he
  refine ⟨r, ?_, h2⟩
  unfold topFind
  rw [gate_none h, hpre]
  show tryFindFwd s.aut none i = _
  rw [hg.find_ref, hg.hasPre_false hpre, h1]

theorem api_is_match (i : Input UInt8) (h : supportsAnch s.cfg.startKind i.anch) :
    ∃ b, topIsMatch s i = .ok b ∧
      (b = true ↔ ∃ m, IsOccA (specPats s.cfg.fold s.pats) (specHay s.cfg.fold i.hay)
        i.s i.e i.anch m) := by
  obtain ⟨r, h1, h2⟩ := ref_is_match s.cfg.fold s.cfg.matchKind s.pats
    (autSk kd s.cfg.startKind) i (supports_autSk kd h)
  refine ⟨r.isSome, ?_, h2⟩
  unfold topIsMatch
  rw [gate_none h, hpre]
  show (match tryFindFwd s.aut none { i with earliest := true } with
    | .error e => Except.error e | .ok r => .ok r.isSome) = _
  rw [hg.find_ref, hg.hasPre_false hpre, h1]

theorem api_iter (i : Input UInt8) (h : supportsAnch s.cfg.startKind i.anch)
    (he : s.cfg.matchKind = .std ∨ i.earliest = false) :
    ∃ F, (∀ st, st ≤ i.e + 1 →
        IsFind s.cfg.matchKind (specPats s.cfg.fold s.pats) (specHay s.cfg.fold i.hay)
          st i.e i.anch (F st)) ∧
      topFindIter s i = .ok (iterSpec F i.s i.e) := by
  obtain ⟨F, h1, h2⟩ := ref_iter s.cfg.fold s.cfg.matchKind s.pats (autSk kd s.cfg.startKind) i
    (supports_autSk kd h) he
  refine ⟨F, h1, ?_⟩
  unfold topFindIter
  rw [gate_none h, hpre]
  show findIter s.aut none i = _
  rw [hg.iter_ref, hg.hasPre_false hpre, h2]

theorem api_overlap (hk : s.cfg.matchKind = .std) (i : Input UInt8)
    (h : supportsAnch s.cfg.startKind i.anch) :
    ∃ l, IsOverlapList (specPats s.cfg.fold s.pats) (specHay s.cfg.fold i.hay)
        i.s i.e i.anch l ∧
      ∀ n, topOverlapping s i n =
        (l.take n).map (fun m => Except.ok (some m)) ++
          List.replicate (n - l.length) (Except.ok none) := by
  obtain ⟨l, h1, h2⟩ := ref_overlap s.cfg.fold s.pats (autSk kd s.cfg.startKind) i
    (supports_autSk kd h)
  refine ⟨l, h1, fun n => ?_⟩
  unfold topOverlapping
  rw [topOvlCalls_eq s i (gate_none h), hpre, hg.overlap_ref, hg.hasPre_false hpre, hk, h2]

theorem api_overlap_iter (hk : s.cfg.matchKind = .std) (i : Input UInt8)
    (h : supportsAnch s.cfg.startKind i.anch) (ha : i.anch = false) :
    ∃ l, IsOverlapList (specPats s.cfg.fold s.pats) (specHay s.cfg.fold i.hay)
        i.s i.e i.anch l ∧
      ∀ fuel, l.length < fuel → topOverlappingIter s i fuel = .ok l := by
  obtain ⟨l, h1, h2⟩ := ref_overlap_iter s.cfg.fold s.pats (autSk kd s.cfg.startKind) i
    (supports_autSk kd h)
  refine ⟨l, h1, fun fuel hf => ?_⟩
  obtain ⟨q, hq⟩ := hg.start_isSome h
  have hkk : (s.aut.kind != .std) = false := by rw [aut_kind', hk]; rfl
  unfold topOverlappingIter
  rw [gate_none h]
  simp only [hkk, ha, Bool.false_eq_true, if_false]
  rw [ha] at hq
  simp only [hq]
  rw [hpre, hg.overlap_iter_ref, hg.hasPre_false hpre, hk, h2 fuel hf]

theorem api_replace (hay : List UInt8) (repl : Mat → List UInt8) (stop : Option Nat)
    (h : supportsAnch s.cfg.startKind false) :
    ∃ F, (∀ st, st ≤ hay.length + 1 →
        IsFind s.cfg.matchKind (specPats s.cfg.fold s.pats) (specHay s.cfg.fold hay)
          st hay.length false (F st)) ∧
      topFindIter s (Input.whole hay) = .ok (iterSpec F 0 hay.length) ∧
      topReplaceAllWithBytes s hay repl stop =
        .ok (replaceBytes hay (iterSpec F 0 hay.length) repl stop) := by
  obtain ⟨F, h1, h2⟩ := api_iter hg hpre (Input.whole hay) h (Or.inr rfl)
  refine ⟨F, h1, h2, ?_⟩
  unfold topFindIter at h2
  rw [show (Input.whole hay).anch = false from rfl, gate_none h] at h2
  unfold topReplaceAllWithBytes
  rw [gate_none h]
  simp only [h2]
  rfl

theorem api_stream (hk : s.cfg.matchKind = .std) (hne : ∀ p ∈ s.pats, p ≠ [])
    (h : supportsAnch s.cfg.startKind false) (data : List UInt8) (sched : List Nat)
    (hs : ∀ x ∈ sched, 1 ≤ x) (spare : Option Nat) (minFactor defaultCap : Nat)
    (hcap : (Buffer.new (α := UInt8) (maxPatLen s.pats) spare minFactor defaultCap).min <
        (Buffer.new (α := UInt8) (maxPatLen s.pats) spare minFactor defaultCap).cap) :
    ∃ ms, topFindIter s (Input.whole data) = .ok ms ∧
      topStreamFind s { data := data, sched := sched } spare minFactor defaultCap =
        .ok (ms, false, 0) := by
  obtain ⟨ms, h1, h2⟩ := ref_stream s.cfg.fold s.pats hne (autSk kd s.cfg.startKind)
    (supports_autSk kd h) data sched hs spare minFactor defaultCap hcap
  refine ⟨ms, ?_, ?_⟩
  · unfold topFindIter
    rw [show (Input.whole data).anch = false from rfl, gate_none h, hpre]
    show findIter s.aut none (Input.whole data) = _
    rw [hg.iter_ref, hg.hasPre_false hpre, hk, h1]
  · unfold topStreamFind
    rw [gate_none h]
    show streamFind s.aut _ spare minFactor defaultCap = _
    rw [hg.stream_ref hk, h2]

end nopre

/-! ## rejected requests (any prefilter) -/

theorem api_find_err (s : Searcher) (i : Input UInt8) (h : ¬ supportsAnch s.cfg.startKind i.anch) :
    topFind s i = .error (anchErr i.anch) := by
  unfold topFind; rw [gate_err h]

theorem api_is_match_err (s : Searcher) (i : Input UInt8)
    (h : ¬ supportsAnch s.cfg.startKind i.anch) : topIsMatch s i = .error (anchErr i.anch) := by
  unfold topIsMatch; rw [gate_err h]

theorem api_iter_err (s : Searcher) (i : Input UInt8) (h : ¬ supportsAnch s.cfg.startKind i.anch) :
    topFindIter s i = .error (anchErr i.anch) := by
  unfold topFindIter; rw [gate_err h]

theorem api_overlap_err (s : Searcher) (i : Input UInt8)
    (h : ¬ supportsAnch s.cfg.startKind i.anch) (n : Nat) :
    topOverlapping s i (n + 1) = [.error (anchErr i.anch)] :=
  topOvlCalls_err s i _ (gate_err h) n _

theorem api_overlap_nonstd (s : Searcher) (i : Input UInt8)
    (h : supportsAnch s.cfg.startKind i.anch) (hk : s.cfg.matchKind ≠ .std) (n : Nat) :
    topOverlapping s i (n + 1) = [.error .unsupportedOverlapping] := by
  unfold topOverlapping
  rw [topOvlCalls_eq s i (gate_none h)]
  exact ovlCalls_nonstd _ _ _ (by rw [aut_kind']; exact hk) n _

theorem api_overlap_iter_err (s : Searcher) (i : Input UInt8) (fuel : Nat) :
    (¬ supportsAnch s.cfg.startKind i.anch →
      topOverlappingIter s i fuel = .error (anchErr i.anch)) ∧
    (supportsAnch s.cfg.startKind i.anch → s.cfg.matchKind ≠ .std →
      topOverlappingIter s i fuel = .error .unsupportedOverlapping) ∧
    (supportsAnch s.cfg.startKind i.anch → s.cfg.matchKind = .std → i.anch = true →
      topOverlappingIter s i fuel = .error .invalidInputAnchored) := by
  refine ⟨fun h => ?_, fun h hk => ?_, fun h hk ha => ?_⟩
  · unfold topOverlappingIter; rw [gate_err h]
  · have : (s.aut.kind != .std) = true := by rw [aut_kind']; simp [hk]
    unfold topOverlappingIter; rw [gate_none h]; simp only [this, if_true]
  · have : (s.aut.kind != .std) = false := by rw [aut_kind', hk]; rfl
    unfold topOverlappingIter; rw [gate_none h]
    simp only [this, ha, if_true, Bool.false_eq_true, if_false]

theorem api_replace_err (s : Searcher) (hay : List UInt8) (repl : Mat → List UInt8)
    (stop : Option Nat) (h : ¬ supportsAnch s.cfg.startKind false) :
    topReplaceAllWithBytes s hay repl stop = .error .invalidInputUnanchored := by
  unfold topReplaceAllWithBytes; rw [gate_err h]; rfl

/-- the three ways `try_stream_find_iter` is rejected, in the order of the code -/
theorem api_stream_err (s : Searcher) (rdr : Reader UInt8) (spare : Option Nat)
    (minFactor defaultCap : Nat) :
    (¬ supportsAnch s.cfg.startKind false →
      topStreamFind s rdr spare minFactor defaultCap = .error .invalidInputUnanchored) ∧
    (supportsAnch s.cfg.startKind false → s.cfg.matchKind ≠ .std →
      topStreamFind s rdr spare minFactor defaultCap = .error .unsupportedStream) ∧
    (supportsAnch s.cfg.startKind false → s.cfg.matchKind = .std → [] ∈ s.pats →
      topStreamFind s rdr spare minFactor defaultCap = .error .unsupportedEmpty) := by
  refine ⟨fun h => ?_, fun h hk => ?_, fun h hk he => ?_⟩
  · unfold topStreamFind; rw [gate_err h]; rfl
  · have : (s.aut.kind != .std) = true := by rw [aut_kind']; simp [hk]
    unfold topStreamFind; rw [gate_none h]
    simp only [streamFind, ChunkIter.new, this, if_true]
  · have h1 : (s.aut.kind != .std) = false := by rw [aut_kind', hk]; rfl
    have h2 : (s.aut.minLen == 0) = true := by
      have : s.aut.minLen = 0 := by
        unfold Searcher.aut; rw [toAut_minLen]; exact (minLen_eq_zero_iff _).2 he
      rw [this]; rfl
    unfold topStreamFind; rw [gate_none h]
    simp only [streamFind, ChunkIter.new, h1, h2, if_true, Bool.false_eq_true, if_false]

end AcVerif.TopP
