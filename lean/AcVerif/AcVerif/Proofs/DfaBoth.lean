import AcVerif.Proofs.DfaOne
/-!
# L1d proofs, part 4: `finish_build_both_starts` (start kind `Both`)

The remap tables in closed form (`remFold_spec`: `fU`, `fA`), the position of every row and match
list in the interleaved arrays (`rowsFold_spec`), and the entries of the four kinds of rows.
-/
namespace AcVerif.L1dP
open AcVerif AcVerif.CNfa AcVerif.L1cP

def remStep (acc : Array Nat × Array Nat × Nat) (sid : Nat) : Array Nat × Array Nat × Nat :=
  if sid == DEAD || sid == FAIL then (acc.1.push acc.2.2, acc.2.1.push acc.2.2, acc.2.2 + 1)
  else if sid == SU then (acc.1.push acc.2.2, acc.2.1.push 0, acc.2.2 + 1)
  else if sid == SA then (acc.1.push 0, acc.2.1.push acc.2.2, acc.2.2 + 1)
  else (acc.1.push acc.2.2, acc.2.1.push (acc.2.2 + 1), acc.2.2 + 2)

def remFold (m : Nat) : Array Nat × Array Nat × Nat := (List.range m).foldl remStep (#[], #[], 0)

/-- the row of a start state (literal) -/
def sRowM (n : CNfa) (classOf : UInt8 → Nat) (nc : Nat) (rem : Array Nat) (sid : Nat) : Array Nat :=
  (sparseIter (n.getD sid {}).trans classOf).foldl (fun row (_, cls, next) =>
    row.set! cls (if next == FAIL then 0 else rem.getD next 0)) (Array.replicate nc 0)

def aRowM (n : CNfa) (classOf : UInt8 → Nat) (nc : Nat) (remA : Array Nat) (sid : Nat) : Array Nat :=
  (sparseIter (n.getD sid {}).trans classOf).foldl (fun row (_, cls, next) =>
    if next == FAIL then row else row.set! cls (remA.getD next 0)) (Array.replicate nc 0)

def uRowM (n : CNfa) (classOf : UInt8 → Nat) (nc : Nat) (remU : Array Nat) (sid : Nat) : Array Nat :=
  (dfaRow n classOf nc false sid).map fun t => remU.getD t 0

def rowsStep (n : CNfa) (classOf : UInt8 → Nat) (nc : Nat) (remU remA : Array Nat)
    (acc : Array (Array Nat) × Array (List Nat)) (sid : Nat) : Array (Array Nat) × Array (List Nat) :=
  if sid == DEAD || sid == FAIL then (acc.1.push (Array.replicate nc 0), acc.2.push [])
  else if sid == SU || sid == SA then
    (acc.1.push (sRowM n classOf nc (if sid == SU then remU else remA) sid),
      acc.2.push (n.getD sid {}).matches_)
  else
    ((acc.1.push (uRowM n classOf nc remU sid)).push (aRowM n classOf nc remA sid),
      (acc.2.push (n.getD sid {}).matches_).push (n.getD sid {}).matches_)

def rowsFold (n : CNfa) (classOf : UInt8 → Nat) (nc : Nat) (remU remA : Array Nat) (m : Nat) :=
  (List.range m).foldl (rowsStep n classOf nc remU remA) (#[], #[])

theorem buildBoth_eq (n : CNfa) (classOf : UInt8 → Nat) (nc : Nat) :
    buildBoth n classOf nc =
      { rows := (rowsFold n classOf nc (remFold n.size).1 (remFold n.size).2.1 n.size).1
        classOf := classOf
        matches_ := (rowsFold n classOf nc (remFold n.size).1 (remFold n.size).2.1 n.size).2
        startU := some ((remFold n.size).1.getD SU 0)
        startA := some ((remFold n.size).2.1.getD SA 0) } := rfl

/-! ## arrays -/

theorem getD_push' {β : Type} (a : Array β) (x : β) (i : Nat) (d : β) :
    (a.push x).getD i d = if i < a.size then a.getD i d else if i = a.size then x else d := by
  simp only [Array.getD_eq_getD_getElem?, Array.getElem?_push]
  by_cases h : i = a.size
  · subst h; simp
  · by_cases h2 : i < a.size
    · simp [h, h2]
    · simp [h, h2]

theorem getD_push_lt {β : Type} (a : Array β) (x : β) {i : Nat} (d : β) (h : i < a.size) :
    (a.push x).getD i d = a.getD i d := by rw [getD_push', if_pos h]

theorem getD_push_size {β : Type} (a : Array β) (x : β) (d : β) :
    (a.push x).getD a.size d = x := by
  rw [getD_push', if_neg (Nat.lt_irrefl _), if_pos rfl]

theorem getD_map' {β γ : Type} (a : Array β) (f : β → γ) {i : Nat} (d : γ) (d' : β)
    (h : i < a.size) : (a.map f).getD i d = f (a.getD i d') := by
  simp [Array.getD_eq_getD_getElem?, h]

theorem getD_replicate' {β : Type} (n : Nat) (v : β) {i : Nat} (d : β) (h : i < n) :
    (Array.replicate n v).getD i d = v := by
  simp [Array.getD_eq_getD_getElem?, h]

/-! ## the remap tables in closed form -/

/-- number of DFA ids allocated before NFA state `m` -/
def cnt (m : Nat) : Nat := if m ≤ 4 then m else 2 * m - 4

/-- `remU` -/
def fU (s : Nat) : Nat := if s = 3 then 0 else cnt s

/-- `remA` -/
def fA (s : Nat) : Nat := if s = 2 then 0 else if s < 4 then s else 2 * s - 3

theorem cnt_succ (m : Nat) : cnt (m + 1) = cnt m + if m < 4 then 1 else 2 := by
  unfold cnt; split <;> split <;> split <;> omega

theorem cnt_of_lt {m : Nat} (h : m < 4) : cnt m = m := by unfold cnt; rw [if_pos (by omega)]

theorem cnt_of_ge {m : Nat} (h : 4 ≤ m) : cnt m = 2 * m - 4 := by
  unfold cnt; split <;> omega

theorem cnt_lt {i m : Nat} (h : i < m) : cnt i + (if i < 4 then 1 else 2) ≤ cnt m := by
  unfold cnt; split <;> split <;> split <;> omega

theorem remFold_succ (m : Nat) : remFold (m + 1) = remStep (remFold m) m := by
  unfold remFold
  rw [List.range_succ, List.foldl_append]
  rfl

structure RemI (m : Nat) (acc : Array Nat × Array Nat × Nat) : Prop where
  sizeU : acc.1.size = m
  sizeA : acc.2.1.size = m
  next : acc.2.2 = cnt m
  valU : ∀ i, i < m → acc.1.getD i 0 = fU i
  valA : ∀ i, i < m → acc.2.1.getD i 0 = fA i

theorem remStep_cases (acc : Array Nat × Array Nat × Nat) (m : Nat) :
    remStep acc m =
      (acc.1.push (if m = 3 then 0 else acc.2.2),
        acc.2.1.push (if m = 2 then 0 else if m < 4 then acc.2.2 else acc.2.2 + 1),
        acc.2.2 + if m < 4 then 1 else 2) := by
  unfold remStep
  by_cases h0 : m = 0
  · subst h0; simp [DEAD, FAIL]
  by_cases h1 : m = 1
  · subst h1; simp [DEAD, FAIL]
  by_cases h2 : m = 2
  · subst h2; simp [DEAD, FAIL, SU]
  by_cases h3 : m = 3
  · subst h3; simp [DEAD, FAIL, SU, SA]
  have e1 : (m == DEAD || m == FAIL) = false := by
    simp only [DEAD, FAIL, Bool.or_eq_false_iff, beq_eq_false_iff_ne, ne_eq]; omega
  have e2 : (m == SU) = false := by simpa [SU] using h2
  have e3 : (m == SA) = false := by simpa [SA] using h3
  have e4 : ¬ m < 4 := by omega
  simp only [e1, e2, e3, Bool.false_eq_true, if_false, if_neg h3, if_neg h2, if_neg e4]

theorem remFold_spec (m : Nat) : RemI m (remFold m) := by
  induction m with
  | zero =>
    exact ⟨rfl, rfl, rfl, (by intro i hi; omega), (by intro i hi; omega)⟩
  | succ m ih =>
    rw [remFold_succ, remStep_cases]
    refine ⟨?_, ?_, ?_, ?_, ?_⟩
    · simp [ih.sizeU]
    · simp [ih.sizeA]
    · show _ = cnt (m + 1)
      rw [cnt_succ, ih.next]
    · intro i hi
      show (Array.push _ _).getD i 0 = _
      by_cases him : i < m
      · rw [getD_push_lt _ _ _ (by rw [ih.sizeU]; exact him)]; exact ih.valU i him
      · have : i = m := by omega
        subst this
        have := getD_push_size (remFold i).1 (if i = 3 then 0 else (remFold i).2.2) 0
        rw [ih.sizeU] at this
        rw [this, ih.next]; rfl
    · intro i hi
      show (Array.push _ _).getD i 0 = _
      by_cases him : i < m
      · rw [getD_push_lt _ _ _ (by rw [ih.sizeA]; exact him)]; exact ih.valA i him
      · have : i = m := by omega
        subst this
        have := getD_push_size (remFold i).2.1
          (if i = 2 then 0 else if i < 4 then (remFold i).2.2 else (remFold i).2.2 + 1) 0
        rw [ih.sizeA] at this
        rw [this, ih.next]
        unfold fA
        by_cases h2 : i = 2
        · rw [if_pos h2, if_pos h2]
        · rw [if_neg h2, if_neg h2]
          by_cases h4 : i < 4
          · rw [if_pos h4, if_pos h4, cnt_of_lt h4]
          · rw [if_neg h4, if_neg h4, cnt_of_ge (by omega)]; omega


/-! ## the interleaved row / match-list arrays -/

section
variable (n : CNfa) (classOf : UInt8 → Nat) (nc : Nat) (remU remA : Array Nat)

theorem rowsStep_cases (acc : Array (Array Nat) × Array (List Nat)) (m : Nat) :
    rowsStep n classOf nc remU remA acc m =
      if m < 2 then (acc.1.push (Array.replicate nc 0), acc.2.push [])
      else if m = 2 then
        (acc.1.push (sRowM n classOf nc remU 2), acc.2.push (n.getD 2 {}).matches_)
      else if m = 3 then
        (acc.1.push (sRowM n classOf nc remA 3), acc.2.push (n.getD 3 {}).matches_)
      else
        ((acc.1.push (uRowM n classOf nc remU m)).push (aRowM n classOf nc remA m),
          (acc.2.push (n.getD m {}).matches_).push (n.getD m {}).matches_) := by
  unfold rowsStep
  by_cases h0 : m = 0
  · subst h0; simp [DEAD, FAIL]
  by_cases h1 : m = 1
  · subst h1; simp [DEAD, FAIL]
  by_cases h2 : m = 2
  · subst h2; simp [DEAD, FAIL, SU]
  by_cases h3 : m = 3
  · subst h3; simp [DEAD, FAIL, SU, SA]
  have e1 : (m == DEAD || m == FAIL) = false := by
    simp only [DEAD, FAIL, Bool.or_eq_false_iff, beq_eq_false_iff_ne, ne_eq]; omega
  have e2 : (m == SU || m == SA) = false := by
    simp only [SU, SA, Bool.or_eq_false_iff, beq_eq_false_iff_ne, ne_eq]; omega
  have e4 : ¬ m < 2 := by omega
  simp only [e1, e2, Bool.false_eq_true, if_false, if_neg h3, if_neg h2, if_neg e4]

theorem rowsFold_succ (m : Nat) :
    rowsFold n classOf nc remU remA (m + 1) =
      rowsStep n classOf nc remU remA (rowsFold n classOf nc remU remA m) m := by
  unfold rowsFold
  rw [List.range_succ, List.foldl_append]
  rfl

theorem rowsStep_size (acc : Array (Array Nat) × Array (List Nat)) (m : Nat) :
    (rowsStep n classOf nc remU remA acc m).1.size = acc.1.size + (if m < 4 then 1 else 2) ∧
      (rowsStep n classOf nc remU remA acc m).2.size = acc.2.size + (if m < 4 then 1 else 2) := by
  rw [rowsStep_cases]
  split
  · rw [if_pos (by omega)]; simp
  · split
    · rw [if_pos (by omega)]; simp
    · split
      · rw [if_pos (by omega)]; simp
      · rw [if_neg (by omega)]; simp

theorem rowsStep_pres1 (acc : Array (Array Nat) × Array (List Nat)) (m : Nat) {j : Nat}
    (d : Array Nat) (h : j < acc.1.size) :
    (rowsStep n classOf nc remU remA acc m).1.getD j d = acc.1.getD j d := by
  rw [rowsStep_cases]
  by_cases h1 : m < 2
  · rw [if_pos h1]; exact getD_push_lt _ _ _ h
  · rw [if_neg h1]
    by_cases h2 : m = 2
    · rw [if_pos h2]; exact getD_push_lt _ _ _ h
    · rw [if_neg h2]
      by_cases h3 : m = 3
      · rw [if_pos h3]; exact getD_push_lt _ _ _ h
      · rw [if_neg h3]
        show (Array.push _ _).getD j d = _
        rw [getD_push_lt _ _ _ (by rw [Array.size_push]; omega), getD_push_lt _ _ _ h]

theorem rowsStep_pres2 (acc : Array (Array Nat) × Array (List Nat)) (m : Nat) {j : Nat}
    (d : List Nat) (h : j < acc.2.size) :
    (rowsStep n classOf nc remU remA acc m).2.getD j d = acc.2.getD j d := by
  rw [rowsStep_cases]
  by_cases h1 : m < 2
  · rw [if_pos h1]; exact getD_push_lt _ _ _ h
  · rw [if_neg h1]
    by_cases h2 : m = 2
    · rw [if_pos h2]; exact getD_push_lt _ _ _ h
    · rw [if_neg h2]
      by_cases h3 : m = 3
      · rw [if_pos h3]; exact getD_push_lt _ _ _ h
      · rw [if_neg h3]
        show (Array.push _ _).getD j d = _
        rw [getD_push_lt _ _ _ (by rw [Array.size_push]; omega), getD_push_lt _ _ _ h]

/-- where everything sits after the states `< m` were processed -/
structure RowI (m : Nat) (acc : Array (Array Nat) × Array (List Nat)) : Prop where
  size1 : acc.1.size = cnt m
  size2 : acc.2.size = cnt m
  dead : ∀ i, i < m → i < 2 → acc.1.getD i #[] = Array.replicate nc 0 ∧ acc.2.getD i [] = []
  su : 2 < m → acc.1.getD 2 #[] = sRowM n classOf nc remU 2 ∧
    acc.2.getD 2 [] = (n.getD 2 {}).matches_
  sa : 3 < m → acc.1.getD 3 #[] = sRowM n classOf nc remA 3 ∧
    acc.2.getD 3 [] = (n.getD 3 {}).matches_
  node : ∀ i, i < m → 4 ≤ i →
    acc.1.getD (2 * i - 4) #[] = uRowM n classOf nc remU i ∧
    acc.1.getD (2 * i - 3) #[] = aRowM n classOf nc remA i ∧
    acc.2.getD (2 * i - 4) [] = (n.getD i {}).matches_ ∧
    acc.2.getD (2 * i - 3) [] = (n.getD i {}).matches_

theorem rowsFold_spec (m : Nat) :
    RowI n classOf nc remU remA m (rowsFold n classOf nc remU remA m) := by
  induction m with
  | zero =>
    exact ⟨rfl, rfl, (by intro i hi; omega), (by intro h; omega), (by intro h; omega),
      (by intro i hi; omega)⟩
  | succ m ih =>
    rw [rowsFold_succ]
    generalize rowsFold n classOf nc remU remA m = acc at ih
    have hsz := rowsStep_size n classOf nc remU remA acc m
    have hcs := cnt_succ m
    have p1 : ∀ j, j < cnt m → (rowsStep n classOf nc remU remA acc m).1.getD j #[] =
        acc.1.getD j #[] := fun j hj => rowsStep_pres1 n classOf nc remU remA acc m #[] (by rw [ih.size1]; exact hj)
    have p2 : ∀ j, j < cnt m → (rowsStep n classOf nc remU remA acc m).2.getD j [] =
        acc.2.getD j [] := fun j hj => rowsStep_pres2 n classOf nc remU remA acc m [] (by rw [ih.size2]; exact hj)
    refine ⟨by rw [hsz.1, ih.size1, hcs], by rw [hsz.2, ih.size2, hcs], ?_, ?_, ?_, ?_⟩
    · intro i hi h2
      by_cases him : i < m
      · have := cnt_lt him
        rw [cnt_of_lt (show i < 4 by omega), if_pos (by omega)] at this
        rw [p1 i (by omega), p2 i (by omega)]
        exact ih.dead i him h2
      · have : i = m := by omega
        subst this
        have hc : cnt i = i := cnt_of_lt (by omega)
        rw [rowsStep_cases, if_pos h2]
        constructor
        · have := getD_push_size acc.1 (Array.replicate nc 0) #[]
          rw [ih.size1, hc] at this; exact this
        · have := getD_push_size acc.2 ([] : List Nat) []
          rw [ih.size2, hc] at this; exact this
    · intro h2
      by_cases him : 2 < m
      · have := cnt_lt him
        rw [cnt_of_lt (show 2 < 4 by omega), if_pos (by omega)] at this
        rw [p1 2 (by omega), p2 2 (by omega)]
        exact ih.su him
      · have : m = 2 := by omega
        subst this
        have hc : cnt 2 = 2 := rfl
        rw [rowsStep_cases, if_neg (by omega), if_pos rfl]
        constructor
        · have := getD_push_size acc.1 (sRowM n classOf nc remU 2) #[]
          rw [ih.size1, hc] at this; exact this
        · have := getD_push_size acc.2 (n.getD 2 {}).matches_ []
          rw [ih.size2, hc] at this; exact this
    · intro h3
      by_cases him : 3 < m
      · have := cnt_lt him
        rw [cnt_of_lt (show 3 < 4 by omega), if_pos (by omega)] at this
        rw [p1 3 (by omega), p2 3 (by omega)]
        exact ih.sa him
      · have : m = 3 := by omega
        subst this
        have hc : cnt 3 = 3 := rfl
        rw [rowsStep_cases, if_neg (by omega), if_neg (by omega), if_pos rfl]
        constructor
        · have := getD_push_size acc.1 (sRowM n classOf nc remA 3) #[]
          rw [ih.size1, hc] at this; exact this
        · have := getD_push_size acc.2 (n.getD 3 {}).matches_ []
          rw [ih.size2, hc] at this; exact this
    · intro i hi h4
      by_cases him : i < m
      · have := cnt_lt him
        rw [cnt_of_ge h4, if_neg (by omega)] at this
        rw [p1 _ (show 2 * i - 4 < cnt m by omega), p1 _ (show 2 * i - 3 < cnt m by omega),
          p2 _ (show 2 * i - 4 < cnt m by omega), p2 _ (show 2 * i - 3 < cnt m by omega)]
        exact ih.node i him h4
      · have : i = m := by omega
        subst this
        have hc : cnt i = 2 * i - 4 := cnt_of_ge h4
        have hc' : 2 * i - 3 = (2 * i - 4) + 1 := by omega
        rw [rowsStep_cases, if_neg (by omega), if_neg (by omega), if_neg (by omega)]
        refine ⟨?_, ?_, ?_, ?_⟩
        · show (Array.push _ _).getD _ _ = _
          rw [getD_push_lt _ _ _ (by rw [Array.size_push, ih.size1, hc]; omega)]
          have := getD_push_size acc.1 (uRowM n classOf nc remU i) #[]
          rw [ih.size1, hc] at this; exact this
        · show (Array.push _ _).getD _ _ = _
          have := getD_push_size (acc.1.push (uRowM n classOf nc remU i))
            (aRowM n classOf nc remA i) #[]
          rw [Array.size_push, ih.size1, hc, ← hc'] at this; exact this
        · show (Array.push _ _).getD _ _ = _
          rw [getD_push_lt _ _ _ (by rw [Array.size_push, ih.size2, hc]; omega)]
          have := getD_push_size acc.2 (n.getD i {}).matches_ []
          rw [ih.size2, hc] at this; exact this
        · show (Array.push _ _).getD _ _ = _
          have := getD_push_size (acc.2.push (n.getD i {}).matches_) (n.getD i {}).matches_ []
          rw [Array.size_push, ih.size2, hc, ← hc'] at this; exact this

end

end AcVerif.L1dP
