import AcVerif.Proofs.DfaIdsSim
/-!
# L1d-ids proofs, part 3: `finish_build_one_start` — the id map `pos s << stride2`
-/
namespace AcVerif.L1dIdsP
open AcVerif AcVerif.CNfa AcVerif.L1cP AcVerif.L1dP AcVerif.L1eP

/-- the stored DFA for one start kind -/
def oneD (N : CNfa) (bc anch hasPre : Bool) : DfaI := idsOne N (clsOf N bc) (ncOf N bc) anch hasPre

/-- the id of the (pre-shuffle) NFA state `s` -/
def gOne (N : CNfa) (bc : Bool) (s : Nat) : Nat := posOf N s <<< s2Of N bc

def oneRows (N : CNfa) (bc anch : Bool) : Array (Array Nat) :=
  (Array.range N.size).map fun i =>
    if i == FAIL then Array.replicate (ncOf N bc) 0
    else (dfaRow N (clsOf N bc) (ncOf N bc) anch ((cOrder N).getD i 0)).map
      fun t => (cPos N).getD t 0 <<< s2Of N bc

def oneMs (N : CNfa) : Array (List Nat) :=
  (Array.range N.size).map fun i => (N.getD ((cOrder N).getD i 0) {}).matches_

theorem buildDfaIds_unanchored (N : CNfa) (bc hasPre : Bool) :
    buildDfaIds N .unanchored bc hasPre = oneD N bc false hasPre := rfl

theorem buildDfaIds_anchored (N : CNfa) (bc hasPre : Bool) :
    buildDfaIds N .anchored bc hasPre = oneD N bc true hasPre := rfl

theorem oneD_trans (N : CNfa) (bc anch hasPre : Bool) :
    (oneD N bc anch hasPre).trans = flatTable (oneRows N bc anch) N.size (s2Of N bc) := rfl

theorem oneD_matches (N : CNfa) (bc anch hasPre : Bool) :
    (oneD N bc anch hasPre).matches_ = matchTable (oneMs N) (nfaMaxMatch N (cNa N) - 1) := rfl

theorem gOne_eq (N : CNfa) (bc : Bool) (s : Nat) : gOne N bc s = posOf N s * 2 ^ s2Of N bc :=
  Nat.shiftLeft_eq _ _

theorem mul_pow_le_iff (a b s2 : Nat) : a * 2 ^ s2 ≤ b * 2 ^ s2 ↔ a ≤ b :=
  Nat.mul_le_mul_right_iff (Nat.two_pow_pos _)

theorem mul_pow_eq_zero_iff (a s2 : Nat) : a * 2 ^ s2 = 0 ↔ a = 0 := by
  have := Nat.two_pow_pos s2
  constructor
  · intro h
    rcases Nat.mul_eq_zero.1 h with h | h
    · exact h
    · omega
  · intro h; rw [h, Nat.zero_mul]

theorem mul_pow_inj {a b s2 : Nat} (h : a * 2 ^ s2 = b * 2 ^ s2) : a = b :=
  Nat.eq_of_mul_eq_mul_right (Nat.two_pow_pos _) h

theorem getElem?_eq_some_getD {β : Type} (a : Array β) {j : Nat} (d : β) (h : j < a.size) :
    a[j]? = some (a.getD j d) := by
  simp [Array.getD_eq_getD_getElem?, h]

section
variable {k : MatchKind} {Q : PatSet UInt8} {L : List (List UInt8)} {N : CNfa}

theorem one_sim (h : FS k Q L N) (bc anch hasPre : Bool) :
    Sim N L hasPre (oneD N bc anch hasPre) anch (gOne N bc) := by
  have hS := shufOK N h.four_le_size
  have h4 := hS.na_ge
  have h5 := hS.na_le
  have hmm := FS_isMatch_SU_SA h
  have hC := classOK_clsOf N bc
  -- facts about a live state
  have live : ∀ s, LvA L anch s → s < N.size ∧ s ≠ 1 ∧ posOf N s < N.size ∧ posOf N s ≠ 1 := by
    intro s hv
    have hs := hv.lv.lt_size h
    have h1 := hv.lv.ne_fail h
    exact ⟨hs, h1, hS.pos_lt s hs, posOf_ne_one hS hs h1⟩
  refine ⟨?_, ?_, ?_, ?_, ?_, ?_, ?_, ?_, ?_, ?_⟩
  · -- step
    intro s hv b
    obtain ⟨hs, h1, hp, hp1⟩ := live s hv
    show (oneD N bc anch hasPre).trans.getD (gOne N bc s + clsOf N bc b) 0 = _
    rw [oneD_trans, gOne_eq, flatTable_getD _ _ _ hp (cls_lt_stride N bc b)]
    unfold oneRows
    rw [getD_map_range _ _ _ _ hp]
    have e1 : (posOf N s == FAIL) = false := by simpa [FAIL] using hp1
    simp only [e1, Bool.false_eq_true, if_false]
    have eo : (cOrder N).getD (posOf N s) 0 = s := hS.order_pos s hs
    rw [eo, getD_map' _ _ 0 0 (by rw [dfaRow_size]; exact hC.lt b)]
    cases anch
    · rw [rowU_spec h hC hv b 0]; rfl
    · rw [rowA_spec h hC hv b 0]; rfl
  · -- idx
    intro s hv
    obtain ⟨hs, h1, hp, hp1⟩ := live s hv
    exact ⟨posOf N s, hp, gOne_eq N bc s⟩
  · intro b; exact cls_lt_stride N bc b
  · rw [oneD_trans, flatTable_size]; rfl
  · -- dead
    intro s hv
    obtain ⟨hs, h1, hp, hp1⟩ := live s hv
    rw [gOne_eq, mul_pow_eq_zero_iff]
    exact posOf_zero_iff hS hs
  · -- isMatch
    intro s hv
    obtain ⟨hs, h1, hp, hp1⟩ := live s hv
    have hfm := posFlag_match hS hmm hs h1
    show (gOne N bc s != 0 && decide (gOne N bc s ≤ nfaMaxMatch N (cNa N) <<< s2Of N bc)) = _
    rw [Bool.eq_iff_iff]
    simp only [Bool.and_eq_true, bne_iff_ne, ne_eq, decide_eq_true_eq]
    rw [gOne_eq, Nat.shiftLeft_eq, mul_pow_le_iff, mul_pow_eq_zero_iff]
    exact hfm
  · -- isSpecial
    intro s hv
    obtain ⟨hs, h1, hp, hp1⟩ := live s hv
    have hfs := posFlag_special hS hasPre hmm hs h1
    show decide (gOne N bc s ≤ nfaMaxSpecial N (cNa N) hasPre <<< s2Of N bc) = _
    rw [Bool.eq_iff_iff]
    simp only [decide_eq_true_eq, Bool.or_eq_true, Bool.and_eq_true, beq_iff_eq]
    rw [gOne_eq, Nat.shiftLeft_eq, mul_pow_le_iff, hfs]
    constructor
    · rintro (e | e | e)
      · exact Or.inl (Or.inl e)
      · exact Or.inl (Or.inr e)
      · exact Or.inr e
    · rintro ((e | e) | e)
      · exact Or.inl e
      · exact Or.inr (Or.inl e)
      · exact Or.inr (Or.inr e)
  · -- mlist
    intro s hv hm
    obtain ⟨hs, h1, hp, hp1⟩ := live s hv
    have hfm := posFlag_match hS hmm hs h1
    have hm' : gOne N bc s ≠ 0 ∧ gOne N bc s ≤ nfaMaxMatch N (cNa N) <<< s2Of N bc := by
      have : (gOne N bc s != 0 && decide (gOne N bc s ≤ nfaMaxMatch N (cNa N) <<< s2Of N bc)) = true := hm
      simpa using this
    rw [gOne_eq, Nat.shiftLeft_eq, mul_pow_le_iff, Ne, mul_pow_eq_zero_iff] at hm'
    have hshr : gOne N bc s >>> s2Of N bc = posOf N s := by
      rw [gOne_eq]; exact shr_mul _ N bc
    show (if gOne N bc s >>> s2Of N bc < 2 then none
      else (oneD N bc anch hasPre).matches_[gOne N bc s >>> s2Of N bc - 2]?) = _
    rw [hshr, if_neg (by omega), oneD_matches]
    have hj : posOf N s - 2 < nfaMaxMatch N (cNa N) - 1 := by omega
    rw [getElem?_eq_some_getD _ [] (by rw [matchTable_size]; exact hj), matchTable_getD _ _ hj]
    have e2 : posOf N s - 2 + 2 = posOf N s := by omega
    rw [e2]
    unfold oneMs
    rw [getD_map_range _ _ _ _ hp]
    have eo : (cOrder N).getD (posOf N s) 0 = s := hS.order_pos s hs
    rw [eo]
  · -- start
    cases anch
    · show (cNa N - 2) <<< s2Of N bc = posOf N 2 <<< s2Of N bc
      unfold posOf; rw [hS.posSU]
    · show (cNa N - 1) <<< s2Of N bc = posOf N 3 <<< s2Of N bc
      unfold posOf; rw [hS.posSA]
  · -- isStart
    intro s hv h0
    obtain ⟨hs, h1, hp, hp1⟩ := live s hv
    have hg0 : gOne N bc s ≠ 0 := by
      rw [gOne_eq, Ne, mul_pow_eq_zero_iff]
      exact fun e => h0 ((posOf_zero_iff hS hs).1 e)
    cases anch
    · show (gOne N bc s == (cNa N - 2) <<< s2Of N bc || gOne N bc s == 0) = true ↔ s = 2
      simp only [Bool.or_eq_true, beq_iff_eq]
      rw [gOne_eq, Nat.shiftLeft_eq]
      constructor
      · rintro (e | e)
        · have := mul_pow_inj e
          rw [← hS.posSU] at this
          exact posOf_inj hS hs (by omega) this
        · rw [← gOne_eq] at e; exact absurd e hg0
      · intro e; subst e
        left; unfold posOf; rw [hS.posSU]
    · show (gOne N bc s == 0 || gOne N bc s == (cNa N - 1) <<< s2Of N bc) = true ↔ s = 3
      simp only [Bool.or_eq_true, beq_iff_eq]
      rw [gOne_eq, Nat.shiftLeft_eq]
      constructor
      · rintro (e | e)
        · rw [← gOne_eq] at e; exact absurd e hg0
        · have := mul_pow_inj e
          rw [← hS.posSA] at this
          exact posOf_inj hS hs (by omega) this
      · intro e; subst e
        right; unfold posOf; rw [hS.posSA]

end

end AcVerif.L1dIdsP
