import AcVerif.Proofs.DfaFoldRow
import AcVerif.Proofs.DfaOne
/-!
# L1d (fold) proofs, part 2: `finish_build_one_start` on the NFA compiled with
`ascii_case_insensitive` (start kinds `Unanchored` and `Anchored`)

Port of the `FS`-dependent part of `Proofs/DfaOne.lean` to `FSf`: the runs of the DFA and of the
NFA `CNfa.compile k true P` visit the same ids (`buildOne_runU_f`/`buildOne_runA_f`), flags and
match lists agree on the live states of the mode.
-/
namespace AcVerif.L1dFoldP
open AcVerif AcVerif.CNfa AcVerif.L1cP AcVerif.L1dP AcVerif.L1cFoldP

/-! ## the class map of `buildDfa` -/

/-! ## `buildOne` -/

section
variable {k : MatchKind} {Q : PatSet UInt8} {L : List (List UInt8)} {N : CNfa}
variable {classOf : UInt8 → Nat} {nc : Nat}

/-- one step, unanchored -/
theorem buildOne_stepU_f (h : FSf k Q L N) (hC : ClassOK N classOf nc) (P : List (List UInt8))
    (hasPre : Bool) {s : Nat} (hv : VU L s) (b : UInt8) :
    ((buildOne N classOf nc false).toAut k P hasPre).next false s b =
      (N.toAut k P hasPre).next false s b := by
  rw [buildOne_next N classOf nc false P hasPre false (hv.lt_size_f h) b, rowU_spec_f h hC hv b 0]
  rfl

/-- one step, anchored -/
theorem buildOne_stepA_f (h : FSf k Q L N) (hC : ClassOK N classOf nc) (P : List (List UInt8))
    (hasPre : Bool) {s : Nat} (hv : VA L s) (b : UInt8) :
    ((buildOne N classOf nc true).toAut k P hasPre).next true s b =
      (N.toAut k P hasPre).next true s b := by
  rw [buildOne_next N classOf nc true P hasPre true (hv.lt_size_f h) b, rowA_spec_f h hC hv b 0]
  rfl

/-- observations agree on the live states of the unanchored mode -/
theorem buildOne_obsU_f (h : FSf k Q L N) (P : List (List UInt8)) (hasPre : Bool) {s : Nat}
    (hv : VU L s) :
    ((buildOne N classOf nc false).toAut k P hasPre).obs false s =
      (N.toAut k P hasPre).obs false s := by
  have hm := buildOne_mats N classOf nc false s
  have hsa : (s == SA) = false := by simpa using (hv.ne_sa_f h).1
  show Obs.mk _ _ _ _ = Obs.mk _ _ _ _
  simp only [DfaM.toAut, CNfa.toAut, CNfa.isMatch, Bool.false_eq_true, if_false, hm]
  have e1 : (some s == (buildOne N classOf nc false).startU) = (s == SU) := by
    show (some s == some SU) = _
    simp
  have e2 : (some s == (buildOne N classOf nc false).startA) = false := by
    show (some s == none) = _
    simp
  rw [e1, e2, hsa]
  rfl

/-- observations agree on the live states of the anchored mode -/
theorem buildOne_obsA_f (h : FSf k Q L N) (P : List (List UInt8)) (hasPre : Bool) {s : Nat}
    (hv : VA L s) :
    ((buildOne N classOf nc true).toAut k P hasPre).obs false s =
      (N.toAut k P hasPre).obs false s := by
  have hm := buildOne_mats N classOf nc true s
  have hsu : (s == SU) = false := by simpa using (hv.ne_su_f h).1
  show Obs.mk _ _ _ _ = Obs.mk _ _ _ _
  simp only [DfaM.toAut, CNfa.toAut, CNfa.isMatch, Bool.false_eq_true, if_false, hm]
  have e1 : (some s == (buildOne N classOf nc true).startU) = false := by
    show (some s == none) = _
    simp
  have e2 : (some s == (buildOne N classOf nc true).startA) = (s == SA) := by
    show (some s == some SA) = _
    simp
  rw [e1, e2, hsu]
  rfl

end

/-- the runs coincide state by state (unanchored) -/
theorem buildOne_runU_f (k : MatchKind) (P : List (List UInt8)) (hasPre : Bool)
    {L : List (List UInt8)} (hFS : FSf k (patSet k (P.map (·.map foldByte))) L (CNfa.compile k true P))
    {classOf : UInt8 → Nat} {nc : Nat} (hC : ClassOK (CNfa.compile k true P) classOf nc) :
    ∀ (w : List UInt8) (s : Nat) (q : St UInt8), Rel L false s q →
      ∃ q', Rel L false (((CNfa.compile k true P).toAut k P hasPre).runFrom false s w) q' ∧
        ((buildOne (CNfa.compile k true P) classOf nc false).toAut k P hasPre).runFrom false s w =
          ((CNfa.compile k true P).toAut k P hasPre).runFrom false s w
  | [], _, q, hr => ⟨q, hr, rfl⟩
  | c :: w, s, _, hr => by
    have hstep := buildOne_stepU_f hFS hC P hasPre (VU_of_Rel hr) c
    obtain ⟨q', h1, h2⟩ := buildOne_runU_f k P hasPre hFS hC w _ _ (Rel_step_f hFS false hr c)
    refine ⟨q', h1, ?_⟩
    show Aut.runFrom _ false (Aut.next _ false s c) w = _
    rw [hstep]
    exact h2

/-- the runs coincide state by state (anchored) -/
theorem buildOne_runA_f (k : MatchKind) (P : List (List UInt8)) (hasPre : Bool)
    {L : List (List UInt8)} (hFS : FSf k (patSet k (P.map (·.map foldByte))) L (CNfa.compile k true P))
    {classOf : UInt8 → Nat} {nc : Nat} (hC : ClassOK (CNfa.compile k true P) classOf nc) :
    ∀ (w : List UInt8) (s : Nat) (q : St UInt8), Rel L true s q →
      ∃ q', Rel L true (((CNfa.compile k true P).toAut k P hasPre).runFrom true s w) q' ∧
        ((buildOne (CNfa.compile k true P) classOf nc true).toAut k P hasPre).runFrom true s w =
          ((CNfa.compile k true P).toAut k P hasPre).runFrom true s w
  | [], _, q, hr => ⟨q, hr, rfl⟩
  | c :: w, s, _, hr => by
    have hstep := buildOne_stepA_f hFS hC P hasPre (VA_of_Rel hr) c
    obtain ⟨q', h1, h2⟩ := buildOne_runA_f k P hasPre hFS hC w _ _ (Rel_step_f hFS true hr c)
    refine ⟨q', h1, ?_⟩
    show Aut.runFrom _ true (Aut.next _ true s c) w = _
    rw [hstep]
    exact h2

theorem buildOne_obsEquivU_f (k : MatchKind) (P : List (List UInt8)) (hasPre : Bool)
    {classOf : UInt8 → Nat} {nc : Nat} (hC : ClassOK (CNfa.compile k true P) classOf nc) :
    ObsEquiv ((buildOne (CNfa.compile k true P) classOf nc false).toAut k P hasPre)
      ((CNfa.compile k true P).toAut k P hasPre) false false SU SU := by
  obtain ⟨L, hFS⟩ := compile_spec_f k P
  intro w
  have h0 : Rel L false SU (.at []) := by simp [Rel]
  obtain ⟨q', h1, h2⟩ := buildOne_runU_f k P hasPre hFS hC w _ _ h0
  rw [h2]
  exact buildOne_obsU_f hFS P hasPre (VU_of_Rel h1)

theorem buildOne_obsEquivA_f (k : MatchKind) (P : List (List UInt8)) (hasPre : Bool)
    {classOf : UInt8 → Nat} {nc : Nat} (hC : ClassOK (CNfa.compile k true P) classOf nc) :
    ObsEquiv ((buildOne (CNfa.compile k true P) classOf nc true).toAut k P hasPre)
      ((CNfa.compile k true P).toAut k P hasPre) false true SA SA := by
  obtain ⟨L, hFS⟩ := compile_spec_f k P
  intro w
  have h0 : Rel L true SA (.at []) := by simp [Rel]
  obtain ⟨q', h1, h2⟩ := buildOne_runA_f k P hasPre hFS hC w _ _ h0
  rw [h2]
  exact buildOne_obsA_f hFS P hasPre (VA_of_Rel h1)

end AcVerif.L1dFoldP
