import AcVerif.Proofs.StreamStep
/-!
# Stream search: draining the chunk iterator

From a state satisfying the invariant, `ChunkIter.drain` yields a chunk list
meeting `Spec` (with `emptyReads = 0`, and without error when the reader has
no fault), and `streamReplaceWith.go` is `goPure` over that list.
-/
namespace AcVerif.StreamP
open AcVerif
variable {σ α : Type}
variable {A : Aut σ α} {st0 : σ} {data : List α} {sched : List Nat} {fa : Option Nat}
  {Lm C : Nat}

theorem need_le_nextFuel {r : Nat} {it : ChunkIter σ α}
    (h : Inv A st0 data sched fa Lm C r it) : need A data it ≤ nextFuel it := by
  unfold need nextFuel
  rw [h.rinv.1]
  split
  · omega
  · split <;> omega

theorem drain_spec (H : Hyp A st0 data sched Lm C) (n : Nat) (it : ChunkIter σ α) (r : Nat)
    (h : Inv A st0 data sched fa Lm C r it) (hn : data.length - off it + 1 ≤ n) :
    ∃ cs err, ChunkIter.drain A n it = (cs, err, 0) ∧
      Spec (firstMatch A st0 data) data err (off it) r cs ∧ (fa = none → err = false) := by
  induction n generalizing it r with
  | zero => omega
  | succ n ih =>
    rw [ChunkIter.drain]
    have hp := next_post H (nextFuel it) it r h (need_le_nextFuel h)
    generalize ChunkIter.next A it (nextFuel it) = res at hp
    match res, hp with
    | (.done, it'), hp =>
      obtain ⟨h1, h2, h3⟩ := hp
      refine ⟨[], false, by simp only [h1], Or.inr ⟨h2, h3⟩, fun _ => rfl⟩
    | (.ioErr, it'), hp =>
      obtain ⟨h1, h2⟩ := hp
      exact ⟨[], true, by simp only [h1], Or.inl rfl, fun hfa => absurd hfa h2⟩
    | (.chunk (.nonMatch b), it'), hp =>
      obtain ⟨h1, h2, h3⟩ := hp
      have hle := h1.off_le
      obtain ⟨cs, err, hd, hs, he⟩ := ih it' r h1 (by omega)
      refine ⟨.nonMatch b :: cs, err, by simp only [hd], ?_, he⟩
      exact ⟨off it', h2, hle, h3, hs⟩
    | (.chunk (.mtch b m), it'), hp =>
      obtain ⟨h1, h2, h3, h4, h5⟩ := hp
      have hrN : r ≤ data.length := Nat.le_trans h.scan.1 h.scan.2.1
      have hm := H.fok r m hrN h2
      have hle := h1.off_le
      rw [h4] at hle
      obtain ⟨cs, err, hd, hs, he⟩ := ih it' m.stop h1 (by omega)
      refine ⟨.mtch b m :: cs, err, by simp only [hd], ?_, he⟩
      rw [h4] at hs
      exact ⟨h2, h3, h5, hs⟩

theorem go_eq (H : Hyp A st0 data sched Lm C) (repl : Mat → List α) (n : Nat)
    (it : ChunkIter σ α) (r : Nat) (w : Writer α) (log : List (Mat × List α))
    (h : Inv A st0 data sched fa Lm C r it) (hn : data.length - off it + 1 ≤ n) :
    streamReplaceWith.go A repl n it w log =
      ((goPure repl (ChunkIter.drain A n it).1 (ChunkIter.drain A n it).2.1 w log).1,
        (goPure repl (ChunkIter.drain A n it).1 (ChunkIter.drain A n it).2.1 w log).2.1,
        (goPure repl (ChunkIter.drain A n it).1 (ChunkIter.drain A n it).2.1 w log).2.2, 0) := by
  induction n generalizing it r w log with
  | zero => omega
  | succ n ih =>
    rw [streamReplaceWith.go, ChunkIter.drain]
    have hp := next_post H (nextFuel it) it r h (need_le_nextFuel h)
    generalize ChunkIter.next A it (nextFuel it) = res at hp
    match res, hp with
    | (.done, it'), hp =>
      obtain ⟨h1, h2, h3⟩ := hp
      simp only [h1, goPure, Bool.not_false]
    | (.ioErr, it'), hp =>
      obtain ⟨h1, h2⟩ := hp
      simp only [h1, goPure, Bool.not_true]
    | (.chunk (.nonMatch b), it'), hp =>
      obtain ⟨h1, h2, h3⟩ := hp
      have hle := h1.off_le
      have her := h1.rinv.2.2.2.1
      simp only [goPure]
      generalize w.writeAll b = wr
      match wr with
      | (w', true) => simp only; exact ih it' r w' log h1 (by omega)
      | (w', false) => simp only [her]
    | (.chunk (.mtch b m), it'), hp =>
      obtain ⟨h1, h2, h3, h4, h5⟩ := hp
      have hrN : r ≤ data.length := Nat.le_trans h.scan.1 h.scan.2.1
      have hm := H.fok r m hrN h2
      have hle := h1.off_le
      rw [h4] at hle
      have her := h1.rinv.2.2.2.1
      simp only [goPure]
      generalize w.writeAll (repl m) = wr
      match wr with
      | (w', true) => simp only; exact ih it' m.stop w' _ h1 (by omega)
      | (w', false) => simp only [her]

end AcVerif.StreamP
