import AcVerif.StreamCost
import AcVerif.Proofs.StreamFold
import AcVerif.Proofs.StreamTransfer
/-!
# Work of a stream search: where the drained iterator stops

`StreamP.Post` (the postcondition of one `next` call used for C07 / C08 / C18) says nothing about
the iterator returned with `.done` / `.ioErr` beyond `emptyReads = 0`.  `AbsPost` adds what the
cost statement needs, proved alongside by the same case analysis (`next_abs`):

* `.done` is returned only from the end-of-stream branch, where the reader is exhausted and the
  buffer has been scanned to its end, so `absPos = data.length` (by `Inv.abs`);
* `.ioErr` is returned with a state satisfying `Inv`, so `absPos ≤ data.length` (by `Inv.scan`).

`drainEnd_abs` lifts this to `ChunkIter.drainEnd` (the fuel `drainFuel` never runs out, exactly as
in `drain_spec`), `streamTransitions_gen` to `streamTransitions` for any automaton satisfying
`Hyp`.  `StreamX.drainEnd_transfer` / `streamTransitions_transfer`: the number of transitions
depends on the automaton only through the match observations of the reachable states.
-/
namespace AcVerif.StreamP
open AcVerif
variable {σ α : Type}

/-- what the cost statement needs of the iterator a `next` call returns -/
def AbsPost (data : List α) : NextResult σ α × ChunkIter σ α → Prop
  | (.done, it') => it'.absPos = data.length
  | (.ioErr, it') => it'.absPos ≤ data.length
  | (.chunk _, _) => True

section
variable {A : Aut σ α} {st0 : σ} {data : List α} {sched : List Nat} {fa : Option Nat}
  {Lm C : Nat}

theorem matchStep_abs (it : ChunkIter σ α) : AbsPost data (matchStep A it) := by
  simp only [matchStep]
  split <;> exact trivial

theorem preRollStep_abs (it : ChunkIter σ α) : AbsPost data (preRollStep it) := trivial

theorem eofStep_abs {r : Nat} {it : ChunkIter σ α}
    (h : Inv A st0 data sched fa Lm C r it)
    (hpl : it.bufPos = it.buf.buf.length) (hN : it.rdr.pos = data.length) :
    AbsPost data (eofStep it) := by
  have habs := h.abs
  have hlen := h.binv.2.2.1
  unfold eofStep
  split
  · exact trivial
  · show it.absPos = data.length
    omega

theorem next_abs (H : Hyp A st0 data sched Lm C) (fuel : Nat) (it : ChunkIter σ α) (r : Nat)
    (h : Inv A st0 data sched fa Lm C r it) (hf : need A data it ≤ fuel) :
    AbsPost data (ChunkIter.next A it fuel) := by
  induction fuel generalizing it with
  | zero =>
    unfold need at hf
    split at hf <;> omega
  | succ fuel ih =>
    rw [next_succ]
    cases hm : A.isMatch it.sid with
    | true =>
      simp only [if_true]
      exact matchStep_abs it
    | false =>
      simp only [Bool.false_eq_true, if_false]
      have hN := h.rinv.2.2.2.2
      simp only [need, hm, Bool.false_eq_true, if_false] at hf
      by_cases hge : it.bufPos ≥ it.buf.buf.length
      · rw [if_pos hge]
        by_cases hlt : it.reported < it.buf.buf.length - it.buf.min
        · rw [if_pos hlt]
          exact preRollStep_abs it
        · rw [if_neg hlt]
          obtain ⟨hI, hoff, hl, hpl, hsid, hrdr⟩ := rollStep_inv H h hge hlt
          have hfill := fill_spec H.sch H.lmC
            ((rollStep it).rdr.data.length - (rollStep it).rdr.pos + 1) _ _ false hI.rinv hI.binv hl
            (by rw [hI.rinv.1]; omega)
          generalize Buffer.fill (rollStep it).buf (rollStep it).rdr false
            ((rollStep it).rdr.data.length - (rollStep it).rdr.pos + 1) = fres at hfill
          match fres, hfill with
          | .error (), hfill =>
            exact hI.scan.2.1
          | .ok (false, b', rd'), hfill =>
            obtain ⟨g1, g2, g3, g4, g5, g6⟩ := hfill
            obtain ⟨_, g7, g8⟩ := g5 rfl
            obtain ⟨hI', hoff'⟩ := fill_inv hI hpl g1 g2 g3 g4
            have hlen := hI.binv.2.2.1
            have hlen' := g2.2.2.1
            exact eofStep_abs hI' (by show (rollStep it).bufPos = b'.buf.length; omega) g7
          | .ok (true, b', rd'), hfill =>
            obtain ⟨g1, g2, g3, g4, g5, g6⟩ := hfill
            have g7 : (rollStep it).rdr.pos < rd'.pos := by
              rcases g6 rfl with h | h
              · cases h
              · exact h
            rw [hrdr] at g7
            obtain ⟨hI', hoff'⟩ := fill_inv hI hpl g1 g2 g3 g4
            have hm' : A.isMatch ({ rollStep it with buf := b', rdr := rd' } : ChunkIter σ α).sid
                = false := by
              show A.isMatch (rollStep it).sid = false; rw [hsid]; exact hm
            obtain ⟨hI2, hoff2, hrdr2, hbuf2, hcase⟩ := scanStep_inv hI' hm'
            have hN' := g1.2.2.2.2
            exact ih _ hI2 (by
              unfold need
              split
              · omega
              · rw [hrdr2]
                show data.length - rd'.pos + 2 + _ ≤ fuel
                rcases hcase with hc | hc
                · rename_i hnm; rw [hc] at hnm; exact absurd rfl hnm
                · rw [if_neg (by omega)]; omega)
      · rw [if_neg hge]
        rw [if_pos (by omega)] at hf
        obtain ⟨hI2, hoff2, hrdr2, hbuf2, hcase⟩ := scanStep_inv h hm
        exact ih _ hI2 (by
          unfold need
          split
          · omega
          · rw [hrdr2]
            rcases hcase with hc | hc
            · rename_i hnm; rw [hc] at hnm; exact absurd rfl hnm
            · rw [if_neg (by omega)]; omega)

/-- the iterator `drainEnd` stops in has scanned at most the whole stream, and exactly the whole
stream when the reader has no fault -/
theorem drainEnd_abs (H : Hyp A st0 data sched Lm C) (n : Nat) (it : ChunkIter σ α) (r : Nat)
    (h : Inv A st0 data sched fa Lm C r it) (hn : data.length - off it + 1 ≤ n) :
    (ChunkIter.drainEnd A n it).absPos ≤ data.length ∧
      (fa = none → (ChunkIter.drainEnd A n it).absPos = data.length) := by
  induction n generalizing it r with
  | zero => omega
  | succ n ih =>
    rw [ChunkIter.drainEnd]
    have hp := next_post H (nextFuel it) it r h (need_le_nextFuel h)
    have ha := next_abs H (nextFuel it) it r h (need_le_nextFuel h)
    generalize ChunkIter.next A it (nextFuel it) = res at hp ha
    match res, hp, ha with
    | (.done, it'), hp, ha =>
      have ha : it'.absPos = data.length := ha
      exact ⟨by show it'.absPos ≤ data.length; omega, fun _ => ha⟩
    | (.ioErr, it'), hp, ha =>
      obtain ⟨h1, h2⟩ := hp
      exact ⟨ha, fun hfa => absurd hfa h2⟩
    | (.chunk (.nonMatch b), it'), hp, ha =>
      obtain ⟨h1, h2, h3⟩ := hp
      have hle := h1.off_le
      exact ih it' r h1 (by omega)
    | (.chunk (.mtch b m), it'), hp, ha =>
      obtain ⟨h1, h2, h3, h4, h5⟩ := hp
      have hrN : r ≤ data.length := Nat.le_trans h.scan.1 h.scan.2.1
      have hm := H.fok r m hrN h2
      have hle := h1.off_le
      rw [h4] at hle
      exact ih it' m.stop h1 (by omega)

/-- `streamTransitions` for any automaton satisfying the standing assumptions whose `new`
succeeds with the start state `st0` -/
theorem streamTransitions_gen (b : Buffer α) (hb : b.buf = [])
    (H : Hyp A st0 data sched b.min b.cap) (spare : Option Nat) (minFactor defaultCap : Nat)
    (hnew : ChunkIter.new A { data := data, sched := sched, failAt := fa } spare minFactor
        defaultCap =
      .ok { rdr := { data := data, sched := sched, failAt := fa }, buf := b, start := st0,
            sid := st0 }) :
    ∃ t, streamTransitions A { data := data, sched := sched, failAt := fa } spare minFactor
        defaultCap = .ok t ∧ t ≤ data.length ∧ (fa = none → t = data.length) := by
  have hI := inv_init_gen A st0 data sched fa b hb
  have hd := drainEnd_abs H (drainFuel data) _ 0 hI (by
    show data.length - (0 - b.buf.length + 0) + 1 ≤ drainFuel data
    rw [hb]; unfold drainFuel; simp only [List.length_nil]; omega)
  refine ⟨_, ?_, hd.1, hd.2⟩
  simp only [streamTransitions, hnew]

end

/-! ## the ideal standard automaton and its comap -/
section Ideal
variable {α : Type} [DecidableEq α]

theorem streamTransitions_ideal (P : List (List α)) (sk : StartKind) (hsk : supportsAnch sk false)
    (hne : ∀ p ∈ P, p ≠ []) (data : List α) (sched : List Nat) (hs : ∀ x ∈ sched, 1 ≤ x)
    (spare : Option Nat) (minFactor defaultCap : Nat)
    (hcap : (Buffer.new (α := α) (ideal .std P sk false).maxLen spare minFactor defaultCap).min <
        (Buffer.new (α := α) (ideal .std P sk false).maxLen spare minFactor defaultCap).cap)
    (fa : Option Nat) :
    ∃ t, streamTransitions (ideal .std P sk false)
        { data := data, sched := sched, failAt := fa } spare minFactor defaultCap = .ok t ∧
      t ≤ data.length ∧ (fa = none → t = data.length) :=
  streamTransitions_gen _ (buffer_new_buf _ _ _ _)
    (hyp_ideal P sk hsk hne data sched hs spare minFactor defaultCap hcap) spare minFactor
    defaultCap (new_ok P sk hsk hne _ spare minFactor defaultCap)

theorem streamTransitions_comap (Q : List (List α)) (g : α → α) (sk : StartKind)
    (hsk : supportsAnch sk false) (hne : ∀ p ∈ Q, p ≠ []) (data : List α) (sched : List Nat)
    (hs : ∀ x ∈ sched, 1 ≤ x) (spare : Option Nat) (minFactor defaultCap : Nat)
    (hcap : (Buffer.new (α := α) ((ideal .std Q sk false).comap g).maxLen spare minFactor
          defaultCap).min <
        (Buffer.new (α := α) ((ideal .std Q sk false).comap g).maxLen spare minFactor
          defaultCap).cap)
    (fa : Option Nat) :
    ∃ t, streamTransitions ((ideal .std Q sk false).comap g)
        { data := data, sched := sched, failAt := fa } spare minFactor defaultCap = .ok t ∧
      t ≤ data.length ∧ (fa = none → t = data.length) :=
  streamTransitions_gen _ (buffer_new_buf _ _ _ _)
    (hyp_comap Q g sk hsk hne data sched hs spare minFactor defaultCap hcap) spare minFactor
    defaultCap (new_ok_comap Q g sk hsk hne _ spare minFactor defaultCap)

end Ideal

end AcVerif.StreamP

/-! ## transfer along match equivalence -/
namespace AcVerif.StreamX
open AcVerif
variable {σ τ α : Type}

/-- draining related iterators ends in related iterators (same reader, buffer and positions) -/
theorem drainEnd_transfer (A : Aut σ α) (B : Aut τ α) (hl : ∀ pid, A.patLen pid = B.patLen pid) :
    ∀ (n : Nat) (x : ChunkIter σ α) (y : ChunkIter τ α), CRel A B x y →
      CRel A B (ChunkIter.drainEnd A n x) (ChunkIter.drainEnd B n y) := by
  intro n
  induction n with
  | zero => intro x y h; exact h
  | succ n ih =>
    intro x y h
    have hn := next_transfer A B hl (nextFuel x) x y h
    rw [nextFuel_eq h] at hn
    simp only [ChunkIter.drainEnd]
    rw [nextFuel_eq h]
    obtain ⟨h1, h2⟩ := hn
    cases hA : ChunkIter.next A x (nextFuel y) with
    | mk ra xa =>
      cases hB : ChunkIter.next B y (nextFuel y) with
      | mk rb yb =>
        rw [hA, hB] at h1 h2
        simp only at h1 h2
        subst h1
        cases ra with
        | done => exact h2
        | ioErr => exact h2
        | chunk c => exact ih _ _ h2

/-- the number of transitions of a stream search depends on the automaton only through what
`StreamChunkIter` reads of it -/
theorem streamTransitions_transfer (A : Aut σ α) (B : Aut τ α) (hk : A.kind = B.kind)
    (hl : ∀ pid, A.patLen pid = B.patLen pid)
    (hmin : A.minLen = B.minLen) (hmax : A.maxLen = B.maxLen) (h : MStart A B)
    (rdr : Reader α) (spare : Option Nat) (minFactor defaultCap : Nat) :
    streamTransitions A rdr spare minFactor defaultCap =
      streamTransitions B rdr spare minFactor defaultCap := by
  unfold streamTransitions
  rcases new_transfer A B hk hmin hmax h rdr spare minFactor defaultCap with
    ⟨e, hA, hB⟩ | ⟨x, y, hA, hB, hxy⟩ <;> rw [hA, hB]
  simp only
  rw [(drainEnd_transfer A B hl _ x y hxy).2.2.1]

end AcVerif.StreamX
