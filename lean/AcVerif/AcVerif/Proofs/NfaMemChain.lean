import AcVerif.NfaMem
/-!
# L1c-mem proofs, part 0: linked chains inside a vector, array views
-/
namespace AcVerif.MemP
open AcVerif

/-! ## chains -/

/-- following `lnk` from `h` visits exactly the cells `l` (none of them `0`) and then
reaches the end marker `0` -/
def IsChain (lnk : Nat → Nat) : Nat → List Nat → Prop
  | h, [] => h = 0
  | h, i :: is => h = i ∧ i ≠ 0 ∧ IsChain lnk (lnk i) is

theorem IsChain.head_eq {lnk : Nat → Nat} {h : Nat} {l : List Nat} (hc : IsChain lnk h l) :
    h = l.headD 0 := by
  cases l with
  | nil => exact hc
  | cons i is => exact hc.1

theorem IsChain.congr {lnk lnk' : Nat → Nat} {h : Nat} {l : List Nat} (hc : IsChain lnk h l)
    (he : ∀ i ∈ l, lnk' i = lnk i) : IsChain lnk' h l := by
  induction l generalizing h with
  | nil => exact hc
  | cons i is ih =>
    refine ⟨hc.1, hc.2.1, ?_⟩
    rw [he i List.mem_cons_self]
    exact ih hc.2.2 fun j hj => he j (List.mem_cons_of_mem _ hj)

theorem IsChain.unique {lnk : Nat → Nat} {h : Nat} {l₁ l₂ : List Nat} (h1 : IsChain lnk h l₁)
    (h2 : IsChain lnk h l₂) : l₁ = l₂ := by
  induction l₁ generalizing h l₂ with
  | nil =>
    cases l₂ with
    | nil => rfl
    | cons j js => exact absurd (h2.1.symm.trans h1) h2.2.1
  | cons i is ih =>
    cases l₂ with
    | nil => exact absurd (h1.1.symm.trans h2) h1.2.1
    | cons j js =>
      have e : i = j := h1.1.symm.trans h2.1
      subst e
      rw [ih h1.2.2 h2.2.2]

theorem IsChain.ne_zero {lnk : Nat → Nat} {h : Nat} {l : List Nat} (hc : IsChain lnk h l) :
    ∀ i ∈ l, i ≠ 0 := by
  induction l generalizing h with
  | nil => intro i hi; cases hi
  | cons j js ih =>
    intro i hi
    rcases List.mem_cons.1 hi with e | e
    · subst e; exact hc.2.1
    · exact ih hc.2.2 i e

theorem IsChain.eq_nil {lnk : Nat → Nat} {l : List Nat} (hc : IsChain lnk 0 l) : l = [] := by
  cases l with
  | nil => rfl
  | cons i is => exact absurd hc.1.symm hc.2.1

theorem IsChain.ne_nil {lnk : Nat → Nat} {h : Nat} {l : List Nat} (hc : IsChain lnk h l)
    (hh : h ≠ 0) : l ≠ [] := by
  intro e; subst e; exact hh hc

/-- the chain splits at any point -/
theorem IsChain.suffix {lnk : Nat → Nat} {h : Nat} {pre suf : List Nat}
    (hc : IsChain lnk h (pre ++ suf)) :
    IsChain lnk (match pre.getLast? with | some p => lnk p | none => h) suf := by
  induction pre generalizing h with
  | nil => exact hc
  | cons p ps ih =>
    have h2 := ih hc.2.2
    cases ps with
    | nil => exact h2
    | cons q qs => rw [List.getLast?_cons_cons]; exact h2

/-- splicing a fresh cell `new` into a chain between `pre` and `suf`: the cell gets the link
to the head of `suf`, the last cell of `pre` (or the list head) is redirected to `new`, nothing
else changes -/
theorem IsChain.insert {lnk lnk' : Nat → Nat} {h new : Nat} {pre suf : List Nat}
    (hc : IsChain lnk h (pre ++ suf)) (hnd : (pre ++ suf).Nodup)
    (hnew0 : new ≠ 0) (hnew : new ∉ pre ++ suf) (hl : lnk' new = suf.headD 0)
    (hlast : ∀ p, pre.getLast? = some p → lnk' p = new)
    (hkeep : ∀ i ∈ pre ++ suf, pre.getLast? ≠ some i → lnk' i = lnk i) :
    IsChain lnk' (if pre = [] then new else h) (pre ++ new :: suf) := by
  induction pre generalizing h with
  | nil =>
    simp only [List.nil_append, if_true] at hc ⊢
    refine ⟨rfl, hnew0, ?_⟩
    rw [hl, ← hc.head_eq]
    exact hc.congr fun i hi => hkeep i (by simpa using hi) (by simp)
  | cons p ps ih =>
    rw [if_neg (List.cons_ne_nil _ _)]
    have hnd' := List.nodup_cons.1 hnd
    refine ⟨hc.1, hc.2.1, ?_⟩
    have hrec := ih hc.2.2 hnd'.2 (fun hm => hnew (List.mem_cons_of_mem _ hm))
    cases ps with
    | nil =>
      rw [hlast p rfl]
      have := hrec (fun q hq => by cases hq) (fun i hi _ => by
        refine hkeep i (List.mem_cons_of_mem _ hi) ?_
        intro e
        have e : p = i := by simpa using e
        subst e; exact hnd'.1 hi)
      simpa using this
    | cons q qs =>
      have hp : lnk' p = lnk p := by
        refine hkeep p List.mem_cons_self ?_
        rw [List.getLast?_cons_cons]
        intro e
        have : p ∈ q :: qs := List.mem_of_getLast? e
        exact hnd'.1 (List.mem_append_left _ this)
      rw [hp]
      have := hrec (fun r hr => hlast r (by rw [List.getLast?_cons_cons]; exact hr))
        (fun i hi hne => hkeep i (List.mem_cons_of_mem _ hi)
          (by rw [List.getLast?_cons_cons]; exact hne))
      rw [if_neg (List.cons_ne_nil _ _)] at this
      exact this

/-- pigeonhole: distinct cells below `n` are at most `n` -/
theorem length_le_of_nodup_lt {l : List Nat} {n : Nat} (hnd : l.Nodup) (hlt : ∀ i ∈ l, i < n) :
    l.length ≤ n := by
  have := List.Nodup.length_le_of_subset hnd (l₂ := List.range n)
    (fun i hi => List.mem_range.2 (hlt i hi))
  simpa using this

/-! ## the three vectors through `getD` -/

open MemNfa

theorem arr_getD_push {α : Type} (a : Array α) (x d : α) (j : Nat) :
    (a.push x).getD j d = if j = a.size then x else a.getD j d := by
  simp only [Array.getD_eq_getD_getElem?, Array.getElem?_push]
  split <;> rfl

theorem arr_getD_set {α : Type} (a : Array α) (i : Nat) (x d : α) (j : Nat) :
    (a.setIfInBounds i x).getD j d = if j = i ∧ i < a.size then x else a.getD j d := by
  simp only [Array.getD_eq_getD_getElem?, Array.getElem?_setIfInBounds]
  by_cases h : i = j
  · subst h
    by_cases hs : i < a.size
    · simp [hs]
    · simp [hs]
  · have : ¬ j = i := fun e => h e.symm
    simp [h, this]

theorem arr_getD_oob {α : Type} (a : Array α) (d : α) {j : Nat} (h : a.size ≤ j) :
    a.getD j d = d := by
  simp only [Array.getD_eq_getD_getElem?, Array.getElem?_eq_none h, Option.getD_none]

theorem arr_ext_getD {α : Type} {a b : Array α} (d : α) (hs : a.size = b.size)
    (h : ∀ i, i < a.size → a.getD i d = b.getD i d) : a = b := by
  apply Array.ext hs
  intro i h1 h2
  have := h i h1
  simpa [Array.getD_eq_getD_getElem?, Array.getElem?_eq_getElem h1, Array.getElem?_eq_getElem h2]
    using this

theorem arr_set_push {α : Type} (a : Array α) (x y : α) :
    (a.push x).setIfInBounds a.size y = a.push y := by
  apply arr_ext_getD x (by simp)
  intro i _
  rw [arr_getD_set, arr_getD_push, arr_getD_push, Array.size_push]
  by_cases h : i = a.size
  · simp [h]
  · simp [h]

/-! ### `setTr` -/

theorem tr_setTr (m : MemNfa) (i : Nat) (t : MTrans) (j : Nat) :
    (m.setTr i t).tr j = if j = i ∧ i < m.sparse.size then t else m.tr j :=
  arr_getD_set _ _ _ _ _

@[simp] theorem mt_setTr (m : MemNfa) (i : Nat) (t : MTrans) (j : Nat) :
    (m.setTr i t).mt j = m.mt j := rfl
@[simp] theorem st_setTr (m : MemNfa) (i : Nat) (t : MTrans) (j : Nat) :
    (m.setTr i t).st j = m.st j := rfl
@[simp] theorem states_setTr (m : MemNfa) (i : Nat) (t : MTrans) :
    (m.setTr i t).states = m.states := rfl
@[simp] theorem matches_setTr (m : MemNfa) (i : Nat) (t : MTrans) :
    (m.setTr i t).matches_ = m.matches_ := rfl
@[simp] theorem sparse_size_setTr (m : MemNfa) (i : Nat) (t : MTrans) :
    (m.setTr i t).sparse.size = m.sparse.size := Array.size_setIfInBounds

/-! ### `setMt` -/

theorem mt_setMt (m : MemNfa) (i : Nat) (x : MMatch) (j : Nat) :
    (m.setMt i x).mt j = if j = i ∧ i < m.matches_.size then x else m.mt j :=
  arr_getD_set _ _ _ _ _

@[simp] theorem tr_setMt (m : MemNfa) (i : Nat) (x : MMatch) (j : Nat) :
    (m.setMt i x).tr j = m.tr j := rfl
@[simp] theorem st_setMt (m : MemNfa) (i : Nat) (x : MMatch) (j : Nat) :
    (m.setMt i x).st j = m.st j := rfl
@[simp] theorem states_setMt (m : MemNfa) (i : Nat) (x : MMatch) :
    (m.setMt i x).states = m.states := rfl
@[simp] theorem sparse_setMt (m : MemNfa) (i : Nat) (x : MMatch) :
    (m.setMt i x).sparse = m.sparse := rfl
@[simp] theorem matches_size_setMt (m : MemNfa) (i : Nat) (x : MMatch) :
    (m.setMt i x).matches_.size = m.matches_.size := Array.size_setIfInBounds

/-! ### `setSt` -/

theorem st_setSt (m : MemNfa) (i : Nat) (s : MState) (j : Nat) :
    (m.setSt i s).st j = if j = i ∧ i < m.states.size then s else m.st j :=
  arr_getD_set _ _ _ _ _

@[simp] theorem tr_setSt (m : MemNfa) (i : Nat) (s : MState) (j : Nat) :
    (m.setSt i s).tr j = m.tr j := rfl
@[simp] theorem mt_setSt (m : MemNfa) (i : Nat) (s : MState) (j : Nat) :
    (m.setSt i s).mt j = m.mt j := rfl
@[simp] theorem sparse_setSt (m : MemNfa) (i : Nat) (s : MState) :
    (m.setSt i s).sparse = m.sparse := rfl
@[simp] theorem matches_setSt (m : MemNfa) (i : Nat) (s : MState) :
    (m.setSt i s).matches_ = m.matches_ := rfl
@[simp] theorem states_size_setSt (m : MemNfa) (i : Nat) (s : MState) :
    (m.setSt i s).states.size = m.states.size := Array.size_setIfInBounds

/-! ### allocation -/

/-- a fresh `Transition::default()` reads like the out-of-bounds default: allocation only
changes the length of the vector -/
@[simp] theorem tr_allocTransition (m : MemNfa) (j : Nat) : m.allocTransition.1.tr j = m.tr j := by
  show (m.sparse.push {}).getD j {} = m.sparse.getD j {}
  rw [arr_getD_push]
  split
  · rename_i h; subst h; rw [arr_getD_oob _ _ (Nat.le_refl _)]
  · rfl

@[simp] theorem allocTransition_snd (m : MemNfa) : m.allocTransition.2 = m.sparse.size := rfl
@[simp] theorem mt_allocTransition (m : MemNfa) (j : Nat) : m.allocTransition.1.mt j = m.mt j := rfl
@[simp] theorem st_allocTransition (m : MemNfa) (j : Nat) : m.allocTransition.1.st j = m.st j := rfl
@[simp] theorem states_allocTransition (m : MemNfa) : m.allocTransition.1.states = m.states := rfl
@[simp] theorem matches_allocTransition (m : MemNfa) :
    m.allocTransition.1.matches_ = m.matches_ := rfl
@[simp] theorem sparse_size_allocTransition (m : MemNfa) :
    m.allocTransition.1.sparse.size = m.sparse.size + 1 := Array.size_push _

@[simp] theorem mt_allocMatch (m : MemNfa) (j : Nat) : m.allocMatch.1.mt j = m.mt j := by
  show (m.matches_.push {}).getD j {} = m.matches_.getD j {}
  rw [arr_getD_push]
  split
  · rename_i h; subst h; rw [arr_getD_oob _ _ (Nat.le_refl _)]
  · rfl

end AcVerif.MemP
