import AcVerif.Proofs.DfaIdsFoldBoth
import AcVerif.Proofs.DfaIdsWrites
/-!
# L1d-ids (fold) proofs, part 3: `set_matches` never panics (NFA compiled with
`ascii_case_insensitive`)

Port of `Proofs/DfaIdsWrites.lean` to the folding compiler.
-/
namespace AcVerif.L1dIdsFoldP
open AcVerif AcVerif.CNfa AcVerif.L1cP AcVerif.L1dP AcVerif.L1eP AcVerif.L1dIdsP
open AcVerif.L1cFoldP AcVerif.L1dFoldP AcVerif.L1eFoldP

/-- the `FAIL` state of the compiled NFA is as allocated: no transitions, no matches -/
theorem compile_getD_fail_f (k : MatchKind) (P : List (List UInt8)) :
    (compile k true P).getD 1 {} = { fail := SU } := by
  obtain ⟨L, hT⟩ := buildTrie_fold_spec k P
  have hB := PBf_startPhase hT
  obtain ⟨pend, hF, _⟩ := fillFailure_spec_f (k := k) hB
  have h4 : 4 ≤ (buildTrie k true P).size := by rw [hT.size]; omega
  have e1 : (fillFailure k true (startPhase (buildTrie k true P))).getD 1 {} = { fail := SU } := by
    rw [hF.keep 1 (by omega), getD_startPhase _ h4, if_neg (by simp [SU]), if_neg (by simp [SA]),
      hT.s1]
  rw [compile_eq_f, closeStartLoop_eq]
  split
  · rw [getD_closeSU _ (by rw [hF.size, hB.size]; simp [SU]) 1, if_neg (by simp [SU])]
    exact e1
  · exact e1

theorem compile_isMatch_fail_f (k : MatchKind) (P : List (List UInt8)) :
    CNfa.isMatch (compile k true P) 1 = false := by
  rw [isMatch_eq, compile_getD_fail_f]; rfl

/-- a match state of the shuffled NFA sits at a position in `2 ..= max_match_id` -/
theorem match_pos_range_f (k : MatchKind) (P : List (List UInt8)) {i : Nat}
    (hi : i < (compile k true P).size)
    (hm : CNfa.isMatch (compile k true P) ((cOrder (compile k true P)).getD i 0) = true) :
    2 ≤ i ∧ i ≤ nfaMaxMatch (compile k true P) (cNa (compile k true P)) := by
  obtain ⟨L, hFS⟩ := compile_spec_f k P
  have hS := shufOK _ hFS.four_le_size
  have hs := hS.order_lt i hi
  have hp : posOf (compile k true P) ((cOrder (compile k true P)).getD i 0) = i := hS.pos_order i hi
  have h1 : (cOrder (compile k true P)).getD i 0 ≠ 1 := by
    intro e
    rw [e, compile_isMatch_fail_f] at hm
    cases hm
  have h0 : (cOrder (compile k true P)).getD i 0 ≠ 0 := by
    intro e
    rw [e] at hm
    have := FSf_isMatch_dead hFS
    rw [show DEAD = 0 from rfl] at this
    rw [this] at hm
    cases hm
  have := (posFlag_match hS (FSf_isMatch_SU_SA hFS) hs h1).2 ⟨h0, hm⟩
  have hp1 := posOf_ne_one hS hs h1
  rw [hp] at this hp1
  omega

end AcVerif.L1dIdsFoldP
