import AcVerif.Proofs.DenseRows
import AcVerif.Proofs.ContigFoldStep
import AcVerif.Proofs.NfaIdsDense
/-!
# Glue for the capstone: the dense rows of the noncontiguous NFA compiled with
`ascii_case_insensitive(true)`

Port of `Proofs/DenseRows.lean` (`denseRow_spec`, `compile_specXN`, `followD_eq`) from `FS` to
`FSf`: reading a transition through the dense row of a state is scanning its sparse list, at
every state id of `CNfa.compile k true P`.  (The byte classes are a congruence of the folding
compiler's NFA too: `follow_cong_VU_f` / `follow_cong_VA_f`.)
-/
namespace AcVerif.TopP
open AcVerif AcVerif.CNfa AcVerif.L1cP AcVerif.L1dP AcVerif.L1eP AcVerif.L1cFoldP AcVerif.L1dFoldP
open AcVerif.L1eFoldP AcVerif.DenseP

section
variable {k : MatchKind} {Q : PatSet UInt8} {L : List (List UInt8)} {N : CNfa}

/-- entry `classOf b` of the dense row of a live state is the sparse transition on `b` -/
theorem denseRow_spec_f (h : FSf k Q L N) {s : Nat} (hsorted : Sorted (N.getD s {}).trans)
    (hv : Lv L s) (b : UInt8) : (DenseP.denseRow N s).getD (cm N b) FAIL = follow N s b := by
  have hC := classOK_marks N
  have hall : ∀ x ∈ (N.getD s {}).trans, cm N x.1 = cm N b →
      (fun x : UInt8 × Nat => some x.2) x = some (follow N s b) := by
    intro x hx hc
    have e1 : follow N s x.1 = x.2 := by
      rw [follow_eq]; exact lookup_of_mem hsorted (b := x.1) (t := x.2) hx
    have e2 : follow N s x.1 = follow N s b := by
      rcases hv with hv | hv
      · exact follow_cong_VU_f h hC hv hc
      · exact follow_cong_VA_f h hC hv hc
    show some x.2 = some (follow N s b)
    rw [← e1, e2]
  unfold DenseP.denseRow
  by_cases hex : ∃ x ∈ (N.getD s {}).trans, cm N x.1 = cm N b
  · exact foldSet_some _ _ (cm N b) FAIL (follow N s b) _ _
      (by rw [Array.size_replicate]; exact hC.lt b) hall hex
  · have hnone : ∀ x ∈ (N.getD s {}).trans, cm N x.1 = cm N b →
        (fun x : UInt8 × Nat => some x.2) x = none :=
      fun x hx hc => absurd ⟨x, hx, hc⟩ hex
    rw [foldSet_keep _ _ (cm N b) FAIL _ _ hnone]
    have hF : follow N s b = FAIL := by
      apply Classical.byContradiction
      intro hne
      have := mem_of_lookup (l := (N.getD s {}).trans) (b := b) rfl (by rw [← follow_eq]; exact hne)
      exact hex ⟨_, this, rfl⟩
    rw [hF]
    rw [Array.getD_eq_getD_getElem?, Array.getElem?_replicate]
    split <;> rfl

/-- every state id `< N.size` other than `FAIL` is live -/
theorem lv_of_lt_size_f (h : FSf k Q L N) (hnd : L.Nodup) {s : Nat} (hs : s < N.size)
    (h1 : s ≠ FAIL) : Lv L s := by
  by_cases h0 : s = DEAD
  · exact Or.inl (Or.inl h0)
  · by_cases h2 : s = SU
    · exact Or.inl (Or.inr ⟨[], Or.inl rfl, by rw [h2, nu_nil]⟩)
    · by_cases h3 : s = SA
      · exact Or.inr (Or.inr (Or.inl h3))
      · have h4 : 4 ≤ s := by
          simp only [DEAD, FAIL, SU, SA] at h0 h1 h2 h3; omega
        have hlt : s - 4 < L.length := by rw [h.size] at hs; omega
        have hm : L[s - 4] ∈ L := List.getElem_mem hlt
        have hne : L[s - 4] ≠ [] := ((h.mem _).1 hm).1
        refine Or.inl (Or.inr ⟨L[s - 4], Or.inr hm, ?_⟩)
        rw [nu_of_ne hne, hnd.idxOf_getElem _ hlt]
        omega

/-- reading through the dense rows = scanning the sparse list, at every state id -/
theorem followD_eq_f (h : FSf k Q L N) (hX : FX L N) (hnd : L.Nodup) (dd sid : Nat) (b : UInt8) :
    followD N (denseRows N dd) sid b = follow N sid b := by
  unfold followD
  rw [denseRows_getD]
  by_cases hc : sid < N.size ∧ sid ≠ DEAD ∧ sid ≠ FAIL ∧ (storedDepths N).getD sid 0 < dd
  · rw [if_pos hc]
    exact denseRow_spec_f h (hX.sorted sid) (lv_of_lt_size_f h hnd hc.1 hc.2.2.1) b
  · rw [if_neg hc]

end

/-- `compile_specX_f`, plus: the node list has no duplicates -/
theorem compile_specXN_f (k : MatchKind) (P : List (List UInt8)) :
    ∃ L, FSf k (patSet k (P.map (·.map foldByte))) L (compile k true P) ∧
      FX L (compile k true P) ∧ L.Nodup := by
  obtain ⟨L, hT⟩ := buildTrie_fold_spec k P
  have hB := PBf_startPhase hT
  obtain ⟨pend, hF, hall⟩ := fillFailure_spec_f (k := k) hB
  refine ⟨L, by rw [compile_eq_f]; exact FSf_of_FI hB hF hall, ?_, hB.nodup⟩
  rw [compile_eq_f]
  apply FX_closeStartLoop k
  · rw [hF.size, hB.size]; simp [SU]
  · intro u hu
    have := nu_ge (L := L) (hB.ne_nil hu)
    simp only [SU]; omega
  · exact FX_of_FI_f hT hF

/-- the dense rows of the case-insensitive noncontiguous NFA agree with its sparse lists -/
theorem denseFold_follow (k : MatchKind) (P : List (List UInt8)) (dd : Nat) (sid : Nat) (b : UInt8) :
    followD (CNfa.compile k true P) (denseRows (CNfa.compile k true P) dd) sid b =
      CNfa.follow (CNfa.compile k true P) sid b := by
  obtain ⟨L, hFS, hX, hnd⟩ := compile_specXN_f k P
  exact followD_eq_f hFS hX hnd dd sid b

end AcVerif.TopP
