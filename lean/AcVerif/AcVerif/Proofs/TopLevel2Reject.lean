import AcVerif.TopLevel2
import AcVerif.Proofs.TopLevelApi
/-!
# Capstone proofs, part 9: exactly which requests are rejected, and with which error (C13)

* `*_err`: the only `MatchError`s the engines can return – the unsupported anchoring mode of
  `start_state`, the match-kind tests, the empty-pattern test – as equations for `matchErrOf`;
* `gate_*`: the verdict function `gate` of `Engine/Gates.lean`, written out per entry point;
* `rej_*`: on a searcher returned by the builder (`Good`, any prefilter function), the error of each
  public method is `gate` of the configuration: it mentions neither the automaton kind nor the
  haystack, and of the patterns only whether one of them is empty.
-/
namespace AcVerif.TopP
open AcVerif AcVerif.MiscP AcVerif.BuildP AcVerif.StreamX
variable {σ α : Type}

/-! ## the engines -/

/-- what `start_state(anchored)?` contributes -/
def startErr (A : Aut σ α) (a : Bool) : Option MatchErr :=
  match A.start a with
  | none => some (anchErr a)
  | some _ => none

theorem startErr_some {A : Aut σ α} {a : Bool} {q : σ} (h : A.start a = some q) :
    startErr A a = none := by
  unfold startErr; rw [h]

theorem findImp_err (A : Aut σ α) (i : Input α) (pre : Option (Prefilter α)) (anch ea : Bool) :
    matchErrOf (findImp A i pre anch ea) = startErr A i.anch := by
  unfold findImp startErr
  cases A.start i.anch with
  | none => rfl
  | some sid =>
    simp only
    split
    · rfl
    · cases pre with
      | none => rfl
      | some p =>
        simp only
        cases p i.hay i.s i.e <;> rfl

theorem tryFindFwd_err (A : Aut σ α) (pre : Option (Prefilter α)) (i : Input α) :
    matchErrOf (tryFindFwd A pre i) = startErr A i.anch := by
  unfold tryFindFwd
  split
  · unfold startErr
    cases A.start i.anch <;> rfl
  · simp only
    split <;> exact findImp_err _ _ _ _ _

theorem findIter_err (A : Aut σ α) (pre : Option (Prefilter α)) (i : Input α) :
    matchErrOf (findIter A pre i) = startErr A i.anch := by
  unfold findIter startErr
  cases A.start i.anch <;> rfl

theorem ovlImp_err (A : Aut σ α) (i : Input α) (pre : Option (Prefilter α)) (st : OState σ)
    {q : σ} (hq : A.start i.anch = some q) : matchErrOf (ovlImp A i pre st) = none := by
  unfold ovlImp
  cases st.id with
  | none =>
    simp only [hq]
    split <;> rfl
  | some sid =>
    simp only
    cases st.nextIdx with
    | none => rfl
    | some idx =>
      simp only
      split <;> rfl

theorem tryFindOverlappingFwd_err (A : Aut σ α) (pre : Option (Prefilter α)) (i : Input α)
    (st : OState σ) {q : σ} (hq : A.start i.anch = some q) :
    matchErrOf (tryFindOverlappingFwd A pre i st) =
      if A.kind != .std then some .unsupportedOverlapping else none := by
  unfold tryFindOverlappingFwd
  simp only
  split
  · rfl
  · split
    · rw [hq]; rfl
    · split <;> exact ovlImp_err _ _ _ _ hq

theorem chunkIterNew_err (A : Aut σ α) (rdr : Reader α) (spare : Option Nat)
    (minFactor defaultCap : Nat) :
    matchErrOf (ChunkIter.new A rdr spare minFactor defaultCap) =
      if A.kind != .std then some .unsupportedStream
      else if A.minLen == 0 then some .unsupportedEmpty
      else startErr A false := by
  unfold ChunkIter.new startErr
  split
  · rfl
  · split
    · rfl
    · cases A.start false <;> rfl

theorem streamFind_err (A : Aut σ α) (rdr : Reader α) (spare : Option Nat)
    (minFactor defaultCap : Nat) :
    matchErrOf (streamFind A rdr spare minFactor defaultCap) =
      matchErrOf (ChunkIter.new A rdr spare minFactor defaultCap) := by
  unfold streamFind
  cases ChunkIter.new A rdr spare minFactor defaultCap with
  | error e => rfl
  | ok it => rfl

theorem streamReplaceWith_err (A : Aut σ α) (rdr : Reader α) (spare : Option Nat)
    (w : Writer α) (repl : Mat → List α) (minFactor defaultCap : Nat) :
    matchErrOf (streamReplaceWith A rdr spare w repl minFactor defaultCap) =
      matchErrOf (ChunkIter.new A rdr spare minFactor defaultCap) := by
  unfold streamReplaceWith
  cases ChunkIter.new A rdr spare minFactor defaultCap with
  | error e => rfl
  | ok it => rfl

/-! ## `gate`, per entry point -/

/-- the entry points whose only gate is the anchoring mode -/
theorem gate_plain (mk : MatchKind) (sk : StartKind) (a he : Bool) :
    gate .find mk sk a he = anchoredGate sk a ∧
    gate .isMatch mk sk a he = anchoredGate sk a ∧
    gate .findIter mk sk a he = anchoredGate sk a ∧
    gate .replaceAll mk sk a he = anchoredGate sk false ∧
    gate .replaceAllBytes mk sk a he = anchoredGate sk false ∧
    gate .replaceAllWith mk sk a he = anchoredGate sk false ∧
    gate .replaceAllWithBytes mk sk a he = anchoredGate sk false := by
  cases mk <;> cases sk <;> cases a <;> cases he <;> decide

theorem gate_overlapping (mk : MatchKind) (sk : StartKind) (a he : Bool) :
    gate .findOverlapping mk sk a he =
      match anchoredGate sk a with
      | some e => some e
      | none => if mk != .std then some .unsupportedOverlapping else none := by
  cases mk <;> cases sk <;> cases a <;> cases he <;> decide

theorem gate_overlapping_iter (mk : MatchKind) (sk : StartKind) (a he : Bool) :
    gate .findOverlappingIter mk sk a he =
      match anchoredGate sk a with
      | some e => some e
      | none =>
        if mk != .std then some .unsupportedOverlapping
        else if a then some .invalidInputAnchored else none := by
  cases mk <;> cases sk <;> cases a <;> cases he <;> decide

theorem gate_stream (api : Api) (hapi : api.isStream = true) (mk : MatchKind) (sk : StartKind)
    (a he : Bool) :
    gate api mk sk a he =
      match anchoredGate sk false with
      | some e => some e
      | none =>
        if mk != .std then some .unsupportedStream
        else if he then some .unsupportedEmpty else none := by
  cases api <;> first | (exact absurd hapi (by decide)) |
    (cases mk <;> cases sk <;> cases a <;> cases he <;> decide)

/-- a call sequence that consists of one error is a first call that returned it -/
theorem topOverlapping_err_iff (s : Searcher) (i : Input UInt8) (n : Nat) (e : MatchErr) :
    topOverlapping s i (n + 1) = [.error e] ↔ matchErrOf (topOvlCall s i OState.start) = some e := by
  unfold topOverlapping
  simp only [topOvlCalls]
  cases topOvlCall s i OState.start with
  | error e' =>
    simp only [matchErrOf, Option.some.injEq]
    constructor
    · intro h; injection h with h; injection h
    · intro h; rw [h]
  | ok st' =>
    simp only [matchErrOf]
    constructor
    · intro h; injection h with h; cases h
    · intro h; cases h

/-! ## the public methods on a searcher returned by the builder -/

section good
variable {s : Searcher} {kd : AcKind} (hg : Good s kd)
include hg

theorem Good.startErr_none {a : Bool} (h : supportsAnch s.cfg.startKind a) :
    startErr s.aut a = none := by
  obtain ⟨q, hq⟩ := hg.start_isSome h
  exact startErr_some hq

theorem rej_find (i : Input UInt8) (he : Bool) :
    matchErrOf (topFind s i) = gate .find s.cfg.matchKind s.cfg.startKind i.anch he := by
  rw [(gate_plain _ _ _ _).1]
  unfold topFind
  by_cases h : supportsAnch s.cfg.startKind i.anch
  · rw [gate_none h]
    show matchErrOf (tryFindFwd s.aut s.pre i) = none
    rw [tryFindFwd_err, hg.startErr_none h]
  · rw [gate_err h]; rfl

theorem rej_is_match (i : Input UInt8) (he : Bool) :
    matchErrOf (topIsMatch s i) = gate .isMatch s.cfg.matchKind s.cfg.startKind i.anch he := by
  rw [(gate_plain _ _ _ _).2.1]
  unfold topIsMatch
  by_cases h : supportsAnch s.cfg.startKind i.anch
  · rw [gate_none h]
    have := tryFindFwd_err s.aut s.pre { i with earliest := true }
    rw [show ({ i with earliest := true } : Input UInt8).anch = i.anch from rfl,
      hg.startErr_none h] at this
    show matchErrOf (match tryFindFwd s.aut s.pre { i with earliest := true } with
      | .error e => Except.error e | .ok r => .ok r.isSome) = none
    cases hr : tryFindFwd s.aut s.pre { i with earliest := true } with
    | error e => rw [hr] at this; cases this
    | ok r => rfl
  · rw [gate_err h]; rfl

theorem rej_find_iter (i : Input UInt8) (he : Bool) :
    matchErrOf (topFindIter s i) = gate .findIter s.cfg.matchKind s.cfg.startKind i.anch he := by
  rw [(gate_plain _ _ _ _).2.2.1]
  unfold topFindIter
  by_cases h : supportsAnch s.cfg.startKind i.anch
  · rw [gate_none h]
    show matchErrOf (findIter s.aut s.pre i) = none
    rw [findIter_err, hg.startErr_none h]
  · rw [gate_err h]; rfl

theorem rej_overlapping (i : Input UInt8) (st : OState Nat) (he : Bool) :
    matchErrOf (topOvlCall s i st) =
      gate .findOverlapping s.cfg.matchKind s.cfg.startKind i.anch he := by
  rw [gate_overlapping]
  unfold topOvlCall
  by_cases h : supportsAnch s.cfg.startKind i.anch
  · rw [gate_none h]
    obtain ⟨q, hq⟩ := hg.start_isSome h
    show matchErrOf (tryFindOverlappingFwd s.aut s.pre i st) = _
    rw [tryFindOverlappingFwd_err _ _ _ _ hq, aut_kind']
  · rw [gate_err h]; rfl

theorem rej_overlapping_iter (i : Input UInt8) (fuel : Nat) (he : Bool) :
    matchErrOf (topOverlappingIter s i fuel) =
      gate .findOverlappingIter s.cfg.matchKind s.cfg.startKind i.anch he := by
  rw [gate_overlapping_iter]
  unfold topOverlappingIter
  by_cases h : supportsAnch s.cfg.startKind i.anch
  · rw [gate_none h]
    obtain ⟨q, hq⟩ := hg.start_isSome h
    simp only [aut_kind', hq]
    split
    · rfl
    · split <;> rfl
  · rw [gate_err h]; rfl

theorem rej_replace_with_bytes (hay : List UInt8) (repl : Mat → List UInt8) (stop : Option Nat)
    (a he : Bool) :
    matchErrOf (topReplaceAllWithBytes s hay repl stop) =
      gate .replaceAllWithBytes s.cfg.matchKind s.cfg.startKind a he := by
  rw [(gate_plain _ _ _ _).2.2.2.2.2.2]
  unfold topReplaceAllWithBytes
  by_cases h : supportsAnch s.cfg.startKind false
  · rw [gate_none h]
    have := findIter_err s.aut s.pre (Input.whole hay)
    rw [show (Input.whole hay).anch = false from rfl, hg.startErr_none h] at this
    show matchErrOf (match findIter s.aut s.pre (Input.whole hay) with
      | .error e => Except.error e | .ok ms => .ok (replaceBytes hay ms repl stop)) = none
    cases hr : findIter s.aut s.pre (Input.whole hay) with
    | error e => rw [hr] at this; cases this
    | ok r => rfl
  · rw [gate_err h]; rfl

theorem rej_replace_bytes (hay : List UInt8) (replaceWith : List (List UInt8)) (a he : Bool) :
    matchErrOf (topReplaceAllBytes s hay replaceWith) =
      gate .replaceAllBytes s.cfg.matchKind s.cfg.startKind a he := by
  have := rej_replace_with_bytes hg hay (fun m => replaceWith.getD m.pid []) none a he
  rw [(gate_plain _ _ _ _).2.2.2.2.2.2] at this
  rw [(gate_plain _ _ _ _).2.2.2.2.1, ← this]
  unfold topReplaceAllBytes
  cases topReplaceAllWithBytes s hay (fun m => replaceWith.getD m.pid []) none <;> rfl

/-- what `StreamChunkIter::new` answers on the searcher's automaton, behind the gate -/
theorem chunkIterNew_gate (api : Api) (hapi : api.isStream = true) (rdr : Reader UInt8)
    (spare : Option Nat) (minFactor defaultCap : Nat) (a : Bool)
    (h : supportsAnch s.cfg.startKind false) :
    matchErrOf (ChunkIter.new s.aut rdr spare minFactor defaultCap) =
      gate api s.cfg.matchKind s.cfg.startKind a (hasEmptyPat s.pats) := by
  rw [gate_stream api hapi, gate_none h, chunkIterNew_err, aut_kind', hg.startErr_none h]
  have : (s.aut.minLen == 0) = hasEmptyPat s.pats := by
    unfold Searcher.aut
    rw [toAut_minLen]
    by_cases hm : [] ∈ s.pats
    · rw [(minLen_eq_zero_iff _).2 hm]; simp [hm]
    · have : (s.pats.map List.length).foldl min 18446744073709551615 ≠ 0 :=
        fun h0 => hm ((minLen_eq_zero_iff _).1 h0)
      have h1 : decide ([] ∈ s.pats) = false := decide_eq_false hm
      have h2 : ((s.pats.map List.length).foldl min 18446744073709551615 == 0) = false := by
        simpa using this
      show _ = decide _
      rw [h1, h2]
  rw [this]

theorem rej_stream_find (rdr : Reader UInt8) (spare : Option Nat) (minFactor defaultCap : Nat)
    (a : Bool) :
    matchErrOf (topStreamFind s rdr spare minFactor defaultCap) =
      gate .streamFindIter s.cfg.matchKind s.cfg.startKind a (hasEmptyPat s.pats) := by
  unfold topStreamFind
  by_cases h : supportsAnch s.cfg.startKind false
  · rw [gate_none h]
    show matchErrOf (streamFind s.aut rdr spare minFactor defaultCap) = _
    rw [streamFind_err, chunkIterNew_gate hg .streamFindIter rfl rdr spare minFactor defaultCap a h]
  · rw [gate_err h, gate_stream _ rfl, gate_err h]; rfl

theorem rej_stream_replace_with (rdr : Reader UInt8) (spare : Option Nat) (w : Writer UInt8)
    (repl : Mat → List UInt8) (minFactor defaultCap : Nat) (a : Bool) :
    matchErrOf (topStreamReplaceAllWith s rdr spare w repl minFactor defaultCap) =
      gate .streamReplaceAllWith s.cfg.matchKind s.cfg.startKind a (hasEmptyPat s.pats) := by
  unfold topStreamReplaceAllWith
  by_cases h : supportsAnch s.cfg.startKind false
  · rw [gate_none h]
    show matchErrOf (streamReplaceWith s.aut rdr spare w repl minFactor defaultCap) = _
    rw [streamReplaceWith_err,
      chunkIterNew_gate hg .streamReplaceAllWith rfl rdr spare minFactor defaultCap a h]
  · rw [gate_err h, gate_stream _ rfl, gate_err h]; rfl

/-- `try_stream_replace_all`: with a replacement table of the right length the verdict is the
gate's; with a table of the wrong length the method panics whenever the anchoring gate lets it
through (the assertion precedes `StreamChunkIter::new`) -/
theorem rej_stream_replace (rdr : Reader UInt8) (spare : Option Nat) (w : Writer UInt8)
    (replaceWith : List (List UInt8)) (minFactor defaultCap : Nat) (a : Bool) :
    (replaceWith.length = s.pats.length →
      matchErrOf (topStreamReplaceAll s rdr spare w replaceWith minFactor defaultCap) =
        gate .streamReplaceAll s.cfg.matchKind s.cfg.startKind a (hasEmptyPat s.pats)) ∧
    (replaceWith.length ≠ s.pats.length →
      (supportsAnch s.cfg.startKind false →
        topStreamReplaceAll s rdr spare w replaceWith minFactor defaultCap = .ok .panic) ∧
      (¬ supportsAnch s.cfg.startKind false →
        topStreamReplaceAll s rdr spare w replaceWith minFactor defaultCap =
          .error .invalidInputUnanchored)) := by
  have hpl : s.aut.patternsLen = s.pats.length := toAut_patternsLen _ _ _
  refine ⟨fun hl => ?_, fun hl => ⟨fun h => ?_, fun h => ?_⟩⟩
  · unfold topStreamReplaceAll
    by_cases h : supportsAnch s.cfg.startKind false
    · rw [gate_none h]
      simp only [hpl, hl, ne_eq, not_true_eq_false, if_false]
      rw [← chunkIterNew_gate hg .streamReplaceAll rfl rdr spare minFactor defaultCap a h,
        ← streamReplaceWith_err s.aut rdr spare w (fun m => replaceWith.getD m.pid [])]
      cases streamReplaceWith s.aut rdr spare w (fun m => replaceWith.getD m.pid []) minFactor
        defaultCap <;> rfl
    · rw [gate_err h, gate_stream _ rfl, gate_err h]; rfl
  · unfold topStreamReplaceAll
    rw [gate_none h]
    simp only [hpl, ne_eq, hl, not_false_eq_true, if_true]
  · unfold topStreamReplaceAll
    rw [gate_err h]; rfl

end good

end AcVerif.TopP
