import AcVerif.Basic
/-!
# Vocabulary shared by the property theorems
-/
namespace AcVerif

/-- the start kinds that support an anchoring mode -/
def supportsAnch (sk : StartKind) (anch : Bool) : Prop :=
  sk = .both ∨ (sk = .unanchored ∧ anch = false) ∨ (sk = .anchored ∧ anch = true)

end AcVerif
