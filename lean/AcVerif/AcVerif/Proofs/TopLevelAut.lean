import AcVerif.Proofs.TopLevelDense
import AcVerif.Proofs.TopLevelStream
import AcVerif.Theorems.L1cIds
import AcVerif.Theorems.L1dIds
import AcVerif.Theorems.L1dIdsFold
import AcVerif.Theorems.L1e
import AcVerif.Theorems.L1eFold
import AcVerif.Theorems.C20Build
/-!
# Capstone proofs, part 3: every searcher `AhoCorasickBuilder::build` can return is the reference
automaton

For every configuration, every pattern list (`P.length < 2^31`, the bound of L1e) and each of the
three kinds, the automaton record of `buildUnchecked cfg P kind` – the noncontiguous NFA as stored
*reading through its dense rows*, the contiguous NFA, the DFA – has a start state observationally
equivalent (flags and ordered match lists after every input) to that of the reference automaton
`refAut cfg.fold cfg.matchKind P sk cfg.hasPre`, where `sk` is `both` for the two NFAs and the
configured start kind for the DFA (`built_startEquiv`): L1cIds + dense rows (`fold = true`: the
glue of `TopLevelDense.lean`), L1e / L1eFold, L1dIds / L1dIdsFold.  Hence every engine transfers.
-/
namespace AcVerif.TopP
open AcVerif AcVerif.CNfa AcVerif.L1cIdsP AcVerif.L1cP AcVerif.L1dP AcVerif.L1eP

/-- the start kinds `start_state` of the built automaton supports: both for the NFAs
(noncontiguous.rs / contiguous.rs `start_state`), the configured kind for the DFA -/
def autSk : AcKind → StartKind → StartKind
  | .dfa, sk => sk
  | _, _ => .both

theorem supports_autSk (kd : AcKind) {sk : StartKind} {a : Bool} (h : supportsAnch sk a) :
    supportsAnch (autSk kd sk) a := by
  cases kd
  · exact Or.inl rfl
  · exact Or.inl rfl
  · exact h

/-! ## the metadata fields -/

theorem toAut_kind (b : Built) (cfg : BuildCfg) (P : List (List UInt8)) :
    (b.toAut cfg P).kind = cfg.matchKind := by cases b <;> rfl

theorem toAut_patLen (b : Built) (cfg : BuildCfg) (P : List (List UInt8)) (pid : Nat) :
    (b.toAut cfg P).patLen pid = (P.getD pid []).length := by cases b <;> rfl

theorem toAut_minLen (b : Built) (cfg : BuildCfg) (P : List (List UInt8)) :
    (b.toAut cfg P).minLen = (P.map List.length).foldl min 18446744073709551615 := by
  cases b <;> rfl

theorem toAut_maxLen (b : Built) (cfg : BuildCfg) (P : List (List UInt8)) :
    (b.toAut cfg P).maxLen = (P.map List.length).foldl max 0 := by cases b <;> rfl

theorem toAut_patternsLen (b : Built) (cfg : BuildCfg) (P : List (List UInt8)) :
    (b.toAut cfg P).patternsLen = P.length := by cases b <;> rfl

/-! ## the stored noncontiguous NFA reading through its dense rows, case-insensitive -/

/-- the record that reads transitions through the stored dense rows is the record that scans the
stored sparse lists (`L1cIds_dense_toAut` for `ascii_case_insensitive`) -/
theorem idsFold_dense_toAut (k : MatchKind) (P : List (List UInt8)) (dd : Nat) (hasPre : Bool) :
    (buildNfaIds (CNfa.compile k true P) hasPre).toAutD (nClass (CNfa.compile k true P))
        (buildDenseIds (CNfa.compile k true P) dd) k P hasPre =
      (buildNfaIds (CNfa.compile k true P) hasPre).toAut k P hasPre := by
  obtain ⟨L, _, hL⟩ := L1cIdsFold_live k P false
  exact toAutD_stored hL.shuf hasPre dd (denseFold_follow k P dd) k P

theorem idsFold_dense_startEquiv (k : MatchKind) (P : List (List UInt8)) (dd : Nat)
    (hasPre anch : Bool) :
    StartEquiv ((buildNfaIds (CNfa.compile k true P) hasPre).toAutD
        (nClass (CNfa.compile k true P)) (buildDenseIds (CNfa.compile k true P) dd) k P hasPre)
      ((ideal k (P.map (·.map foldByte)) .both hasPre).comap foldByte) false anch := by
  rw [idsFold_dense_toAut]
  exact L1cIdsFold_startEquiv k P hasPre anch

/-! ## the three kinds -/

theorem nnc_startEquiv (f : Bool) (k : MatchKind) (P : List (List UInt8)) (dd : Nat)
    (hp anch : Bool) :
    StartEquiv ((buildNfaIds (CNfa.compile k f P) hp).toAutD (nncClasses k f P)
        (buildDenseIds (CNfa.compile k f P) dd) k P hp)
      (refAut f k P .both hp) false anch := by
  cases f
  · exact L1cIds_dense_startEquiv k P dd hp anch
  · exact idsFold_dense_startEquiv k P dd hp anch

theorem contig_startEquiv (f : Bool) (k : MatchKind) (P : List (List UInt8)) (dd : Nat)
    (bc hp anch : Bool) (hP : P.length < 2147483648) :
    StartEquiv ((buildContig (CNfa.compile k f P) dd bc hp).toAut k P hp)
      (refAut f k P .both hp) false anch := by
  cases f
  · exact L1e_ideal k P hp bc dd hP anch
  · exact L1eFold_startEquiv k P hp bc dd hP anch

theorem dfa_startEquiv (f : Bool) (k : MatchKind) (P : List (List UInt8)) (sk : StartKind)
    (bc hp anch : Bool) :
    StartEquiv ((buildDfaIds (CNfa.compile k f P) sk bc hp).toAut k P hp)
      (refAut f k P sk hp) false anch := by
  cases f
  · exact L1dIds_startEquiv k P sk bc hp anch
  · exact L1dIdsFold_startEquiv k P sk bc hp anch

/-- **every searcher the builder can return is the reference automaton**, for both anchoring
modes -/
theorem built_startEquiv (cfg : BuildCfg) (P : List (List UInt8)) (hP : P.length < 2147483648)
    (kd : AcKind) (anch : Bool) :
    StartEquiv ((buildUnchecked cfg P kd).toAut cfg P)
      (refAut cfg.fold cfg.matchKind P (autSk kd cfg.startKind) cfg.hasPre) false anch := by
  cases kd
  · exact nnc_startEquiv cfg.fold cfg.matchKind P cfg.nncDenseDepth cfg.hasPre anch
  · exact contig_startEquiv cfg.fold cfg.matchKind P cfg.contigDenseDepth cfg.byteClasses
      cfg.hasPre anch hP
  · exact dfa_startEquiv cfg.fold cfg.matchKind P cfg.startKind cfg.byteClasses cfg.hasPre anch

theorem buildUnchecked_kind (cfg : BuildCfg) (P : List (List UInt8)) (kd : AcKind) :
    (buildUnchecked cfg P kd).kind = kd := by cases kd <;> rfl

end AcVerif.TopP
