import AcVerif.Proofs.CompilerBase
import AcVerif.Proofs.CompilerMath
/-!
# L1c proofs, part 1: the trie phase (`build_trie`)
-/
namespace AcVerif.L1cP
open AcVerif AcVerif.CNfa

/-- The trie invariant.  `L` lists the strings of the states `4, 5, …` in allocation order, `Qs`
is the set of patterns added so far, `w` the part of the current pattern already walked. -/
structure TI (n : CNfa) (L : List (List UInt8)) (Qs : PatSet UInt8) (w : List UInt8) : Prop where
  size : n.size = L.length + 4
  nodup : L.Nodup
  mem : ∀ v, v ∈ L ↔ v ≠ [] ∧ (isPref Qs v = true ∨ v <+: w)
  goto_in : ∀ u b, (u = [] ∨ u ∈ L) → u ++ [b] ∈ L → follow n (nu L u) b = nu L (u ++ [b])
  goto_out : ∀ u b, (u = [] ∨ u ∈ L) → u ++ [b] ∉ L → follow n (nu L u) b = FAIL
  sorted : ∀ sid, Sorted (n.getD sid {}).trans
  nofail : ∀ u, u ∈ L → ∀ x ∈ (n.getD (nu L u) {}).trans, x.2 ≠ FAIL
  full : ∀ b, ∃ t, (b, t) ∈ (n.getD SU {}).trans
  mats : ∀ u, (u = [] ∨ u ∈ L) → (n.getD (nu L u) {}).matches_ = idsOf Qs u
  fail : ∀ sid, (n.getD sid {}).fail = SU
  s0 : n.getD 0 {} = { trans := fullTrans DEAD, fail := SU }
  s1 : n.getD 1 {} = { fail := SU }
  s3 : n.getD 3 {} = { trans := fullTrans FAIL, fail := SU }
  depth : ∀ u, u ∈ L → u.length + 3 ≤ nu L u

theorem nu_cases (L : List (List UInt8)) (u : List UInt8) : nu L u = 2 ∨ 4 ≤ nu L u := by
  unfold nu; split
  · left; rfl
  · right; omega

namespace TI
variable {n : CNfa} {L : List (List UInt8)} {Qs : PatSet UInt8} {w : List UInt8}

theorem nil_not_mem (h : TI n L Qs w) : [] ∉ L := fun hm => ((h.mem []).1 hm).1 rfl

theorem closed (h : TI n L Qs w) {v : List UInt8} {b : UInt8} (hm : v ++ [b] ∈ L) :
    v = [] ∨ v ∈ L := by
  by_cases h0 : v = []
  · exact Or.inl h0
  · right
    rw [h.mem] at hm ⊢
    refine ⟨h0, ?_⟩
    rcases hm.2 with hp | hp
    · exact Or.inl (LmP.isPref_of_append hp)
    · exact Or.inr ((List.prefix_append v [b]).trans hp)

theorem cur (h : TI n L Qs w) : w = [] ∨ w ∈ L := by
  by_cases h0 : w = []
  · exact Or.inl h0
  · exact Or.inr ((h.mem w).2 ⟨h0, Or.inr (List.prefix_refl w)⟩)

theorem nu_lt_size (h : TI n L Qs w) {u : List UInt8} (hu : u = [] ∨ u ∈ L) : nu L u < n.size := by
  rw [h.size]
  rcases hu with h0 | hm
  · subst h0; simp [SU]
  · exact nu_lt hm (fun e => h.nil_not_mem (e ▸ hm))

theorem len_le (h : TI n L Qs w) {u : List UInt8} (hu : u = [] ∨ u ∈ L) : u.length ≤ L.length := by
  rcases hu with h0 | hm
  · subst h0; simp
  · have h1 := h.depth u hm
    have h2 := nu_lt hm (fun e => h.nil_not_mem (e ▸ hm))
    omega

/-- the next byte leads to an existing node -/
theorem advance (h : TI n L Qs w) (b : UInt8) (hx : w ++ [b] ∈ L) : TI n L Qs (w ++ [b]) := by
  refine { h with mem := ?_ }
  intro v
  rw [h.mem v, List.prefix_concat_iff]
  constructor
  · rintro ⟨h0, hp | hp⟩
    · exact ⟨h0, Or.inl hp⟩
    · exact ⟨h0, Or.inr (Or.inr hp)⟩
  · rintro ⟨h0, hp | hp | hp⟩
    · exact ⟨h0, Or.inl hp⟩
    · subst hp; exact (h.mem _).1 hx
    · exact ⟨h0, Or.inr hp⟩

end TI

theorem getD_push_dflt (n : CNfa) (j : Nat) : (n.push { fail := SU }).getD j {} = n.getD j {} := by
  by_cases hj : j = n.size
  · subst hj
    rw [getD_push_eq, getD_of_size_le _ (Nat.le_refl _)]; rfl
  · exact getD_push_ne n _ hj

theorem getD_extend (n : CNfa) (prev : Nat) (b : UInt8) (hp : prev < n.size) (sid : Nat) :
    (addTransition (n.push { fail := SU }) prev b n.size).getD sid {} =
      if sid = prev then
        { n.getD prev {} with trans := insertTrans b n.size (n.getD prev {}).trans }
      else n.getD sid {} := by
  unfold addTransition
  rw [getD_modify]
  by_cases h : sid = prev
  · subst h
    rw [if_pos ⟨rfl, by rw [Array.size_push]; omega⟩, if_pos rfl, getD_push_dflt]
  · rw [if_neg (fun hh => h hh.1.symm), if_neg h, getD_push_dflt]

theorem follow_extend (n : CNfa) (prev : Nat) (b : UInt8) (hp : prev < n.size) (sid : Nat)
    (c : UInt8) :
    follow (addTransition (n.push { fail := SU }) prev b n.size) sid c =
      if sid = prev ∧ c = b then n.size else follow n sid c := by
  rw [follow_eq, getD_extend n prev b hp]
  by_cases h : sid = prev
  · subst h
    rw [if_pos rfl]
    simp only [lookup_insertTrans]
    by_cases hc : c = b
    · simp [hc]
    · simp [hc, follow_eq]
  · rw [if_neg h, if_neg (fun hh => h hh.1), follow_eq]

/-- the next byte has no transition: a node is allocated -/
theorem TI.extend {n : CNfa} {L : List (List UInt8)} {Qs : PatSet UInt8} {w : List UInt8}
    (h : TI n L Qs w) (b : UInt8) (hx : w ++ [b] ∉ L) :
    TI (addTransition (n.push { fail := SU }) (nu L w) b n.size) (L ++ [w ++ [b]]) Qs
      (w ++ [b]) := by
  have hw := h.cur
  have hprev : nu L w < n.size := h.nu_lt_size hw
  have hx0 : w ++ [b] ≠ [] := by simp
  have hnil := h.nil_not_mem
  have hnu_old : ∀ v, (v = [] ∨ v ∈ L) → nu (L ++ [w ++ [b]]) v = nu L v := fun v hv =>
    nu_append _ hv
  have hnu_x : nu (L ++ [w ++ [b]]) (w ++ [b]) = n.size := by rw [nu_new hx hx0, h.size]
  have hget := getD_extend n (nu L w) b hprev
  have hfol := follow_extend n (nu L w) b hprev
  -- members of the new list
  have hmemL' : ∀ v, v ∈ L ++ [w ++ [b]] ↔ v ∈ L ∨ v = w ++ [b] := by
    intro v; simp [List.mem_append]
  -- a node of the new list with an existing child is old
  have hold : ∀ u c, (u = [] ∨ u ∈ L ++ [w ++ [b]]) → u ++ [c] ∈ L ++ [w ++ [b]] →
      u = [] ∨ u ∈ L := by
    intro u c hu hin
    rcases hu with h0 | hm
    · exact Or.inl h0
    · rcases (hmemL' u).1 hm with hm | hm
      · exact Or.inr hm
      · subst hm
        rcases (hmemL' _).1 hin with hin | hin
        · rcases h.closed hin with e | e
          · exact absurd e hx0
          · exact absurd e hx
        · have := congrArg List.length hin
          simp at this
  have hxnotpref : isPref Qs (w ++ [b]) = false := by
    cases hp : isPref Qs (w ++ [b])
    · rfl
    · exact absurd ((h.mem _).2 ⟨hx0, Or.inl hp⟩) hx
  have hsz4 : 4 ≤ n.size := by rw [h.size]; omega
  refine
    { size := ?_, nodup := ?_, mem := ?_, goto_in := ?_, goto_out := ?_, sorted := ?_,
      nofail := ?_, full := ?_, mats := ?_, fail := ?_, s0 := ?_, s1 := ?_, s3 := ?_, depth := ?_ }
  · unfold addTransition
    rw [Array.size_modify, Array.size_push, h.size]; simp
  · rw [List.nodup_append]
    refine ⟨h.nodup, by simp, ?_⟩
    intro a ha b' hb'
    rw [List.mem_singleton] at hb'
    subst hb'
    intro e; subst e; exact hx ha
  · intro v
    rw [hmemL', h.mem v, List.prefix_concat_iff]
    constructor
    · rintro (⟨h0, hp | hp⟩ | hv)
      · exact ⟨h0, Or.inl hp⟩
      · exact ⟨h0, Or.inr (Or.inr hp)⟩
      · subst hv; exact ⟨hx0, Or.inr (Or.inl rfl)⟩
    · rintro ⟨h0, hp | hp | hp⟩
      · exact Or.inl ⟨h0, Or.inl hp⟩
      · exact Or.inr hp
      · exact Or.inl ⟨h0, Or.inr hp⟩
  · intro u c hu hin
    have hu' := hold u c hu hin
    rw [hnu_old u hu', hfol]
    rcases (hmemL' _).1 hin with hin1 | hin1
    · have hne : ¬ (nu L u = nu L w ∧ c = b) := by
        rintro ⟨e1, e2⟩
        have := nu_inj hu' hw e1
        rw [this, e2] at hin1; exact hx hin1
      rw [if_neg hne, hnu_old _ (Or.inr hin1)]
      exact h.goto_in u c hu' hin1
    · obtain ⟨e1, e2⟩ := List.append_inj' hin1 rfl
      have e2 : c = b := by simpa using e2
      subst e1; subst e2
      rw [if_pos ⟨rfl, rfl⟩, hnu_x]
  · intro u c hu hout
    have hout' : u ++ [c] ∉ L ∧ u ++ [c] ≠ w ++ [b] := by
      constructor
      · exact fun hm => hout ((hmemL' _).2 (Or.inl hm))
      · exact fun hm => hout ((hmemL' _).2 (Or.inr hm))
    by_cases hux : u = w ++ [b]
    · subst hux
      rw [hnu_x, follow_eq, hget, if_neg (by omega), getD_of_size_le _ (Nat.le_refl _)]
      rfl
    · have hu' : u = [] ∨ u ∈ L := by
        rcases hu with h0 | hm
        · exact Or.inl h0
        · exact Or.inr (((hmemL' u).1 hm).resolve_right hux)
      rw [hnu_old u hu', hfol]
      have hne : ¬ (nu L u = nu L w ∧ c = b) := by
        rintro ⟨e1, e2⟩
        have := nu_inj hu' hw e1
        rw [this, e2] at hout'; exact hout'.2 rfl
      rw [if_neg hne]
      exact h.goto_out u c hu' hout'.1
  · intro sid
    rw [hget]
    by_cases e : sid = nu L w
    · rw [if_pos e]; exact sorted_insertTrans (h.sorted _)
    · rw [if_neg e]; exact h.sorted sid
  · intro u hu x hxm
    by_cases hux : u = w ++ [b]
    · subst hux
      rw [hnu_x, hget, if_neg (by omega), getD_of_size_le _ (Nat.le_refl _)] at hxm
      simp at hxm
    · have hu' : u ∈ L := ((hmemL' u).1 hu).resolve_right hux
      rw [hnu_old u (Or.inr hu'), hget] at hxm
      by_cases e : nu L u = nu L w
      · rw [if_pos e] at hxm
        rcases mem_insertTrans hxm with e' | e'
        · subst e'; simp only [FAIL]; omega
        · rw [← e] at e'; exact h.nofail u hu' x e'
      · rw [if_neg e] at hxm; exact h.nofail u hu' x hxm
  · intro c
    rw [hget]
    by_cases e : SU = nu L w
    · rw [if_pos e]
      have := h.full c
      rw [e] at this
      exact key_mem_insertTrans this
    · rw [if_neg e]; exact h.full c
  · intro u hu
    by_cases hux : u = w ++ [b]
    · subst hux
      rw [hnu_x, hget, if_neg (by omega), getD_of_size_le _ (Nat.le_refl _),
        idsOf_nil_of_not_isPref hxnotpref]
    · have hu' : u = [] ∨ u ∈ L := by
        rcases hu with h0 | hm
        · exact Or.inl h0
        · exact Or.inr (((hmemL' u).1 hm).resolve_right hux)
      rw [hnu_old u hu', hget]
      by_cases e : nu L u = nu L w
      · rw [if_pos e]
        have := h.mats u hu'
        rw [e] at this; exact this
      · rw [if_neg e]; exact h.mats u hu'
  · intro sid
    rw [hget]
    by_cases e : sid = nu L w
    · rw [if_pos e]; exact h.fail _
    · rw [if_neg e]; exact h.fail sid
  · rw [hget, if_neg (by rcases nu_cases L w with e | e <;> omega)]; exact h.s0
  · rw [hget, if_neg (by rcases nu_cases L w with e | e <;> omega)]; exact h.s1
  · rw [hget, if_neg (by rcases nu_cases L w with e | e <;> omega)]; exact h.s3
  · intro u hu
    rcases (hmemL' u).1 hu with hm | hm
    · rw [hnu_old u (Or.inr hm)]; exact h.depth u hm
    · subst hm
      rw [hnu_x, h.size]
      have := h.len_le hw
      simp only [List.length_append, List.length_singleton]; omega

/-- the initial four states -/
theorem TI_init : TI init [] [] [] := by
  have g0 : init.getD 0 {} = { trans := fullTrans DEAD, fail := SU } := rfl
  have g1 : init.getD 1 {} = { fail := SU } := rfl
  have g2 : init.getD 2 {} = { trans := fullTrans FAIL, fail := SU } := rfl
  have g3 : init.getD 3 {} = { trans := fullTrans FAIL, fail := SU } := rfl
  have g4 : ∀ m, init.getD (m + 4) {} = {} := fun m =>
    getD_of_size_le _ (by show 4 ≤ m + 4; omega)
  have hall : ∀ (p : CState → Prop), p (init.getD 0 {}) → p (init.getD 1 {}) → p (init.getD 2 {}) →
      p (init.getD 3 {}) → p {} → ∀ sid, p (init.getD sid {}) := by
    intro p h0 h1 h2 h3 h4 sid
    match sid with
    | 0 => exact h0
    | 1 => exact h1
    | 2 => exact h2
    | 3 => exact h3
    | m + 4 => rw [g4]; exact h4
  refine
    { size := rfl, nodup := List.nodup_nil, mem := ?_, goto_in := ?_, goto_out := ?_, sorted := ?_,
      nofail := ?_, full := ?_, mats := ?_, fail := ?_, s0 := g0, s1 := g1, s3 := g3,
      depth := ?_ }
  · intro v
    constructor
    · intro h; simp at h
    · rintro ⟨h0, hp | hp⟩
      · simp [isPref] at hp
      · exact absurd (List.prefix_nil.1 hp) h0
  · intro u b _ hin; simp at hin
  · intro u b hu _
    rcases hu with h0 | hm
    · subst h0
      rw [nu_nil, follow_eq]
      show lookup (init.getD 2 {}).trans b = FAIL
      rw [g2]; exact lookup_fullTrans FAIL b
    · simp at hm
  · apply hall (fun st => Sorted st.trans)
    · rw [g0]; exact sorted_fullTrans _
    · rw [g1]; exact sorted_nil
    · rw [g2]; exact sorted_fullTrans _
    · rw [g3]; exact sorted_fullTrans _
    · exact sorted_nil
  · intro u hu; simp at hu
  · intro b
    show ∃ t, (b, t) ∈ (init.getD 2 {}).trans
    rw [g2]; exact ⟨FAIL, mem_fullTrans FAIL b⟩
  · intro u hu
    rcases hu with h0 | hm
    · subst h0
      rw [nu_nil]
      show (init.getD 2 {}).matches_ = _
      rw [g2]; rfl
    · simp at hm
  · apply hall (fun st => st.fail = SU)
    · rw [g0]
    · rw [g1]
    · rw [g2]
    · rw [g3]
    · rfl
  · intro u hu; simp at hu

/-! ## one pattern -/

theorem isMatch_eq (n : CNfa) (sid : Nat) : isMatch n sid = !(n.getD sid {}).matches_.isEmpty := rfl

theorem addPattern_spec (lf : Bool) (Qs : PatSet UInt8) :
    ∀ (rest : List UInt8) (n : CNfa) (L : List (List UInt8)) (w : List UInt8) (saw : Bool),
      TI n L Qs w → (lf = true → saw = false) →
      match addPattern lf false n (nu L w) saw rest with
      | none => lf = true ∧ ∃ j, j < rest.length ∧ idsOf Qs (w ++ rest.take j) ≠ []
      | some (n', last) =>
        (lf = true → ∀ j, j < rest.length → idsOf Qs (w ++ rest.take j) = []) ∧
          ∃ L', TI n' L' Qs (w ++ rest) ∧ last = nu L' (w ++ rest)
  | [], n, L, w, saw, h, _ => by
    simp only [addPattern, List.append_nil]
    exact ⟨fun _ j hj => absurd hj (Nat.not_lt_zero j), L, h, rfl⟩
  | b :: rest, n, L, w, saw, h, hsaw => by
    have hw := h.cur
    have hm : isMatch n (nu L w) = !(idsOf Qs w).isEmpty := by
      rw [isMatch_eq, h.mats w hw]
    rw [addPattern]
    simp only [hm]
    by_cases hc : (lf && (saw || !(idsOf Qs w).isEmpty)) = true
    · rw [if_pos hc]
      simp only [Bool.and_eq_true, Bool.or_eq_true] at hc
      obtain ⟨hlf, hs | hs⟩ := hc
      · rw [hsaw hlf] at hs; cases hs
      · refine ⟨hlf, 0, by simp, ?_⟩
        simp only [List.take_zero, List.append_nil]
        intro e; rw [e] at hs; simp at hs
    · rw [if_neg hc]
      have hsaw' : lf = true → (saw || !(idsOf Qs w).isEmpty) = false := by
        intro hlf
        cases hh : (saw || !(idsOf Qs w).isEmpty)
        · rfl
        · exact absurd (by rw [hlf, hh]; rfl) hc
      have hw0 : lf = true → idsOf Qs w = [] := by
        intro hlf
        have := hsaw' hlf
        simp only [Bool.or_eq_false_iff, Bool.not_eq_false', List.isEmpty_iff] at this
        exact this.2
      -- reassemble the conclusions for `b :: rest` from those for `rest` at `w ++ [b]`
      have hshift : ∀ j, w ++ (b :: rest).take (j + 1) = (w ++ [b]) ++ rest.take j := by
        intro j; simp
      have key : ∀ (r : Option (CNfa × Nat)),
          (match r with
            | none => lf = true ∧ ∃ j, j < rest.length ∧ idsOf Qs ((w ++ [b]) ++ rest.take j) ≠ []
            | some (n', last) =>
              (lf = true → ∀ j, j < rest.length → idsOf Qs ((w ++ [b]) ++ rest.take j) = []) ∧
                ∃ L', TI n' L' Qs ((w ++ [b]) ++ rest) ∧ last = nu L' ((w ++ [b]) ++ rest)) →
          (match r with
            | none => lf = true ∧ ∃ j, j < (b :: rest).length ∧
                idsOf Qs (w ++ (b :: rest).take j) ≠ []
            | some (n', last) =>
              (lf = true → ∀ j, j < (b :: rest).length →
                  idsOf Qs (w ++ (b :: rest).take j) = []) ∧
                ∃ L', TI n' L' Qs (w ++ b :: rest) ∧ last = nu L' (w ++ b :: rest)) := by
        intro r hr
        cases r with
        | none =>
          obtain ⟨hlf, j, hj, hne⟩ := hr
          exact ⟨hlf, j + 1, by simp; omega, by rw [hshift]; exact hne⟩
        | some p =>
          obtain ⟨n', last⟩ := p
          obtain ⟨h1, L', hT, hl⟩ := hr
          refine ⟨?_, L', by simpa using hT, by simpa using hl⟩
          intro hlf j hj
          cases j with
          | zero => simpa using hw0 hlf
          | succ j =>
            rw [hshift]
            exact h1 hlf j (by simp at hj; omega)
      by_cases hx : w ++ [b] ∈ L
      · have hf : follow n (nu L w) b = nu L (w ++ [b]) := h.goto_in w b hw hx
        have hne : (follow n (nu L w) b != FAIL) = true := by
          rw [hf]; simpa using nu_ne_fail L (w ++ [b])
        simp only [hne, if_true]
        rw [hf]
        exact key _ (addPattern_spec lf Qs rest n L (w ++ [b]) _ (h.advance b hx) hsaw')
      · have hf : follow n (nu L w) b = FAIL := h.goto_out w b hw hx
        have hne : ¬ (follow n (nu L w) b != FAIL) = true := by
          rw [hf]; simp
        simp only [hne, if_false, Bool.false_eq_true]
        have hT := h.extend b hx
        have hnx : n.size = nu (L ++ [w ++ [b]]) (w ++ [b]) := by
          rw [nu_new hx (by simp), h.size]
        have := addPattern_spec lf Qs rest _ _ (w ++ [b]) (saw || !(idsOf Qs w).isEmpty) hT hsaw'
        rw [← hnx] at this
        exact key _ this

/-! ## the fold over the patterns -/

theorem list_reverse_induction {β : Type} {motive : List β → Prop} (nil : motive [])
    (snoc : ∀ l a, motive l → motive (l ++ [a])) : ∀ l, motive l := by
  intro l
  generalize hn : l.length = m
  induction m generalizing l with
  | zero =>
    have : l = [] := List.eq_nil_of_length_eq_zero hn
    subst this; exact nil
  | succ m ih =>
    rcases List.eq_nil_or_concat l with e | ⟨l', a, e⟩
    · subst e; simp at hn
    · rw [List.concat_eq_append] at e
      subst e
      exact snoc l' a (ih l' (by simp at hn; omega))

/-- adding the id of a pattern to its last node -/
theorem TI.finish {n : CNfa} {L : List (List UInt8)} {Qs : PatSet UInt8} {p : List UInt8}
    (h : TI n L Qs p) (pid : Nat) :
    TI (n.modify (nu L p) fun st => { st with matches_ := st.matches_ ++ [pid] }) L
      (Qs ++ [(p, pid)]) [] := by
  have hp := h.cur
  have hlt := h.nu_lt_size hp
  have hget : ∀ sid, (n.modify (nu L p) fun st => { st with matches_ := st.matches_ ++ [pid] }).getD
      sid {} = if sid = nu L p then { n.getD sid {} with matches_ := (n.getD sid {}).matches_ ++ [pid] }
        else n.getD sid {} := by
    intro sid
    rw [getD_modify]
    by_cases e : sid = nu L p
    · subst e; rw [if_pos ⟨rfl, hlt⟩, if_pos rfl]
    · rw [if_neg (fun hh => e hh.1.symm), if_neg e]
  have htr : ∀ sid, ((n.modify (nu L p) fun st =>
      { st with matches_ := st.matches_ ++ [pid] }).getD sid {}).trans = (n.getD sid {}).trans := by
    intro sid; rw [hget]; split <;> rfl
  have hfol : ∀ sid c, follow (n.modify (nu L p) fun st =>
      { st with matches_ := st.matches_ ++ [pid] }) sid c = follow n sid c := by
    intro sid c; rw [follow_eq, follow_eq, htr]
  refine
    { size := ?_, nodup := h.nodup, mem := ?_, goto_in := ?_, goto_out := ?_, sorted := ?_,
      nofail := ?_, full := ?_, mats := ?_, fail := ?_, s0 := ?_, s1 := ?_, s3 := ?_,
      depth := h.depth }
  · rw [Array.size_modify]; exact h.size
  · intro v
    rw [h.mem v, isPref_append_single]
    constructor
    · rintro ⟨h0, hp | hp⟩
      · exact ⟨h0, Or.inl (by simp [hp])⟩
      · exact ⟨h0, Or.inl (by simp [List.isPrefixOf_iff_prefix.2 hp])⟩
    · rintro ⟨h0, hp | hp⟩
      · simp only [Bool.or_eq_true] at hp
        rcases hp with hp | hp
        · exact ⟨h0, Or.inl hp⟩
        · exact ⟨h0, Or.inr (List.isPrefixOf_iff_prefix.1 hp)⟩
      · exact absurd (List.prefix_nil.1 hp) h0
  · intro u b hu hin; rw [hfol]; exact h.goto_in u b hu hin
  · intro u b hu hout; rw [hfol]; exact h.goto_out u b hu hout
  · intro sid; rw [htr]; exact h.sorted sid
  · intro u hu x hx; rw [htr] at hx; exact h.nofail u hu x hx
  · intro b; rw [htr]; exact h.full b
  · intro u hu
    rw [hget, idsOf_append_single]
    by_cases e : nu L u = nu L p
    · have := nu_inj hu hp e
      subst this
      rw [if_pos rfl, if_pos rfl]
      show (n.getD (nu L u) {}).matches_ ++ [pid] = _
      rw [h.mats u hu]
    · have : ¬ p = u := fun e' => e (by rw [e'])
      rw [if_neg e, if_neg this, List.append_nil]; exact h.mats u hu
  · intro sid; rw [hget]; split
    · exact h.fail sid
    · exact h.fail sid
  · rw [hget, if_neg (by rcases nu_cases L p with e | e <;> omega)]; exact h.s0
  · rw [hget, if_neg (by rcases nu_cases L p with e | e <;> omega)]; exact h.s1
  · rw [hget, if_neg (by rcases nu_cases L p with e | e <;> omega)]; exact h.s3

theorem buildTrie_snoc (k : MatchKind) (P : List (List UInt8)) (p : List UInt8) :
    buildTrie k false (P ++ [p]) =
      match addPattern (k == .lf) false (buildTrie k false P) SU false p with
      | none => buildTrie k false P
      | some (n, last) => n.modify last fun st => { st with matches_ := st.matches_ ++ [P.length] } := by
  unfold buildTrie
  rw [List.zipIdx_append, List.foldl_append]
  simp only [List.zipIdx_cons, List.zipIdx_nil, List.foldl_cons, List.foldl_nil, Nat.zero_add]
  rfl

/-- (a) the trie phase: the states `≥ 4` are the non-empty prefixes of the kept patterns -/
theorem buildTrie_spec (k : MatchKind) :
    ∀ P : List (List UInt8), ∃ L, TI (buildTrie k false P) L (patSet k P) [] := by
  apply list_reverse_induction
  · exact ⟨[], by
      have : patSet k ([] : List (List UInt8)) = [] := by cases k <;> rfl
      rw [this]; exact TI_init⟩
  · intro P p ⟨L, hT⟩
    rw [buildTrie_snoc, patSet_concat]
    have hspec := addPattern_spec (k == .lf) (patSet k P) p (buildTrie k false P) L [] false hT
      (fun _ => rfl)
    rw [nu_nil] at hspec
    cases hr : addPattern (k == .lf) false (buildTrie k false P) SU false p with
    | none =>
      rw [hr] at hspec
      obtain ⟨hlf, j, hj, hne⟩ := hspec
      have hk : k = .lf := by simpa using hlf
      subst hk
      simp only [List.nil_append] at hne
      have : keepLF (P ++ [p]) (p, P.length) = false :=
        (keepLF_concat_false_iff P p).2 ⟨j, hj, hne⟩
      rw [if_pos ⟨rfl, this⟩, List.append_nil]
      exact ⟨L, hT⟩
    | some r =>
      obtain ⟨n', last⟩ := r
      rw [hr] at hspec
      obtain ⟨h1, L', hT', hl⟩ := hspec
      simp only [List.nil_append] at h1 hT' hl
      have hcond : ¬ (k = .lf ∧ keepLF (P ++ [p]) (p, P.length) = false) := by
        rintro ⟨hk, hkeep⟩
        subst hk
        obtain ⟨j, hj, hne⟩ := (keepLF_concat_false_iff P p).1 hkeep
        exact hne (h1 rfl j hj)
      rw [if_neg hcond]
      subst hl
      exact ⟨L', hT'.finish P.length⟩

end AcVerif.L1cP
