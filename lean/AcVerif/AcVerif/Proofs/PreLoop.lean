import AcVerif.Proofs.Struct
/-!
# C05, generic part: the search loop with a prefilter versus the loop without

Two automata `A0` (prefilter-free flags) and `A1` (start state flagged special)
that agree on everything except `isSpecial` at one state `q0` (non-dead,
non-match).  While the run is not in `q0` the loop with prefilter and the loop
without take exactly the same steps (`lockstep`); what happens in `q0` is
abstracted into the hypothesis `R` ("following the prefilter's verdict equals
continuing the prefilter-free loop from `q0` with no match recorded").
-/
namespace AcVerif.PreP
open AcVerif
variable {σ α : Type}

/-! ## unfolding `findLoop` -/

theorem findLoop_done (A : Aut σ α) (hay : List α) (s e : Nat) (he : e ≤ hay.length)
    (pre : Option (Prefilter α)) (anch earliest : Bool) (sid : σ) (at_ : Nat) (mat : Option Mat)
    (h : ¬ at_ < e) : findLoop A hay s e he pre anch earliest sid at_ mat = mat := by
  rw [findLoop, dif_neg h]

theorem findLoop_step (A : Aut σ α) (hay : List α) (s e : Nat) (he : e ≤ hay.length)
    (pre : Option (Prefilter α)) (anch earliest : Bool) (sid : σ) (at_ : Nat) (mat : Option Mat)
    (h : at_ < e) :
    findLoop A hay s e he pre anch earliest sid at_ mat =
      (let sid := A.next anch sid (hay[at_]'(Nat.lt_of_lt_of_le h he))
       if A.isSpecial sid then
         if A.isDead sid then mat
         else if A.isMatch sid then
           let m := getMatch A sid 0 (at_ + 1)
           if !(anch && decide (m.start > s)) then
             if earliest then some m
             else findLoop A hay s e he pre anch earliest sid (at_ + 1) (some m)
           else findLoop A hay s e he pre anch earliest sid (at_ + 1) mat
         else
           match pre with
           | some p =>
             match (p hay at_ e).intoOption with
             | Option.none => Option.none
             | some i =>
               if i > at_ then findLoop A hay s e he pre anch earliest sid i mat
               else findLoop A hay s e he pre anch earliest sid (at_ + 1) mat
           | Option.none => findLoop A hay s e he pre anch earliest sid (at_ + 1) mat
       else findLoop A hay s e he pre anch earliest sid (at_ + 1) mat) := by
  rw [findLoop, dif_pos h]; rfl

/-! ## the span start is only read by the anchored filter -/

theorem findS_s_irrel (A : Aut σ α) (s s' : Nat) (earliest : Bool) (rest : List α) :
    ∀ (sid : σ) (at_ : Nat) (mat : Option Mat),
      findS A s false earliest sid at_ mat rest = findS A s' false earliest sid at_ mat rest := by
  induction rest with
  | nil => intros; rfl
  | cons c rest ih =>
    intro sid at_ mat
    simp only [findS, Bool.false_and, Bool.not_false, if_true, ih]

theorem findLoop_s_irrel (A : Aut σ α) (hay : List α) (s s' e : Nat) (he : e ≤ hay.length)
    (earliest : Bool) (sid : σ) (at_ : Nat) (mat : Option Mat) :
    findLoop A hay s e he Option.none false earliest sid at_ mat =
      findLoop A hay s' e he Option.none false earliest sid at_ mat := by
  rw [findLoop_eq_findS, findLoop_eq_findS, findS_s_irrel]

/-! ## without a prefilter the extra special flag is invisible -/

/-- `A1` is `A0` with more states flagged special, none of them dead or match -/
structure SameButSpecial (A0 A1 : Aut σ α) : Prop where
  next : A1.next = A0.next
  dead : A1.isDead = A0.isDead
  isMatch : A1.isMatch = A0.isMatch
  mpats : A1.mpats = A0.mpats
  patLen : A1.patLen = A0.patLen
  /-- dead and match states are special in both -/
  special : ∀ q, (A0.isDead q || A0.isMatch q) = true → A0.isSpecial q = true ∧ A1.isSpecial q = true

theorem SameButSpecial.getMatch {A0 A1 : Aut σ α} (h : SameButSpecial A0 A1) (q : σ) (i at_ : Nat) :
    getMatch A1 q i at_ = getMatch A0 q i at_ := by
  simp only [AcVerif.getMatch, h.mpats, h.patLen]

theorem findS_noPre {A0 A1 : Aut σ α} (h : SameButSpecial A0 A1) (s : Nat) (anch earliest : Bool)
    (rest : List α) : ∀ (sid : σ) (at_ : Nat) (mat : Option Mat),
      findS A1 s anch earliest sid at_ mat rest = findS A0 s anch earliest sid at_ mat rest := by
  induction rest with
  | nil => intros; rfl
  | cons c rest ih =>
    intro sid at_ mat
    simp only [findS, h.next, h.dead, h.isMatch, h.getMatch, ih]
    cases hd : A0.isDead (A0.next anch sid c) with
    | true =>
      have := h.special (A0.next anch sid c) (by simp [hd])
      simp [this.1, this.2]
    | false =>
      cases hm : A0.isMatch (A0.next anch sid c) with
      | true =>
        have := h.special (A0.next anch sid c) (by simp [hm])
        simp [this.1, this.2]
      | false =>
        simp

theorem findLoop_noPre {A0 A1 : Aut σ α} (h : SameButSpecial A0 A1) (hay : List α) (s e : Nat)
    (he : e ≤ hay.length) (anch earliest : Bool) (sid : σ) (at_ : Nat) (mat : Option Mat) :
    findLoop A1 hay s e he Option.none anch earliest sid at_ mat =
      findLoop A0 hay s e he Option.none anch earliest sid at_ mat := by
  rw [findLoop_eq_findS, findLoop_eq_findS, findS_noPre h]

/-! ## with a prefilter: lockstep outside the start state -/

/-- what the loop does with the prefilter's verdict in the start state, having just consumed
`hay[at_]` -/
def follow (A : Aut σ α) (hay : List α) (s e : Nat) (he : e ≤ hay.length) (p : Prefilter α)
    (earliest : Bool) (q0 : σ) (at_ : Nat) (mat : Option Mat) : Option Mat :=
  match (p hay at_ e).intoOption with
  | Option.none => Option.none
  | some i =>
    if i > at_ then findLoop A hay s e he (some p) false earliest q0 i mat
    else findLoop A hay s e he (some p) false earliest q0 (at_ + 1) mat

/-- `A1` flags exactly one more state special than `A0`: the start state `q0` -/
structure StartFlagged (A0 A1 : Aut σ α) (q0 : σ) : Prop extends SameButSpecial A0 A1 where
  /-- the special states of `A0` are its dead and match states -/
  special0 : ∀ q, A0.isSpecial q = (A0.isDead q || A0.isMatch q)
  special1 : ∀ q, q ≠ q0 → A1.isSpecial q = A0.isSpecial q
  q0_special : A1.isSpecial q0 = true
  q0_dead : A0.isDead q0 = false
  q0_match : A0.isMatch q0 = false

/-- The loop with prefilter equals the loop without, given an invariant `Inv` of the
prefilter-free run which forces `mat = none` in the start state, and given that following the
prefilter from the start state is correct (`R`). -/
theorem lockstep {A0 A1 : Aut σ α} {q0 : σ} (hA : StartFlagged A0 A1 q0)
    (hay : List α) (s e : Nat) (he : e ≤ hay.length) (p : Prefilter α) (earliest : Bool)
    (Inv : σ → Nat → Option Mat → Prop) (b : Nat)
    (hstep : ∀ q at_ mat (h : at_ < e), b ≤ at_ → Inv q at_ mat →
      A0.isDead (A0.next false q (hay[at_]'(Nat.lt_of_lt_of_le h he))) = false →
      (A0.isMatch (A0.next false q (hay[at_]'(Nat.lt_of_lt_of_le h he))) = true →
        earliest = false →
        Inv (A0.next false q (hay[at_]'(Nat.lt_of_lt_of_le h he))) (at_ + 1)
          (some (getMatch A0 (A0.next false q (hay[at_]'(Nat.lt_of_lt_of_le h he))) 0 (at_ + 1)))) ∧
      (A0.isMatch (A0.next false q (hay[at_]'(Nat.lt_of_lt_of_le h he))) = false →
        Inv (A0.next false q (hay[at_]'(Nat.lt_of_lt_of_le h he))) (at_ + 1) mat))
    (hInv0 : ∀ at_ mat, Inv q0 at_ mat → mat = Option.none)
    (R : ∀ at_, b ≤ at_ → at_ < e →
      follow A1 hay s e he p earliest q0 at_ Option.none =
        findLoop A0 hay s e he Option.none false earliest q0 (at_ + 1) Option.none) :
    ∀ (n : Nat) (q : σ) (at_ : Nat) (mat : Option Mat), e - at_ = n → b ≤ at_ → Inv q at_ mat →
      findLoop A1 hay s e he (some p) false earliest q at_ mat =
        findLoop A0 hay s e he Option.none false earliest q at_ mat := by
  intro n
  induction n with
  | zero =>
    intro q at_ mat hn _ _
    have h : ¬ at_ < e := by omega
    rw [findLoop_done _ _ _ _ _ _ _ _ _ _ _ h, findLoop_done _ _ _ _ _ _ _ _ _ _ _ h]
  | succ n ih =>
    intro q at_ mat hn hb hinv
    have h : at_ < e := by omega
    have hn' : e - (at_ + 1) = n := by omega
    have hb' : b ≤ at_ + 1 := by omega
    rw [findLoop_step _ _ _ _ _ _ _ _ _ _ _ h, findLoop_step _ _ _ _ _ _ _ _ _ _ _ h]
    simp only [hA.next, hA.dead, hA.isMatch, hA.getMatch, Bool.false_and, Bool.not_false, if_true]
    have hst := hstep q at_ mat h hb hinv
    generalize A0.next false q (hay[at_]'(Nat.lt_of_lt_of_le h he)) = q' at hst
    rw [hA.special0 q']
    by_cases hq : q' = q0
    · subst hq
      have hinv' := (hst hA.q0_dead).2 hA.q0_match
      have hm := hInv0 _ _ hinv'
      subst hm
      simp only [hA.q0_special, hA.q0_dead, hA.q0_match, if_true, Bool.false_eq_true, if_false,
        Bool.or_self]
      exact R at_ hb h
    · rw [hA.special1 q' hq, hA.special0 q']
      cases hd : A0.isDead q' with
      | true => simp
      | false =>
        cases hm : A0.isMatch q' with
        | true =>
          simp only [Bool.or_true, if_true, Bool.false_eq_true, if_false]
          cases earliest with
          | true => simp
          | false =>
            simp only [Bool.false_eq_true, if_false]
            exact ih _ _ _ hn' hb' ((hst hd).1 hm rfl)
        | false =>
          simp only [Bool.or_self, Bool.false_eq_true, if_false]
          exact ih _ _ _ hn' hb' ((hst hd).2 hm)

end AcVerif.PreP
