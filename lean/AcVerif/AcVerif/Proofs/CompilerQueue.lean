import AcVerif.Proofs.CompilerFail
/-!
# L1c proofs, part 4: the breadth-first queue, combinatorial side

`Us` is the queue (as strings), `pend` the nodes not yet enqueued.  A node is enqueued exactly
when it receives its final failure link, so "finished" is "not in `pend`".
-/
namespace AcVerif.L1cP
open AcVerif AcVerif.CNfa

/-- queue invariant between two dequeue operations -/
structure QI (L Us pend : List (List UInt8)) : Prop where
  q1 : ∀ x, x ∈ Us → x ∈ L ∧ x ∉ pend
  sorted : Us.Pairwise fun x y => x.length ≤ y.length
  nodup : Us.Nodup
  range : ∀ x, x ∈ Us → ∀ y, y ∈ Us → y.length ≤ x.length + 1
  pnodup : pend.Nodup
  d1 : ∀ b : UInt8, [b] ∈ L → [b] ∉ pend
  step : ∀ (p : List UInt8) (b : UInt8), p ∈ L → p ++ [b] ∈ L →
    (p ++ [b] ∉ pend ↔ p ∉ pend ∧ p ∉ Us)

/-- queue invariant while the children of the dequeued node `u` are processed; `rest` are the
bytes of the children still to come -/
structure QI' (L Us pend : List (List UInt8)) (u : List UInt8) (rest : List UInt8) : Prop where
  q1 : ∀ x, x ∈ Us → x ∈ L ∧ x ∉ pend
  sorted : Us.Pairwise fun x y => x.length ≤ y.length
  nodup : Us.Nodup
  range : ∀ x, x ∈ Us → u.length ≤ x.length ∧ x.length ≤ u.length + 1
  pnodup : pend.Nodup
  d1 : ∀ b : UInt8, [b] ∈ L → [b] ∉ pend
  step : ∀ (p : List UInt8) (b : UInt8), p ∈ L → p ++ [b] ∈ L →
    (p ++ [b] ∉ pend ↔ p ∉ pend ∧ p ∉ Us ∧ ¬ (p = u ∧ b ∈ rest))
  cur : u ∈ L ∧ u ∉ pend ∧ u ∉ Us
  low : ∀ v, v ∈ L → v.length ≤ u.length → v ∉ pend

section
variable {Q : PatSet UInt8} {L : List (List UInt8)} {n0 : CNfa}

/-- every node no deeper than the head of the queue is finished -/
theorem QI.low (hB : PB Q L n0) {Us pend : List (List UInt8)} {u : List UInt8}
    (h : QI L (u :: Us) pend) : ∀ (m : Nat) (v : List UInt8), v.length ≤ m → v ∈ L →
      v.length ≤ u.length → v ∉ pend := by
  intro m
  induction m with
  | zero =>
    intro v hv hvL _
    have : v = [] := List.eq_nil_of_length_eq_zero (by omega)
    exact absurd (this ▸ hvL) hB.nil_not_mem
  | succ m ih =>
    intro v hv hvL hvu
    rcases List.eq_nil_or_concat v with e | ⟨p, b, e⟩
    · exact absurd (e ▸ hvL) hB.nil_not_mem
    · rw [List.concat_eq_append] at e
      subst e
      simp only [List.length_append, List.length_singleton] at hv hvu
      rcases hB.closed hvL with h0 | hp
      · subst h0; exact h.d1 b hvL
      · rw [h.step p b hp hvL]
        refine ⟨ih p (by omega) hp (by omega), ?_⟩
        intro hm
        have hsort := List.pairwise_cons.1 h.sorted
        rcases List.mem_cons.1 hm with e | e
        · subst e; omega
        · have := hsort.1 p e; omega

theorem QI.pop (hB : PB Q L n0) {Us pend : List (List UInt8)} {u : List UInt8}
    (h : QI L (u :: Us) pend) (keys : List UInt8) (hkeys : ∀ b, u ++ [b] ∈ L → b ∈ keys) :
    QI' L Us pend u keys := by
  have hsort := List.pairwise_cons.1 h.sorted
  have hnd := List.nodup_cons.1 h.nodup
  have hu := h.q1 u List.mem_cons_self
  refine
    { q1 := fun x hx => h.q1 x (List.mem_cons_of_mem _ hx), sorted := hsort.2, nodup := hnd.2,
      range := ?_, pnodup := h.pnodup, d1 := h.d1, step := ?_, cur := ⟨hu.1, hu.2, hnd.1⟩,
      low := fun v hv hvl => h.low hB v.length v (Nat.le_refl _) hv hvl }
  · intro x hx
    exact ⟨hsort.1 x hx, h.range u List.mem_cons_self x (List.mem_cons_of_mem _ hx)⟩
  · intro p b hp hpb
    rw [h.step p b hp hpb]
    by_cases e : p = u
    · subst e
      constructor
      · intro hh; exact absurd List.mem_cons_self hh.2
      · intro hh; exact absurd ⟨rfl, hkeys b hpb⟩ hh.2.2
    · constructor
      · rintro ⟨h1, h2⟩
        exact ⟨h1, fun hm => h2 (List.mem_cons_of_mem _ hm), fun hh => e hh.1⟩
      · rintro ⟨h1, h2, _⟩
        refine ⟨h1, fun hm => ?_⟩
        rcases List.mem_cons.1 hm with e' | e'
        · exact e e'
        · exact h2 e'

theorem QI'.pending {Us pend : List (List UInt8)} {u : List UInt8} {b : UInt8}
    {rest : List UInt8} (h : QI' L Us pend u (b :: rest)) (hc : u ++ [b] ∈ L) :
    u ++ [b] ∈ pend := by
  apply Classical.byContradiction
  intro hn
  have := (h.step u b h.cur.1 hc).1 hn
  exact this.2.2 ⟨rfl, List.mem_cons_self⟩

theorem QI'.push {Us pend : List (List UInt8)} {u : List UInt8} {b : UInt8}
    {rest : List UInt8} (h : QI' L Us pend u (b :: rest)) (hb : b ∉ rest) (hc : u ++ [b] ∈ L) :
    QI' L (Us ++ [u ++ [b]]) (pend.erase (u ++ [b])) u rest := by
  have hcp := h.pending hc
  have hcU : u ++ [b] ∉ Us := fun hm => (h.q1 _ hm).2 hcp
  have hcne : u ≠ u ++ [b] := fun e => by
    have := congrArg List.length e; simp at this
  have hmem : ∀ x, x ∈ pend.erase (u ++ [b]) ↔ x ≠ u ++ [b] ∧ x ∈ pend := fun x =>
    h.pnodup.mem_erase_iff
  refine
    { q1 := ?_, sorted := ?_, nodup := ?_, range := ?_, pnodup := h.pnodup.erase _, d1 := ?_,
      step := ?_, cur := ?_, low := ?_ }
  · intro x hx
    rcases List.mem_append.1 hx with hx | hx
    · exact ⟨(h.q1 x hx).1, fun hm => (h.q1 x hx).2 ((hmem x).1 hm).2⟩
    · rw [List.mem_singleton] at hx
      subst hx
      exact ⟨hc, fun hm => ((hmem _).1 hm).1 rfl⟩
  · rw [List.pairwise_append]
    refine ⟨h.sorted, List.pairwise_singleton _ _, ?_⟩
    intro x hx y hy
    rw [List.mem_singleton] at hy
    subst hy
    have := (h.range x hx).2
    simp only [List.length_append, List.length_singleton]; omega
  · rw [List.nodup_append]
    refine ⟨h.nodup, by simp, ?_⟩
    intro x hx y hy
    rw [List.mem_singleton] at hy
    subst hy
    intro e; subst e; exact hcU hx
  · intro x hx
    rcases List.mem_append.1 hx with hx | hx
    · exact h.range x hx
    · rw [List.mem_singleton] at hx
      subst hx
      simp only [List.length_append, List.length_singleton]; omega
  · intro c hcL hm
    exact h.d1 c hcL ((hmem _).1 hm).2
  · intro p c hp hpc
    by_cases e : p ++ [c] = u ++ [b]
    · obtain ⟨e1, e2⟩ := List.append_inj' e rfl
      have e2 : c = b := by simpa using e2
      subst e1; subst e2
      constructor
      · intro _
        refine ⟨fun hm => h.cur.2.1 ((hmem _).1 hm).2, ?_, fun hh => hb hh.2⟩
        intro hm
        rcases List.mem_append.1 hm with hm | hm
        · exact h.cur.2.2 hm
        · rw [List.mem_singleton] at hm; exact hcne hm
      · intro _ hm
        exact ((hmem _).1 hm).1 rfl
    · have hL : p ++ [c] ∉ pend.erase (u ++ [b]) ↔ p ++ [c] ∉ pend := by
        rw [hmem]; constructor
        · intro hh hm; exact hh ⟨e, hm⟩
        · intro hh hm; exact hh hm.2
      rw [hL, h.step p c hp hpc]
      by_cases epc : p = u ++ [b]
      · subst epc
        constructor
        · intro hh; exact absurd hcp hh.1
        · intro hh; exact absurd (List.mem_append.2 (Or.inr (List.mem_singleton.2 rfl))) hh.2.1
      · have hP : p ∉ pend.erase (u ++ [b]) ↔ p ∉ pend := by
          rw [hmem]; constructor
          · intro hh hm; exact hh ⟨epc, hm⟩
          · intro hh hm; exact hh hm.2
        have hU : p ∉ Us ++ [u ++ [b]] ↔ p ∉ Us := by
          rw [List.mem_append, List.mem_singleton]
          constructor
          · intro hh hm; exact hh (Or.inl hm)
          · intro hh hm; rcases hm with hm | hm
            · exact hh hm
            · exact epc hm
        rw [hP, hU]
        have hK : ¬ (p = u ∧ c ∈ b :: rest) ↔ ¬ (p = u ∧ c ∈ rest) := by
          constructor
          · intro hh hm; exact hh ⟨hm.1, List.mem_cons_of_mem _ hm.2⟩
          · intro hh hm
            rcases List.mem_cons.1 hm.2 with e' | e'
            · exact e (by rw [hm.1, e'])
            · exact hh ⟨hm.1, e'⟩
        rw [hK]
  · refine ⟨h.cur.1, fun hm => h.cur.2.1 ((hmem _).1 hm).2, ?_⟩
    intro hm
    rcases List.mem_append.1 hm with hm | hm
    · exact h.cur.2.2 hm
    · rw [List.mem_singleton] at hm; exact hcne hm
  · intro v hv hvl hm
    exact h.low v hv hvl ((hmem _).1 hm).2

theorem QI'.finish {Us pend : List (List UInt8)} {u : List UInt8} (h : QI' L Us pend u []) :
    QI L Us pend := by
  refine
    { q1 := h.q1, sorted := h.sorted, nodup := h.nodup, range := ?_, pnodup := h.pnodup,
      d1 := h.d1, step := ?_ }
  · intro x hx y hy
    have := h.range x hx
    have := h.range y hy
    omega
  · intro p b hp hpb
    rw [h.step p b hp hpb]
    constructor
    · rintro ⟨h1, h2, _⟩; exact ⟨h1, h2⟩
    · rintro ⟨h1, h2⟩; exact ⟨h1, h2, fun hh => by simp at hh⟩

/-- when the queue is empty every node is finished -/
theorem QI.done_all (hB : PB Q L n0) {pend : List (List UInt8)} (h : QI L [] pend) :
    ∀ (m : Nat) (v : List UInt8), v.length ≤ m → v ∈ L → v ∉ pend := by
  intro m
  induction m with
  | zero =>
    intro v hv hvL
    have : v = [] := List.eq_nil_of_length_eq_zero (by omega)
    exact absurd (this ▸ hvL) hB.nil_not_mem
  | succ m ih =>
    intro v hv hvL
    rcases List.eq_nil_or_concat v with e | ⟨p, b, e⟩
    · exact absurd (e ▸ hvL) hB.nil_not_mem
    · rw [List.concat_eq_append] at e
      subst e
      simp only [List.length_append, List.length_singleton] at hv
      rcases hB.closed hvL with h0 | hp
      · subst h0; exact h.d1 b hvL
      · rw [h.step p b hp hvL]
        exact ⟨ih p (by omega) hp, by simp⟩

end

end AcVerif.L1cP
