import AcVerif.Proofs.ContigSim
import AcVerif.Proofs.ContigFoldStep
/-!
# L1e (fold) proofs, part 3: observations at live states, and the simulation `q = newId s`, for the
contiguous NFA built from the NFA compiled with `ascii_case_insensitive`

Port of the `FS`-dependent part of `Proofs/ContigSim.lean` to `FSf`.
-/
namespace AcVerif.L1eFoldP
open AcVerif AcVerif.CNfa AcVerif.L1cP AcVerif.L1dP AcVerif.L1eP AcVerif.L1cFoldP AcVerif.L1dFoldP

section
variable {k : MatchKind} {Q : PatSet UInt8} {L : List (List UInt8)} {N : CNfa}
variable (dd : Nat) (bc hasPre : Bool)

/-- the decoded match list of a live match state -/
theorem matchList_live_f (h : FSf k Q L N) {s : Nat} (hv : Lv L s)
    (hm : (N.getD s {}).matches_ ≠ []) (hlen : (N.getD s {}).matches_.length < 2147483648) :
    (cBuild N dd bc hasPre).matchList (cNewId N dd bc s) = (N.getD s {}).matches_ := by
  rw [matchList_eq]
  exact decode_matches (rd := fun i => (cRepr N dd bc).getD i 0) (o := cNewId N dd bc s)
    (classOf := clsOf N bc) (al := ncOf N bc) (newId := cNewId N dd bc) (st := N.getD s {})
    (fd := decide ((storedDepths N).getD s 0 < dd)) hm hlen (live_slice_f dd bc h hv)

/-- observations agree at live states -/
theorem obs_live_f (h : FSf k Q L N) (P : List (List UInt8)) {s : Nat} (hv : Lv L s)
    (hlen : (N.getD s {}).matches_.length < 2147483648) :
    ((cBuild N dd bc hasPre).toAut k P hasPre).obs false (cNewId N dd bc s) =
      (N.toAut k P hasPre).obs false s := by
  have hS := shufOK N h.four_le_size
  have hs := hv.lt_size_f h
  have h1 := hv.ne_fail_f h
  have hmm := FSf_isMatch_SU_SA h
  have hmd := FSf_isMatch_dead h
  have hz := cNewId_zero_iff hS dd bc hs h1
  have hfm := flag_match hS dd bc hasPre hmm hmd hs h1
  have hfs := flag_special hS dd bc hasPre hmm hmd hs h1
  -- the four components
  have e2 : (cNewId N dd bc s == 0) = (s == DEAD) := by
    rw [Bool.eq_iff_iff]
    simp only [beq_iff_eq]
    exact hz
  have e3 : (cNewId N dd bc s != 0 && decide (cNewId N dd bc s ≤ (cBuild N dd bc hasPre).maxMatchId)) =
      (s != DEAD && CNfa.isMatch N s) := by
    rw [Bool.eq_iff_iff]
    simp only [Bool.and_eq_true, bne_iff_ne, ne_eq, decide_eq_true_eq]
    exact hfm
  have e1 : decide (cNewId N dd bc s ≤ (cBuild N dd bc hasPre).maxSpecialId) =
      (s == DEAD || CNfa.isMatch N s || (hasPre && (s == SU || s == SA))) := by
    rw [Bool.eq_iff_iff]
    simp only [decide_eq_true_eq, Bool.or_eq_true, Bool.and_eq_true, beq_iff_eq]
    rw [hfs]
    constructor
    · rintro (e | e | e)
      · exact Or.inl (Or.inl e)
      · exact Or.inl (Or.inr e)
      · exact Or.inr e
    · rintro ((e | e) | e)
      · exact Or.inl e
      · exact Or.inr (Or.inl e)
      · exact Or.inr (Or.inr e)
  have e4 : (if (cNewId N dd bc s != 0 && decide (cNewId N dd bc s ≤ (cBuild N dd bc hasPre).maxMatchId)) = true
      then (cBuild N dd bc hasPre).matchList (cNewId N dd bc s) else []) = (N.getD s {}).matches_ := by
    rw [e3]
    by_cases hc : (s != DEAD && CNfa.isMatch N s) = true
    · rw [if_pos hc]
      simp only [Bool.and_eq_true, bne_iff_ne, ne_eq] at hc
      have hne : (N.getD s {}).matches_ ≠ [] := by
        have := hc.2
        unfold CNfa.isMatch at this
        intro e; rw [e] at this; simp at this
      exact matchList_live_f dd bc hasPre h hv hne hlen
    · rw [if_neg hc]
      simp only [Bool.and_eq_true, bne_iff_ne, ne_eq, not_and, Bool.not_eq_true] at hc
      by_cases e0 : s = DEAD
      · subst e0; rw [h.mats_dead]
      · have := hc e0
        unfold CNfa.isMatch at this
        cases hms : (N.getD s {}).matches_ with
        | nil => rfl
        | cons a l => rw [hms] at this; simp at this
  show Obs.mk _ _ _ _ = Obs.mk _ _ _ _
  simp only [ContigM.toAut, CNfa.toAut, Bool.false_eq_true, if_false]
  rw [e3] at e4
  rw [e1, e2, e3, e4]

end

/-! ## the simulation -/

/-- the contiguous run visits `newId` of the states of the noncontiguous run -/
theorem contig_run_f (k : MatchKind) (P : List (List UInt8)) (hasPre bc : Bool) (dd : Nat) (anch : Bool)
    {L : List (List UInt8)} (hFS : FSf k (patSet k (P.map (·.map foldByte))) L (CNfa.compile k true P))
    (hX : FX L (CNfa.compile k true P)) :
    ∀ (w : List UInt8) (s : Nat) (q : St UInt8), Rel L anch s q →
      ∃ q', Rel L anch (((CNfa.compile k true P).toAut k P hasPre).runFrom anch s w) q' ∧
        ((cBuild (CNfa.compile k true P) dd bc hasPre).toAut k P hasPre).runFrom anch
            (cNewId (CNfa.compile k true P) dd bc s) w =
          cNewId (CNfa.compile k true P) dd bc
            (((CNfa.compile k true P).toAut k P hasPre).runFrom anch s w)
  | [], _, q, hr => ⟨q, hr, rfl⟩
  | c :: w, s, _, hr => by
    have hstep := step_live_f dd bc hasPre hFS hX anch c (LvA_of_Rel hr)
    obtain ⟨q', h1, h2⟩ := contig_run_f k P hasPre bc dd anch hFS hX w _ _ (Rel_step_f hFS anch hr c)
    refine ⟨q', h1, ?_⟩
    show Aut.runFrom _ anch ((ContigM.nextState _ anch _ _ c (0, 0)).1) w = _
    rw [hstep]
    exact h2

end AcVerif.L1eFoldP
