import AcVerif.Proofs.PreScanBounds
/-!
# C19: the prefilter work of one call of the stepwise overlapping search

`ovlScanLoop` (AcVerif/PreScan.lean) is `ovlLoop` accumulating the extents of its prefilter
calls.  As in `scanLoop` the call at `at` is given the span `at..e` and the loop resumes at the
reported position (`i` for `.pos i`, `m.start` for `.mtch m`, `at + 1` when that is not beyond
`at`), and a `.none` answer ends the call.  `ovlScanLoop_le` is the loop invariant
`ovlScanLoop … at acc ≤ acc + scanBound L (e - at)` (`scanBound L n = n + L * (n - 1)`, `L` a bound
on the length of confirmed matches; `L = 0` for a prefilter that never confirms a match).

Unlike `findScan` there is no initial call outside the loop: a confirming prefilter is consulted
*inside* the loop, so for an arbitrary automaton record the `L`-slack is really there
(`Theorems/C19OvlScan.lean`).
-/
namespace AcVerif
variable {σ α : Type}
namespace ScanP

/-- loop invariant: the stretches still to come are bounded by `scanBound L (e - at)` -/
theorem ovlScanLoop_le (A : Aut σ α) (hay : List α) (s e : Nat) (he : e ≤ hay.length)
    (pre : Option (Prefilter α)) (L : Nat) (hok : LoopOk L pre hay e) (anch : Bool) :
    ∀ (n : Nat) (sid : σ) (at_ acc : Nat), e - at_ = n →
      ovlScanLoop A hay s e he pre anch sid at_ acc ≤ acc + scanBound L (e - at_) := by
  intro n
  induction n using Nat.strongRecOn with
  | _ n ih =>
    intro sid at_ acc hn
    have step : ∀ (sid' : σ) (acc' : Nat), acc' ≤ acc →
        at_ < e → ovlScanLoop A hay s e he pre anch sid' (at_ + 1) acc' ≤
          acc + scanBound L (e - at_) := by
      intro sid' acc' hacc hlt
      have := ih (e - (at_ + 1)) (by omega) sid' (at_ + 1) acc' rfl
      have hm := scanBound_mono L (show e - (at_ + 1) ≤ e - at_ by omega)
      omega
    rw [ovlScanLoop]
    split
    · rename_i hlt
      simp only
      split
      · split
        · exact Nat.le_add_right _ _
        · split
          · split
            · exact Nat.le_add_right _ _
            · exact step _ _ (Nat.le_refl _) hlt
          · cases pre with
            | none => exact step _ _ (Nat.le_refl _) hlt
            | some p =>
              simp only
              have hp := hok p rfl at_ (Nat.le_of_lt hlt)
              cases hc : p hay at_ e with
              | none =>
                simp only [Cand.intoOption, Cand.extent]
                have := le_scanBound L (e - at_)
                omega
              | pos i =>
                rw [hc] at hp
                simp only at hp
                simp only [Cand.intoOption, Cand.extent]
                split
                · rename_i hgt
                  refine Nat.le_trans (ih (e - i) (by omega) _ i (acc + (i - at_)) rfl) ?_
                  have hj := scanBound_jump L (show (i - at_) + (e - i) ≤ e - at_ by omega)
                  omega
                · rename_i hle
                  refine Nat.le_trans
                    (ih (e - (at_ + 1)) (by omega) _ (at_ + 1) (acc + (i - at_)) rfl) ?_
                  have hm := scanBound_mono L (show e - (at_ + 1) ≤ e - at_ by omega)
                  omega
              | mtch m =>
                rw [hc] at hp
                simp only at hp
                obtain ⟨hp1, hp2⟩ := hp
                simp only [Cand.intoOption, Cand.extent]
                split
                · rename_i hgt
                  refine Nat.le_trans
                    (ih (e - m.start) (by omega) _ m.start (acc + (m.stop - at_)) rfl) ?_
                  have hj := scanBound_overlap L (n := e - at_) (n' := e - m.start)
                    (x := m.stop - at_) (by omega) (by omega) (by omega)
                  omega
                · rename_i hle
                  refine Nat.le_trans
                    (ih (e - (at_ + 1)) (by omega) _ (at_ + 1) (acc + (m.stop - at_)) rfl) ?_
                  have hj := scanBound_overlap L (n := e - at_) (n' := e - (at_ + 1))
                    (x := m.stop - at_) (by omega) (by omega) (by omega)
                  omega
      · exact step _ _ (Nat.le_refl _) hlt
    · exact Nat.le_add_right _ _

/-- `tryOvlScan` case by case: whatever branch is taken, the call is either free or one run of
`ovlScanLoop` from `i.s`, `st.at_ + 1` or `st.at_` with an empty accumulator (and without
prefilter when the search is anchored) -/
theorem tryOvlScan_le_of (A : Aut σ α) (pre : Option (Prefilter α)) (i : Input α) (st : OState σ)
    (B : Nat)
    (h : i.s ≤ i.e → A.kind = .std →
      ∀ sid at_, (st.id = Option.none → at_ = i.s) → (st.id ≠ Option.none → st.at_ ≤ at_) →
        ovlScanLoop A i.hay i.s i.e i.valid.1 (if i.anch then Option.none else pre) i.anch
          sid at_ 0 ≤ B) :
    tryOvlScan A pre i st ≤ B := by
  unfold tryOvlScan
  split
  · exact Nat.zero_le _
  · rename_i hk
    have hk : A.kind = .std := by
      cases hk' : A.kind <;> simp [hk'] at hk ⊢
    split
    · exact Nat.zero_le _
    · rename_i hd
      have hse : i.s ≤ i.e := by
        simp only [Input.isDone, decide_eq_true_eq] at hd
        omega
      simp only
      split
      · rename_i hid
        split
        · exact Nat.zero_le _
        · split
          · exact Nat.zero_le _
          · exact h hse hk _ _ (fun _ => rfl) (fun hne => absurd hid hne)
      · rename_i sid hid
        split
        · split
          · exact Nat.zero_le _
          · exact h hse hk _ _ (fun h0 => by rw [hid] at h0; cases h0)
              (fun _ => Nat.le_succ _)
        · exact h hse hk _ _ (fun h0 => by rw [hid] at h0; cases h0)
            (fun _ => Nat.le_refl _)

/-! ## the states a call history goes through -/

/-- `ovlLoop` never moves `at` backwards (`CostP.ovlLoop_at_ge` without `DecidableEq`) -/
theorem ovlLoop_at_ge' (A : Aut σ α) (hay : List α) (s e : Nat)
    (he : e ≤ hay.length) (pre : Option (Prefilter α)) (anch : Bool) :
    ∀ (n : Nat) (sid : σ) (at_ : Nat), e - at_ ≤ n →
      at_ ≤ (ovlLoop A hay s e he pre anch sid at_).at_
  | 0, sid, at_, hn => by
    have h : ¬ at_ < e := by omega
    rw [ovlLoop, dif_neg h]; exact Nat.le_refl _
  | n + 1, sid, at_, hn => by
    by_cases h : at_ < e
    · rw [ovlLoop, dif_pos h]
      have ih := ovlLoop_at_ge' A hay s e he pre anch n
      have hn' : e - (at_ + 1) ≤ n := by omega
      have base : at_ ≤ at_ := Nat.le_refl _
      have key : ∀ (r : OState σ) (j : Nat), at_ < j → j ≤ r.at_ → at_ ≤ r.at_ := by
        intro r j hj hr; omega
      simp only []
      split
      · split
        · exact base
        · split
          · split
            · exact base
            · exact key _ _ (Nat.lt_succ_self _) (ih _ _ hn')
          · split
            · split
              · exact base
              · split
                · rename_i hi; exact key _ _ hi (ih _ _ (by omega))
                · exact key _ _ (Nat.lt_succ_self _) (ih _ _ hn')
            · exact key _ _ (Nat.lt_succ_self _) (ih _ _ hn')
      · exact key _ _ (Nat.lt_succ_self _) (ih _ _ hn')
    · rw [ovlLoop, dif_neg h]; exact Nat.le_refl _

end ScanP

/-- the side condition on the overlapping state: a state that has been through the loop
(`id ≠ none`) holds a position inside or after the span start.  True of `OState.start` and
preserved by every call (`OvlReach.step`). -/
def OvlReach (i : Input α) (st : OState σ) : Prop := st.id = Option.none ∨ i.s ≤ st.at_

namespace ScanP

theorem OvlReach.start (i : Input α) : OvlReach i (OState.start : OState σ) := Or.inl rfl

theorem OvlReach.clearMat {i : Input α} {st : OState σ} (h : OvlReach i st) :
    OvlReach i { st with mat := Option.none } := h

theorem ovlImp_reach (A : Aut σ α) (i : Input α) (pre : Option (Prefilter α)) (st st' : OState σ)
    (hr : OvlReach i st) (h : ovlImp A i pre st = .ok st') : OvlReach i st' := by
  have loop : ∀ sid at_, i.s ≤ at_ →
      OvlReach i (ovlLoop A i.hay i.s i.e i.valid.1 pre i.anch sid at_) := fun sid at_ hat =>
    Or.inr (Nat.le_trans hat (ovlLoop_at_ge' A i.hay i.s i.e i.valid.1 pre i.anch _ sid at_
      (Nat.le_refl _)))
  unfold ovlImp at h
  split at h
  · rename_i hid
    split at h
    · cases h
    · simp only at h
      split at h
      · injection h with h
        subst h
        exact Or.inl hid
      · injection h with h
        subst h
        exact loop _ _ (Nat.le_refl _)
  · rename_i sid hid
    have hat : i.s ≤ st.at_ := by
      rcases hr with h0 | h0
      · rw [hid] at h0; cases h0
      · exact h0
    split at h
    · simp only at h
      split at h
      · injection h with h
        subst h
        exact Or.inr hat
      · injection h with h
        subst h
        exact loop _ _ (Nat.le_succ_of_le hat)
    · injection h with h
      subst h
      exact loop _ _ hat

/-- every call keeps the side condition -/
theorem OvlReach.step (A : Aut σ α) (pre : Option (Prefilter α)) (i : Input α) (st st' : OState σ)
    (hr : OvlReach i st) (h : tryFindOverlappingFwd A pre i st = .ok st') : OvlReach i st' := by
  unfold tryFindOverlappingFwd at h
  simp only at h
  split at h
  · cases h
  · split at h
    · split at h
      · cases h
      · injection h with h
        subst h
        exact hr
    · split at h
      · exact ovlImp_reach A i _ _ _ (OvlReach.clearMat hr) h
      · exact ovlImp_reach A i _ _ _ (OvlReach.clearMat hr) h

/-- a bound on one call from every state satisfying the side condition bounds every entry of a
call history -/
theorem ovlCallsScan_forall_le (A : Aut σ α) (pre : Option (Prefilter α)) (i : Input α) (B : Nat)
    (hcall : ∀ st : OState σ, OvlReach i st → tryOvlScan A pre i st ≤ B) :
    ∀ (n : Nat) (st : OState σ), OvlReach i st → ∀ x ∈ ovlCallsScan A pre i n st, x ≤ B := by
  intro n
  induction n with
  | zero => intro st _ x hx; cases hx
  | succ n ih =>
    intro st hr x hx
    unfold ovlCallsScan at hx
    split at hx
    · cases hx
    · rename_i st' hst
      rcases List.mem_cons.1 hx with rfl | hx
      · exact hcall _ (OvlReach.clearMat hr)
      · exact ih st' (OvlReach.step A pre i st st' hr hst) x hx

end ScanP
end AcVerif
