import AcVerif.Proofs.ContigStep
import AcVerif.Proofs.ContigFoldSpec
import AcVerif.Proofs.DfaFoldRow
/-!
# L1e (fold) proofs, part 2: one `next_state` call of the contiguous NFA built from the NFA
compiled with `ascii_case_insensitive`

Port of the `FS`-dependent part of `Proofs/ContigStep.lean` to `FSf`: at a live state `s` the
lookup in the words at `newId s` is `follow N s b` (the byte classes are a congruence of `N`,
`follow_cong_VU_f`/`follow_cong_VA_f`), hence `M.nextState` on `newId s` mirrors `CNfa.nextState`
on `s`, hop by hop.  The layout / decoding lemmas (`StOK`, `decode_found`, `slice_state`, `shufOK`,
…) do not depend on how `N` was compiled and are re-used unchanged.
-/
namespace AcVerif.L1eFoldP
open AcVerif AcVerif.CNfa AcVerif.L1cP AcVerif.L1dP AcVerif.L1eP AcVerif.L1cFoldP AcVerif.L1dFoldP

section
variable {k : MatchKind} {Q : PatSet UInt8} {L : List (List UInt8)} {N : CNfa}

theorem _root_.AcVerif.L1eP.Lv.lt_size_f (h : FSf k Q L N) {s : Nat} (hv : Lv L s) : s < N.size := by
  rcases hv with hv | hv
  · exact hv.lt_size_f h
  · exact hv.lt_size_f h

theorem _root_.AcVerif.L1eP.Lv.ne_fail_f (h : FSf k Q L N) {s : Nat} (hv : Lv L s) : s ≠ 1 := by
  rcases hv with hv | hv
  · exact (hv.ne_sa_f h).2
  · exact (hv.ne_su_f h).2

theorem _root_.AcVerif.L1eP.Lv.cong_f (h : FSf k Q L N) (bc : Bool) {s : Nat} (hv : Lv L s) {b b' : UInt8}
    (hc : clsOf N bc b = clsOf N bc b') : follow N s b = follow N s b' := by
  rcases hv with hv | hv
  · exact follow_cong_VU_f h (classOK_clsOf N bc) hv hc
  · exact follow_cong_VA_f h (classOK_clsOf N bc) hv hc

theorem _root_.AcVerif.L1eP.Lv.dense_or_nofail_f (h : FSf k Q L N) (hX : FX L N) {s : Nat} (hv : Lv L s) :
    127 < (N.getD s {}).trans.length ∨ ∀ x ∈ (N.getD s {}).trans, x.2 ≠ FAIL := by
  have hdead : 127 < (N.getD DEAD {}).trans.length := by
    have := length_of_full (N.getD DEAD {}).trans (fun b =>
      ⟨DEAD, mem_of_lookup (by rw [← follow_eq]; exact h.goto_dead b) (by simp [DEAD, FAIL])⟩)
    omega
  have hsu : 127 < (N.getD SU {}).trans.length := by
    have := length_of_full _ hX.fullSU; omega
  have hsa : 127 < (N.getD SA {}).trans.length := by
    have := length_of_full _ hX.fullSA; omega
  have hnode : ∀ u, (u = [] ∨ u ∈ L) → 127 < (N.getD (nu L u) {}).trans.length ∨
      ∀ x ∈ (N.getD (nu L u) {}).trans, x.2 ≠ FAIL := by
    intro u hu
    rcases hu with e | hm
    · subst e; rw [nu_nil]; exact Or.inl hsu
    · exact Or.inr (hX.nofail u hm)
  rcases hv with hv | hv
  · rcases hv with e | ⟨u, hu, e⟩
    · subst e; exact Or.inl hdead
    · subst e; exact hnode u hu
  · rcases hv with e | e | ⟨u, hu, e⟩
    · subst e; exact Or.inl hdead
    · subst e; exact Or.inl hsa
    · subst e; exact hnode u (Or.inr hu)

variable (dd : Nat) (bc hasPre : Bool)

theorem stOK_live_f (h : FSf k Q L N) (hX : FX L N) {s : Nat} (hv : Lv L s) :
    StOK (clsOf N bc) (ncOf N bc) (cNewId N dd bc) (N.getD s {})
      (decide ((storedDepths N).getD s 0 < dd)) :=
  have hS := shufOK N h.four_le_size
  { sorted := hX.sorted s
    cong := fun b b' hc => by rw [← follow_eq, ← follow_eq]; exact hv.cong_f h bc hc
    cls_lt := (classOK_clsOf N bc).lt
    al_le := ncOf_le N bc
    dense_or_nofail := by
      rcases hv.dense_or_nofail_f h hX with hd | hd
      · exact Or.inl (Or.inr hd)
      · exact Or.inr hd
    id_fail := cNewId_fail hS dd bc
    id_ne := fun t ht => cNewId_ne_one hS dd bc ht }

/-- the words at `newId s` -/
theorem live_slice_f (h : FSf k Q L N) {s : Nat} (hv : Lv L s) :
    ∀ j, j < (wOf N dd bc s).length →
      (fun i => (cRepr N dd bc).getD i 0) (cNewId N dd bc s + j) = (wOf N dd bc s).getD j 0 :=
  fun _ hj => slice_state (shufOK N h.four_le_size) dd bc (hv.lt_size_f h) (hv.ne_fail_f h) hj

/-- the transition lookup at a live state -/
theorem found_live_f (h : FSf k Q L N) (hX : FX L N) {s : Nat} (hv : Lv L s) (b : UInt8) :
    foundW (fun i => (cRepr N dd bc).getD i 0) (clsOf N bc b) (cNewId N dd bc s) =
      if follow N s b = FAIL then none else some (cNewId N dd bc (follow N s b)) := by
  have := decode_found (rd := fun i => (cRepr N dd bc).getD i 0) (o := cNewId N dd bc s)
    (stOK_live_f dd bc h hX hv) (live_slice_f dd bc h hv) b
  rw [← follow_eq] at this
  exact this

/-- the failure link at a live state -/
theorem fail_live_f (h : FSf k Q L N) {s : Nat} (hv : Lv L s) :
    (cRepr N dd bc).getD (cNewId N dd bc s + 1) 0 = cNewId N dd bc (N.getD s {}).fail :=
  decode_fail (rd := fun i => (cRepr N dd bc).getD i 0) (o := cNewId N dd bc s)
    (classOf := clsOf N bc) (al := ncOf N bc) (newId := cNewId N dd bc) (st := N.getD s {})
    (fd := decide ((storedDepths N).getD s 0 < dd)) (live_slice_f dd bc h hv)

/-- `M.nextState` mirrors `CNfa.nextState`, with the same fuel -/
theorem step_same_f (h : FSf k Q L N) (hX : FX L N) (anch : Bool) (b : UInt8) :
    ∀ (fuel s hp x : Nat), LvA L anch s →
      (cBuild N dd bc hasPre).nextState anch fuel (cNewId N dd bc s) b (x, hp) =
        (cNewId N dd bc (nextState N anch fuel s b hp).1, (nextState N anch fuel s b hp).2) := by
  have hS := shufOK N h.four_le_size
  intro fuel
  induction fuel with
  | zero => intro s hp x _; rfl
  | succ fuel ih =>
    intro s hp x hv
    rw [nextState_succ]
    show (match foundW (fun i => (cRepr N dd bc).getD i 0) (clsOf N bc b) (cNewId N dd bc s) with
      | some next => (next, hp)
      | none => if anch = true then (DEAD, hp)
        else (cBuild N dd bc hasPre).nextState anch fuel
          ((cRepr N dd bc).getD (cNewId N dd bc s + 1) 0) b (0, hp + 1)) = _
    rw [found_live_f dd bc h hX hv.lv b, fail_live_f dd bc h hv.lv]
    by_cases hf : follow N s b = FAIL
    · rw [if_pos hf]
      cases anch with
      | true =>
        rw [nextState_anch_fail N fuel s b hp hf]
        show (DEAD, hp) = (cNewId N dd bc DEAD, hp)
        rw [show DEAD = 0 from rfl, cNewId_dead hS dd bc]
      | false =>
        rw [nextState_go N fuel s b hp hf]
        simp only [Bool.false_eq_true, if_false]
        apply ih
        have hv' : VU L s := hv
        rcases hv' with e | ⟨u, hu, e⟩
        · subst e; rw [h.goto_dead] at hf; cases hf
        · subst e
          rcases hu with e | hm
          · subst e; rw [nu_nil] at hf; exact absurd hf (follow_su_ne_fail_f h b)
          · exact VU_fail_f h hm
    · rw [if_neg hf, nextState_stop N anch fuel s b hp hf]

/-- unanchored `next_state` at a live state does not depend on the fuel, once it is large -/
theorem nextState_fuel_f (h : FSf k Q L N) {s : Nat} (hv : VU L s) (b : UInt8) (f1 f2 hp : Nat)
    (h1 : N.size ≤ f1) (h2 : N.size ≤ f2) :
    nextState N false f1 s b hp = nextState N false f2 s b hp := by
  rcases hv with e | ⟨u, hu, e⟩
  · subst e
    rw [nextState_dead N false _ b hp (h.goto_dead b), nextState_dead N false _ b hp (h.goto_dead b)]
  · subst e
    have hl := h.len_lt_size hu
    rw [run_step_f h b u.length u (Nat.le_refl _) hu f1 hp (by omega),
      run_step_f h b u.length u (Nat.le_refl _) hu f2 hp (by omega)]

/-- one step of the automaton records -/
theorem step_live_f (h : FSf k Q L N) (hX : FX L N) (anch : Bool) (b : UInt8) {s : Nat}
    (hv : LvA L anch s) :
    (cBuild N dd bc hasPre).nextState anch ((cBuild N dd bc hasPre).repr.size + 1) (cNewId N dd bc s) b (0, 0) =
      (cNewId N dd bc (nextState N anch (N.size + 1) s b 0).1, (nextState N anch (N.size + 1) s b 0).2) := by
  rw [step_same_f dd bc hasPre h hX anch b _ s 0 0 hv]
  have hsz : N.size ≤ (cBuild N dd bc hasPre).repr.size + 1 := size_le_repr N dd bc
  cases anch with
  | true => rw [nextState_fuel_anch N s b _ N.size 0]
  | false => rw [nextState_fuel_f h hv b _ (N.size + 1) 0 (by omega) (by omega)]

end

end AcVerif.L1eFoldP
