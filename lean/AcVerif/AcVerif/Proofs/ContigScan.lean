import AcVerif.Proofs.ContigDefs
namespace AcVerif.L1eP
open AcVerif AcVerif.CNfa

/-! # L1e proofs: the class scan of a sparse state finds the first real slot -/

theorem u32Len_zero : u32Len 0 = 0 := by decide
theorem u32Len_one : u32Len 1 = 1 := by decide
theorem u32Len_two : u32Len 2 = 1 := by decide
theorem u32Len_three : u32Len 3 = 1 := by decide
theorem u32Len_add_four (n : Nat) : u32Len (n + 4) = u32Len n + 1 := by
  unfold u32Len
  rw [Nat.add_mod_right, Nat.add_div_right _ (by decide : 0 < 4)]
  split <;> rfl

theorem chunks_nil (fuel : Nat) : writeState.chunks [] fuel = [] := by
  cases fuel with
  | zero => exact writeState.chunks.eq_1 []
  | succ f => exact writeState.chunks.eq_2 (f + 1) (by omega)

theorem chunks_cons (a : Nat) (l : List Nat) (fuel : Nat) :
    writeState.chunks (a :: l) (fuel + 1) =
      packChunk (List.take 4 (a :: l) ++
        List.replicate (4 - (List.take 4 (a :: l)).length) ((List.take 4 (a :: l)).getLastD 0)) ::
        writeState.chunks (List.drop 4 (a :: l)) fuel :=
  writeState.chunks.eq_3 (a :: l) fuel (by simp)

theorem chunks_one (a : Nat) (fuel : Nat) :
    writeState.chunks [a] (fuel + 1) = [a + 256 * a + 65536 * a + 16777216 * a] := by
  rw [chunks_cons]; simp [packChunk, chunks_nil]

theorem chunks_two (a b : Nat) (fuel : Nat) :
    writeState.chunks [a, b] (fuel + 1) = [a + 256 * b + 65536 * b + 16777216 * b] := by
  rw [chunks_cons]; simp [packChunk, chunks_nil]

theorem chunks_three (a b c : Nat) (fuel : Nat) :
    writeState.chunks [a, b, c] (fuel + 1) = [a + 256 * b + 65536 * c + 16777216 * c] := by
  rw [chunks_cons]; simp [packChunk, chunks_nil]

theorem chunks_four (a b c d : Nat) (l : List Nat) (fuel : Nat) :
    writeState.chunks (a :: b :: c :: d :: l) (fuel + 1) =
      (a + 256 * b + 65536 * c + 16777216 * d) :: writeState.chunks l fuel := by
  rw [chunks_cons]; simp [packChunk]

/-- number of class words of a sparse state -/
theorem chunks_length (cl : List Nat) (fuel : Nat) (hf : cl.length < fuel) :
    (writeState.chunks cl fuel).length = u32Len cl.length := by
  induction fuel generalizing cl with
  | zero => omega
  | succ f ih =>
    match cl, hf with
    | [], _ => simp [chunks_nil, u32Len_zero]
    | [a], _ => simp [chunks_one, u32Len_one]
    | [a, b], _ => simp [chunks_two, u32Len_two]
    | [a, b, c], _ => simp [chunks_three, u32Len_three]
    | a :: b :: c :: d :: l, hf =>
      rw [chunks_four]
      simp only [List.length_cons] at hf ⊢
      rw [u32Len_add_four, ih l (by omega)]

theorem sparseScan_zero (w : Nat → Nat) (cls base toff : Nat) :
    sparseScan w cls base toff 0 = none := by
  simp [sparseScan]

theorem sparseScan_succ (w : Nat → Nat) (cls base toff m : Nat) :
    sparseScan w cls base toff (m + 1) =
      if w base % 256 == cls then some (w toff)
      else if (w base / 256) % 256 == cls then some (w (toff + 1))
      else if (w base / 65536) % 256 == cls then some (w (toff + 2))
      else if (w base / 16777216) % 256 == cls then some (w (toff + 3))
      else sparseScan w cls (base + 1) (toff + 4) m := by
  have hfun : ((fun i =>
      let chunk := w (base + i)
      if chunk % 256 == cls then some (w (toff + i * 4))
      else if (chunk / 256) % 256 == cls then some (w (toff + i * 4 + 1))
      else if (chunk / 65536) % 256 == cls then some (w (toff + i * 4 + 2))
      else if (chunk / 16777216) % 256 == cls then some (w (toff + i * 4 + 3))
      else none) ∘ Nat.succ) = fun i =>
      let chunk := w (base + 1 + i)
      if chunk % 256 == cls then some (w (toff + 4 + i * 4))
      else if (chunk / 256) % 256 == cls then some (w (toff + 4 + i * 4 + 1))
      else if (chunk / 65536) % 256 == cls then some (w (toff + 4 + i * 4 + 2))
      else if (chunk / 16777216) % 256 == cls then some (w (toff + 4 + i * 4 + 3))
      else none := by
    funext i
    have e1 : base + i.succ = base + 1 + i := by omega
    have e2 : toff + i.succ * 4 = toff + 4 + i * 4 := by omega
    simp only [Function.comp, e1, e2]
  unfold sparseScan
  rw [List.range_succ_eq_map, List.findSome?_cons, List.findSome?_map, hfun]
  simp only [Nat.add_zero, Nat.zero_mul]
  split <;> rename_i h <;> (repeat' split at h) <;> simp_all

theorem bytes_of_word (a b c d : Nat) (ha : a < 256) (hb : b < 256) (hc : c < 256) (hd : d < 256) :
    (a + 256 * b + 65536 * c + 16777216 * d) % 256 = a ∧
    (a + 256 * b + 65536 * c + 16777216 * d) / 256 % 256 = b ∧
    (a + 256 * b + 65536 * c + 16777216 * d) / 65536 % 256 = c ∧
    (a + 256 * b + 65536 * c + 16777216 * d) / 16777216 % 256 = d := by
  omega

/-- the scan over the packed class words finds the FIRST slot whose class is `cls`, and that slot
is a real one (never a padding slot) -/
theorem sparseScan_spec (w : Nat → Nat) (cls base toff : Nat) (cl : List Nat) (fuel : Nat)
    (hf : cl.length < fuel) (hcl : ∀ c ∈ cl, c < 256)
    (hw : ∀ i, i < u32Len cl.length → w (base + i) = (writeState.chunks cl fuel).getD i 0) :
    sparseScan w cls base toff (u32Len cl.length) =
      (cl.findIdx? (· == cls)).map fun j => w (toff + j) := by
  induction fuel generalizing cl base toff with
  | zero => omega
  | succ f ih =>
    match cl, hf, hcl, hw with
    | [], _, _, _ => simp [u32Len_zero, sparseScan_zero]
    | [a], _, hcl, hw =>
      have ha : a < 256 := hcl a (by simp)
      have h0 := hw 0 (by simp [u32Len_one])
      rw [chunks_one] at h0
      simp only [Nat.add_zero, List.getD_cons_zero] at h0
      obtain ⟨e0, e1, e2, e3⟩ := bytes_of_word a a a a ha ha ha ha
      simp only [List.length_singleton, u32Len_one, sparseScan_succ, sparseScan_zero, h0,
        e0, e1, e2, e3, List.findIdx?_cons, List.findIdx?_nil]
      by_cases h : a = cls <;> simp [h]
    | [a, b], _, hcl, hw =>
      have ha : a < 256 := hcl a (by simp)
      have hb : b < 256 := hcl b (by simp)
      have h0 := hw 0 (by simp [u32Len_two])
      rw [chunks_two] at h0
      simp only [Nat.add_zero, List.getD_cons_zero] at h0
      obtain ⟨e0, e1, e2, e3⟩ := bytes_of_word a b b b ha hb hb hb
      simp only [List.length_cons, List.length_nil, Nat.zero_add, Nat.reduceAdd, u32Len_two,
        sparseScan_succ, sparseScan_zero, h0,
        e0, e1, e2, e3, List.findIdx?_cons, List.findIdx?_nil]
      by_cases h : a = cls <;> by_cases h' : b = cls <;> simp [h, h']
    | [a, b, c], _, hcl, hw =>
      have ha : a < 256 := hcl a (by simp)
      have hb : b < 256 := hcl b (by simp)
      have hc : c < 256 := hcl c (by simp)
      have h0 := hw 0 (by simp [u32Len_three])
      rw [chunks_three] at h0
      simp only [Nat.add_zero, List.getD_cons_zero] at h0
      obtain ⟨e0, e1, e2, e3⟩ := bytes_of_word a b c c ha hb hc hc
      simp only [List.length_cons, List.length_nil, Nat.zero_add, Nat.reduceAdd, u32Len_three,
        sparseScan_succ, sparseScan_zero, h0,
        e0, e1, e2, e3, List.findIdx?_cons, List.findIdx?_nil]
      by_cases h : a = cls <;> by_cases h' : b = cls <;> by_cases h'' : c = cls <;>
        simp [h, h', h'']
    | a :: b :: c :: d :: l, hf, hcl, hw =>
      have ha : a < 256 := hcl a (by simp)
      have hb : b < 256 := hcl b (by simp)
      have hc : c < 256 := hcl c (by simp)
      have hd : d < 256 := hcl d (by simp)
      simp only [List.length_cons] at hf hw ⊢
      rw [u32Len_add_four] at hw ⊢
      have h0 := hw 0 (by omega)
      rw [chunks_four] at h0 hw
      simp only [Nat.add_zero, List.getD_cons_zero] at h0
      have hrec := ih (base + 1) (toff + 4) l (by omega)
        (fun x hx => hcl x (by simp [hx]))
        (fun i hi => by
          have := hw (i + 1) (by omega)
          rw [List.getD_cons_succ] at this
          rw [← this]; congr 1; omega)
      obtain ⟨e0, e1, e2, e3⟩ := bytes_of_word a b c d ha hb hc hd
      rw [sparseScan_succ, hrec]
      simp only [h0, e0, e1, e2, e3, List.findIdx?_cons]
      by_cases h : a = cls <;> by_cases h' : b = cls <;> by_cases h'' : c = cls <;>
        by_cases h''' : d = cls <;>
        simp [h, h', h'', h''', Option.map_map, Function.comp_def, Nat.add_assoc, Nat.add_comm 4]


end AcVerif.L1eP
