import AcVerif.Proofs.LfReduce
import AcVerif.Proofs.Common
/-!
# Leftmost semantics: `tryFindFwd` on the ideal leftmost automaton
-/
namespace AcVerif.LmP
open AcVerif
set_option linter.unusedSectionVars false
variable {α : Type} [DecidableEq α]

theorem start_ideal {k : MatchKind} {P : List (List α)} {sk : StartKind} {anch : Bool}
    (h : supportsAnch sk anch) : (ideal k P sk false).start anch = some (.at []) := by
  rcases h with rfl | ⟨rfl, rfl⟩ | ⟨rfl, rfl⟩
  · cases anch <;> rfl
  · rfl
  · rfl

theorem findImp_ideal (k : MatchKind) (hk : k = .ll ∨ k = .lf) (P : List (List α))
    (sk : StartKind) (i : Input α) (earliest : Bool) (h : supportsAnch sk i.anch) :
    findImp (ideal k P sk false) i none i.anch earliest =
      .ok (if (!(outLm (patSet k P) []).isEmpty && earliest) = true then
          mat0Q (patSet k P) (fun pid => (P.getD pid []).length) i.s
        else findQ (patSet k P) (fun pid => (P.getD pid []).length) i.s i.anch earliest [] i.s
          (mat0Q (patSet k P) (fun pid => (P.getD pid []).length) i.s)
          ((i.hay.take i.e).drop i.s)) := by
  unfold findImp
  rw [start_ideal h]
  simp only
  have hm : (ideal k P sk false).isMatch (.at []) = !(outLm (patSet k P) []).isEmpty := by
    rcases hk with rfl | rfl <;> simp [ideal, Ideal.out]
  have hout : (ideal k P sk false).mpats (.at []) = outLm (patSet k P) [] := by
    rcases hk with rfl | rfl <;> rfl
  have hpl : (ideal k P sk false).patLen = fun pid => (P.getD pid []).length := rfl
  have hmat : (if (ideal k P sk false).isMatch (.at []) = true then
        some (getMatch (ideal k P sk false) (.at []) 0 i.s) else none) =
      mat0Q (patSet k P) (fun pid => (P.getD pid []).length) i.s := by
    rw [hm]
    simp only [getMatch, hout, hpl, mat0Q]
    cases outLm (patSet k P) [] <;> simp
  rw [hmat, hm, findLoop_eq_findS, findS_ideal_eq k hk]
  split <;> rfl

theorem tryFind_ideal (k : MatchKind) (hk : k = .ll ∨ k = .lf) (P : List (List α))
    (sk : StartKind) (i : Input α) (h : supportsAnch sk i.anch) (hse : i.s ≤ i.e) :
    tryFindFwd (ideal k P sk false) none i =
      .ok (if (!(outLm (patSet k P) []).isEmpty && i.earliest) = true then
          mat0Q (patSet k P) (fun pid => (P.getD pid []).length) i.s
        else findQ (patSet k P) (fun pid => (P.getD pid []).length) i.s i.anch i.earliest [] i.s
          (mat0Q (patSet k P) (fun pid => (P.getD pid []).length) i.s)
          ((i.hay.take i.e).drop i.s)) := by
  unfold tryFindFwd
  have hd : i.isDone = false := by simp [Input.isDone]; omega
  have hkind : ((ideal k P sk false).kind == MatchKind.std || i.earliest) = i.earliest := by
    rcases hk with rfl | rfl <;> simp [ideal]
  simp only [hd, hkind, Bool.false_eq_true, if_false]
  have := findImp_ideal k hk P sk i i.earliest h
  cases ha : i.anch with
  | true => rw [ha] at this; simpa using this
  | false => rw [ha] at this; simpa using this

/-- the core statement: the result is an admissible kept occurrence or `none`, and in
non-earliest mode the leftmost-longest-best kept occurrence -/
theorem tryFind_core (k : MatchKind) (hk : k = .ll ∨ k = .lf) (P : List (List α))
    (sk : StartKind) (i : Input α) (h : supportsAnch sk i.anch) (hse : i.s ≤ i.e) :
    ∃ r, tryFindFwd (ideal k P sk false) none i = .ok r ∧
      OccOrNone (patSet k P) i.s i.anch ((i.hay.take i.e).drop i.s) r ∧
      (i.earliest = false → BestIn (patSet k P) i.s i.anch ((i.hay.take i.e).drop i.s) r) := by
  refine ⟨_, tryFind_ideal k hk P sk i h hse, ?_⟩
  have hI := idsInc_patSet k P
  have hpl := plen_patSet (k := k) (P := P)
  have h0 := best_init (plen := fun pid => (P.getD pid []).length) hI hpl i.s i.anch
  split
  · rename_i hc
    simp only [Bool.and_eq_true] at hc
    refine ⟨by simpa using h0.occOrNone.append ((i.hay.take i.e).drop i.s), ?_⟩
    intro he; rw [he] at hc; exact absurd hc.2 (by simp)
  · cases ha : i.anch with
    | true =>
      rw [ha] at h0
      have := findQ_anch (plen := fun pid => (P.getD pid []).length) hI hpl i.s i.earliest ((i.hay.take i.e).drop i.s) [] _ h0
      simpa using this
    | false =>
      rw [ha] at h0
      have := findQ_unanch (plen := fun pid => (P.getD pid []).length) hI hpl i.s i.earliest ((i.hay.take i.e).drop i.s) [] _
        (cover_nil _) h0
      simpa [lsp] using this

/-- a done input (`s > e`) has no occurrence and yields `none` (when the requested anchoring
mode is supported: the start state is asked for first) -/
theorem tryFind_done {σ : Type} (A : Aut σ α) (i : Input α) (h : i.e < i.s) {q0 : σ}
    (hq0 : A.start i.anch = some q0) :
    tryFindFwd A none i = .ok none := by
  unfold tryFindFwd
  simp [Input.isDone, h, hq0]

theorem no_occ_of_done {P : List (List α)} {hay : List α} {s e : Nat} (h : e < s) (m : Mat) :
    ¬ IsOcc P hay s e m := by
  rintro ⟨p, _, h1, h2, h3, _⟩
  omega

/-- non-earliest leftmost-longest search -/
theorem find_ll (P : List (List α)) (sk : StartKind) (i : Input α) (he : i.earliest = false)
    (h : supportsAnch sk i.anch) :
    ∃ r, tryFindFwd (ideal .ll P sk false) none i = .ok r ∧
      IsFind .ll P i.hay i.s i.e i.anch r := by
  by_cases hse : i.s ≤ i.e
  · obtain ⟨r, h1, _, h3⟩ := tryFind_core .ll (Or.inl rfl) P sk i h hse
    exact ⟨r, h1, isFind_ll_of_best (isBestQ_of_bestIn i.valid.1 hse (h3 he))⟩
  · exact ⟨none, tryFind_done _ i (by omega) (start_ideal h), fun m hm => no_occ_of_done (by omega) m hm.1⟩

/-- non-earliest leftmost-first search -/
theorem find_lf (P : List (List α)) (sk : StartKind) (i : Input α) (he : i.earliest = false)
    (h : supportsAnch sk i.anch) :
    ∃ r, tryFindFwd (ideal .lf P sk false) none i = .ok r ∧
      IsFind .lf P i.hay i.s i.e i.anch r := by
  by_cases hse : i.s ≤ i.e
  · obtain ⟨r, h1, _, h3⟩ := tryFind_core .lf (Or.inr rfl) P sk i h hse
    exact ⟨r, h1, isFind_lf_of_best (isBestQ_of_bestIn i.valid.1 hse (h3 he))⟩
  · exact ⟨none, tryFind_done _ i (by omega) (start_ideal h), fun m hm => no_occ_of_done (by omega) m hm.1⟩

theorem isOccA_of_admQ {k : MatchKind} {P : List (List α)} {hay : List α} {s e : Nat}
    {anch : Bool} {m : Mat} (h : AdmQ (patSet k P) hay s e anch m) : IsOccA P hay s e anch m := by
  obtain ⟨⟨q, hq, hpid, hr⟩, ha⟩ := h
  exact ⟨⟨q.1, by rw [← hpid]; exact mem_patSet hq, hr⟩, ha⟩

/-- any mode: a reported match is a genuine admissible occurrence -/
theorem find_isOcc (k : MatchKind) (hk : k = .ll ∨ k = .lf) (P : List (List α))
    (sk : StartKind) (i : Input α) (h : supportsAnch sk i.anch) :
    ∃ r, tryFindFwd (ideal k P sk false) none i = .ok r ∧
      ∀ m, r = some m → IsOccA P i.hay i.s i.e i.anch m := by
  by_cases hse : i.s ≤ i.e
  · obtain ⟨r, h1, h2, _⟩ := tryFind_core k hk P sk i h hse
    exact ⟨r, h1, fun m hm => isOccA_of_admQ (occOrNone_adm i.valid.1 hse h2 m hm)⟩
  · exact ⟨none, tryFind_done _ i (by omega) (start_ideal h), by simp⟩

end AcVerif.LmP
