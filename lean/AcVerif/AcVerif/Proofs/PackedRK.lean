import AcVerif.Proofs.PackedPatterns
/-!
# Packed searchers: Rabin-Karp (helpers for C06)

* the rolling hash is the direct hash of the current window (`rk_roll`, a ring
  identity in `UInt64`);
* the hash buckets are `order` filtered by bucket index (`foldl_modify_getD`);
* at an offset whose window hash is known, scanning the bucket yields `bestAt`
  (`bucket_find`): every pattern occurring there has the window's hash;
* hence `findAt` is a left-to-right scan (`findAt_scan`).
-/
namespace AcVerif
namespace PackedP

/-! ## the rolling hash -/

theorem shl1 (h : UInt64) : h <<< 1 = h * 2 := by
  apply UInt64.toNat_inj.1
  rw [UInt64.toNat_shiftLeft, UInt64.toNat_mul]
  simp [Nat.shiftLeft_eq]

/-- `2^k` in `UInt64` -/
def p2 : Nat → UInt64
  | 0 => 1
  | k + 1 => p2 k * 2

theorem h2p_eq (k : Nat) (a : UInt64) :
    (List.range k).foldl (fun (h : UInt64) _ => h <<< 1) a = a * p2 k := by
  induction k with
  | zero => simp [p2]
  | succ k ih =>
    rw [List.range_succ, List.foldl_append, ih]
    simp only [List.foldl_cons, List.foldl_nil, shl1, p2]
    grind

theorem rkFold_eq (bs : PBytes) (h0 : UInt64) :
    bs.foldl (fun (h : UInt64) (b : UInt8) => (h <<< 1) + b.toUInt64) h0 =
      h0 * p2 bs.length + bs.foldl (fun (h : UInt64) (b : UInt8) => (h <<< 1) + b.toUInt64) 0 := by
  induction bs generalizing h0 with
  | nil => simp [p2]
  | cons b bs ih =>
    simp only [List.foldl_cons, List.length_cons, p2]
    rw [ih, ih ((0 : UInt64) <<< 1 + b.toUInt64)]
    simp only [shl1]
    grind

/-- rolling the hash of `x :: w` to the hash of `w ++ [y]` -/
theorem rk_roll (x y : UInt8) (w : PBytes) :
    rkUpdate (p2 w.length) (rkHash (x :: w)) x y = rkHash (w ++ [y]) := by
  unfold rkUpdate rkHash
  rw [List.foldl_append, List.foldl_cons, rkFold_eq]
  simp only [List.foldl_cons, List.foldl_nil, shl1]
  grind

/-! ## bucket tables built by `modify … (· ++ [x])` -/

theorem getD_modify_append {β : Type} (bs : List (List β)) (i b : Nat) (x : β) :
    (bs.modify i (· ++ [x])).getD b [] =
      if i = b ∧ b < bs.length then bs.getD b [] ++ [x] else bs.getD b [] := by
  rw [List.getD_eq_getElem?_getD, List.getD_eq_getElem?_getD, List.getElem?_modify]
  rcases Nat.lt_or_ge b bs.length with h | h
  · rw [List.getElem?_eq_getElem h]
    by_cases hib : i = b
    · simp [hib, h]
    · simp [hib]
  · rw [List.getElem?_eq_none h]
    simp [Nat.not_lt.2 h]

theorem foldl_modify_length {ι β : Type} (g : ι → Nat) (e : ι → β) (l : List ι)
    (bs0 : List (List β)) :
    (l.foldl (fun bs x => bs.modify (g x) (· ++ [e x])) bs0).length = bs0.length := by
  induction l generalizing bs0 with
  | nil => rfl
  | cons y ys ih => rw [List.foldl_cons, ih, List.length_modify]

theorem foldl_modify_getD {ι β : Type} (g : ι → Nat) (e : ι → β) (l : List ι)
    (bs0 : List (List β)) (b : Nat) (hb : b < bs0.length) :
    (l.foldl (fun bs x => bs.modify (g x) (· ++ [e x])) bs0).getD b [] =
      bs0.getD b [] ++ (l.filter (fun x => g x == b)).map e := by
  induction l generalizing bs0 with
  | nil => simp
  | cons y ys ih =>
    rw [List.foldl_cons, ih _ (by rw [List.length_modify]; exact hb), getD_modify_append,
      List.filter_cons]
    by_cases hy : g y = b
    · simp [hy, hb]
    · simp [hy]

/-! ## the searcher -/

variable (kind : PKind) (pats : List PBytes)

/-- the hash of pattern `id` as stored in the table -/
def hOf (id : Nat) : UInt64 :=
  rkHash ((pats.getD id []).take (PPatterns.new kind pats).minLen)

theorem rk_pats : (RabinKarp.new (PPatterns.new kind pats)).pats = PPatterns.new kind pats := rfl
theorem rk_hashLen :
    (RabinKarp.new (PPatterns.new kind pats)).hashLen = (PPatterns.new kind pats).minLen := rfl

theorem rk_hash2pow : (RabinKarp.new (PPatterns.new kind pats)).hash2pow =
    p2 ((PPatterns.new kind pats).minLen - 1) := by
  show (List.range ((PPatterns.new kind pats).minLen - 1)).foldl
    (fun (h : UInt64) _ => h <<< 1) 1 = _
  rw [h2p_eq]; grind

theorem rk_buckets (b : Nat) (hb : b < 64) :
    (RabinKarp.new (PPatterns.new kind pats)).buckets.getD b [] =
      ((PPatterns.new kind pats).order.filter (fun id => (hOf kind pats id % 64).toNat == b)).map
        (fun id => (hOf kind pats id, id)) := by
  show ((PPatterns.new kind pats).order.foldl (fun bs id =>
      bs.modify (hOf kind pats id % 64).toNat (· ++ [(hOf kind pats id, id)]))
      (List.replicate 64 [])).getD b [] = _
  rw [foldl_modify_getD (fun id => (hOf kind pats id % 64).toNat)
    (fun id => (hOf kind pats id, id)) _ _ b (by simpa using hb)]
  rw [List.getD_eq_getElem?_getD, List.getElem?_replicate]
  simp [hb]

/-- the Rabin-Karp searcher of a pattern list -/
abbrev rkOf : RabinKarp := RabinKarp.new (PPatterns.new kind pats)

theorem take_eq_of_prefix {α : Type} (p l : List α) (k : Nat) (h : p <+: l) (hk : k ≤ p.length) :
    p.take k = l.take k := by
  obtain ⟨t, rfl⟩ := h
  rw [List.take_append_of_le_length hk]

theorem mod64_lt (h : UInt64) : (h % 64).toNat < 64 := by
  rw [UInt64.toNat_mod]
  exact Nat.mod_lt _ (by decide)

/-- with the window hash known, scanning the hash bucket finds the first verified pattern of `order` -/
theorem bucket_find (hay : PBytes) (at_ : Nat) (hash : UInt64)
    (hh : hash = rkHash ((hay.drop at_).take (PPatterns.new kind pats).minLen)) :
    ((rkOf kind pats).buckets.getD (hash % 64).toNat []).findSome?
      (fun (ph, pid) =>
        if ph == hash && isPrefixAt ((rkOf kind pats).pats.get pid) hay at_ then
          some ({ pid := pid, start := at_, stop := at_ + ((rkOf kind pats).pats.get pid).length } : Mat)
        else none) = bestAt (PPatterns.new kind pats) hay at_ := by
  unfold rkOf
  rw [rk_buckets kind pats _ (mod64_lt hash), List.findSome?_map, findSome?_filter']
  unfold bestAt
  apply findSome?_congr
  intro id hid
  have hlt := (mem_order kind pats id).1 hid
  simp only [Function.comp, rk_pats, new_get, vf]
  by_cases hpre : isPrefixAt (pats.getD id []) hay at_ = true
  case neg =>
    have hf : isPrefixAt (pats.getD id []) hay at_ = false := by simpa using hpre
    simp only [hf]; simp
  case pos =>
    have hpre' : pats.getD id [] <+: hay.drop at_ := by
      unfold isPrefixAt at hpre
      exact List.isPrefixOf_iff_prefix.1 hpre
    have hEq : hOf kind pats id = hash := by
      unfold hOf
      rw [hh, take_eq_of_prefix _ _ _ hpre' (minLen_le kind pats id hlt)]
    simp only [hpre, hEq]; simp

theorem bestAt_start (p : PPatterns) (hay : PBytes) (pos : Nat) (m : Mat)
    (h : bestAt p hay pos = some m) : m.start = pos := by
  unfold bestAt at h
  obtain ⟨a, _, ha⟩ := List.exists_of_findSome?_eq_some h
  rw [vf_some_eq _ _ _ _ _ ha]

/-- the outcome of scanning offsets `lo, lo+1, …` of `hay` (offsets where `k` bytes do not fit excluded) -/
def ScanRes (p : PPatterns) (hay : PBytes) (lo k : Nat) (r : Option Mat) : Prop :=
  match r with
  | none => ∀ pos, lo ≤ pos → pos + k ≤ hay.length → bestAt p hay pos = none
  | some m => lo ≤ m.start ∧ bestAt p hay m.start = some m ∧
      ∀ pos, lo ≤ pos → pos < m.start → bestAt p hay pos = none

theorem loop_succ (rk : RabinKarp) (hay : PBytes) (fuel at_ : Nat) (hash : UInt64) :
    rk.loop hay (fuel + 1) at_ hash =
      match (rk.buckets.getD (hash % 64).toNat []).findSome? fun (ph, pid) =>
        if ph == hash && isPrefixAt (rk.pats.get pid) hay at_ then
          some ({ pid := pid, start := at_, stop := at_ + (rk.pats.get pid).length } : Mat)
        else none with
      | some m => some m
      | none =>
        if at_ + rk.hashLen ≥ hay.length then none
        else rk.loop hay fuel (at_ + 1)
          (rkUpdate rk.hash2pow hash (hay.getD at_ 0) (hay.getD (at_ + rk.hashLen) 0)) := rfl

theorem window_cons (hay : PBytes) (at_ k : Nat) (h : at_ + (k + 1) ≤ hay.length) :
    (hay.drop at_).take (k + 1) = hay.getD at_ 0 :: (hay.drop (at_ + 1)).take k := by
  have hlt : at_ < hay.length := by omega
  rw [List.drop_eq_getElem_cons hlt, List.take_succ_cons, List.getD_eq_getElem?_getD,
    List.getElem?_eq_getElem hlt]
  rfl

theorem window_snoc (hay : PBytes) (at_ k : Nat) (h : at_ + k < hay.length) :
    (hay.drop at_).take (k + 1) = (hay.drop at_).take k ++ [hay.getD (at_ + k) 0] := by
  rw [List.take_add_one, List.getElem?_drop, List.getD_eq_getElem?_getD, List.getElem?_eq_getElem h]
  rfl

theorem loop_scan (hnz : ∀ p ∈ pats, p ≠ []) (hay : PBytes) (fuel at_ : Nat) (hash : UInt64)
    (hh : hash = rkHash ((hay.drop at_).take (PPatterns.new kind pats).minLen))
    (hfit : at_ + (PPatterns.new kind pats).minLen ≤ hay.length)
    (hfuel : hay.length + 1 ≤ fuel + at_) :
    ScanRes (PPatterns.new kind pats) hay at_ (PPatterns.new kind pats).minLen
      ((RabinKarp.new (PPatterns.new kind pats)).loop hay fuel at_ hash) := by
  have hpos := minLen_pos kind pats hnz
  induction fuel generalizing at_ hash with
  | zero => omega
  | succ fuel ih =>
    rw [loop_succ, bucket_find kind pats hay at_ hash hh]
    cases hb : bestAt (PPatterns.new kind pats) hay at_ with
    | some m =>
      have hs := bestAt_start _ _ _ _ hb
      refine ⟨by omega, by rw [hs]; exact hb, ?_⟩
      intro pos h1 h2; omega
    | none =>
      have hHL : (RabinKarp.new (PPatterns.new kind pats)).hashLen =
        (PPatterns.new kind pats).minLen := rfl
      by_cases hge : at_ + (RabinKarp.new (PPatterns.new kind pats)).hashLen ≥ hay.length
      · rw [if_pos hge]
        intro pos h1 h2
        have : pos = at_ := by omega
        rw [this]; exact hb
      · rw [if_neg hge]
        obtain ⟨k, hk⟩ : ∃ k, (PPatterns.new kind pats).minLen = k + 1 :=
          ⟨(PPatterns.new kind pats).minLen - 1, by omega⟩
        have hroll : rkUpdate (RabinKarp.new (PPatterns.new kind pats)).hash2pow hash
            (hay.getD at_ 0)
            (hay.getD (at_ + (RabinKarp.new (PPatterns.new kind pats)).hashLen) 0) =
            rkHash ((hay.drop (at_ + 1)).take (PPatterns.new kind pats).minLen) := by
          rw [hHL, rk_hash2pow, hh, hk, window_cons hay at_ k (by omega),
            window_snoc hay (at_ + 1) k (by omega), ← rk_roll]
          have hl : ((hay.drop (at_ + 1)).take k).length = k := by
            rw [List.length_take, List.length_drop]; omega
          rw [hl, show at_ + 1 + k = at_ + (k + 1) by omega]
          rfl
        have := ih (at_ + 1) _ hroll (by omega) (by omega)
        revert this
        generalize (RabinKarp.new (PPatterns.new kind pats)).loop hay fuel (at_ + 1) _ = r
        intro hr
        cases r with
        | none =>
          intro pos h1 h2
          rcases Nat.eq_or_lt_of_le h1 with rfl | h1
          · exact hb
          · exact hr pos h1 h2
        | some m =>
          obtain ⟨g1, g2, g3⟩ := hr
          refine ⟨by omega, g2, ?_⟩
          intro pos h1 h2
          rcases Nat.eq_or_lt_of_le h1 with rfl | h1
          · exact hb
          · exact g3 pos h1 h2

theorem findAt_scan (hnz : ∀ p ∈ pats, p ≠ []) (hay : PBytes) (st : Nat) :
    ScanRes (PPatterns.new kind pats) hay st (PPatterns.new kind pats).minLen
      ((RabinKarp.new (PPatterns.new kind pats)).findAt hay st) := by
  unfold RabinKarp.findAt
  rw [rk_hashLen]
  split
  · intro pos h1 h2; omega
  · exact loop_scan kind pats hnz hay _ st _ rfl (by omega) (by omega)

/-- a scan of the truncated haystack computes `IsFind` -/
theorem isFind_of_scanRes (hnz : ∀ p ∈ pats, p ≠ []) (hay : PBytes) (st en k : Nat)
    (hen : en ≤ hay.length) (hk : k ≤ (PPatterns.new kind pats).minLen) (r : Option Mat)
    (h : ScanRes (PPatterns.new kind pats) (hay.take en) st k r) :
    IsFind kind.toMatchKind pats hay st en false r := by
  apply isFind_of_scan kind pats hnz hay st en k hk
  unfold ScanRes at h
  rw [List.length_take, Nat.min_eq_left hen] at h
  exact h

theorem findAt_isFind (hnz : ∀ p ∈ pats, p ≠ []) (hay : PBytes) (st en : Nat)
    (hen : en ≤ hay.length) :
    IsFind kind.toMatchKind pats hay st en false
      ((RabinKarp.new (PPatterns.new kind pats)).findAt (hay.take en) st) :=
  isFind_of_scanRes kind pats hnz hay st en _ hen (Nat.le_refl _) _
    (findAt_scan kind pats hnz (hay.take en) st)

end PackedP
end AcVerif
