import AcVerif.Alphabet
/-!
# L1-alphabet proofs, part 1: the bit-level set semantics of `ByteSet`

`contains (add s b) c ↔ c = b ∨ contains s c`, `contains empty c = false`, from the
`byte / 128`, `byte % 128`, `1 << bit`, `|=`, `&` arithmetic on the two 128-bit words.
-/
namespace AcVerif.AlphaP
open AcVerif AcVerif.Alphabet

/-- `byte / 128` is 0 or 1: the index into `[u128; 2]` is in bounds -/
theorem bucket_lt_two (b : UInt8) : (b / 128).toNat < 2 := by
  rw [UInt8.toNat_div]
  have := b.toNat_lt
  show b.toNat / 128 < 2
  omega

/-- `byte % 128 < 128`: the shift `1 << bit` stays inside the `u128` -/
theorem bit_lt (b : UInt8) : (b % 128).toNat < 128 := by
  rw [UInt8.toNat_mod]
  show b.toNat % 128 < 128
  omega

/-- a byte is determined by its bucket and its bit -/
theorem byte_eq_iff (c b : UInt8) :
    c = b ↔ (c / 128).toNat = (b / 128).toNat ∧ (c % 128).toNat = (b % 128).toNat := by
  constructor
  · rintro rfl; exact ⟨rfl, rfl⟩
  · rintro ⟨h1, h2⟩
    rw [UInt8.toNat_div, UInt8.toNat_div] at h1
    rw [UInt8.toNat_mod, UInt8.toNat_mod] at h2
    apply UInt8.toNat_inj.1
    have e : (128 : UInt8).toNat = 128 := rfl
    rw [e] at h1 h2
    omega

/-- the mask test is a bit test -/
theorem mask_pos_iff (w : BitVec 128) (i : Nat) :
    (w &&& ((1 : BitVec 128) <<< i) > 0) ↔ w.getLsbD i = true := by
  have e : ((1 : BitVec 128) <<< i) = BitVec.twoPow 128 i := (BitVec.twoPow_eq 128 i).symm
  rw [e, BitVec.and_twoPow]
  by_cases h : w.getLsbD i = true
  · rw [if_pos h]
    have hi : i < 128 := by
      have := BitVec.lt_of_getLsbD h
      exact this
    constructor
    · intro _; exact h
    · intro _
      show (0 : BitVec 128) < BitVec.twoPow 128 i
      rw [BitVec.lt_def, BitVec.toNat_twoPow_of_lt hi]
      exact Nat.two_pow_pos i
  · rw [if_neg h]
    constructor
    · intro hh
      exact absurd hh (by show ¬ ((0 : BitVec 128) < 0#128); exact BitVec.lt_irrefl _)
    · intro hh; exact absurd hh h

/-- the bit of byte `c` in the set -/
def bitAt (s : ByteSet) (c : UInt8) : Bool :=
  (s.bits.word (c / 128).toNat).getLsbD (c % 128).toNat

theorem contains_eq_bitAt (s : ByteSet) (c : UInt8) : s.contains c = bitAt s c := by
  unfold ByteSet.contains bitAt
  simp only
  by_cases h : (s.bits.word (c / 128).toNat).getLsbD (c % 128).toNat = true
  · rw [h]; exact decide_eq_true ((mask_pos_iff _ _).2 h)
  · have h' : (s.bits.word (c / 128).toNat).getLsbD (c % 128).toNat = false := by
      simpa using h
    rw [h']; exact decide_eq_false (fun hh => h ((mask_pos_iff _ _).1 hh))

theorem word_setWord (s : BitSet) (i j : Nat) (w : BitVec 128) (hi : i < 2) (hj : j < 2) :
    (s.setWord i w).word j = if j = i then w else s.word j := by
  unfold BitSet.setWord BitSet.word
  by_cases h0 : i = 0
  · subst h0
    by_cases h1 : j = 0
    · subst h1; simp
    · simp [h1]
  · by_cases h1 : j = 0
    · subst h1
      have : ¬ (0 = i) := fun e => h0 e.symm
      simp [h0, this]
    · have : j = i := by omega
      simp [h0, this]

theorem bitAt_add (s : ByteSet) (b c : UInt8) :
    bitAt (s.add b) c = (decide (c = b) || bitAt s c) := by
  unfold ByteSet.add bitAt
  simp only
  rw [word_setWord _ _ _ _ (bucket_lt_two b) (bucket_lt_two c)]
  by_cases hb : (c / 128).toNat = (b / 128).toNat
  · rw [if_pos hb, BitVec.getLsbD_or, hb]
    have e : ((1 : BitVec 128) <<< (b % 128).toNat) = BitVec.twoPow 128 (b % 128).toNat :=
      (BitVec.twoPow_eq 128 _).symm
    rw [e, BitVec.getLsbD_twoPow]
    have hlt := bit_lt b
    rw [decide_eq_true hlt, Bool.true_and]
    by_cases hbit : (c % 128).toNat = (b % 128).toNat
    · have hcb : c = b := (byte_eq_iff c b).2 ⟨hb, hbit⟩
      rw [decide_eq_true hbit.symm, decide_eq_true hcb, Bool.or_true, Bool.true_or]
    · have hne : ¬ c = b := fun e' => hbit ((byte_eq_iff c b).1 e').2
      have hne' : ¬ (b % 128).toNat = (c % 128).toNat := fun e' => hbit e'.symm
      rw [decide_eq_false hne', decide_eq_false hne, Bool.or_false, Bool.false_or]
  · rw [if_neg hb]
    have hne : ¬ c = b := fun e' => hb ((byte_eq_iff c b).1 e').1
    rw [decide_eq_false hne, Bool.false_or]

theorem contains_add' (s : ByteSet) (b c : UInt8) :
    (s.add b).contains c = (decide (c = b) || s.contains c) := by
  rw [contains_eq_bitAt, contains_eq_bitAt, bitAt_add]

/-- `add` inserts exactly one byte -/
theorem contains_add (s : ByteSet) (b c : UInt8) :
    (s.add b).contains c = true ↔ c = b ∨ s.contains c = true := by
  rw [contains_add']; simp

/-- the empty set has no member -/
theorem contains_empty (c : UInt8) : ByteSet.empty.contains c = false := by
  rw [contains_eq_bitAt]
  unfold bitAt ByteSet.empty BitSet.word
  by_cases h : (c / 128).toNat = 0 <;> simp [h]

/-- adding a member twice, or two members in the other order, gives the same words -/
theorem add_comm_contains (s : ByteSet) (a b c : UInt8) :
    ((s.add a).add b).contains c = ((s.add b).add a).contains c := by
  simp only [contains_add']
  cases decide (c = a) <;> cases decide (c = b) <;> rfl

end AcVerif.AlphaP
