import AcVerif.Proofs.NfaMemTrans
/-!
# L1c-mem proofs, part 3: `init_full_state`
-/
namespace AcVerif.MemP
open AcVerif MemNfa

theorem initFullStep_eq (prev next : Nat) (m : MemNfa) (pl byte : Nat) :
    initFullStep prev next (m, pl) byte = (insCell m prev pl 0 byte.toUInt8 next, m.sparse.size) := by
  unfold initFullStep insCell
  by_cases h : pl = 0
  · simp only [h, if_true]; rfl
  · simp only [if_neg h]; rfl

theorem toUInt8_toNat_of_lt {k : Nat} (h : k < 256) : k.toUInt8.toNat = k := by
  simp only [Nat.toUInt8, UInt8.toNat_ofNat']
  omega

/-- the `for byte in k..k+n` part of the loop of `init_full_state`: appends the cells
`(k, next), …, (k+n-1, next)` behind the current tail `pl` -/
theorem initFullLoop_spec (prev next : Nat) :
    ∀ (n k : Nat) (m : MemNfa) (tc mc : Nat → List Nat) (pl : Nat), MemOKW m tc mc →
      prev < m.states.size → pl = (tc prev).getLast?.getD 0 →
      (∀ i ∈ tc prev, (m.tr i).byte.toNat < k) → k + n ≤ 256 →
      MemOK ((List.range' k n).foldl (initFullStep prev next) (m, pl)).1 ∧
      ((List.range' k n).foldl (initFullStep prev next) (m, pl)).1.iterTrans prev =
        m.iterTrans prev ++ (List.range' k n).map (fun i => (i.toUInt8, next)) ∧
      (∀ s, s ≠ prev →
        ((List.range' k n).foldl (initFullStep prev next) (m, pl)).1.iterTrans s = m.iterTrans s) ∧
      (∀ s, ((List.range' k n).foldl (initFullStep prev next) (m, pl)).1.iterMatches s =
        m.iterMatches s) ∧
      (∀ s, (((List.range' k n).foldl (initFullStep prev next) (m, pl)).1.st s).fail =
        (m.st s).fail) ∧
      ((List.range' k n).foldl (initFullStep prev next) (m, pl)).1.states.size = m.states.size := by
  intro n
  induction n with
  | zero =>
    intro k m tc mc pl hw _ _ _ _
    refine ⟨⟨_, _, hw⟩, ?_, fun _ _ => rfl, fun _ => rfl, fun _ => rfl, rfl⟩
    simp
  | succ n ih =>
    intro k m tc mc pl hw hp hpl hbytes hk
    rw [List.range'_succ, List.foldl_cons, initFullStep_eq]
    have hk' : k < 256 := by omega
    have hpre : ∀ i ∈ tc prev, (m.tr i).byte < k.toUInt8 := by
      intro i hi
      rw [UInt8.lt_iff_toNat_lt, toUInt8_toNat_of_lt hk']
      exact hbytes i hi
    obtain ⟨hw', h2, hb, h3, h4, h5, h6, h7⟩ :=
      insCell_spec hw hp (pre := tc prev) (suf := []) (List.append_nil _).symm next hpre
        (fun _ hi => nomatch hi)
    rw [← hpl] at hw' h2 hb h3 h4 h5 h6 h7
    simp only [List.headD_nil] at hw' h2 hb h3 h4 h5 h6 h7
    have hp' : prev < (insCell m prev pl 0 k.toUInt8 next).states.size := by rw [h6]; exact hp
    have hpl' : m.sparse.size = (upd tc prev (tc prev ++ [m.sparse.size]) prev).getLast?.getD 0 := by
      rw [upd_self]; simp
    have hbytes' : ∀ i ∈ upd tc prev (tc prev ++ [m.sparse.size]) prev,
        ((insCell m prev pl 0 k.toUInt8 next).tr i).byte.toNat < k + 1 := by
      intro i hi
      rw [upd_self] at hi
      rcases List.mem_append.1 hi with e | e
      · rw [hb i (hw.tlt prev i e)]
        exact Nat.lt_succ_of_lt (hbytes i e)
      · have e : i = m.sparse.size := by simpa using e
        subst e
        have hlp : pl < m.sparse.size := by
          rw [hpl]
          cases hl : (tc prev).getLast? with
          | none => exact hw.tpos
          | some p => exact hw.tlt prev p (List.mem_of_getLast? hl)
        rw [tr_insCell m prev hlp, if_pos rfl]
        show k.toUInt8.toNat < k + 1
        rw [toUInt8_toNat_of_lt hk']; omega
    obtain ⟨i1, i2, i3, i4, i5, i6⟩ :=
      ih (k + 1) _ _ mc m.sparse.size hw' hp' hpl' hbytes' (by omega)
    refine ⟨i1, ?_, ?_, ?_, ?_, ?_⟩
    · rw [i2, h2, iterTrans_eq hw]; simp
    · intro s hs; rw [i3 s hs, h3 s hs]
    · intro s; rw [i4 s, h4 s]
    · intro s; rw [i5 s, h5 s]
    · rw [i6, h6]

/-- **`init_full_state(prev, next)`** on a state without transitions gives all 256 bytes,
in order, each with target `next`. -/
theorem initFullState_spec {m : MemNfa} (h : MemOK m) {prev : Nat} (hp : prev < m.states.size)
    (hempty : (m.st prev).sparse = 0) (next : Nat) :
    MemOK (m.initFullState prev next) ∧
    (m.initFullState prev next).iterTrans prev = CNfa.fullTrans next ∧
    (∀ s, s ≠ prev → (m.initFullState prev next).iterTrans s = m.iterTrans s) ∧
    (∀ s, (m.initFullState prev next).iterMatches s = m.iterMatches s) ∧
    (∀ s, ((m.initFullState prev next).st s).fail = (m.st s).fail) ∧
    (m.initFullState prev next).states.size = m.states.size := by
  obtain ⟨tc, mc, hw⟩ := h
  have hnil : tc prev = [] := by
    have := hw.tchain prev
    rw [hempty] at this
    exact this.eq_nil
  have := initFullLoop_spec prev next 256 0 m tc mc 0 hw hp (by rw [hnil]; rfl)
    (by rw [hnil]; exact fun _ hi => nomatch hi) (by omega)
  rw [← List.range_eq_range'] at this
  obtain ⟨i1, i2, i3, i4, i5, i6⟩ := this
  unfold MemNfa.initFullState
  refine ⟨i1, ?_, i3, i4, i5, i6⟩
  rw [i2, iterTrans_eq hw, hnil]
  simp only [List.map_nil, List.nil_append, CNfa.fullTrans]

end AcVerif.MemP
