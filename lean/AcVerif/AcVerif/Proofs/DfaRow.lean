import AcVerif.Proofs.DfaBase
/-!
# L1d proofs, part 2: byte classes are a congruence of the compiled NFA; the rows of the DFA

For the compiled NFA `N` (described by `FS k Q L N`) and a class map with `ClassOK`:
* `follow_cong_*`: two bytes of one class have the same explicit transition at every live state;
* `nextState_cong`: … hence the same `next_state` result (failure chains stay among live states);
* `row_fold`: the generic row lemma (a row filled from `sparse_iter`);
* `rowU_spec` / `rowA_spec`: the unanchored / anchored row of a live state holds `next_state`.
-/
namespace AcVerif.L1dP
open AcVerif AcVerif.CNfa AcVerif.L1cP AcVerif.LmP

/-! ## membership in `trieBytes` -/

theorem mem_trieBytes_node {N : CNfa} {sid : Nat} {b : UInt8} (hs : sid < N.size) (h4 : 4 ≤ sid)
    (hf : follow N sid b ≠ FAIL) : b ∈ trieBytes N := by
  unfold trieBytes
  rw [List.mem_flatMap]
  refine ⟨sid, List.mem_range.2 hs, ?_⟩
  have hne : (sid == DEAD || sid == FAIL || sid == SU || sid == SA) = false := by
    simp only [DEAD, FAIL, SU, SA, Bool.or_eq_false_iff, beq_eq_false_iff_ne, ne_eq]
    omega
  rw [hne]
  simp only [Bool.false_eq_true, if_false]
  have := mem_of_lookup (l := (N.getD sid {}).trans) (b := b) rfl (by rw [← follow_eq]; exact hf)
  exact List.mem_map.2 ⟨_, this, rfl⟩

theorem mem_trieBytes_su {N : CNfa} {b : UInt8} (hs : SU < N.size)
    (h1 : follow N SU b ≠ FAIL) (h2 : follow N SU b ≠ SU) (h3 : follow N SU b ≠ DEAD) :
    b ∈ trieBytes N := by
  unfold trieBytes
  rw [List.mem_flatMap]
  refine ⟨SU, List.mem_range.2 hs, ?_⟩
  have hne : (SU == DEAD || SU == FAIL || SU == SU || SU == SA) = true := by decide
  rw [hne]
  simp only [if_true, beq_self_eq_true]
  have := mem_of_lookup (l := (N.getD SU {}).trans) (b := b) rfl (by rw [← follow_eq]; exact h1)
  refine List.mem_map.2 ⟨_, List.mem_filter.2 ⟨this, ?_⟩, rfl⟩
  rw [← follow_eq]
  simp only [Bool.and_eq_true, bne_iff_ne, ne_eq]
  exact ⟨⟨h1, h2⟩, h3⟩

section
variable {k : MatchKind} {Q : PatSet UInt8} {L : List (List UInt8)} {N : CNfa}

theorem _root_.AcVerif.L1cP.FS.ne_nil (h : FS k Q L N) {u : List UInt8} (hu : u ∈ L) : u ≠ [] := ((h.mem u).1 hu).1

theorem _root_.AcVerif.L1cP.FS.nu_lt_size (h : FS k Q L N) {u : List UInt8} (hu : u = [] ∨ u ∈ L) :
    nu L u < N.size := by
  rw [h.size]
  rcases hu with e | hm
  · subst e; simp [SU]
  · exact nu_lt hm (h.ne_nil hm)

theorem _root_.AcVerif.L1cP.FS.four_le_size (h : FS k Q L N) : 4 ≤ N.size := by rw [h.size]; omega

/-- a child edge puts its byte into `trieBytes` -/
theorem _root_.AcVerif.L1cP.FS.edge_mem (h : FS k Q L N) {u : List UInt8} {b : UInt8} (hu : u = [] ∨ u ∈ L)
    (hin : u ++ [b] ∈ L) : b ∈ trieBytes N := by
  have hf := h.goto_in u b hu hin
  have hge : 4 ≤ nu L (u ++ [b]) := nu_ge (by simp)
  rcases hu with e | hm
  · subst e
    rw [nu_nil] at hf
    apply mem_trieBytes_su (by have := h.four_le_size; simp only [SU]; omega) <;> rw [hf] <;>
      simp only [FAIL, SU, DEAD] <;> omega
  · apply mem_trieBytes_node (h.nu_lt_size (Or.inr hm)) (nu_ge (h.ne_nil hm))
    rw [hf]; simp only [FAIL]; omega

/-! ## `follow` at the live states, for a byte outside the trie -/

theorem follow_node_out (h : FS k Q L N) {u : List UInt8} (hu : u ∈ L) {b : UInt8}
    (hb : b ∉ trieBytes N) : follow N (nu L u) b = FAIL := by
  by_cases hin : u ++ [b] ∈ L
  · exact absurd (h.edge_mem (Or.inr hu) hin) hb
  · exact h.goto_out u b hu hin

theorem follow_sa_out (h : FS k Q L N) {b : UInt8} (hb : b ∉ trieBytes N) :
    follow N SA b = FAIL := by
  rw [h.goto_sa, if_neg]
  intro hin
  exact hb (h.edge_mem (u := []) (Or.inl rfl) hin)

/-- the root's step on a byte without an edge does not depend on the byte -/
theorem next_root_out (k : MatchKind) (Q : PatSet UInt8) (b : UInt8) (hp : ¬ isPref Q [b] = true) :
    Ideal.next k Q false (.at []) b =
      if k = .std ∨ idsOf Q [] = [] then .at [] else .dead := by
  by_cases hk : k = .std ∨ idsOf Q [] = []
  · rw [if_pos hk]; exact next_root k Q b hp hk
  · rw [if_neg hk]
    have hk1 : k ≠ .std := fun e => hk (Or.inl e)
    have hk2 : ¬ idsOf Q [] = [] := fun e => hk (Or.inr e)
    have : Ideal.next k Q false (.at []) b = stepLm Q [] b := by
      cases k with
      | std => exact absurd rfl hk1
      | lf => rfl
      | ll => rfl
    rw [this, stepLm_root, if_neg hp, if_neg (by simpa using hk2)]

theorem follow_su_out (h : FS k Q L N) {b : UInt8} (hb : b ∉ trieBytes N) :
    follow N SU b = sidOf L (if k = .std ∨ idsOf Q [] = [] then .at [] else .dead) := by
  have hout : [b] ∉ L := fun hin => hb (h.edge_mem (u := []) (Or.inl rfl) hin)
  have hp : ¬ isPref Q [b] = true := fun hp => hout ((h.isPref_iff_mem [] b).1 hp)
  rw [h.goto_root b hout, next_root_out k Q b hp]

/-- the unanchored start state has no `FAIL` entry -/
theorem follow_su_ne_fail (h : FS k Q L N) (b : UInt8) : follow N SU b ≠ FAIL := by
  by_cases hin : [b] ∈ L
  · have := h.goto_in [] b (Or.inl rfl) hin
    rw [nu_nil] at this
    rw [this]; exact nu_ne_fail _ _
  · rw [h.goto_root b hin]; exact sidOf_ne_fail _ _

/-! ## live states -/

/-- the states an unanchored run can be in (and their failure chains): dead, root, trie nodes -/
def VU (L : List (List UInt8)) (s : Nat) : Prop := s = DEAD ∨ ∃ u, (u = [] ∨ u ∈ L) ∧ s = nu L u

/-- the states an anchored run can be in: dead, the anchored start state, trie nodes -/
def VA (L : List (List UInt8)) (s : Nat) : Prop := s = DEAD ∨ s = SA ∨ ∃ u, u ∈ L ∧ s = nu L u

theorem VU_of_Rel {s : Nat} {q : St UInt8} (hr : Rel L false s q) : VU L s := by
  cases q with
  | dead => exact Or.inl hr
  | «at» u =>
    by_cases h0 : u = []
    · subst h0
      simp only [Rel, if_true, Bool.false_eq_true, if_false] at hr
      exact Or.inr ⟨[], Or.inl rfl, by rw [hr, nu_nil]⟩
    · simp only [Rel, if_neg h0] at hr
      exact Or.inr ⟨u, Or.inr hr.1, hr.2⟩

theorem VA_of_Rel {s : Nat} {q : St UInt8} (hr : Rel L true s q) : VA L s := by
  cases q with
  | dead => exact Or.inl hr
  | «at» u =>
    by_cases h0 : u = []
    · subst h0
      simp only [Rel, if_true] at hr
      exact Or.inr (Or.inl hr)
    · simp only [Rel, if_neg h0] at hr
      exact Or.inr (Or.inr ⟨u, hr.1, hr.2⟩)

theorem VU.lt_size (h : FS k Q L N) {s : Nat} (hv : VU L s) : s < N.size := by
  rcases hv with e | ⟨u, hu, e⟩
  · subst e; have := h.four_le_size; simp only [DEAD]; omega
  · subst e; exact h.nu_lt_size hu

theorem VA.lt_size (h : FS k Q L N) {s : Nat} (hv : VA L s) : s < N.size := by
  rcases hv with e | e | ⟨u, hu, e⟩
  · subst e; have := h.four_le_size; simp only [DEAD]; omega
  · subst e; have := h.four_le_size; simp only [SA]; omega
  · subst e; exact h.nu_lt_size (Or.inr hu)

theorem VU.ne_sa (h : FS k Q L N) {s : Nat} (hv : VU L s) : s ≠ SA ∧ s ≠ FAIL := by
  rcases hv with e | ⟨u, hu, e⟩
  · subst e; simp [DEAD, SA, FAIL]
  · subst e
    rcases hu with e | hm
    · subst e; simp [SU, SA, FAIL]
    · have := nu_ge (L := L) (h.ne_nil hm)
      simp only [SA, FAIL]; omega

theorem VA.ne_su (h : FS k Q L N) {s : Nat} (hv : VA L s) : s ≠ SU ∧ s ≠ FAIL := by
  rcases hv with e | e | ⟨u, hu, e⟩
  · subst e; simp [DEAD, SU, FAIL]
  · subst e; simp [SU, SA, FAIL]
  · subst e
    have := nu_ge (L := L) (h.ne_nil hu)
    simp only [SU, FAIL]; omega

/-- failure links of trie nodes lead to live states -/
theorem VU_fail (h : FS k Q L N) {u : List UInt8} (hu : u ∈ L) :
    VU L (N.getD (nu L u) {}).fail := by
  rw [h.fail u hu]
  unfold finalFail
  split
  · exact Or.inl rfl
  · exact Or.inr ⟨failStd Q u, h.lsp_mem _, rfl⟩

/-! ## the congruence -/

variable {classOf : UInt8 → Nat} {nc : Nat}

theorem follow_cong_VU (h : FS k Q L N) (hC : ClassOK N classOf nc) {s : Nat} (hv : VU L s)
    {b b' : UInt8} (hc : classOf b = classOf b') : follow N s b = follow N s b' := by
  by_cases e : b = b'
  · rw [e]
  · obtain ⟨hb, hb'⟩ := hC.cong b b' hc e
    rcases hv with e | ⟨u, hu, e⟩
    · subst e; rw [h.goto_dead, h.goto_dead]
    · subst e
      rcases hu with e | hm
      · subst e; rw [nu_nil, follow_su_out h hb, follow_su_out h hb']
      · rw [follow_node_out h hm hb, follow_node_out h hm hb']

theorem follow_cong_VA (h : FS k Q L N) (hC : ClassOK N classOf nc) {s : Nat} (hv : VA L s)
    {b b' : UInt8} (hc : classOf b = classOf b') : follow N s b = follow N s b' := by
  by_cases e : b = b'
  · rw [e]
  · obtain ⟨hb, hb'⟩ := hC.cong b b' hc e
    rcases hv with e | e | ⟨u, hm, e⟩
    · subst e; rw [h.goto_dead, h.goto_dead]
    · subst e; rw [follow_sa_out h hb, follow_sa_out h hb']
    · subst e; rw [follow_node_out h hm hb, follow_node_out h hm hb']

/-- `next_state` (unanchored) is constant on byte classes, at live states -/
theorem nextState_cong (h : FS k Q L N) (hC : ClassOK N classOf nc) {b b' : UInt8}
    (hc : classOf b = classOf b') :
    ∀ (fuel s hp : Nat), VU L s → nextState N false fuel s b hp = nextState N false fuel s b' hp := by
  intro fuel
  induction fuel with
  | zero => intro s hp _; rfl
  | succ fuel ih =>
    intro s hp hv
    have hf := follow_cong_VU h hC hv hc
    by_cases hfail : follow N s b = FAIL
    · rw [nextState_go N fuel s b hp hfail, nextState_go N fuel s b' hp (hf ▸ hfail)]
      apply ih
      rcases hv with e | ⟨u, hu, e⟩
      · subst e; rw [h.goto_dead] at hfail; cases hfail
      · subst e
        rcases hu with e | hm
        · subst e; rw [nu_nil] at hfail; exact absurd hfail (follow_su_ne_fail h b)
        · exact VU_fail h hm
    · rw [nextState_stop N false fuel s b hp hfail,
        nextState_stop N false fuel s b' hp (hf ▸ hfail), hf]

/-! ## what one row entry holds -/

/-- the anchored entry: explicit transition, `FAIL` becomes dead (any state) -/
theorem anch_entry (N : CNfa) (fuel s : Nat) (r : UInt8) :
    (nextState N true (fuel + 1) s r 0).1 = if follow N s r == FAIL then DEAD else follow N s r := by
  by_cases hf : follow N s r = FAIL
  · rw [nextState_anch_fail N fuel s r 0 hf, hf]; rfl
  · rw [nextState_stop N true fuel s r 0 hf]
    have : (follow N s r == FAIL) = false := by simpa using hf
    rw [this]; rfl

/-- the `.1` of an unanchored `next_state` at a node does not depend on fuel / hop counter -/
theorem nextState_fst (h : FS k Q L N) {v : List UInt8} (hv : v = [] ∨ v ∈ L) (r : UInt8)
    (fuel hp : Nat) (hfuel : v.length < fuel) :
    (nextState N false fuel (nu L v) r hp).1 = sidOf L (Ideal.next k Q false (.at v) r) := by
  rw [run_step h r v.length v (Nat.le_refl _) hv fuel hp hfuel]

/-- the unanchored entry: explicit transition, or `FAIL` resolved through the failure link -/
theorem unanch_entry (h : FS k Q L N) {s : Nat} (hv : VU L s) (r : UInt8) :
    (if follow N s r == FAIL then resolveFail N s r else follow N s r) =
      (nextState N false (N.size + 1) s r 0).1 := by
  by_cases hf : follow N s r = FAIL
  · rw [nextState_go N N.size s r 0 hf, hf]
    simp only [beq_self_eq_true, if_true]
    unfold resolveFail
    rcases hv with e | ⟨u, hu, e⟩
    · subst e; rw [h.goto_dead] at hf; cases hf
    · subst e
      rcases hu with e | hm
      · subst e; rw [nu_nil] at hf; exact absurd hf (follow_su_ne_fail h r)
      · rcases VU_fail h hm with e | ⟨v, hv, e⟩
        · rw [e]
          simp only [beq_self_eq_true, if_true]
          rw [nextState_dead N false _ r _ (h.goto_dead r)]
        · rw [e]
          have hne : (nu L v == DEAD) = false := by simpa using nu_ne_dead L v
          simp only [hne, Bool.false_eq_true, if_false]
          have hl := h.len_lt_size hv
          rw [nextState_fst h hv r _ _ (by omega), nextState_fst h hv r _ _ (by omega)]
  · rw [nextState_stop N false N.size s r 0 hf]
    have : (follow N s r == FAIL) = false := by simpa using hf
    rw [this]; rfl

/-! ## rows -/

/-- generic row lemma: a row filled from `sparse_iter` by writes whose value is a class-invariant
function `val` of the representative -/
theorem row_fold (N : CNfa) (s : Nat) (classOf : UInt8 → Nat) (val : UInt8 → Option Nat)
    (hval : ∀ b b', classOf b = classOf b' → val b = val b')
    (act : UInt8 × Nat × Nat → Option Nat)
    (hact : ∀ r, act (r, classOf r, follow N s r) = val r) (row0 : Array Nat) (b : UInt8)
    (hc : classOf b < row0.size) (d : Nat) :
    (foldSet (fun x => x.2.1) act (sparseIter (N.getD s {}).trans classOf) row0).getD (classOf b) d =
      (val b).getD (row0.getD (classOf b) d) := by
  obtain ⟨hwf, hcov⟩ := sparseIter_spec (N.getD s {}).trans classOf
  have hall : ∀ x ∈ sparseIter (N.getD s {}).trans classOf, x.2.1 = classOf b → act x = val b := by
    intro x hx hxc
    obtain ⟨h1, h2⟩ := hwf x hx
    have : x = (x.1, classOf x.1, follow N s x.1) := by
      obtain ⟨x1, x2, x3⟩ := x
      simp only at h1 h2
      rw [h1, h2, follow_eq]
    rw [this, hact]
    exact hval _ _ (by rw [← h1, hxc])
  cases hv : val b with
  | none =>
    rw [hv] at hall
    simpa using foldSet_keep _ act (classOf b) d _ row0 hall
  | some v =>
    rw [hv] at hall
    simpa using foldSet_some _ act (classOf b) d v _ row0 hc hall (hcov b)

theorem dfaRow_eq (N : CNfa) (classOf : UInt8 → Nat) (nc : Nat) (anch : Bool) (s : Nat) :
    dfaRow N classOf nc anch s =
      foldSet (fun x => x.2.1)
        (fun x => some (if x.2.2 == FAIL then (if anch then DEAD else resolveFail N s x.1) else x.2.2))
        (sparseIter (N.getD s {}).trans classOf) (Array.replicate nc DEAD) := rfl

theorem dfaRow_size (N : CNfa) (classOf : UInt8 → Nat) (nc : Nat) (anch : Bool) (s : Nat) :
    (dfaRow N classOf nc anch s).size = nc := by
  rw [dfaRow_eq, foldSet_size, Array.size_replicate]

/-- the unanchored row of a live state holds `next_state(Anchored::No, ·)` -/
theorem rowU_spec (h : FS k Q L N) (hC : ClassOK N classOf nc) {s : Nat} (hv : VU L s) (b : UInt8)
    (d : Nat) :
    (dfaRow N classOf nc false s).getD (classOf b) d = (nextState N false (N.size + 1) s b 0).1 := by
  rw [dfaRow_eq]
  refine (row_fold N s classOf (fun r => some (nextState N false (N.size + 1) s r 0).1)
    ?_ _ ?_ _ b ?_ d).trans ?_
  · intro b b' hc
    rw [nextState_cong h hC hc _ _ _ hv]
  · intro r
    simp only [Bool.false_eq_true, if_false]
    rw [unanch_entry h hv r]
  · rw [Array.size_replicate]; exact hC.lt b
  · rfl

/-- the anchored row of a live state holds `next_state(Anchored::Yes, ·)` -/
theorem rowA_spec (h : FS k Q L N) (hC : ClassOK N classOf nc) {s : Nat} (hv : VA L s) (b : UInt8)
    (d : Nat) :
    (dfaRow N classOf nc true s).getD (classOf b) d = (nextState N true (N.size + 1) s b 0).1 := by
  rw [dfaRow_eq]
  refine (row_fold N s classOf (fun r => some (nextState N true (N.size + 1) s r 0).1)
    ?_ _ ?_ _ b ?_ d).trans ?_
  · intro b b' hc
    rw [anch_entry, anch_entry, follow_cong_VA h hC hv hc]
  · intro r
    simp only [if_true]
    rw [anch_entry]
  · rw [Array.size_replicate]; exact hC.lt b
  · rfl

end

end AcVerif.L1dP
