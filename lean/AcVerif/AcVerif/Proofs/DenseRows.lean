import AcVerif.DenseModel
import AcVerif.Proofs.ContigSim
/-!
# Dense rows of the noncontiguous NFA: reading through `follow_transition` = scanning the list

* `denseRows_getD`: which states have a row, and that the row is a `foldSet` over the sparse list;
* `denseRow_spec`: at a live state (`Lv`) entry `classOf b` of the row is `follow N s b`
  (sorted list ⇒ every list entry is what `follow` finds for its byte; byte classes are a
  congruence at live states ⇒ every write to class `classOf b` writes `follow N s b`; no write ⇒
  no entry for `b` ⇒ `FAIL`);
* `compile_specXN`: the node list of the compiled NFA has no duplicates, hence every state id
  `< N.size` other than `FAIL` is live (`lv_of_lt_size`);
* `followD_eq`, `nextStateD_eq`: for **every** state id.
-/
namespace AcVerif.DenseP
open AcVerif AcVerif.CNfa AcVerif.L1cP AcVerif.L1dP AcVerif.L1eP

/-- the class map the noncontiguous NFA always uses -/
abbrev cm (N : CNfa) : UInt8 → Nat := classOfMarks (marksOf (trieBytes N))

/-- the dense row of a state, as a `foldSet` -/
def denseRow (N : CNfa) (sid : Nat) : Array Nat :=
  foldSet (fun x : UInt8 × Nat => cm N x.1) (fun x => some x.2) (N.getD sid {}).trans
    (Array.replicate (cm N 255 + 1) FAIL)

theorem denseRows_getD (N : CNfa) (dd sid : Nat) :
    (denseRows N dd).getD sid none =
      if sid < N.size ∧ sid ≠ DEAD ∧ sid ≠ FAIL ∧ (storedDepths N).getD sid 0 < dd
      then some (denseRow N sid) else none := by
  unfold denseRows
  simp only
  by_cases hs : sid < N.size
  · rw [getD_map_range _ _ _ _ hs]
    by_cases h0 : sid = DEAD
    · subst h0; simp
    · by_cases h1 : sid = FAIL
      · subst h1; simp
      · have e : (sid == DEAD || sid == FAIL) = false := by simp [h0, h1]
        rw [e]
        simp only [Bool.false_eq_true, if_false]
        by_cases hd : (storedDepths N).getD sid 0 < dd
        · rw [if_pos hd, if_pos ⟨hs, h0, h1, hd⟩]
          rfl
        · rw [if_neg hd, if_neg (fun h => hd h.2.2.2)]
  · rw [getD_map_range_ge _ _ _ _ (Nat.le_of_not_lt hs), if_neg (fun h => hs h.1)]

section
variable {k : MatchKind} {Q : PatSet UInt8} {L : List (List UInt8)} {N : CNfa}

/-- entry `classOf b` of the dense row of a live state is the sparse transition on `b` -/
theorem denseRow_spec (h : FS k Q L N) {s : Nat} (hsorted : Sorted (N.getD s {}).trans)
    (hv : Lv L s) (b : UInt8) : (denseRow N s).getD (cm N b) FAIL = follow N s b := by
  have hC := classOK_marks N
  -- every write to the class of `b` writes `follow N s b`
  have hall : ∀ x ∈ (N.getD s {}).trans, cm N x.1 = cm N b →
      (fun x : UInt8 × Nat => some x.2) x = some (follow N s b) := by
    intro x hx hc
    have e1 : follow N s x.1 = x.2 := by
      rw [follow_eq]; exact lookup_of_mem hsorted (b := x.1) (t := x.2) hx
    have e2 : follow N s x.1 = follow N s b := by
      rcases hv with hv | hv
      · exact follow_cong_VU h hC hv hc
      · exact follow_cong_VA h hC hv hc
    show some x.2 = some (follow N s b)
    rw [← e1, e2]
  unfold denseRow
  by_cases hex : ∃ x ∈ (N.getD s {}).trans, cm N x.1 = cm N b
  · exact foldSet_some _ _ (cm N b) FAIL (follow N s b) _ _
      (by rw [Array.size_replicate]; exact hC.lt b) hall hex
  · have hnone : ∀ x ∈ (N.getD s {}).trans, cm N x.1 = cm N b →
        (fun x : UInt8 × Nat => some x.2) x = none :=
      fun x hx hc => absurd ⟨x, hx, hc⟩ hex
    rw [foldSet_keep _ _ (cm N b) FAIL _ _ hnone]
    have hF : follow N s b = FAIL := by
      apply Classical.byContradiction
      intro hne
      have := mem_of_lookup (l := (N.getD s {}).trans) (b := b) rfl (by rw [← follow_eq]; exact hne)
      exact hex ⟨_, this, rfl⟩
    rw [hF]
    rw [Array.getD_eq_getD_getElem?, Array.getElem?_replicate]
    split <;> rfl

end

/-! ## every state of the compiled NFA other than `FAIL` is live -/

/-- `compile_specX`, plus: the node list has no duplicates -/
theorem compile_specXN (k : MatchKind) (P : List (List UInt8)) :
    ∃ L, FS k (patSet k P) L (compile k false P) ∧ FX L (compile k false P) ∧ L.Nodup := by
  obtain ⟨L, hT⟩ := buildTrie_spec k P
  have hB := PB_startPhase hT
  obtain ⟨pend, hF, hall⟩ := fillFailure_spec (k := k) hB
  refine ⟨L, by rw [compile_eq]; exact FS_of_FI hB hF hall, ?_, hB.nodup⟩
  rw [compile_eq]
  apply FX_closeStartLoop k
  · rw [hF.size, hB.size]; simp [SU]
  · intro u hu
    have := nu_ge (L := L) (hB.ne_nil hu)
    simp only [SU]; omega
  · exact FX_of_FI hT hF

theorem lv_of_lt_size {k : MatchKind} {Q : PatSet UInt8} {L : List (List UInt8)} {N : CNfa}
    (h : FS k Q L N) (hnd : L.Nodup) {s : Nat} (hs : s < N.size) (h1 : s ≠ FAIL) : Lv L s := by
  by_cases h0 : s = DEAD
  · exact Or.inl (Or.inl h0)
  · by_cases h2 : s = SU
    · exact Or.inl (Or.inr ⟨[], Or.inl rfl, by rw [h2, nu_nil]⟩)
    · by_cases h3 : s = SA
      · exact Or.inr (Or.inr (Or.inl h3))
      · have h4 : 4 ≤ s := by
          simp only [DEAD, FAIL, SU, SA] at h0 h1 h2 h3; omega
        have hlt : s - 4 < L.length := by rw [h.size] at hs; omega
        have hm : L[s - 4] ∈ L := List.getElem_mem hlt
        have hne : L[s - 4] ≠ [] := h.ne_nil hm
        refine Or.inl (Or.inr ⟨L[s - 4], Or.inr hm, ?_⟩)
        rw [nu_of_ne hne, hnd.idxOf_getElem _ hlt]
        omega

/-! ## `follow_transition` and `next_state` -/

section
variable {k : MatchKind} {Q : PatSet UInt8} {L : List (List UInt8)} {N : CNfa}

/-- reading through the dense rows = scanning the sparse list, at **every** state id (live states
have a correct row; `DEAD`, `FAIL` and ids out of range have none) -/
theorem followD_eq (h : FS k Q L N) (hX : FX L N) (hnd : L.Nodup) (dd sid : Nat) (b : UInt8) :
    followD N (denseRows N dd) sid b = follow N sid b := by
  unfold followD
  rw [denseRows_getD]
  by_cases hc : sid < N.size ∧ sid ≠ DEAD ∧ sid ≠ FAIL ∧ (storedDepths N).getD sid 0 < dd
  · rw [if_pos hc]
    exact denseRow_spec h (hX.sorted sid) (lv_of_lt_size h hnd hc.1 hc.2.2.1) b
  · rw [if_neg hc]

/-- the same at a live state, without using that the node list has no duplicates -/
theorem followD_eq_live (h : FS k Q L N) (hX : FX L N) (dd : Nat) {sid : Nat} (hv : Lv L sid)
    (b : UInt8) : followD N (denseRows N dd) sid b = follow N sid b := by
  unfold followD
  rw [denseRows_getD]
  by_cases hc : sid < N.size ∧ sid ≠ DEAD ∧ sid ≠ FAIL ∧ (storedDepths N).getD sid 0 < dd
  · rw [if_pos hc]
    exact denseRow_spec h (hX.sorted sid) hv b
  · rw [if_neg hc]

end

/-- `next_state` through `follow_transition`, given that `follow_transition` is right -/
theorem nextStateD_eq {N : CNfa} {rows : Array (Option (Array Nat))}
    (hf : ∀ sid b, followD N rows sid b = follow N sid b) (anch : Bool) :
    ∀ (fuel sid : Nat) (b : UInt8) (hops : Nat),
      nextStateD N rows anch fuel sid b hops = nextState N anch fuel sid b hops
  | 0, _, _, _ => rfl
  | fuel + 1, sid, b, hops => by
    show (if (followD N rows sid b != FAIL) = true then (followD N rows sid b, hops)
        else if anch = true then (DEAD, hops)
        else nextStateD N rows anch fuel (N.getD sid {}).fail b (hops + 1)) =
      (if (follow N sid b != FAIL) = true then (follow N sid b, hops)
        else if anch = true then (DEAD, hops)
        else nextState N anch fuel (N.getD sid {}).fail b (hops + 1))
    rw [hf, nextStateD_eq hf anch fuel]

end AcVerif.DenseP
