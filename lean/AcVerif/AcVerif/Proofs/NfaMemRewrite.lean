import AcVerif.Proofs.NfaMemTrans
/-!
# L1c-mem proofs, part 5: the compiler's in-place rewrites of `next`
(`add_unanchored_start_state_loop`, `close_start_state_loop_for_leftmost`, the lock-step loop of
`set_anchored_start_state`), and `states[sid].fail = f`
-/
namespace AcVerif.MemP
open AcVerif MemNfa

/-- the link `next_link` looks at -/
def curLink (m : MemNfa) (sid : Nat) (prev : Option Nat) : Nat :=
  match prev with
  | none => (m.st sid).sparse
  | some p => (m.tr p).link

theorem nextLink_eq (m : MemNfa) (sid : Nat) (prev : Option Nat) :
    m.nextLink sid prev = if curLink m sid prev = 0 then none else some (curLink m sid prev) := by
  unfold nextLink curLink
  cases prev <;> rfl

/-- `setNext` changes neither the vectors' lengths nor any link, byte, state or match -/
theorem tlink_setNext (m : MemNfa) {c : Nat} (hc : c < m.sparse.size) (t : Nat) :
    tlink (setNext m c t) = tlink m := by
  funext i
  unfold tlink
  rw [tr_setNext m hc]
  split
  · rename_i e; rw [e]
  · rfl

theorem replaceNextGo_spec (sid old new : Nat) {tc mc : Nat → List Nat} :
    ∀ (rest : List Nat) (fuel : Nat) (m : MemNfa) (prevLink : Option Nat), MemOKW m tc mc →
      (∀ i ∈ rest, i ∈ tc sid) → rest.Nodup → IsChain (tlink m) (curLink m sid prevLink) rest →
      rest.length ≤ fuel →
      MemOKW (replaceNextGo sid old new fuel m prevLink) tc mc ∧
      (replaceNextGo sid old new fuel m prevLink).states = m.states ∧
      (replaceNextGo sid old new fuel m prevLink).matches_ = m.matches_ ∧
      (∀ i, i ∈ rest → kv (replaceNextGo sid old new fuel m prevLink) i =
        ((m.tr i).byte, if (m.tr i).next = old then new else (m.tr i).next)) ∧
      (∀ i, i ∉ rest → (replaceNextGo sid old new fuel m prevLink).tr i = m.tr i) := by
  intro rest
  induction rest with
  | nil =>
    intro fuel m prevLink hw _ _ hc _
    have hc0 : curLink m sid prevLink = 0 := hc
    have : replaceNextGo sid old new fuel m prevLink = m := by
      cases fuel with
      | zero => rfl
      | succ f => simp only [replaceNextGo, nextLink_eq, hc0, if_true]
    rw [this]
    exact ⟨hw, rfl, rfl, (fun _ hi => nomatch hi), fun _ _ => rfl⟩
  | cons c rest ih =>
    intro fuel m prevLink hw hsub hnd hc hf
    obtain ⟨e, hc0, hrest⟩ := hc
    have hcm : c ∈ tc sid := hsub c List.mem_cons_self
    have hcs : c < m.sparse.size := hw.tlt sid c hcm
    have hnd' := List.nodup_cons.1 hnd
    cases fuel with
    | zero => simp at hf
    | succ f =>
      simp only [replaceNextGo, nextLink_eq, e, if_neg hc0]
      -- the memory after the (conditional) write
      generalize hm1 : (if (m.tr c).next = old then m.setTr c { m.tr c with next := new } else m)
        = m1
      have hm1' : m1 = setNext m c (if (m.tr c).next = old then new else (m.tr c).next) := by
        rw [← hm1]
        by_cases hn : (m.tr c).next = old
        · rw [if_pos hn, if_pos hn]; rfl
        · rw [if_neg hn, if_neg hn]
          unfold setNext MemNfa.setTr
          have : m.sparse.setIfInBounds c { m.tr c with next := (m.tr c).next } = m.sparse := by
            apply arr_ext_getD ({} : MTrans) (by simp)
            intro i _
            rw [arr_getD_set]
            split
            · rename_i h; rw [h.1]; rfl
            · rfl
          rw [this]
      have hw1 : MemOKW m1 tc mc := hm1' ▸ setNext_okw hw hcs hc0 _
      have htl : tlink m1 = tlink m := hm1' ▸ tlink_setNext m hcs _
      have htr1 : ∀ i, m1.tr i = if i = c then
          { m.tr c with next := if (m.tr c).next = old then new else (m.tr c).next }
          else m.tr i := fun i => hm1' ▸ tr_setNext m hcs _ i
      have hcur : curLink m1 sid (some c) = tlink m c := by
        show (m1.tr c).link = _
        rw [htr1, if_pos rfl]; rfl
      obtain ⟨i1, i2, i3, i4, i5⟩ := ih f m1 (some c) hw1
        (fun i hi => hsub i (List.mem_cons_of_mem _ hi)) hnd'.2
        (by rw [hcur, htl]; exact hrest) (by simpa using hf)
      refine ⟨i1, ?_, ?_, ?_, ?_⟩
      · rw [i2, hm1']; rfl
      · rw [i3, hm1']; rfl
      · intro i hi
        rcases List.mem_cons.1 hi with e' | e'
        · subst e'
          unfold kv
          rw [i5 i hnd'.1, htr1, if_pos rfl]
        · rw [i4 i e', htr1, if_neg (fun (h : i = c) => hnd'.1 (h ▸ e'))]
      · intro i hi
        have h1 : i ∉ rest := fun h => hi (List.mem_cons_of_mem _ h)
        have h2 : i ≠ c := fun h => hi (h ▸ List.mem_cons_self)
        rw [i5 i h1, htr1, if_neg h2]

/-- **the `next`-rewriting loops**: every `next == old` of the list of `sid` becomes `new` -/
theorem replaceNext_spec {m : MemNfa} (h : MemOK m) (sid old new : Nat) :
    let r := replaceNextGo sid old new (m.sparse.size + 1) m none
    MemOK r ∧
    r.iterTrans sid = (m.iterTrans sid).map (fun x => (x.1, if x.2 = old then new else x.2)) ∧
    (∀ s, s ≠ sid → r.iterTrans s = m.iterTrans s) ∧
    (∀ s, r.iterMatches s = m.iterMatches s) ∧
    (∀ s, (r.st s).fail = (m.st s).fail) ∧ r.states.size = m.states.size := by
  intro r
  obtain ⟨tc, mc, hw⟩ := h
  obtain ⟨i1, i2, i3, i4, i5⟩ := replaceNextGo_spec sid old new (tc sid) (m.sparse.size + 1) m none
    hw (fun _ hi => hi) (hw.tnodup sid) (hw.tchain sid) (Nat.le_succ_of_le (hw.tlen sid))
  have hst : ∀ s, r.st s = m.st s := fun s => by simp [MemNfa.st, r, i2]
  refine ⟨⟨_, _, i1⟩, ?_, ?_, ?_, ?_, ?_⟩
  · rw [iterTrans_eq i1, iterTrans_eq hw, List.map_map]
    exact List.map_congr_left fun i hi => i4 i hi
  · intro s hs
    rw [iterTrans_eq i1, iterTrans_eq hw]
    refine List.map_congr_left fun i hi => ?_
    unfold kv
    rw [i5 i (fun hm => hw.tdisj s sid hs i hi hm)]
  · intro s
    exact iterMatches_congr i3 (by rw [hst])
  · intro s; rw [hst]
  · show r.states.size = _; rw [i2]

/-! ## the lock-step loop of `set_anchored_start_state` -/

theorem copyNextGo_spec (su sa : Nat) (hne : su ≠ sa) {tc mc : Nat → List Nat} :
    ∀ (ar ur : List Nat) (fuel : Nat) (m : MemNfa) (up ap : Option Nat), MemOKW m tc mc →
      (∀ i ∈ ur, i ∈ tc su) → (∀ i ∈ ar, i ∈ tc sa) → ar.Nodup →
      IsChain (tlink m) (curLink m su up) ur → IsChain (tlink m) (curLink m sa ap) ar →
      ur.length = ar.length → ar.length ≤ fuel →
      ∃ r, copyNextGo su sa fuel m up ap = some r ∧ MemOKW r tc mc ∧ r.states = m.states ∧
        r.matches_ = m.matches_ ∧
        ar.map (kv r) = List.zipWith (fun a u => ((m.tr a).byte, (m.tr u).next)) ar ur ∧
        (∀ i, i ∉ ar → r.tr i = m.tr i) := by
  intro ar
  induction ar with
  | nil =>
    intro ur fuel m up ap hw _ _ _ hcu hca hlen _
    have : ur = [] := List.eq_nil_of_length_eq_zero hlen
    subst this
    have hu0 : curLink m su up = 0 := hcu
    have ha0 : curLink m sa ap = 0 := hca
    refine ⟨m, ?_, hw, rfl, rfl, rfl, fun _ _ => rfl⟩
    cases fuel with
    | zero => rfl
    | succ f => simp only [copyNextGo, nextLink_eq, hu0, ha0, if_true]
  | cons a ar ih =>
    intro ur fuel m up ap hw hsubu hsuba hnd hcu hca hlen hf
    cases ur with
    | nil => simp at hlen
    | cons u ur =>
      obtain ⟨eu, hu0, hurest⟩ := hcu
      obtain ⟨ea, ha0, harest⟩ := hca
      have ham : a ∈ tc sa := hsuba a List.mem_cons_self
      have has : a < m.sparse.size := hw.tlt sa a ham
      have hnd' := List.nodup_cons.1 hnd
      cases fuel with
      | zero => simp at hf
      | succ f =>
        simp only [copyNextGo, nextLink_eq, eu, ea, if_neg hu0, if_neg ha0]
        have hw1 : MemOKW (setNext m a (m.tr u).next) tc mc := setNext_okw hw has ha0 _
        have htl : tlink (setNext m a (m.tr u).next) = tlink m := tlink_setNext m has _
        have htr1 : ∀ i, (setNext m a (m.tr u).next).tr i =
            if i = a then { m.tr a with next := (m.tr u).next } else m.tr i :=
          fun i => tr_setNext m has _ i
        have hcu1 : curLink (setNext m a (m.tr u).next) su (some u) = tlink m u := by
          show ((setNext m a (m.tr u).next).tr u).link = _
          rw [htr1]; split
          · rename_i e; rw [e]; rfl
          · rfl
        have hca1 : curLink (setNext m a (m.tr u).next) sa (some a) = tlink m a := by
          show ((setNext m a (m.tr u).next).tr a).link = _
          rw [htr1, if_pos rfl]; rfl
        obtain ⟨r, j1, j2, j3, j4, j5, j6⟩ := ih ur f (setNext m a (m.tr u).next) (some u) (some a)
          hw1 (fun i hi => hsubu i (List.mem_cons_of_mem _ hi))
          (fun i hi => hsuba i (List.mem_cons_of_mem _ hi)) hnd'.2
          (by rw [hcu1, htl]; exact hurest) (by rw [hca1, htl]; exact harest)
          (by simpa using hlen) (by simpa using hf)
        refine ⟨r, j1, j2, j3, j4, ?_, ?_⟩
        · rw [List.map_cons, List.zipWith_cons_cons, j5]
          congr 1
          · unfold kv
            rw [j6 a hnd'.1, htr1, if_pos rfl]
          · -- the cells still to be visited are other cells than `a`
            have key : ∀ (l1 l2 : List Nat), (∀ i ∈ l1, i ≠ a) → (∀ i ∈ l2, i ≠ a) →
                List.zipWith (fun x y => (((setNext m a (m.tr u).next).tr x).byte,
                  ((setNext m a (m.tr u).next).tr y).next)) l1 l2 =
                List.zipWith (fun x y => ((m.tr x).byte, (m.tr y).next)) l1 l2 := by
              intro l1
              induction l1 with
              | nil => intro l2 _ _; rfl
              | cons x xs ihx =>
                intro l2 h1 h2
                cases l2 with
                | nil => rfl
                | cons y ys =>
                  rw [List.zipWith_cons_cons, List.zipWith_cons_cons,
                    ihx ys (fun i hi => h1 i (List.mem_cons_of_mem _ hi))
                      (fun i hi => h2 i (List.mem_cons_of_mem _ hi)),
                    htr1, htr1, if_neg (h1 x List.mem_cons_self), if_neg (h2 y List.mem_cons_self)]
            apply key
            · intro i hi e; subst e; exact hnd'.1 hi
            · intro i hi e; subst e
              exact hw.tdisj su sa hne i (hsubu i (List.mem_cons_of_mem _ hi)) ham
        · intro i hi
          have h1 : i ∉ ar := fun h => hi (List.mem_cons_of_mem _ h)
          have h2 : i ≠ a := fun h => hi (h ▸ List.mem_cons_self)
          rw [j6 i h1, htr1, if_neg h2]

theorem zipWith_same_bytes {α : Type} (bytea byteu : α → UInt8) (nextu : α → Nat) :
    ∀ (ar ur : List α), ar.map bytea = ur.map byteu →
      List.zipWith (fun a u => (bytea a, nextu u)) ar ur = ur.map fun u => (byteu u, nextu u) := by
  intro ar
  induction ar with
  | nil =>
    intro ur h
    have : ur = [] := by simpa using h.symm
    subst this; rfl
  | cons a ar ih =>
    intro ur h
    cases ur with
    | nil => simp at h
    | cons u ur =>
      simp only [List.map_cons, List.cons.injEq] at h
      rw [List.zipWith_cons_cons, List.map_cons, ih ur h.2, h.1]

/-- the lock-step loop: with the same bytes in both lists (both start states are fully
initialised), the anchored start gets the transition list of the unanchored start -/
theorem copyNext_spec {m : MemNfa} (h : MemOK m) {su sa : Nat} (hne : su ≠ sa)
    (hbytes : (m.iterTrans sa).map Prod.fst = (m.iterTrans su).map Prod.fst) :
    ∃ r, copyNextGo su sa (m.sparse.size + 1) m none none = some r ∧ MemOK r ∧
      r.iterTrans sa = m.iterTrans su ∧
      (∀ s, s ≠ sa → r.iterTrans s = m.iterTrans s) ∧
      (∀ s, r.iterMatches s = m.iterMatches s) ∧
      (∀ s, (r.st s).fail = (m.st s).fail) ∧ r.states.size = m.states.size := by
  obtain ⟨tc, mc, hw⟩ := h
  rw [iterTrans_eq hw, iterTrans_eq hw, List.map_map, List.map_map] at hbytes
  have hlen : (tc su).length = (tc sa).length := by
    have := congrArg List.length hbytes
    simpa using this.symm
  obtain ⟨r, j1, j2, j3, j4, j5, j6⟩ := copyNextGo_spec su sa hne (tc sa) (tc su)
    (m.sparse.size + 1) m none none hw (fun _ hi => hi) (fun _ hi => hi) (hw.tnodup sa)
    (hw.tchain su) (hw.tchain sa) hlen (Nat.le_succ_of_le (hw.tlen sa))
  have hst : ∀ s, r.st s = m.st s := fun s => by simp [MemNfa.st, j3]
  refine ⟨r, j1, ⟨_, _, j2⟩, ?_, ?_, ?_, ?_, ?_⟩
  · rw [iterTrans_eq j2, iterTrans_eq hw, j5]
    exact zipWith_same_bytes (fun a => (m.tr a).byte) (fun u => (m.tr u).byte)
      (fun u => (m.tr u).next) _ _ hbytes
  · intro s hs
    rw [iterTrans_eq j2, iterTrans_eq hw]
    refine List.map_congr_left fun i hi => ?_
    unfold kv
    rw [j6 i (fun hm => hw.tdisj s sa hs i hi hm)]
  · intro s
    exact iterMatches_congr j4 (by rw [hst])
  · intro s; rw [hst]
  · rw [j3]

/-! ## `states[sid].fail = f` -/

theorem setFail_spec {m : MemNfa} (h : MemOK m) (sid f : Nat) :
    MemOK (m.setFail sid f) ∧
    (∀ s, (m.setFail sid f).iterTrans s = m.iterTrans s) ∧
    (∀ s, (m.setFail sid f).iterMatches s = m.iterMatches s) ∧
    (∀ s, ((m.setFail sid f).st s).fail = if s = sid ∧ sid < m.states.size then f
      else (m.st s).fail) ∧
    (m.setFail sid f).states.size = m.states.size := by
  have hst : ∀ s, (m.setFail sid f).st s =
      if s = sid ∧ sid < m.states.size then { m.st sid with fail := f } else m.st s :=
    fun s => st_setSt m sid _ s
  have hheads : ∀ s, ((m.setFail sid f).st s).sparse = (m.st s).sparse ∧
      ((m.setFail sid f).st s).matches_ = (m.st s).matches_ := by
    intro s; rw [hst]; split
    · rename_i e; rw [e.1]; exact ⟨rfl, rfl⟩
    · exact ⟨rfl, rfl⟩
  obtain ⟨tc, mc, hw⟩ := h
  refine ⟨⟨tc, mc, ?_⟩, fun s => iterTrans_congr (m := m) (m' := m.setFail sid f) rfl (hheads s).1,
    fun s => iterMatches_congr (m := m) (m' := m.setFail sid f) rfl (hheads s).2, ?_,
    states_size_setSt ..⟩
  · exact {
      tpos := hw.tpos, mpos := hw.mpos, tsent := hw.tsent, msent := hw.msent
      tchain := fun s => by rw [(hheads s).1]; exact hw.tchain s
      tlt := hw.tlt, tsorted := hw.tsorted, tdisj := hw.tdisj
      mchain := fun s => by rw [(hheads s).2]; exact hw.mchain s
      mlt := hw.mlt, mnodup := hw.mnodup, mdisj := hw.mdisj }
  · intro s; rw [hst]; split <;> rfl

end AcVerif.MemP
