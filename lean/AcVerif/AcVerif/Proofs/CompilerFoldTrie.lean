import AcVerif.Proofs.CompilerRun
import AcVerif.Proofs.FoldFacts
/-!
# L1c with `fold = true`, part 1: the trie phase (`build_trie`, ASCII case-insensitive)

The patterns are inserted as given; every new edge on byte `b` is doubled by an edge on
`oppositeAsciiCase b` to the same node.  The nodes are named by the FOLDED strings: the trie is the
trie of the folded patterns with the edge on `foldByte b` reachable through every `b`.
-/
namespace AcVerif.L1cFoldP
open AcVerif AcVerif.CNfa AcVerif.L1cP AcVerif.MiscP

/-- folding a string -/
abbrev fs (u : List UInt8) : List UInt8 := u.map foldByte

theorem fs_fs (u : List UInt8) : fs (fs u) = fs u := by
  simp only [fs, List.map_map]
  apply List.map_congr_left
  intro b _
  exact fold_idem b

/-- The trie invariant for `fold = true`.  `L` lists the (folded) strings of the states `4, 5, …`
in allocation order, `Qs` is the set of folded patterns added so far, `w` the folded part of the
current pattern already walked. -/
structure TIf (n : CNfa) (L : List (List UInt8)) (Qs : PatSet UInt8) (w : List UInt8) : Prop where
  size : n.size = L.length + 4
  nodup : L.Nodup
  mem : ∀ v, v ∈ L ↔ v ≠ [] ∧ (isPref Qs v = true ∨ v <+: w)
  folded : ∀ v, v ∈ L → fs v = v
  goto_in : ∀ u b, (u = [] ∨ u ∈ L) → u ++ [foldByte b] ∈ L →
    follow n (nu L u) b = nu L (u ++ [foldByte b])
  goto_out : ∀ u b, (u = [] ∨ u ∈ L) → u ++ [foldByte b] ∉ L → follow n (nu L u) b = FAIL
  sorted : ∀ sid, Sorted (n.getD sid {}).trans
  nofail : ∀ u, u ∈ L → ∀ x ∈ (n.getD (nu L u) {}).trans, x.2 ≠ FAIL
  full : ∀ b, ∃ t, (b, t) ∈ (n.getD SU {}).trans
  mats : ∀ u, (u = [] ∨ u ∈ L) → (n.getD (nu L u) {}).matches_ = idsOf Qs u
  fail : ∀ sid, (n.getD sid {}).fail = SU
  s0 : n.getD 0 {} = { trans := fullTrans DEAD, fail := SU }
  s1 : n.getD 1 {} = { fail := SU }
  s3 : n.getD 3 {} = { trans := fullTrans FAIL, fail := SU }
  depth : ∀ u, u ∈ L → u.length + 3 ≤ nu L u

namespace TIf
variable {n : CNfa} {L : List (List UInt8)} {Qs : PatSet UInt8} {w : List UInt8}

theorem nil_not_mem (h : TIf n L Qs w) : [] ∉ L := fun hm => ((h.mem []).1 hm).1 rfl

theorem closed (h : TIf n L Qs w) {v : List UInt8} {b : UInt8} (hm : v ++ [b] ∈ L) :
    v = [] ∨ v ∈ L := by
  by_cases h0 : v = []
  · exact Or.inl h0
  · right
    rw [h.mem] at hm ⊢
    refine ⟨h0, ?_⟩
    rcases hm.2 with hp | hp
    · exact Or.inl (LmP.isPref_of_append hp)
    · exact Or.inr ((List.prefix_append v [b]).trans hp)

theorem cur (h : TIf n L Qs w) : w = [] ∨ w ∈ L := by
  by_cases h0 : w = []
  · exact Or.inl h0
  · exact Or.inr ((h.mem w).2 ⟨h0, Or.inr (List.prefix_refl w)⟩)

theorem cur_folded (h : TIf n L Qs w) : fs w = w := by
  rcases h.cur with e | e
  · subst e; rfl
  · exact h.folded w e

theorem nu_lt_size (h : TIf n L Qs w) {u : List UInt8} (hu : u = [] ∨ u ∈ L) : nu L u < n.size := by
  rw [h.size]
  rcases hu with h0 | hm
  · subst h0; simp [SU]
  · exact nu_lt hm (fun e => h.nil_not_mem (e ▸ hm))

theorem len_le (h : TIf n L Qs w) {u : List UInt8} (hu : u = [] ∨ u ∈ L) : u.length ≤ L.length := by
  rcases hu with h0 | hm
  · subst h0; simp
  · have h1 := h.depth u hm
    have h2 := nu_lt hm (fun e => h.nil_not_mem (e ▸ hm))
    omega

/-- the next (folded) byte leads to an existing node -/
theorem advance (h : TIf n L Qs w) (b : UInt8) (hx : w ++ [b] ∈ L) : TIf n L Qs (w ++ [b]) := by
  refine { h with mem := ?_ }
  intro v
  rw [h.mem v, List.prefix_concat_iff]
  constructor
  · rintro ⟨h0, hp | hp⟩
    · exact ⟨h0, Or.inl hp⟩
    · exact ⟨h0, Or.inr (Or.inr hp)⟩
  · rintro ⟨h0, hp | hp | hp⟩
    · exact ⟨h0, Or.inl hp⟩
    · subst hp; exact (h.mem _).1 hx
    · exact ⟨h0, Or.inr hp⟩

end TIf

/-! ## the doubled edge -/

theorem getD_extend2 (n : CNfa) (prev : Nat) (b : UInt8) (hp : prev < n.size) (sid : Nat) :
    (addTransition (addTransition (n.push { fail := SU }) prev b n.size) prev
        (oppositeAsciiCase b) n.size).getD sid {} =
      if sid = prev then
        { n.getD prev {} with
          trans := insertTrans (oppositeAsciiCase b) n.size
            (insertTrans b n.size (n.getD prev {}).trans) }
      else n.getD sid {} := by
  have h1 := getD_extend n prev b hp
  rw [addTransition, getD_modify]
  by_cases h : sid = prev
  · subst h
    rw [if_pos ⟨rfl, by
      unfold addTransition
      rw [Array.size_modify, Array.size_push]; omega⟩, if_pos rfl, h1, if_pos rfl]
  · rw [if_neg (fun hh => h hh.1.symm), if_neg h, h1, if_neg h]

theorem follow_extend2 (n : CNfa) (prev : Nat) (b : UInt8) (hp : prev < n.size) (sid : Nat)
    (c : UInt8) :
    follow (addTransition (addTransition (n.push { fail := SU }) prev b n.size) prev
        (oppositeAsciiCase b) n.size) sid c =
      if sid = prev ∧ foldByte c = foldByte b then n.size else follow n sid c := by
  rw [follow_eq, getD_extend2 n prev b hp]
  by_cases h : sid = prev
  · subst h
    rw [if_pos rfl]
    show lookup (insertTrans (oppositeAsciiCase b) n.size
      (insertTrans b n.size (n.getD sid {}).trans)) c = _
    rw [lookup_insertTrans, lookup_insertTrans]
    by_cases hc : foldByte c = foldByte b
    · have hr : (if sid = sid ∧ foldByte c = foldByte b then n.size else follow n sid c) = n.size :=
        if_pos ⟨rfl, hc⟩
      rw [hr]
      rcases (fold_eq_iff c b).1 hc with e | e
      · by_cases e' : c = oppositeAsciiCase b
        · rw [if_pos e']
        · rw [if_neg e', if_pos e]
      · rw [if_pos e]
    · have hr : (if sid = sid ∧ foldByte c = foldByte b then n.size else follow n sid c) =
          follow n sid c := if_neg (fun hh => hc hh.2)
      rw [hr]
      have h1 : ¬ c = oppositeAsciiCase b := fun e => hc ((fold_eq_iff c b).2 (Or.inr e))
      have h2 : ¬ c = b := fun e => hc ((fold_eq_iff c b).2 (Or.inl e))
      rw [if_neg h1, if_neg h2, follow_eq]
  · rw [if_neg h, if_neg (fun hh => h hh.1), follow_eq]

/-- the next byte has no transition: a node is allocated, with its two edges -/
theorem TIf.extend {n : CNfa} {L : List (List UInt8)} {Qs : PatSet UInt8} {w : List UInt8}
    (h : TIf n L Qs w) (b : UInt8) (hx : w ++ [foldByte b] ∉ L) :
    TIf (addTransition (addTransition (n.push { fail := SU }) (nu L w) b n.size) (nu L w)
        (oppositeAsciiCase b) n.size) (L ++ [w ++ [foldByte b]]) Qs (w ++ [foldByte b]) := by
  have hw := h.cur
  have hprev : nu L w < n.size := h.nu_lt_size hw
  have hx0 : w ++ [foldByte b] ≠ [] := by simp
  have hnil := h.nil_not_mem
  have hnu_old : ∀ v, (v = [] ∨ v ∈ L) → nu (L ++ [w ++ [foldByte b]]) v = nu L v := fun v hv =>
    nu_append _ hv
  have hnu_x : nu (L ++ [w ++ [foldByte b]]) (w ++ [foldByte b]) = n.size := by
    rw [nu_new hx hx0, h.size]
  have hget := getD_extend2 n (nu L w) b hprev
  have hfol := follow_extend2 n (nu L w) b hprev
  -- members of the new list
  have hmemL' : ∀ v, v ∈ L ++ [w ++ [foldByte b]] ↔ v ∈ L ∨ v = w ++ [foldByte b] := by
    intro v; simp [List.mem_append]
  -- a node of the new list with an existing child is old
  have hold : ∀ u c, (u = [] ∨ u ∈ L ++ [w ++ [foldByte b]]) →
      u ++ [c] ∈ L ++ [w ++ [foldByte b]] → u = [] ∨ u ∈ L := by
    intro u c hu hin
    rcases hu with h0 | hm
    · exact Or.inl h0
    · rcases (hmemL' u).1 hm with hm | hm
      · exact Or.inr hm
      · subst hm
        rcases (hmemL' _).1 hin with hin | hin
        · rcases h.closed hin with e | e
          · exact absurd e hx0
          · exact absurd e hx
        · have := congrArg List.length hin
          simp at this
  have hxnotpref : isPref Qs (w ++ [foldByte b]) = false := by
    cases hp : isPref Qs (w ++ [foldByte b])
    · rfl
    · exact absurd ((h.mem _).2 ⟨hx0, Or.inl hp⟩) hx
  have hsz4 : 4 ≤ n.size := by rw [h.size]; omega
  refine
    { size := ?_, nodup := ?_, mem := ?_, folded := ?_, goto_in := ?_, goto_out := ?_,
      sorted := ?_, nofail := ?_, full := ?_, mats := ?_, fail := ?_, s0 := ?_, s1 := ?_,
      s3 := ?_, depth := ?_ }
  · unfold addTransition
    rw [Array.size_modify, Array.size_modify, Array.size_push, h.size]; simp
  · rw [List.nodup_append]
    refine ⟨h.nodup, by simp, ?_⟩
    intro a ha b' hb'
    rw [List.mem_singleton] at hb'
    subst hb'
    intro e; subst e; exact hx ha
  · intro v
    rw [hmemL', h.mem v, List.prefix_concat_iff]
    constructor
    · rintro (⟨h0, hp | hp⟩ | hv)
      · exact ⟨h0, Or.inl hp⟩
      · exact ⟨h0, Or.inr (Or.inr hp)⟩
      · subst hv; exact ⟨hx0, Or.inr (Or.inl rfl)⟩
    · rintro ⟨h0, hp | hp | hp⟩
      · exact Or.inl ⟨h0, Or.inl hp⟩
      · exact Or.inr hp
      · exact Or.inl ⟨h0, Or.inr hp⟩
  · intro v hv
    rcases (hmemL' v).1 hv with hv | hv
    · exact h.folded v hv
    · subst hv
      show (w ++ [foldByte b]).map foldByte = _
      rw [List.map_append, List.map_singleton, fold_idem]
      have := h.cur_folded
      simp only [fs] at this
      rw [this]
  · intro u c hu hin
    have hu' := hold u _ hu hin
    rw [hnu_old u hu', hfol]
    rcases (hmemL' _).1 hin with hin1 | hin1
    · have hne : ¬ (nu L u = nu L w ∧ foldByte c = foldByte b) := by
        rintro ⟨e1, e2⟩
        have := nu_inj hu' hw e1
        rw [this, e2] at hin1; exact hx hin1
      rw [if_neg hne, hnu_old _ (Or.inr hin1)]
      exact h.goto_in u c hu' hin1
    · obtain ⟨e1, e2⟩ := List.append_inj' hin1 rfl
      have e2 : foldByte c = foldByte b := by simpa using e2
      subst e1
      rw [if_pos ⟨rfl, e2⟩, e2, hnu_x]
  · intro u c hu hout
    have hout' : u ++ [foldByte c] ∉ L ∧ u ++ [foldByte c] ≠ w ++ [foldByte b] := by
      constructor
      · exact fun hm => hout ((hmemL' _).2 (Or.inl hm))
      · exact fun hm => hout ((hmemL' _).2 (Or.inr hm))
    by_cases hux : u = w ++ [foldByte b]
    · subst hux
      rw [hnu_x, follow_eq, hget, if_neg (by omega), getD_of_size_le _ (Nat.le_refl _)]
      rfl
    · have hu' : u = [] ∨ u ∈ L := by
        rcases hu with h0 | hm
        · exact Or.inl h0
        · exact Or.inr (((hmemL' u).1 hm).resolve_right hux)
      rw [hnu_old u hu', hfol]
      have hne : ¬ (nu L u = nu L w ∧ foldByte c = foldByte b) := by
        rintro ⟨e1, e2⟩
        have := nu_inj hu' hw e1
        rw [this, e2] at hout'; exact hout'.2 rfl
      rw [if_neg hne]
      exact h.goto_out u c hu' hout'.1
  · intro sid
    rw [hget]
    by_cases e : sid = nu L w
    · rw [if_pos e]; exact sorted_insertTrans (sorted_insertTrans (h.sorted _))
    · rw [if_neg e]; exact h.sorted sid
  · intro u hu x hxm
    by_cases hux : u = w ++ [foldByte b]
    · subst hux
      rw [hnu_x, hget, if_neg (by omega), getD_of_size_le _ (Nat.le_refl _)] at hxm
      simp at hxm
    · have hu' : u ∈ L := ((hmemL' u).1 hu).resolve_right hux
      rw [hnu_old u (Or.inr hu'), hget] at hxm
      by_cases e : nu L u = nu L w
      · rw [if_pos e] at hxm
        rcases mem_insertTrans hxm with e' | e'
        · subst e'; simp only [FAIL]; omega
        · rcases mem_insertTrans e' with e'' | e''
          · subst e''; simp only [FAIL]; omega
          · rw [← e] at e''; exact h.nofail u hu' x e''
      · rw [if_neg e] at hxm; exact h.nofail u hu' x hxm
  · intro c
    rw [hget]
    by_cases e : SU = nu L w
    · rw [if_pos e]
      have := h.full c
      rw [e] at this
      exact key_mem_insertTrans (key_mem_insertTrans this)
    · rw [if_neg e]; exact h.full c
  · intro u hu
    by_cases hux : u = w ++ [foldByte b]
    · subst hux
      rw [hnu_x, hget, if_neg (by omega), getD_of_size_le _ (Nat.le_refl _),
        idsOf_nil_of_not_isPref hxnotpref]
    · have hu' : u = [] ∨ u ∈ L := by
        rcases hu with h0 | hm
        · exact Or.inl h0
        · exact Or.inr (((hmemL' u).1 hm).resolve_right hux)
      rw [hnu_old u hu', hget]
      by_cases e : nu L u = nu L w
      · rw [if_pos e]
        have := h.mats u hu'
        rw [e] at this; exact this
      · rw [if_neg e]; exact h.mats u hu'
  · intro sid
    rw [hget]
    by_cases e : sid = nu L w
    · rw [if_pos e]; exact h.fail _
    · rw [if_neg e]; exact h.fail sid
  · rw [hget, if_neg (by rcases nu_cases L w with e | e <;> omega)]; exact h.s0
  · rw [hget, if_neg (by rcases nu_cases L w with e | e <;> omega)]; exact h.s1
  · rw [hget, if_neg (by rcases nu_cases L w with e | e <;> omega)]; exact h.s3
  · intro u hu
    rcases (hmemL' u).1 hu with hm | hm
    · rw [hnu_old u (Or.inr hm)]; exact h.depth u hm
    · subst hm
      rw [hnu_x, h.size]
      have := h.len_le hw
      simp only [List.length_append, List.length_singleton]; omega

/-- the initial four states -/
theorem TIf_init : TIf init [] [] [] := by
  have h := TI_init
  exact
    { size := h.size, nodup := h.nodup, mem := h.mem, folded := fun v hv => by simp at hv,
      goto_in := fun u b _ hin => by simp at hin,
      goto_out := fun u b hu _ => h.goto_out u b hu (by simp),
      sorted := h.sorted, nofail := h.nofail, full := h.full, mats := h.mats, fail := h.fail,
      s0 := h.s0, s1 := h.s1, s3 := h.s3, depth := h.depth }

/-! ## one pattern -/

theorem addPattern_spec_f (lf : Bool) (Qs : PatSet UInt8) :
    ∀ (rest : List UInt8) (n : CNfa) (L : List (List UInt8)) (w : List UInt8) (saw : Bool),
      TIf n L Qs w → (lf = true → saw = false) →
      match addPattern lf true n (nu L w) saw rest with
      | none => lf = true ∧ ∃ j, j < rest.length ∧ idsOf Qs (w ++ fs (rest.take j)) ≠ []
      | some (n', last) =>
        (lf = true → ∀ j, j < rest.length → idsOf Qs (w ++ fs (rest.take j)) = []) ∧
          ∃ L', TIf n' L' Qs (w ++ fs rest) ∧ last = nu L' (w ++ fs rest)
  | [], n, L, w, saw, h, _ => by
    simp only [addPattern, fs, List.map_nil, List.append_nil]
    exact ⟨fun _ j hj => absurd hj (Nat.not_lt_zero j), L, h, rfl⟩
  | b :: rest, n, L, w, saw, h, hsaw => by
    have hw := h.cur
    have hm : isMatch n (nu L w) = !(idsOf Qs w).isEmpty := by
      rw [isMatch_eq, h.mats w hw]
    rw [addPattern]
    simp only [hm]
    by_cases hc : (lf && (saw || !(idsOf Qs w).isEmpty)) = true
    · rw [if_pos hc]
      simp only [Bool.and_eq_true, Bool.or_eq_true] at hc
      obtain ⟨hlf, hs | hs⟩ := hc
      · rw [hsaw hlf] at hs; cases hs
      · refine ⟨hlf, 0, by simp, ?_⟩
        simp only [List.take_zero, fs, List.map_nil, List.append_nil]
        intro e; rw [e] at hs; simp at hs
    · rw [if_neg hc]
      have hsaw' : lf = true → (saw || !(idsOf Qs w).isEmpty) = false := by
        intro hlf
        cases hh : (saw || !(idsOf Qs w).isEmpty)
        · rfl
        · exact absurd (by rw [hlf, hh]; rfl) hc
      have hw0 : lf = true → idsOf Qs w = [] := by
        intro hlf
        have := hsaw' hlf
        simp only [Bool.or_eq_false_iff, Bool.not_eq_false', List.isEmpty_iff] at this
        exact this.2
      -- reassemble the conclusions for `b :: rest` from those for `rest` at `w ++ [fold b]`
      have hshift : ∀ j, w ++ fs ((b :: rest).take (j + 1)) =
          (w ++ [foldByte b]) ++ fs (rest.take j) := by
        intro j; simp [fs]
      have hfull : w ++ fs (b :: rest) = (w ++ [foldByte b]) ++ fs rest := by simp [fs]
      have key : ∀ (r : Option (CNfa × Nat)),
          (match r with
            | none => lf = true ∧ ∃ j, j < rest.length ∧
                idsOf Qs ((w ++ [foldByte b]) ++ fs (rest.take j)) ≠ []
            | some (n', last) =>
              (lf = true → ∀ j, j < rest.length →
                  idsOf Qs ((w ++ [foldByte b]) ++ fs (rest.take j)) = []) ∧
                ∃ L', TIf n' L' Qs ((w ++ [foldByte b]) ++ fs rest) ∧
                  last = nu L' ((w ++ [foldByte b]) ++ fs rest)) →
          (match r with
            | none => lf = true ∧ ∃ j, j < (b :: rest).length ∧
                idsOf Qs (w ++ fs ((b :: rest).take j)) ≠ []
            | some (n', last) =>
              (lf = true → ∀ j, j < (b :: rest).length →
                  idsOf Qs (w ++ fs ((b :: rest).take j)) = []) ∧
                ∃ L', TIf n' L' Qs (w ++ fs (b :: rest)) ∧ last = nu L' (w ++ fs (b :: rest))) := by
        intro r hr
        cases r with
        | none =>
          obtain ⟨hlf, j, hj, hne⟩ := hr
          exact ⟨hlf, j + 1, by simp; omega, by rw [hshift]; exact hne⟩
        | some p =>
          obtain ⟨n', last⟩ := p
          obtain ⟨h1, L', hT, hl⟩ := hr
          refine ⟨?_, L', by rw [hfull]; exact hT, by rw [hfull]; exact hl⟩
          intro hlf j hj
          cases j with
          | zero => simpa [fs] using hw0 hlf
          | succ j =>
            rw [hshift]
            exact h1 hlf j (by simp at hj; omega)
      by_cases hx : w ++ [foldByte b] ∈ L
      · have hf : follow n (nu L w) b = nu L (w ++ [foldByte b]) := h.goto_in w b hw hx
        have hne : (follow n (nu L w) b != FAIL) = true := by
          rw [hf]; simpa using nu_ne_fail L (w ++ [foldByte b])
        simp only [hne, if_true]
        rw [hf]
        exact key _ (addPattern_spec_f lf Qs rest n L (w ++ [foldByte b]) _ (h.advance _ hx) hsaw')
      · have hf : follow n (nu L w) b = FAIL := h.goto_out w b hw hx
        have hne : ¬ (follow n (nu L w) b != FAIL) = true := by
          rw [hf]; simp
        simp only [hne, if_false, Bool.false_eq_true, if_true]
        have hT := h.extend b hx
        have hnx : n.size = nu (L ++ [w ++ [foldByte b]]) (w ++ [foldByte b]) := by
          rw [nu_new hx (by simp), h.size]
        have := addPattern_spec_f lf Qs rest _ _ (w ++ [foldByte b])
          (saw || !(idsOf Qs w).isEmpty) hT hsaw'
        rw [← hnx] at this
        exact key _ this

/-! ## the fold over the patterns -/

/-- adding the id of a pattern to its last node -/
theorem TIf.finish {n : CNfa} {L : List (List UInt8)} {Qs : PatSet UInt8} {p : List UInt8}
    (h : TIf n L Qs p) (pid : Nat) :
    TIf (n.modify (nu L p) fun st => { st with matches_ := st.matches_ ++ [pid] }) L
      (Qs ++ [(p, pid)]) [] := by
  have hp := h.cur
  have hlt := h.nu_lt_size hp
  have hget : ∀ sid, (n.modify (nu L p) fun st => { st with matches_ := st.matches_ ++ [pid] }).getD
      sid {} = if sid = nu L p then { n.getD sid {} with matches_ := (n.getD sid {}).matches_ ++ [pid] }
        else n.getD sid {} := by
    intro sid
    rw [getD_modify]
    by_cases e : sid = nu L p
    · subst e; rw [if_pos ⟨rfl, hlt⟩, if_pos rfl]
    · rw [if_neg (fun hh => e hh.1.symm), if_neg e]
  have htr : ∀ sid, ((n.modify (nu L p) fun st =>
      { st with matches_ := st.matches_ ++ [pid] }).getD sid {}).trans = (n.getD sid {}).trans := by
    intro sid; rw [hget]; split <;> rfl
  have hfol : ∀ sid c, follow (n.modify (nu L p) fun st =>
      { st with matches_ := st.matches_ ++ [pid] }) sid c = follow n sid c := by
    intro sid c; rw [follow_eq, follow_eq, htr]
  refine
    { size := ?_, nodup := h.nodup, mem := ?_, folded := h.folded, goto_in := ?_, goto_out := ?_,
      sorted := ?_, nofail := ?_, full := ?_, mats := ?_, fail := ?_, s0 := ?_, s1 := ?_,
      s3 := ?_, depth := h.depth }
  · rw [Array.size_modify]; exact h.size
  · intro v
    rw [h.mem v, isPref_append_single]
    constructor
    · rintro ⟨h0, hp | hp⟩
      · exact ⟨h0, Or.inl (by simp [hp])⟩
      · exact ⟨h0, Or.inl (by simp [List.isPrefixOf_iff_prefix.2 hp])⟩
    · rintro ⟨h0, hp | hp⟩
      · simp only [Bool.or_eq_true] at hp
        rcases hp with hp | hp
        · exact ⟨h0, Or.inl hp⟩
        · exact ⟨h0, Or.inr (List.isPrefixOf_iff_prefix.1 hp)⟩
      · exact absurd (List.prefix_nil.1 hp) h0
  · intro u b hu hin; rw [hfol]; exact h.goto_in u b hu hin
  · intro u b hu hout; rw [hfol]; exact h.goto_out u b hu hout
  · intro sid; rw [htr]; exact h.sorted sid
  · intro u hu x hx; rw [htr] at hx; exact h.nofail u hu x hx
  · intro b; rw [htr]; exact h.full b
  · intro u hu
    rw [hget, idsOf_append_single]
    by_cases e : nu L u = nu L p
    · have := nu_inj hu hp e
      subst this
      rw [if_pos rfl, if_pos rfl]
      show (n.getD (nu L u) {}).matches_ ++ [pid] = _
      rw [h.mats u hu]
    · have : ¬ p = u := fun e' => e (by rw [e'])
      rw [if_neg e, if_neg this, List.append_nil]; exact h.mats u hu
  · intro sid; rw [hget]; split
    · exact h.fail sid
    · exact h.fail sid
  · rw [hget, if_neg (by rcases nu_cases L p with e | e <;> omega)]; exact h.s0
  · rw [hget, if_neg (by rcases nu_cases L p with e | e <;> omega)]; exact h.s1
  · rw [hget, if_neg (by rcases nu_cases L p with e | e <;> omega)]; exact h.s3

theorem buildTrie_snoc_f (k : MatchKind) (fold : Bool) (P : List (List UInt8)) (p : List UInt8) :
    buildTrie k fold (P ++ [p]) =
      match addPattern (k == .lf) fold (buildTrie k fold P) SU false p with
      | none => buildTrie k fold P
      | some (n, last) => n.modify last fun st => { st with matches_ := st.matches_ ++ [P.length] } := by
  unfold buildTrie
  rw [List.zipIdx_append, List.foldl_append]
  simp only [List.zipIdx_cons, List.zipIdx_nil, List.foldl_cons, List.foldl_nil, Nat.zero_add]
  rfl

/-- the folded pattern list -/
abbrev foldPats (P : List (List UInt8)) : List (List UInt8) := P.map fs

/-- (a) the trie phase with `fold = true`: the states `≥ 4` are the non-empty prefixes of the kept
FOLDED patterns; the edge to the child `u ++ [foldByte b]` is taken on `b`; the match list of a
node lists the kept patterns whose fold is the node's string; the leftmost-first skipping rule is
`keepLF` of the folded patterns -/
theorem buildTrie_fold_spec (k : MatchKind) :
    ∀ P : List (List UInt8), ∃ L, TIf (buildTrie k true P) L (patSet k (foldPats P)) [] := by
  apply list_reverse_induction
  · exact ⟨[], by
      have : patSet k (foldPats ([] : List (List UInt8))) = [] := by cases k <;> rfl
      rw [this]; exact TIf_init⟩
  · intro P p ⟨L, hT⟩
    have hPf : foldPats (P ++ [p]) = foldPats P ++ [fs p] := by simp [foldPats]
    have hlen : (foldPats P).length = P.length := by simp [foldPats]
    rw [buildTrie_snoc_f, hPf, patSet_concat]
    have hspec := addPattern_spec_f (k == .lf) (patSet k (foldPats P)) p (buildTrie k true P) L []
      false hT (fun _ => rfl)
    rw [nu_nil] at hspec
    cases hr : addPattern (k == .lf) true (buildTrie k true P) SU false p with
    | none =>
      rw [hr] at hspec
      obtain ⟨hlf, j, hj, hne⟩ := hspec
      have hk : k = .lf := by simpa using hlf
      subst hk
      simp only [List.nil_append] at hne
      have : keepLF (foldPats P ++ [fs p]) (fs p, (foldPats P).length) = false :=
        (keepLF_concat_false_iff (foldPats P) (fs p)).2
          ⟨j, by simpa [fs] using hj, by
            have : (fs p).take j = fs (p.take j) := by simp [fs, List.map_take]
            rw [this]; exact hne⟩
      rw [if_pos ⟨rfl, this⟩, List.append_nil]
      exact ⟨L, hT⟩
    | some r =>
      obtain ⟨n', last⟩ := r
      rw [hr] at hspec
      obtain ⟨h1, L', hT', hl⟩ := hspec
      simp only [List.nil_append] at h1 hT' hl
      have hcond : ¬ (k = .lf ∧ keepLF (foldPats P ++ [fs p]) (fs p, (foldPats P).length) = false) := by
        rintro ⟨hk, hkeep⟩
        subst hk
        obtain ⟨j, hj, hne⟩ := (keepLF_concat_false_iff (foldPats P) (fs p)).1 hkeep
        have : (fs p).take j = fs (p.take j) := by simp [fs, List.map_take]
        rw [this] at hne
        exact hne (h1 rfl j (by simpa [fs] using hj))
      rw [if_neg hcond]
      subst hl
      rw [hlen]
      exact ⟨L', hT'.finish P.length⟩

end AcVerif.L1cFoldP
