import AcVerif.ContigModel
import AcVerif.Proofs.DfaOne
/-!
# L1e proofs, part 0: names for the pieces of `buildContig`, and the interfaces between the parts

* `cOrder`, `cNa`, `cPos`: the shuffle (`order`, `nextAvail`, and the inverse table `pos`);
* `ShufOK`: all that the layout needs of the shuffle;
* `FX`: what the contiguous builder needs of the *lists* of the compiled NFA beyond `FS`
  (which only speaks of `follow`): sorted keys, no `FAIL` target at trie nodes, full start states;
* `sparseScan`: the class scan of `next_state` on a sparse state.
-/
namespace AcVerif.L1eP
open AcVerif AcVerif.CNfa AcVerif.L1cP AcVerif.L1dP

/-- `order[newpos] = old id` -/
def cOrder (n : CNfa) : Array Nat := (shuffleOrder n).1

/-- `nextAvail` after the match states were moved to the front -/
def cNa (n : CNfa) : Nat := (shuffleOrder n).2

/-- old id → shuffled position -/
def cPos (n : CNfa) : Array Nat :=
  (List.range n.size).foldl (fun (p : Array Nat) i => p.set! ((cOrder n).getD i 0) i)
    (Array.replicate n.size 0)

/-- the shuffle is a permutation fixing `DEAD` and `FAIL`; the match states with old id `≥ 4` sit
at positions `2 .. nextAvail - 3`, then the two start states, then the other states -/
structure ShufOK (n : CNfa) : Prop where
  size_order : (cOrder n).size = n.size
  size_pos : (cPos n).size = n.size
  order_lt : ∀ i, i < n.size → (cOrder n).getD i 0 < n.size
  pos_lt : ∀ s, s < n.size → (cPos n).getD s 0 < n.size
  order_pos : ∀ s, s < n.size → (cOrder n).getD ((cPos n).getD s 0) 0 = s
  pos_order : ∀ i, i < n.size → (cPos n).getD ((cOrder n).getD i 0) 0 = i
  na_ge : 4 ≤ cNa n
  na_le : cNa n ≤ n.size
  pos0 : (cPos n).getD 0 0 = 0
  pos1 : (cPos n).getD 1 0 = 1
  posSU : (cPos n).getD 2 0 = cNa n - 2
  posSA : (cPos n).getD 3 0 = cNa n - 1
  pos_match : ∀ s, 4 ≤ s → s < n.size → CNfa.isMatch n s = true →
    2 ≤ (cPos n).getD s 0 ∧ (cPos n).getD s 0 + 3 ≤ cNa n
  pos_nomatch : ∀ s, 4 ≤ s → s < n.size → CNfa.isMatch n s = false → cNa n ≤ (cPos n).getD s 0

/-- list-level facts about the compiled NFA (`FS` only describes `follow`) -/
structure FX (L : List (List UInt8)) (N : CNfa) : Prop where
  sorted : ∀ sid, Sorted (N.getD sid {}).trans
  nofail : ∀ u, u ∈ L → ∀ x ∈ (N.getD (nu L u) {}).trans, x.2 ≠ FAIL
  fullSU : ∀ b, ∃ t, (b, t) ∈ (N.getD SU {}).trans
  fullSA : ∀ b, ∃ t, (b, t) ∈ (N.getD SA {}).trans

/-- the scan over the packed classes of a sparse state (the `else` branch of
`ContigM.nextState`): `w` reads a word, the class words start at `base`, the targets at `toff` -/
def sparseScan (w : Nat → Nat) (cls base toff m : Nat) : Option Nat :=
  (List.range m).findSome? fun i =>
    let chunk := w (base + i)
    if chunk % 256 == cls then some (w (toff + i * 4))
    else if (chunk / 256) % 256 == cls then some (w (toff + i * 4 + 1))
    else if (chunk / 65536) % 256 == cls then some (w (toff + i * 4 + 2))
    else if (chunk / 16777216) % 256 == cls then some (w (toff + i * 4 + 3))
    else none

/-! ## the pieces of `buildContig` -/

/-- `State::write` of the state at shuffled position `i` -/
def cW (n : CNfa) (dd : Nat) (bc : Bool) (newId : Nat → Nat) (i : Nat) : List Nat :=
  writeState (clsOf n bc) (ncOf n bc) (n.getD ((cOrder n).getD i 0) {}) newId
    (decide ((storedDepths n).getD ((cOrder n).getD i 0) 0 < dd))

def cSizes (n : CNfa) (dd : Nat) (bc : Bool) : List Nat :=
  (List.range n.size).map fun i => if i == FAIL then 0 else (cW n dd bc (fun t => t) i).length

def cOffsets (n : CNfa) (dd : Nat) (bc : Bool) : Array Nat :=
  ((List.range n.size).foldl (fun (acc : Array Nat × Nat) i =>
    if i == FAIL then (acc.1.push FAIL, acc.2)
    else (acc.1.push acc.2, acc.2 + (cSizes n dd bc).getD i 0)) (#[], 0)).1

def cNewId (n : CNfa) (dd : Nat) (bc : Bool) (oldId : Nat) : Nat :=
  (cOffsets n dd bc).getD ((cPos n).getD oldId 0) 0

def cRepr (n : CNfa) (dd : Nat) (bc : Bool) : Array Nat :=
  (List.range n.size).foldl (fun (r : Array Nat) i =>
    if i == FAIL then r else r ++ (cW n dd bc (cNewId n dd bc) i).toArray) #[]

def cBuild (n : CNfa) (dd : Nat) (bc hasPre : Bool) : ContigM :=
  { repr := cRepr n dd bc, alphabetLen := ncOf n bc, classOf := clsOf n bc,
    startU := (cOffsets n dd bc).getD (cNa n - 2) 0, startA := (cOffsets n dd bc).getD (cNa n - 1) 0,
    maxMatchId := if CNfa.isMatch n SA then (cOffsets n dd bc).getD (cNa n - 1) 0
      else (cOffsets n dd bc).getD (cNa n - 3) 0,
    maxSpecialId := if hasPre then (cOffsets n dd bc).getD (cNa n - 1) 0
      else if CNfa.isMatch n SA then (cOffsets n dd bc).getD (cNa n - 1) 0
      else (cOffsets n dd bc).getD (cNa n - 3) 0 }

theorem buildContig_eq (n : CNfa) (dd : Nat) (bc hasPre : Bool) :
    buildContig n dd bc hasPre = cBuild n dd bc hasPre := by
  unfold buildContig cBuild cRepr cNewId cOffsets cSizes cW cPos cOrder cNa clsOf ncOf
  rcases shuffleOrder n with ⟨o, na⟩
  rfl

end AcVerif.L1eP
