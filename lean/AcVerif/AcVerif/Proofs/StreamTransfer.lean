import AcVerif.Proofs.Transfer
import AcVerif.Engine.Stream
/-!
# Transfer of the stream search along observational equivalence

`StreamChunkIter::next` reads of the automaton only `next_state(Anchored::No, ·, ·)`,
`is_match(sid)` and `match_pattern(sid, 0)` / `pattern_len` (through `get_match(sid, 0, ·)`); it
never reads `is_special`, `is_dead` or `is_start`.  So the stream search depends on the automaton
only through the *match observations* of the states reachable from the unanchored start state
(`MEquiv`, weaker than `ObsEquiv · · true false`): two automata with `MEquiv` start states (and
equal kind, pattern lengths, minimum and maximum pattern length, which `StreamChunkIter::new`
reads) give literally the same `streamFind` / `streamReplaceWith` results for every reader (any
schedule, any fault), buffer constants and writer.
-/
namespace AcVerif
variable {σ τ α : Type}

namespace StreamX

/-- match observations agree after every input word (unanchored run): all that the stream loop
reads of a state -/
def MEquiv (A : Aut σ α) (B : Aut τ α) (a : σ) (b : τ) : Prop :=
  ∀ w, A.isMatch (A.runFrom false a w) = B.isMatch (B.runFrom false b w) ∧
    (A.mpats (A.runFrom false a w)).take 1 = (B.mpats (B.runFrom false b w)).take 1

/-- the unanchored start states are match-equivalent, or both automata reject unanchored search -/
def MStart (A : Aut σ α) (B : Aut τ α) : Prop :=
  match A.start false, B.start false with
  | some a, some b => MEquiv A B a b
  | none, none => True
  | _, _ => False

theorem MEquiv.next {A : Aut σ α} {B : Aut τ α} {a : σ} {b : τ} (h : MEquiv A B a b) (c : α) :
    MEquiv A B (A.next false a c) (B.next false b c) := fun w => h (c :: w)

theorem MEquiv.isMatch {A : Aut σ α} {B : Aut τ α} {a : σ} {b : τ} (h : MEquiv A B a b) :
    A.isMatch a = B.isMatch b := (h []).1

theorem MEquiv.take1 {A : Aut σ α} {B : Aut τ α} {a : σ} {b : τ} (h : MEquiv A B a b) :
    (A.mpats a).take 1 = (B.mpats b).take 1 := (h []).2

theorem MEquiv.getMatch {A : Aut σ α} {B : Aut τ α} {a : σ} {b : τ}
    (hl : ∀ pid, A.patLen pid = B.patLen pid) (h : MEquiv A B a b) (at_ : Nat) :
    getMatch A a 0 at_ = getMatch B b 0 at_ := by
  simp only [AcVerif.getMatch]
  rw [EngP.getD_zero_of_take1 h.take1, hl]

theorem MEquiv.refl (A : Aut σ α) (a : σ) : MEquiv A A a a := fun _ => ⟨rfl, rfl⟩

theorem MEquiv.symm {A : Aut σ α} {B : Aut τ α} {a : σ} {b : τ} (h : MEquiv A B a b) :
    MEquiv B A b a := fun w => ⟨(h w).1.symm, (h w).2.symm⟩

theorem MEquiv.trans {υ : Type} {A : Aut σ α} {B : Aut τ α} {C : Aut υ α} {a : σ} {b : τ} {c : υ}
    (h1 : MEquiv A B a b) (h2 : MEquiv B C b c) : MEquiv A C a c :=
  fun w => ⟨(h1 w).1.trans (h2 w).1, (h1 w).2.trans (h2 w).2⟩

/-- observational equivalence (either strength) implies match equivalence -/
theorem MEquiv.of_obsEquiv {A : Aut σ α} {B : Aut τ α} {first : Bool} {a : σ} {b : τ}
    (h : ObsEquiv A B first false a b) : MEquiv A B a b := by
  intro w
  have hw : ObsEquiv A B first false (A.runFrom false a w) (B.runFrom false b w) := by
    intro v
    rw [← Aut.runFrom_append, ← Aut.runFrom_append]
    exact h (w ++ v)
  exact ⟨hw.isMatch, hw.take1⟩

theorem MStart.cases {A : Aut σ α} {B : Aut τ α} (h : MStart A B) :
    (A.start false = none ∧ B.start false = none) ∨
      ∃ a b, A.start false = some a ∧ B.start false = some b ∧ MEquiv A B a b := by
  unfold MStart at h
  cases hA : A.start false <;> cases hB : B.start false <;> simp only [hA, hB] at h
  · exact Or.inl ⟨rfl, rfl⟩
  · exact Or.inr ⟨_, _, rfl, rfl, h⟩

theorem MStart.of_startEquiv {A : Aut σ α} {B : Aut τ α} {first : Bool}
    (h : StartEquiv A B first false) : MStart A B := by
  rcases h.cases with ⟨hA, hB⟩ | ⟨a, b, hA, hB, h⟩ <;> unfold MStart <;> rw [hA, hB]
  · trivial
  · exact MEquiv.of_obsEquiv h

/-! ## the scan loop -/

theorem scanBytes_transfer (A : Aut σ α) (B : Aut τ α) (bytes : List α) :
    ∀ (a : σ) (b : τ) (n : Nat), MEquiv A B a b →
      (scanBytes A a n bytes).2 = (scanBytes B b n bytes).2 ∧
        MEquiv A B (scanBytes A a n bytes).1 (scanBytes B b n bytes).1 := by
  induction bytes with
  | nil => intro a b n h; exact ⟨rfl, h⟩
  | cons c rest ih =>
    intro a b n h
    have h' := h.next c
    simp only [scanBytes]
    rw [h'.isMatch]
    split
    · exact ⟨rfl, h'⟩
    · exact ih _ _ _ h'

/-! ## one `next` call -/

/-- corresponding iterator states: same reader, buffer and positions, match-equivalent current
and start states -/
def CRel (A : Aut σ α) (B : Aut τ α) (x : ChunkIter σ α) (y : ChunkIter τ α) : Prop :=
  x.rdr = y.rdr ∧ x.buf = y.buf ∧ x.absPos = y.absPos ∧ x.bufPos = y.bufPos ∧
    x.reported = y.reported ∧ MEquiv A B x.start y.start ∧ MEquiv A B x.sid y.sid

/-- the result tag does not mention the state type -/
def recast : NextResult σ α → NextResult τ α
  | .done => .done
  | .ioErr => .ioErr
  | .chunk c => .chunk c

/-- corresponding results of a `next` call: the same chunk / end / error, related iterators -/
def NRel (A : Aut σ α) (B : Aut τ α) (p : NextResult σ α × ChunkIter σ α)
    (q : NextResult τ α × ChunkIter τ α) : Prop :=
  recast p.1 = q.1 ∧ CRel A B p.2 q.2

theorem next_transfer (A : Aut σ α) (B : Aut τ α) (hl : ∀ pid, A.patLen pid = B.patLen pid) :
    ∀ (fuel : Nat) (x : ChunkIter σ α) (y : ChunkIter τ α), CRel A B x y →
      NRel A B (ChunkIter.next A x fuel) (ChunkIter.next B y fuel) := by
  intro fuel
  induction fuel with
  | zero => intro x y h; exact ⟨rfl, h⟩
  | succ fuel ih =>
    intro x y h
    obtain ⟨rdr, buf, sa, a, ap, bp, rep⟩ := x
    obtain ⟨rdr', buf', sb, b, ap', bp', rep'⟩ := y
    obtain ⟨h1, h2, h3, h4, h5, hs, hc⟩ := h
    simp only at h1 h2 h3 h4 h5 hs hc
    subst h1 h2 h3 h4 h5
    -- the recursive calls after a scan
    have hscan : ∀ (rdr : Reader α) (buf : Buffer α) (bp rep : Nat),
        NRel A B
          (ChunkIter.next A
            { rdr := rdr, buf := buf, start := sa, sid := (scanBytes A a 0 (buf.buf.drop bp)).1,
              absPos := ap + (scanBytes A a 0 (buf.buf.drop bp)).2,
              bufPos := bp + (scanBytes A a 0 (buf.buf.drop bp)).2, reported := rep } fuel)
          (ChunkIter.next B
            { rdr := rdr, buf := buf, start := sb, sid := (scanBytes B b 0 (buf.buf.drop bp)).1,
              absPos := ap + (scanBytes B b 0 (buf.buf.drop bp)).2,
              bufPos := bp + (scanBytes B b 0 (buf.buf.drop bp)).2, reported := rep } fuel) := by
      intro rdr buf bp rep
      obtain ⟨e, hm⟩ := scanBytes_transfer A B (buf.buf.drop bp) a b 0 hc
      exact ih _ _ ⟨rfl, rfl, by simp only [e], by simp only [e], rfl, hs, hm⟩
    rw [ChunkIter.next, ChunkIter.next]
    simp only
    rw [hc.isMatch, hc.getMatch hl]
    split
    · split
      · exact ⟨rfl, rfl, rfl, rfl, rfl, rfl, hs, hc⟩
      · exact ⟨rfl, rfl, rfl, rfl, rfl, rfl, hs, hs⟩
    · split
      · split
        · exact ⟨rfl, rfl, rfl, rfl, rfl, rfl, hs, hc⟩
        · by_cases hge : buf.buf.length ≥ buf.min <;> simp only [hge, if_true, if_false] <;> split
          · exact ⟨rfl, rfl, rfl, rfl, rfl, rfl, hs, hc⟩
          · split
            · exact ⟨rfl, rfl, rfl, rfl, rfl, rfl, hs, hc⟩
            · exact ⟨rfl, rfl, rfl, rfl, rfl, rfl, hs, hc⟩
          · exact hscan _ _ _ _
          · exact ⟨rfl, rfl, rfl, rfl, rfl, rfl, hs, hc⟩
          · split
            · exact ⟨rfl, rfl, rfl, rfl, rfl, rfl, hs, hc⟩
            · exact ⟨rfl, rfl, rfl, rfl, rfl, rfl, hs, hc⟩
          · exact hscan _ _ _ _
      · exact hscan _ _ _ _

/-! ## draining -/

theorem nextFuel_eq {A : Aut σ α} {B : Aut τ α} {x : ChunkIter σ α} {y : ChunkIter τ α}
    (h : CRel A B x y) : nextFuel x = nextFuel y := by
  unfold nextFuel
  rw [h.1, h.2.1]

theorem drain_transfer (A : Aut σ α) (B : Aut τ α) (hl : ∀ pid, A.patLen pid = B.patLen pid) :
    ∀ (n : Nat) (x : ChunkIter σ α) (y : ChunkIter τ α), CRel A B x y →
      ChunkIter.drain A n x = ChunkIter.drain B n y := by
  intro n
  induction n with
  | zero => intro x y h; simp only [ChunkIter.drain, h.1]
  | succ n ih =>
    intro x y h
    have hn := next_transfer A B hl (nextFuel x) x y h
    rw [nextFuel_eq h] at hn
    simp only [ChunkIter.drain]
    rw [nextFuel_eq h]
    obtain ⟨h1, h2⟩ := hn
    cases hA : ChunkIter.next A x (nextFuel y) with
    | mk ra xa =>
      cases hB : ChunkIter.next B y (nextFuel y) with
      | mk rb yb =>
        rw [hA, hB] at h1 h2
        simp only at h1 h2
        subst h1
        cases ra with
        | done => simp only [recast, h2.1]
        | ioErr => simp only [recast, h2.1]
        | chunk c => simp only [recast, ih _ _ h2]

/-- `StreamChunkIter::new` gives the same error or related iterators -/
theorem new_transfer (A : Aut σ α) (B : Aut τ α) (hk : A.kind = B.kind)
    (hmin : A.minLen = B.minLen) (hmax : A.maxLen = B.maxLen) (h : MStart A B)
    (rdr : Reader α) (spare : Option Nat) (minFactor defaultCap : Nat) :
    (∃ e, ChunkIter.new A rdr spare minFactor defaultCap = .error e ∧
        ChunkIter.new B rdr spare minFactor defaultCap = .error e) ∨
      ∃ x y, ChunkIter.new A rdr spare minFactor defaultCap = .ok x ∧
        ChunkIter.new B rdr spare minFactor defaultCap = .ok y ∧ CRel A B x y := by
  unfold ChunkIter.new
  rw [hk, hmin, hmax]
  split
  · exact Or.inl ⟨_, rfl, rfl⟩
  · split
    · exact Or.inl ⟨_, rfl, rfl⟩
    · rcases h.cases with ⟨hA, hB⟩ | ⟨a, b, hA, hB, hab⟩ <;> rw [hA, hB]
      · exact Or.inl ⟨_, rfl, rfl⟩
      · exact Or.inr ⟨_, _, rfl, rfl, rfl, rfl, rfl, rfl, rfl, hab, hab⟩

theorem streamFind_transfer (A : Aut σ α) (B : Aut τ α) (hk : A.kind = B.kind)
    (hl : ∀ pid, A.patLen pid = B.patLen pid)
    (hmin : A.minLen = B.minLen) (hmax : A.maxLen = B.maxLen) (h : MStart A B)
    (rdr : Reader α) (spare : Option Nat) (minFactor defaultCap : Nat) :
    streamFind A rdr spare minFactor defaultCap = streamFind B rdr spare minFactor defaultCap := by
  unfold streamFind
  rcases new_transfer A B hk hmin hmax h rdr spare minFactor defaultCap with
    ⟨e, hA, hB⟩ | ⟨x, y, hA, hB, hxy⟩ <;> rw [hA, hB]
  simp only
  rw [drain_transfer A B hl _ x y hxy]

/-! ## the replace loop -/

theorem go_transfer (A : Aut σ α) (B : Aut τ α) (hl : ∀ pid, A.patLen pid = B.patLen pid)
    (repl : Mat → List α) :
    ∀ (n : Nat) (x : ChunkIter σ α) (y : ChunkIter τ α) (w : Writer α) (log : List (Mat × List α)),
      CRel A B x y →
      streamReplaceWith.go A repl n x w log = streamReplaceWith.go B repl n y w log := by
  intro n
  induction n with
  | zero => intro x y w log h; simp only [streamReplaceWith.go, h.1]
  | succ n ih =>
    intro x y w log h
    have hn := next_transfer A B hl (nextFuel x) x y h
    rw [nextFuel_eq h] at hn
    simp only [streamReplaceWith.go]
    rw [nextFuel_eq h]
    obtain ⟨h1, h2⟩ := hn
    cases hA : ChunkIter.next A x (nextFuel y) with
    | mk ra xa =>
      cases hB : ChunkIter.next B y (nextFuel y) with
      | mk rb yb =>
        rw [hA, hB] at h1 h2
        simp only at h1 h2
        subst h1
        cases ra with
        | done => simp only [recast, h2.1]
        | ioErr => simp only [recast, h2.1]
        | chunk c =>
          cases c with
          | nonMatch bytes =>
            simp only [recast]
            split
            · exact ih _ _ _ _ h2
            · rw [h2.1]
          | mtch bytes m =>
            simp only [recast]
            split
            · exact ih _ _ _ _ h2
            · rw [h2.1]

theorem streamReplaceWith_transfer (A : Aut σ α) (B : Aut τ α) (hk : A.kind = B.kind)
    (hl : ∀ pid, A.patLen pid = B.patLen pid)
    (hmin : A.minLen = B.minLen) (hmax : A.maxLen = B.maxLen) (h : MStart A B)
    (rdr : Reader α) (spare : Option Nat) (w : Writer α) (repl : Mat → List α)
    (minFactor defaultCap : Nat) :
    streamReplaceWith A rdr spare w repl minFactor defaultCap =
      streamReplaceWith B rdr spare w repl minFactor defaultCap := by
  unfold streamReplaceWith
  rcases new_transfer A B hk hmin hmax h rdr spare minFactor defaultCap with
    ⟨e, hA, hB⟩ | ⟨x, y, hA, hB, hxy⟩ <;> rw [hA, hB]
  simp only
  rw [go_transfer A B hl repl _ x y w [] hxy]

end StreamX
end AcVerif
