import AcVerif.Proofs.StreamResume
/-!
# Stream search: when is the transient fault reached?

Purely structural (no invariant): as long as the failing call index `k` has not
been reached, the faulty run and the fault-free run (`clrIt`: the same state
with `failAt := none`) proceed in lock step; the failing call is made by the
faulty run exactly when the fault-free run makes a call of index `k`.  Hence an
error item is present iff the fault-free run makes more than `k` read calls
(`drainT_err_iff`).
-/
namespace AcVerif.StreamP
open AcVerif
variable {σ α : Type}

/-- number of `read` calls made by a run pulled until `None` -/
def callsT (A : Aut σ α) : Nat → ChunkIter σ α → Nat
  | 0, it => it.rdr.calls
  | n + 1, it =>
    match ChunkIter.nextT A it (nextFuel it) with
    | (.done, it') => it'.rdr.calls
    | (.ioErr, it') => callsT A n it'
    | (.chunk _, it') => callsT A n it'

/-- number of `read` calls of the whole stream search -/
def streamCallsT (A : Aut σ α) (rdr : Reader α) (spare : Option Nat)
    (minFactor : Nat := 8) (defaultCap : Nat := 64 * 1024) : Except MatchErr Nat :=
  match ChunkIter.new A rdr spare minFactor defaultCap with
  | .error e => .error e
  | .ok it => .ok (callsT A (drainFuelT rdr.data) it)

/-- the same reader without the fault -/
abbrev clr (rd : Reader α) : Reader α := { rd with failAt := none }

abbrev clrIt (it : ChunkIter σ α) : ChunkIter σ α := { it with rdr := clr it.rdr }

/-- the fault `k` is still ahead -/
def Live (k : Nat) (rd : Reader α) : Prop := rd.failAt = some k ∧ rd.calls ≤ k

/-! ## fault-free readers: calls only grow -/

theorem readT_nf (rd : Reader α) (room : Nat) (h : rd.failAt = none) :
    ∃ x, rd.readT room = .ok x ∧ x.2.failAt = none ∧ x.2.calls = rd.calls + 1 := by
  have hc : (rd.failAt == some rd.calls) = false := by rw [h]; rfl
  obtain ⟨x, _, hx, h1, h2⟩ := readT_ok rd room hc
  exact ⟨x, hx, by rw [h2, h], h1⟩

theorem fillT_nf (fuel : Nat) (b : Buffer α) (rd : Reader α) (ra : Bool) (h : rd.failAt = none) :
    ∃ y, b.fillT rd ra fuel = .ok y ∧ y.2.2.failAt = none ∧ rd.calls ≤ y.2.2.calls := by
  induction fuel generalizing b rd ra with
  | zero => exact ⟨_, rfl, h, Nat.le_refl _⟩
  | succ fuel ih =>
    obtain ⟨x, hx, h1, h2⟩ := readT_nf rd (b.cap - b.buf.length) h
    obtain ⟨bytes, rd'⟩ := x
    rw [Buffer.fillT, hx]
    simp only
    have h2' : rd'.calls = rd.calls + 1 := h2
    split
    · exact ⟨_, rfl, h1, by show rd.calls ≤ rd'.calls; omega⟩
    · split
      · exact ⟨_, rfl, h1, by show rd.calls ≤ rd'.calls; omega⟩
      · obtain ⟨y, hy, g1, g2⟩ := ih { b with buf := b.buf ++ bytes } rd' true h1
        exact ⟨y, hy, g1, by omega⟩

theorem rollStep_rdr (it : ChunkIter σ α) : (rollStep it).rdr = it.rdr := by
  unfold rollStep
  split <;> rfl

theorem nextT_nf (A : Aut σ α) (fuel : Nat) (it : ChunkIter σ α) (h : it.rdr.failAt = none) :
    (ChunkIter.nextT A it fuel).2.rdr.failAt = none ∧
      it.rdr.calls ≤ (ChunkIter.nextT A it fuel).2.rdr.calls := by
  induction fuel generalizing it with
  | zero => exact ⟨h, Nat.le_refl _⟩
  | succ fuel ih =>
    rw [nextT_succ]
    split
    · rw [matchStep_rdr]; exact ⟨h, Nat.le_refl _⟩
    · split
      · split
        · exact ⟨h, Nat.le_refl _⟩
        · have hr := rollStep_rdr it
          obtain ⟨y, hy, g1, g2⟩ := fillT_nf ((rollStep it).rdr.data.length - (rollStep it).rdr.pos + 1)
            (rollStep it).buf (rollStep it).rdr false (by rw [hr]; exact h)
          rw [hr] at g2
          rw [hy]
          match y, g1, g2 with
          | (false, b', rd'), g1, g2 =>
            simp only
            rw [eofStep_rdr]
            exact ⟨g1, g2⟩
          | (true, b', rd'), g1, g2 =>
            simp only
            have := ih (scanStep A { rollStep it with buf := b', rdr := rd' }) g1
            exact ⟨this.1, Nat.le_trans g2 this.2⟩
      · exact ih (scanStep A it) h

theorem callsT_ge (A : Aut σ α) (n : Nat) (it : ChunkIter σ α) (h : it.rdr.failAt = none) :
    it.rdr.calls ≤ callsT A n it := by
  induction n generalizing it with
  | zero => exact Nat.le_refl _
  | succ n ih =>
    have hn := nextT_nf A (nextFuel it) it h
    rw [callsT]
    generalize ChunkIter.nextT A it (nextFuel it) = res at hn
    match res, hn with
    | (.done, it'), hn => exact hn.2
    | (.ioErr, it'), hn => exact Nat.le_trans hn.2 (ih it' hn.1)
    | (.chunk _, it'), hn => exact Nat.le_trans hn.2 (ih it' hn.1)

/-! ## lock step until the fault -/

theorem readT_sim (k : Nat) (rd : Reader α) (room : Nat) (h : Live k rd) :
    match rd.readT room with
    | .ok (bytes, rd') => (clr rd).readT room = .ok (bytes, clr rd') ∧ Live k rd'
    | .error _ => ∃ x, (clr rd).readT room = .ok x ∧ x.2.failAt = none ∧ k < x.2.calls := by
  obtain ⟨hfa, hc⟩ := h
  cases hb : (rd.failAt == some rd.calls) with
  | true =>
    rw [readT_err rd room hb]
    simp only
    have e : rd.failAt = some rd.calls := eq_of_beq hb
    rw [hfa] at e
    cases e
    obtain ⟨x, hx, h1, h2⟩ := readT_nf (clr rd) room rfl
    exact ⟨x, hx, h1, by rw [h2]; show rd.calls < rd.calls + 1; omega⟩
  | false =>
    have hne : rd.calls ≠ k := by
      intro e
      rw [hfa, e] at hb
      simp at hb
    have e1 : rd.readT room = .ok ((rd.data.drop rd.pos).take (readN rd room),
        { rd with pos := rd.pos + readN rd room, calls := rd.calls + 1,
                  emptyReads := rd.emptyReads + (if room = 0 then 1 else 0) }) := by
      simp only [Reader.readT, hb, Bool.false_eq_true, if_false]
      rfl
    have e2 : (clr rd).readT room = .ok ((rd.data.drop rd.pos).take (readN rd room),
        clr { rd with pos := rd.pos + readN rd room, calls := rd.calls + 1,
                      emptyReads := rd.emptyReads + (if room = 0 then 1 else 0) }) := by
      rfl
    rw [e1]
    simp only
    exact ⟨e2, hfa, by show rd.calls + 1 ≤ k; omega⟩

theorem fillT_sim (k : Nat) (fuel : Nat) (b : Buffer α) (rd : Reader α) (ra : Bool)
    (h : Live k rd) :
    match b.fillT rd ra fuel with
    | .ok (ra', b', rd') => b.fillT (clr rd) ra fuel = .ok (ra', b', clr rd') ∧ Live k rd'
    | .error _ =>
      ∃ y, b.fillT (clr rd) ra fuel = .ok y ∧ y.2.2.failAt = none ∧ k < y.2.2.calls := by
  induction fuel generalizing b rd ra with
  | zero => exact ⟨rfl, h⟩
  | succ fuel ih =>
    have hs := readT_sim k rd (b.cap - b.buf.length) h
    rw [Buffer.fillT, Buffer.fillT]
    generalize rd.readT (b.cap - b.buf.length) = rres at hs
    match rres, hs with
    | .error rd', hs =>
      obtain ⟨x, hx, h1, h2⟩ := hs
      obtain ⟨bytes, r2⟩ := x
      rw [hx]
      simp only
      split
      · exact ⟨_, rfl, h1, h2⟩
      · split
        · exact ⟨_, rfl, h1, h2⟩
        · obtain ⟨y, hy, g1, g2⟩ := fillT_nf fuel { b with buf := b.buf ++ bytes } r2 true h1
          have h2' : k < r2.calls := h2
          exact ⟨y, hy, g1, by omega⟩
    | .ok (bytes, rd'), hs =>
      obtain ⟨hx, hl⟩ := hs
      rw [hx]
      simp only
      by_cases h0 : bytes.length = 0
      · simp only [if_pos h0]
        exact ⟨trivial, hl⟩
      · simp only [if_neg h0]
        by_cases hge : (b.buf ++ bytes).length ≥ b.min
        · simp only [if_pos hge]
          exact ⟨trivial, hl⟩
        · simp only [if_neg hge]
          exact ih { b with buf := b.buf ++ bytes } rd' true hl

/-- the steps that do not touch the reader commute with `clrIt` -/
theorem matchStep_clr (A : Aut σ α) (it : ChunkIter σ α) :
    matchStep A (clrIt it) = ((matchStep A it).1, clrIt (matchStep A it).2) := by
  simp only [matchStep]
  split <;> rfl

theorem preRollStep_clr (it : ChunkIter σ α) :
    preRollStep (clrIt it) = ((preRollStep it).1, clrIt (preRollStep it).2) := rfl

theorem rollStep_clr (it : ChunkIter σ α) : rollStep (clrIt it) = clrIt (rollStep it) := by
  simp only [rollStep]
  split <;> rfl

theorem eofStep_upd (it : ChunkIter σ α) (b : Buffer α) (rd : Reader α) :
    eofStep { clrIt it with buf := b, rdr := clr rd } =
      ((eofStep { it with buf := b, rdr := rd }).1,
        clrIt (eofStep { it with buf := b, rdr := rd }).2) := by
  simp only [eofStep]
  split <;> rfl

theorem scanStep_clr (A : Aut σ α) (it : ChunkIter σ α) :
    scanStep A (clrIt it) = clrIt (scanStep A it) := rfl

/-- relation between the result of a faulty `nextT` call (first argument) and
that of the fault-free one from the same state -/
def SimPost (k : Nat) :
    NextResult σ α × ChunkIter σ α → NextResult σ α × ChunkIter σ α → Prop
  | (.ioErr, _), q => q.2.rdr.failAt = none ∧ k < q.2.rdr.calls
  | (.done, it'), q => q = (.done, clrIt it') ∧ Live k it'.rdr
  | (.chunk c, it'), q => q = (.chunk c, clrIt it') ∧ Live k it'.rdr

theorem simPost_of_eq {k : Nat} {p q : NextResult σ α × ChunkIter σ α}
    (hne : ∀ it', p ≠ (.ioErr, it')) (hq : q = (p.1, clrIt p.2)) (hl : Live k p.2.rdr) :
    SimPost k p q := by
  match p, hne, hq, hl with
  | (.done, it'), _, hq, hl => exact ⟨hq, hl⟩
  | (.ioErr, it'), hne, _, _ => exact absurd rfl (hne it')
  | (.chunk c, it'), _, hq, hl => exact ⟨hq, hl⟩

theorem nextT_sim (A : Aut σ α) (k : Nat) (fuel : Nat) (it : ChunkIter σ α)
    (h : Live k it.rdr) :
    SimPost k (ChunkIter.nextT A it fuel) (ChunkIter.nextT A (clrIt it) fuel) := by
  induction fuel generalizing it with
  | zero => exact ⟨rfl, h⟩
  | succ fuel ih =>
    rw [nextT_succ, nextT_succ]
    show SimPost k _
      (if A.isMatch it.sid then matchStep A (clrIt it)
      else if it.bufPos ≥ it.buf.buf.length then
        if it.reported < it.buf.buf.length - it.buf.min then preRollStep (clrIt it)
        else
          match (rollStep (clrIt it)).buf.fillT (rollStep (clrIt it)).rdr false
              ((rollStep (clrIt it)).rdr.data.length - (rollStep (clrIt it)).rdr.pos + 1) with
          | .error (b', r') => (.ioErr, { rollStep (clrIt it) with buf := b', rdr := r' })
          | .ok (false, b, r) => eofStep { rollStep (clrIt it) with buf := b, rdr := r }
          | .ok (true, b, r) =>
            ChunkIter.nextT A (scanStep A { rollStep (clrIt it) with buf := b, rdr := r }) fuel
      else ChunkIter.nextT A (scanStep A (clrIt it)) fuel)
    split
    · refine simPost_of_eq (matchStep_ne A it) (matchStep_clr A it) ?_
      rw [matchStep_rdr]; exact h
    · split
      · split
        · exact simPost_of_eq (fun it' h => by cases h) (preRollStep_clr it) h
        · rw [rollStep_clr]
          have hr := rollStep_rdr it
          have hs := fillT_sim k ((rollStep it).rdr.data.length - (rollStep it).rdr.pos + 1)
            (rollStep it).buf (rollStep it).rdr false (by rw [hr]; exact h)
          show SimPost k _
            (match (rollStep it).buf.fillT (clr (rollStep it).rdr) false
                ((rollStep it).rdr.data.length - (rollStep it).rdr.pos + 1) with
            | .error (b', r') => (.ioErr, { clrIt (rollStep it) with buf := b', rdr := r' })
            | .ok (false, b, r) => eofStep { clrIt (rollStep it) with buf := b, rdr := r }
            | .ok (true, b, r) =>
              ChunkIter.nextT A (scanStep A { clrIt (rollStep it) with buf := b, rdr := r }) fuel)
          generalize Buffer.fillT (rollStep it).buf (rollStep it).rdr false
            ((rollStep it).rdr.data.length - (rollStep it).rdr.pos + 1) = fres at hs
          match fres, hs with
          | .error (b', rd'), hs =>
            obtain ⟨y, hy, g1, g2⟩ := hs
            rw [hy]
            match y, g1, g2 with
            | (false, b2, r2), g1, g2 =>
              show (eofStep _).2.rdr.failAt = none ∧ k < (eofStep _).2.rdr.calls
              rw [eofStep_rdr]
              exact ⟨g1, g2⟩
            | (true, b2, r2), g1, g2 =>
              have := nextT_nf A fuel
                (scanStep A { clrIt (rollStep it) with buf := b2, rdr := r2 }) g1
              exact ⟨this.1, Nat.lt_of_lt_of_le g2 this.2⟩
          | .ok (false, b', rd'), hs =>
            obtain ⟨hy, hl⟩ := hs
            rw [hy]
            refine simPost_of_eq (eofStep_ne _) (eofStep_upd _ b' rd') ?_
            rw [eofStep_rdr]; exact hl
          | .ok (true, b', rd'), hs =>
            obtain ⟨hy, hl⟩ := hs
            rw [hy]
            exact ih (scanStep A { rollStep it with buf := b', rdr := rd' }) hl
      · exact ih (scanStep A it) h

/-- an error item is present iff the fault-free run makes more than `k` calls -/
theorem drainT_err_iff (A : Aut σ α) (k : Nat) (n : Nat) (it : ChunkIter σ α)
    (h : Live k it.rdr) :
    1 ≤ ((ChunkIter.drainT A n it).1.filter Option.isNone).length ↔
      k < callsT A n (clrIt it) := by
  induction n generalizing it with
  | zero =>
    have := h.2
    show 1 ≤ 0 ↔ k < it.rdr.calls
    omega
  | succ n ih =>
    have hs := nextT_sim A k (nextFuel it) it h
    rw [ChunkIter.drainT, callsT]
    have hf : nextFuel (clrIt it) = nextFuel it := rfl
    rw [hf]
    generalize ChunkIter.nextT A it (nextFuel it) = p at hs
    generalize ChunkIter.nextT A (clrIt it) (nextFuel it) = q at hs
    match p, hs with
    | (.ioErr, it'), hs =>
      obtain ⟨g1, g2⟩ := hs
      have hl : 1 ≤ ((none :: (ChunkIter.drainT A n it').1).filter Option.isNone).length := by
        rw [List.filter_cons_of_pos rfl, List.length_cons]; omega
      refine ⟨fun _ => ?_, fun _ => hl⟩
      match q, g1, g2 with
      | (.done, it2), g1, g2 => exact g2
      | (.ioErr, it2), g1, g2 => exact Nat.lt_of_lt_of_le g2 (callsT_ge A n it2 g1)
      | (.chunk _, it2), g1, g2 => exact Nat.lt_of_lt_of_le g2 (callsT_ge A n it2 g1)
    | (.done, it'), hs =>
      obtain ⟨hq, hl⟩ := hs
      subst hq
      have := hl.2
      show 1 ≤ 0 ↔ k < it'.rdr.calls
      omega
    | (.chunk c, it'), hs =>
      obtain ⟨hq, hl⟩ := hs
      subst hq
      have := ih it' hl
      show 1 ≤ ((some c :: (ChunkIter.drainT A n it').1).filter Option.isNone).length ↔ _
      rw [List.filter_cons_of_neg (by simp)]
      exact this

end AcVerif.StreamP
