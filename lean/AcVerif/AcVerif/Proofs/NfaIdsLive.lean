import AcVerif.Proofs.NfaIdsSim
import AcVerif.Proofs.CompilerFoldFinal
import AcVerif.Proofs.CostBounds
/-!
# L1c-ids proofs, part 3: the compiled NFA provides `NLive`, with and without case folding

`FC` collects what `NLive` needs of the specification of the compiled automaton; it is stated with
a byte map `fb` (`id`, or `foldByte` for `ascii_case_insensitive`) so that both `FS`
(`compile k false P`) and `FSf` (`compile k true P`) instantiate it.  The set of states is
`RelV L anch`: the states related (`L1cP.Rel`) to some state of the ideal automaton.
-/
namespace AcVerif.L1cIdsP
open AcVerif AcVerif.CNfa AcVerif.L1cP AcVerif.L1dP AcVerif.L1eP AcVerif.L1dIdsP AcVerif.LmP
open AcVerif.L1cFoldP

/-- the states related to some state of the ideal automaton, for one anchoring mode -/
def RelV (L : List (List UInt8)) (anch : Bool) (s : Nat) : Prop := ∃ q, Rel L anch s q

structure FC (k : MatchKind) (Q : PatSet UInt8) (L : List (List UInt8)) (N : CNfa)
    (fb : UInt8 → UInt8) : Prop where
  size : N.size = L.length + 4
  ne_nil : ∀ u, u ∈ L → u ≠ []
  len_lt : ∀ u, (u = [] ∨ u ∈ L) → u.length + 3 < N.size
  su_ne_fail : ∀ b, follow N SU b ≠ FAIL
  goto_dead : ∀ b, follow N DEAD b = DEAD
  fail : ∀ u, u ∈ L → (N.getD (nu L u) {}).fail = sidOf L (finalFail k Q u)
  lsp_mem : ∀ w, lsp Q w = [] ∨ lsp Q w ∈ L
  mats_su_sa : (N.getD SU {}).matches_ = (N.getD SA {}).matches_
  mats_dead : (N.getD DEAD {}).matches_ = []
  rel_step : ∀ (anch : Bool) (sid : Nat) (q : St UInt8) (b : UInt8), Rel L anch sid q →
    Rel L anch (nextState N anch (N.size + 1) sid b 0).1 (Ideal.next k Q anch q (fb b))
  hops_un : ∀ (sid : Nat) (q : St UInt8) (b : UInt8), Rel L false sid q →
    (nextState N false (N.size + 1) sid b 0).2 = Ideal.hops k Q false q (fb b)
  rel_mats : ∀ (anch : Bool) (sid : Nat) (q : St UInt8), Rel L anch sid q →
    (N.getD sid {}).matches_ = Ideal.out k Q q

theorem nextState_anch_hops (n : CNfa) (fuel s : Nat) (b : UInt8) (hp : Nat) :
    (nextState n true fuel s b hp).2 = hp := by
  cases fuel with
  | zero => rfl
  | succ fuel =>
    by_cases hf : follow n s b = FAIL
    · rw [nextState_anch_fail n fuel s b hp hf]
    · rw [nextState_stop n true fuel s b hp hf]

section
variable {k : MatchKind} {Q : PatSet UInt8} {L : List (List UInt8)} {N : CNfa} {fb : UInt8 → UInt8}

/-- a related state is the dead state, the start state of the mode, or a trie node -/
theorem Rel_cases {anch : Bool} {s : Nat} {q : St UInt8} (hr : Rel L anch s q) :
    (q = .dead ∧ s = DEAD) ∨ (q = .at [] ∧ s = startOf anch) ∨
      ∃ u, u ≠ [] ∧ u ∈ L ∧ q = .at u ∧ s = nu L u := by
  cases q with
  | dead => exact Or.inl ⟨rfl, hr⟩
  | «at» u =>
    by_cases h0 : u = []
    · subst h0
      simp only [Rel, if_true] at hr
      exact Or.inr (Or.inl ⟨rfl, hr⟩)
    · simp only [Rel, if_neg h0] at hr
      exact Or.inr (Or.inr ⟨u, h0, hr.1, rfl, hr.2⟩)

theorem NLive_of_FC (h : FC k Q L N fb) (anch : Bool) : NLive N anch (RelV L anch) := by
  have h4 : 4 ≤ N.size := by rw [h.size]; omega
  refine
    { four := h4
      mm := by rw [isMatch_eq, isMatch_eq, h.mats_su_sa]
      lt := ?_, ne1 := ?_, other := ?_
      start := ⟨.at [], Rel_start L anch⟩
      step := fun s b ⟨q, hr⟩ => ⟨_, h.rel_step anch s q b hr⟩
      failV := ?_, hops := ?_
      dead_mats := h.mats_dead
      dead_loop := h.goto_dead }
  · rintro s ⟨q, hr⟩
    rcases Rel_cases hr with ⟨_, e⟩ | ⟨_, e⟩ | ⟨u, h0, hu, _, e⟩
    · rw [e]; simp only [DEAD]; omega
    · rw [e]; cases anch <;> simp only [startOf, SU, SA, if_true, Bool.false_eq_true, if_false] <;> omega
    · rw [e, h.size]; exact nu_lt hu h0
  · rintro s ⟨q, hr⟩
    rcases Rel_cases hr with ⟨_, e⟩ | ⟨_, e⟩ | ⟨u, h0, hu, _, e⟩
    · rw [e]; simp [DEAD]
    · rw [e]; cases anch <;> simp [startOf, SU, SA]
    · rw [e]; exact nu_ne_fail L u
  · rintro s ⟨q, hr⟩
    rcases Rel_cases hr with ⟨_, e⟩ | ⟨_, e⟩ | ⟨u, h0, hu, _, e⟩
    · rw [e]; cases anch <;> simp [startOf, SU, SA, DEAD]
    · rw [e]; cases anch <;> simp [startOf, SU, SA]
    · have := nu_ge (L := L) h0
      rw [e]
      have e1 : (nu L u == SU) = false := by simp only [SU, beq_eq_false_iff_ne, ne_eq]; omega
      have e2 : (nu L u == SA) = false := by simp only [SA, beq_eq_false_iff_ne, ne_eq]; omega
      have e3 : (nu L u == startOf anch) = false := by
        cases anch
        · exact e1
        · exact e2
      rw [e1, e2, e3]; rfl
  · -- the failure links that `next_state` follows stay inside
    rintro ha s b ⟨q, hr⟩ hf
    subst ha
    rcases Rel_cases hr with ⟨_, e⟩ | ⟨_, e⟩ | ⟨u, h0, hu, _, e⟩
    · rw [e, h.goto_dead] at hf; cases hf
    · rw [e] at hf; exact absurd hf (h.su_ne_fail b)
    · rw [e, h.fail u hu]
      refine ⟨finalFail k Q u, Rel_sidOf_f _ ?_⟩
      unfold finalFail
      by_cases hc : (k != .std && blocked Q u (u.length - (failStd Q u).length)) = true
      · rw [if_pos hc]; trivial
      · rw [if_neg hc]; exact h.lsp_mem _
  · -- the loop returns before the fuel runs out
    rintro s b ⟨q, hr⟩
    cases anch with
    | true => rw [nextState_anch_hops]; omega
    | false =>
      rw [h.hops_un s q b hr]
      have hp := CostP.step_potential k Q q (fb b)
      have hd : q.depth + 3 < N.size := by
        rcases Rel_cases hr with ⟨e, _⟩ | ⟨e, _⟩ | ⟨u, h0, hu, e, _⟩
        · rw [e]; show 0 + 3 < N.size; omega
        · rw [e]; show 0 + 3 < N.size; omega
        · rw [e]; exact h.len_lt u (Or.inr hu)
      omega

theorem FC_of_FS (h : FS k Q L N) : FC k Q L N id :=
  { size := h.size
    ne_nil := fun _ hu => h.ne_nil hu
    len_lt := fun _ hu => h.len_lt_size hu
    su_ne_fail := follow_su_ne_fail h
    goto_dead := h.goto_dead
    fail := h.fail
    lsp_mem := h.lsp_mem
    mats_su_sa := by
      have h1 := h.mats [] (Or.inl rfl)
      rw [nu_nil] at h1
      rw [h1, h.mats_sa]
    mats_dead := h.mats_dead
    rel_step := fun anch _ _ b hr => Rel_step h anch hr b
    hops_un := fun _ _ b hr => by rw [step_unanch h hr b]; rfl
    rel_mats := fun _ _ _ hr => Rel_mats h hr }

theorem FC_of_FSf (h : FSf k Q L N) : FC k Q L N foldByte :=
  { size := h.size
    ne_nil := fun u hu => ((h.mem u).1 hu).1
    len_lt := fun _ hu => h.len_lt_size hu
    su_ne_fail := by
      intro b
      by_cases hin : [foldByte b] ∈ L
      · have := h.goto_in [] b (Or.inl rfl) hin
        rw [nu_nil] at this
        rw [this]; exact nu_ne_fail _ _
      · rw [h.goto_root b hin]; exact sidOf_ne_fail _ _
    goto_dead := h.goto_dead
    fail := h.fail
    lsp_mem := h.lsp_mem
    mats_su_sa := by
      have h1 := h.mats [] (Or.inl rfl)
      rw [nu_nil] at h1
      rw [h1, h.mats_sa]
    mats_dead := h.mats_dead
    rel_step := fun anch _ _ b hr => Rel_step_f h anch hr b
    hops_un := fun _ _ b hr => by rw [step_unanch_f h hr b]
    rel_mats := fun _ _ _ hr => Rel_mats_f h hr }

end

end AcVerif.L1cIdsP
