import AcVerif.Proofs.TopLevelPre
/-!
# Capstone proofs, part 6: `is_match` on a leftmost searcher with a prefilter

In earliest mode a leftmost search that consults a confirming prefilter may return the *normal*
match where the prefilter-free search returns the *earliest* one (`C05_transparent` excludes that
case).  `is_match` only reads whether a match was found, and that is unaffected:

* `lockstep_some`: the loop with prefilter and the loop without find something or not alike,
  provided following the prefilter's verdict in the start state does (earliest mode: no invariant
  is needed, `mat` stays `none`);
* `restart_some`, `findImp_pre_some`: on the (case-folding) ideal leftmost automaton, by strong
  induction on the remaining length, from "the fresh earliest search finds something iff an
  occurrence exists" (`fresh_some`, from C14);
* `ref_is_match_pre`: hence `is_match` with any sound prefilter is `true` iff an admissible
  occurrence exists, for all three match kinds.
-/
namespace AcVerif.TopP
open AcVerif AcVerif.MiscP AcVerif.PreP
variable {σ α : Type}

/-! ## generic: lockstep outside the start state, up to "found something" -/

theorem lockstep_some {A0 A1 : Aut σ α} {q0 : σ} (hA : StartFlagged A0 A1 q0)
    (hay : List α) (s e : Nat) (he : e ≤ hay.length) (p : Prefilter α) (b : Nat)
    (R : ∀ at_, b ≤ at_ → at_ < e →
      (follow A1 hay s e he p true q0 at_ Option.none).isSome =
        (findLoop A0 hay s e he Option.none false true q0 (at_ + 1) Option.none).isSome) :
    ∀ (n : Nat) (q : σ) (at_ : Nat), e - at_ = n → b ≤ at_ →
      (findLoop A1 hay s e he (some p) false true q at_ Option.none).isSome =
        (findLoop A0 hay s e he Option.none false true q at_ Option.none).isSome := by
  intro n
  induction n with
  | zero =>
    intro q at_ hn _
    have h : ¬ at_ < e := by omega
    rw [findLoop_done _ _ _ _ _ _ _ _ _ _ _ h, findLoop_done _ _ _ _ _ _ _ _ _ _ _ h]
  | succ n ih =>
    intro q at_ hn hb
    have h : at_ < e := by omega
    have hn' : e - (at_ + 1) = n := by omega
    have hb' : b ≤ at_ + 1 := by omega
    rw [findLoop_step _ _ _ _ _ _ _ _ _ _ _ h, findLoop_step _ _ _ _ _ _ _ _ _ _ _ h]
    simp only [hA.next, hA.dead, hA.isMatch, hA.getMatch, Bool.false_and, Bool.not_false, if_true]
    generalize A0.next false q (hay[at_]'(Nat.lt_of_lt_of_le h he)) = q'
    rw [hA.special0 q']
    by_cases hq : q' = q0
    · subst hq
      simp only [hA.q0_special, hA.q0_dead, hA.q0_match, if_true, Bool.false_eq_true, if_false,
        Bool.or_self]
      exact R at_ hb h
    · rw [hA.special1 q' hq, hA.special0 q']
      cases hd : A0.isDead q' with
      | true => simp
      | false =>
        cases hm : A0.isMatch q' with
        | true => simp
        | false =>
          simp only [Bool.or_self, Bool.false_eq_true, if_false]
          exact ih _ _ hn' hb'

/-! ## the ideal leftmost automaton -/

section ideal
variable [DecidableEq α]

/-- the fresh prefilter-free earliest search on `[j, e]` finds something iff a pattern occurs in
`[j, e]` (C14) -/
theorem fresh_some (k : MatchKind) (hk : k = .ll ∨ k = .lf) (P : List (List α))
    (hne : ∀ p ∈ P, p ≠ []) (sk : StartKind) (hsk : supportsAnch sk false) (hay : List α)
    (s e : Nat) (he : e ≤ hay.length) (j : Nat) (hj : j ≤ e) :
    (findLoop (ideal k P sk false) hay s e he none false true (.at []) j none).isSome = true ↔
      ∃ m, IsOcc P hay j e m := by
  let i0 : Input α := ⟨hay, j, e, false, false, ⟨he, by omega⟩⟩
  let i : Input α := { i0 with earliest := true }
  have hrun : tryFindFwd (ideal k P sk false) none i =
      .ok (findLoop (ideal k P sk false) hay s e he none false true (.at []) j none) := by
    have hd : i.isDone = false := by simp [Input.isDone, i, i0]; omega
    have hm : (ideal k P sk false).isMatch (.at []) = false :=
      (startFlagged_ideal k P hne sk).q0_match
    have hkind : (ideal k P sk false).kind = k := rfl
    unfold tryFindFwd
    simp only [hd, Bool.false_eq_true, if_false, hkind]
    have hanch : i.anch = false := rfl
    have hear : i.earliest = true := rfl
    simp only [hanch, hear, Bool.or_true, Bool.false_eq_true, if_false]
    unfold findImp
    rw [hanch, LmP.start_ideal hsk]
    simp only [hm, Bool.false_and, Bool.false_eq_true, if_false]
    exact congrArg Except.ok (findLoop_s_irrel _ _ _ _ _ _ _ _ _ _)
  obtain ⟨r, h1, h2⟩ := C14_is_match_leftmost k hk P sk i0 hsk
  have : r = findLoop (ideal k P sk false) hay s e he none false true (.at []) j none := by
    have := h1.symm.trans hrun
    injection this
  rw [← this, h2]
  exact ⟨fun ⟨m, hm⟩ => ⟨m, isOccA_false.1 hm⟩, fun ⟨m, hm⟩ => ⟨m, isOccA_false.2 hm⟩⟩

theorem fresh_some_comap (k : MatchKind) (hk : k = .ll ∨ k = .lf) (P : List (List α))
    (hne : ∀ p ∈ P, p ≠ []) (sk : StartKind) (hsk : supportsAnch sk false) (g : α → α)
    (hay : List α) (s e : Nat) (he : e ≤ hay.length) (j : Nat) (hj : j ≤ e) :
    (findLoop ((ideal k P sk false).comap g) hay s e he none false true (.at []) j none).isSome =
        true ↔
      ∃ m, IsOcc P (hay.map g) j e m := by
  have he' : e ≤ (hay.map g).length := by simpa using he
  rw [MiscP.findLoop_comap (ideal k P sk false) g hay s e he he']
  exact fresh_some k hk P hne sk hsk (hay.map g) s e he' j hj

theorem isSome_eq_of_iff {a b : Option Mat} {p : Prop} (ha : a.isSome = true ↔ p)
    (hb : b.isSome = true ↔ p) : a.isSome = b.isSome := by
  cases h1 : a.isSome <;> cases h2 : b.isSome <;> first | rfl | (exfalso; simp_all)

/-- the restart lemma, up to "found something" -/
theorem restart_some (k : MatchKind) (hk : k = .ll ∨ k = .lf) (P : List (List α))
    (hne : ∀ p ∈ P, p ≠ []) (pre : Prefilter α) (sk : StartKind) (hsk : supportsAnch sk false)
    (g : α → α) (hay : List α) (hs : PrefilterSoundAt k P (pre hay) (hay.map g))
    (s e : Nat) (he : e ≤ hay.length) :
    ∀ (n b : Nat), e - b = n → b ≤ e →
      (findLoop ((ideal k P sk true).comap g) hay s e he (some pre) false true (.at []) b
          none).isSome =
        (findLoop ((ideal k P sk false).comap g) hay s e he none false true (.at []) b
          none).isSome := by
  have he' : e ≤ (hay.map g).length := by simpa using he
  have hA := (startFlagged_ideal k P hne sk).comap g
  have Fspec := fresh_some_comap k hk P hne sk hsk g hay s e he
  intro n
  induction n using Nat.strongRecOn with
  | _ n ih =>
    intro b hn hbe
    apply lockstep_some hA hay s e he pre b ?_ (e - b) (.at []) b rfl (Nat.le_refl _)
    intro at_ hb hlt
    have IH : ∀ j, at_ < j → j ≤ e →
        (findLoop ((ideal k P sk true).comap g) hay s e he (some pre) false true (.at []) j
            none).isSome =
          (findLoop ((ideal k P sk false).comap g) hay s e he none false true (.at []) j
            none).isSome :=
      fun j h1 h2 => ih (e - j) (by omega) j rfl h2
    have hF := Fspec (at_ + 1) (by omega)
    unfold follow
    cases hc : pre hay at_ e with
    | none =>
      simp only [Cand.intoOption]
      have hno := hs.none_sound at_ e he' (by omega) hc
      refine isSome_eq_of_iff (p := False) (by simp) ?_
      rw [hF]
      exact ⟨fun ⟨m, hm⟩ => hno m (PreP.isOcc_mono hm (by omega)), False.elim⟩
    | mtch m =>
      simp only [Cand.intoOption]
      have hm := hs.mtch_sound at_ e m he' (by omega) hc
      have hocc := isOccA_false.1 hm.1
      have hme := (isOcc_start_le hocc).2
      split
      · rename_i hgt
        rw [IH m.start hgt hme]
        refine isSome_eq_of_iff (p := True) ?_ ?_
        · rw [Fspec m.start hme]
          exact ⟨fun _ => trivial, fun _ => ⟨m, isOcc_restrict hocc (Nat.le_refl _)⟩⟩
        · rw [hF]
          exact ⟨fun _ => trivial, fun _ => ⟨m, isOcc_restrict hocc (by omega)⟩⟩
      · exact IH (at_ + 1) (by omega) (by omega)
    | pos i =>
      simp only [Cand.intoOption]
      obtain ⟨hle, hlo⟩ := hs.pos_sound at_ e i he' (by omega) hc
      split
      · rename_i hgt
        have hlo' : ∀ m, IsOcc P (hay.map g) (at_ + 1) e m → i ≤ m.start :=
          fun m hm => hlo m (PreP.isOcc_mono hm (by omega))
        by_cases hie : i ≤ e
        · rw [IH i hgt hie]
          refine isSome_eq_of_iff (Fspec i hie) ?_
          rw [hF]
          exact ⟨fun ⟨m, hm⟩ => ⟨m, isOcc_restrict hm (hlo' m hm)⟩,
            fun ⟨m, hm⟩ => ⟨m, PreP.isOcc_mono hm (by omega)⟩⟩
        · rw [findLoop_done _ _ _ _ _ _ _ _ _ _ _ (by omega)]
          refine isSome_eq_of_iff (p := False) (by simp) ?_
          rw [hF]
          refine ⟨fun ⟨m, hm⟩ => ?_, False.elim⟩
          have h1 := hlo' m hm
          have h2 := (isOcc_start_le hm).2
          omega
      · exact IH (at_ + 1) (by omega) (by omega)

/-- `try_find_fwd_imp` in earliest mode, unanchored, with a sound prefilter: finds something iff
the prefilter-free search does -/
theorem findImp_pre_some (k : MatchKind) (hk : k = .ll ∨ k = .lf) (P : List (List α))
    (hne : ∀ p ∈ P, p ≠ []) (pre : Prefilter α) (sk : StartKind) (g : α → α) (i : Input α)
    (hs : PrefilterSoundAt k P (pre i.hay) (i.hay.map g))
    (ha : i.anch = false) (hsk : supportsAnch sk false) (hse : i.s ≤ i.e) :
    ∃ r1 r0, findImp ((ideal k P sk true).comap g) i (some pre) false true = .ok r1 ∧
      findImp ((ideal k P sk false).comap g) i none false true = .ok r0 ∧
      r1.isSome = r0.isSome := by
  have hA := startFlagged_ideal k P hne sk
  have hst0 : ((ideal k P sk false).comap g).start i.anch = some (.at []) := by
    rw [ha]; exact LmP.start_ideal (k := k) (P := P) hsk
  have hst1 : ((ideal k P sk true).comap g).start i.anch = some (.at []) := hst0
  have hm0 : ((ideal k P sk false).comap g).isMatch (.at []) = false := hA.q0_match
  have hm1 : ((ideal k P sk true).comap g).isMatch (.at []) = false := hA.q0_match
  have he' : i.e ≤ (i.hay.map g).length := by simpa using i.valid.1
  have Fspec := fresh_some_comap k hk P hne sk hsk g i.hay i.s i.e i.valid.1
  have L := fun b (hb : b ≤ i.e) =>
    restart_some k hk P hne pre sk hsk g i.hay hs i.s i.e i.valid.1 (i.e - b) b rfl hb
  have hF := Fspec i.s hse
  unfold findImp
  rw [hst0, hst1]
  simp only [hm0, hm1, Bool.false_and, Bool.false_eq_true, if_false]
  cases hc : pre i.hay i.s i.e with
  | none =>
    refine ⟨_, _, rfl, rfl, ?_⟩
    have hno := hs.none_sound i.s i.e he' hse hc
    refine isSome_eq_of_iff (p := False) (by simp) ?_
    rw [hF]
    exact ⟨fun ⟨m, hm⟩ => hno m hm, False.elim⟩
  | mtch m =>
    refine ⟨_, _, rfl, rfl, ?_⟩
    have hm := hs.mtch_sound i.s i.e m he' hse hc
    refine isSome_eq_of_iff (p := True) (by simp) ?_
    rw [hF]
    exact ⟨fun _ => trivial, fun _ => ⟨m, isOccA_false.1 hm.1⟩⟩
  | pos j =>
    refine ⟨_, _, rfl, rfl, ?_⟩
    obtain ⟨hle, hlo⟩ := hs.pos_sound i.s i.e j he' hse hc
    by_cases hje : j ≤ i.e
    · rw [L j hje]
      refine isSome_eq_of_iff (Fspec j hje) ?_
      rw [hF]
      exact ⟨fun ⟨m, hm⟩ => ⟨m, isOcc_restrict hm (hlo m hm)⟩,
        fun ⟨m, hm⟩ => ⟨m, PreP.isOcc_mono hm hle⟩⟩
    · rw [findLoop_done _ _ _ _ _ _ _ _ _ _ _ (by omega)]
      refine isSome_eq_of_iff (p := False) (by simp) ?_
      rw [hF]
      refine ⟨fun ⟨m, hm⟩ => ?_, False.elim⟩
      have h1 := hlo m hm
      have h2 := (isOcc_start_le hm).2
      omega

/-- `try_find_fwd` in earliest mode on a leftmost searcher with a sound prefilter: succeeds, and
finds something iff the prefilter-free search does -/
theorem tryFind_pre_some (k : MatchKind) (hk : k = .ll ∨ k = .lf) (P : List (List α))
    (hne : ∀ p ∈ P, p ≠ []) (pre : Prefilter α) (sk : StartKind) (g : α → α) (i : Input α)
    (hear : i.earliest = true)
    (hs : PrefilterSoundAt k P (pre i.hay) (i.hay.map g)) (h : supportsAnch sk i.anch)
    (r0 : Option Mat)
    (h0 : tryFindFwd ((ideal k P sk false).comap g) none i = .ok r0) :
    ∃ r1, tryFindFwd ((ideal k P sk true).comap g) (some pre) i = .ok r1 ∧
      r1.isSome = r0.isSome := by
  have hk1 : ((ideal k P sk true).comap g).kind = k := rfl
  have hk0 : ((ideal k P sk false).comap g).kind = k := rfl
  unfold tryFindFwd at h0 ⊢
  cases hd : i.isDone with
  | true =>
    rw [hd] at h0
    exact ⟨r0, h0, rfl⟩
  | false =>
    have hse : i.s ≤ i.e := by
      simp only [Input.isDone, decide_eq_false_iff_not] at hd; omega
    rw [hd] at h0
    simp only [Bool.false_eq_true, if_false, hk1, hk0, hear, Bool.or_true] at h0 ⊢
    by_cases ha : i.anch = true
    · rw [if_pos ha] at h0 ⊢
      rw [findImp_noPre ((sameButSpecial_ideal k P sk).comap g) rfl]
      exact ⟨r0, h0, rfl⟩
    · rw [if_neg ha] at h0 ⊢
      have ha' : i.anch = false := by cases hh : i.anch <;> simp_all
      rw [ha'] at h
      obtain ⟨r1, r0', e1, e0, hr⟩ := findImp_pre_some k hk P hne pre sk g i hs ha' h hse
      rw [e0] at h0
      injection h0 with h0
      subst h0
      exact ⟨r1, e1, hr⟩

end ideal

/-! ## `is_match` on the reference automaton with a sound prefilter, all match kinds -/

theorem ref_is_match_pre (f : Bool) (k : MatchKind) (P : List (List UInt8))
    (hne : ∀ p ∈ P, p ≠ []) (pre : Prefilter UInt8) (hs : PreSoundFor f k P pre)
    (sk : StartKind) (i : Input UInt8) (h : supportsAnch sk i.anch) :
    ∃ r, tryFindFwd (refAut f k P sk true) (some pre) { i with earliest := true } = .ok r ∧
      (r.isSome = true ↔ ∃ m, IsOccA (specPats f P) (specHay f i.hay) i.s i.e i.anch m) := by
  obtain ⟨r0, h0, hiff⟩ := ref_is_match f k P sk i h
  by_cases hk : k = .std
  · refine ⟨r0, ?_, hiff⟩
    rw [ref_find_pre f k P hne pre sk { i with earliest := true } hs (Or.inl hk) h]
    exact h0
  · have hk' : k = .ll ∨ k = .lf := by cases k <;> simp at hk ⊢
    cases f
    · have hs' : PrefilterSoundAt k P (pre i.hay) (i.hay.map id) := by
        rw [List.map_id]; exact hs i.hay
      obtain ⟨r1, e1, hr⟩ := tryFind_pre_some k hk' P hne pre sk id { i with earliest := true } rfl
        hs' h r0 h0
      exact ⟨r1, e1, by rw [hr]; exact hiff⟩
    · obtain ⟨r1, e1, hr⟩ := tryFind_pre_some k hk' _ (foldPats_ne_nil hne) pre sk foldByte
        { i with earliest := true } rfl (hs i.hay) h r0 h0
      exact ⟨r1, e1, by rw [hr]; exact hiff⟩

/-- `is_match` on a good searcher with a sound prefilter, every match kind -/
theorem api_is_match_pre_all {s : Searcher} {kd : AcKind} (hg : Good s kd) {p : Prefilter UInt8}
    (hpre : s.pre = some p) (hne : ∀ q ∈ s.pats, q ≠ [])
    (hs : PreSoundFor s.cfg.fold s.cfg.matchKind s.pats p) (i : Input UInt8)
    (h : supportsAnch s.cfg.startKind i.anch) :
    ∃ b, topIsMatch s i = .ok b ∧
      (b = true ↔ ∃ m, IsOccA (specPats s.cfg.fold s.pats) (specHay s.cfg.fold i.hay)
        i.s i.e i.anch m) := by
  obtain ⟨r, h1, h2⟩ := ref_is_match_pre s.cfg.fold s.cfg.matchKind s.pats hne p hs
    (autSk kd s.cfg.startKind) i (supports_autSk kd h)
  refine ⟨r.isSome, ?_, h2⟩
  unfold topIsMatch
  rw [gate_none h, hpre]
  show (match tryFindFwd s.aut (some p) { i with earliest := true } with
    | .error e => Except.error e | .ok r => .ok r.isSome) = _
  rw [hg.find_ref, hg.hasPre_true hpre, h1]

end AcVerif.TopP
