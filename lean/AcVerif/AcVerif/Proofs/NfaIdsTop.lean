import AcVerif.Proofs.NfaIdsLive
/-!
# L1c-ids proofs, part 6: the statements of `Theorems/L1cIds.lean` for any `N` with `NLive`
-/
namespace AcVerif.L1cIdsP
open AcVerif AcVerif.CNfa AcVerif.L1cP AcVerif.L1dP AcVerif.L1eP AcVerif.L1dIdsP

section
variable {N : CNfa} {anch : Bool} {V : Nat → Prop} (hL : NLive N anch V) (hasPre : Bool)
  (k : MatchKind) (P : List (List UInt8))
include hL

theorem NLive.start_ids :
    (if anch then (buildNfaIds N hasPre).startA else (buildNfaIds N hasPre).startU) =
      posOf N (startOf anch) := by
  have := hL.toAut_start hasPre .std []
  exact Option.some.inj this

/-- the stored automaton and the compiled one are observationally equivalent from their start
states -/
theorem NLive.obsEquiv_start :
    ObsEquiv ((buildNfaIds N hasPre).toAut k P hasPre) (N.toAut k P hasPre) false anch
      (if anch then (buildNfaIds N hasPre).startA else (buildNfaIds N hasPre).startU)
      (if anch then SA else SU) := by
  rw [hL.start_ids hasPre]
  exact hL.obsEquiv hasPre k P

/-- the `is_special` contract at every reachable id -/
theorem NLive.special_contract (s0 : Nat)
    (hs : ((buildNfaIds N hasPre).toAut k P hasPre).start anch = some s0) (w : List UInt8) :
    let M := buildNfaIds N hasPre
    let q := (M.toAut k P hasPre).runFrom anch s0 w
    (M.isSpecial q = true ↔
        (M.isDead q = true ∨ M.isMatch q = true ∨ (hasPre = true ∧ M.isStart q = true))) ∧
      (M.isMatch q = true ↔ (M.states.getD q {}).matches_ ≠ []) ∧
      (M.isDead q = true → ∀ a b, M.next a (M.states.size + 1) q b = 0) := by
  intro M q
  obtain ⟨s, hv, hq, _⟩ := hL.reach hasPre k P s0 hs w
  have hq' : q = posOf N s := hq
  rw [hq']
  obtain ⟨c1, c2⟩ := hL.contract hasPre hv
  exact ⟨c1, hL.isMatch_iff hasPre hv, c2⟩

/-- every read at a reachable id is in bounds -/
theorem NLive.inbounds {n : Nat}
    (hpat : ∀ s, V s → ∀ p ∈ (N.getD s {}).matches_, p < n) (s0 : Nat)
    (hs : ((buildNfaIds N hasPre).toAut k P hasPre).start anch = some s0) (w : List UInt8) :
    let M := buildNfaIds N hasPre
    let q := (M.toAut k P hasPre).runFrom anch s0 w
    q < M.states.size ∧
      (∀ b, M.next? anch (M.states.size + 1) q b = some (M.next anch (M.states.size + 1) q b)) ∧
      M.matchList? q = some (M.matchList q) ∧ ∀ p ∈ M.matchList q, p < n := by
  intro M q
  obtain ⟨s, hv, hq, _⟩ := hL.reach hasPre k P s0 hs w
  have hq' : q = posOf N s := hq
  rw [hq']
  refine ⟨hL.pos_lt hasPre hv, fun b => hL.next? hasPre hv b, hL.matchList? hasPre hv, ?_⟩
  intro p hp
  rw [hL.matchList hasPre hv] at hp
  exact hpat s hv p hp

end

/-! ## all ids, reachable or not: `is_match` by id range is the per-state flag, except at `FAIL` -/

section
variable {N : CNfa} (hS : ShufOK N) (hmm : CNfa.isMatch N SU = CNfa.isMatch N SA)
  (hd : (N.getD DEAD {}).matches_ = [])
include hS hmm hd

theorem isMatch_all (hasPre : Bool) {q : Nat} (hq : q < (buildNfaIds N hasPre).states.size)
    (h1 : q ≠ FAIL) :
    (buildNfaIds N hasPre).isMatch q = true ↔
      ((buildNfaIds N hasPre).states.getD q {}).matches_ ≠ [] := by
  rw [buildNfaIds_states, idStates_size] at hq
  have hs := hS.order_lt q hq
  have e : posOf N ((cOrder N).getD q 0) = q := hS.pos_order q hq
  have hs1 : (cOrder N).getD q 0 ≠ 1 := by
    intro e1
    rw [e1] at e
    have : posOf N 1 = 1 := hS.pos1
    rw [this] at e
    exact h1 e.symm
  have hfm := posFlag_match hS hmm hs hs1
  rw [e] at hfm
  have em : ((buildNfaIds N hasPre).states.getD q {}).matches_ =
      (N.getD ((cOrder N).getD q 0) {}).matches_ := by
    rw [buildNfaIds_states]
    have := mats_ids hS hs
    rw [e] at this
    exact this
  rw [em]
  show (q != 0 && decide (q ≤ nfaMaxMatch N (cNa N))) = true ↔ _
  simp only [Bool.and_eq_true, bne_iff_ne, ne_eq, decide_eq_true_eq]
  rw [hfm]
  constructor
  · intro h; exact mats_ne_nil_of_match h.2
  · intro h
    refine ⟨?_, ?_⟩
    · intro e0; rw [e0] at h; exact h hd
    · cases hm : CNfa.isMatch N ((cOrder N).getD q 0)
      · exact absurd (mats_eq_nil_of_not_match hm) h
      · rfl

omit hmm hd in
/-- `is_match(FAIL)` is `true` (the "N.B." in `is_match`): `max_match_id ≥ 1` -/
theorem isMatch_fail (hasPre : Bool) : (buildNfaIds N hasPre).isMatch FAIL = true := by
  have := nfaMaxMatch_ge_one hS
  show (FAIL != 0 && decide (FAIL ≤ nfaMaxMatch N (cNa N))) = true
  rw [Bool.and_eq_true, decide_eq_true_eq]
  exact ⟨rfl, this⟩

end

end AcVerif.L1cIdsP
