import AcVerif.Proofs.TopLevelRef
import AcVerif.Theorems.C07Transfer
/-!
# Capstone proofs, part 2: the stream search on the reference automaton, and how an automaton
that agrees with the reference automaton inherits it

* `ref_stream`: C07 / C07Fold without the (unused) hypothesis `P ≠ []`, uniformly in `fold`;
* `minLen_eq_zero_iff`: `min_pattern_len() == 0` iff the empty pattern was supplied;
* `tiedTo_ref`: `StartEquiv` with the reference automaton carrying any prefilter flag gives
  `StreamTiedTo` the prefilter-free reference automaton.
-/
namespace AcVerif.TopP
open AcVerif AcVerif.MiscP AcVerif.StreamP AcVerif.StreamX AcVerif.StdP

theorem whole_eq (data : List UInt8) : Input.whole data = whole data := rfl

/-- C07: on the reference automaton the stream yields the in-memory iterator's matches, no I/O
error, no `read` into an empty buffer -/
theorem ref_stream (f : Bool) (P : List (List UInt8)) (hne : ∀ p ∈ P, p ≠ [])
    (sk : StartKind) (hsk : supportsAnch sk false) (data : List UInt8) (sched : List Nat)
    (hs : ∀ x ∈ sched, 1 ≤ x) (spare : Option Nat) (minFactor defaultCap : Nat)
    (hcap : (Buffer.new (α := UInt8) (maxPatLen P) spare minFactor defaultCap).min <
        (Buffer.new (α := UInt8) (maxPatLen P) spare minFactor defaultCap).cap) :
    ∃ ms,
      findIter (refAut f .std P sk false) none (Input.whole data) = .ok ms ∧
      streamFind (refAut f .std P sk false) { data := data, sched := sched } spare
        minFactor defaultCap = .ok (ms, false, 0) := by
  cases f
  · have hcap' : (Buffer.new (α := UInt8) (ideal .std P sk false).maxLen spare minFactor
          defaultCap).min <
        (Buffer.new (α := UInt8) (ideal .std P sk false).maxLen spare minFactor defaultCap).cap :=
      hcap
    obtain ⟨it, cs, err, hnew, hd, hsp, he, _⟩ :=
      stream_master P sk hsk hne data sched hs spare minFactor defaultCap hcap' none
    have herr := he rfl
    subst herr
    have H := hyp_ideal P sk hsk hne data sched hs spare minFactor defaultCap hcap'
    have hm := (spec_mats H.FOK hsp (Nat.zero_le _)).2 rfl
    refine ⟨_, findIter_eq P sk hsk data, ?_⟩
    show streamFind (ideal .std P sk false) _ _ _ _ = _
    rw [iter_findAt P sk hsk hne data, ← hm]
    simp only [streamFind, hnew, hd]
    rfl
  · have hcap' : (Buffer.new (α := UInt8)
          ((ideal .std (P.map (·.map foldByte)) sk false).comap foldByte).maxLen spare minFactor
          defaultCap).min <
        (Buffer.new (α := UInt8)
          ((ideal .std (P.map (·.map foldByte)) sk false).comap foldByte).maxLen spare minFactor
          defaultCap).cap := by
      rw [foldAut_maxLen]; exact hcap
    have hnef := foldPats_ne P hne
    obtain ⟨it, cs, err, hnew, hd, hsp, he, _⟩ :=
      stream_master_comap _ foldByte sk hsk hnef data sched hs spare minFactor defaultCap hcap'
        none
    have herr := he rfl
    subst herr
    have H := hyp_comap _ foldByte sk hsk hnef data sched hs spare minFactor defaultCap hcap'
    have hm := (spec_mats H.FOK hsp (Nat.zero_le _)).2 rfl
    refine ⟨_, findIter_comap_eq _ foldByte sk hsk data, ?_⟩
    show streamFind ((ideal .std (P.map (·.map foldByte)) sk false).comap foldByte) _ _ _ _ = _
    rw [iter_findAt_comap _ foldByte sk hsk hnef data, ← hm]
    simp only [streamFind, hnew, hd]
    rfl

/-- `min_pattern_len() == 0` iff the empty pattern was supplied -/
theorem minLen_eq_zero_iff (P : List (List UInt8)) :
    (P.map List.length).foldl min 18446744073709551615 = 0 ↔ [] ∈ P := by
  constructor
  · intro h
    apply Classical.byContradiction
    intro hn
    have : 0 < (P.map List.length).foldl min 18446744073709551615 := by
      apply foldl_min_pos _ _ (by omega)
      intro x hx
      obtain ⟨p, hp, rfl⟩ := List.mem_map.1 hx
      exact List.length_pos_iff.2 (fun e => hn (e ▸ hp))
    omega
  · intro h
    have := foldl_min_le (P.map List.length) 18446744073709551615 0
      (List.mem_map.2 ⟨[], h, rfl⟩)
    omega

section tied
variable {σ : Type}

/-- an automaton whose start state is equivalent to the reference automaton's (any prefilter
flag) is tied, for the stream search, to the prefilter-free reference automaton -/
theorem tiedTo_ref {X : Aut σ UInt8} (f : Bool) (P : List (List UInt8)) (sk : StartKind)
    (hp first : Bool) (hk : X.kind = .std)
    (hl : ∀ pid, X.patLen pid = (P.getD pid []).length)
    (hmin : X.minLen = (P.map List.length).foldl min 18446744073709551615)
    (hmax : X.maxLen = (P.map List.length).foldl max 0)
    (h : StartEquiv X (refAut f .std P sk hp) first false) :
    StreamTiedTo X (refAut f .std P sk false) := by
  cases f
  · have ht : StreamTied X P sk := StreamTied.of_startEquiv (hasPre := hp) hk hl hmin hmax h
    exact ⟨ht.kind, ht.patLen, ht.minLen, ht.maxLen, ht.start⟩
  · exact StreamTiedTo.of_startEquiv_fold hk hl hmin hmax h

end tied

end AcVerif.TopP
