import AcVerif.Proofs.TopLevelPreEarliest
import AcVerif.Proofs.TopLevel2Earliest
/-!
# Capstone proofs, part 11: earliest mode on a leftmost searcher **with** a prefilter (C14)

In earliest mode a leftmost search that consults a confirming prefilter may return the normal match
where the prefilter-free search returns the earliest one (`C05_transparent` excludes the case,
`TopLevelPreEarliest.lean` shows that "found something" is unaffected).  Here: whatever it returns
is a genuine admissible occurrence that ends no later than THE normal (leftmost) answer.

* `lockstep3`: three runs from the same state – earliest with prefilter, earliest without, normal
  without – step alike until the start state is re-entered (or the first two end with the same
  result);
* `restart_eok`: by strong induction on the remaining length, the earliest run with a sound
  prefilter restarted at `b` returns nothing, or an occurrence inside `[b, e]` ending no later than
  the leftmost answer for `[b, e]` (`EOK`), from C14 for the fresh prefilter-free runs;
* `tryFind_pre_earliest`, `ref_earliest_pre`, `api_find_earliest_pre`.
-/
namespace AcVerif.TopP
open AcVerif AcVerif.MiscP AcVerif.PreP
variable {σ α : Type}

/-! ## generic: three runs in lockstep outside the start state -/

theorem lockstep3 {A0 A1 : Aut σ α} {q0 : σ} (hA : StartFlagged A0 A1 q0)
    (hay : List α) (s e : Nat) (he : e ≤ hay.length) (p : Prefilter α) :
    ∀ (n : Nat) (q : σ) (at_ : Nat), e - at_ = n →
      findLoop A1 hay s e he (some p) false true q at_ Option.none =
          findLoop A0 hay s e he Option.none false true q at_ Option.none ∨
        ∃ at', at_ ≤ at' ∧ at' < e ∧
          findLoop A1 hay s e he (some p) false true q at_ Option.none =
            follow A1 hay s e he p true q0 at' Option.none ∧
          findLoop A0 hay s e he Option.none false false q at_ Option.none =
            findLoop A0 hay s e he Option.none false false q0 (at' + 1) Option.none := by
  intro n
  induction n with
  | zero =>
    intro q at_ hn
    have h : ¬ at_ < e := by omega
    left
    rw [findLoop_done _ _ _ _ _ _ _ _ _ _ _ h, findLoop_done _ _ _ _ _ _ _ _ _ _ _ h]
  | succ n ih =>
    intro q at_ hn
    have h : at_ < e := by omega
    have hn' : e - (at_ + 1) = n := by omega
    rw [findLoop_step _ _ _ _ _ (some p) _ _ _ _ _ h,
      findLoop_step _ _ _ _ _ Option.none _ true _ _ _ h,
      findLoop_step _ _ _ _ _ Option.none _ false _ _ _ h]
    simp only [hA.next, hA.dead, hA.isMatch, hA.getMatch, Bool.false_and, Bool.not_false, if_true]
    generalize A0.next false q (hay[at_]'(Nat.lt_of_lt_of_le h he)) = q'
    rw [hA.special0 q']
    by_cases hq : q' = q0
    · subst hq
      simp only [hA.q0_special, hA.q0_dead, hA.q0_match, if_true, Bool.false_eq_true, if_false,
        Bool.or_self]
      exact Or.inr ⟨at_, Nat.le_refl _, h, rfl, rfl⟩
    · rw [hA.special1 q' hq, hA.special0 q']
      cases hd : A0.isDead q' with
      | true => left; simp
      | false =>
        cases hm : A0.isMatch q' with
        | true => left; simp
        | false =>
          simp only [Bool.or_self, Bool.false_eq_true, if_false]
          rcases ih q' (at_ + 1) hn' with h1 | ⟨at', h1, h2, h3, h4⟩
          · exact Or.inl h1
          · exact Or.inr ⟨at', by omega, h2, h3, h4⟩

/-! ## the ideal leftmost automaton -/

section ideal
variable [DecidableEq α]

omit [DecidableEq α] in
theorem better_start_le {k : MatchKind} (hk : k = .ll ∨ k = .lf) {a b : Mat}
    (h : better k a b) : a.start ≤ b.start := by
  rcases hk with rfl | rfl
  · simp only [better, betterLL] at h; omega
  · simp only [better, betterLF] at h; omega

/-- the fresh prefilter-free run from the start state at `j` (either mode) is the engine on the
span `[j, e]` -/
theorem fresh_run (k : MatchKind) (hk : k = .ll ∨ k = .lf) (P : List (List α))
    (hne : ∀ p ∈ P, p ≠ []) (sk : StartKind) (hsk : supportsAnch sk false) (hay : List α)
    (s e : Nat) (he : e ≤ hay.length) (ea : Bool) (j : Nat) (hj : j ≤ e) :
    tryFindFwd (ideal k P sk false) none ⟨hay, j, e, false, ea, ⟨he, by omega⟩⟩ =
      .ok (findLoop (ideal k P sk false) hay s e he none false ea (.at []) j none) := by
  have hm : (ideal k P sk false).isMatch (.at []) = false :=
    (startFlagged_ideal k P hne sk).q0_match
  have hkind : (ideal k P sk false).kind = k := rfl
  have hks : (k == MatchKind.std) = false := by rcases hk with rfl | rfl <;> rfl
  have hd : (⟨hay, j, e, false, ea, ⟨he, by omega⟩⟩ : Input α).isDone = false := by
    simp [Input.isDone]; omega
  unfold tryFindFwd
  simp only [hd, Bool.false_eq_true, if_false, hkind, hks, Bool.false_or]
  unfold findImp
  simp only [LmP.start_ideal hsk, hm, Bool.false_and, Bool.false_eq_true, if_false]
  exact congrArg Except.ok (findLoop_s_irrel _ _ _ _ _ _ _ _ _ _)

/-- nothing, or an occurrence inside `[j, e]` that ends no later than the leftmost answer for
`[j, e]` -/
def EOK (k : MatchKind) (P : List (List α)) (hay : List α) (j e : Nat) (x : Option Mat) : Prop :=
  ∀ m, x = some m → IsOcc P hay j e m ∧
    ∀ m', IsFind k P hay j e false (some m') → m.stop ≤ m'.stop

omit [DecidableEq α] in
theorem eok_none (k : MatchKind) (P : List (List α)) (hay : List α) (j e : Nat) :
    EOK k P hay j e none := by
  intro m hm; cases hm

/-- C14 for the fresh prefilter-free runs of the (mapped) ideal automaton -/
theorem fresh_eok (k : MatchKind) (hk : k = .ll ∨ k = .lf) (P : List (List α))
    (hne : ∀ p ∈ P, p ≠ []) (sk : StartKind) (hsk : supportsAnch sk false) (g : α → α)
    (hay : List α) (s e : Nat) (he : e ≤ hay.length) (j : Nat) (hj : j ≤ e) :
    EOK k P (hay.map g) j e
        (findLoop ((ideal k P sk false).comap g) hay s e he none false true (.at []) j none) ∧
    IsFind k P (hay.map g) j e false
        (findLoop ((ideal k P sk false).comap g) hay s e he none false false (.at []) j none) := by
  have he' : e ≤ (hay.map g).length := by simpa using he
  rw [MiscP.findLoop_comap (ideal k P sk false) g hay s e he he',
    MiscP.findLoop_comap (ideal k P sk false) g hay s e he he']
  let i0 : Input α := ⟨hay.map g, j, e, false, false, ⟨he', by omega⟩⟩
  obtain ⟨r, r', h1, h2, _, h4⟩ := C14_earliest k hk P sk i0 hsk
  have e1 := h1.symm.trans (fresh_run k hk P hne sk hsk (hay.map g) s e he' true j hj)
  have e2 := h2.symm.trans (fresh_run k hk P hne sk hsk (hay.map g) s e he' false j hj)
  injection e1 with e1
  injection e2 with e2
  subst e1 e2
  have hF : IsFind k P (hay.map g) j e false
      (findLoop (ideal k P sk false) (hay.map g) s e he' none false false (.at []) j none) := by
    rcases hk with rfl | rfl
    · obtain ⟨r'', h2', hf⟩ := LmP.find_ll P sk { i0 with earliest := false } rfl hsk
      rw [h2] at h2'; injection h2' with h2'; subst h2'; exact hf
    · obtain ⟨r'', h2', hf⟩ := LmP.find_lf P sk { i0 with earliest := false } rfl hsk
      rw [h2] at h2'; injection h2' with h2'; subst h2'; exact hf
  refine ⟨fun m hm => ?_, hF⟩
  obtain ⟨ho, hb⟩ := h4 m hm
  refine ⟨isOccA_false.1 ho, fun m' hm' => hb m' ?_⟩
  exact IsFind_unique k P (hay.map g) j e false _ _ hF hm'

/-- the restart lemma for earliest mode: `EOK` at every restart position -/
theorem restart_eok (k : MatchKind) (hk : k = .ll ∨ k = .lf) (P : List (List α))
    (hne : ∀ p ∈ P, p ≠ []) (pre : Prefilter α) (sk : StartKind) (hsk : supportsAnch sk false)
    (g : α → α) (hay : List α) (hs : PrefilterSoundAt k P (pre hay) (hay.map g))
    (s e : Nat) (he : e ≤ hay.length) :
    ∀ (n b : Nat), e - b = n → b ≤ e →
      EOK k P (hay.map g) b e
        (findLoop ((ideal k P sk true).comap g) hay s e he (some pre) false true (.at []) b
          none) := by
  have he' : e ≤ (hay.map g).length := by simpa using he
  have hA := (startFlagged_ideal k P hne sk).comap g
  have Fspec := fresh_eok k hk P hne sk hsk g hay s e he
  intro n
  induction n using Nat.strongRecOn with
  | _ n ih =>
    intro b hn hbe
    have IH : ∀ j, b < j → j ≤ e →
        EOK k P (hay.map g) j e
          (findLoop ((ideal k P sk true).comap g) hay s e he (some pre) false true (.at []) j
            none) :=
      fun j h1 h2 => ih (e - j) (by omega) j rfl h2
    rcases lockstep3 hA hay s e he pre (e - b) (.at []) b rfl with h1 | ⟨at', hb, hlt, hX, hZ⟩
    · rw [h1]; exact (Fspec b hbe).1
    · rw [hX]
      -- the leftmost answer for `[b, e]` is the leftmost answer for `[at' + 1, e]`
      have hN : ∀ m', IsFind k P (hay.map g) b e false (some m') →
          IsFind k P (hay.map g) (at' + 1) e false (some m') := by
        intro m' hm'
        have e1 := IsFind_unique k P (hay.map g) b e false _ _ (Fspec b hbe).2 hm'
        have := (Fspec (at' + 1) (by omega)).2
        rw [← hZ, e1] at this
        exact this
      unfold follow
      cases hc : pre hay at' e with
      | none => simp only [Cand.intoOption]; exact eok_none _ _ _ _ _
      | mtch mc =>
        simp only [Cand.intoOption]
        have hmc := hs.mtch_sound at' e mc he' (by omega) hc
        have hmce := (isOcc_start_le (isOccA_false.1 hmc.1)).2
        split
        · rename_i hgt
          intro m hm
          obtain ⟨ho, hbd⟩ := IH mc.start (by omega) hmce m hm
          refine ⟨PreP.isOcc_mono ho (by omega), fun m' hm' => hbd m' ?_⟩
          have h1 := hN m' hm'
          have h2 : mc.start ≤ m'.start :=
            better_start_le hk (hmc.2 m' (isOccA_false.2
              (PreP.isOcc_mono (isOccA_false.1 h1.1) (by omega))))
          exact isFind_restrict k h1 (by omega) h2
        · intro m hm
          obtain ⟨ho, hbd⟩ := IH (at' + 1) (by omega) (by omega) m hm
          exact ⟨PreP.isOcc_mono ho (by omega), fun m' hm' => hbd m' (hN m' hm')⟩
      | pos i =>
        simp only [Cand.intoOption]
        obtain ⟨hle, hlo⟩ := hs.pos_sound at' e i he' (by omega) hc
        split
        · rename_i hgt
          by_cases hie : i ≤ e
          · intro m hm
            obtain ⟨ho, hbd⟩ := IH i (by omega) hie m hm
            refine ⟨PreP.isOcc_mono ho (by omega), fun m' hm' => hbd m' ?_⟩
            have h1 := hN m' hm'
            have h2 : i ≤ m'.start :=
              hlo m' (PreP.isOcc_mono (isOccA_false.1 h1.1) (by omega))
            exact isFind_restrict k h1 (by omega) h2
          · rw [findLoop_done _ _ _ _ _ _ _ _ _ _ _ (by omega)]
            exact eok_none _ _ _ _ _
        · intro m hm
          obtain ⟨ho, hbd⟩ := IH (at' + 1) (by omega) (by omega) m hm
          exact ⟨PreP.isOcc_mono ho (by omega), fun m' hm' => hbd m' (hN m' hm')⟩

/-- `try_find_fwd_imp` in earliest mode, unanchored, with a sound prefilter -/
theorem findImp_pre_eok (k : MatchKind) (hk : k = .ll ∨ k = .lf) (P : List (List α))
    (hne : ∀ p ∈ P, p ≠ []) (pre : Prefilter α) (sk : StartKind) (g : α → α) (i : Input α)
    (hs : PrefilterSoundAt k P (pre i.hay) (i.hay.map g))
    (ha : i.anch = false) (hsk : supportsAnch sk false) (hse : i.s ≤ i.e) :
    ∃ r1, findImp ((ideal k P sk true).comap g) i (some pre) false true = .ok r1 ∧
      EOK k P (i.hay.map g) i.s i.e r1 := by
  have hA := startFlagged_ideal k P hne sk
  have hst1 : ((ideal k P sk true).comap g).start i.anch = some (.at []) := by
    rw [ha]; exact LmP.start_ideal (k := k) (P := P) hsk
  have hm1 : ((ideal k P sk true).comap g).isMatch (.at []) = false := hA.q0_match
  have he' : i.e ≤ (i.hay.map g).length := by simpa using i.valid.1
  have L := fun b (hb : b ≤ i.e) =>
    restart_eok k hk P hne pre sk hsk g i.hay hs i.s i.e i.valid.1 (i.e - b) b rfl hb
  unfold findImp
  rw [hst1]
  simp only [hm1, Bool.false_and, Bool.false_eq_true, if_false]
  cases hc : pre i.hay i.s i.e with
  | none => exact ⟨_, rfl, eok_none _ _ _ _ _⟩
  | mtch mc =>
    refine ⟨_, rfl, fun m hm => ?_⟩
    injection hm with hm
    subst hm
    have hmc := hs.mtch_sound i.s i.e mc he' hse hc
    refine ⟨isOccA_false.1 hmc.1, fun m' hm' => ?_⟩
    have := IsFind_unique k P (i.hay.map g) i.s i.e false _ _ hmc hm'
    injection this with this
    subst this
    exact Nat.le_refl _
  | pos j =>
    refine ⟨_, rfl, ?_⟩
    obtain ⟨hle, hlo⟩ := hs.pos_sound i.s i.e j he' hse hc
    by_cases hje : j ≤ i.e
    · intro m hm
      obtain ⟨ho, hbd⟩ := L j hje m hm
      refine ⟨PreP.isOcc_mono ho hle, fun m' hm' => hbd m' ?_⟩
      exact isFind_restrict k hm' hle (hlo m' (isOccA_false.1 hm'.1))
    · rw [findLoop_done _ _ _ _ _ _ _ _ _ _ _ (by omega)]
      exact eok_none _ _ _ _ _

/-- what C14 says of the earliest answer, relative to THE normal answer -/
def EarlyOf (k : MatchKind) (P : List (List α)) (hay : List α) (s e : Nat) (anch : Bool)
    (x : Option Mat) : Prop :=
  ∀ m, x = some m → IsOccA P hay s e anch m ∧
    ∀ m', IsFind k P hay s e anch (some m') → m.stop ≤ m'.stop

/-- the prefilter-free earliest search of the (mapped) ideal leftmost automaton (C14) -/
theorem plain_early (k : MatchKind) (hk : k = .ll ∨ k = .lf) (P : List (List α))
    (sk : StartKind) (g : α → α) (i : Input α) (hear : i.earliest = true)
    (h : supportsAnch sk i.anch) :
    ∃ r0, tryFindFwd ((ideal k P sk false).comap g) none i = .ok r0 ∧
      EarlyOf k P (i.hay.map g) i.s i.e i.anch r0 := by
  obtain ⟨r, r', h1, h2, _, h4⟩ := C14_earliest k hk P sk (i.mapHay g) h
  have e1 : tryFindFwd ((ideal k P sk false).comap g) none i = .ok r := by
    rw [tryFindFwd_comap]
    have : i.mapHay g = { i.mapHay g with earliest := true } := by
      cases i; simp only [Input.mapHay] at hear ⊢; subst hear; rfl
    rw [this]; exact h1
  have hF : IsFind k P (i.hay.map g) i.s i.e i.anch r' := by
    rcases hk with rfl | rfl
    · obtain ⟨r'', h2', hf⟩ := LmP.find_ll P sk { i.mapHay g with earliest := false } rfl h
      rw [h2] at h2'; injection h2' with h2'; subst h2'; exact hf
    · obtain ⟨r'', h2', hf⟩ := LmP.find_lf P sk { i.mapHay g with earliest := false } rfl h
      rw [h2] at h2'; injection h2' with h2'; subst h2'; exact hf
  refine ⟨r, e1, fun m hm => ?_⟩
  obtain ⟨ho, hb⟩ := h4 m hm
  exact ⟨ho, fun m' hm' => hb m' (IsFind_unique k P (i.hay.map g) i.s i.e i.anch _ _ hF hm')⟩

/-- `try_find_fwd` in earliest mode on a leftmost searcher with a sound prefilter: whatever it
reports is an admissible occurrence ending no later than THE normal answer -/
theorem tryFind_pre_earliest (k : MatchKind) (hk : k = .ll ∨ k = .lf) (P : List (List α))
    (hne : ∀ p ∈ P, p ≠ []) (pre : Prefilter α) (sk : StartKind) (g : α → α) (i : Input α)
    (hear : i.earliest = true)
    (hs : PrefilterSoundAt k P (pre i.hay) (i.hay.map g)) (h : supportsAnch sk i.anch) :
    ∃ r1, tryFindFwd ((ideal k P sk true).comap g) (some pre) i = .ok r1 ∧
      EarlyOf k P (i.hay.map g) i.s i.e i.anch r1 := by
  obtain ⟨r0, h0, hq0⟩ := plain_early k hk P sk g i hear h
  have hk1 : ((ideal k P sk true).comap g).kind = k := rfl
  have hk0 : ((ideal k P sk false).comap g).kind = k := rfl
  unfold tryFindFwd at h0 ⊢
  cases hd : i.isDone with
  | true =>
    rw [hd] at h0
    exact ⟨r0, h0, hq0⟩
  | false =>
    have hse : i.s ≤ i.e := by
      simp only [Input.isDone, decide_eq_false_iff_not] at hd; omega
    rw [hd] at h0
    simp only [Bool.false_eq_true, if_false, hk1, hk0, hear, Bool.or_true] at h0 ⊢
    by_cases ha : i.anch = true
    · rw [if_pos ha] at h0 ⊢
      rw [findImp_noPre ((sameButSpecial_ideal k P sk).comap g) rfl]
      exact ⟨r0, h0, hq0⟩
    · rw [if_neg ha]
      have ha' : i.anch = false := by cases hh : i.anch <;> simp_all
      rw [ha'] at h
      obtain ⟨r1, e1, hr⟩ := findImp_pre_eok k hk P hne pre sk g i hs ha' h hse
      refine ⟨r1, e1, fun m hm => ?_⟩
      obtain ⟨ho, hb⟩ := hr m hm
      rw [ha']
      exact ⟨isOccA_false.2 ho, hb⟩

end ideal

/-! ## the reference automaton, a good searcher -/

theorem ref_earliest_pre (f : Bool) (k : MatchKind) (hk : k ≠ .std) (P : List (List UInt8))
    (hne : ∀ p ∈ P, p ≠ []) (pre : Prefilter UInt8) (hs : PreSoundFor f k P pre)
    (sk : StartKind) (i : Input UInt8) (h : supportsAnch sk i.anch) :
    ∃ r r', tryFindFwd (refAut f k P sk true) (some pre) { i with earliest := true } = .ok r ∧
      tryFindFwd (refAut f k P sk true) (some pre) { i with earliest := false } = .ok r' ∧
      IsFind k (specPats f P) (specHay f i.hay) i.s i.e i.anch r' ∧
      EarliestOK (specPats f P) (specHay f i.hay) i.s i.e i.anch r r' := by
  have hk' := leftmost_of_ne_std hk
  -- the normal search
  obtain ⟨r', h2, hf⟩ := ref_find f k P sk { i with earliest := false } h (Or.inr rfl)
  have h2' : tryFindFwd (refAut f k P sk true) (some pre) { i with earliest := false } = .ok r' :=
    (ref_find_pre f k P hne pre sk { i with earliest := false } hs (Or.inr rfl) h).trans h2
  -- "found something" (is_match)
  obtain ⟨r, h1, hiff⟩ := ref_is_match_pre f k P hne pre hs sk i h
  have hsome : r.isSome = r'.isSome := isSome_eq_of_iff hiff (isFind_isSome_iff hf)
  -- the occurrence and its end
  have key : EarlyOf k (specPats f P) (specHay f i.hay) i.s i.e i.anch r := by
    cases f
    · have hs' : PrefilterSoundAt k P (pre i.hay) (i.hay.map id) := by
        rw [List.map_id]; exact hs i.hay
      obtain ⟨r1, e1, hr⟩ := tryFind_pre_earliest k hk' P hne pre sk id
        { i with earliest := true } rfl hs' h
      have : r1 = r := by
        have := e1.symm.trans h1
        injection this
      subst this
      have hr' : EarlyOf k P i.hay i.s i.e i.anch r1 := by
        have := hr
        simp only [List.map_id] at this
        exact this
      exact hr'
    · obtain ⟨r1, e1, hr⟩ := tryFind_pre_earliest k hk' _ (foldPats_ne_nil hne) pre sk foldByte
        { i with earliest := true } rfl (hs i.hay) h
      have : r1 = r := by
        have := e1.symm.trans h1
        injection this
      subst this
      exact hr
  refine ⟨r, r', h1, h2', hf, hsome, fun m hm => ?_⟩
  obtain ⟨ho, hb⟩ := key m hm
  refine ⟨ho, fun m' hm' => hb m' ?_⟩
  rw [hm'] at hf
  exact hf

/-- **`try_find` in earliest mode on a leftmost searcher with a sound prefilter** -/
theorem api_find_earliest_pre {s : Searcher} {kd : AcKind} (hg : Good s kd) {p : Prefilter UInt8}
    (hpre : s.pre = some p) (hne : ∀ q ∈ s.pats, q ≠ [])
    (hs : PreSoundFor s.cfg.fold s.cfg.matchKind s.pats p)
    (hk : s.cfg.matchKind ≠ .std) (i : Input UInt8) (h : supportsAnch s.cfg.startKind i.anch) :
    ∃ r r', topFind s { i with earliest := true } = .ok r ∧
      topFind s { i with earliest := false } = .ok r' ∧
      IsFind s.cfg.matchKind (specPats s.cfg.fold s.pats) (specHay s.cfg.fold i.hay)
        i.s i.e i.anch r' ∧
      EarliestOK (specPats s.cfg.fold s.pats) (specHay s.cfg.fold i.hay) i.s i.e i.anch r r' := by
  obtain ⟨r, r', h1, h2, h3, h4⟩ := ref_earliest_pre s.cfg.fold s.cfg.matchKind hk s.pats hne p hs
    (autSk kd s.cfg.startKind) i (supports_autSk kd h)
  refine ⟨r, r', ?_, ?_, h3, h4⟩
  · unfold topFind
    rw [show ({ i with earliest := true } : Input UInt8).anch = i.anch from rfl, gate_none h, hpre]
    show tryFindFwd s.aut (some p) { i with earliest := true } = _
    rw [hg.find_ref, hg.hasPre_true hpre, h1]
  · unfold topFind
    rw [show ({ i with earliest := false } : Input UInt8).anch = i.anch from rfl, gate_none h,
      hpre]
    show tryFindFwd s.aut (some p) { i with earliest := false } = _
    rw [hg.find_ref, hg.hasPre_true hpre, h2]

end AcVerif.TopP
