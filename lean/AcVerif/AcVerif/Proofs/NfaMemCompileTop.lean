import AcVerif.Proofs.NfaMemCompileBfs
import AcVerif.Proofs.Transfer
/-!
# L1c-mem assembly, part 6: `Compiler::compile` on the memory; what a search can see

* `compile_rel`: the phases composed;
* `abs_eq_of_rel`: `Rel` as an equation (`zeroFail012`);
* `nextState_failEq`, `startEquiv_failEq`: `NFA::next_state` never reads the failure link of
  `DEAD`, `FAIL` or the unanchored start (the first two are never left through a failure link –
  `DEAD` and the unanchored start have all 256 transitions – and `FAIL` is never entered), so two
  automata that differ only there are observationally equivalent.
-/
namespace AcVerif

/-- the failure links of `DEAD`, `FAIL` and the unanchored start set to `0`, the value the crate's
`alloc_state` gives them (`special.start_unanchored_id` is still zero when they are allocated,
noncontiguous.rs:979-984); `CNfa.init` has `SU` there -/
def zeroFail012 (n : CNfa) : CNfa :=
  ((n.modify 0 fun st => { st with fail := 0 }).modify 1 fun st => { st with fail := 0 }).modify 2
    fun st => { st with fail := 0 }

namespace MemC
open AcVerif AcVerif.CNfa AcVerif.L1cP AcVerif.BuildP AcVerif.MemP

/-! ## `nfa.sparse` does not grow after `build_trie` -/

theorem forTrans_sparse {σ : Type} (nfa : σ → MemNfa) (sid : Nat) (body : σ → MTrans → σ)
    (hbody : ∀ s t, (nfa (body s t)).sparse = (nfa s).sparse) :
    ∀ (fuel : Nat) (s : σ) (prev : Option Nat),
      (nfa (MemNfa.forTrans nfa sid body fuel s prev)).sparse = (nfa s).sparse
  | 0, _, _ => rfl
  | fuel + 1, s, prev => by
    rw [MemNfa.forTrans]
    split
    · rfl
    · rw [forTrans_sparse nfa sid body hbody fuel, hbody]

theorem bfs_sparse (lm sim us : Bool) :
    ∀ (fuel : Nat) (acc : MemNfa × List Nat × List Nat),
      (MemNfa.bfs lm sim us fuel acc).sparse = acc.1.sparse
  | 0, (_, _, _) => rfl
  | fuel + 1, (m, [], _) => rfl
  | fuel + 1, (m, id :: q, seen) => by
    rw [MemNfa.bfs, bfs_sparse lm sim us fuel]
    exact forTrans_sparse (σ := MemNfa × List Nat × List Nat) (·.1) id _
      (fillStateBody_sparse lm sim us id) _ _ _

theorem fillFailure_sparse (m : MemNfa) (k : MatchKind) (fold : Bool) :
    (m.fillFailureTransitions k fold 2).sparse = m.sparse := by
  unfold MemNfa.fillFailureTransitions
  simp only
  rw [bfs_sparse]
  exact forTrans_sparse (σ := MemNfa × List Nat × List Nat) (·.1) 2 _
    (fillStartBody_sparse k.isLeftmost (m.isMatch 2) fold) _ _ _

theorem setAnchored_sparse_size {m r : MemNfa} {su sa : Nat}
    (h : m.setAnchoredStartState su sa = some r) : r.sparse.size = m.sparse.size := by
  unfold MemNfa.setAnchoredStartState at h
  split at h
  · simp at h
  · rename_i r1 hr1
    have := (copyNextGo_sizes su sa _ _ _ _ r1 hr1).1
    have e := Option.some.inj h
    rw [← e]
    show (r1.copyMatches su sa).sparse.size = _
    rw [Rel.copyMatches_sparse, this]

theorem closeLoop_sparse_size (m : MemNfa) (lm : Bool) :
    (m.closeStartStateLoopForLeftmost 2 lm).sparse.size = m.sparse.size := by
  unfold MemNfa.closeStartStateLoopForLeftmost
  split
  · exact (replaceNextGo_sizes 2 2 MemNfa.DEAD _ m none).1
  · rfl

/-! ## the phases composed -/

theorem compile?_eq (k : MatchKind) (fold : Bool) (P : List (List UInt8)) :
    MemNfa.compile? k fold P =
      match (MemNfa.init.buildTrie k fold 2 P).setAnchoredStartState 2 3 with
      | none => none
      | some m => some (((m.addUnanchoredStartStateLoop 2).fillFailureTransitions k fold 2)
          |>.closeStartStateLoopForLeftmost 2 k.isLeftmost) := rfl

/-- what `NFA::next_state` relies on in the finished automaton -/
structure Final (n : CNfa) : Prop where
  size4 : 4 ≤ n.size
  fullSU : ∀ b, follow n 2 b ≠ FAIL
  fullDead : ∀ b, follow n 0 b ≠ FAIL
  f3 : (n.getD 3 {}).fail = 0
  fl : ∀ s, 4 ≤ s → s < n.size → (n.getD s {}).fail ≠ 1

theorem lookup_map_ne_fail (g : Nat → Nat) (hg : ∀ t, t ≠ FAIL → g t ≠ FAIL) (c : UInt8) :
    ∀ l : List (UInt8 × Nat), lookup l c ≠ FAIL →
      lookup (l.map fun (b, t) => (b, g t)) c ≠ FAIL
  | [], h => h
  | (b, t) :: l, h => by
    rw [List.map_cons]
    show lookup ((b, g t) :: _) c ≠ FAIL
    rw [lookup_cons] at h ⊢
    split
    · rename_i e; rw [if_pos e] at h; exact hg t h
    · rename_i e; rw [if_neg e] at h; exact lookup_map_ne_fail g hg c l h

theorem Final_closeStartLoop {fold : Bool} {n : CNfa} {d : Nat → Nat} (hP : FP fold n d) (hJ : J n d)
    (k : MatchKind) : Final (closeStartLoop k n) := by
  unfold closeStartLoop
  split
  · have hg : ∀ s, ((n.modify SU fun st => { st with trans := st.trans.map fun (b, t) =>
        (b, if t == SU then DEAD else t) }).getD s {}).fail = (n.getD s {}).fail := by
      intro s; rw [getD_modify]; split <;> rfl
    refine ⟨by rw [Array.size_modify]; exact hP.size4, ?_, ?_, by rw [hg]; exact hJ.f3, ?_⟩
    · intro b
      show CNfa.follow _ SU b ≠ FAIL
      rw [follow_eq, getD_modify_eq _ _ (by have := hP.size4; simp only [SU]; omega)]
      refine lookup_map_ne_fail (fun t => if t == SU then DEAD else t) ?_ b _ (hP.fullSU b)
      intro t ht
      show (if t == SU then DEAD else t) ≠ FAIL
      split
      · decide
      · exact ht
    · intro b
      rw [follow_eq, getD_modify_ne _ _ (show SU ≠ 0 by decide)]
      exact hP.fullDead b
    · intro s h4 hs
      rw [hg]
      exact (hJ.fl s h4 (by rw [Array.size_modify] at hs; exact hs)).1
  · exact ⟨hP.size4, hP.fullSU, hP.fullDead, hJ.f3, fun s h4 hs => (hJ.fl s h4 hs).1⟩

/-- **all phases of `Compiler::compile`**: the `unreachable!()` is not reached, the result refines
`CNfa.compile`, and `nfa.sparse` has the length it had after `build_trie` -/
theorem compile_rel (k : MatchKind) (fold : Bool) (P : List (List UInt8)) :
    ∃ mc, MemNfa.compile? k fold P = some mc ∧ Rel mc (CNfa.compile k fold P) ∧
      Final (CNfa.compile k fold P) ∧
      mc.sparse.size = (MemNfa.init.buildTrie k fold 2 P).sparse.size := by
  have h1 := sim_buildTrie k fold P
  obtain ⟨d, hT⟩ := TI_buildTrie k fold P
  obtain ⟨r, hr, h2⟩ := rel_setAnchored h1 hT
  have hsz2 : (setAnchoredStart (buildTrie k fold P)).size = (buildTrie k fold P).size := by
    rw [setAnchoredStart_eq, Array.size_modify]
  have h3 := rel_addLoop h2 (by rw [hsz2]; have := hT.size4; omega)
  obtain ⟨hP, hJ⟩ := FP_start hT
  obtain ⟨h4, hP4, hJ4⟩ := sim_fillFailure h3 hP hJ k
  have h5 := rel_closeLoop h4 (by have := hP4.size4; omega) k
  refine ⟨_, ?_, h5, Final_closeStartLoop hP4 hJ4 k, ?_⟩
  · rw [compile?_eq, hr]
  · rw [closeLoop_sparse_size, fillFailure_sparse,
      show (r.addUnanchoredStartStateLoop 2).sparse.size = r.sparse.size from
        (replaceNextGo_sizes 2 MemNfa.FAIL 2 _ r none).1,
      setAnchored_sparse_size hr]

/-! ## `Rel` as an equation -/

theorem CState_ext {x y : CState} (h1 : x.trans = y.trans) (h2 : x.fail = y.fail)
    (h3 : x.matches_ = y.matches_) : x = y := by
  cases x; cases y; simp only at h1 h2 h3; subst h1; subst h2; subst h3; rfl

theorem getD_zeroFail012 (n : CNfa) (s : Nat) :
    (zeroFail012 n).getD s {} = if s < 3 ∧ s < n.size then { n.getD s {} with fail := 0 }
      else n.getD s {} := by
  unfold zeroFail012
  rw [getD_modify, getD_modify, getD_modify]
  simp only [Array.size_modify]
  by_cases h2 : 2 = s ∧ s < n.size
  · obtain ⟨e, hs⟩ := h2
    subst e
    rw [if_pos ⟨rfl, hs⟩, if_neg (by omega), if_neg (by omega), if_pos ⟨by omega, hs⟩]
  · rw [if_neg h2]
    by_cases h1 : 1 = s ∧ s < n.size
    · obtain ⟨e, hs⟩ := h1
      subst e
      rw [if_pos ⟨rfl, hs⟩, if_neg (by omega), if_pos ⟨by omega, hs⟩]
    · rw [if_neg h1]
      by_cases h0 : 0 = s ∧ s < n.size
      · obtain ⟨e, hs⟩ := h0
        subst e
        rw [if_pos ⟨rfl, hs⟩, if_pos ⟨by omega, hs⟩]
      · rw [if_neg h0, if_neg (by omega)]

theorem abs_eq_of_rel {m : MemNfa} {n : CNfa} (h : Rel m n) : absNfa m = zeroFail012 n := by
  apply arr_ext_getD ({} : CState)
  · rw [h.eq.1]; unfold zeroFail012; simp only [Array.size_modify]
  · intro s hs
    rw [size_absNfa] at hs
    obtain ⟨e1, e2, e3⟩ := h.eq.2 s
    rw [getD_zeroFail012]
    by_cases h3 : s < 3
    · rw [if_pos ⟨h3, h.size ▸ hs⟩]
      refine CState_ext e1 ?_ e2
      rw [getD_absNfa_lt m hs]
      exact h.low s h3
    · rw [if_neg (fun e => h3 e.1)]
      exact CState_ext e1 (e3 (by omega)) e2

theorem failEq_zeroFail012 (n : CNfa) : FailEq (zeroFail012 n) n := by
  refine ⟨by unfold zeroFail012; simp only [Array.size_modify], fun s => ?_⟩
  rw [getD_zeroFail012]
  split
  · rename_i h; exact ⟨rfl, rfl, fun h3 => by omega⟩
  · exact SEq.refl _ _

/-! ## what a search can observe -/

theorem nextState_succ (n : CNfa) (anch : Bool) (fuel sid : Nat) (b : UInt8) (hops : Nat) :
    nextState n anch (fuel + 1) sid b hops =
      if CNfa.follow n sid b ≠ FAIL then (CNfa.follow n sid b, hops)
      else if anch = true then (DEAD, hops)
      else nextState n anch fuel (n.getD sid {}).fail b (hops + 1) := by
  rw [nextState]
  simp only [bne_iff_ne, ne_eq, ite_not]

/-- **`NFA::next_state` does not see the three links**: started anywhere but in `FAIL` it returns
the same state and the same number of failure hops in both automata, and never returns `FAIL` -/
theorem nextState_failEq {a n : CNfa} (h : FailEq a n) (hF : Final n) (anch : Bool) (b : UInt8) :
    ∀ (fuel sid hops : Nat), sid ≠ 1 →
      nextState a anch fuel sid b hops = nextState n anch fuel sid b hops ∧
      (nextState n anch fuel sid b hops).1 ≠ 1 := by
  intro fuel
  induction fuel with
  | zero => intro sid hops hs; exact ⟨rfl, hs⟩
  | succ fuel ih =>
    intro sid hops hs
    rw [nextState_succ, nextState_succ, h.follow]
    by_cases hf : CNfa.follow n sid b = FAIL
    · have hnn : ¬ (CNfa.follow n sid b ≠ FAIL) := fun hh => hh hf
      rw [if_neg hnn, if_neg hnn]
      cases anch with
      | true => rw [if_pos rfl, if_pos rfl]; exact ⟨rfl, show DEAD ≠ 1 by decide⟩
      | false =>
        rw [if_neg (by decide), if_neg (by decide)]
        have hs3 : 3 ≤ sid := by
          have h0 : sid ≠ 0 := fun e => hF.fullDead b (e ▸ hf)
          have h2 : sid ≠ 2 := fun e => hF.fullSU b (e ▸ hf)
          omega
        rw [(h.2 sid).2.2 hs3]
        apply ih
        by_cases h4 : 4 ≤ sid
        · by_cases hsz : sid < n.size
          · exact hF.fl sid h4 hsz
          · rw [getD_of_size_le _ (Nat.le_of_not_lt hsz)]; decide
        · have : sid = 3 := by omega
          subst this
          rw [hF.f3]; decide
    · rw [if_pos hf, if_pos hf]
      exact ⟨rfl, hf⟩

theorem run_failEq {a n : CNfa} (h : FailEq a n) (hF : Final n) (k : MatchKind)
    (P : List (List UInt8)) (hasPre anch : Bool) :
    ∀ (w : List UInt8) (q : Nat), q ≠ 1 →
      (a.toAut k P hasPre).runFrom anch q w = (n.toAut k P hasPre).runFrom anch q w := by
  intro w
  induction w with
  | nil => intro q _; rfl
  | cons c w ih =>
    intro q hq
    obtain ⟨e1, e2⟩ := nextState_failEq h hF anch c (n.size + 1) q 0 hq
    show (a.toAut k P hasPre).runFrom anch (nextState a anch (a.size + 1) q c 0).1 w =
      (n.toAut k P hasPre).runFrom anch (nextState n anch (n.size + 1) q c 0).1 w
    rw [h.1, e1]
    exact ih _ e2

theorem obs_failEq {a n : CNfa} (h : FailEq a n) (k : MatchKind) (P : List (List UInt8))
    (hasPre first : Bool) (q : Nat) :
    (a.toAut k P hasPre).obs first q = (n.toAut k P hasPre).obs first q := by
  unfold Aut.obs CNfa.toAut
  simp only [h.isMatch, (h.2 q).2.1]

/-- two automata that differ only in the failure links of the states `0, 1, 2` make the same
observations (flags and ORDERED match lists) after every input, from both start states -/
theorem startEquiv_failEq {a n : CNfa} (h : FailEq a n) (hF : Final n) (k : MatchKind)
    (P : List (List UInt8)) (hasPre first anch : Bool) :
    StartEquiv (a.toAut k P hasPre) (n.toAut k P hasPre) first anch := by
  show ObsEquiv _ _ first anch (if anch then SA else SU) (if anch then SA else SU)
  intro w
  rw [run_failEq h hF k P hasPre anch w _ (by cases anch <;> decide), obs_failEq h]

end MemC
end AcVerif
