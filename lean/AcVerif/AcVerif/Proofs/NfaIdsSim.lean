import AcVerif.Proofs.NfaIdsBase
/-!
# L1c-ids proofs, part 2: what the renumbering needs of the compiled NFA (`NLive`), and what follows

`NLive N anch V`: `V` is a set of states of `N` that contains the start state of the mode, is
closed under `next_state` and under the failure links `next_state` follows, avoids `FAIL` and the
start state of the other mode, and on which `next_state` returns before its fuel runs out.  (Both
`FS` and its case-insensitive variant `FSf` provide this, `NfaIdsLive.lean`.)  From it, for
`M = buildNfaIds N hasPre` and the id map `pos`: `M.next` commutes with `pos`, the id-range flags of
`M` are the list flags of `N`, the runs correspond, observations agree, every read is in bounds and
the `is_special` contract holds at every reachable id.
-/
namespace AcVerif.L1cIdsP
open AcVerif AcVerif.CNfa AcVerif.L1cP AcVerif.L1dP AcVerif.L1eP AcVerif.L1dIdsP

structure NLive (N : CNfa) (anch : Bool) (V : Nat → Prop) : Prop where
  four : 4 ≤ N.size
  mm : CNfa.isMatch N SU = CNfa.isMatch N SA
  lt : ∀ s, V s → s < N.size
  ne1 : ∀ s, V s → s ≠ 1
  other : ∀ s, V s → (s == SU || s == SA) = (s == startOf anch)
  start : V (startOf anch)
  step : ∀ s b, V s → V (nextState N anch (N.size + 1) s b 0).1
  failV : anch = false → ∀ s b, V s → follow N s b = FAIL → V (N.getD s {}).fail
  hops : ∀ s b, V s → (nextState N anch (N.size + 1) s b 0).2 < N.size + 1
  dead_mats : (N.getD DEAD {}).matches_ = []
  dead_loop : ∀ b, follow N DEAD b = DEAD

section
variable {N : CNfa} {anch : Bool} {V : Nat → Prop} (hL : NLive N anch V) (hasPre : Bool)
include hL

theorem NLive.shuf : ShufOK N := shufOK N hL.four

/-- `next_state` on the stored automaton is the image of `next_state` on the compiled one -/
theorem NLive.next {s : Nat} (hv : V s) (b : UInt8) :
    (buildNfaIds N hasPre).next anch ((buildNfaIds N hasPre).states.size + 1) (posOf N s) b =
      posOf N (nextState N anch (N.size + 1) s b 0).1 := by
  show (nextState (buildNfaIds N hasPre).states anch ((buildNfaIds N hasPre).states.size + 1)
    (posOf N s) b 0).1 = _
  rw [buildNfaIds_states, idStates_size,
    nextState_ids hL.shuf anch b hL.lt (fun ha s hv => hL.failV ha s b hv) _ s 0 hv]

/-- … and the bounds-checked loop agrees with it: no read is out of range, and the loop returns
within `state_len + 1` iterations -/
theorem NLive.next? {s : Nat} (hv : V s) (b : UInt8) :
    (buildNfaIds N hasPre).next? anch ((buildNfaIds N hasPre).states.size + 1) (posOf N s) b =
      some ((buildNfaIds N hasPre).next anch ((buildNfaIds N hasPre).states.size + 1)
        (posOf N s) b) := by
  rw [hL.next hasPre hv b]
  have hsz : (buildNfaIds N hasPre).states.size = N.size := by
    rw [buildNfaIds_states, idStates_size]
  rw [hsz]
  exact next?_ids hL.shuf hasPre anch b hL.lt (fun ha s hv => hL.failV ha s b hv) _ s 0 hv
    (by have := hL.hops s b hv; omega)

theorem NLive.pos_lt {s : Nat} (hv : V s) : posOf N s < (buildNfaIds N hasPre).states.size := by
  rw [buildNfaIds_states, idStates_size]
  exact hL.shuf.pos_lt s (hL.lt s hv)

/-! ### the flags -/

theorem NLive.isDead {s : Nat} (hv : V s) :
    (buildNfaIds N hasPre).isDead (posOf N s) = (s == DEAD) := by
  show (posOf N s == 0) = (s == 0)
  rw [Bool.eq_iff_iff]
  simp only [beq_iff_eq]
  exact posOf_zero_iff hL.shuf (hL.lt s hv)

theorem NLive.isMatch {s : Nat} (hv : V s) :
    (buildNfaIds N hasPre).isMatch (posOf N s) = (s != DEAD && CNfa.isMatch N s) := by
  have hfm := posFlag_match hL.shuf hL.mm (hL.lt s hv) (hL.ne1 s hv)
  show (posOf N s != 0 && decide (posOf N s ≤ nfaMaxMatch N (cNa N))) = _
  rw [Bool.eq_iff_iff]
  simp only [Bool.and_eq_true, bne_iff_ne, ne_eq, decide_eq_true_eq]
  exact hfm

theorem NLive.isSpecial {s : Nat} (hv : V s) :
    (buildNfaIds N hasPre).isSpecial (posOf N s) =
      (s == DEAD || CNfa.isMatch N s || (hasPre && (s == SU || s == SA))) := by
  have hfs := posFlag_special hL.shuf hasPre hL.mm (hL.lt s hv) (hL.ne1 s hv)
  show decide (posOf N s ≤ nfaMaxSpecial N (cNa N) hasPre) = _
  rw [Bool.eq_iff_iff]
  simp only [decide_eq_true_eq, Bool.or_eq_true, Bool.and_eq_true, beq_iff_eq]
  rw [hfs]
  constructor
  · rintro (e | e | e)
    · exact Or.inl (Or.inl e)
    · exact Or.inl (Or.inr e)
    · exact Or.inr e
  · rintro ((e | e) | e)
    · exact Or.inl e
    · exact Or.inr (Or.inl e)
    · exact Or.inr (Or.inr e)

theorem NLive.isStart {s : Nat} (hv : V s) :
    (buildNfaIds N hasPre).isStart (posOf N s) = (s == SU || s == SA) := by
  have hS := hL.shuf
  have h4 := hL.four
  have hs := hL.lt s hv
  show (posOf N s == cNa N - 2 || posOf N s == cNa N - 1) = _
  rw [Bool.eq_iff_iff]
  simp only [Bool.or_eq_true, beq_iff_eq]
  have e2 : posOf N 2 = cNa N - 2 := hS.posSU
  have e3 : posOf N 3 = cNa N - 1 := hS.posSA
  constructor
  · rintro (e | e)
    · left; rw [← e2] at e; exact posOf_inj hS hs (show 2 < N.size by omega) e
    · right; rw [← e3] at e; exact posOf_inj hS hs (show 3 < N.size by omega) e
  · rintro (e | e)
    · left; rw [e]; exact e2
    · right; rw [e]; exact e3

theorem NLive.matchList {s : Nat} (hv : V s) :
    (buildNfaIds N hasPre).matchList (posOf N s) = (N.getD s {}).matches_ := by
  show ((buildNfaIds N hasPre).states.getD (posOf N s) {}).matches_ = _
  rw [buildNfaIds_states, mats_ids hL.shuf (hL.lt s hv)]

theorem NLive.matchList? {s : Nat} (hv : V s) :
    (buildNfaIds N hasPre).matchList? (posOf N s) =
      some ((buildNfaIds N hasPre).matchList (posOf N s)) := by
  show ((buildNfaIds N hasPre).states[posOf N s]?).map (·.matches_) =
    some ((buildNfaIds N hasPre).states.getD (posOf N s) {}).matches_
  rw [getElem?_eq_some_getD _ {} (hL.pos_lt hasPre hv)]
  rfl

/-- the id-range test `is_match` is the per-state flag `matches ≠ []` -/
theorem NLive.isMatch_iff {s : Nat} (hv : V s) :
    (buildNfaIds N hasPre).isMatch (posOf N s) = true ↔
      ((buildNfaIds N hasPre).states.getD (posOf N s) {}).matches_ ≠ [] := by
  rw [hL.isMatch hasPre hv]
  have e : ((buildNfaIds N hasPre).states.getD (posOf N s) {}).matches_ = (N.getD s {}).matches_ :=
    hL.matchList hasPre hv
  rw [e]
  simp only [Bool.and_eq_true, bne_iff_ne, ne_eq]
  constructor
  · intro h; exact mats_ne_nil_of_match h.2
  · intro h
    refine ⟨?_, ?_⟩
    · intro e0; rw [e0, hL.dead_mats] at h; exact h rfl
    · cases hm : CNfa.isMatch N s
      · exact absurd (mats_eq_nil_of_not_match hm) h
      · rfl

/-! ### observations, runs -/

variable (k : MatchKind) (P : List (List UInt8))

theorem NLive.obs {s : Nat} (hv : V s) :
    ((buildNfaIds N hasPre).toAut k P hasPre).obs false (posOf N s) =
      (N.toAut k P hasPre).obs false s := by
  show Obs.mk _ _ _ _ = Obs.mk _ _ _ _
  simp only [NfaI.toAut, CNfa.toAut, Bool.false_eq_true, if_false]
  rw [hL.isSpecial hasPre hv, hL.isDead hasPre hv, hL.isMatch hasPre hv, hL.matchList hasPre hv]

theorem NLive.toAut_start :
    ((buildNfaIds N hasPre).toAut k P hasPre).start anch = some (posOf N (startOf anch)) := by
  have hS := hL.shuf
  cases anch
  · show some (cNa N - 2) = some (posOf N 2)
    unfold posOf; rw [hS.posSU]
  · show some (cNa N - 1) = some (posOf N 3)
    unfold posOf; rw [hS.posSA]

/-- the run of the stored automaton is the image of the run of the compiled one, which stays in `V` -/
theorem NLive.run : ∀ (w : List UInt8) (s : Nat), V s →
    V ((N.toAut k P hasPre).runFrom anch s w) ∧
      ((buildNfaIds N hasPre).toAut k P hasPre).runFrom anch (posOf N s) w =
        posOf N ((N.toAut k P hasPre).runFrom anch s w)
  | [], _, hv => ⟨hv, rfl⟩
  | c :: w, s, hv => by
    have hstep := hL.next hasPre hv c
    obtain ⟨h1, h2⟩ := NLive.run w _ (hL.step s c hv)
    refine ⟨h1, ?_⟩
    show Aut.runFrom _ anch ((buildNfaIds N hasPre).next anch
      ((buildNfaIds N hasPre).states.size + 1) (posOf N s) c) w = _
    rw [hstep]
    exact h2

theorem NLive.obsEquiv :
    ObsEquiv ((buildNfaIds N hasPre).toAut k P hasPre) (N.toAut k P hasPre) false anch
      (posOf N (startOf anch)) (startOf anch) := by
  intro w
  obtain ⟨h1, h2⟩ := hL.run hasPre k P w _ hL.start
  rw [h2]
  exact hL.obs hasPre k P h1

/-- every id reached by the stored automaton is the image of a state of `V` -/
theorem NLive.reach (s0 : Nat)
    (hs : ((buildNfaIds N hasPre).toAut k P hasPre).start anch = some s0) (w : List UInt8) :
    ∃ s, V s ∧ ((buildNfaIds N hasPre).toAut k P hasPre).runFrom anch s0 w = posOf N s ∧
      s = (N.toAut k P hasPre).runFrom anch (startOf anch) w := by
  have e : s0 = posOf N (startOf anch) :=
    Option.some.inj (hs.symm.trans (hL.toAut_start hasPre k P))
  obtain ⟨h1, h2⟩ := hL.run hasPre k P w _ hL.start
  exact ⟨_, h1, by rw [e]; exact h2, rfl⟩

/-! ### the `is_special` contract and the bounds, at a state of `V` -/

theorem NLive.contract {s : Nat} (hv : V s) :
    ((buildNfaIds N hasPre).isSpecial (posOf N s) = true ↔
        ((buildNfaIds N hasPre).isDead (posOf N s) = true ∨
          (buildNfaIds N hasPre).isMatch (posOf N s) = true ∨
          (hasPre = true ∧ (buildNfaIds N hasPre).isStart (posOf N s) = true))) ∧
      ((buildNfaIds N hasPre).isDead (posOf N s) = true → ∀ a b,
        (buildNfaIds N hasPre).next a ((buildNfaIds N hasPre).states.size + 1) (posOf N s) b = 0) := by
  constructor
  · rw [hL.isSpecial hasPre hv, hL.isDead hasPre hv, hL.isMatch hasPre hv, hL.isStart hasPre hv]
    simp only [Bool.or_eq_true, Bool.and_eq_true, beq_iff_eq, bne_iff_ne, ne_eq]
    constructor
    · rintro ((e0 | hm) | ⟨hp, est⟩)
      · exact Or.inl e0
      · by_cases e0 : s = DEAD
        · exact Or.inl e0
        · exact Or.inr (Or.inl ⟨e0, hm⟩)
      · exact Or.inr (Or.inr ⟨hp, est⟩)
    · rintro (e0 | ⟨_, hm⟩ | ⟨hp, hst⟩)
      · exact Or.inl (Or.inl e0)
      · exact Or.inl (Or.inr hm)
      · exact Or.inr ⟨hp, hst⟩
  · intro hd a b
    rw [hL.isDead hasPre hv] at hd
    have e0 : s = DEAD := by simpa using hd
    subst e0
    -- the dead state has a transition to itself on every byte, in either mode
    show (nextState (buildNfaIds N hasPre).states a ((buildNfaIds N hasPre).states.size + 1)
      (posOf N DEAD) b 0).1 = 0
    rw [buildNfaIds_states]
    have hf : follow (idStates N) (posOf N DEAD) b = DEAD := by
      rw [follow_ids hL.shuf (by have := hL.four; simp only [DEAD]; omega), hL.dead_loop,
        posOf_dead hL.shuf]
    rw [posOf_dead hL.shuf] at hf ⊢
    rw [nextState_dead _ a _ b 0 hf]
    rfl

end

end AcVerif.L1cIdsP
