import AcVerif.DfaModel
import AcVerif.Proofs.CompilerRun
/-!
# L1d proofs, part 1: byte classes, `sparse_iter`, and rows filled by `set!`

* `ClassOK N classOf nc`: all that the DFA builder needs of a class map: classes are `< nc`, and
  two *different* bytes of one class are both absent from the trie (`trieBytes N`).  Holds for
  the `ByteClassSet` classes (`classOK_marks`) and for singleton classes (`classOK_id`).
* `sparseIter_spec`: every emitted triple is `(rep, classOf rep, lookup rep)`, and the class of
  every byte is emitted.
* `foldSet_spec`: a row filled by a sequence of `set!`s whose values only depend on the class.
-/
namespace AcVerif.L1dP
open AcVerif AcVerif.CNfa AcVerif.L1cP

/-! ## counting marks below a byte -/

theorem filterRange_mono (p : Nat → Bool) {n n' : Nat} (h : n ≤ n') :
    ((List.range n).filter p).length ≤ ((List.range n').filter p).length := by
  induction n' with
  | zero =>
    have : n = 0 := by omega
    subst this; exact Nat.le_refl _
  | succ m ih =>
    by_cases e : n = m + 1
    · subst e; exact Nat.le_refl _
    · have := ih (by omega)
      rw [List.range_succ, List.filter_append, List.length_append]
      omega

theorem filterRange_lt (p : Nat → Bool) {n m n' : Nat} (h1 : n ≤ m) (h2 : m < n')
    (hp : p m = true) :
    ((List.range n).filter p).length < ((List.range n').filter p).length := by
  have a := filterRange_mono p h1
  have b := filterRange_mono p (show m + 1 ≤ n' from h2)
  have c : ((List.range (m + 1)).filter p).length = ((List.range m).filter p).length + 1 := by
    rw [List.range_succ, List.filter_append, List.length_append]
    simp [hp]
  omega

theorem classOfMarks_mono (marks : List UInt8) {b b' : UInt8} (h : b.toNat ≤ b'.toNat) :
    classOfMarks marks b ≤ classOfMarks marks b' :=
  filterRange_mono _ h

/-- no mark lies in `[b, b')` when `b < b'` share their class -/
theorem no_mark_between (marks : List UInt8) {b b' : UInt8} (_hlt : b.toNat < b'.toNat)
    (hc : classOfMarks marks b = classOfMarks marks b') (m : Nat) (h1 : b.toNat ≤ m)
    (h2 : m < b'.toNat) : marks.contains m.toUInt8 = false := by
  cases hm : marks.contains m.toUInt8 with
  | false => rfl
  | true =>
    have := filterRange_lt (fun m => marks.contains m.toUInt8) h1 h2 hm
    unfold classOfMarks at hc
    omega

theorem mem_marksOf_self {E : List UInt8} {b : UInt8} (h : b ∈ E) : b ∈ marksOf E := by
  unfold marksOf
  rw [List.mem_flatMap]
  refine ⟨b, h, ?_⟩
  split <;> simp

theorem mem_marksOf_pred {E : List UInt8} {b : UInt8} (h : b ∈ E) (h0 : 0 < b.toNat) :
    b - 1 ∈ marksOf E := by
  unfold marksOf
  rw [List.mem_flatMap]
  refine ⟨b, h, ?_⟩
  have : b > 0 := by
    show 0 < b
    rw [UInt8.lt_iff_toNat_lt]; simpa using h0
  rw [if_pos this]; simp

theorem toUInt8_toNat (b : UInt8) : b.toNat.toUInt8 = b := by simp

theorem toUInt8_pred (b : UInt8) (h : 0 < b.toNat) : (b.toNat - 1).toUInt8 = b - 1 := by
  apply UInt8.toNat_inj.1
  have := UInt8.toNat_lt b
  simp only [Nat.toUInt8, UInt8.toNat_ofNat']
  rw [UInt8.toNat_sub_of_le]
  · simp; omega
  · rw [UInt8.le_iff_toNat_le]; simp; omega

/-- two different bytes in one `ByteClassSet` class: neither was marked -/
theorem class_marks_not_mem (E : List UInt8) {b b' : UInt8} (hlt : b.toNat < b'.toNat)
    (hc : classOfMarks (marksOf E) b = classOfMarks (marksOf E) b') : b ∉ E ∧ b' ∉ E := by
  constructor
  · intro hb
    have h := no_mark_between _ hlt hc b.toNat (Nat.le_refl _) hlt
    rw [toUInt8_toNat] at h
    have : (marksOf E).contains b = true := by
      simpa using mem_marksOf_self hb
    rw [this] at h; cases h
  · intro hb
    have h0 : 0 < b'.toNat := by omega
    have h := no_mark_between _ hlt hc (b'.toNat - 1) (by omega) (by omega)
    rw [toUInt8_pred _ h0] at h
    have : (marksOf E).contains (b' - 1) = true := by
      simpa using mem_marksOf_pred hb h0
    rw [this] at h; cases h

/-! ## the class map abstraction -/

structure ClassOK (N : CNfa) (classOf : UInt8 → Nat) (nc : Nat) : Prop where
  lt : ∀ b, classOf b < nc
  cong : ∀ b b', classOf b = classOf b' → b ≠ b' → b ∉ trieBytes N ∧ b' ∉ trieBytes N

theorem classOK_marks (N : CNfa) :
    ClassOK N (classOfMarks (marksOf (trieBytes N)))
      (classOfMarks (marksOf (trieBytes N)) 255 + 1) where
  lt := by
    intro b
    have : b.toNat ≤ (255 : UInt8).toNat := by
      have := UInt8.toNat_lt b
      show b.toNat ≤ 255
      omega
    have := classOfMarks_mono (marksOf (trieBytes N)) this
    omega
  cong := by
    intro b b' hc hne
    have hn : b.toNat ≠ b'.toNat := fun e => hne (UInt8.toNat_inj.1 e)
    by_cases hlt : b.toNat < b'.toNat
    · exact class_marks_not_mem _ hlt hc
    · have := class_marks_not_mem (trieBytes N) (b := b') (b' := b) (by omega) hc.symm
      exact ⟨this.2, this.1⟩

theorem classOK_id (N : CNfa) : ClassOK N (fun b => b.toNat) ((255 : UInt8).toNat + 1) where
  lt := by
    intro b
    have := UInt8.toNat_lt b
    show b.toNat < 255 + 1
    omega
  cong := by
    intro b b' hc hne
    exact absurd (UInt8.toNat_inj.1 hc) hne

/-! ## `sparse_iter` -/

/-- the walk of `sparseIter`, over an arbitrary list of byte numbers -/
def siWalk (f : UInt8 → Nat) (classOf : UInt8 → Nat) (l : List Nat)
    (acc : List (UInt8 × Nat × Nat) × Option Nat) : List (UInt8 × Nat × Nat) × Option Nat :=
  l.foldl (fun acc i =>
    if acc.2 != some (classOf i.toUInt8) then
      (acc.1 ++ [(i.toUInt8, classOf i.toUInt8, f i.toUInt8)], some (classOf i.toUInt8))
    else acc) acc

theorem foldl_congr' {α β : Type} (f g : β → α → β) (l : List α)
    (h : ∀ acc x, f acc x = g acc x) (b : β) : l.foldl f b = l.foldl g b := by
  have : f = g := funext fun acc => funext fun x => h acc x
  rw [this]

theorem sparseIter_eq (trans : List (UInt8 × Nat)) (classOf : UInt8 → Nat) :
    sparseIter trans classOf = (siWalk (lookup trans) classOf (List.range 256) ([], none)).1 := by
  unfold sparseIter siWalk
  refine congrArg Prod.fst (foldl_congr' _ _ _ ?_ _)
  intro acc i
  simp only [lookup]
  cases trans.find? (fun x => x.1 == i.toUInt8) <;> rfl

/-- invariant of the walk: emitted triples are well formed; the last emitted class is remembered;
the class of every walked byte has been emitted -/
structure SI (f : UInt8 → Nat) (classOf : UInt8 → Nat) (seen : List Nat)
    (acc : List (UInt8 × Nat × Nat) × Option Nat) : Prop where
  wf : ∀ x ∈ acc.1, x.2.1 = classOf x.1 ∧ x.2.2 = f x.1
  last : ∀ c, acc.2 = some c → ∃ x ∈ acc.1, x.2.1 = c
  cover : ∀ i ∈ seen, ∃ x ∈ acc.1, x.2.1 = classOf i.toUInt8

theorem siWalk_SI (f : UInt8 → Nat) (classOf : UInt8 → Nat) (l : List Nat) :
    ∀ (seen : List Nat) (acc : List (UInt8 × Nat × Nat) × Option Nat), SI f classOf seen acc →
      SI f classOf (seen ++ l) (siWalk f classOf l acc) := by
  induction l with
  | nil => intro seen acc h; simpa [siWalk] using h
  | cons i l ih =>
    intro seen acc h
    have hstep : SI f classOf (seen ++ [i])
        (if acc.2 != some (classOf i.toUInt8) then
          (acc.1 ++ [(i.toUInt8, classOf i.toUInt8, f i.toUInt8)], some (classOf i.toUInt8))
        else acc) := by
      by_cases hc : acc.2 = some (classOf i.toUInt8)
      · have : (acc.2 != some (classOf i.toUInt8)) = false := by simp [hc]
        rw [this]
        simp only [Bool.false_eq_true, if_false]
        refine ⟨h.wf, h.last, ?_⟩
        intro j hj
        rcases List.mem_append.1 hj with hj | hj
        · exact h.cover j hj
        · have : j = i := by simpa using hj
          subst this
          exact h.last _ hc
      · have : (acc.2 != some (classOf i.toUInt8)) = true := by simp [hc]
        rw [this]
        simp only [if_true]
        refine ⟨?_, ?_, ?_⟩
        · intro x hx
          rcases List.mem_append.1 hx with hx | hx
          · exact h.wf x hx
          · have : x = (i.toUInt8, classOf i.toUInt8, f i.toUInt8) := by simpa using hx
            subst this; exact ⟨rfl, rfl⟩
        · intro c hc'
          have : classOf i.toUInt8 = c := by simpa using hc'
          subst this
          exact ⟨_, List.mem_append_right _ (List.mem_singleton.2 rfl), rfl⟩
        · intro j hj
          rcases List.mem_append.1 hj with hj | hj
          · obtain ⟨x, hx, hxc⟩ := h.cover j hj
            exact ⟨x, List.mem_append_left _ hx, hxc⟩
          · have : j = i := by simpa using hj
            subst this
            exact ⟨_, List.mem_append_right _ (List.mem_singleton.2 rfl), rfl⟩
    have := ih (seen ++ [i]) _ hstep
    rw [List.append_assoc] at this
    exact this

/-- specification of `sparse_iter`: only well-formed triples, and every class is reported -/
theorem sparseIter_spec (trans : List (UInt8 × Nat)) (classOf : UInt8 → Nat) :
    (∀ x ∈ sparseIter trans classOf, x.2.1 = classOf x.1 ∧ x.2.2 = lookup trans x.1) ∧
      ∀ b : UInt8, ∃ x ∈ sparseIter trans classOf, x.2.1 = classOf b := by
  have h0 : SI (lookup trans) classOf [] ([], none) :=
    ⟨(by intro x hx; cases hx), (by intro c hc; cases hc), (by intro i hi; cases hi)⟩
  have h := siWalk_SI (lookup trans) classOf (List.range 256) [] _ h0
  rw [sparseIter_eq]
  refine ⟨h.wf, ?_⟩
  intro b
  have := h.cover b.toNat (by simpa using UInt8.toNat_lt b)
  rw [toUInt8_toNat] at this
  exact this

/-! ## rows filled by `set!` -/

/-- a row updated by a list of optional writes -/
def foldSet {ι : Type} (cls : ι → Nat) (act : ι → Option Nat) (l : List ι) (row : Array Nat) :
    Array Nat :=
  l.foldl (fun row x => match act x with | some v => row.set! (cls x) v | none => row) row

theorem foldSet_cons {ι : Type} (cls : ι → Nat) (act : ι → Option Nat) (x : ι) (l : List ι)
    (row : Array Nat) :
    foldSet cls act (x :: l) row =
      foldSet cls act l (match act x with | some v => row.set! (cls x) v | none => row) := rfl

theorem foldSet_size {ι : Type} (cls : ι → Nat) (act : ι → Option Nat) (l : List ι)
    (row : Array Nat) : (foldSet cls act l row).size = row.size := by
  induction l generalizing row with
  | nil => rfl
  | cons x l ih =>
    rw [foldSet_cons, ih]
    split
    · simp [Array.set!]
    · rfl

theorem getD_set! (row : Array Nat) (i j v d : Nat) :
    (row.set! i v).getD j d = if i = j ∧ j < row.size then v else row.getD j d := by
  simp only [Array.set!, Array.getD_eq_getD_getElem?, Array.getElem?_setIfInBounds]
  by_cases h : i = j
  · subst h
    by_cases hs : i < row.size
    · simp [hs]
    · simp [hs]
  · simp [h]

/-- no write to class `c`: the entry keeps its value -/
theorem foldSet_keep {ι : Type} (cls : ι → Nat) (act : ι → Option Nat) (c d : Nat) (l : List ι) :
    ∀ (row : Array Nat), (∀ x ∈ l, cls x = c → act x = none) →
      (foldSet cls act l row).getD c d = row.getD c d := by
  induction l with
  | nil => intro row _; rfl
  | cons x l ih =>
    intro row hall
    rw [foldSet_cons, ih _ (fun y hy => hall y (List.mem_cons_of_mem _ hy))]
    by_cases hx : cls x = c
    · rw [hall x List.mem_cons_self hx]
    · split
      · rw [getD_set!, if_neg (fun h => hx h.1)]
      · rfl

/-- every write to class `c` writes `v` and the entry is already `v` -/
theorem foldSet_stay {ι : Type} (cls : ι → Nat) (act : ι → Option Nat) (c d v : Nat) (l : List ι) :
    ∀ (row : Array Nat), (∀ x ∈ l, cls x = c → act x = some v) → row.getD c d = v →
      (foldSet cls act l row).getD c d = v := by
  induction l with
  | nil => intro row _ h; exact h
  | cons x l ih =>
    intro row hall h
    rw [foldSet_cons]
    apply ih _ (fun y hy => hall y (List.mem_cons_of_mem _ hy))
    by_cases hx : cls x = c
    · rw [hall x List.mem_cons_self hx]
      simp only
      rw [getD_set!]
      split
      · rfl
      · exact h
    · split
      · rw [getD_set!, if_neg (fun h => hx h.1)]; exact h
      · exact h

/-- every write to class `c` writes `v`, and there is one -/
theorem foldSet_some {ι : Type} (cls : ι → Nat) (act : ι → Option Nat) (c d v : Nat) (l : List ι) :
    ∀ (row : Array Nat), c < row.size → (∀ x ∈ l, cls x = c → act x = some v) →
      (∃ x ∈ l, cls x = c) → (foldSet cls act l row).getD c d = v := by
  induction l with
  | nil => intro row _ _ hex; obtain ⟨x, hx, _⟩ := hex; cases hx
  | cons x l ih =>
    intro row hc hall hex
    have hall' : ∀ y ∈ l, cls y = c → act y = some v :=
      fun y hy => hall y (List.mem_cons_of_mem _ hy)
    rw [foldSet_cons]
    by_cases hx : cls x = c
    · rw [hall x List.mem_cons_self hx]
      simp only
      apply foldSet_stay cls act c d v l _ hall'
      rw [getD_set!, if_pos ⟨hx, hc⟩]
    · apply ih _ _ hall'
      · obtain ⟨y, hy, hyc⟩ := hex
        rcases List.mem_cons.1 hy with e | e
        · subst e; exact absurd hyc hx
        · exact ⟨y, e, hyc⟩
      · split
        · simpa [Array.set!] using hc
        · exact hc

end AcVerif.L1dP
