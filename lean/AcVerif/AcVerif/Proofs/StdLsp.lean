import AcVerif.Ideal
/-!
# Facts about `isPref`, `lsp`, `outStd` (standard semantics, closed-form automaton)
-/
namespace AcVerif.StdP
open AcVerif
variable {α : Type} [DecidableEq α]

theorem isPref_iff {Q : PatSet α} {u : List α} :
    isPref Q u = true ↔ ∃ q ∈ Q, u <+: q.1 := by
  simp [isPref, List.any_eq_true]

/-- `isPref` is prefix closed -/
theorem isPref_of_prefix {Q : PatSet α} {u v : List α} (h : u <+: v) (hv : isPref Q v = true) :
    isPref Q u = true := by
  rw [isPref_iff] at *
  obtain ⟨q, hq, hvq⟩ := hv
  exact ⟨q, hq, h.trans hvq⟩

theorem lsp_suffix (Q : PatSet α) (w : List α) : lsp Q w <:+ w := by
  induction w with
  | nil => simp [lsp]
  | cons c t ih =>
    simp only [lsp]
    split
    · exact List.suffix_rfl
    · exact ih.trans (List.suffix_cons c t)

theorem lsp_nil_or_isPref (Q : PatSet α) (w : List α) :
    lsp Q w = [] ∨ isPref Q (lsp Q w) = true := by
  induction w with
  | nil => left; rfl
  | cons c t ih =>
    simp only [lsp]
    split
    · right; assumption
    · exact ih

theorem lsp_max (Q : PatSet α) {w v : List α} (hs : v <:+ w) (hv : isPref Q v = true) :
    v <:+ lsp Q w := by
  induction w with
  | nil => simp at hs; subst hs; simp [lsp]
  | cons c t ih =>
    simp only [lsp]
    rcases List.suffix_cons_iff.1 hs with h | h
    · subst h; simp [hv]
    · split
      · exact hs
      · exact ih h

omit [DecidableEq α] in
theorem suffix_antisymm {a b : List α} (h1 : a <:+ b) (h2 : b <:+ a) : a = b :=
  h1.eq_of_length_le h2.length_le

/-- the key step lemma: the failure-free transition is compositional -/
theorem lsp_step (Q : PatSet α) (w : List α) (c : α) :
    lsp Q (lsp Q w ++ [c]) = lsp Q (w ++ [c]) := by
  have hb : lsp Q (lsp Q w ++ [c]) <:+ w ++ [c] :=
    (lsp_suffix Q _).trans ((List.suffix_append_self_iff).2 (lsp_suffix Q w))
  apply suffix_antisymm
  · rcases lsp_nil_or_isPref Q (lsp Q w ++ [c]) with h | h
    · rw [h]; exact List.nil_suffix
    · exact lsp_max Q hb h
  · rcases lsp_nil_or_isPref Q (w ++ [c]) with h | h
    · rw [h]; exact List.nil_suffix
    · have ha := lsp_suffix Q (w ++ [c])
      rcases List.suffix_concat_iff.1 ha with h0 | ⟨t, ht, hts⟩
      · rw [h0]; exact List.nil_suffix
      · have hpt : isPref Q t = true :=
          isPref_of_prefix (by rw [ht]; exact List.prefix_append t [c]) h
        have h1 : t <:+ lsp Q w := lsp_max Q hts hpt
        have h2 : lsp Q (w ++ [c]) <:+ lsp Q w ++ [c] := by
          rw [ht]; exact (List.suffix_append_self_iff).2 h1
        exact lsp_max Q h2 h

end AcVerif.StdP
