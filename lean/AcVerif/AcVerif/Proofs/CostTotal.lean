import AcVerif.Fold
import AcVerif.CostOverlapIter
import AcVerif.Proofs.CostBounds
import AcVerif.Proofs.CostOverlapFacts
/-!
# Totals of the per-call counters of the stepwise overlapping search (C19)

Potential argument over a whole call sequence.  `fed s e st` is the number of leading positions
of the span `[s, e)` whose byte has been fed to the automaton when the overlapping state is `st`
(as an absolute position): `s` before the first loop, `at + 1` when a loop stopped INSIDE the span
(match, dead state, prefilter reporting nothing: the byte at `at` was fed but `at` was not
advanced), `e` at the end.  One call feeds `fed st' - fed st` bytes, plus one redundant
transition when it resumes a loop that stopped inside the span without a match (`slack`): that
call feeds the byte at `at` a second time.
-/
namespace AcVerif
namespace CostP
set_option linter.unusedSectionVars false
variable {α : Type} [DecidableEq α]

/-- positions of the span already fed to the automaton, read off the overlapping state -/
def fed (s e : Nat) (st : OState (St α)) : Nat :=
  match st.id with
  | Option.none => s
  | some _ => if st.at_ < e then st.at_ + 1 else e

/-- 1 when the next call re-enters the loop AT `st.at_` (a state is stored and no match list is
being drained), 0 otherwise -/
def slack (st : OState (St α)) : Nat :=
  match st.id, st.nextIdx with
  | some _, Option.none => 1
  | _, _ => 0

theorem fed_le (s e : Nat) (st : OState (St α)) : fed s e st ≤ max e s := by
  unfold fed
  split
  · exact Nat.le_max_right _ _
  · split
    · rename_i h; exact Nat.le_trans h (Nat.le_max_left _ _)
    · exact Nat.le_max_left _ _

theorem slack_le (st : OState (St α)) : slack st ≤ 1 := by
  unfold slack; split <;> omega

theorem slack_of_nextIdx (st : OState (St α)) (h : st.nextIdx.isSome = true) : slack st = 0 := by
  unfold slack
  split
  · rename_i h2; rw [h2] at h; cases h
  · rfl

/-! ## one run of the loop -/

/-- what one run of the loop, entered at `at_` with counters `cost`, guarantees about its result:
transitions are paid for by newly fed positions; a state is stored; a reported match comes with
a match index -/
def FedInv (cost : Cost) (at_ e : Nat) (r : OState (St α) × Cost) : Prop :=
  r.2.transitions + min at_ e ≤ cost.transitions + (if r.1.at_ < e then r.1.at_ + 1 else e) ∧
  r.1.id.isSome = true ∧
  (r.1.mat.isSome = true → r.1.nextIdx.isSome = true)

theorem fedInv_stop (cost : Cost) (sid : St α) (at_ e : Nat) (h : ¬ at_ < e) :
    FedInv cost at_ e
      ({ mat := Option.none, id := some sid, at_ := at_, nextIdx := Option.none }, cost) := by
  refine ⟨?_, rfl, ?_⟩
  · show cost.transitions + min at_ e ≤ cost.transitions + (if at_ < e then at_ + 1 else e)
    rw [if_neg h]; omega
  · intro h; cases h

/-- no assumption on the automaton or on the prefilter is needed here: a prefilter candidate
beyond the end of the span just ends the loop -/
theorem ovlCost_fed (k : MatchKind) (Q : PatSet α) (A : Aut (St α) α) (g : α → α)
    (hay : List α) (s e : Nat) (he : e ≤ hay.length) (pre : Option (Prefilter α)) (anch : Bool) :
    ∀ (n : Nat) (sid : St α) (at_ : Nat) (cost : Cost), e - at_ ≤ n →
      FedInv cost at_ e (ovlCost k Q A g hay s e he pre anch sid at_ cost)
  | 0, sid, at_, cost, hn => by
    have h : ¬ at_ < e := by omega
    rw [ovlCost, dif_neg h]; exact fedInv_stop cost sid at_ e h
  | n + 1, sid, at_, cost, hn => by
    by_cases h : at_ < e
    · have ih := ovlCost_fed k Q A g hay s e he pre anch n
      have hn' : e - (at_ + 1) ≤ n := by omega
      have base : ∀ (o1 : Option Mat) (o2 : Option Nat) (H : Nat) (q : St α),
          (o1.isSome = true → o2.isSome = true) →
          FedInv cost at_ e
            ({ mat := o1, id := some q, at_ := at_, nextIdx := o2 },
              ⟨cost.transitions + 1, H⟩) := by
        intro o1 o2 H q ho
        refine ⟨?_, rfl, ho⟩
        show cost.transitions + 1 + min at_ e ≤
          cost.transitions + (if at_ < e then at_ + 1 else e)
        rw [if_pos h]; omega
      have key : ∀ (r : OState (St α) × Cost) (H j : Nat), at_ < j →
          FedInv ⟨cost.transitions + 1, H⟩ j e r → FedInv cost at_ e r := by
        intro r H j hj ⟨h1, h2, h3⟩
        refine ⟨?_, h2, h3⟩
        have h1' : r.2.transitions + min j e ≤
          cost.transitions + 1 + (if r.1.at_ < e then r.1.at_ + 1 else e) := h1
        omega
      have hnn : (Option.none : Option Mat).isSome = true →
          (Option.none : Option Nat).isSome = true := fun h => by cases h
      rw [ovlCost, dif_pos h]
      simp only []
      split
      · split
        · exact base _ _ _ _ hnn
        · split
          · split
            · exact base _ _ _ _ (fun _ => rfl)
            · exact key _ _ _ (Nat.lt_succ_self _) (ih _ _ _ hn')
          · split
            · split
              · exact base _ _ _ _ hnn
              · split
                · rename_i hi; exact key _ _ _ hi (ih _ _ _ (by omega))
                · exact key _ _ _ (Nat.lt_succ_self _) (ih _ _ _ hn')
            · exact key _ _ _ (Nat.lt_succ_self _) (ih _ _ _ hn')
      · exact key _ _ _ (Nat.lt_succ_self _) (ih _ _ _ hn')
    · rw [ovlCost, dif_neg h]; exact fedInv_stop cost sid at_ e h

/-! ## one call -/

/-- the three facts the totals need about one successful call -/
def CallInv (s e : Nat) (st st' : OState (St α)) (c : Cost) : Prop :=
  c.transitions + fed s e st ≤ fed s e st' + slack st ∧
  c.fails + odepth st' ≤ odepth st + c.transitions ∧
  (st'.mat.isSome = true → st'.nextIdx.isSome = true)

theorem ideal_comap_start (k : MatchKind) (P : List (List α)) (sk : StartKind) (hasPre : Bool)
    (g : α → α) (anch : Bool) (sid : St α)
    (h : ((ideal k P sk hasPre).comap g).start anch = some sid) : sid = .at [] := by
  cases sk <;> cases anch <;> simp [ideal, Aut.comap] at h <;> exact h.symm

/-- a call that only drains a match list (or does nothing) -/
theorem callInv_same (s e : Nat) (st st' : OState (St α)) (hid : st'.id = st.id)
    (hat : st'.at_ = st.at_) (hm : st'.mat.isSome = true → st'.nextIdx.isSome = true) :
    CallInv s e st st' {} := by
  refine ⟨?_, ?_, hm⟩
  · have : fed s e st' = fed s e st := by unfold fed; rw [hid, hat]
    show 0 + fed s e st ≤ fed s e st' + slack st
    omega
  · have : odepth st' = odepth st := by unfold odepth; rw [hid]
    show 0 + odepth st' ≤ odepth st + 0
    omega

/-- a run of the loop from the stored state `sid` (of depth `d`) at position `a` -/
theorem callInv_of_loop (k : MatchKind) (P : List (List α)) (sk : StartKind) (hasPre : Bool)
    (g : α → α) (i : Input α) (pre : Option (Prefilter α)) (st : OState (St α)) (sid : St α)
    (a : Nat) (hd : sid.depth = odepth st) (ha : fed i.s i.e st ≤ min a i.e + slack st)
    (st' : OState (St α)) (c : Cost)
    (hr : Except.ok (ε := MatchErr) (ovlCost k (patSet k P) ((ideal k P sk hasPre).comap g) g
      i.hay i.s i.e i.valid.1 pre i.anch sid a {}) = .ok (st', c)) :
    CallInv i.s i.e st st' c := by
  have hb := ovlCost_bounds k (patSet k P) ((ideal k P sk hasPre).comap g) g (fun _ _ _ => rfl)
    i.hay i.s i.e i.valid.1 pre i.anch _ sid a {} (Nat.le_refl _)
  have hf := ovlCost_fed k (patSet k P) ((ideal k P sk hasPre).comap g) g
    i.hay i.s i.e i.valid.1 pre i.anch _ sid a {} (Nat.le_refl _)
  rw [Except.ok.inj hr] at hb hf
  obtain ⟨_, _, hb3⟩ := hb
  obtain ⟨hf1, hf2, hf3⟩ := hf
  have hb3' : c.fails + odepth st' + 0 ≤ 0 + sid.depth + c.transitions := hb3
  have hf1' : c.transitions + min a i.e ≤ 0 + (if st'.at_ < i.e then st'.at_ + 1 else i.e) := hf1
  have hf2' : st'.id.isSome = true := hf2
  have hfed : fed i.s i.e st' = (if st'.at_ < i.e then st'.at_ + 1 else i.e) := by
    unfold fed
    split
    · rename_i hn; rw [hn] at hf2'; cases hf2'
    · rfl
  refine ⟨?_, ?_, hf3⟩
  · rw [hfed]; omega
  · omega

theorem ovlImpCost_call (k : MatchKind) (P : List (List α)) (sk : StartKind) (hasPre : Bool)
    (g : α → α) (i : Input α) (hnd : i.s ≤ i.e) (pre : Option (Prefilter α))
    (st st' : OState (St α)) (c : Cost)
    (h : ovlImpCost k (patSet k P) ((ideal k P sk hasPre).comap g) g i pre st = .ok (st', c)) :
    CallInv i.s i.e st st' c := by
  obtain ⟨mat, id, at_, nextIdx⟩ := st
  unfold ovlImpCost at h
  cases id with
  | none =>
    simp only [] at h
    split at h
    · cases h
    · rename_i sid hs
      have hsid := ideal_comap_start k P sk hasPre g i.anch sid hs
      split at h
      · cases h
        exact callInv_same _ _ _ _ rfl rfl (fun _ => rfl)
      · refine callInv_of_loop k P sk hasPre g i pre _ sid i.s ?_ ?_ st' c h
        · rw [hsid]; rfl
        · show i.s ≤ min i.s i.e + _
          omega
  | some sid =>
    cases nextIdx with
    | none =>
      simp only [] at h
      refine callInv_of_loop k P sk hasPre g i pre _ sid at_ rfl ?_ st' c h
      show (if at_ < i.e then at_ + 1 else i.e) ≤ min at_ i.e + 1
      split <;> omega
    | some idx =>
      simp only [] at h
      split at h
      · cases h
        exact callInv_same _ _ _ _ rfl rfl (fun _ => rfl)
      · refine callInv_of_loop k P sk hasPre g i pre _ sid (at_ + 1) rfl ?_ st' c h
        show (if at_ < i.e then at_ + 1 else i.e) ≤ min (at_ + 1) i.e + 0
        split <;> omega

/-- one successful call of `try_find_overlapping_fwd` -/
theorem tryOvlCost_call (k : MatchKind) (P : List (List α)) (sk : StartKind) (hasPre : Bool)
    (g : α → α) (pre : Option (Prefilter α)) (i : Input α) (st st' : OState (St α)) (c : Cost)
    (h : tryOvlCost k (patSet k P) ((ideal k P sk hasPre).comap g) g pre i st = .ok (st', c)) :
    CallInv i.s i.e st st' c := by
  unfold tryOvlCost at h
  simp only [] at h
  split at h
  · cases h
  · split at h
    · split at h
      · cases h
      · cases h
        exact callInv_same _ _ _ _ rfl rfl (fun h => by cases h)
    · rename_i hdone
      have hnd : i.s ≤ i.e := by
        simp only [Input.isDone, decide_eq_true_eq] at hdone; omega
      split at h
      · exact ovlImpCost_call k P sk hasPre g i hnd Option.none _ st' c h
      · exact ovlImpCost_call k P sk hasPre g i hnd pre _ st' c h

/-! ## totals -/

theorem totalTransitions_ok (c : Cost) (cs : List (Except MatchErr Cost)) :
    totalTransitions (.ok c :: cs) = c.transitions + totalTransitions cs := rfl

theorem totalFails_ok (c : Cost) (cs : List (Except MatchErr Cost)) :
    totalFails (.ok c :: cs) = c.fails + totalFails cs := rfl

/-- the call sequence started in ANY overlapping state -/
theorem ovlCallsCost_total (k : MatchKind) (P : List (List α)) (sk : StartKind) (hasPre : Bool)
    (g : α → α) (pre : Option (Prefilter α)) (i : Input α) :
    ∀ (n : Nat) (st : OState (St α)),
      totalTransitions
          (ovlCallsCost k (patSet k P) ((ideal k P sk hasPre).comap g) g pre i n st) +
        fed i.s i.e st ≤ max i.e i.s + (n - 1) + slack st ∧
      totalFails (ovlCallsCost k (patSet k P) ((ideal k P sk hasPre).comap g) g pre i n st) ≤
        odepth st +
          totalTransitions
            (ovlCallsCost k (patSet k P) ((ideal k P sk hasPre).comap g) g pre i n st)
  | 0, st => by
    have := fed_le i.s i.e st
    refine ⟨?_, Nat.zero_le _⟩
    show 0 + fed i.s i.e st ≤ _
    omega
  | n + 1, st => by
    rw [ovlCallsCost]
    split
    · have := fed_le i.s i.e st
      refine ⟨?_, Nat.zero_le _⟩
      show 0 + fed i.s i.e st ≤ _
      omega
    · rename_i st' c hc
      obtain ⟨h1, h2, _⟩ := tryOvlCost_call k P sk hasPre g pre i st st' c hc
      obtain ⟨ih1, ih2⟩ := ovlCallsCost_total k P sk hasPre g pre i n st'
      have := fed_le i.s i.e st'
      have := slack_le st'
      have h0 : n = 0 → totalTransitions
          (ovlCallsCost k (patSet k P) ((ideal k P sk hasPre).comap g) g pre i n st') = 0 := by
        intro hn; subst hn; rfl
      rw [totalTransitions_ok, totalFails_ok]
      exact ⟨by omega, by omega⟩

/-- total transitions / failure hops of the iterator's calls -/
def iterTransitions (cs : List (Option Mat × Cost)) : Nat := (cs.map (·.2.transitions)).sum
def iterFails (cs : List (Option Mat × Cost)) : Nat := (cs.map (·.2.fails)).sum

/-- the iterator, started in any state that does not re-enter the loop at its position -/
theorem ovlIterCost_total (k : MatchKind) (P : List (List α)) (sk : StartKind) (hasPre : Bool)
    (g : α → α) (pre : Option (Prefilter α)) (i : Input α) :
    ∀ (n : Nat) (st : OState (St α)), slack st = 0 →
      iterTransitions
          (ovlIterCost k (patSet k P) ((ideal k P sk hasPre).comap g) g pre i n st) +
        fed i.s i.e st ≤ max i.e i.s ∧
      iterFails (ovlIterCost k (patSet k P) ((ideal k P sk hasPre).comap g) g pre i n st) ≤
        odepth st +
          iterTransitions
            (ovlIterCost k (patSet k P) ((ideal k P sk hasPre).comap g) g pre i n st)
  | 0, st, _ => by
    have := fed_le i.s i.e st
    refine ⟨?_, Nat.zero_le _⟩
    show 0 + fed i.s i.e st ≤ _
    omega
  | n + 1, st, hs => by
    rw [ovlIterCost]
    split
    · have := fed_le i.s i.e st
      refine ⟨?_, Nat.zero_le _⟩
      show 0 + fed i.s i.e st ≤ _
      omega
    · rename_i st' c hc
      obtain ⟨h1, h2, h3⟩ := tryOvlCost_call k P sk hasPre g pre i st st' c hc
      have := fed_le i.s i.e st'
      split
      · refine ⟨?_, ?_⟩
        · show c.transitions + 0 + fed i.s i.e st ≤ _
          omega
        · show c.fails + 0 ≤ odepth st + (c.transitions + 0)
          omega
      · rename_i m hm
        have hs' : slack st' = 0 := slack_of_nextIdx st' (h3 (by rw [hm]; rfl))
        obtain ⟨ih1, ih2⟩ := ovlIterCost_total k P sk hasPre g pre i n st' hs'
        refine ⟨?_, ?_⟩
        · show c.transitions + iterTransitions _ + fed i.s i.e st ≤ _
          omega
        · show c.fails + iterFails _ ≤ odepth st + (c.transitions + iterTransitions _)
          omega

/-- the counters of the iterator are ghost state: its reported matches are `ovlIterAux` -/
theorem ovlIterCost_fst (k : MatchKind) (Q : PatSet α) (A : Aut (St α) α) (g : α → α)
    (pre : Option (Prefilter α)) (i : Input α) :
    ∀ (n : Nat) (st : OState (St α)),
      (ovlIterCost k Q A g pre i n st).filterMap (·.1) = ovlIterAux A pre i n st
  | 0, _ => rfl
  | n + 1, st => by
    rw [ovlIterCost, ovlIterAux, ← tryOvlCost_fst k Q A g pre i st]
    cases tryOvlCost k Q A g pre i st with
    | error e => rfl
    | ok r =>
      obtain ⟨st', c⟩ := r
      simp only [Except.map]
      cases hm : st'.mat with
      | none => rfl
      | some m =>
        simp only [List.filterMap_cons]
        rw [ovlIterCost_fst k Q A g pre i n st']

end CostP
end AcVerif
