import AcVerif.Proofs.NfaMemInv
/-!
# L1c-mem proofs, part 4: the match lists (`add_match`, `copy_matches`)
-/
namespace AcVerif.MemP
open AcVerif MemNfa

/-- push a match cell `(p, 0)` and hook it behind `ld` (behind the `matches` head of `sid`
when `ld = 0`): lines 476-482 and 502-517 -/
def appCell (m : MemNfa) (sid ld p : Nat) : MemNfa :=
  let m1 : MemNfa := { m with matches_ := m.matches_.push { pid := p, link := 0 } }
  if ld = 0 then m1.setSt sid { m1.st sid with matches_ := m.matches_.size }
  else m1.setMt ld { m1.mt ld with link := m.matches_.size }

theorem matches_size_appCell (m : MemNfa) (sid ld p : Nat) :
    (appCell m sid ld p).matches_.size = m.matches_.size + 1 := by
  unfold appCell; split <;> simp

theorem sparse_appCell (m : MemNfa) (sid ld p : Nat) : (appCell m sid ld p).sparse = m.sparse := by
  unfold appCell; split <;> simp

theorem states_size_appCell (m : MemNfa) (sid ld p : Nat) :
    (appCell m sid ld p).states.size = m.states.size := by
  unfold appCell; split <;> simp

theorem mt_pushed (m : MemNfa) (x : MMatch) (j : Nat) :
    MemNfa.mt { m with matches_ := m.matches_.push x } j =
      if j = m.matches_.size then x else m.mt j :=
  arr_getD_push _ _ _ _

@[simp] theorem st_pushed (m : MemNfa) (x : Array MMatch) (j : Nat) :
    MemNfa.st { m with matches_ := x } j = m.st j := rfl

theorem mt_appCell (m : MemNfa) (sid : Nat) {ld : Nat} (hld : ld < m.matches_.size) (p j : Nat) :
    (appCell m sid ld p).mt j =
      if j = m.matches_.size then { pid := p, link := 0 }
      else if j = ld ∧ ld ≠ 0 then { m.mt ld with link := m.matches_.size } else m.mt j := by
  unfold appCell
  by_cases h0 : ld = 0
  · simp only [if_pos h0, mt_setSt, mt_pushed]
    by_cases hj : j = m.matches_.size
    · simp [hj]
    · simp [hj, h0]
  · simp only [if_neg h0, mt_setMt, mt_pushed, Array.size_push]
    have hne : ld ≠ m.matches_.size := by omega
    by_cases hj : j = m.matches_.size
    · have : ¬ j = ld := by omega
      simp [hj, Ne.symm hne]
    · by_cases hjl : j = ld
      · subst hjl
        have : j < m.matches_.size + 1 := by omega
        simp [hj, h0, this]
      · simp [hj, hjl]

theorem st_appCell (m : MemNfa) {sid : Nat} (hp : sid < m.states.size) (ld p s : Nat) :
    (appCell m sid ld p).st s =
      if s = sid ∧ ld = 0 then { m.st sid with matches_ := m.matches_.size } else m.st s := by
  unfold appCell
  by_cases h0 : ld = 0
  · simp only [if_pos h0, st_setSt, st_pushed]
    by_cases hs : s = sid
    · simp [hs, hp, h0]
    · simp [hs]
  · simp [h0]

theorem appCell_okw {m : MemNfa} {tc mc : Nat → List Nat} (h : MemOKW m tc mc) {sid : Nat}
    (hp : sid < m.states.size) (p : Nat) :
    MemOKW (appCell m sid ((mc sid).getLast?.getD 0) p) tc
      (upd mc sid (mc sid ++ [m.matches_.size])) := by
  have hne0 := h.mne0 sid
  have hltc := h.mlt sid
  have hnd := h.mnodup sid
  have hld : (mc sid).getLast?.getD 0 < m.matches_.size := by
    cases hl : (mc sid).getLast? with
    | none => exact h.mpos
    | some q => exact hltc q (List.mem_of_getLast? hl)
  have hld0 : (mc sid).getLast?.getD 0 = 0 ↔ mc sid = [] := by
    constructor
    · intro e
      cases hl : (mc sid).getLast? with
      | none => exact List.getLast?_eq_none_iff.1 hl
      | some q => rw [hl] at e; exact absurd e (hne0 q (List.mem_of_getLast? hl))
    · intro e; rw [e]; rfl
  generalize hm' : appCell m sid ((mc sid).getLast?.getD 0) p = m'
  have hmt : ∀ j, m'.mt j =
      if j = m.matches_.size then { pid := p, link := 0 }
      else if j = (mc sid).getLast?.getD 0 ∧ (mc sid).getLast?.getD 0 ≠ 0
        then { m.mt ((mc sid).getLast?.getD 0) with link := m.matches_.size } else m.mt j :=
    fun j => hm' ▸ mt_appCell m sid hld p j
  have hst : ∀ s, m'.st s =
      if s = sid ∧ (mc sid).getLast?.getD 0 = 0 then { m.st sid with matches_ := m.matches_.size }
      else m.st s := fun s => hm' ▸ st_appCell m hp _ p s
  have hsp : m'.sparse = m.sparse := hm' ▸ sparse_appCell ..
  have hsz : m'.matches_.size = m.matches_.size + 1 := hm' ▸ matches_size_appCell ..
  have htr : ∀ j, m'.tr j = m.tr j := fun j => by simp [MemNfa.tr, hsp]
  have htl : tlink m' = tlink m := funext fun i => by simp [tlink, htr]
  have hsts : ∀ s, (m'.st s).sparse = (m.st s).sparse := by
    intro s; rw [hst]; split
    · rename_i e; rw [e.1]
    · rfl
  have hlink : ∀ j, j < m.matches_.size → (mc sid).getLast? ≠ some j → mlink m' j = mlink m j := by
    intro j hj hne
    unfold mlink
    rw [hmt, if_neg (by omega)]
    split
    · rename_i e
      exfalso
      cases hl : (mc sid).getLast? with
      | none => rw [hl] at e; exact e.2 rfl
      | some q => rw [hl] at e hne; exact hne (by rw [e.1]; rfl)
    · rfl
  have hnew : m.matches_.size ∉ mc sid := fun hm => Nat.lt_irrefl _ (hltc _ hm)
  have key : ∀ x, x ∈ mc sid ++ [m.matches_.size] → x ∈ mc sid ∨ x = m.matches_.size := by
    intro x hx
    rcases List.mem_append.1 hx with e | e
    · exact Or.inl e
    · exact Or.inr (by simpa using e)
  exact {
    tpos := hsp ▸ h.tpos
    mpos := by omega
    tsent := by rw [htr]; exact h.tsent
    msent := by
      rw [hmt, if_neg (by have := h.mpos; omega), if_neg (fun e => e.2 e.1.symm)]
      exact h.msent
    tchain := fun s => by rw [htl, hsts]; exact h.tchain s
    tlt := fun s i hi => hsp ▸ h.tlt s i hi
    tsorted := fun s => by simpa only [htr] using h.tsorted s
    tdisj := h.tdisj
    mchain := by
      intro s
      by_cases hs : s = sid
      · subst hs
        rw [upd_self]
        have hhead : (m'.st s).matches_ =
            if mc s = [] then m.matches_.size else (m.st s).matches_ := by
          rw [hst]
          by_cases hpn : mc s = []
          · rw [if_pos ⟨rfl, hld0.2 hpn⟩, if_pos hpn]
          · rw [if_neg (fun e => hpn (hld0.1 e.2)), if_neg hpn]
        rw [hhead]
        have hc : IsChain (mlink m) (m.st s).matches_ (mc s ++ []) := by
          rw [List.append_nil]; exact h.mchain s
        refine IsChain.insert hc (by rw [List.append_nil]; exact hnd)
          (by have := h.mpos; omega) (by rw [List.append_nil]; exact hnew) ?_ ?_ ?_
        · show (m'.mt _).link = _
          rw [hmt, if_pos rfl]; rfl
        · intro q hq
          have hqm : q ∈ mc s := List.mem_of_getLast? hq
          show (m'.mt q).link = _
          rw [hmt, if_neg (by have := hltc q hqm; omega), hq]
          simp [hne0 q hqm]
        · intro i hi hne
          rw [List.append_nil] at hi
          exact hlink i (hltc i hi) hne
      · rw [upd_ne _ _ hs]
        have : m'.st s = m.st s := by rw [hst, if_neg (fun e => hs e.1)]
        rw [this]
        refine (h.mchain s).congr ?_
        intro i hi
        refine hlink i (h.mlt s i hi) ?_
        intro e
        exact h.mdisj s sid hs i hi (List.mem_of_getLast? e)
    mlt := by
      intro s i hi
      rw [hsz]
      by_cases hs : s = sid
      · subst hs
        rw [upd_self] at hi
        rcases key i hi with e | e
        · exact Nat.lt_succ_of_lt (hltc i e)
        · omega
      · rw [upd_ne _ _ hs] at hi
        exact Nat.lt_succ_of_lt (h.mlt s i hi)
    mnodup := by
      intro s
      by_cases hs : s = sid
      · subst hs
        rw [upd_self]
        refine List.nodup_append.2 ⟨hnd, List.pairwise_singleton _ _, ?_⟩
        intro a ha c hc e
        have : c = m.matches_.size := by simpa using hc
        subst this; subst e
        exact hnew ha
      · rw [upd_ne _ _ hs]; exact h.mnodup s
    mdisj := by
      intro s s' hss i hi hi'
      by_cases hs : s = sid
      · subst hs
        rw [upd_self] at hi
        rw [upd_ne _ _ (Ne.symm hss)] at hi'
        rcases key i hi with e | e
        · exact h.mdisj s s' hss i e hi'
        · have := h.mlt s' i hi'; omega
      · rw [upd_ne _ _ hs] at hi
        by_cases hs' : s' = sid
        · subst hs'
          rw [upd_self] at hi'
          rcases key i hi' with e | e
          · exact h.mdisj s s' hss i hi e
          · have := h.mlt s i hi; omega
        · rw [upd_ne _ _ hs'] at hi'
          exact h.mdisj s s' hss i hi hi' }

/-- everything an observer sees of `appCell` at the tail of `sid` -/
theorem appCell_spec {m : MemNfa} {tc mc : Nat → List Nat} (hw : MemOKW m tc mc) {sid : Nat}
    (hp : sid < m.states.size) (p : Nat) :
    let m' := appCell m sid ((mc sid).getLast?.getD 0) p
    MemOKW m' tc (upd mc sid (mc sid ++ [m.matches_.size])) ∧
    m'.iterMatches sid = m.iterMatches sid ++ [p] ∧
    (∀ s, s ≠ sid → m'.iterMatches s = m.iterMatches s) ∧
    (∀ s, s ≠ sid → ∀ i ∈ mc s, m'.mt i = m.mt i) ∧
    (∀ s, m'.iterTrans s = m.iterTrans s) ∧
    (∀ s, (m'.st s).fail = (m.st s).fail) ∧
    m'.states.size = m.states.size := by
  intro m'
  have hld : (mc sid).getLast?.getD 0 < m.matches_.size := by
    cases hl : (mc sid).getLast? with
    | none => exact hw.mpos
    | some q => exact hw.mlt sid q (List.mem_of_getLast? hl)
  have hw' := appCell_okw hw hp p
  have hpid : ∀ j, j < m.matches_.size → pidOf m' j = pidOf m j := by
    intro j hj
    unfold pidOf
    show ((appCell ..).mt j).pid = _
    rw [mt_appCell m sid hld, if_neg (by omega)]
    split
    · rename_i e; rw [e.1]
    · rfl
  have hother : ∀ s, s ≠ sid → ∀ i ∈ mc s, m'.mt i = m.mt i := by
    intro s hs i hi
    show (appCell ..).mt i = _
    rw [mt_appCell m sid hld, if_neg (by have := hw.mlt s i hi; omega)]
    rw [if_neg]
    intro e
    cases hl : (mc sid).getLast? with
    | none => rw [hl] at e; exact e.2 rfl
    | some q =>
      rw [hl] at e
      have : i = q := e.1
      subst this
      exact hw.mdisj s sid hs i hi (List.mem_of_getLast? hl)
  have hsts : ∀ s, (m'.st s).sparse = (m.st s).sparse ∧ (m'.st s).fail = (m.st s).fail := by
    intro s
    show ((appCell ..).st s).sparse = _ ∧ ((appCell ..).st s).fail = _
    rw [st_appCell m hp]; split
    · rename_i e; rw [e.1]; exact ⟨rfl, rfl⟩
    · exact ⟨rfl, rfl⟩
  refine ⟨hw', ?_, ?_, hother, ?_, fun s => (hsts s).2, states_size_appCell ..⟩
  · rw [iterMatches_eq hw', iterMatches_eq hw, upd_self, List.map_append]
    congr 1
    · exact List.map_congr_left fun i hi => hpid i (hw.mlt sid i hi)
    · show [((appCell ..).mt m.matches_.size).pid] = _
      rw [mt_appCell m sid hld, if_pos rfl]
  · intro s hs
    rw [iterMatches_eq hw', iterMatches_eq hw, upd_ne _ _ hs]
    exact List.map_congr_left fun i hi => hpid i (hw.mlt s i hi)
  · intro s
    exact iterTrans_congr (sparse_appCell ..) (hsts s).1

/-! ## `add_match` -/

theorem addMatch_eq (m : MemNfa) (sid pid : Nat) :
    m.addMatch sid pid =
      appCell m sid (tailWalk m (m.matches_.size + 1) (m.st sid).matches_) pid := by
  have hnew : m.allocMatch.1.mt m.matches_.size = {} := by
    rw [mt_allocMatch]; exact arr_getD_oob _ _ (Nat.le_refl _)
  have hpush : m.allocMatch.1.setMt m.matches_.size { m.allocMatch.1.mt m.matches_.size with pid := pid }
      = { m with matches_ := m.matches_.push { pid := pid, link := 0 } } := by
    rw [hnew]
    show ({ m with matches_ := (m.matches_.push {}).setIfInBounds m.matches_.size _ } : MemNfa) = _
    rw [arr_set_push]
  let link := tailWalk m (m.matches_.size + 1) (m.st sid).matches_
  let F : MemNfa → MemNfa := fun m1 =>
    if link = 0 then m1.setSt sid { m1.st sid with matches_ := m.matches_.size }
    else m1.setMt link { m1.mt link with link := m.matches_.size }
  have e1 : m.addMatch sid pid = F (m.allocMatch.1.setMt m.matches_.size
      { m.allocMatch.1.mt m.matches_.size with pid := pid }) := rfl
  have e2 : appCell m sid link pid =
      F { m with matches_ := m.matches_.push { pid := pid, link := 0 } } := rfl
  rw [e1, hpush]
  exact e2.symm

/-- **`add_match(sid, pid)` appends `pid` at the tail.** -/
theorem addMatch_spec {m : MemNfa} (h : MemOK m) {sid : Nat} (hp : sid < m.states.size)
    (pid : Nat) :
    MemOK (m.addMatch sid pid) ∧
    (m.addMatch sid pid).iterMatches sid = m.iterMatches sid ++ [pid] ∧
    (∀ s, s ≠ sid → (m.addMatch sid pid).iterMatches s = m.iterMatches s) ∧
    (∀ s, (m.addMatch sid pid).iterTrans s = m.iterTrans s) ∧
    (∀ s, ((m.addMatch sid pid).st s).fail = (m.st s).fail) ∧
    (m.addMatch sid pid).states.size = m.states.size := by
  obtain ⟨tc, mc, hw⟩ := h
  rw [addMatch_eq,
    tailWalk_eq m (by rw [hw.msent]) (hw.mchain sid) (Nat.le_succ_of_le (hw.mlen sid))]
  obtain ⟨h1, h2, h3, _, h5, h6, h7⟩ := appCell_spec hw hp pid
  exact ⟨⟨_, _, h1⟩, h2, h3, h5, h6, h7⟩

/-! ## `copy_matches` -/

theorem copyLoop_succ (dst fuel : Nat) (m : MemNfa) (ld ls : Nat) (h : ls ≠ 0) :
    copyLoop dst (fuel + 1) m ld ls =
      copyLoop dst fuel (appCell m dst ld (m.mt ls).pid) m.matches_.size
        ((appCell m dst ld (m.mt ls).pid).mt ls).link := by
  simp only [copyLoop, if_neg h]
  unfold appCell
  by_cases h0 : ld = 0
  · simp only [if_pos h0]
  · simp only [if_neg h0]

/-- the copy loop (lines 501-521) appends the rest of the source list behind `ld` -/
theorem copyLoop_spec (src dst : Nat) (hsd : src ≠ dst) :
    ∀ (rest : List Nat) (fuel : Nat) (m : MemNfa) (tc mc : Nat → List Nat) (ld ls : Nat),
      MemOKW m tc mc → dst < m.states.size → ld = (mc dst).getLast?.getD 0 →
      (∀ i ∈ rest, i ∈ mc src) → IsChain (mlink m) ls rest → rest.length ≤ fuel →
      MemOK (copyLoop dst fuel m ld ls) ∧
      (copyLoop dst fuel m ld ls).iterMatches dst = m.iterMatches dst ++ rest.map (pidOf m) ∧
      (∀ s, s ≠ dst → (copyLoop dst fuel m ld ls).iterMatches s = m.iterMatches s) ∧
      (∀ s, (copyLoop dst fuel m ld ls).iterTrans s = m.iterTrans s) ∧
      (∀ s, ((copyLoop dst fuel m ld ls).st s).fail = (m.st s).fail) ∧
      (copyLoop dst fuel m ld ls).states.size = m.states.size := by
  intro rest
  induction rest with
  | nil =>
    intro fuel m tc mc ld ls hw _ _ _ hc _
    have : ls = 0 := hc
    subst this
    have : copyLoop dst fuel m ld 0 = m := by cases fuel <;> simp [copyLoop]
    rw [this]
    exact ⟨⟨_, _, hw⟩, by simp, fun _ _ => rfl, fun _ => rfl, fun _ => rfl, rfl⟩
  | cons c rest ih =>
    intro fuel m tc mc ld ls hw hp hld hsub hc hf
    obtain ⟨e, hc0, hrest⟩ := hc
    subst e
    cases fuel with
    | zero => simp at hf
    | succ f =>
      rw [copyLoop_succ _ _ _ _ _ hc0, hld]
      obtain ⟨hw', h2, h3, h4, h5, h6, h7⟩ := appCell_spec hw hp (m.mt ls).pid
      have hsame : ∀ i ∈ mc src, (appCell m dst ((mc dst).getLast?.getD 0) (m.mt ls).pid).mt i
          = m.mt i := h4 src hsd
      have hls : ls ∈ mc src := hsub ls List.mem_cons_self
      rw [hsame ls hls]
      have hrest' : IsChain (mlink (appCell m dst ((mc dst).getLast?.getD 0) (m.mt ls).pid))
          (m.mt ls).link rest := by
        refine hrest.congr ?_
        intro i hi
        unfold mlink
        rw [hsame i (hsub i (List.mem_cons_of_mem _ hi))]
      have hsub' : ∀ i ∈ rest, i ∈ upd mc dst (mc dst ++ [m.matches_.size]) src := by
        intro i hi
        rw [upd_ne _ _ hsd]
        exact hsub i (List.mem_cons_of_mem _ hi)
      obtain ⟨i1, i2, i3, i4, i5, i6⟩ :=
        ih f _ tc _ m.matches_.size (m.mt ls).link hw' (by rw [h7]; exact hp)
          (by rw [upd_self]; simp) hsub' hrest' (by simpa using hf)
      refine ⟨i1, ?_, ?_, ?_, ?_, ?_⟩
      · rw [i2, h2, List.map_cons, List.append_assoc]
        congr 1
        show (m.mt ls).pid :: _ = _
        congr 1
        refine List.map_congr_left fun i hi => ?_
        unfold pidOf
        rw [hsame i (hsub i (List.mem_cons_of_mem _ hi))]
      · intro s hs; rw [i3 s hs, h3 s hs]
      · intro s; rw [i4 s, h5 s]
      · intro s; rw [i5 s, h6 s]
      · rw [i6, h7]

/-- **`copy_matches(src, dst)` appends the matches of `src` behind those of `dst`**, for
`src ≠ dst` (the only way the compiler calls it). -/
theorem copyMatches_spec {m : MemNfa} (h : MemOK m) {src dst : Nat} (hp : dst < m.states.size)
    (hsd : src ≠ dst) :
    MemOK (m.copyMatches src dst) ∧
    (m.copyMatches src dst).iterMatches dst = m.iterMatches dst ++ m.iterMatches src ∧
    (∀ s, s ≠ dst → (m.copyMatches src dst).iterMatches s = m.iterMatches s) ∧
    (∀ s, (m.copyMatches src dst).iterTrans s = m.iterTrans s) ∧
    (∀ s, ((m.copyMatches src dst).st s).fail = (m.st s).fail) ∧
    (m.copyMatches src dst).states.size = m.states.size := by
  obtain ⟨tc, mc, hw⟩ := h
  unfold copyMatches
  simp only
  rw [tailWalk_eq m (by rw [hw.msent]) (hw.mchain dst) (Nat.le_succ_of_le (hw.mlen dst))]
  have := copyLoop_spec src dst hsd (mc src) (m.matches_.size + 1) m tc mc _ _ hw hp rfl
    (fun _ hi => hi) (hw.mchain src) (Nat.le_succ_of_le (hw.mlen src))
  rw [← iterMatches_eq hw] at this
  exact this

end AcVerif.MemP
