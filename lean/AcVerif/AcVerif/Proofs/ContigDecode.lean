import AcVerif.Proofs.ContigFlags
/-!
# L1e proofs, part 6: decoding one written state (the lookup of `next_state`)

`foundW rd cls sid` is the `found` computation of `ContigM.nextState`, over an arbitrary word
reader.  If the words at `o` are `State::write` of a state `st` whose transition list is sorted,
constant on byte classes, and (unless dense) free of `FAIL` targets, the lookup returns
`newId (lookup st.trans b)`, or nothing when the lookup is `FAIL`.
-/
namespace AcVerif.L1eP
open AcVerif AcVerif.CNfa AcVerif.L1cP AcVerif.L1dP

/-- the transition lookup of `ContigM.nextState` -/
def foundW (rd : Nat → Nat) (cls sid : Nat) : Option Nat :=
  let kind := rd sid % 256
  if kind == KIND_DENSE then
    let next := rd (sid + 2 + cls)
    if next != FAIL then some next else none
  else if kind == KIND_ONE then
    if cls == (rd sid / 256) % 256 then some (rd (sid + 2)) else none
  else sparseScan rd cls (sid + 2) (sid + 2 + u32Len kind) (u32Len kind)

theorem nextState_succ (m : ContigM) (anch : Bool) (fuel sid : Nat) (byte : UInt8) (acc : Nat × Nat) :
    m.nextState anch (fuel + 1) sid byte acc =
      match foundW (fun i => m.repr.getD i 0) (m.classOf byte) sid with
      | some next => (next, acc.2)
      | none =>
        if anch then (DEAD, acc.2)
        else m.nextState anch fuel (m.repr.getD (sid + 1) 0) byte (0, acc.2 + 1) := rfl

/-! ## list indexing helpers -/

theorem getD_append_left' (l1 l2 : List Nat) (j d : Nat) (h : j < l1.length) :
    (l1 ++ l2).getD j d = l1.getD j d := by
  rw [List.getD_eq_getElem?_getD, List.getElem?_append_left h, ← List.getD_eq_getElem?_getD]

theorem getD_append_right' (l1 l2 : List Nat) (j d : Nat) :
    (l1 ++ l2).getD (l1.length + j) d = l2.getD j d := by
  rw [List.getD_eq_getElem?_getD, List.getElem?_append_right (by omega), Nat.add_sub_cancel_left,
    ← List.getD_eq_getElem?_getD]

/-! ## the hypotheses on a state -/

structure StOK (classOf : UInt8 → Nat) (al : Nat) (newId : Nat → Nat) (st : CState) (fd : Bool) :
    Prop where
  sorted : Sorted st.trans
  cong : ∀ b b', classOf b = classOf b' → lookup st.trans b = lookup st.trans b'
  cls_lt : ∀ b, classOf b < al
  al_le : al ≤ 256
  dense_or_nofail : (fd = true ∨ 127 < st.trans.length) ∨ ∀ x ∈ st.trans, x.2 ≠ FAIL
  id_fail : newId FAIL = FAIL
  id_ne : ∀ t, t ≠ FAIL → newId t ≠ FAIL

section
variable {classOf : UInt8 → Nat} {al : Nat} {newId : Nat → Nat} {st : CState} {fd : Bool}

/-- an entry whose byte has the class of `b` carries the target of `b` -/
theorem StOK.snd_eq (h : StOK classOf al newId st fd) {x : UInt8 × Nat} (hx : x ∈ st.trans)
    {b : UInt8} (hc : classOf x.1 = classOf b) : x.2 = lookup st.trans b := by
  rw [← h.cong _ _ hc]
  exact (lookup_of_mem h.sorted (b := x.1) (t := x.2) hx).symm

/-- a dense row holds the new id of the target (`FAIL` for "no transition") -/
theorem denseRow_entry (h : StOK classOf al newId st fd) (b : UInt8) :
    (denseRow classOf al st newId).getD (classOf b) 0 = newId (lookup st.trans b) := by
  unfold denseRow
  have hall : ∀ x ∈ st.trans, classOf x.1 = classOf b →
      (fun x : UInt8 × Nat => some (newId x.2)) x = some (newId (lookup st.trans b)) := by
    intro x hx hc
    show some (newId x.2) = _
    rw [h.snd_eq hx hc]
  by_cases hex : ∃ x ∈ st.trans, classOf x.1 = classOf b
  · exact foldSet_some _ _ _ 0 _ _ _ (by rw [Array.size_replicate]; exact h.cls_lt b) hall hex
  · have hl : lookup st.trans b = FAIL := by
      cases e : lookup st.trans b == FAIL with
      | true => simpa using e
      | false =>
        have hne : lookup st.trans b ≠ FAIL := by simpa using e
        exact absurd ⟨_, mem_of_lookup rfl hne, rfl⟩ hex
    rw [hl, h.id_fail]
    refine foldSet_stay _ _ _ 0 FAIL _ _ ?_ ?_
    · intro x hx hc
      exact absurd ⟨x, hx, hc⟩ hex
    · have := h.cls_lt b
      simp [Array.getD_eq_getD_getElem?, this]

end

/-! ## the three kinds -/

section
variable {classOf : UInt8 → Nat} {al : Nat} {newId : Nat → Nat} {st : CState} {fd : Bool}
variable {rd : Nat → Nat} {o : Nat}

/-- the second word is the failure link -/
theorem decode_fail
    (hrd : ∀ j, j < (writeState classOf al st newId fd).length →
      rd (o + j) = (writeState classOf al st newId fd).getD j 0) :
    rd (o + 1) = newId st.fail := by
  have hlen := writeState_length_ge classOf al st newId fd
  rw [hrd 1 (by omega)]
  rcases writeState_cases st fd with h | ⟨h1, _, b, t, h3, h4⟩ | ⟨h1, h2, h3⟩
  · rw [writeState_dense _ _ _ _ _ h]; rfl
  · rw [writeState_one _ _ _ _ _ h1 b t h3 h4]; rfl
  · rw [writeState_sparse _ _ _ _ _ h1 h2 h3]; rfl

theorem decode_dense (h : StOK classOf al newId st fd) (hd : fd = true ∨ 127 < st.trans.length)
    (hrd : ∀ j, j < (writeState classOf al st newId fd).length →
      rd (o + j) = (writeState classOf al st newId fd).getD j 0) (b : UInt8) :
    foundW rd (classOf b) o =
      if lookup st.trans b = FAIL then none else some (newId (lookup st.trans b)) := by
  rw [writeState_dense _ _ _ _ _ hd] at hrd
  have hsz := denseRow_size classOf al st newId
  have hc := h.cls_lt b
  have h0 : rd o = KIND_DENSE := by
    have := hrd 0 (by simp)
    simpa using this
  have h2 : rd (o + 2 + classOf b) = newId (lookup st.trans b) := by
    have := hrd (2 + classOf b) (by simp [hsz]; omega)
    rw [← Nat.add_assoc] at this
    rw [this, getD_append_left' _ _ _ _ (by simp [hsz]; omega)]
    have e := getD_append_right' [KIND_DENSE, newId st.fail] (denseRow classOf al st newId).toList
      (classOf b) 0
    simp only [List.length_cons, List.length_nil] at e
    rw [e]
    rw [← denseRow_entry h b]
    simp [List.getD_eq_getElem?_getD, Array.getD_eq_getD_getElem?]
  unfold foundW
  simp only [h0, h2]
  have hk : (KIND_DENSE % 256 == KIND_DENSE) = true := by decide
  rw [hk]
  simp only [if_true]
  by_cases hf : lookup st.trans b = FAIL
  · rw [hf, h.id_fail]; simp
  · have := h.id_ne _ hf
    rw [if_neg hf]
    simp [this]

theorem decode_one (h : StOK classOf al newId st fd) (hfd : fd = false) (b0 : UInt8) (t0 : Nat)
    (hl : st.trans = [(b0, t0)]) (hm : st.matches_ = [])
    (hrd : ∀ j, j < (writeState classOf al st newId fd).length →
      rd (o + j) = (writeState classOf al st newId fd).getD j 0) (b : UInt8) :
    foundW rd (classOf b) o =
      if lookup st.trans b = FAIL then none else some (newId (lookup st.trans b)) := by
  rw [writeState_one _ _ _ _ _ hfd b0 t0 hl hm] at hrd
  have hc0 : classOf b0 < 256 := Nat.lt_of_lt_of_le (h.cls_lt b0) h.al_le
  have h0 : rd o = KIND_ONE + classOf b0 * 256 := by
    have := hrd 0 (by simp)
    simpa using this
  have h2 : rd (o + 2) = newId t0 := by
    have := hrd 2 (by simp)
    simpa using this
  have hnf : t0 ≠ FAIL := by
    rcases h.dense_or_nofail with hd | hd
    · rcases hd with hd | hd
      · rw [hfd] at hd; cases hd
      · rw [hl] at hd; simp at hd
    · exact hd (b0, t0) (by rw [hl]; simp)
  have hl0 : lookup st.trans b0 = t0 := by rw [hl, lookup_cons, if_pos rfl]
  unfold foundW
  simp only [h0, h2]
  have hk1 : ((KIND_ONE + classOf b0 * 256) % 256 == KIND_DENSE) = false := by
    simp only [KIND_ONE, KIND_DENSE, beq_eq_false_iff_ne, ne_eq]; omega
  have hk2 : ((KIND_ONE + classOf b0 * 256) % 256 == KIND_ONE) = true := by
    simp only [KIND_ONE, beq_iff_eq]; omega
  have hk3 : (KIND_ONE + classOf b0 * 256) / 256 % 256 = classOf b0 := by
    simp only [KIND_ONE]; omega
  rw [hk1, hk2, hk3]
  simp only [Bool.false_eq_true, if_false, if_true]
  by_cases hc : classOf b = classOf b0
  · have : lookup st.trans b = t0 := by rw [h.cong b b0 hc, hl0]
    rw [this, if_neg hnf, hc]
    simp
  · have hne : ¬ b0 = b := fun e => hc (by rw [e])
    have : lookup st.trans b = FAIL := by
      rw [hl, lookup_cons, if_neg hne, lookup_nil]
    rw [this]
    simp [hc]

theorem getElem_map_fst_mem {α β : Type} (l : List α) (f : α → β) (j : Nat) (hj : j < (l.map f).length) :
    ∃ x ∈ l, (l.map f)[j] = f x ∧ l[j]? = some x := by
  have hj' : j < l.length := by simpa using hj
  exact ⟨l[j], List.getElem_mem hj', by simp, by simp [hj']⟩

theorem decode_sparse (h : StOK classOf al newId st fd) (hfd : fd = false)
    (hlen : st.trans.length ≤ 127) (hne : ¬ (st.trans.length = 1 ∧ st.matches_ = []))
    (hrd : ∀ j, j < (writeState classOf al st newId fd).length →
      rd (o + j) = (writeState classOf al st newId fd).getD j 0) (b : UInt8) :
    foundW rd (classOf b) o =
      if lookup st.trans b = FAIL then none else some (newId (lookup st.trans b)) := by
  rw [writeState_sparse _ _ _ _ _ hfd hlen hne] at hrd
  have hnf : ∀ x ∈ st.trans, x.2 ≠ FAIL := by
    rcases h.dense_or_nofail with hd | hd
    · rcases hd with hd | hd
      · rw [hfd] at hd; cases hd
      · omega
    · exact hd
  -- abbreviations
  have hcl_len : (st.trans.map fun x => classOf x.1).length = st.trans.length := List.length_map _
  have hch := chunks_length (st.trans.map fun x => classOf x.1) (st.trans.length + 1)
    (by rw [hcl_len]; omega)
  rw [hcl_len] at hch
  have h0 : rd o = st.trans.length := by
    have := hrd 0 (by simp)
    simpa using this
  have hchunk : ∀ i, i < u32Len st.trans.length → rd (o + 2 + i) =
      (writeState.chunks (st.trans.map fun x => classOf x.1) (st.trans.length + 1)).getD i 0 := by
    intro i hi
    have := hrd (2 + i) (by simp [hch]; omega)
    rw [← Nat.add_assoc] at this
    rw [this, getD_append_left' _ _ _ _ (by simp [hch]; omega),
      getD_append_left' _ _ _ _ (by simp [hch]; omega)]
    exact getD_append_right' [st.trans.length, newId st.fail] _ i 0
  have htgt : ∀ j, j < st.trans.length → rd (o + 2 + u32Len st.trans.length + j) =
      (st.trans.map fun x => newId x.2).getD j 0 := by
    intro j hj
    have := hrd (2 + u32Len st.trans.length + j) (by simp [hch]; omega)
    rw [← Nat.add_assoc, ← Nat.add_assoc] at this
    rw [this, getD_append_left' _ _ _ _ (by simp [hch]; omega)]
    have e := getD_append_right' ([st.trans.length, newId st.fail] ++
      writeState.chunks (st.trans.map fun x => classOf x.1) (st.trans.length + 1))
      (st.trans.map fun x => newId x.2) j 0
    rw [List.length_append, hch] at e
    exact e
  have hkind : rd o % 256 = st.trans.length := by rw [h0]; omega
  unfold foundW
  simp only [hkind]
  have hk1 : (st.trans.length == KIND_DENSE) = false := by
    simp only [KIND_DENSE, beq_eq_false_iff_ne, ne_eq]; omega
  have hk2 : (st.trans.length == KIND_ONE) = false := by
    simp only [KIND_ONE, beq_eq_false_iff_ne, ne_eq]; omega
  rw [hk1, hk2]
  simp only [Bool.false_eq_true, if_false]
  have hspec := sparseScan_spec rd (classOf b) (o + 2) (o + 2 + u32Len st.trans.length)
    (st.trans.map fun x => classOf x.1) (st.trans.length + 1) (by rw [hcl_len]; omega)
    (by
      intro c hc
      obtain ⟨x, _, rfl⟩ := List.mem_map.1 hc
      exact Nat.lt_of_lt_of_le (h.cls_lt x.1) h.al_le)
    (by rw [hcl_len]; exact hchunk)
  rw [hcl_len] at hspec
  rw [hspec]
  cases hfi : (st.trans.map fun x => classOf x.1).findIdx? (· == classOf b) with
  | none =>
    rw [List.findIdx?_eq_none_iff] at hfi
    have : lookup st.trans b = FAIL := by
      cases e : lookup st.trans b == FAIL with
      | true => simpa using e
      | false =>
        have hne' : lookup st.trans b ≠ FAIL := by simpa using e
        have hmem := mem_of_lookup (l := st.trans) (b := b) rfl hne'
        have := hfi (classOf b) (List.mem_map.2 ⟨_, hmem, rfl⟩)
        simp at this
    rw [this]; rfl
  | some j =>
    rw [List.findIdx?_eq_some_iff_getElem] at hfi
    obtain ⟨hj, hp, _⟩ := hfi
    obtain ⟨x, hx, hxe, hxj⟩ := getElem_map_fst_mem st.trans (fun x => classOf x.1) j hj
    rw [hxe] at hp
    have hc : classOf x.1 = classOf b := by simpa using hp
    have hx2 := h.snd_eq hx hc
    have hj' : j < st.trans.length := by simpa using hj
    simp only [Option.map_some]
    rw [htgt j hj']
    have : (st.trans.map fun x => newId x.2).getD j 0 = newId x.2 := by
      simp [List.getD_eq_getElem?_getD, hxj]
    rw [this, ← hx2, if_neg (hnf x hx)]

/-- the lookup on a written state, whatever its kind -/
theorem decode_found (h : StOK classOf al newId st fd)
    (hrd : ∀ j, j < (writeState classOf al st newId fd).length →
      rd (o + j) = (writeState classOf al st newId fd).getD j 0) (b : UInt8) :
    foundW rd (classOf b) o =
      if lookup st.trans b = FAIL then none else some (newId (lookup st.trans b)) := by
  rcases writeState_cases st fd with hd | ⟨h1, _, b0, t0, h3, h4⟩ | ⟨h1, h2, h3⟩
  · exact decode_dense h hd hrd b
  · exact decode_one h h1 b0 t0 h3 h4 hrd b
  · exact decode_sparse h h1 h2 h3 hrd b

end

end AcVerif.L1eP
