import AcVerif.NfaMemCompile
import AcVerif.Proofs.NfaMemCompileFill
/-!
# L1c-mem assembly, part 3: the refinement relation and the single operations

`Rel m n`: the memory `m` satisfies the representation invariant, its side vectors have exactly
the lengths `sparseLen` / `matchesLen` of `BuildChecked.lean` (`Tight`: no cell of `nfa.sparse` /
`nfa.matches` outside the lists), and it represents the abstract automaton `n` up to the failure
links of the states `0, 1, 2` (`FailEq`).  Every operation the compiler phases use is lifted to
`Rel` here, from the per-operation theorems of `Theorems/L1cMem.lean`.
-/
namespace AcVerif.MemC
open AcVerif AcVerif.CNfa AcVerif.L1cP AcVerif.BuildP AcVerif.MemP

/-! ## equality up to the failure links of `DEAD`, `FAIL` and the unanchored start -/

/-- same transitions and matches; same failure link if `p` -/
def SEq (p : Prop) (x y : CState) : Prop :=
  x.trans = y.trans ∧ x.matches_ = y.matches_ ∧ (p → x.fail = y.fail)

/-- `a` and `n` agree except for the `fail` fields of the states `0, 1, 2` -/
def FailEq (a n : CNfa) : Prop := a.size = n.size ∧ ∀ s, SEq (3 ≤ s) (a.getD s {}) (n.getD s {})

theorem SEq.refl (p : Prop) (x : CState) : SEq p x x := ⟨rfl, rfl, fun _ => rfl⟩

theorem FailEq.refl (n : CNfa) : FailEq n n := ⟨rfl, fun _ => SEq.refl _ _⟩

theorem FailEq.modify {a n : CNfa} (h : FailEq a n) (i : Nat) {f g : CState → CState}
    (hfg : ∀ x y, SEq (3 ≤ i) x y → SEq (3 ≤ i) (f x) (g y)) :
    FailEq (a.modify i f) (n.modify i g) := by
  refine ⟨by rw [Array.size_modify, Array.size_modify]; exact h.1, fun s => ?_⟩
  rw [getD_modify, getD_modify, h.1]
  by_cases e : i = s ∧ s < n.size
  · rw [if_pos e, if_pos e]
    obtain ⟨e1, _⟩ := e
    subst e1
    exact hfg _ _ (h.2 i)
  · rw [if_neg e, if_neg e]; exact h.2 s

theorem FailEq.push {a n : CNfa} (h : FailEq a n) {x y : CState} (hxy : SEq (3 ≤ n.size) x y) :
    FailEq (a.push x) (n.push y) := by
  refine ⟨by rw [Array.size_push, Array.size_push, h.1], fun s => ?_⟩
  by_cases e : s = n.size
  · rw [e]
    have e' : n.size = a.size := h.1.symm
    conv => lhs; rw [e']
    rw [getD_push_eq, getD_push_eq]; exact hxy
  · rw [getD_push_ne _ _ (h.1 ▸ e), getD_push_ne _ _ e]; exact h.2 s

theorem FailEq.follow {a n : CNfa} (h : FailEq a n) (s : Nat) (b : UInt8) :
    CNfa.follow a s b = CNfa.follow n s b := by
  rw [follow_eq, follow_eq, (h.2 s).1]

theorem FailEq.isMatch {a n : CNfa} (h : FailEq a n) (s : Nat) :
    CNfa.isMatch a s = CNfa.isMatch n s := by
  unfold CNfa.isMatch; rw [(h.2 s).2.1]

/-- the sums of `BuildChecked.lean` do not see the failure links -/
theorem FailEq.wsum {a n : CNfa} (h : FailEq a n) (g : CState → Nat)
    (hg : ∀ p x y, SEq p x y → g x = g y) : wsum g a = wsum g n := by
  unfold BuildP.wsum
  have : a.toList.map g = n.toList.map g := by
    apply List.ext_getElem
    · simp [h.1]
    · intro i h1 h2
      simp only [List.length_map, Array.length_toList] at h1 h2
      simp only [List.getElem_map, Array.getElem_toList]
      have := hg _ _ _ (h.2 i)
      simpa [Array.getD_eq_getD_getElem?, Array.getElem?_eq_getElem h1,
        Array.getElem?_eq_getElem h2] using this
  rw [this]

theorem FailEq.sparseLen {a n : CNfa} (h : FailEq a n) : sparseLen a = sparseLen n := by
  rw [sparseLen_eq, sparseLen_eq, h.wsum gT fun _ _ _ hs => by unfold gT; rw [hs.1]]

theorem FailEq.matchesLen {a n : CNfa} (h : FailEq a n) : matchesLen a = matchesLen n := by
  rw [matchesLen_eq, matchesLen_eq, h.wsum gM fun _ _ _ hs => by unfold gM; rw [hs.2.1]]

/-! ## exact effect of a modification on the sums -/

theorem list_sum_modify_add (g : CState → Nat) (f : CState → CState) :
    ∀ (l : List CState) (i : Nat), i < l.length →
      ((l.modify i f).map g).sum + g (l.getD i {}) = (l.map g).sum + g (f (l.getD i {}))
  | [], _, h => by simp at h
  | a :: l, 0, _ => by
    simp only [List.modify_zero_cons, List.map_cons, List.sum_cons, List.getD_cons_zero]
    omega
  | a :: l, i + 1, h => by
    simp only [List.modify_succ_cons, List.map_cons, List.sum_cons, List.getD_cons_succ]
    have := list_sum_modify_add g f l i (by simpa using h)
    omega

theorem wsum_modify_add (g : CState → Nat) (f : CState → CState) (n : CNfa) {i : Nat}
    (hi : i < n.size) :
    wsum g (n.modify i f) + g (n.getD i {}) = wsum g n + g (f (n.getD i {})) := by
  unfold BuildP.wsum
  rw [Array.toList_modify]
  have := list_sum_modify_add g f n.toList i (by simpa using hi)
  have e : n.toList.getD i {} = n.getD i {} := by
    simp [Array.getD_eq_getD_getElem?, List.getD_eq_getElem?_getD]
  rw [e] at this
  exact this

/-! ## the lengths of the side vectors -/

/-- `nfa.sparse` / `nfa.matches` hold the dummy entry and the cells of the lists, nothing else -/
def Tight (m : MemNfa) : Prop :=
  m.sparse.size = sparseLen (absNfa m) ∧ m.matches_.size = matchesLen (absNfa m)

theorem getD_absNfa_lt (m : MemNfa) {s : Nat} (hs : s < m.states.size) :
    (absNfa m).getD s {} = absState m s := by rw [getD_absNfa, if_pos hs]

/-- an operation that changes one state: the vectors grow by what the lists grow -/
theorem tight_modify {m m' : MemNfa} {i : Nat} {f : CState → CState} (hT : Tight m)
    (hi : i < m.states.size) (habs : absNfa m' = (absNfa m).modify i f)
    (hsp : m'.sparse.size + gT (absState m i) = m.sparse.size + gT (f (absState m i)))
    (hmt : m'.matches_.size + gM (absState m i) = m.matches_.size + gM (f (absState m i))) :
    Tight m' := by
  have h1 := wsum_modify_add gT f (absNfa m) (i := i) (by simpa using hi)
  have h2 := wsum_modify_add gM f (absNfa m) (i := i) (by simpa using hi)
  rw [getD_absNfa_lt m hi] at h1 h2
  unfold Tight at hT ⊢
  rw [habs, sparseLen_eq, matchesLen_eq]
  rw [sparseLen_eq, matchesLen_eq] at hT
  omega

/-! ## the relation -/

structure Rel (m : MemNfa) (n : CNfa) : Prop where
  ok : MemOK m
  tight : Tight m
  eq : FailEq (absNfa m) n
  /-- the three failure links `FailEq` does not see still hold the value `alloc_state` gave them -/
  low : ∀ s, s < 3 → (m.st s).fail = 0

namespace Rel
variable {m : MemNfa} {n : CNfa}

theorem size (h : Rel m n) : m.states.size = n.size := by
  have := h.eq.1; simpa using this

theorem follow (h : Rel m n) (s : Nat) (b : UInt8) :
    m.followTransitionSparse s b = CNfa.follow n s b := by
  rw [followTransitionSparse_eq h.ok, h.eq.follow]

theorem isMatch (h : Rel m n) (s : Nat) : m.isMatch s = CNfa.isMatch n s := by
  rw [isMatch_eq h.ok, h.eq.isMatch]

theorem iterTrans (h : Rel m n) (s : Nat) : m.iterTrans s = (n.getD s {}).trans := by
  rw [← (h.eq.2 s).1, getD_absNfa]
  split
  · rfl
  · rename_i hs
    exact (absState_oob h.ok (Nat.le_of_not_lt hs)).1

theorem fail (h : Rel m n) {s : Nat} (h3 : 3 ≤ s) (hs : s < n.size) :
    (m.st s).fail = (n.getD s {}).fail := by
  rw [← (h.eq.2 s).2.2 h3, getD_absNfa_lt m (h.size ▸ hs)]; rfl

/-! ### writes -/

theorem allocState (h : Rel m n) (h3 : 3 ≤ n.size) (depth : Nat) :
    Rel (m.allocState depth 2).1 (n.push { fail := SU }) ∧ (m.allocState depth 2).2 = n.size := by
  obtain ⟨habs, hid⟩ := absNfa_allocState h.ok depth 2
  refine ⟨⟨allocState_memOK h.ok depth 2, ?_, ?_, ?_⟩, by rw [hid]; exact h.eq.1⟩
  · have hT := h.tight
    unfold Tight at hT ⊢
    rw [habs, sparseLen_eq, matchesLen_eq, wsum_push, wsum_push]
    rw [sparseLen_eq, matchesLen_eq] at hT
    exact ⟨by rw [show (m.allocState depth 2).1.sparse = m.sparse from rfl, hT.1]; rfl,
      by rw [show (m.allocState depth 2).1.matches_ = m.matches_ from rfl, hT.2]; rfl⟩
  · rw [habs]
    exact h.eq.push (SEq.refl _ _)
  · intro s hs
    rw [st_allocState, if_neg (by rw [h.size]; omega)]
    exact h.low s hs

/-- the two vectors after `add_transition` -/
theorem addTransition_sizes {tc mc : Nat → List Nat} (hw : MemOKW m tc mc) (prev : Nat) (b : UInt8)
    (t : Nat) :
    (m.addTransition prev b t).matches_ = m.matches_ ∧
    (m.addTransition prev b t).sparse.size + (m.iterTrans prev).length =
      m.sparse.size + (insertTrans b t (m.iterTrans prev)).length := by
  obtain ⟨pre, suf, hsplit, hpre, hcase⟩ := addTransition_cases hw prev b t
  rw [iterTrans_eq hw, hsplit, List.map_append]
  rcases hcase with ⟨hsuf, heq⟩ | ⟨c, suf', hsuf, hcb, heq⟩
  · rw [heq, matches_insCell, sparse_size_insCell, insertTrans_ins]
    · refine ⟨rfl, ?_⟩
      simp only [List.length_append, List.length_cons, List.length_map]; omega
    · intro x hx
      obtain ⟨i, hi, rfl⟩ := List.mem_map.1 hx
      exact hpre i hi
    · intro x hx
      obtain ⟨i, hi, rfl⟩ := List.mem_map.1 hx
      exact hsuf i hi
  · rw [heq, hsuf, List.map_cons]
    show (setNext m c t).matches_ = _ ∧ (setNext m c t).sparse.size + _ = _
    have : kv m c = (b, (m.tr c).next) := by unfold kv; rw [hcb]
    rw [this, insertTrans_ow]
    · refine ⟨rfl, ?_⟩
      show (m.setTr c _).sparse.size + _ = _
      rw [sparse_size_setTr]
      simp only [List.length_append, List.length_cons, List.length_map]
    · intro x hx
      obtain ⟨i, hi, rfl⟩ := List.mem_map.1 hx
      exact hpre i hi

theorem addTransition (h : Rel m n) {prev : Nat} (hp : prev < n.size) (b : UInt8) (t : Nat) :
    Rel (m.addTransition prev b t) (CNfa.addTransition n prev b t) := by
  have hp' : prev < m.states.size := h.size ▸ hp
  have habs := absNfa_addTransition h.ok hp' b t
  obtain ⟨tc, mc, hw⟩ := h.ok
  obtain ⟨s1, s2⟩ := addTransition_sizes hw prev b t
  refine ⟨addTransition_memOK h.ok hp' b t, ?_, ?_,
    fun s hs => by rw [(addTransition_spec h.ok hp' b t).2.2.2.2.1 s]; exact h.low s hs⟩
  · refine tight_modify h.tight hp' habs ?_ ?_
    · exact s2
    · rw [s1]; rfl
  · rw [habs]
    unfold CNfa.addTransition
    refine h.eq.modify prev ?_
    intro x y hxy
    exact ⟨by show insertTrans b t x.trans = insertTrans b t y.trans; rw [hxy.1], hxy.2.1, hxy.2.2⟩

theorem addMatch (h : Rel m n) {sid : Nat} (hp : sid < n.size) (pid : Nat) :
    Rel (m.addMatch sid pid)
      (n.modify sid fun st => { st with matches_ := st.matches_ ++ [pid] }) := by
  have hp' : sid < m.states.size := h.size ▸ hp
  have habs := absNfa_addMatch h.ok hp' pid
  refine ⟨addMatch_memOK h.ok hp' pid, ?_, ?_,
    fun s hs => by rw [(addMatch_spec h.ok hp' pid).2.2.2.2.1 s]; exact h.low s hs⟩
  · refine tight_modify h.tight hp' habs ?_ ?_
    · rw [addMatch_eq, sparse_appCell]; rfl
    · rw [addMatch_eq, matches_size_appCell]
      show _ = _ + ((absState m sid).matches_ ++ [pid]).length
      unfold gM
      simp only [List.length_append, List.length_singleton]; omega
  · rw [habs]
    refine h.eq.modify sid ?_
    intro x y hxy
    exact ⟨hxy.1, by show x.matches_ ++ [pid] = y.matches_ ++ [pid]; rw [hxy.2.1], hxy.2.2⟩

/-! ### `copy_matches`: the two vectors -/

theorem copyLoop_sparse (dst : Nat) :
    ∀ (fuel : Nat) (m : MemNfa) (ld ls : Nat), (MemNfa.copyLoop dst fuel m ld ls).sparse = m.sparse
  | 0, _, _, _ => rfl
  | fuel + 1, m, ld, ls => by
    rw [MemNfa.copyLoop]
    split
    · rfl
    · rw [copyLoop_sparse dst fuel]
      split <;> rfl

theorem copyMatches_sparse (m : MemNfa) (src dst : Nat) : (m.copyMatches src dst).sparse = m.sparse :=
  copyLoop_sparse dst _ m _ _

/-- the copy loop pushes one entry per element of the source list -/
theorem copyLoop_size (src dst : Nat) (hsd : src ≠ dst) :
    ∀ (rest : List Nat) (fuel : Nat) (m : MemNfa) (tc mc : Nat → List Nat) (ld ls : Nat),
      MemOKW m tc mc → dst < m.states.size → ld = (mc dst).getLast?.getD 0 →
      (∀ i ∈ rest, i ∈ mc src) → IsChain (mlink m) ls rest → rest.length ≤ fuel →
      (MemNfa.copyLoop dst fuel m ld ls).matches_.size = m.matches_.size + rest.length := by
  intro rest
  induction rest with
  | nil =>
    intro fuel m tc mc ld ls _ _ _ _ hc _
    have : ls = 0 := hc
    subst this
    have : MemNfa.copyLoop dst fuel m ld 0 = m := by cases fuel <;> simp [MemNfa.copyLoop]
    rw [this]; rfl
  | cons c rest ih =>
    intro fuel m tc mc ld ls hw hp hld hsub hc hf
    obtain ⟨e, hc0, hrest⟩ := hc
    subst e
    cases fuel with
    | zero => simp at hf
    | succ f =>
      rw [copyLoop_succ _ _ _ _ _ hc0, hld]
      obtain ⟨hw', _, _, h4, _, _, h7⟩ := appCell_spec hw hp (m.mt ls).pid
      have hsame : ∀ i ∈ mc src, (appCell m dst ((mc dst).getLast?.getD 0) (m.mt ls).pid).mt i
          = m.mt i := h4 src hsd
      have hls : ls ∈ mc src := hsub ls List.mem_cons_self
      rw [hsame ls hls]
      have hrest' : IsChain (mlink (appCell m dst ((mc dst).getLast?.getD 0) (m.mt ls).pid))
          (m.mt ls).link rest := by
        refine hrest.congr ?_
        intro i hi
        unfold mlink
        rw [hsame i (hsub i (List.mem_cons_of_mem _ hi))]
      have hsub' : ∀ i ∈ rest, i ∈ upd mc dst (mc dst ++ [m.matches_.size]) src := by
        intro i hi
        rw [upd_ne _ _ hsd]
        exact hsub i (List.mem_cons_of_mem _ hi)
      rw [ih f _ tc _ m.matches_.size (m.mt ls).link hw' (by rw [h7]; exact hp)
        (by rw [upd_self]; simp) hsub' hrest' (by simpa using hf), matches_size_appCell]
      simp only [List.length_cons]; omega

theorem copyMatches_size (hok : MemOK m) {src dst : Nat} (hp : dst < m.states.size)
    (hsd : src ≠ dst) :
    (m.copyMatches src dst).matches_.size = m.matches_.size + (m.iterMatches src).length := by
  obtain ⟨tc, mc, hw⟩ := hok
  unfold MemNfa.copyMatches
  simp only
  rw [tailWalk_eq m (by rw [hw.msent]) (hw.mchain dst) (Nat.le_succ_of_le (hw.mlen dst)),
    copyLoop_size src dst hsd (mc src) (m.matches_.size + 1) m tc mc _ _ hw hp rfl
      (fun _ hi => hi) (hw.mchain src) (Nat.le_succ_of_le (hw.mlen src)),
    iterMatches_eq hw, List.length_map]

theorem copyMatches (h : Rel m n) {src dst : Nat} (hd : dst < n.size) (hne : src ≠ dst) :
    Rel (m.copyMatches src dst) (CNfa.copyMatches n src dst) := by
  have hd' : dst < m.states.size := h.size ▸ hd
  have habs := absNfa_copyMatches h.ok hd' hne
  refine ⟨copyMatches_memOK h.ok hd' hne, ?_, ?_,
    fun s hs => by rw [(copyMatches_spec h.ok hd' hne).2.2.2.2.1 s]; exact h.low s hs⟩
  · unfold CNfa.copyMatches at habs
    refine tight_modify h.tight hd' habs ?_ ?_
    · rw [copyMatches_sparse]; rfl
    · rw [copyMatches_size h.ok hd' hne]
      show _ = _ + ((absState m dst).matches_ ++ ((absNfa m).getD src {}).matches_).length
      have : ((absNfa m).getD src {}).matches_ = m.iterMatches src := by
        rw [getD_absNfa]
        split
        · rfl
        · rename_i hs
          have := (absState_oob h.ok (Nat.le_of_not_lt hs)).2
          simp only [absState] at this
          rw [this]
      rw [this]
      unfold gM
      simp only [List.length_append]; omega
  · rw [habs]
    unfold CNfa.copyMatches
    rw [(h.eq.2 src).2.1]
    refine h.eq.modify dst ?_
    intro x y hxy
    exact ⟨hxy.1, by
      show x.matches_ ++ _ = y.matches_ ++ _
      rw [hxy.2.1], hxy.2.2⟩

theorem setFail (h : Rel m n) {sid : Nat} (hp : sid < n.size) (h3 : 3 ≤ sid) (f : Nat) :
    Rel (m.setFail sid f) (n.modify sid fun st => { st with fail := f }) := by
  have hp' : sid < m.states.size := h.size ▸ hp
  obtain ⟨c1, c2, c3, c4, c5⟩ := setFail_spec h.ok sid f
  have habs : absNfa (m.setFail sid f) =
      (absNfa m).modify sid fun st => { st with fail := f } := by
    refine absNfa_eq_modify c5 ?_ ?_
    · simp only [absState, c2, c3, c4]
      rw [if_pos ⟨trivial, hp'⟩]
    · intro s hs
      simp only [absState, c2, c3, c4]
      rw [if_neg (fun e => hs e.1)]
  refine ⟨c1, ?_, ?_, fun s hs => by rw [c4, if_neg (by omega)]; exact h.low s hs⟩
  · exact tight_modify h.tight hp' habs rfl rfl
  · rw [habs]
    refine h.eq.modify sid ?_
    intro x y hxy
    exact ⟨hxy.1, hxy.2.1, fun _ => rfl⟩

end Rel

end AcVerif.MemC
