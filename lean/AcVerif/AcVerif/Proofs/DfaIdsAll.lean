import AcVerif.Proofs.DfaIdsBothSim
import AcVerif.Proofs.Common
/-!
# L1d-ids proofs, part 6: an id map for every start kind and supported anchoring mode
-/
namespace AcVerif.L1dIdsP
open AcVerif AcVerif.CNfa AcVerif.L1cP AcVerif.L1dP AcVerif.L1eP

/-- the id map of `buildDfaIds N sk bc ·` for the anchoring mode `anch` -/
def gOf (N : CNfa) (sk : StartKind) (bc anch : Bool) : Nat → Nat :=
  match sk with
  | .both => if anch then remAf N bc else remUf N bc
  | _ => gOne N bc

theorem supportsAnch_unanchored {anch : Bool} (h : supportsAnch .unanchored anch) : anch = false := by
  rcases h with h | ⟨_, h⟩ | ⟨h, _⟩
  · cases h
  · exact h
  · cases h

theorem supportsAnch_anchored {anch : Bool} (h : supportsAnch .anchored anch) : anch = true := by
  rcases h with h | ⟨h, _⟩ | ⟨_, h⟩
  · cases h
  · cases h
  · exact h

theorem sim_of_FS {k : MatchKind} {Q : PatSet UInt8} {L : List (List UInt8)} {N : CNfa}
    (h : FS k Q L N) (sk : StartKind) (bc hasPre anch : Bool) (hs : supportsAnch sk anch) :
    Sim N L hasPre (buildDfaIds N sk bc hasPre) anch (gOf N sk bc anch) := by
  cases sk with
  | unanchored =>
    have := supportsAnch_unanchored hs
    subst this
    rw [buildDfaIds_unanchored]
    exact one_sim h bc false hasPre
  | anchored =>
    have := supportsAnch_anchored hs
    subst this
    rw [buildDfaIds_anchored]
    exact one_sim h bc true hasPre
  | both =>
    rw [buildDfaIds_both]
    cases anch
    · exact both_simU h bc hasPre
    · exact both_simA h bc hasPre

/-- an unsupported mode has the start id `DEAD` -/
theorem start_unsupported (N : CNfa) (sk : StartKind) (bc hasPre anch : Bool)
    (hs : ¬ supportsAnch sk anch) :
    (if anch then (buildDfaIds N sk bc hasPre).startA else (buildDfaIds N sk bc hasPre).startU) = 0 := by
  cases sk with
  | unanchored =>
    cases anch
    · exact absurd (Or.inr (Or.inl ⟨rfl, rfl⟩)) hs
    · rfl
  | anchored =>
    cases anch
    · rfl
    · exact absurd (Or.inr (Or.inr ⟨rfl, rfl⟩)) hs
  | both => exact absurd (Or.inl rfl) hs

end AcVerif.L1dIdsP
