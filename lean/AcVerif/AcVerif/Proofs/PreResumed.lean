import AcVerif.Proofs.PreTransparent
import AcVerif.Proofs.Std
import AcVerif.Engine.Iter
/-!
# C05 for resumed searches, generic part

* the non-overlapping iterator: `findAt` with a sound prefilter is `findAt` without, pointwise;
* the stepwise overlapping search: what the overlapping loop needs from a prefilter
  (`PrefilterSoundOvl`), the loop with a prefilter on an automaton whose start state is flagged
  special (`ovlLoop_pre`), one call (`ovl_step_pre`), and the call history / iterator
  (`calls_of_step`, `iter_of_step`).

The run with a prefilter and the run without do NOT stay in the same `OState` (after a jump the
position is ahead and the automaton state is a suffix of the other one), so everything is phrased
through `StdP.pending`: the list of matches that the *prefilter-free* calls would report from a
given state.  A call with the prefilter reports the head of that list and leaves a state whose
`pending` is the tail.
-/
namespace AcVerif

/-- What the overlapping loop needs from a prefilter.  The loop only reads `intoOption` of a
candidate: `none` ends the search, `some i` (a `PossibleStartOfMatch(i)` *or* the start of a
confirmed `Match`) lets it jump to `i`. -/
structure PrefilterSoundOvl {α : Type} (P : List (List α)) (pre : Prefilter α) : Prop where
  /-- `None`: no pattern occurs in the span -/
  none_sound : ∀ hay s e, e ≤ hay.length → s ≤ e → (pre hay s e).intoOption = none →
    ∀ m, ¬ IsOcc P hay s e m
  /-- `PossibleStartOfMatch(i)` / `Match(m)` with `i = m.start`: no occurrence of the span starts
  before `i` -/
  some_sound : ∀ hay s e i, e ≤ hay.length → s ≤ e → (pre hay s e).intoOption = some i →
    ∀ m, IsOcc P hay s e m → i ≤ m.start

/-- `PrefilterSoundOvl` for one haystack: `f = pre rawHay` is the prefilter as the loop calls it,
`hay` is the haystack the automaton effectively reads (cf. `PrefilterSoundAt`). -/
structure PrefilterSoundOvlAt {α : Type} (P : List (List α)) (f : Nat → Nat → Cand)
    (hay : List α) : Prop where
  none_sound : ∀ s e, e ≤ hay.length → s ≤ e → (f s e).intoOption = none →
    ∀ m, ¬ IsOcc P hay s e m
  some_sound : ∀ s e i, e ≤ hay.length → s ≤ e → (f s e).intoOption = some i →
    ∀ m, IsOcc P hay s e m → i ≤ m.start

theorem PrefilterSoundOvl.at {α : Type} {P : List (List α)} {pre : Prefilter α}
    (h : PrefilterSoundOvl P pre) (hay : List α) : PrefilterSoundOvlAt P (pre hay) hay :=
  ⟨h.none_sound hay, h.some_sound hay⟩

theorem PrefilterSoundAt.ovl {α : Type} {k : MatchKind} {P : List (List α)}
    {f : Nat → Nat → Cand} {hay : List α} (h : PrefilterSoundAt k P f hay)
    (hm : ∀ s e m, e ≤ hay.length → s ≤ e → f s e = .mtch m →
      ∀ m', IsOcc P hay s e m' → m.start ≤ m'.start) : PrefilterSoundOvlAt P f hay where
  none_sound := by
    intro s e he hse hc
    cases hp : f s e with
    | none => exact h.none_sound s e he hse hp
    | mtch m => rw [hp] at hc; cases hc
    | pos i => rw [hp] at hc; cases hc
  some_sound := by
    intro s e i he hse hc
    cases hp : f s e with
    | none => rw [hp] at hc; cases hc
    | mtch m =>
      rw [hp] at hc
      simp only [Cand.intoOption, Option.some.injEq] at hc
      subst hc
      exact hm s e m he hse hp
    | pos j =>
      rw [hp] at hc
      simp only [Cand.intoOption, Option.some.injEq] at hc
      subst hc
      exact (h.pos_sound s e j he hse hp).2

theorem PrefilterSoundAt.ovl_of_leftmost {α : Type} {k : MatchKind} {P : List (List α)}
    {f : Nat → Nat → Cand} {hay : List α} (h : PrefilterSoundAt k P f hay)
    (hk : k = .lf ∨ k = .ll) : PrefilterSoundOvlAt P f hay := by
  refine h.ovl ?_
  intro s e m he hse hp m' hm'
  have hb := (h.mtch_sound s e m he hse hp).2 m' ⟨hm', fun h => by cases h⟩
  rcases hk with rfl | rfl
  · simp only [better, betterLF] at hb; omega
  · simp only [better, betterLL] at hb; omega

/-- a prefilter that is sound for the non-overlapping search is sound for the overlapping one as
soon as its confirmed matches are leftmost -/
theorem PrefilterSound.ovl {α : Type} {k : MatchKind} {P : List (List α)} {pre : Prefilter α}
    (h : PrefilterSound k P pre)
    (hm : ∀ hay s e m, e ≤ hay.length → s ≤ e → pre hay s e = .mtch m →
      ∀ m', IsOcc P hay s e m' → m.start ≤ m'.start) : PrefilterSoundOvl P pre where
  none_sound := by
    intro hay s e he hse hc
    cases hp : pre hay s e with
    | none => exact h.none_sound hay s e he hse hp
    | mtch m => rw [hp] at hc; cases hc
    | pos i => rw [hp] at hc; cases hc
  some_sound := by
    intro hay s e i he hse hc
    cases hp : pre hay s e with
    | none => rw [hp] at hc; cases hc
    | mtch m =>
      rw [hp] at hc
      simp only [Cand.intoOption, Option.some.injEq] at hc
      subst hc
      exact hm hay s e m he hse hp
    | pos j =>
      rw [hp] at hc
      simp only [Cand.intoOption, Option.some.injEq] at hc
      subst hc
      exact (h.pos_sound hay s e j he hse hp).2

/-- a prefilter sound for a leftmost semantics is sound for the overlapping loop -/
theorem PrefilterSound.ovl_of_leftmost {α : Type} {k : MatchKind} {P : List (List α)}
    {pre : Prefilter α} (h : PrefilterSound k P pre) (hk : k = .lf ∨ k = .ll) :
    PrefilterSoundOvl P pre := by
  refine h.ovl ?_
  intro hay s e m he hse hp m' hm'
  have hb := (h.mtch_sound hay s e m he hse hp).2 m' ⟨hm', fun h => by cases h⟩
  rcases hk with rfl | rfl
  · simp only [better, betterLF] at hb; omega
  · simp only [better, betterLL] at hb; omega

/-- with a single pattern the earliest-ending occurrence is the leftmost one -/
theorem PrefilterSound.ovl_of_single {α : Type} {k : MatchKind} {p : List α} {pre : Prefilter α}
    (h : PrefilterSound k [p] pre) : PrefilterSoundOvl [p] pre := by
  refine h.ovl ?_
  intro hay s e m he hse hp m' hm'
  obtain ⟨hocc, hb⟩ := h.mtch_sound hay s e m he hse hp
  have hb := hb m' ⟨hm', fun h => by cases h⟩
  have len : ∀ x : Mat, IsOcc [p] hay s e x → x.stop = x.start + p.length := by
    intro x ⟨p', h1, _, h3, _, _⟩
    have : p' = p := by
      cases hx : x.pid with
      | zero => rw [hx] at h1; simpa using h1.symm
      | succ n => rw [hx] at h1; simp at h1
    rw [← this]; exact h3
  have l1 := len m hocc.1
  have l2 := len m' hm'
  cases k
  · simp only [better, betterStd] at hb; omega
  · simp only [better, betterLF] at hb; omega
  · simp only [better, betterLL] at hb; omega

end AcVerif

namespace AcVerif.PreP2
open AcVerif AcVerif.PreP AcVerif.StdP
set_option linter.unusedSectionVars false

/-! ## the non-overlapping iterator -/
section Iter
variable {α : Type} [DecidableEq α]

theorem findAt_transparent (k : MatchKind) (P : List (List α)) (hne : ∀ p ∈ P, p ≠ [])
    (pre : Prefilter α) (hs : PrefilterSound k P pre) (sk : StartKind) (i : Input α)
    (he : k = .std ∨ i.earliest = false) (h : supportsAnch sk i.anch) :
    findAt (ideal k P sk true) (some pre) i = findAt (ideal k P sk false) none i := by
  funext st
  unfold findAt
  split
  · rename_i hst
    have hs' : PrefilterSoundAt k P (pre i.hay) (i.hay.map id) := by
      rw [List.map_id]; exact hs.at i.hay
    have key : tryFindFwd (ideal k P sk true) (some pre)
          { i with s := st, valid := ⟨i.valid.1, hst⟩ } =
        tryFindFwd (ideal k P sk false) none { i with s := st, valid := ⟨i.valid.1, hst⟩ } :=
      transparent_comap k P hne pre sk id { i with s := st, valid := ⟨i.valid.1, hst⟩ } hs' he h
    rw [key]
  · rfl

theorem findIter_transparent (k : MatchKind) (P : List (List α)) (hne : ∀ p ∈ P, p ≠ [])
    (pre : Prefilter α) (hs : PrefilterSound k P pre) (sk : StartKind) (i : Input α)
    (he : k = .std ∨ i.earliest = false) (h : supportsAnch sk i.anch) :
    findIter (ideal k P sk true) (some pre) i = findIter (ideal k P sk false) none i := by
  unfold findIter
  rw [findAt_transparent k P hne pre hs sk i he h]
  rfl

end Iter

/-! ## unfolding `ovlLoop` -/
section Loop
variable {σ α : Type}

theorem ovlLoop_done (A : Aut σ α) (hay : List α) (s e : Nat) (he : e ≤ hay.length)
    (pre : Option (Prefilter α)) (anch : Bool) (sid : σ) (at_ : Nat) (h : ¬ at_ < e) :
    ovlLoop A hay s e he pre anch sid at_ =
      { mat := Option.none, id := some sid, at_ := at_, nextIdx := Option.none } := by
  rw [ovlLoop, dif_neg h]

theorem ovlLoop_step (A : Aut σ α) (hay : List α) (s e : Nat) (he : e ≤ hay.length)
    (pre : Option (Prefilter α)) (anch : Bool) (sid : σ) (at_ : Nat) (h : at_ < e) :
    ovlLoop A hay s e he pre anch sid at_ =
      (let sid := A.next anch sid (hay[at_]'(Nat.lt_of_lt_of_le h he))
       if A.isSpecial sid then
         if A.isDead sid then
           { mat := Option.none, id := some sid, at_ := at_, nextIdx := Option.none }
         else if A.isMatch sid then
           let m := getMatch A sid 0 (at_ + 1)
           if !(anch && decide (m.start > s)) then
             { mat := some m, id := some sid, at_ := at_, nextIdx := some 1 }
           else ovlLoop A hay s e he pre anch sid (at_ + 1)
         else
           match pre with
           | some p =>
             match (p hay at_ e).intoOption with
             | Option.none =>
               { mat := Option.none, id := some sid, at_ := at_, nextIdx := Option.none }
             | some i =>
               if i > at_ then ovlLoop A hay s e he pre anch sid i
               else ovlLoop A hay s e he pre anch sid (at_ + 1)
           | Option.none => ovlLoop A hay s e he pre anch sid (at_ + 1)
       else ovlLoop A hay s e he pre anch sid (at_ + 1)) := by
  rw [ovlLoop, dif_pos h]; rfl

/-! ## without a prefilter the extra special flag is invisible -/

theorem ovlS_noPre {A0 A1 : Aut σ α} (h : SameButSpecial A0 A1) (s : Nat) (anch : Bool)
    (rest : List α) : ∀ (sid : σ) (at_ : Nat),
      ovlS A1 s anch sid at_ rest = ovlS A0 s anch sid at_ rest := by
  induction rest with
  | nil => intros; rfl
  | cons c rest ih =>
    intro sid at_
    simp only [ovlS, h.next, h.dead, h.isMatch, h.getMatch, ih]
    cases hd : A0.isDead (A0.next anch sid c) with
    | true =>
      have := h.special (A0.next anch sid c) (by simp [hd])
      simp [this.1, this.2]
    | false =>
      cases hm : A0.isMatch (A0.next anch sid c) with
      | true =>
        have := h.special (A0.next anch sid c) (by simp [hm])
        simp [this.1, this.2]
      | false =>
        simp

theorem ovlLoop_noPre {A0 A1 : Aut σ α} (h : SameButSpecial A0 A1) (hay : List α) (s e : Nat)
    (he : e ≤ hay.length) (anch : Bool) (sid : σ) (at_ : Nat) :
    ovlLoop A1 hay s e he Option.none anch sid at_ =
      ovlLoop A0 hay s e he Option.none anch sid at_ := by
  rw [ovlLoop_eq_ovlS, ovlLoop_eq_ovlS, ovlS_noPre h]

theorem ovlImp_noPre {A0 A1 : Aut σ α} (h : SameButSpecial A0 A1) (hstart : A1.start = A0.start)
    (i : Input α) (st : OState σ) : ovlImp A1 i Option.none st = ovlImp A0 i Option.none st := by
  unfold ovlImp
  simp only [hstart, h.isMatch, h.mpats, h.getMatch, ovlLoop_noPre h]

/-- anchored or empty-span calls never consult the prefilter -/
theorem tryOvl_noPre {A0 A1 : Aut σ α} (h : SameButSpecial A0 A1) (hstart : A1.start = A0.start)
    (hkind : A1.kind = A0.kind) (pre : Option (Prefilter α)) (i : Input α)
    (hi : i.isDone = true ∨ i.anch = true) (st : OState σ) :
    tryFindOverlappingFwd A1 pre i st = tryFindOverlappingFwd A0 Option.none i st := by
  unfold tryFindOverlappingFwd
  simp only [hkind, hstart]
  split
  · rfl
  · split
    · rfl
    · rename_i hd
      have ha : i.anch = true := hi.resolve_left hd
      simp only [ha, if_true]
      exact ovlImp_noPre h hstart i _

theorem calls_of_tryEq (A1 : Aut σ α) (A0 : Aut σ α) (pre1 pre0 : Option (Prefilter α))
    (i : Input α)
    (h : ∀ st, tryFindOverlappingFwd A1 pre1 i st = tryFindOverlappingFwd A0 pre0 i st) :
    ∀ n st, ovlCalls A1 pre1 i n st = ovlCalls A0 pre0 i n st := by
  intro n
  induction n with
  | zero => intro st; rfl
  | succ n ih =>
    intro st
    simp only [ovlCalls, h st]
    cases tryFindOverlappingFwd A0 pre0 i st with
    | error e => rfl
    | ok st' => simp only [ih st']

theorem iter_of_tryEq (A1 : Aut σ α) (A0 : Aut σ α) (pre1 pre0 : Option (Prefilter α))
    (i : Input α)
    (h : ∀ st, tryFindOverlappingFwd A1 pre1 i st = tryFindOverlappingFwd A0 pre0 i st) :
    ∀ n st, ovlIterAux A1 pre1 i n st = ovlIterAux A0 pre0 i n st := by
  intro n
  induction n with
  | zero => intro st; rfl
  | succ n ih =>
    intro st
    simp only [ovlIterAux, h st]
    cases tryFindOverlappingFwd A0 pre0 i st with
    | error e => rfl
    | ok st' =>
      simp only
      cases st'.mat with
      | none => rfl
      | some m => simp only [ih st']

/-! ## from "one call reports the head of `pending`" to the call history -/

theorem calls_of_step {σ1 σ0 : Type} (A1 : Aut σ1 α) (A0 : Aut σ0 α)
    (pre1 pre0 : Option (Prefilter α)) (i : Input α)
    (pend1 : OState σ1 → List Mat) (pend0 : OState σ0 → List Mat)
    (h1 : ∀ st, ∃ st', tryFindOverlappingFwd A1 pre1 i st = .ok st' ∧
      st'.mat = (pend1 st).head? ∧ pend1 st' = (pend1 st).tail)
    (h0 : ∀ st, ∃ st', tryFindOverlappingFwd A0 pre0 i st = .ok st' ∧
      st'.mat = (pend0 st).head? ∧ pend0 st' = (pend0 st).tail) :
    ∀ n st1 st0, pend1 st1 = pend0 st0 →
      ovlCalls A1 pre1 i n st1 = ovlCalls A0 pre0 i n st0 := by
  intro n
  induction n with
  | zero => intros; rfl
  | succ n ih =>
    intro st1 st0 hp
    obtain ⟨st1', e1, m1, t1⟩ := h1 st1
    obtain ⟨st0', e0, m0, t0⟩ := h0 st0
    simp only [ovlCalls, e1, e0]
    rw [m1, m0, hp, ih st1' st0' (by rw [t1, t0, hp])]

theorem iter_of_step {σ1 σ0 : Type} (A1 : Aut σ1 α) (A0 : Aut σ0 α)
    (pre1 pre0 : Option (Prefilter α)) (i : Input α)
    (pend1 : OState σ1 → List Mat) (pend0 : OState σ0 → List Mat)
    (h1 : ∀ st, ∃ st', tryFindOverlappingFwd A1 pre1 i st = .ok st' ∧
      st'.mat = (pend1 st).head? ∧ pend1 st' = (pend1 st).tail)
    (h0 : ∀ st, ∃ st', tryFindOverlappingFwd A0 pre0 i st = .ok st' ∧
      st'.mat = (pend0 st).head? ∧ pend0 st' = (pend0 st).tail) :
    ∀ n st1 st0, pend1 st1 = pend0 st0 →
      ovlIterAux A1 pre1 i n st1 = ovlIterAux A0 pre0 i n st0 := by
  intro n
  induction n with
  | zero => intros; rfl
  | succ n ih =>
    intro st1 st0 hp
    obtain ⟨st1', e1, m1, t1⟩ := h1 st1
    obtain ⟨st0', e0, m0, t0⟩ := h0 st0
    simp only [ovlIterAux, e1, e0]
    rw [m1, m0, hp]
    cases hh : (pend0 st0).head? with
    | none => rfl
    | some m =>
      simp only
      rw [ih st1' st0' (by rw [t1, t0, hp])]

/-! ## the overlapping loop with a prefilter -/

/-- The loop on `A1` (start state `qs` flagged special) consulting the prefilter `p`, from ANY
state and position, reports the first match that the prefilter-free run on `A0` would report from
there, and leaves a state from which the prefilter-free run would report the remaining ones.
`Hnone` / `Hjump` say what the prefilter's verdict means for the prefilter-free run that sits in
the start state. -/
theorem ovlLoop_pre {A0 A1 : Aut σ α} {qs : σ} (hA : StdLike A0) (hF : StartFlagged A0 A1 qs)
    (i : Input α) (q0 : σ) (p : Prefilter α)
    (Hnone : ∀ at_, at_ < i.e → (p i.hay at_ i.e).intoOption = Option.none →
      allRep A0 i.s i.anch qs (at_ + 1) ((i.hay.take i.e).drop (at_ + 1)) = [] ∧
      allRep A0 i.s i.anch qs at_ ((i.hay.take i.e).drop at_) = [])
    (Hjump : ∀ at_ j, at_ < i.e → (p i.hay at_ i.e).intoOption = some j → at_ < j →
      allRep A0 i.s i.anch qs (at_ + 1) ((i.hay.take i.e).drop (at_ + 1)) =
        allRep A0 i.s i.anch qs j ((i.hay.take i.e).drop j)) :
    ∀ (n : Nat) (q : σ) (at_ : Nat), i.e - at_ = n →
      (ovlLoop A1 i.hay i.s i.e i.valid.1 (some p) i.anch q at_).mat =
        (allRep A0 i.s i.anch q at_ ((i.hay.take i.e).drop at_)).head? ∧
      pending A0 i q0 (ovlLoop A1 i.hay i.s i.e i.valid.1 (some p) i.anch q at_) =
        (allRep A0 i.s i.anch q at_ ((i.hay.take i.e).drop at_)).tail := by
  intro n
  induction n using Nat.strongRecOn with
  | _ n ih =>
    intro q at_ hn
    by_cases h : at_ < i.e
    · have IH : ∀ j q', at_ < j →
          (ovlLoop A1 i.hay i.s i.e i.valid.1 (some p) i.anch q' j).mat =
            (allRep A0 i.s i.anch q' j ((i.hay.take i.e).drop j)).head? ∧
          pending A0 i q0 (ovlLoop A1 i.hay i.s i.e i.valid.1 (some p) i.anch q' j) =
            (allRep A0 i.s i.anch q' j ((i.hay.take i.e).drop j)).tail :=
        fun j q' hj => ih (i.e - j) (by omega) q' j rfl
      rw [ovlLoop_step _ _ _ _ _ _ _ _ _ h, drop_take_cons h i.valid.1]
      simp only [allRep, hF.next, hF.dead, hF.isMatch, hF.getMatch]
      generalize A0.next i.anch q (i.hay[at_]'(Nat.lt_of_lt_of_le h i.valid.1)) = q'
      by_cases hq : q' = qs
      · subst hq
        simp only [hF.q0_special, hF.q0_dead, hF.q0_match, if_true, Bool.false_eq_true, if_false,
          repAt_nomatch hA i.s i.anch hF.q0_match, List.nil_append]
        cases hc : (p i.hay at_ i.e).intoOption with
        | none =>
          obtain ⟨h1, h2⟩ := Hnone at_ h hc
          simp only [h1, pending, h2, List.head?_nil, List.tail_nil, and_self]
        | some j =>
          simp only
          split
          · rename_i hj
            rw [Hjump at_ j h hc hj]
            exact IH j _ hj
          · exact IH (at_ + 1) _ (by omega)
      · rw [hF.special1 q' hq, hA.special]
        cases hd : A0.isDead q' with
        | true =>
          simp only [Bool.true_or, if_true, pending]
          rw [drop_take_cons h i.valid.1]
          simp only [allRep]
          have h' := hA.dead_next i.anch q' (i.hay[at_]'(Nat.lt_of_lt_of_le h i.valid.1)) hd
          simp [repAt_dead hA i.s i.anch hd, allRep_dead hA i.s i.anch hd,
            repAt_dead hA i.s i.anch h', allRep_dead hA i.s i.anch h']
        | false =>
          cases hm : A0.isMatch q' with
          | false =>
            simp only [Bool.or_self, Bool.false_eq_true, if_false,
              repAt_nomatch hA i.s i.anch hm, List.nil_append]
            exact IH (at_ + 1) _ (by omega)
          | true =>
            obtain ⟨pid, tl, hp⟩ := mpats_cons_of_match hA hm
            simp only [Bool.false_or, if_true, Bool.false_eq_true, if_false, getMatch_eq, hp,
              List.getD_cons_zero]
            cases hok : okPid A0 i.s i.anch (at_ + 1) pid with
            | true =>
              have : (!(i.anch && decide ((mk A0 (at_ + 1) pid).start > i.s))) = true := hok
              simp [this, repAt, hp, hok, pending]
            | false =>
              have : (!(i.anch && decide ((mk A0 (at_ + 1) pid).start > i.s))) = false := hok
              simp only [this, Bool.false_eq_true, if_false, repAt, hp, hok,
                List.takeWhile_cons_of_neg, List.map_nil, List.nil_append, not_false_eq_true]
              exact IH (at_ + 1) _ (by omega)
    · rw [ovlLoop_done _ _ _ _ _ _ _ _ _ h, drop_take_nil h]
      simp [pending, allRep, drop_take_nil h]

/-- one call with the prefilter, on an unanchored non-empty span: it reports the head of the
prefilter-free `pending` list of its state and leaves a state whose `pending` is the tail -/
theorem ovl_step_pre {A0 A1 : Aut σ α} (hA : StdLike A0) (h : SameButSpecial A0 A1)
    (hk1 : A1.kind = .std) (i : Input α) (p : Prefilter α) {q0 : σ}
    (hq0 : A1.start i.anch = some q0) (hd : i.isDone = false) (hanch : i.anch = false)
    (hL : ∀ q at_,
      (ovlLoop A1 i.hay i.s i.e i.valid.1 (some p) i.anch q at_).mat =
        (allRep A0 i.s i.anch q at_ ((i.hay.take i.e).drop at_)).head? ∧
      pending A0 i q0 (ovlLoop A1 i.hay i.s i.e i.valid.1 (some p) i.anch q at_) =
        (allRep A0 i.s i.anch q at_ ((i.hay.take i.e).drop at_)).tail)
    (st : OState σ) :
    ∃ st', tryFindOverlappingFwd A1 (some p) i st = .ok st' ∧
      st'.mat = (pending A0 i q0 st).head? ∧ pending A0 i q0 st' = (pending A0 i q0 st).tail := by
  have hk : (A1.kind != MatchKind.std) = false := by simp [hk1]
  have h1 : tryFindOverlappingFwd A1 (some p) i st =
      ovlImp A1 i (some p) { st with mat := Option.none } := by
    simp only [tryFindOverlappingFwd, hk, hd, hanch, Bool.false_eq_true, if_false]
  rw [h1]
  obtain ⟨mat, id, at_, nextIdx⟩ := st
  cases id with
  | none =>
    simp only [ovlImp, hq0, h.isMatch, h.mpats, h.getMatch]
    split
    · rename_i hc
      simp only [Bool.and_eq_true, decide_eq_true_eq] at hc
      have hdrop := List.drop_eq_getElem_cons hc.2
      have hget : (A0.mpats q0).getD (nextIdx.getD 0) 0 = (A0.mpats q0)[nextIdx.getD 0] := by
        rw [List.getD_eq_getElem?_getD, List.getElem?_eq_getElem hc.2]; rfl
      refine ⟨_, rfl, ?_, ?_⟩
      · simp only [pending, getMatch_eq, hget]
        rw [hdrop]; rfl
      · simp only [pending, Option.getD_some]
        rw [hdrop]; rfl
    · rename_i hc
      have hnil : (A0.mpats q0).drop (nextIdx.getD 0) = [] := by
        cases hm : A0.isMatch q0 with
        | false =>
          have := hA.isMatch q0
          rw [hm] at this
          have h : A0.mpats q0 = [] := by simpa using this.symm
          simp [h]
        | true =>
          simp only [hm, Bool.true_and, decide_eq_true_eq] at hc
          exact List.drop_eq_nil_of_le (by omega)
      refine ⟨_, rfl, ?_⟩
      have := hL q0 i.s
      simpa [pending, hnil] using this
  | some q =>
    cases nextIdx with
    | none =>
      simp only [ovlImp]
      refine ⟨_, rfl, ?_⟩
      have := hL q at_
      simpa [pending] using this
    | some k =>
      simp only [ovlImp, h.mpats, h.getMatch]
      split
      · rename_i hc
        simp only [Bool.and_eq_true, decide_eq_true_eq] at hc
        have hdrop := List.drop_eq_getElem_cons hc.1
        have hget : (A0.mpats q).getD k 0 = (A0.mpats q)[k] := by
          rw [List.getD_eq_getElem?_getD, List.getElem?_eq_getElem hc.1]; rfl
        have hok : okPid A0 i.s i.anch (at_ + 1) (A0.mpats q)[k] = true := by
          have := hc.2
          rw [getMatch_eq, hget] at this
          exact this
        refine ⟨_, rfl, ?_, ?_⟩
        · simp only [pending, getMatch_eq, hget]
          rw [hdrop, List.takeWhile_cons_of_pos hok]; rfl
        · simp only [pending]
          rw [hdrop, List.takeWhile_cons_of_pos hok]; rfl
      · rename_i hc
        have hnil : (((A0.mpats q).drop k).takeWhile (okPid A0 i.s i.anch (at_ + 1))) = [] := by
          by_cases hlt : k < (A0.mpats q).length
          · have hget : (A0.mpats q).getD k 0 = (A0.mpats q)[k] := by
              rw [List.getD_eq_getElem?_getD, List.getElem?_eq_getElem hlt]; rfl
            have hok : okPid A0 i.s i.anch (at_ + 1) (A0.mpats q)[k] = false := by
              simp only [hlt, decide_true, Bool.true_and, getMatch_eq, hget] at hc
              simpa [okPid] using hc
            rw [List.drop_eq_getElem_cons hlt, List.takeWhile_cons_of_neg (by simp [hok])]
          · simp [List.drop_eq_nil_of_le (Nat.le_of_not_lt hlt)]
        refine ⟨_, rfl, ?_⟩
        have := hL q (at_ + 1)
        simpa [pending, hnil] using this

end Loop

end AcVerif.PreP2
