import AcVerif.Proofs.CompilerFoldTrie
/-!
# L1c with `fold = true`, part 2: the start states, and the data side of the failure phase
-/
namespace AcVerif.L1cFoldP
open AcVerif AcVerif.CNfa AcVerif.L1cP AcVerif.MiscP AcVerif.LmP

/-- what is known of the automaton when the failure phase begins (`fold = true`): the edge to
the child `u ++ [foldByte b]` is taken on `b` -/
structure PBf (Q : PatSet UInt8) (L : List (List UInt8)) (n : CNfa) : Prop where
  size : n.size = L.length + 4
  nodup : L.Nodup
  mem : ∀ v, v ∈ L ↔ v ≠ [] ∧ isPref Q v = true
  folded : ∀ v, v ∈ L → fs v = v
  goto_in : ∀ u b, (u = [] ∨ u ∈ L) → u ++ [foldByte b] ∈ L →
    follow n (nu L u) b = nu L (u ++ [foldByte b])
  goto_out : ∀ u b, u ∈ L → u ++ [foldByte b] ∉ L → follow n (nu L u) b = FAIL
  goto_root : ∀ b, [foldByte b] ∉ L → follow n SU b = SU
  goto_dead : ∀ b, follow n DEAD b = DEAD
  goto_sa : ∀ b, follow n SA b = if [foldByte b] ∈ L then nu L [foldByte b] else FAIL
  sorted : ∀ sid, Sorted (n.getD sid {}).trans
  nofail : ∀ u, u ∈ L → ∀ x ∈ (n.getD (nu L u) {}).trans, x.2 ≠ FAIL
  full : ∀ b, ∃ t, (b, t) ∈ (n.getD SU {}).trans
  mats : ∀ u, (u = [] ∨ u ∈ L) → (n.getD (nu L u) {}).matches_ = idsOf Q u
  mats_dead : (n.getD DEAD {}).matches_ = []
  mats_sa : (n.getD SA {}).matches_ = idsOf Q []
  fail : ∀ u, u ∈ L → (n.getD (nu L u) {}).fail = SU
  depth : ∀ u, u ∈ L → u.length + 3 ≤ nu L u

namespace PBf
variable {Q : PatSet UInt8} {L : List (List UInt8)} {n : CNfa}

theorem nil_not_mem (h : PBf Q L n) : [] ∉ L := fun hm => ((h.mem []).1 hm).1 rfl

theorem closed (h : PBf Q L n) {v : List UInt8} {b : UInt8} (hm : v ++ [b] ∈ L) :
    v = [] ∨ v ∈ L := by
  by_cases h0 : v = []
  · exact Or.inl h0
  · right
    rw [h.mem] at hm ⊢
    exact ⟨h0, LmP.isPref_of_append hm.2⟩

theorem ne_nil (h : PBf Q L n) {u : List UInt8} (hu : u ∈ L) : u ≠ [] :=
  fun e => h.nil_not_mem (e ▸ hu)

theorem nu_lt_size (h : PBf Q L n) {u : List UInt8} (hu : u = [] ∨ u ∈ L) : nu L u < n.size := by
  rw [h.size]
  rcases hu with h0 | hm
  · subst h0; simp [SU]
  · exact nu_lt hm (h.ne_nil hm)

theorem len_lt_size (h : PBf Q L n) {u : List UInt8} (hu : u = [] ∨ u ∈ L) :
    u.length + 3 < n.size := by
  rcases hu with h0 | hm
  · subst h0; rw [h.size]; simp
  · have h1 := h.depth u hm
    have h2 := h.nu_lt_size (Or.inr hm)
    omega

theorem lsp_mem (h : PBf Q L n) (w : List UInt8) : lsp Q w = [] ∨ lsp Q w ∈ L := by
  by_cases h0 : lsp Q w = []
  · exact Or.inl h0
  · exact Or.inr ((h.mem _).2 ⟨h0, LmP.lsp_isPref h0⟩)

theorem isPref_iff_mem (h : PBf Q L n) (u : List UInt8) (b : UInt8) :
    isPref Q (u ++ [b]) = true ↔ u ++ [b] ∈ L := by
  rw [h.mem]; simp

/-- the last byte of a node's string is a folded byte -/
theorem last_folded (h : PBf Q L n) {u : List UInt8} {b : UInt8} (hm : u ++ [b] ∈ L) :
    foldByte b = b := by
  have := h.folded _ hm
  simp only [fs, List.map_append, List.map_singleton] at this
  have := (List.append_inj' this rfl).2
  simpa using this

/-- entries of the transition list of a trie node lead to its children -/
theorem child_of_mem (h : PBf Q L n) {u : List UInt8} (hu : u ∈ L) {x : UInt8 × Nat}
    (hx : x ∈ (n.getD (nu L u) {}).trans) :
    u ++ [foldByte x.1] ∈ L ∧ x.2 = nu L (u ++ [foldByte x.1]) := by
  obtain ⟨b, t⟩ := x
  have h1 : follow n (nu L u) b = t := by rw [follow_eq]; exact lookup_of_mem (h.sorted _) hx
  have h2 : t ≠ FAIL := h.nofail u hu _ hx
  by_cases hin : u ++ [foldByte b] ∈ L
  · refine ⟨hin, ?_⟩
    rw [← h1]; exact h.goto_in u b (Or.inr hu) hin
  · rw [h.goto_out u b hu hin] at h1
    exact absurd h1.symm h2

/-- every child is in the transition list (under its own, folded, byte) -/
theorem mem_of_child (h : PBf Q L n) {u : List UInt8} (hu : u = [] ∨ u ∈ L) {b : UInt8}
    (hin : u ++ [b] ∈ L) : (b, nu L (u ++ [b])) ∈ (n.getD (nu L u) {}).trans := by
  have hb := h.last_folded hin
  have hin' : u ++ [foldByte b] ∈ L := by rw [hb]; exact hin
  have := mem_of_lookup (h.goto_in u b hu hin') (nu_ne_fail _ _)
  rw [hb] at this; exact this

/-- entries of the start state's transition list -/
theorem root_of_mem (h : PBf Q L n) {x : UInt8 × Nat} (hx : x ∈ (n.getD SU {}).trans) :
    ([foldByte x.1] ∈ L ∧ x.2 = nu L [foldByte x.1]) ∨ ([foldByte x.1] ∉ L ∧ x.2 = SU) := by
  obtain ⟨b, t⟩ := x
  have h1 : follow n SU b = t := by rw [follow_eq]; exact lookup_of_mem (h.sorted _) hx
  by_cases hin : [foldByte b] ∈ L
  · left
    refine ⟨hin, ?_⟩
    have := h.goto_in [] b (Or.inl rfl) hin
    rw [nu_nil] at this
    rw [← h1]; exact this
  · right; exact ⟨hin, by rw [← h1]; exact h.goto_root b hin⟩

end PBf

theorem PBf_startPhase {n : CNfa} {L : List (List UInt8)} {Q : PatSet UInt8} (h : TIf n L Q []) :
    PBf Q L (startPhase n) := by
  have h4 : 4 ≤ n.size := by rw [h.size]; omega
  have hget := getD_startPhase n h4
  have hnu : ∀ u, u ∈ L → nu L u ≠ SU ∧ nu L u ≠ SA := by
    intro u hu
    have := nu_ge (L := L) (fun e => h.nil_not_mem (e ▸ hu))
    simp only [SU, SA]; omega
  have hnode : ∀ u, u ∈ L → (startPhase n).getD (nu L u) {} = n.getD (nu L u) {} := by
    intro u hu
    rw [hget, if_neg (hnu u hu).1, if_neg (hnu u hu).2]
  have hmemL : ∀ v, v ∈ L ↔ v ≠ [] ∧ isPref Q v = true := by
    intro v
    rw [h.mem v]
    constructor
    · rintro ⟨h0, hp | hp⟩
      · exact ⟨h0, hp⟩
      · exact absurd (List.prefix_nil.1 hp) h0
    · rintro ⟨h0, hp⟩; exact ⟨h0, Or.inl hp⟩
  have hSU : (startPhase n).getD SU {} = { n.getD SU {} with
      trans := (n.getD SU {}).trans.map fun x => (x.1, if x.2 == FAIL then SU else x.2) } := by
    rw [hget, if_pos rfl]
  have hSA : (startPhase n).getD SA {} =
      { trans := (n.getD SU {}).trans, fail := DEAD,
        matches_ := (n.getD SA {}).matches_ ++ (n.getD SU {}).matches_ } := by
    rw [hget, if_neg (by simp [SA, SU]), if_pos rfl]
  have hfolSU : ∀ b, follow (startPhase n) SU b =
      if follow n SU b = FAIL then SU else follow n SU b := by
    intro b
    rw [follow_eq, hSU]
    show lookup ((n.getD SU {}).trans.map fun x => (x.1, if x.2 == FAIL then SU else x.2)) b = _
    rw [lookup_map (fun t => if t == FAIL then SU else t) _ b (h.full b), ← follow_eq]
    by_cases e : follow n SU b = FAIL
    · simp [e]
    · simp [e]
  have hmSU := h.mats [] (Or.inl rfl)
  rw [nu_nil] at hmSU
  refine
    { size := by rw [size_startPhase]; exact h.size, nodup := h.nodup, mem := hmemL,
      folded := h.folded,
      goto_in := ?_, goto_out := ?_, goto_root := ?_, goto_dead := ?_, goto_sa := ?_,
      sorted := ?_, nofail := ?_, full := ?_, mats := ?_, mats_dead := ?_, mats_sa := ?_,
      fail := ?_, depth := h.depth }
  · intro u b hu hin
    rcases hu with h0 | hm
    · subst h0
      have := h.goto_in [] b (Or.inl rfl) hin
      rw [nu_nil] at this ⊢
      rw [hfolSU, this, if_neg (nu_ne_fail _ _)]
    · rw [follow_eq, hnode u hm, ← follow_eq]; exact h.goto_in u b (Or.inr hm) hin
  · intro u b hu hout
    rw [follow_eq, hnode u hu, ← follow_eq]; exact h.goto_out u b (Or.inr hu) hout
  · intro b hout
    have := h.goto_out [] b (Or.inl rfl) hout
    rw [nu_nil] at this
    rw [hfolSU, this, if_pos rfl]
  · intro b
    rw [follow_eq]
    have : (startPhase n).getD DEAD {} = n.getD 0 {} := by
      rw [hget, if_neg (by simp [DEAD, SU]), if_neg (by simp [DEAD, SA])]; rfl
    rw [this, h.s0]; exact lookup_fullTrans DEAD b
  · intro b
    rw [follow_eq, hSA]
    show lookup (n.getD SU {}).trans b = _
    rw [← follow_eq]
    by_cases hin : [foldByte b] ∈ L
    · have := h.goto_in [] b (Or.inl rfl) hin
      rw [nu_nil] at this
      rw [if_pos hin, this]; rfl
    · have := h.goto_out [] b (Or.inl rfl) hin
      rw [nu_nil] at this
      rw [if_neg hin, this]
  · intro sid
    rw [hget]
    by_cases e : sid = SU
    · rw [if_pos e]
      exact sorted_map (fun t => if t == FAIL then SU else t) (h.sorted SU)
    · rw [if_neg e]
      by_cases e' : sid = SA
      · rw [if_pos e']; exact h.sorted SU
      · rw [if_neg e']; exact h.sorted sid
  · intro u hu x hx
    rw [hnode u hu] at hx; exact h.nofail u hu x hx
  · intro b
    obtain ⟨t, ht⟩ := h.full b
    rw [hSU]
    exact ⟨if t == FAIL then SU else t, List.mem_map.2 ⟨(b, t), ht, rfl⟩⟩
  · intro u hu
    rcases hu with h0 | hm
    · subst h0; rw [nu_nil, hSU]; exact hmSU
    · rw [hnode u hm]; exact h.mats u (Or.inr hm)
  · have : (startPhase n).getD DEAD {} = n.getD 0 {} := by
      rw [hget, if_neg (by simp [DEAD, SU]), if_neg (by simp [DEAD, SA])]; rfl
    rw [this, h.s0]
  · rw [hSA]
    show (n.getD SA {}).matches_ ++ (n.getD SU {}).matches_ = _
    have : n.getD SA {} = n.getD 3 {} := rfl
    rw [this, h.s3, hmSU]; rfl
  · intro u hu
    rw [hnode u hu]; exact h.fail _

/-! ## the data invariant `FI` (re-used from the `fold = false` development) over `PBf` -/

namespace FIf
variable {k : MatchKind} {Q : PatSet UInt8} {L : List (List UInt8)} {n0 n : CNfa}
  {pend : List (List UInt8)}

theorem init (hB : PBf Q L n0) : FI k Q L n0 n0 L :=
  { size := rfl, trans := fun _ => rfl, keep := fun _ _ => rfl,
    todo := fun u hu _ => ⟨hB.fail u hu, hB.mats u (Or.inr hu)⟩,
    done := fun _ hu hn => absurd hu hn }

theorem mats_root (hB : PBf Q L n0) (h : FI k Q L n0 n pend) :
    (n.getD SU {}).matches_ = Ideal.out k Q (.at []) := by
  rw [h.keep SU (by simp [SU]), out_nil]
  have := hB.mats [] (Or.inl rfl)
  rw [nu_nil] at this; exact this

theorem mats_dead (hB : PBf Q L n0) (h : FI k Q L n0 n pend) : (n.getD DEAD {}).matches_ = [] := by
  rw [h.keep DEAD (by simp [DEAD])]; exact hB.mats_dead

/-- match list of a finished state, given as a model state -/
theorem mats_sidOf (hB : PBf Q L n0) (h : FI k Q L n0 n pend) (q : St UInt8)
    (hq : match q with | .dead => True | .at v => v = [] ∨ (v ∈ L ∧ v ∉ pend)) :
    (n.getD (sidOf L q) {}).matches_ = Ideal.out k Q q := by
  cases q with
  | dead => exact mats_dead hB h
  | «at» v =>
    rcases hq with h0 | ⟨hv, hvp⟩
    · subst h0; simp only [sidOf, nu_nil]; exact mats_root hB h
    · exact (h.done v hv hvp).2

/-- finishing one pending node -/
theorem update (hB : PBf Q L n0) (h : FI k Q L n0 n pend) (hnd : pend.Nodup) {c : List UInt8}
    (hc : c ∈ L) {n' : CNfa} (hsz : n'.size = n.size)
    (hoth : ∀ sid, sid ≠ nu L c → n'.getD sid {} = n.getD sid {})
    (htr : (n'.getD (nu L c) {}).trans = (n.getD (nu L c) {}).trans)
    (hf : (n'.getD (nu L c) {}).fail = sidOf L (finalFail k Q c))
    (hm : (n'.getD (nu L c) {}).matches_ = Ideal.out k Q (.at c)) :
    FI k Q L n0 n' (pend.erase c) := by
  have hc4 : 4 ≤ nu L c := nu_ge (hB.ne_nil hc)
  have hne : ∀ u, u ∈ L → u ≠ c → nu L u ≠ nu L c := fun u hu huc e =>
    huc (nu_inj (Or.inr hu) (Or.inr hc) e)
  refine { size := hsz.trans h.size, trans := ?_, keep := ?_, todo := ?_, done := ?_ }
  · intro sid
    by_cases e : sid = nu L c
    · rw [e, htr, h.trans]
    · rw [hoth sid e, h.trans]
  · intro sid hs
    rw [hoth sid (by omega)]; exact h.keep sid hs
  · intro u hu hup
    have huc : u ≠ c := fun e => by
      rw [e] at hup; exact absurd hup (by rw [hnd.mem_erase_iff]; simp)
    rw [hoth _ (hne u hu huc)]
    exact h.todo u hu ((List.mem_erase_of_ne huc).1 hup)
  · intro u hu hup
    by_cases huc : u = c
    · subst huc; exact ⟨hf, hm⟩
    · rw [hoth _ (hne u hu huc)]
      exact h.done u hu (fun hp => hup ((List.mem_erase_of_ne huc).2 hp))

end FIf

section
variable {k : MatchKind} {Q : PatSet UInt8} {L : List (List UInt8)} {n0 n : CNfa}
  {pend : List (List UInt8)}

/-- following failure links from a finished node until a transition on `b` exists computes the
model's transition on `foldByte b` -/
theorem chase_spec_f (hB : PBf Q L n0) (h : FI k Q L n0 n pend) (hk : k = .std ∨ idsOf Q [] = [])
    (b : UInt8) :
    ∀ (m : Nat) (w : List UInt8), w.length ≤ m → (w = [] ∨ w ∈ L) →
      (∀ v, v ∈ L → v.length ≤ w.length → v ∉ pend) → ∀ fuel, w.length < fuel →
      follow n (chaseFail n b fuel (nu L w)) b =
        sidOf L (Ideal.next k Q false (.at w) (foldByte b)) := by
  intro m
  induction m with
  | zero =>
    intro w hw _ _ fuel _
    have : w = [] := List.eq_nil_of_length_eq_zero (by omega)
    subst this
    by_cases hp : isPref Q ([] ++ [foldByte b]) = true
    · have hin := (hB.isPref_iff_mem [] _).1 hp
      have hf := hB.goto_in [] b (Or.inl rfl) hin
      rw [← h.follow_eq0] at hf
      rw [chaseFail_stop _ _ _ _ (by rw [hf]; exact nu_ne_fail _ _), hf, next_goto k Q [] _ hp]
      rfl
    · have hout : [foldByte b] ∉ L := fun hin => hp ((hB.isPref_iff_mem [] _).2 hin)
      have hf := hB.goto_root b hout
      rw [← h.follow_eq0] at hf
      rw [nu_nil, chaseFail_stop _ _ _ _ (by rw [hf]; simp [SU, FAIL]), hf,
        next_root k Q _ hp hk]
      simp [sidOf]
  | succ m ih =>
    intro w hw hwL hlow fuel hfuel
    by_cases hp : isPref Q (w ++ [foldByte b]) = true
    · have hin := (hB.isPref_iff_mem w _).1 hp
      have hf := hB.goto_in w b hwL hin
      rw [← h.follow_eq0] at hf
      rw [chaseFail_stop _ _ _ _ (by rw [hf]; exact nu_ne_fail _ _), hf, next_goto k Q w _ hp]
      rfl
    · cases w with
      | nil =>
        have hout : [foldByte b] ∉ L := fun hin => hp ((hB.isPref_iff_mem [] _).2 hin)
        have hf := hB.goto_root b hout
        rw [← h.follow_eq0] at hf
        rw [nu_nil, chaseFail_stop _ _ _ _ (by rw [hf]; simp [SU, FAIL]), hf,
          next_root k Q _ hp hk]
        simp [sidOf]
      | cons a t =>
        have hwL' : a :: t ∈ L := hwL.resolve_left (List.cons_ne_nil _ _)
        have hout : a :: t ++ [foldByte b] ∉ L := fun hin => hp ((hB.isPref_iff_mem _ _).2 hin)
        have hf := hB.goto_out _ b hwL' hout
        rw [← h.follow_eq0] at hf
        obtain ⟨fuel', rfl⟩ : ∃ f', fuel = f' + 1 := ⟨fuel - 1, by omega⟩
        rw [chaseFail_go _ _ _ _ hf, (h.done _ hwL' (hlow _ hwL' (Nat.le_refl _))).1,
          next_unfold k Q a t _ hp]
        rcases finalFail_len k Q a t with e | e
        · rw [e]
          have hd : follow n DEAD b = DEAD := by rw [h.follow_eq0]; exact hB.goto_dead b
          show follow n (chaseFail n b fuel' DEAD) b = DEAD
          rw [chaseFail_stop _ _ _ _ (by rw [hd]; simp [DEAD, FAIL]), hd]
        · rw [e]
          have hl := lsp_length_le Q t
          simp only [List.length_cons] at hw hfuel hlow
          exact ih (lsp Q t) (by omega) (hB.lsp_mem t)
            (fun v hv hvl => hlow v hv (by omega)) fuel' (by omega)

end

end AcVerif.L1cFoldP
