import AcVerif.Proofs.AlphabetTrie
/-!
# L1-alphabet proofs, part 4: the invariant of the byte set along `build_trie`
-/
namespace AcVerif.AlphaP
open AcVerif AcVerif.CNfa AcVerif.Alphabet AcVerif.L1cP AcVerif.L1cFoldP AcVerif.MiscP

/-! ## edges, and the shape of the trie while it is built -/

/-- some edge of the trie, leaving the root or a node `≥ 4`, is labelled `c` (the root holds all
256 entries; those still pointing to `FAIL` are not edges) -/
def Edge (n : CNfa) (c : UInt8) : Prop :=
  ∃ sid t, (sid = SU ∨ 4 ≤ sid) ∧ t ≠ FAIL ∧ (c, t) ∈ (n.getD sid {}).trans

/-- targets while the trie is built: nodes point to nodes, the root to nodes or to `FAIL` -/
structure TW (n : CNfa) : Prop where
  size : 4 ≤ n.size
  node : ∀ sid, 4 ≤ sid → ∀ x, x ∈ (n.getD sid {}).trans → 4 ≤ x.2 ∧ x.2 < n.size
  root : ∀ x, x ∈ (n.getD SU {}).trans → x.2 = FAIL ∨ (4 ≤ x.2 ∧ x.2 < n.size)

theorem TW.next {n : CNfa} (h : TW n) {prev : Nat} (hp : prev = SU ∨ 4 ≤ prev) {x : UInt8 × Nat}
    (hx : x ∈ (n.getD prev {}).trans) (hf : x.2 ≠ FAIL) : 4 ≤ x.2 ∧ x.2 < n.size := by
  rcases hp with e | e
  · subst e
    rcases h.root x hx with e' | e'
    · exact absurd e' hf
    · exact e'
  · exact h.node prev e x hx

theorem mem_insertTrans_of_mem {b : UInt8} {t : Nat} {l : List (UInt8 × Nat)} {x : UInt8 × Nat}
    (h : x ∈ l) : x ∈ insertTrans b t l ∨ x.1 = b := by
  induction l with
  | nil => simp at h
  | cons y rest ih =>
    obtain ⟨d, s⟩ := y
    simp only [insertTrans]
    split
    · exact Or.inl (List.mem_cons_of_mem _ h)
    · split
      · rename_i hbd
        have hbd : b = d := by simpa using hbd
        rcases List.mem_cons.1 h with e | e
        · right; rw [e, hbd]
        · exact Or.inl (List.mem_cons_of_mem _ e)
      · rcases List.mem_cons.1 h with e | e
        · exact Or.inl (e ▸ List.mem_cons_self)
        · rcases ih e with e' | e'
          · exact Or.inl (List.mem_cons_of_mem _ e')
          · exact Or.inr e'

/-- the transition list of `prev` after the allocation -/
def extTrans (fold : Bool) (b : UInt8) (t : Nat) (l : List (UInt8 × Nat)) : List (UInt8 × Nat) :=
  if fold then insertTrans (oppositeAsciiCase b) t (insertTrans b t l) else insertTrans b t l

theorem getD_ext (fold : Bool) (n : CNfa) (prev : Nat) (b : UInt8) (hp : prev < n.size)
    (sid : Nat) :
    (ext fold n prev b).getD sid {} =
      if sid = prev then
        { n.getD prev {} with trans := extTrans fold b n.size (n.getD prev {}).trans }
      else n.getD sid {} := by
  cases fold with
  | false => exact getD_extend n prev b hp sid
  | true => exact getD_extend2 n prev b hp sid

theorem size_ext (fold : Bool) (n : CNfa) (prev : Nat) (b : UInt8) :
    (ext fold n prev b).size = n.size + 1 := by
  cases fold <;> simp [ext, addTransition, Array.size_modify, Array.size_push]

theorem mem_extTrans {fold : Bool} {b : UInt8} {t : Nat} {l : List (UInt8 × Nat)}
    {x : UInt8 × Nat} (h : x ∈ extTrans fold b t l) :
    x = (b, t) ∨ (fold = true ∧ x = (oppositeAsciiCase b, t)) ∨ x ∈ l := by
  cases fold with
  | false => rcases mem_insertTrans h with e | e
             · exact Or.inl e
             · exact Or.inr (Or.inr e)
  | true =>
    rcases mem_insertTrans h with e | e
    · exact Or.inr (Or.inl ⟨rfl, e⟩)
    · rcases mem_insertTrans e with e' | e'
      · exact Or.inl e'
      · exact Or.inr (Or.inr e')

theorem extTrans_self (fold : Bool) (b : UInt8) (t : Nat) (l : List (UInt8 × Nat)) :
    (b, t) ∈ extTrans fold b t l := by
  cases fold with
  | false => exact mem_insertTrans_self b t l
  | true =>
    rcases mem_insertTrans_of_mem (b := oppositeAsciiCase b) (t := t)
      (mem_insertTrans_self b t l) with e | e
    · exact e
    · have e : b = oppositeAsciiCase b := e
      have := mem_insertTrans_self (oppositeAsciiCase b) t (insertTrans b t l)
      show (b, t) ∈ insertTrans (oppositeAsciiCase b) t (insertTrans b t l)
      rw [← e] at this ⊢
      exact this

theorem extTrans_opp (b : UInt8) (t : Nat) (l : List (UInt8 × Nat)) :
    (oppositeAsciiCase b, t) ∈ extTrans true b t l :=
  mem_insertTrans_self _ _ _

theorem extTrans_of_mem {fold : Bool} {b : UInt8} {t : Nat} {l : List (UInt8 × Nat)}
    {x : UInt8 × Nat} (h : x ∈ l) :
    x ∈ extTrans fold b t l ∨ x.1 = b ∨ (fold = true ∧ x.1 = oppositeAsciiCase b) := by
  cases fold with
  | false =>
    rcases mem_insertTrans_of_mem (b := b) (t := t) h with e | e
    · exact Or.inl e
    · exact Or.inr (Or.inl e)
  | true =>
    rcases mem_insertTrans_of_mem (b := b) (t := t) h with e | e
    · rcases mem_insertTrans_of_mem (b := oppositeAsciiCase b) (t := t) e with e' | e'
      · exact Or.inl e'
      · exact Or.inr (Or.inr ⟨rfl, e'⟩)
    · exact Or.inr (Or.inl e)

theorem FAIL_ne_size {n : CNfa} (h : TW n) : n.size ≠ FAIL := by
  have := h.size; simp only [FAIL]; omega

/-- the edges after the allocation of a node -/
theorem Edge_ext {fold : Bool} {n : CNfa} (h : TW n) {prev : Nat} (hp : prev = SU ∨ 4 ≤ prev)
    (hlt : prev < n.size) (b c : UInt8) :
    Edge (ext fold n prev b) c ↔
      Edge n c ∨ c = b ∨ (fold = true ∧ c = oppositeAsciiCase b) := by
  have hget := getD_ext fold n prev b hlt
  constructor
  · rintro ⟨sid, t, hs, ht, hm⟩
    rw [hget] at hm
    by_cases e : sid = prev
    · rw [if_pos e] at hm
      rcases mem_extTrans hm with e1 | ⟨hf, e1⟩ | e1
      · exact Or.inr (Or.inl (Prod.mk.inj e1).1)
      · exact Or.inr (Or.inr ⟨hf, (Prod.mk.inj e1).1⟩)
      · exact Or.inl ⟨prev, t, hp, ht, e1⟩
    · rw [if_neg e] at hm
      exact Or.inl ⟨sid, t, hs, ht, hm⟩
  · rintro (⟨sid, t, hs, ht, hm⟩ | e | ⟨hf, e⟩)
    · by_cases e : sid = prev
      · subst e
        rcases extTrans_of_mem (fold := fold) (b := b) (t := n.size) hm with e1 | e1 | ⟨hf, e1⟩
        · exact ⟨sid, t, hs, ht, by rw [hget, if_pos rfl]; exact e1⟩
        · have e1 : c = b := e1
          subst e1
          exact ⟨sid, n.size, hs, FAIL_ne_size h, by
            rw [hget, if_pos rfl]; exact extTrans_self fold c n.size _⟩
        · have e1 : c = oppositeAsciiCase b := e1
          subst e1; subst hf
          exact ⟨sid, n.size, hs, FAIL_ne_size h, by
            rw [hget, if_pos rfl]; exact extTrans_opp b n.size _⟩
      · exact ⟨sid, t, hs, ht, by rw [hget, if_neg e]; exact hm⟩
    · subst e
      exact ⟨prev, n.size, hp, FAIL_ne_size h, by
        rw [hget, if_pos rfl]; exact extTrans_self fold c n.size _⟩
    · subst e; subst hf
      exact ⟨prev, n.size, hp, FAIL_ne_size h, by
        rw [hget, if_pos rfl]; exact extTrans_opp b n.size _⟩

theorem TW_ext {fold : Bool} {n : CNfa} (h : TW n) {prev : Nat}
    (hlt : prev < n.size) (b : UInt8) : TW (ext fold n prev b) := by
  have hget := getD_ext fold n prev b hlt
  have hsz := size_ext fold n prev b
  have h4 := h.size
  have key : ∀ sid x, x ∈ ((ext fold n prev b).getD sid {}).trans →
      x.2 = n.size ∨ x ∈ (n.getD sid {}).trans := by
    intro sid x hx
    rw [hget] at hx
    by_cases e : sid = prev
    · rw [if_pos e] at hx
      rcases mem_extTrans hx with e1 | ⟨_, e1⟩ | e1
      · left; rw [e1]
      · left; rw [e1]
      · right; rw [e]; exact e1
    · rw [if_neg e] at hx; exact Or.inr hx
  refine ⟨by omega, ?_, ?_⟩
  · intro sid hs x hx
    rcases key sid x hx with e | e
    · omega
    · have := h.node sid hs x e; omega
  · intro x hx
    rcases key SU x hx with e | e
    · right; omega
    · rcases h.root x e with e' | e'
      · exact Or.inl e'
      · right; omega

/-! ## once a node is allocated the pattern cannot be skipped any more -/

/-- a node without transitions and without matches -/
def Fresh (n : CNfa) (p : Nat) : Prop :=
  (n.getD p {}).trans = [] ∧ (n.getD p {}).matches_ = []

theorem fresh_ext (fold : Bool) (n : CNfa) (prev : Nat) (b : UInt8) (hlt : prev < n.size) :
    Fresh (ext fold n prev b) n.size := by
  unfold Fresh
  rw [getD_ext fold n prev b hlt, if_neg (by omega), getD_of_size_le _ (Nat.le_refl _)]
  exact ⟨rfl, rfl⟩

theorem addPatternBS_fresh (lf fold : Bool) : ∀ (pat : List UInt8) (n : CNfa) (S : ByteClassSet)
    (prev : Nat) (sm : Bool), prev < n.size → Fresh n prev → (lf && sm) = false →
    (addPatternBS lf fold n S prev sm pat).1 ≠ none := by
  intro pat
  induction pat with
  | nil => intro n S prev sm _ _ _; rw [addPatternBS_nil]; simp
  | cons b rest ih =>
    intro n S prev sm hlt hf hsm
    have him : isMatch n prev = false := by rw [isMatch_eq, hf.2]; rfl
    have hfo : follow n prev b = FAIL := by rw [follow_eq, hf.1]; rfl
    rw [addPatternBS_cons, him, Bool.or_false, if_neg (by rw [hsm]; simp),
      if_neg (fun hh => hh hfo)]
    exact ih _ _ _ _ (by rw [size_ext]; omega) (fresh_ext fold n prev b hlt) hsm

/-! ## the invariant of the byte set -/

/-- the byte set holds exactly the marks of the edge bytes; when folding, the edge bytes are
closed under `opposite_ascii_case` -/
structure BSInv (fold : Bool) (n : CNfa) (S : ByteClassSet) : Prop where
  marks : ∀ m, S.set.contains m = true ↔ ∃ c, Edge n c ∧ Mark c m
  closed : fold = true → ∀ c, Edge n c → Edge n (oppositeAsciiCase c)

theorem contains_markByte (fold : Bool) (S : ByteClassSet) (b m : UInt8) :
    (markByte fold S b).set.contains m = true ↔
      S.set.contains m = true ∨ Mark b m ∨ (fold = true ∧ Mark (oppositeAsciiCase b) m) := by
  unfold markByte
  cases fold with
  | false => simp only [Bool.false_eq_true, if_false, false_and, or_false]; exact contains_setRange S b m
  | true =>
    simp only [if_true, true_and]
    rw [contains_setRange, contains_setRange, or_assoc]

/-- marking a byte that is an edge already -/
theorem BSInv.mark_edge {fold : Bool} {n : CNfa} {S : ByteClassSet} (h : BSInv fold n S)
    {b : UInt8} (hb : Edge n b) : BSInv fold n (markByte fold S b) := by
  refine ⟨fun m => ?_, h.closed⟩
  rw [contains_markByte, h.marks]
  constructor
  · rintro (e | e | ⟨hf, e⟩)
    · exact e
    · exact ⟨b, hb, e⟩
    · exact ⟨_, h.closed hf b hb, e⟩
  · intro e; exact Or.inl e

/-- marking a byte whose edge(s) are created -/
theorem BSInv.mark_new {fold : Bool} {n n' : CNfa} {S : ByteClassSet} (h : BSInv fold n S)
    {b : UInt8}
    (he : ∀ c, Edge n' c ↔ Edge n c ∨ c = b ∨ (fold = true ∧ c = oppositeAsciiCase b)) :
    BSInv fold n' (markByte fold S b) := by
  refine ⟨fun m => ?_, ?_⟩
  · rw [contains_markByte, h.marks]
    constructor
    · rintro (⟨c, hc, hm⟩ | e | ⟨hf, e⟩)
      · exact ⟨c, (he c).2 (Or.inl hc), hm⟩
      · exact ⟨b, (he b).2 (Or.inr (Or.inl rfl)), e⟩
      · exact ⟨_, (he _).2 (Or.inr (Or.inr ⟨hf, rfl⟩)), e⟩
    · rintro ⟨c, hc, hm⟩
      rcases (he c).1 hc with e | e | ⟨hf, e⟩
      · exact Or.inl ⟨c, e, hm⟩
      · subst e; exact Or.inr (Or.inl hm)
      · subst e; exact Or.inr (Or.inr ⟨hf, hm⟩)
  · intro hf c hc
    rcases (he c).1 hc with e | e | ⟨_, e⟩
    · exact (he _).2 (Or.inl (h.closed hf c e))
    · subst e; exact (he _).2 (Or.inr (Or.inr ⟨hf, rfl⟩))
    · subst e; rw [opp_involution]; exact (he _).2 (Or.inr (Or.inl rfl))

/-- one pattern: the invariant is kept, whether the pattern is added or skipped -/
theorem addPatternBS_inv (lf fold : Bool) : ∀ (pat : List UInt8) (n : CNfa) (S : ByteClassSet)
    (prev : Nat) (sm : Bool), TW n → (prev = SU ∨ 4 ≤ prev) → prev < n.size → BSInv fold n S →
    (∀ n' last S', addPatternBS lf fold n S prev sm pat = (some (n', last), S') →
      TW n' ∧ BSInv fold n' S' ∧ last < n'.size) ∧
    (∀ S', addPatternBS lf fold n S prev sm pat = (none, S') → BSInv fold n S') := by
  intro pat
  induction pat with
  | nil =>
    intro n S prev sm hT hp hlt hI
    rw [addPatternBS_nil]
    constructor
    · intro n' last S' e
      injection e with e1 e2
      injection e1 with e1
      injection e1 with e1 e3
      subst e1; subst e2; subst e3
      exact ⟨hT, hI, hlt⟩
    · intro S' e
      injection e with e1 _
      exact absurd e1 (by simp)
  | cons b rest ih =>
    intro n S prev sm hT hp hlt hI
    rw [addPatternBS_cons]
    by_cases h1 : (lf && (sm || isMatch n prev)) = true
    · rw [if_pos h1]
      constructor
      · intro n' last S' e
        injection e with e1 _
        exact absurd e1 (by simp)
      · intro S' e
        injection e with _ e2
        subst e2; exact hI
    · rw [if_neg h1]
      by_cases h2 : follow n prev b ≠ FAIL
      · rw [if_pos h2]
        have hm : (b, follow n prev b) ∈ (n.getD prev {}).trans :=
          mem_of_lookup (follow_eq n prev b).symm h2
        have hnext := hT.next hp hm h2
        have hE : Edge n b := ⟨prev, _, hp, h2, hm⟩
        exact ih n _ _ _ hT (Or.inr hnext.1) hnext.2 (hI.mark_edge hE)
      · rw [if_neg h2]
        have hT' : TW (ext fold n prev b) := TW_ext hT hlt b
        have hI' : BSInv fold (ext fold n prev b) (markByte fold S b) :=
          hI.mark_new (fun c => Edge_ext hT hp hlt b c)
        have hsz : n.size < (ext fold n prev b).size := by rw [size_ext]; omega
        have hih := ih (ext fold n prev b) (markByte fold S b) n.size (sm || isMatch n prev) hT'
          (Or.inr hT.size) hsz hI'
        refine ⟨hih.1, ?_⟩
        intro S' e
        have hsm : (lf && (sm || isMatch n prev)) = false := by simpa using h1
        have := addPatternBS_fresh lf fold rest (ext fold n prev b) (markByte fold S b) n.size
          (sm || isMatch n prev) hsz (fresh_ext fold n prev b hlt) hsm
        rw [e] at this
        exact absurd rfl this

/-! ## `build_trie` -/

theorem TW_init : TW init := by
  refine ⟨by simp [init], ?_, ?_⟩
  · intro sid hs x hx
    rw [getD_of_size_le _ (by simp [init]; omega)] at hx
    simp at hx
  · intro x hx
    have : init.getD SU {} = { trans := fullTrans FAIL, fail := SU } := rfl
    rw [this] at hx
    exact Or.inl (snd_of_mem_fullTrans hx)

theorem not_Edge_init (c : UInt8) : ¬ Edge init c := by
  rintro ⟨sid, t, hs, ht, hm⟩
  rcases hs with e | e
  · subst e
    have : init.getD SU {} = { trans := fullTrans FAIL, fail := SU } := rfl
    rw [this] at hm
    exact ht (snd_of_mem_fullTrans hm)
  · rw [getD_of_size_le _ (by simp [init]; omega)] at hm
    simp at hm

theorem BSInv_init (fold : Bool) : BSInv fold init ByteClassSet.empty := by
  refine ⟨fun m => ?_, fun _ c hc => absurd hc (not_Edge_init c)⟩
  constructor
  · intro h
    have : ByteClassSet.empty.set.contains m = false := contains_empty m
    rw [this] at h; exact absurd h (by simp)
  · rintro ⟨c, hc, _⟩; exact absurd hc (not_Edge_init c)

/-- recording a match changes neither the shape nor the edges -/
theorem trans_modify_matches (n : CNfa) (last pid sid : Nat) :
    ((n.modify last fun st => { st with matches_ := st.matches_ ++ [pid] }).getD sid {}).trans =
      (n.getD sid {}).trans := by
  rw [getD_modify]
  by_cases h : last = sid ∧ sid < n.size
  · rw [if_pos h]
  · rw [if_neg h]

theorem TW_congr {n n' : CNfa} (hs : n'.size = n.size)
    (ht : ∀ sid, (n'.getD sid {}).trans = (n.getD sid {}).trans) (h : TW n) : TW n' := by
  refine ⟨by rw [hs]; exact h.size, ?_, ?_⟩
  · intro sid h4 x hx; rw [ht] at hx; rw [hs]; exact h.node sid h4 x hx
  · intro x hx; rw [ht] at hx; rw [hs]; exact h.root x hx

theorem Edge_congr {n n' : CNfa} (ht : ∀ sid, (n'.getD sid {}).trans = (n.getD sid {}).trans)
    (c : UInt8) : Edge n' c ↔ Edge n c := by
  constructor
  · rintro ⟨sid, t, hs, h1, hm⟩; exact ⟨sid, t, hs, h1, by rw [← ht]; exact hm⟩
  · rintro ⟨sid, t, hs, h1, hm⟩; exact ⟨sid, t, hs, h1, by rw [ht]; exact hm⟩

theorem BSInv_congr {fold : Bool} {n n' : CNfa} {S : ByteClassSet}
    (ht : ∀ sid, (n'.getD sid {}).trans = (n.getD sid {}).trans) (h : BSInv fold n S) :
    BSInv fold n' S := by
  refine ⟨fun m => ?_, fun hf c hc => ?_⟩
  · rw [h.marks]
    constructor
    · rintro ⟨c, hc, hm⟩; exact ⟨c, (Edge_congr ht c).2 hc, hm⟩
    · rintro ⟨c, hc, hm⟩; exact ⟨c, (Edge_congr ht c).1 hc, hm⟩
  · exact (Edge_congr ht _).2 (h.closed hf c ((Edge_congr ht c).1 hc))

theorem stepBS_inv (k : MatchKind) (fold : Bool) (acc : CNfa × ByteClassSet)
    (pp : List UInt8 × Nat) (hT : TW acc.1) (hI : BSInv fold acc.1 acc.2) :
    TW (stepBS k fold acc pp).1 ∧ BSInv fold (stepBS k fold acc pp).1 (stepBS k fold acc pp).2 := by
  have hinv := addPatternBS_inv (k == .lf) fold pp.1 acc.1 acc.2 SU false hT (Or.inl rfl)
    (by have := hT.size; simp only [SU]; omega) hI
  unfold stepBS
  rcases hr : addPatternBS (k == .lf) fold acc.1 acc.2 SU false pp.1 with ⟨o, S'⟩
  cases o with
  | none => exact ⟨hT, hinv.2 S' hr⟩
  | some r =>
    obtain ⟨n', last⟩ := r
    obtain ⟨h1, h2, _⟩ := hinv.1 n' last S' hr
    exact ⟨TW_congr (Array.size_modify ..) (trans_modify_matches n' last pp.2) h1,
      BSInv_congr (trans_modify_matches n' last pp.2) h2⟩

theorem foldl_stepBS_inv (k : MatchKind) (fold : Bool) :
    ∀ (l : List (List UInt8 × Nat)) (acc : CNfa × ByteClassSet), TW acc.1 →
      BSInv fold acc.1 acc.2 →
      TW (l.foldl (stepBS k fold) acc).1 ∧
        BSInv fold (l.foldl (stepBS k fold) acc).1 (l.foldl (stepBS k fold) acc).2 := by
  intro l
  induction l with
  | nil => intro acc hT hI; exact ⟨hT, hI⟩
  | cons x rest ih =>
    intro acc hT hI
    rw [List.foldl_cons]
    obtain ⟨h1, h2⟩ := stepBS_inv k fold acc x hT hI
    exact ih _ h1 h2

/-- after `build_trie` the byte set holds exactly the marks of the trie's edge bytes -/
theorem buildTrieBS_inv (k : MatchKind) (fold : Bool) (P : List (List UInt8)) :
    TW (buildTrie k fold P) ∧ BSInv fold (buildTrie k fold P) (buildTrieBS k fold P).2 := by
  have := foldl_stepBS_inv k fold P.zipIdx (init, ByteClassSet.empty) TW_init (BSInv_init fold)
  rw [← buildTrieBS_eq, buildTrieBS_fst] at this
  exact this

end AcVerif.AlphaP
