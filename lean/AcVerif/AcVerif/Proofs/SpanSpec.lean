import AcVerif.Spec
/-!
# Span = sub-slice, at the level of the specification (helpers for C10)
-/
namespace AcVerif
variable {α : Type}

/-- translate a match by `d` positions -/
def Mat.shift (m : Mat) (d : Nat) : Mat := { m with start := m.start + d, stop := m.stop + d }

@[simp] theorem Mat.shift_pid (m : Mat) (d : Nat) : (m.shift d).pid = m.pid := rfl
@[simp] theorem Mat.shift_start (m : Mat) (d : Nat) : (m.shift d).start = m.start + d := rfl
@[simp] theorem Mat.shift_stop (m : Mat) (d : Nat) : (m.shift d).stop = m.stop + d := rfl

namespace EngP

theorem shift_inj {a b : Mat} {d : Nat} (h : a.shift d = b.shift d) : a = b := by
  cases a; cases b
  simp only [Mat.shift, Mat.mk.injEq] at h ⊢
  omega

theorem better_shift (k : MatchKind) (a b : Mat) (d : Nat) :
    better k (a.shift d) (b.shift d) ↔ better k a b := by
  cases k <;>
    simp only [better, betterStd, betterLF, betterLL, Mat.shift_pid, Mat.shift_start,
      Mat.shift_stop] <;> omega

theorem ovlBefore_shift (a b : Mat) (d : Nat) :
    ovlBefore (a.shift d) (b.shift d) ↔ ovlBefore a b := by
  simp only [ovlBefore, Mat.shift_pid, Mat.shift_start, Mat.shift_stop]; omega

/-- a pattern that fits before `e` is a prefix at `st` of the truncated haystack iff of the whole -/
theorem prefix_drop_take_iff (p hay : List α) (e st : Nat) (h : st + p.length ≤ e) :
    p <+: (hay.take e).drop st ↔ p <+: hay.drop st := by
  rw [List.drop_take, List.prefix_take_iff]
  constructor
  · exact fun h => h.1
  · exact fun h' => ⟨h', by omega⟩

/-- `IsOcc` only reads the slice `hay[s..e)` -/
theorem isOcc_iff_slice (P : List (List α)) (hay : List α) (s e : Nat) (m : Mat) :
    IsOcc P hay s e m ↔ ∃ p, P[m.pid]? = some p ∧ s ≤ m.start ∧ m.stop = m.start + p.length ∧
      m.stop ≤ e ∧ p <+: ((hay.take e).drop s).drop (m.start - s) := by
  unfold IsOcc
  constructor
  · rintro ⟨p, h1, h2, h3, h4, h5⟩
    refine ⟨p, h1, h2, h3, h4, ?_⟩
    rw [List.drop_drop, show s + (m.start - s) = m.start by omega,
      prefix_drop_take_iff _ _ _ _ (by omega)]
    exact h5
  · rintro ⟨p, h1, h2, h3, h4, h5⟩
    refine ⟨p, h1, h2, h3, h4, ?_⟩
    rw [List.drop_drop, show s + (m.start - s) = m.start by omega,
      prefix_drop_take_iff _ _ _ _ (by omega)] at h5
    exact h5

theorem occ_slice (P : List (List α)) (hay : List α) (s e : Nat) (hse : s ≤ e) (m : Mat) :
    IsOcc P ((hay.take e).drop s) 0 (e - s) m ↔ IsOcc P hay s e (m.shift s) := by
  rw [isOcc_iff_slice P hay s e (m.shift s)]
  unfold IsOcc
  simp only [Mat.shift_pid, Mat.shift_start, Mat.shift_stop, Nat.add_sub_cancel]
  constructor
  · rintro ⟨p, h1, _, h3, h4, h5⟩
    exact ⟨p, h1, by omega, by omega, by omega, h5⟩
  · rintro ⟨p, h1, _, h3, h4, h5⟩
    exact ⟨p, h1, by omega, by omega, by omega, h5⟩

theorem occ_inside (P : List (List α)) (hay : List α) (s e : Nat) (m : Mat)
    (h : IsOcc P hay s e m) : s ≤ m.start ∧ m.start ≤ m.stop ∧ m.stop ≤ e := by
  obtain ⟨p, _, h2, h3, h4, _⟩ := h
  omega

theorem shift_surj_of_le (m : Mat) (s : Nat) (h1 : s ≤ m.start) (h2 : m.start ≤ m.stop) :
    ∃ m' : Mat, m = m'.shift s := by
  refine ⟨⟨m.pid, m.start - s, m.stop - s⟩, ?_⟩
  cases m
  simp only [Mat.shift, Mat.mk.injEq, true_and] at h1 h2 ⊢
  omega

theorem occ_slice_surj (P : List (List α)) (hay : List α) (s e : Nat) (m : Mat)
    (h : IsOcc P hay s e m) : ∃ m' : Mat, m = m'.shift s := by
  have := occ_inside P hay s e m h
  exact shift_surj_of_le m s this.1 this.2.1

theorem occ_frame (P : List (List α)) (hay hay' : List α) (s e : Nat)
    (hsame : (hay.take e).drop s = (hay'.take e).drop s) (m : Mat) :
    IsOcc P hay s e m ↔ IsOcc P hay' s e m := by
  rw [isOcc_iff_slice, isOcc_iff_slice, hsame]

/-! ### admissible occurrences -/

theorem occA_slice (P : List (List α)) (hay : List α) (s e : Nat) (hse : s ≤ e) (anch : Bool)
    (m : Mat) :
    IsOccA P ((hay.take e).drop s) 0 (e - s) anch m ↔ IsOccA P hay s e anch (m.shift s) := by
  unfold IsOccA
  rw [occ_slice P hay s e hse m, Mat.shift_start]
  constructor
  · rintro ⟨h1, h2⟩; exact ⟨h1, fun h => by have := h2 h; omega⟩
  · rintro ⟨h1, h2⟩; exact ⟨h1, fun h => by have := h2 h; omega⟩

theorem occA_slice_surj (P : List (List α)) (hay : List α) (s e : Nat) (anch : Bool) (m : Mat)
    (h : IsOccA P hay s e anch m) : ∃ m' : Mat, m = m'.shift s :=
  occ_slice_surj P hay s e m h.1

theorem occA_frame (P : List (List α)) (hay hay' : List α) (s e : Nat)
    (hsame : (hay.take e).drop s = (hay'.take e).drop s) (anch : Bool) (m : Mat) :
    IsOccA P hay s e anch m ↔ IsOccA P hay' s e anch m := by
  unfold IsOccA
  rw [occ_frame P hay hay' s e hsame m]

/-! ### the three `IsFind` answers and the overlapping enumeration -/

theorem find_slice (k : MatchKind) (P : List (List α)) (hay : List α) (s e : Nat) (hse : s ≤ e)
    (anch : Bool) (r : Option Mat) :
    IsFind k P ((hay.take e).drop s) 0 (e - s) anch r ↔
      IsFind k P hay s e anch (r.map (·.shift s)) := by
  cases r with
  | none =>
    simp only [IsFind, Option.map_none]
    constructor
    · intro h m hm
      obtain ⟨m', rfl⟩ := occA_slice_surj P hay s e anch m hm
      exact h m' ((occA_slice P hay s e hse anch m').2 hm)
    · intro h m hm
      exact h _ ((occA_slice P hay s e hse anch m).1 hm)
  | some m =>
    simp only [IsFind, Option.map_some]
    rw [occA_slice P hay s e hse anch m]
    constructor
    · rintro ⟨h1, h2⟩
      refine ⟨h1, fun m' hm' => ?_⟩
      obtain ⟨m'', rfl⟩ := occA_slice_surj P hay s e anch m' hm'
      exact (better_shift k m m'' s).2 (h2 m'' ((occA_slice P hay s e hse anch m'').2 hm'))
    · rintro ⟨h1, h2⟩
      refine ⟨h1, fun m' hm' => ?_⟩
      exact (better_shift k m m' s).1 (h2 _ ((occA_slice P hay s e hse anch m').1 hm'))

theorem find_frame (k : MatchKind) (P : List (List α)) (hay hay' : List α) (s e : Nat)
    (hsame : (hay.take e).drop s = (hay'.take e).drop s) (anch : Bool) (r : Option Mat) :
    IsFind k P hay s e anch r ↔ IsFind k P hay' s e anch r := by
  have hocc := occA_frame P hay hay' s e hsame anch
  cases r <;> simp only [IsFind, hocc]

theorem overlap_slice (P : List (List α)) (hay : List α) (s e : Nat) (hse : s ≤ e)
    (anch : Bool) (l : List Mat) :
    IsOverlapList P ((hay.take e).drop s) 0 (e - s) anch l ↔
      IsOverlapList P hay s e anch (l.map (·.shift s)) := by
  unfold IsOverlapList
  rw [List.pairwise_map]
  simp only [ovlBefore_shift, List.mem_map]
  constructor
  · rintro ⟨h1, h2⟩
    refine ⟨h1, fun m => ⟨?_, ?_⟩⟩
    · rintro ⟨m', hm', rfl⟩
      exact (occA_slice P hay s e hse anch m').1 ((h2 m').1 hm')
    · intro hm
      obtain ⟨m', rfl⟩ := occA_slice_surj P hay s e anch m hm
      exact ⟨m', (h2 m').2 ((occA_slice P hay s e hse anch m').2 hm), rfl⟩
  · rintro ⟨h1, h2⟩
    refine ⟨h1, fun m => ⟨?_, ?_⟩⟩
    · intro hm
      exact (occA_slice P hay s e hse anch m).2 ((h2 _).1 ⟨m, hm, rfl⟩)
    · intro hm
      obtain ⟨m', hm', heq⟩ := (h2 _).2 ((occA_slice P hay s e hse anch m).1 hm)
      rw [← shift_inj heq]; exact hm'

theorem overlap_frame (P : List (List α)) (hay hay' : List α) (s e : Nat)
    (hsame : (hay.take e).drop s = (hay'.take e).drop s) (anch : Bool) (l : List Mat) :
    IsOverlapList P hay s e anch l ↔ IsOverlapList P hay' s e anch l := by
  have hocc := occA_frame P hay hay' s e hsame anch
  simp only [IsOverlapList, hocc]

end EngP
end AcVerif
