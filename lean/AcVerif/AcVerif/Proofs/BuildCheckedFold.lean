import AcVerif.Proofs.BuildCheckedBase
/-!
# C20 build proofs, part 2: the checked `build_trie` loop, exactly

Because `states`, `sparse` and `matches` only grow, the per-iteration tests of the checked loop
collapse: the loop succeeds iff every pattern passes its two tests and the *final* lengths are within
the limit; and it fails with `e` iff there is a first iteration whose step fails with `e`.
-/
namespace AcVerif.BuildP
open AcVerif AcVerif.CNfa

/-- the three vectors `build_trie` pushes to are within the `StateID` limit -/
def TrieFits (L : Limits) (n : CNfa) : Prop :=
  n.size ≤ L.stateIdLimit ∧ sparseLen n ≤ L.stateIdLimit ∧ matchesLen n ≤ L.stateIdLimit

instance (L : Limits) (n : CNfa) : Decidable (TrieFits L n) := by unfold TrieFits; infer_instance

/-- the two per-pattern tests of `build_trie` -/
def PatOk (L : Limits) (x : List UInt8 × Nat) : Prop :=
  x.2 < L.patternIdLimit ∧ x.1.length ≤ L.smallIndexMax

instance (L : Limits) (x : List UInt8 × Nat) : Decidable (PatOk L x) := by
  unfold PatOk; infer_instance

theorem TrieFits_step {L : Limits} {k : MatchKind} {fold : Bool} {n : CNfa} {x : List UInt8 × Nat}
    (h : TrieFits L (trieStep k fold n x)) : TrieFits L n := by
  have s := trieStep_sizes k fold n x
  unfold TrieFits at *
  rw [sparseLen_eq, matchesLen_eq] at *
  omega

theorem TrieFits_foldl {L : Limits} {k : MatchKind} {fold : Bool} :
    ∀ (xs : List (List UInt8 × Nat)) (n : CNfa),
      TrieFits L (xs.foldl (trieStep k fold) n) → TrieFits L n
  | [], _, h => h
  | _ :: xs, _, h => TrieFits_step (TrieFits_foldl xs _ h)

theorem trieStepChecked_ok_iff (L : Limits) (k : MatchKind) (fold : Bool) (n t : CNfa)
    (x : List UInt8 × Nat) :
    trieStepChecked L k fold n x = .ok t ↔
      PatOk L x ∧ TrieFits L (trieStep k fold n x) ∧ t = trieStep k fold n x := by
  unfold trieStepChecked PatOk TrieFits
  by_cases h1 : x.2 < L.patternIdLimit
  · by_cases h2 : x.1.length ≤ L.smallIndexMax
    · simp only [h1, h2, not_true_eq_false, if_false, true_and]
      split
      · rename_i h3
        constructor
        · intro h; cases h; exact ⟨h3, rfl⟩
        · rintro ⟨_, rfl⟩; rfl
      · rename_i h3
        constructor
        · intro h; cases h
        · rintro ⟨h4, _⟩; exact absurd h4 h3
    · simp [h1, h2]
  · simp [h1]

theorem trieStepChecked_error_iff (L : Limits) (k : MatchKind) (fold : Bool) (n : CNfa)
    (x : List UInt8 × Nat) (e : BuildErr) :
    trieStepChecked L k fold n x = .error e ↔
      (¬ x.2 < L.patternIdLimit ∧ e = .patternIdOverflow) ∨
      (x.2 < L.patternIdLimit ∧ ¬ x.1.length ≤ L.smallIndexMax ∧
        e = .patternTooLong x.2 x.1.length) ∨
      (PatOk L x ∧ ¬ TrieFits L (trieStep k fold n x) ∧ e = .stateIdOverflow) := by
  unfold trieStepChecked PatOk TrieFits
  by_cases h1 : x.2 < L.patternIdLimit
  · by_cases h2 : x.1.length ≤ L.smallIndexMax
    · simp only [h1, h2, not_true_eq_false, if_false, true_and, false_and, false_or]
      split
      · rename_i h3
        constructor
        · intro h; cases h
        · rintro ⟨h4, _⟩; exact absurd h3 h4
      · rename_i h3
        constructor
        · intro h; cases h; exact ⟨h3, rfl⟩
        · rintro ⟨_, rfl⟩; rfl
    · simp only [h1, h2, not_true_eq_false, not_false_eq_true, if_false, if_true, true_and,
        false_and, and_false, false_or, or_false]
      constructor
      · intro h; cases h; rfl
      · rintro rfl; rfl
  · simp only [h1, not_false_eq_true, if_true, true_and, false_and, or_false]
    constructor
    · intro h; cases h; rfl
    · rintro rfl; rfl

theorem foldlM_cons_except {f : CNfa → List UInt8 × Nat → Except BuildErr CNfa} (n : CNfa)
    (x : List UInt8 × Nat) (xs : List (List UInt8 × Nat)) :
    (x :: xs).foldlM f n = match f n x with
      | .ok t => xs.foldlM f t
      | .error e => .error e := by
  rw [List.foldlM_cons]
  cases f n x <;> rfl

/-- the checked loop succeeds iff every pattern passes its tests and the final sizes fit -/
theorem trieFrom_ok_iff (L : Limits) (k : MatchKind) (fold : Bool) :
    ∀ (xs : List (List UInt8 × Nat)) (n t : CNfa),
      trieFromChecked L k fold n xs = .ok t ↔
        t = xs.foldl (trieStep k fold) n ∧ (∀ x ∈ xs, PatOk L x) ∧ (xs ≠ [] → TrieFits L t)
  | [], n, t => by
    unfold trieFromChecked
    rw [List.foldlM_nil]
    constructor
    · intro h; cases h; simp
    · rintro ⟨rfl, _⟩; rfl
  | x :: xs, n, t => by
    unfold trieFromChecked
    rw [foldlM_cons_except]
    cases hs : trieStepChecked L k fold n x with
    | error e =>
      simp only [List.foldl_cons, List.mem_cons, forall_eq_or_imp, ne_eq,
        reduceCtorEq, not_false_eq_true, forall_const, false_iff, not_and]
      intro ht hp hfit
      have hstep : trieStepChecked L k fold n x = .ok (trieStep k fold n x) := by
        rw [trieStepChecked_ok_iff]
        refine ⟨hp.1, ?_, rfl⟩
        rw [ht] at hfit
        exact TrieFits_foldl xs _ hfit
      rw [hs] at hstep; cases hstep
    | ok t' =>
      obtain ⟨hp, hf, rfl⟩ := (trieStepChecked_ok_iff L k fold n t' x).1 hs
      have ih := trieFrom_ok_iff L k fold xs (trieStep k fold n x) t
      unfold trieFromChecked at ih
      simp only
      rw [ih]
      simp only [List.foldl_cons, List.mem_cons, forall_eq_or_imp, ne_eq, reduceCtorEq,
        not_false_eq_true, forall_const]
      constructor
      · rintro ⟨rfl, hall, hfit⟩
        refine ⟨rfl, ⟨hp, hall⟩, ?_⟩
        by_cases hx : xs = []
        · subst hx; exact hf
        · exact hfit hx
      · rintro ⟨rfl, ⟨_, hall⟩, hfit⟩
        exact ⟨rfl, hall, fun _ => hfit⟩

/-- the checked loop fails with `e` iff some iteration – the first that fails – fails with `e` -/
theorem trieFrom_error_iff (L : Limits) (k : MatchKind) (fold : Bool) (e : BuildErr) :
    ∀ (xs : List (List UInt8 × Nat)) (n : CNfa),
      trieFromChecked L k fold n xs = .error e ↔
        ∃ ys x zs, xs = ys ++ x :: zs ∧ (∀ y ∈ ys, PatOk L y) ∧
          (ys ≠ [] → TrieFits L (ys.foldl (trieStep k fold) n)) ∧
          trieStepChecked L k fold (ys.foldl (trieStep k fold) n) x = .error e
  | [], n => by
    unfold trieFromChecked
    rw [List.foldlM_nil]
    constructor
    · intro h; cases h
    · rintro ⟨ys, x, zs, h, _⟩
      cases ys <;> cases h
  | x :: xs, n => by
    unfold trieFromChecked
    rw [foldlM_cons_except]
    cases hs : trieStepChecked L k fold n x with
    | error e' =>
      simp only
      constructor
      · intro h; cases h
        exact ⟨[], x, xs, rfl, by simp, by simp, hs⟩
      · rintro ⟨ys, y, zs, hxs, hall, hfit, herr⟩
        cases ys with
        | nil =>
          simp only [List.nil_append, List.cons.injEq] at hxs
          obtain ⟨rfl, _⟩ := hxs
          simp only [List.foldl_nil] at herr
          rw [hs] at herr; exact herr
        | cons y0 ys =>
          simp only [List.cons_append, List.cons.injEq] at hxs
          obtain ⟨rfl, _⟩ := hxs
          have hstep : trieStepChecked L k fold n x = .ok (trieStep k fold n x) := by
            rw [trieStepChecked_ok_iff]
            refine ⟨hall _ List.mem_cons_self, ?_, rfl⟩
            exact TrieFits_foldl ys _ (hfit (by simp))
          rw [hs] at hstep; cases hstep
    | ok t' =>
      obtain ⟨hp, hf, rfl⟩ := (trieStepChecked_ok_iff L k fold n t' x).1 hs
      have ih := trieFrom_error_iff L k fold e xs (trieStep k fold n x)
      unfold trieFromChecked at ih
      simp only
      rw [ih]
      constructor
      · rintro ⟨ys, y, zs, rfl, hall, hfit, herr⟩
        refine ⟨x :: ys, y, zs, rfl, ?_, ?_, herr⟩
        · intro z hz
          rcases List.mem_cons.1 hz with rfl | hz
          · exact hp
          · exact hall z hz
        · intro _
          by_cases hy : ys = []
          · subst hy; exact hf
          · exact hfit hy
      · rintro ⟨ys, y, zs, hxs, hall, hfit, herr⟩
        cases ys with
        | nil =>
          simp only [List.nil_append, List.cons.injEq] at hxs
          obtain ⟨rfl, _⟩ := hxs
          simp only [List.foldl_nil] at herr
          rw [hs] at herr; cases herr
        | cons y0 ys =>
          simp only [List.cons_append, List.cons.injEq] at hxs
          obtain ⟨rfl, rfl⟩ := hxs
          exact ⟨ys, y, zs, rfl, fun z hz => hall z (List.mem_cons_of_mem _ hz),
            fun hne => hfit (by simp), herr⟩

/-! ## the preamble -/

theorem TrieFits_init_iff (L : Limits) :
    TrieFits L init ↔ init.size ≤ L.stateIdLimit ∧ sparseLen init ≤ L.stateIdLimit := by
  unfold TrieFits
  rw [matchesLen_eq, wsum_gM_init, init_size]
  constructor
  · rintro ⟨h1, h2, _⟩; exact ⟨h1, h2⟩
  · rintro ⟨h1, h2⟩; exact ⟨h1, h2, by omega⟩

theorem initChecked_eq (L : Limits) :
    initChecked L = if TrieFits L init then .ok init else .error .stateIdOverflow := by
  unfold initChecked
  by_cases h : TrieFits L init
  · rw [if_pos h, if_pos ((TrieFits_init_iff L).1 h)]
  · rw [if_neg h, if_neg (fun h' => h ((TrieFits_init_iff L).2 h'))]

/-- preamble + `build_trie` -/
def trieAllChecked (L : Limits) (k : MatchKind) (fold : Bool) (xs : List (List UInt8 × Nat)) :
    Except BuildErr CNfa :=
  match initChecked L with
  | .ok n0 => trieFromChecked L k fold n0 xs
  | .error e => .error e

theorem trieAll_ok_iff (L : Limits) (k : MatchKind) (fold : Bool) (xs : List (List UInt8 × Nat))
    (t : CNfa) :
    trieAllChecked L k fold xs = .ok t ↔
      t = xs.foldl (trieStep k fold) init ∧ (∀ x ∈ xs, PatOk L x) ∧ TrieFits L t := by
  unfold trieAllChecked
  rw [initChecked_eq]
  by_cases h : TrieFits L init
  · rw [if_pos h]
    simp only
    rw [trieFrom_ok_iff]
    constructor
    · rintro ⟨rfl, hall, hfit⟩
      refine ⟨rfl, hall, ?_⟩
      by_cases hx : xs = []
      · subst hx; exact h
      · exact hfit hx
    · rintro ⟨rfl, hall, hfit⟩
      exact ⟨rfl, hall, fun _ => hfit⟩
  · rw [if_neg h]
    simp only [reduceCtorEq, false_iff, not_and]
    rintro rfl _ hfit
    exact h (TrieFits_foldl xs _ hfit)

theorem trieAll_error_iff (L : Limits) (k : MatchKind) (fold : Bool)
    (xs : List (List UInt8 × Nat)) (e : BuildErr) :
    trieAllChecked L k fold xs = .error e ↔
      (¬ TrieFits L init ∧ e = .stateIdOverflow) ∨
      ∃ ys x zs, xs = ys ++ x :: zs ∧ (∀ y ∈ ys, PatOk L y) ∧
        TrieFits L (ys.foldl (trieStep k fold) init) ∧
        trieStepChecked L k fold (ys.foldl (trieStep k fold) init) x = .error e := by
  unfold trieAllChecked
  rw [initChecked_eq]
  by_cases h : TrieFits L init
  · rw [if_pos h]
    simp only
    rw [trieFrom_error_iff]
    constructor
    · rintro ⟨ys, x, zs, rfl, hall, hfit, herr⟩
      refine Or.inr ⟨ys, x, zs, rfl, hall, ?_, herr⟩
      by_cases hy : ys = []
      · subst hy; exact h
      · exact hfit hy
    · rintro (⟨h', _⟩ | ⟨ys, x, zs, rfl, hall, hfit, herr⟩)
      · exact absurd h h'
      · exact ⟨ys, x, zs, rfl, hall, fun _ => hfit, herr⟩
  · rw [if_neg h]
    simp only
    constructor
    · intro he; cases he; exact Or.inl ⟨h, rfl⟩
    · rintro (⟨_, rfl⟩ | ⟨ys, x, zs, rfl, _, hfit, _⟩)
      · rfl
      · exact absurd (TrieFits_foldl ys _ hfit) h

theorem compileChecked_eq (L : Limits) (k : MatchKind) (fold : Bool) (dd : Nat)
    (P : List (List UInt8)) :
    compileChecked L k fold dd P =
      match trieAllChecked L k fold P.zipIdx with
      | .ok t =>
        if matchesLen (finishCompile k fold t) ≤ L.stateIdLimit ∧
            denseAllocOk L (finishCompile k fold t) dd = true
        then .ok (finishCompile k fold t) else .error .stateIdOverflow
      | .error e => .error e := by
  unfold compileChecked trieAllChecked
  cases h0 : initChecked L with
  | error e => rfl
  | ok n0 =>
    dsimp only [bind, Except.bind]
    cases h1 : trieFromChecked L k fold n0 P.zipIdx with
    | error e => rfl
    | ok t => rfl

/-! ## `P.zipIdx` -/

theorem zipIdx_split (P : List (List UInt8)) (i : Nat) (h : i < P.length) :
    P.zipIdx = (P.take i).zipIdx ++ (P[i], i) :: (P.drop (i + 1)).zipIdx (i + 1) := by
  have hP : P = P.take i ++ P[i] :: P.drop (i + 1) := by
    rw [List.getElem_cons_drop, List.take_append_drop]
  conv => lhs; rw [hP]
  rw [List.zipIdx_append, List.zipIdx_cons]
  simp [List.length_take, Nat.min_eq_left (Nat.le_of_lt h)]

theorem zipIdx_eq_split {P : List (List UInt8)} {ys zs : List (List UInt8 × Nat)}
    {x : List UInt8 × Nat} (h : P.zipIdx = ys ++ x :: zs) :
    ∃ hi : ys.length < P.length, ys = (P.take ys.length).zipIdx ∧ x = (P[ys.length], ys.length) := by
  have hlen : (P.zipIdx).length = (ys ++ x :: zs).length := by rw [h]
  rw [List.length_zipIdx, List.length_append, List.length_cons] at hlen
  have hi : ys.length < P.length := by omega
  refine ⟨hi, ?_, ?_⟩
  · have h2 := zipIdx_split P ys.length hi
    rw [h] at h2
    have hl : ys.length = ((P.take ys.length).zipIdx).length := by
      rw [List.length_zipIdx, List.length_take, Nat.min_eq_left (Nat.le_of_lt hi)]
    exact (List.append_inj h2 hl).1
  · have h3 : (P.zipIdx)[ys.length]'(by rw [List.length_zipIdx]; exact hi) = x := by
      simp only [h]
      rw [List.getElem_append_right (Nat.le_refl _)]
      simp
    rw [← h3, List.getElem_zipIdx]
    simp

theorem patOk_zipIdx_iff (L : Limits) (P : List (List UInt8)) :
    (∀ x ∈ P.zipIdx, PatOk L x) ↔
      P.length ≤ L.patternIdLimit ∧ ∀ p ∈ P, p.length ≤ L.smallIndexMax := by
  unfold PatOk
  constructor
  · intro h
    constructor
    · cases hP : P.length with
      | zero => exact Nat.zero_le _
      | succ m =>
        have hm : m < P.length := by omega
        have hmem : (P[m], m) ∈ P.zipIdx := by
          rw [List.mem_iff_getElem]
          exact ⟨m, by rw [List.length_zipIdx]; exact hm, by rw [List.getElem_zipIdx]; simp⟩
        have := (h _ hmem).1
        simp only at this
        omega
    · intro p hp
      obtain ⟨i, hi, rfl⟩ := List.mem_iff_getElem.1 hp
      have hmem : (P[i], i) ∈ P.zipIdx := by
        rw [List.mem_iff_getElem]
        exact ⟨i, by rw [List.length_zipIdx]; exact hi, by rw [List.getElem_zipIdx]; simp⟩
      exact (h _ hmem).2
  · rintro ⟨h1, h2⟩ ⟨p, i⟩ hx
    obtain ⟨_, hi, hp⟩ := List.mem_zipIdx hx
    have hpm : p ∈ P := hp ▸ List.getElem_mem _
    simp only [Nat.zero_add] at hi ⊢
    exact ⟨by omega, h2 _ hpm⟩

end AcVerif.BuildP
