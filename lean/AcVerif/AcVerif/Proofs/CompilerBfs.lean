import AcVerif.Proofs.CompilerQueue
/-!
# L1c proofs, part 5: `fill_failure_transitions` (both loops) and `close_start_state_loop`
-/
namespace AcVerif.L1cP
open AcVerif AcVerif.CNfa AcVerif.LmP

/-! ## model side: failure link and output of a child from those of its parent -/

theorem failStd_cons (Q : PatSet UInt8) (a : UInt8) (t : List UInt8) :
    failStd Q (a :: t) = lsp Q t := rfl

theorem lm_bne (k : MatchKind) (h : k ≠ .std) : (k != .std) = true := by
  cases k <;> simp at h ⊢

theorem fail_child (k : MatchKind) (Q : PatSet UInt8) (a : UInt8) (t : List UInt8) (b : UInt8)
    (hk : k = .std ∨ idsOf Q (a :: t ++ [b]) = []) :
    (match finalFail k Q (a :: t) with
      | .dead => St.dead
      | .at v => Ideal.next k Q false (.at v) b) = finalFail k Q (a :: t ++ [b]) := by
  have e1 : failStd Q (a :: t ++ [b]) = lsp Q (t ++ [b]) := rfl
  unfold finalFail
  rw [e1, failStd_cons]
  by_cases hstd : k = .std
  · subst hstd
    simp only [bne_self_eq_false, Bool.false_and, Bool.false_eq_true, if_false, Ideal.next,
      stepStd]
    rw [← lsp_step]
  · have hi := hk.resolve_left hstd
    have hlm : ∀ v, Ideal.next k Q false (.at v) b = stepLm Q v b := by
      intro v; cases k with
      | std => exact absurd rfl hstd
      | lf => rfl
      | ll => rfl
    simp only [lm_bne k hstd, Bool.true_and]
    rw [← lmFail_step hi]
    by_cases hb : blocked Q (a :: t) ((a :: t).length - (lsp Q t).length) = true
    · simp only [hb, if_true]
    · simp only [hb, if_false, Bool.false_eq_true]; exact hlm _

theorem out_child (k : MatchKind) (Q : PatSet UInt8) (a : UInt8) (t : List UInt8)
    (hk : k = .std ∨ idsOf Q (a :: t) = []) :
    idsOf Q (a :: t) ++ Ideal.out k Q (finalFail k Q (a :: t)) = Ideal.out k Q (.at (a :: t)) := by
  unfold finalFail
  rw [failStd_cons]
  by_cases hstd : k = .std
  · subst hstd
    simp only [bne_self_eq_false, Bool.false_and, Bool.false_eq_true, if_false, Ideal.out]
    exact (outStd_step Q a t).symm
  · have hi := hk.resolve_left hstd
    have houtD : Ideal.out k Q .dead = [] := by cases k <;> rfl
    have houtA : ∀ v, Ideal.out k Q (.at v) = outLm Q v := by
      intro v; cases k with
      | std => exact absurd rfl hstd
      | lf => rfl
      | ll => rfl
    simp only [lm_bne k hstd, Bool.true_and]
    rw [hi, List.nil_append, houtA, outLm_step hi]
    by_cases hb : blocked Q (a :: t) ((a :: t).length - (lsp Q t).length) = true
    · simp only [hb, if_true]; exact houtD
    · simp only [hb, if_false, Bool.false_eq_true]; exact houtA _

/-- in the cases where the compiler sets the failure link of a leftmost node to `DEAD` directly -/
theorem finalFail_dead (k : MatchKind) (Q : PatSet UInt8) (a : UInt8) (t : List UInt8)
    (hk : k ≠ .std) (h : idsOf Q [] ≠ [] ∨ idsOf Q (a :: t) ≠ []) :
    finalFail k Q (a :: t) = .dead := by
  unfold finalFail
  rw [failStd_cons]
  have hl := lsp_length_le Q t
  have hpos : 0 < (a :: t).length - (lsp Q t).length := by simp only [List.length_cons]; omega
  have : blocked Q (a :: t) ((a :: t).length - (lsp Q t).length) = true := by
    rcases h with h | h
    · exact blocked_of_emptyPat h hpos
    · exact blocked_of_ids h hpos
  simp only [lm_bne k hk, this, Bool.true_and, if_true]

theorem out_self (k : MatchKind) (Q : PatSet UInt8) (u : List UInt8)
    (hk : k ≠ .std) (h : idsOf Q [] ≠ [] ∨ idsOf Q u ≠ []) :
    Ideal.out k Q (.at u) = idsOf Q u := by
  have hout : Ideal.out k Q (.at u) = outLm Q u := by
    cases k with
    | std => exact absurd rfl hk
    | lf => rfl
    | ll => rfl
  rw [hout]
  by_cases hu : idsOf Q u = []
  · rw [hu]; exact outLm_of_emptyPat (h.resolve_right (fun hh => hh hu)) hu
  · exact outLm_of_ids hu

/-! ## array updates of the two loops -/

theorem getD_setFail (n : CNfa) (next f : Nat) (hn : next < n.size) (sid : Nat) :
    (n.modify next fun st => { st with fail := f }).getD sid {} =
      if sid = next then { n.getD next {} with fail := f } else n.getD sid {} := by
  rw [getD_modify]
  by_cases e : sid = next
  · subst e; rw [if_pos ⟨rfl, hn⟩, if_pos rfl]
  · rw [if_neg (fun hh => e hh.1.symm), if_neg e]

theorem getD_copyMatches (n : CNfa) (src dst : Nat) (hd : dst < n.size) (sid : Nat) :
    (copyMatches n src dst).getD sid {} =
      if sid = dst then
        { n.getD dst {} with matches_ := (n.getD dst {}).matches_ ++ (n.getD src {}).matches_ }
      else n.getD sid {} := by
  unfold copyMatches
  rw [getD_modify]
  by_cases e : sid = dst
  · subst e; rw [if_pos ⟨rfl, hd⟩, if_pos rfl]
  · rw [if_neg (fun hh => e hh.1.symm), if_neg e]

theorem getD_setFail_copy (n : CNfa) (next f : Nat) (hn : next < n.size) (sid : Nat) :
    (copyMatches (n.modify next fun st => { st with fail := f }) f next).getD sid {} =
      if sid = next then
        { trans := (n.getD next {}).trans, fail := f,
          matches_ := (n.getD next {}).matches_ ++ (n.getD f {}).matches_ }
      else n.getD sid {} := by
  rw [getD_copyMatches _ _ _ (by rw [Array.size_modify]; exact hn)]
  have hm : ((n.modify next fun st => { st with fail := f }).getD f {}).matches_ =
      (n.getD f {}).matches_ := by
    rw [getD_setFail n next f hn]
    by_cases e : f = next
    · rw [if_pos e, e]
    · rw [if_neg e]
  by_cases e : sid = next
  · rw [if_pos e, if_pos e, hm, getD_setFail n next f hn, if_pos rfl]
  · rw [if_neg e, if_neg e, getD_setFail n next f hn, if_neg e]

theorem size_setFail_copy (n : CNfa) (next f : Nat) :
    (copyMatches (n.modify next fun st => { st with fail := f }) f next).size = n.size := by
  unfold copyMatches; rw [Array.size_modify, Array.size_modify]

/-! ## one child in the second loop -/

/-- the body of the inner loop of `fill_failure_transitions` for one transition -/
def procChild (lm sim : Bool) (n : CNfa) (id : Nat) (b : UInt8) (next : Nat) : CNfa :=
  if lm && (sim || isMatch n next) then n.modify next fun st => { st with fail := DEAD }
  else
    let f := follow n (chaseFail n b n.size (n.getD id {}).fail) b
    copyMatches (n.modify next fun st => { st with fail := f }) f next

theorem fillState_cons (lm sim : Bool) (id : Nat) (b : UInt8) (next : Nat)
    (rest : List (UInt8 × Nat)) (n : CNfa) (queue seen : List Nat) :
    fillState lm sim false id ((b, next) :: rest) (n, queue, seen) =
      fillState lm sim false id rest (procChild lm sim n id b next, queue ++ [next], seen) := by
  rw [fillState]
  simp only [Bool.false_and, Bool.false_eq_true, if_false]
  unfold procChild
  split <;> rfl

section
variable {k : MatchKind} {Q : PatSet UInt8} {L : List (List UInt8)} {n0 n : CNfa}
  {pend Us : List (List UInt8)}

theorem isLeftmost_eq_true (k : MatchKind) : k.isLeftmost = true ↔ k ≠ .std := by
  cases k <;> simp [MatchKind.isLeftmost]

theorem procChild_FI (hB : PB Q L n0) (h : FI k Q L n0 n pend) {u : List UInt8} {b : UInt8}
    {rest : List UInt8} (hq : QI' L Us pend u (b :: rest)) (hc : u ++ [b] ∈ L) :
    FI k Q L n0
      (procChild k.isLeftmost (!(idsOf Q []).isEmpty) n (nu L u) b (nu L (u ++ [b])))
      (pend.erase (u ++ [b])) := by
  have hcp := hq.pending hc
  have htodo := h.todo _ hc hcp
  have hlt : nu L (u ++ [b]) < n.size := by rw [h.size]; exact hB.nu_lt_size (Or.inr hc)
  have hu := hq.cur
  obtain ⟨a, t, rfl⟩ : ∃ a t, u = a :: t := by
    cases u with
    | nil => exact absurd hu.1 hB.nil_not_mem
    | cons a t => exact ⟨a, t, rfl⟩
  have him : isMatch n (nu L (a :: t ++ [b])) = !(idsOf Q (a :: t ++ [b])).isEmpty := by
    rw [isMatch_eq, htodo.2]
  unfold procChild
  rw [him]
  by_cases hcond : (k.isLeftmost &&
      (!(idsOf Q []).isEmpty || !(idsOf Q (a :: t ++ [b])).isEmpty)) = true
  · rw [if_pos hcond]
    simp only [Bool.and_eq_true, Bool.or_eq_true, Bool.not_eq_true', List.isEmpty_eq_false_iff]
      at hcond
    obtain ⟨hlm, hids⟩ := hcond
    have hk : k ≠ .std := (isLeftmost_eq_true k).1 hlm
    have hget := getD_setFail n _ DEAD hlt
    apply h.update hB hq.pnodup hc (by rw [Array.size_modify])
    · intro sid hs; rw [hget, if_neg hs]
    · rw [hget, if_pos rfl]
    · rw [hget, if_pos rfl]
      have e : (a :: t ++ [b]) = a :: (t ++ [b]) := rfl
      rw [e, finalFail_dead k Q a (t ++ [b]) hk hids]; rfl
    · rw [hget, if_pos rfl]
      show (n.getD (nu L (a :: t ++ [b])) {}).matches_ = _
      rw [htodo.2, out_self k Q _ hk hids]
  · rw [if_neg hcond]
    have hk : k = .std ∨ (idsOf Q [] = [] ∧ idsOf Q (a :: t ++ [b]) = []) := by
      by_cases hstd : k = .std
      · exact Or.inl hstd
      · right
        have hlm := (isLeftmost_eq_true k).2 hstd
        rw [hlm] at hcond
        simp only [Bool.true_and, Bool.or_eq_true, Bool.not_eq_true', List.isEmpty_eq_false_iff,
          not_or, Decidable.not_not] at hcond
        exact hcond
    have hk1 : k = .std ∨ idsOf Q [] = [] := hk.imp id And.left
    have hk2 : k = .std ∨ idsOf Q (a :: t ++ [b]) = [] := hk.imp id And.right
    -- the failure target
    have hudone := h.done _ hu.1 hu.2.1
    have hlen := hB.len_lt_size (Or.inr hu.1)
    have hl := lsp_length_le Q t
    have hf : follow n (chaseFail n b n.size (n.getD (nu L (a :: t)) {}).fail) b =
        sidOf L (finalFail k Q (a :: t ++ [b])) := by
      rw [hudone.1, ← fail_child k Q a t b hk2]
      rcases finalFail_len k Q a t with e | e
      · rw [e]
        have hd : follow n DEAD b = DEAD := by rw [h.follow_eq0]; exact hB.goto_dead b
        show follow n (chaseFail n b n.size DEAD) b = DEAD
        rw [chaseFail_stop _ _ _ _ (by rw [hd]; simp [DEAD, FAIL]), hd]
      · rw [e]
        simp only [List.length_cons] at hlen
        exact chase_spec hB h hk1 b (lsp Q t).length (lsp Q t) (Nat.le_refl _) (hB.lsp_mem t)
          (fun v hv hvl => hq.low v hv (by simp only [List.length_cons]; omega)) n.size
          (by rw [h.size]; omega)
    -- its match list
    have hfm : (n.getD (sidOf L (finalFail k Q (a :: t ++ [b]))) {}).matches_ =
        Ideal.out k Q (finalFail k Q (a :: t ++ [b])) := by
      apply h.mats_sidOf hB
      have e : (a :: t ++ [b]) = a :: (t ++ [b]) := rfl
      rcases finalFail_len k Q a (t ++ [b]) with e' | e'
      · rw [e, e']; trivial
      · rw [e, e']
        show lsp Q (t ++ [b]) = [] ∨ _
        rcases hB.lsp_mem (t ++ [b]) with h0 | hm
        · exact Or.inl h0
        · right
          refine ⟨hm, hq.low _ hm ?_⟩
          have := lsp_length_le Q (t ++ [b])
          simp only [List.length_append, List.length_cons] at this ⊢
          exact this
    simp only []
    rw [hf]
    have hget := getD_setFail_copy n (nu L (a :: t ++ [b]))
      (sidOf L (finalFail k Q (a :: t ++ [b]))) hlt
    apply h.update hB hq.pnodup hc (size_setFail_copy _ _ _)
    · intro sid hs; rw [hget, if_neg hs]
    · rw [hget, if_pos rfl]
    · rw [hget, if_pos rfl]
    · rw [hget, if_pos rfl]
      show (n.getD (nu L (a :: t ++ [b])) {}).matches_ ++ _ = _
      rw [htodo.2, hfm]
      exact out_child k Q a (t ++ [b]) hk2

/-- the inner loop of the second phase -/
theorem fillState_spec (hB : PB Q L n0) (u : List UInt8) (seen : List Nat) :
    ∀ (rest : List (UInt8 × Nat)) (n : CNfa) (Us pend : List (List UInt8)),
      FI k Q L n0 n pend → QI' L Us pend u (rest.map (·.1)) → (rest.map (·.1)).Nodup →
      (∀ x, x ∈ rest → x ∈ (n0.getD (nu L u) {}).trans) →
      ∃ n' Us' pend',
        fillState k.isLeftmost (!(idsOf Q []).isEmpty) false (nu L u) rest
            (n, Us.map (nu L), seen) = (n', Us'.map (nu L), seen) ∧
          FI k Q L n0 n' pend' ∧ QI' L Us' pend' u [] ∧
          Us'.length + pend'.length = Us.length + pend.length
  | [], n, Us, pend, h, hq, _, _ => ⟨n, Us, pend, by rw [fillState], h, hq, rfl⟩
  | (b, next) :: rest, n, Us, pend, h, hq, hnd, hsub => by
    have hx := hB.child_of_mem hq.cur.1 (hsub _ List.mem_cons_self)
    obtain ⟨hc, hnext⟩ := hx
    simp only at hc hnext
    simp only [List.map_cons] at hq hnd
    have hnd' := List.nodup_cons.1 hnd
    have hcp := hq.pending hc
    have h' := procChild_FI hB h hq hc
    have hq' := hq.push hnd'.1 hc
    obtain ⟨n', Us', pend', e, hF, hQ, hcount⟩ :=
      fillState_spec hB u seen rest _ _ _ h' hq' hnd'.2
        (fun x hx => hsub x (List.mem_cons_of_mem _ hx))
    refine ⟨n', Us', pend', ?_, hF, hQ, ?_⟩
    · rw [fillState_cons, hnext, ← e, List.map_append]; rfl
    · rw [hcount, List.length_append, List.length_singleton, List.length_erase_of_mem hcp]
      have := List.length_pos_of_mem hcp
      omega

theorem sorted_keys_nodup {l : List (UInt8 × Nat)} (h : Sorted l) : (l.map (·.1)).Nodup := by
  rw [List.nodup_iff_pairwise_ne, List.pairwise_map]
  refine List.Pairwise.imp ?_ h
  intro x y hxy e
  rw [e] at hxy
  exact absurd hxy (UInt8.lt_irrefl _)

/-- the breadth-first loop -/
theorem bfs_spec (hB : PB Q L n0) (seen : List Nat) :
    ∀ (fuel : Nat) (n : CNfa) (Us pend : List (List UInt8)),
      FI k Q L n0 n pend → QI L Us pend → Us.length + pend.length < fuel →
      ∃ pend', FI k Q L n0
          (bfs k.isLeftmost (!(idsOf Q []).isEmpty) false fuel (n, Us.map (nu L), seen)) pend' ∧
        ∀ v, v ∈ L → v ∉ pend'
  | 0, _, _, _, _, _, hf => absurd hf (Nat.not_lt_zero _)
  | fuel + 1, n, [], pend, h, hq, _ => by
    refine ⟨pend, ?_, fun v hv => hq.done_all hB v.length v (Nat.le_refl _) hv⟩
    simp only [List.map_nil, bfs]; exact h
  | fuel + 1, n, u :: Us, pend, h, hq, hf => by
    have hu := hq.q1 u List.mem_cons_self
    simp only [List.map_cons, bfs]
    rw [h.trans]
    have hq' := hq.pop hB ((n0.getD (nu L u) {}).trans.map (·.1)) (by
      intro b hb
      exact List.mem_map.2 ⟨_, hB.mem_of_child (Or.inr hu.1) hb, rfl⟩)
    obtain ⟨n', Us', pend', e, hF, hQ, hcount⟩ :=
      fillState_spec hB u seen _ n Us pend h hq' (sorted_keys_nodup (hB.sorted _))
        (fun x hx => hx)
    rw [e]
    exact bfs_spec hB seen fuel n' Us' pend' hF hQ.finish (by
      simp only [List.length_cons] at hf; omega)

end

/-! ## the first loop (children of the start state) -/

/-- the body of the first loop for a transition that is not skipped -/
def procStart (lm sim : Bool) (n : CNfa) (next : Nat) : CNfa :=
  let n := if lm && (sim || isMatch n next)
    then n.modify next fun st => { st with fail := DEAD } else n
  if !lm then copyMatches n SU next else n

theorem fillStart_cons (lm sim : Bool) (b : UInt8) (next : Nat) (rest : List (UInt8 × Nat))
    (n : CNfa) (queue seen : List Nat) :
    fillStart lm sim ((b, next) :: rest) (n, queue, seen) =
      if (next == SU || seen.contains next) = true then fillStart lm sim rest (n, queue, seen)
      else fillStart lm sim rest (procStart lm sim n next, queue ++ [next], next :: seen) := by
  rw [fillStart]; rfl

/-- bookkeeping of the first loop: `keys` are the bytes still to come -/
structure SI (L Us pend : List (List UInt8)) (keys : List UInt8) : Prop where
  pnodup : pend.Nodup
  us : ∀ x, x ∈ Us ↔ ∃ b : UInt8, x = [b] ∧ [b] ∈ L ∧ b ∉ keys
  pd : ∀ v, v ∈ L → (v ∉ pend ↔ v ∈ Us)
  nodup : Us.Nodup
  count : Us.length + pend.length = L.length

section
variable {k : MatchKind} {Q : PatSet UInt8} {L : List (List UInt8)} {n0 n : CNfa}
  {pend Us : List (List UInt8)}

theorem failStd_single (Q : PatSet UInt8) (b : UInt8) : failStd Q [b] = [] := rfl

theorem finalFail_single (k : MatchKind) (Q : PatSet UInt8) (b : UInt8) :
    finalFail k Q [b] =
      if (k.isLeftmost && (!(idsOf Q []).isEmpty || !(idsOf Q [b]).isEmpty)) = true then .dead
      else .at [] := by
  unfold finalFail
  rw [failStd_single]
  have : [b].length - ([] : List UInt8).length = 1 := rfl
  rw [this, blocked_single]
  cases k <;> simp [MatchKind.isLeftmost]

theorem out_single (k : MatchKind) (Q : PatSet UInt8) (b : UInt8) :
    Ideal.out k Q (.at [b]) =
      if k.isLeftmost = true then idsOf Q [b] else idsOf Q [b] ++ idsOf Q [] := by
  by_cases hstd : k = .std
  · subst hstd
    simp only [MatchKind.isLeftmost, Bool.false_eq_true, if_false, Ideal.out]
    rw [outStd_cons, outStd_nil]
  · rw [if_pos ((isLeftmost_eq_true k).2 hstd)]
    by_cases hids : idsOf Q [] ≠ [] ∨ idsOf Q [b] ≠ []
    · exact out_self k Q [b] hstd hids
    · simp only [not_or, Decidable.not_not] at hids
      have hout : Ideal.out k Q (.at [b]) = outLm Q [b] := by
        cases k with
        | std => exact absurd rfl hstd
        | lf => rfl
        | ll => rfl
      rw [hout, outLm_step hids.2, hids.2]
      have hl : lsp Q ([] : List UInt8) = [] := rfl
      rw [hl, outLm_nil_eq, hids.1]
      split <;> rfl

theorem procStart_FI (hB : PB Q L n0) (h : FI k Q L n0 n pend) (hnd : pend.Nodup) {b : UInt8}
    (hc : [b] ∈ L) (hcp : [b] ∈ pend) :
    FI k Q L n0 (procStart k.isLeftmost (!(idsOf Q []).isEmpty) n (nu L [b]))
      (pend.erase [b]) := by
  have htodo := h.todo _ hc hcp
  have hlt : nu L [b] < n.size := by rw [h.size]; exact hB.nu_lt_size (Or.inr hc)
  have him : isMatch n (nu L [b]) = !(idsOf Q [b]).isEmpty := by rw [isMatch_eq, htodo.2]
  have hSU : (n.getD SU {}).matches_ = idsOf Q [] := by
    rw [h.keep SU (by simp [SU])]
    have := hB.mats [] (Or.inl rfl)
    rw [nu_nil] at this; exact this
  unfold procStart
  rw [him]
  by_cases hstd : k = .std
  · subst hstd
    simp only [MatchKind.isLeftmost, Bool.false_and, Bool.false_eq_true, if_false, Bool.not_false,
      if_true]
    have hget := getD_copyMatches n SU (nu L [b]) hlt
    apply h.update hB hnd hc (by unfold copyMatches; rw [Array.size_modify])
    · intro sid hs; rw [hget, if_neg hs]
    · rw [hget, if_pos rfl]
    · rw [hget, if_pos rfl, finalFail_single]
      simp only [MatchKind.isLeftmost, Bool.false_and, Bool.false_eq_true, if_false, sidOf, nu_nil]
      exact htodo.1
    · rw [hget, if_pos rfl, out_single]
      simp only [MatchKind.isLeftmost, Bool.false_eq_true, if_false]
      show (n.getD (nu L [b]) {}).matches_ ++ (n.getD SU {}).matches_ = _
      rw [htodo.2, hSU]
  · have hlm := (isLeftmost_eq_true k).2 hstd
    simp only [hlm, Bool.true_and, Bool.not_true, Bool.false_eq_true, if_false]
    by_cases hcond : (!(idsOf Q []).isEmpty || !(idsOf Q [b]).isEmpty) = true
    · rw [if_pos hcond]
      have hget := getD_setFail n (nu L [b]) DEAD hlt
      apply h.update hB hnd hc (by rw [Array.size_modify])
      · intro sid hs; rw [hget, if_neg hs]
      · rw [hget, if_pos rfl]
      · rw [hget, if_pos rfl, finalFail_single, hlm, Bool.true_and, if_pos hcond]; rfl
      · rw [hget, if_pos rfl, out_single, if_pos hlm]
        exact htodo.2
    · rw [if_neg hcond]
      apply h.update hB hnd hc rfl
      · intro sid _; rfl
      · rfl
      · rw [finalFail_single, hlm, Bool.true_and, if_neg hcond]
        simp only [sidOf, nu_nil]; exact htodo.1
      · rw [out_single, if_pos hlm]; exact htodo.2

theorem fillStart_spec (hB : PB Q L n0) :
    ∀ (rest : List (UInt8 × Nat)) (n : CNfa) (Us pend : List (List UInt8)) (seen : List Nat),
      FI k Q L n0 n pend → SI L Us pend (rest.map (·.1)) → (rest.map (·.1)).Nodup →
      (∀ x, x ∈ rest → x ∈ (n0.getD SU {}).trans) →
      (∀ s, s ∈ seen → ∃ x, x ∈ Us ∧ s = nu L x) →
      ∃ n' Us' pend' seen',
        fillStart k.isLeftmost (!(idsOf Q []).isEmpty) rest (n, Us.map (nu L), seen) =
            (n', Us'.map (nu L), seen') ∧
          FI k Q L n0 n' pend' ∧ SI L Us' pend' []
  | [], n, Us, pend, seen, h, hs, _, _, _ => ⟨n, Us, pend, seen, by rw [fillStart], h, hs⟩
  | (b, next) :: rest, n, Us, pend, seen, h, hs, hnd, hsub, hseen => by
    simp only [List.map_cons] at hs hnd
    have hnd' := List.nodup_cons.1 hnd
    rw [fillStart_cons]
    rcases hB.root_of_mem (hsub _ List.mem_cons_self) with ⟨hc, hnext⟩ | ⟨hc, hnext⟩
    · simp only at hc hnext
      subst hnext
      -- a child of the start state
      have hcU : [b] ∉ Us := by
        intro hm
        obtain ⟨b', e, _, hb'⟩ := (hs.us _).1 hm
        have : b = b' := by simpa using e
        subst this
        exact hb' List.mem_cons_self
      have hcp : [b] ∈ pend := by
        apply Classical.byContradiction
        intro hn; exact hcU ((hs.pd _ hc).1 hn)
      have hn1 : (nu L [b] == SU) = false := by
        have := nu_ge (L := L) (u := [b]) (by simp)
        simp only [SU, beq_eq_false_iff_ne, ne_eq]; omega
      have hn2 : seen.contains (nu L [b]) = false := by
        cases hh : seen.contains (nu L [b])
        · rfl
        · exfalso
          rw [List.contains_iff_mem] at hh
          obtain ⟨x, hx, e⟩ := hseen _ hh
          have hxL : x ∈ L := by
            obtain ⟨b', e', hb', _⟩ := (hs.us _).1 hx
            rw [e']; exact hb'
          have := nu_inj (Or.inr hc) (Or.inr hxL) e
          rw [← this] at hx; exact hcU hx
      rw [hn1, hn2]
      simp only [Bool.or_false, Bool.false_eq_true, if_false]
      have h' := procStart_FI hB h hs.pnodup hc hcp
      have hmem : ∀ x, x ∈ pend.erase [b] ↔ x ≠ [b] ∧ x ∈ pend := fun x =>
        hs.pnodup.mem_erase_iff
      have hs' : SI L (Us ++ [[b]]) (pend.erase [b]) (rest.map (·.1)) := by
        refine { pnodup := hs.pnodup.erase _, us := ?_, pd := ?_, nodup := ?_, count := ?_ }
        · intro x
          rw [List.mem_append, List.mem_singleton, hs.us]
          constructor
          · rintro (⟨b', e, hb', hk'⟩ | e)
            · exact ⟨b', e, hb', fun hm => hk' (List.mem_cons_of_mem _ hm)⟩
            · exact ⟨b, e, hc, hnd'.1⟩
          · rintro ⟨b', e, hb', hk'⟩
            by_cases ebb : b' = b
            · right; rw [e, ebb]
            · left
              refine ⟨b', e, hb', fun hm => ?_⟩
              rcases List.mem_cons.1 hm with e' | e'
              · exact ebb e'
              · exact hk' e'
        · intro v hv
          rw [List.mem_append, List.mem_singleton, hmem]
          by_cases ev : v = [b]
          · constructor
            · intro _; exact Or.inr ev
            · intro _ hh; exact hh.1 ev
          · constructor
            · intro hh
              left; exact (hs.pd v hv).1 (fun hp => hh ⟨ev, hp⟩)
            · intro hh hp
              rcases hh with hh | hh
              · exact (hs.pd v hv).2 hh hp.2
              · exact ev hh
        · rw [List.nodup_append]
          refine ⟨hs.nodup, by simp, ?_⟩
          intro x hx y hy
          rw [List.mem_singleton] at hy
          subst hy
          intro e; subst e; exact hcU hx
        · rw [List.length_append, List.length_singleton, List.length_erase_of_mem hcp]
          have := List.length_pos_of_mem hcp
          have := hs.count
          omega
      obtain ⟨n', Us', pend', seen', e, hF, hS⟩ :=
        fillStart_spec hB rest _ (Us ++ [[b]]) _ (nu L [b] :: seen) h' hs' hnd'.2
          (fun x hx => hsub x (List.mem_cons_of_mem _ hx)) (by
            intro s hs
            rcases List.mem_cons.1 hs with e | e
            · exact ⟨[b], List.mem_append.2 (Or.inr (List.mem_singleton.2 rfl)), e⟩
            · obtain ⟨x, hx, e'⟩ := hseen s e
              exact ⟨x, List.mem_append.2 (Or.inl hx), e'⟩)
      refine ⟨n', Us', pend', seen', ?_, hF, hS⟩
      rw [← e, List.map_append]; rfl
    · simp only at hc hnext
      -- no child on this byte: the transition is the start state's self loop
      have hn1 : (next == SU) = true := by rw [hnext]; simp
      rw [hn1]
      simp only [Bool.true_or, if_true]
      have hs' : SI L Us pend (rest.map (·.1)) := by
        refine { hs with us := ?_ }
        intro x
        rw [hs.us]
        constructor
        · rintro ⟨b', e, hb', hk'⟩
          exact ⟨b', e, hb', fun hm => hk' (List.mem_cons_of_mem _ hm)⟩
        · rintro ⟨b', e, hb', hk'⟩
          refine ⟨b', e, hb', fun hm => ?_⟩
          rcases List.mem_cons.1 hm with e' | e'
          · rw [e'] at hb'; exact hc hb'
          · exact hk' e'
      exact fillStart_spec hB rest n Us pend seen h hs' hnd'.2
        (fun x hx => hsub x (List.mem_cons_of_mem _ hx)) hseen

/-- after the first loop the queue holds exactly the nodes of depth one -/
theorem SI.toQI (hB : PB Q L n0) (hs : SI L Us pend []) : QI L Us pend := by
  have hlen : ∀ x, x ∈ Us → x.length = 1 := by
    intro x hx
    obtain ⟨b, e, _, _⟩ := (hs.us x).1 hx
    rw [e]; rfl
  have hUL : ∀ x, x ∈ Us → x ∈ L := by
    intro x hx
    obtain ⟨b, e, hb, _⟩ := (hs.us x).1 hx
    rw [e]; exact hb
  refine
    { q1 := fun x hx => ⟨hUL x hx, (hs.pd x (hUL x hx)).2 hx⟩, sorted := ?_, nodup := hs.nodup,
      range := ?_, pnodup := hs.pnodup, d1 := ?_, step := ?_ }
  · apply List.pairwise_of_forall_mem_list
    intro x hx y hy
    rw [hlen x hx, hlen y hy]; exact Nat.le_refl _
  · intro x hx y hy
    rw [hlen x hx, hlen y hy]; omega
  · intro b hb
    exact (hs.pd _ hb).2 ((hs.us _).2 ⟨b, rfl, hb, by simp⟩)
  · intro p b hp hpb
    have hp0 := hB.ne_nil hp
    have h2 : p ++ [b] ∉ Us := by
      intro hm
      have := hlen _ hm
      simp only [List.length_append, List.length_singleton] at this
      exact hp0 (List.eq_nil_of_length_eq_zero (by omega))
    constructor
    · intro hh; exact absurd ((hs.pd _ hpb).1 hh) h2
    · rintro ⟨h1, h3⟩; exact absurd ((hs.pd _ hp).1 h1) h3

/-- (b)/(c) the failure phase: every trie node gets its final failure link and match list -/
theorem fillFailure_spec (hB : PB Q L n0) :
    ∃ pend, FI k Q L n0 (fillFailure k false n0) pend ∧ ∀ v, v ∈ L → v ∉ pend := by
  have hsim : isMatch n0 SU = !(idsOf Q []).isEmpty := by
    have := hB.mats [] (Or.inl rfl)
    rw [nu_nil] at this
    rw [isMatch_eq, this]
  have hs0 : SI L [] L ((n0.getD SU {}).trans.map (·.1)) := by
    refine { pnodup := hB.nodup, us := ?_, pd := ?_, nodup := List.nodup_nil, count := by simp }
    · intro x
      constructor
      · intro hx; simp at hx
      · rintro ⟨b, _, _, hk⟩
        obtain ⟨t, ht⟩ := hB.full b
        exact absurd (List.mem_map.2 ⟨_, ht, rfl⟩) hk
    · intro v hv
      constructor
      · intro hh; exact absurd hv hh
      · intro hh; simp at hh
  obtain ⟨n', Us', pend', seen', e, hF, hS⟩ :=
    fillStart_spec (k := k) hB (n0.getD SU {}).trans n0 [] L [] (FI.init hB) hs0
      (sorted_keys_nodup (hB.sorted _)) (fun x hx => hx) (by intro s hs; simp at hs)
  unfold fillFailure
  simp only [hsim]
  simp only [List.map_nil] at e
  rw [e]
  simp only [Bool.false_eq_true, if_false]
  apply bfs_spec hB [] n'.size n' Us' pend' hF (hS.toQI hB)
  rw [hS.count, hF.size, hB.size]; omega

end

end AcVerif.L1cP
