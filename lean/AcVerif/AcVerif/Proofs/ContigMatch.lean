import AcVerif.Proofs.ContigDecode
/-!
# L1e proofs, part 7: decoding the match words of a written state
-/
namespace AcVerif.L1eP
open AcVerif AcVerif.CNfa AcVerif.L1cP AcVerif.L1dP

/-- `match_len` / `match_pattern` over an arbitrary word reader -/
def matchListW (rd : Nat → Nat) (al sid : Nat) : List Nat :=
  let kind := rd sid % 256
  let start := if kind == KIND_DENSE then sid + 2 + al else sid + 2 + u32Len kind + kind
  let packed := rd start
  if packed ≥ 2147483648 then [packed - 2147483648]
  else (List.range packed).map fun i => rd (start + 1 + i)

theorem matchList_eq (m : ContigM) (sid : Nat) :
    m.matchList sid = matchListW (fun i => m.repr.getD i 0) m.alphabetLen sid := rfl

theorem map_range_getD (ms : List Nat) : ((List.range ms.length).map fun i => ms.getD i 0) = ms := by
  apply List.ext_getElem
  · simp
  · intro i h1 h2
    simp [List.getD_eq_getElem?_getD, h2]

/-- reading the match words, given where they start -/
theorem decode_tail {rd : Nat → Nat} {st : CState} {start : Nat} (hm : st.matches_ ≠ [])
    (hlen : st.matches_.length < 2147483648)
    (hrd : ∀ j, j < (wTail st).length → rd (start + j) = (wTail st).getD j 0) :
    (if rd start ≥ 2147483648 then [rd start - 2147483648]
      else (List.range (rd start)).map fun i => rd (start + 1 + i)) = st.matches_ := by
  have he : st.matches_.isEmpty = false := by
    cases h : st.matches_ with
    | nil => exact absurd h hm
    | cons a l => rfl
  match hms : st.matches_ with
  | [] => exact absurd hms hm
  | [pid] =>
    have ht : wTail st = [2147483648 + pid] := by
      rw [wTail_def, he, hms]; rfl
    rw [ht] at hrd
    have h0 := hrd 0 (by simp)
    simp only [Nat.add_zero, List.getD_cons_zero] at h0
    rw [h0, if_pos (Nat.le_add_right _ _), Nat.add_sub_cancel_left]
  | a :: c :: l =>
    have ht : wTail st = (a :: c :: l).length :: (a :: c :: l) := by
      rw [wTail_def, he, hms]; rfl
    rw [hms] at hlen
    rw [ht] at hrd
    have h0 := hrd 0 (by simp)
    simp only [Nat.add_zero, List.getD_cons_zero] at h0
    rw [h0, if_neg (by omega)]
    have : ∀ i, i < (a :: c :: l).length → rd (start + 1 + i) = (a :: c :: l).getD i 0 := by
      intro i hi
      have := hrd (1 + i) (by simp only [List.length_cons] at hi ⊢; omega)
      rw [← Nat.add_assoc] at this
      rw [this, Nat.add_comm 1 i]
      rfl
    have e : ((List.range (a :: c :: l).length).map fun i => rd (start + 1 + i)) =
        (List.range (a :: c :: l).length).map fun i => (a :: c :: l).getD i 0 :=
      List.map_congr_left fun i hi => this i (List.mem_range.1 hi)
    rw [e, map_range_getD]

section
variable {classOf : UInt8 → Nat} {al : Nat} {newId : Nat → Nat} {st : CState} {fd : Bool}
variable {rd : Nat → Nat} {o : Nat}

/-- the match list decoded from the words of a written match state -/
theorem decode_matches (hm : st.matches_ ≠ []) (hlen : st.matches_.length < 2147483648)
    (hrd : ∀ j, j < (writeState classOf al st newId fd).length →
      rd (o + j) = (writeState classOf al st newId fd).getD j 0) :
    matchListW rd al o = st.matches_ := by
  unfold matchListW
  rcases writeState_cases st fd with hd | ⟨h1, _, b0, t0, h3, h4⟩ | ⟨h1, h2, h3⟩
  · rw [writeState_dense _ _ _ _ _ hd] at hrd
    have hsz := denseRow_size classOf al st newId
    have h0 : rd o = KIND_DENSE := by
      have := hrd 0 (by simp)
      simpa using this
    have hk : (KIND_DENSE % 256 == KIND_DENSE) = true := by decide
    simp only [h0, hk, if_true]
    apply decode_tail hm hlen
    intro j hj
    have := hrd (2 + al + j) (by simp [hsz]; omega)
    rw [← Nat.add_assoc, ← Nat.add_assoc] at this
    rw [this]
    have e := getD_append_right' ([KIND_DENSE, newId st.fail] ++ (denseRow classOf al st newId).toList)
      (wTail st) j 0
    simp only [List.length_append, List.length_cons, List.length_nil, Array.length_toList, hsz] at e
    rw [← e]
  · exact absurd h4 hm
  · rw [writeState_sparse _ _ _ _ _ h1 h2 h3] at hrd
    have hcl_len : (st.trans.map fun x => classOf x.1).length = st.trans.length := List.length_map _
    have hch := chunks_length (st.trans.map fun x => classOf x.1) (st.trans.length + 1)
      (by rw [hcl_len]; omega)
    rw [hcl_len] at hch
    have h0 : rd o = st.trans.length := by
      have := hrd 0 (by simp)
      simpa using this
    have hkind : rd o % 256 = st.trans.length := by rw [h0]; omega
    have hk1 : (st.trans.length == KIND_DENSE) = false := by
      simp only [KIND_DENSE, beq_eq_false_iff_ne, ne_eq]; omega
    simp only [hkind, hk1, Bool.false_eq_true, if_false]
    apply decode_tail hm hlen
    intro j hj
    have := hrd (2 + u32Len st.trans.length + st.trans.length + j) (by simp [hch]; omega)
    rw [← Nat.add_assoc, ← Nat.add_assoc, ← Nat.add_assoc] at this
    rw [this]
    have e := getD_append_right' ([st.trans.length, newId st.fail] ++
      writeState.chunks (st.trans.map fun x => classOf x.1) (st.trans.length + 1) ++
      (st.trans.map fun x => newId x.2)) (wTail st) j 0
    simp only [List.length_append, List.length_cons, List.length_nil, List.length_map, hch] at e
    rw [← e]

end

end AcVerif.L1eP
