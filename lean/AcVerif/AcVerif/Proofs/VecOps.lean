import AcVerif.Proofs.VecBytes
/-!
# The vector operations of `AcVerif/Packed/Vector.lean` as list equations

* `laneOfSlim` / `laneOfFat` – the byte → lane encodings;
* `V.and`, `V.splat`, `V.isZero`, the three `shift_in` flavours and the nybble
  extraction commute with the encodings;
* `V.shuffleBytes` with nybble indices is a table lookup per 128-bit lane.
-/
namespace AcVerif

/-- slim lanes are the bytes themselves -/
def laneOfSlim (v : Vec8) : List Nat := v.map (·.toNat)

/-- fat lanes are low-half byte + 256 * high-half byte -/
def laneOfFat (v : Vec8) : List Nat :=
  (List.range 16).map fun j => (v.getD j 0).toNat + 256 * (v.getD (j + 16) 0).toNat

namespace VecP
open AcVerif.PackedP

/-! ## generic list facts -/

theorem zipWith_replicate_right {α β γ : Type} (f : α → β → γ) (l : List α) (n : Nat) (c : β)
    (h : l.length = n) : List.zipWith f l (List.replicate n c) = l.map (f · c) := by
  induction l generalizing n with
  | nil => simp
  | cons x xs ih =>
    cases n with
    | zero => cases h
    | succ n =>
      rw [List.replicate_succ, List.zipWith_cons_cons, List.map_cons, ih n (by simpa using h)]

theorem zipWith_map_same {α β γ δ : Type} (f : β → γ → δ) (g : α → β) (h : α → γ) (l : List α) :
    List.zipWith f (l.map g) (l.map h) = l.map fun a => f (g a) (h a) := by
  rw [List.zipWith_map, List.zipWith_self]

theorem range_map_getD {α β : Type} (F : α → β) (l : List α) (d : α) :
    (List.range l.length).map (fun i => F (l.getD i d)) = l.map F := by
  apply List.ext_getElem
  · simp
  · intro i h1 h2
    have hi : i < l.length := by simpa using h2
    rw [List.getElem_map, List.getElem_map, List.getElem_range, getD_of_lt _ _ _ hi]

theorem getD_take_of_lt {α : Type} (l : List α) (w k : Nat) (d : α) (h : k < w) :
    (l.take w).getD k d = l.getD k d := by
  rw [List.getD_eq_getElem?_getD, List.getD_eq_getElem?_getD, List.getElem?_take_of_lt h]

theorem getD_drop {α : Type} (l : List α) (n k : Nat) (d : α) :
    (l.drop n).getD k d = l.getD (n + k) d := by
  rw [List.getD_eq_getElem?_getD, List.getD_eq_getElem?_getD, List.getElem?_drop]

theorem getD_mem_or {α : Type} (l : List α) (i : Nat) (d : α) (h : i < l.length) : l.getD i d ∈ l := by
  rw [getD_of_lt _ _ _ h]; exact List.getElem_mem h

theorem zipWith4 {α β : Type} (g : α → α → α) (G : β → β → β) (F : α → α → β)
    (hF : ∀ x y x' y', F (g x y) (g x' y') = G (F x x') (F y y')) :
    ∀ a1 b1 a2 b2 : List α,
      List.zipWith F (List.zipWith g a1 b1) (List.zipWith g a2 b2) =
        List.zipWith G (List.zipWith F a1 a2) (List.zipWith F b1 b2) := by
  intro a1
  induction a1 with
  | nil => intro b1 a2 b2; simp
  | cons x a1 ih =>
    intro b1 a2 b2
    cases b1 with
    | nil => simp
    | cons y b1 =>
      cases a2 with
      | nil => simp
      | cons x' a2 =>
        cases b2 with
        | nil => simp
        | cons y' b2 =>
          simp only [List.zipWith_cons_cons]
          rw [hF, ih]

/-! ## `and`, `splat`, nybbles -/

theorem and_length (a b : Vec8) (w : Nat) (ha : a.length = w) (hb : b.length = w) :
    (V.and a b).length = w := by
  unfold V.and; rw [List.length_zipWith]; omega

theorem and_splat (chunk : Vec8) (w : Nat) (c : UInt8) (h : chunk.length = w) :
    V.and chunk (V.splat w c) = chunk.map (· &&& c) :=
  zipWith_replicate_right _ chunk w c h

theorem splat_ff_and (v : Vec8) (w : Nat) (h : v.length = w) : V.and (V.splat w 0xFF) v = v := by
  unfold V.and V.splat
  induction v generalizing w with
  | nil => simp
  | cons x xs ih =>
    cases w with
    | zero => cases h
    | succ w =>
      rw [List.replicate_succ, List.zipWith_cons_cons, ih w (by simpa using h), and_ff]

/-- `_mm_srli_epi16::<4>` + `and 0xF` is the byte-wise high nybble -/
theorem shift4_eq (a : Vec8) : V.shift8bitLaneRight4 a = a.map (fun b : UInt8 => b >>> 4) := by
  unfold V.shift8bitLaneRight4
  simp only
  rw [and_splat _ _ _ (by simp), List.map_map, ← range_map_getD (fun b : UInt8 => b >>> 4) a 0]
  apply List.map_congr_left
  intro i _
  simp only [Function.comp]
  split
  · exact srli_even _ _
  · exact hi_nyb_and _

theorem hlo_eq (chunk : Vec8) (w : Nat) (h : chunk.length = w) :
    V.and chunk (V.splat w 0xF) = chunk.map (· &&& 0xF) := and_splat chunk w 0xF h

theorem hhi_eq (chunk : Vec8) (w : Nat) (h : chunk.length = w) :
    V.and (V.shift8bitLaneRight4 chunk) (V.splat w 0xF) = chunk.map (fun b : UInt8 => b >>> 4) := by
  rw [shift4_eq, and_splat _ _ _ (by simpa using h), List.map_map]
  apply List.map_congr_left
  intro b _
  exact hi_nyb_and b

/-! ## `shuffle_bytes` with nybble indices -/

theorem shuffle16 (tbl idx : Vec8) (h : idx.length ≤ 16) (hn : ∀ x ∈ idx, x.toNat < 16) :
    V.shuffleBytes tbl idx = idx.map fun x => tbl.getD x.toNat 0 := by
  unfold V.shuffleBytes
  rw [← range_map_getD (fun x => tbl.getD x.toNat 0) idx 0]
  apply List.map_congr_left
  intro i hi
  have hi' : i < idx.length := List.mem_range.1 hi
  have hx := nyb_top_clear _ (hn _ (getD_mem_or idx i 0 hi'))
  simp only
  rw [hx.1, hx.2]
  have : i / 16 = 0 := by omega
  simp [this]

theorem shuffle32 (tbl i1 i2 : Vec8) (h1 : i1.length = 16) (h2 : i2.length ≤ 16)
    (hn1 : ∀ x ∈ i1, x.toNat < 16) (hn2 : ∀ x ∈ i2, x.toNat < 16) :
    V.shuffleBytes tbl (i1 ++ i2) =
      (i1.map fun x => tbl.getD x.toNat 0) ++ (i2.map fun x => tbl.getD (16 + x.toNat) 0) := by
  unfold V.shuffleBytes
  rw [List.length_append, List.range_add, List.map_append, List.map_map]
  congr 1
  · rw [← range_map_getD (fun x => tbl.getD x.toNat 0) i1 0]
    apply List.map_congr_left
    intro i hi
    have hi' : i < i1.length := List.mem_range.1 hi
    have hg : (i1 ++ i2).getD i 0 = i1.getD i 0 := by
      rw [List.getD_eq_getElem?_getD, List.getD_eq_getElem?_getD, List.getElem?_append_left hi']
    have hx := nyb_top_clear _ (hn1 _ (getD_mem_or i1 i 0 hi'))
    simp only
    rw [hg, hx.1, hx.2]
    have : i / 16 = 0 := by omega
    simp [this]
  · rw [← range_map_getD (fun x => tbl.getD (16 + x.toNat) 0) i2 0]
    apply List.map_congr_left
    intro i hi
    have hi' : i < i2.length := List.mem_range.1 hi
    have hg : (i1 ++ i2).getD (i1.length + i) 0 = i2.getD i 0 := by
      rw [List.getD_eq_getElem?_getD, List.getD_eq_getElem?_getD,
        List.getElem?_append_right (by omega)]
      congr 2; omega
    have hx := nyb_top_clear _ (hn2 _ (getD_mem_or i2 i 0 hi'))
    simp only [Function.comp]
    rw [hg, hx.1, hx.2]
    have : (i1.length + i) / 16 = 1 := by omega
    simp [this]

/-! ## the `shift_in` flavours -/

theorem alignr16_eq (k : Nat) (a b : Vec8) (hb : b.length = 16) (hk : k ≤ 16) :
    V.alignr16 a b (16 - k) = b.drop (16 - k) ++ a.take (16 - k) := by
  unfold V.alignr16
  rw [List.drop_append, List.take_append, List.length_drop, hb]
  have e1 : 16 - k - 16 = 0 := by omega
  have e2 : 16 - (16 - (16 - k)) = 16 - k := by omega
  rw [e1, List.drop_zero, e2, List.take_of_length_le (by rw [List.length_drop]; omega)]

theorem shiftIn128_slim (k : Nat) (a b : Vec8) (ha : a.length = 16) (hb : b.length = 16)
    (hk : k ≤ 16) :
    laneOfSlim (V.shiftIn128 k a b) = shiftIn k (laneOfSlim a) (laneOfSlim b) := by
  unfold V.shiftIn128 shiftIn laneOfSlim
  rw [alignr16_eq k a b hb hk, List.map_append, List.map_drop, List.map_take, List.length_map,
    List.length_map, ha, hb]

theorem shiftIn256_eq (k : Nat) (a b : Vec8) (ha : a.length = 32) (hb : b.length = 32)
    (hk : k ≤ 16) :
    V.shiftIn256 k a b = b.drop (32 - k) ++ a.take (32 - k) := by
  unfold V.shiftIn256
  simp only
  have hb2 : (b.drop 16).length = 16 := by rw [List.length_drop]; omega
  have ha1 : (a.take 16).length = 16 := by rw [List.length_take]; omega
  have e2 : 32 - k = 16 + (16 - k) := by omega
  rw [e2, List.take_add, List.take_left' hb2, List.drop_left' hb2, alignr16_eq k _ _ hb2 hk,
    alignr16_eq k _ _ ha1 hk, List.drop_drop, List.append_assoc]
  congr 1
  rw [← List.append_assoc, List.take_append_drop]

theorem shiftIn256_slim (k : Nat) (a b : Vec8) (ha : a.length = 32) (hb : b.length = 32)
    (hk : k ≤ 16) :
    laneOfSlim (V.shiftIn256 k a b) = shiftIn k (laneOfSlim a) (laneOfSlim b) := by
  rw [shiftIn256_eq k a b ha hb hk]
  unfold shiftIn laneOfSlim
  rw [List.map_append, List.map_drop, List.map_take, List.length_map, List.length_map, ha, hb]

/-! ## the slim encoding -/

theorem and_slim (a b : Vec8) :
    laneOfSlim (V.and a b) = List.zipWith (· &&& ·) (laneOfSlim a) (laneOfSlim b) := by
  unfold laneOfSlim V.and
  rw [List.map_zipWith, List.zipWith_map]
  simp only [UInt8.toNat_and]

theorem splat_slim (w : Nat) : laneOfSlim (V.splat w 0xFF) = allOnes 8 w := by
  unfold laneOfSlim V.splat allOnes
  rw [List.map_replicate]
  rfl

theorem isZero_slim (v : Vec8) : V.isZero v = (laneOfSlim v).all (· == 0) := by
  unfold V.isZero laneOfSlim
  rw [List.all_map]
  congr 1
  funext b
  exact byte_beq_zero b

/-! ## the fat encoding -/

def fatPair (x y : UInt8) : Nat := x.toNat + 256 * y.toNat

theorem laneOfFat_append (a b : Vec8) (ha : a.length = 16) (hb : b.length = 16) :
    laneOfFat (a ++ b) = List.zipWith fatPair a b := by
  unfold laneOfFat
  apply List.ext_getElem
  · simp [ha, hb]
  · intro i h1 h2
    have hi : i < 16 := by simpa using h1
    have e1 : (a ++ b).getD i 0 = a[i]'(by omega) := by
      rw [List.getD_eq_getElem?_getD, List.getElem?_append_left (by omega),
        List.getElem?_eq_getElem (by omega)]
      rfl
    have e2 : (a ++ b).getD (i + 16) 0 = b[i]'(by omega) := by
      rw [List.getD_eq_getElem?_getD, List.getElem?_append_right (by omega),
        List.getElem?_eq_getElem (by omega)]
      simp [ha]
    simp only [List.getElem_map, List.getElem_range, List.getElem_zipWith, e1, e2, fatPair]

theorem laneOfFat_eq (v : Vec8) (h : v.length = 32) :
    laneOfFat v = List.zipWith fatPair (v.take 16) (v.drop 16) := by
  have := laneOfFat_append (v.take 16) (v.drop 16) (by rw [List.length_take]; omega)
    (by rw [List.length_drop]; omega)
  rwa [List.take_append_drop] at this

theorem laneOfFat_length (v : Vec8) : (laneOfFat v).length = 16 := by
  unfold laneOfFat; simp

theorem fatPair_and (x y x' y' : UInt8) :
    fatPair (x &&& y) (x' &&& y') = fatPair x x' &&& fatPair y y' := by
  unfold fatPair
  rw [UInt8.toNat_and, UInt8.toNat_and, and_combine _ _ _ _ x.toNat_lt y.toNat_lt]

theorem and_fat (a b : Vec8) (ha : a.length = 32) (hb : b.length = 32) :
    laneOfFat (V.and a b) = List.zipWith (· &&& ·) (laneOfFat a) (laneOfFat b) := by
  rw [laneOfFat_eq _ (and_length a b 32 ha hb), laneOfFat_eq a ha, laneOfFat_eq b hb]
  unfold V.and
  rw [List.take_zipWith, List.drop_zipWith]
  exact zipWith4 (· &&& ·) (· &&& ·) fatPair fatPair_and _ _ _ _

theorem splat_fat : laneOfFat (V.splat 32 0xFF) = allOnes 16 16 := by decide

theorem zipWith_fatPair_all (a b : Vec8) (h : a.length = b.length) :
    (List.zipWith fatPair a b).all (· == 0) = (a.all (· == 0) && b.all (· == 0)) := by
  induction a generalizing b with
  | nil =>
    cases b with
    | nil => rfl
    | cons y ys => cases h
  | cons x xs ih =>
    cases b with
    | nil => cases h
    | cons y ys =>
      rw [List.zipWith_cons_cons, List.all_cons, List.all_cons, List.all_cons,
        ih ys (by simpa using h)]
      have : (fatPair x y == 0) = ((x == 0) && (y == 0)) := by
        rw [byte_beq_zero, byte_beq_zero]
        unfold fatPair
        rw [Bool.eq_iff_iff]
        simp only [beq_iff_eq, Bool.and_eq_true]
        omega
      rw [this]
      cases (x == 0) <;> cases (y == 0) <;> simp

theorem isZero_fat (v : Vec8) (h : v.length = 32) : V.isZero v = (laneOfFat v).all (· == 0) := by
  rw [laneOfFat_eq v h, zipWith_fatPair_all _ _ (by rw [List.length_take, List.length_drop]; omega),
    ← List.all_append, List.take_append_drop]
  rfl

theorem halfShiftIn_fat (k : Nat) (a b : Vec8) (ha : a.length = 32) (hb : b.length = 32)
    (hk : k ≤ 16) :
    laneOfFat (V.halfShiftIn k a b) = shiftIn k (laneOfFat a) (laneOfFat b) := by
  have ha1 : (a.take 16).length = 16 := by rw [List.length_take]; omega
  have ha2 : (a.drop 16).length = 16 := by rw [List.length_drop]; omega
  have hb1 : (b.take 16).length = 16 := by rw [List.length_take]; omega
  have hb2 : (b.drop 16).length = 16 := by rw [List.length_drop]; omega
  unfold V.halfShiftIn
  rw [alignr16_eq k _ _ hb1 hk, alignr16_eq k _ _ hb2 hk, laneOfFat_append _ _
    (by simp only [List.length_append, List.length_drop, List.length_take]; omega)
    (by simp only [List.length_append, List.length_drop, List.length_take]; omega),
    List.zipWith_append (by rw [List.length_drop, List.length_drop]; omega),
    ← List.drop_zipWith, ← List.take_zipWith, ← laneOfFat_eq a ha, ← laneOfFat_eq b hb]
  unfold shiftIn
  rw [laneOfFat_length, laneOfFat_length]

theorem halfShiftIn_length (k : Nat) (a b : Vec8) (ha : a.length = 32) (hb : b.length = 32)
    (hk : k ≤ 16) : (V.halfShiftIn k a b).length = 32 := by
  have hb1 : (b.take 16).length = 16 := by rw [List.length_take]; omega
  have hb2 : (b.drop 16).length = 16 := by rw [List.length_drop]; omega
  unfold V.halfShiftIn
  rw [alignr16_eq k _ _ hb1 hk, alignr16_eq k _ _ hb2 hk]
  simp only [List.length_append, List.length_drop, List.length_take]
  omega

theorem shiftIn128_length (k : Nat) (a b : Vec8) (ha : a.length = 16) (hb : b.length = 16)
    (hk : k ≤ 16) : (V.shiftIn128 k a b).length = 16 := by
  unfold V.shiftIn128
  rw [alignr16_eq k _ _ hb hk]
  simp only [List.length_append, List.length_drop, List.length_take]
  omega

theorem shiftIn256_length (k : Nat) (a b : Vec8) (ha : a.length = 32) (hb : b.length = 32)
    (hk : k ≤ 16) : (V.shiftIn256 k a b).length = 32 := by
  rw [shiftIn256_eq k a b ha hb hk]
  simp only [List.length_append, List.length_drop, List.length_take]
  omega

end VecP
end AcVerif
