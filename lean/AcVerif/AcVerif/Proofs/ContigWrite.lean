import AcVerif.Proofs.ContigDefs
/-!
# L1e proofs, part 1: the three shapes of `State::write`
-/
namespace AcVerif.L1eP
open AcVerif AcVerif.CNfa AcVerif.L1cP AcVerif.L1dP

/-- the dense row of a state -/
def denseRow (classOf : UInt8 → Nat) (al : Nat) (st : CState) (newId : Nat → Nat) : Array Nat :=
  foldSet (fun x : UInt8 × Nat => classOf x.1) (fun x => some (newId x.2)) st.trans
    (Array.replicate al FAIL)

/-- the match words of a state -/
def wTail (st : CState) : List Nat :=
  if st.matches_.isEmpty then []
  else match st.matches_ with
    | [pid] => [2147483648 + pid]
    | ms => ms.length :: ms

theorem foldl_map_set (classOf : UInt8 → Nat) (newId : Nat → Nat) (l : List (UInt8 × Nat))
    (row : Array Nat) :
    (l.map fun (b, t) => (classOf b, newId t)).foldl (fun (row : Array Nat) (c, t) => row.set! c t) row =
      foldSet (fun x : UInt8 × Nat => classOf x.1) (fun x => some (newId x.2)) l row := by
  induction l generalizing row with
  | nil => rfl
  | cons x l ih =>
    rw [List.map_cons, List.foldl_cons, ih, foldSet_cons]

theorem denseRow_size (classOf : UInt8 → Nat) (al : Nat) (st : CState) (newId : Nat → Nat) :
    (denseRow classOf al st newId).size = al := by
  unfold denseRow
  rw [foldSet_size, Array.size_replicate]

theorem writeState_dense (classOf : UInt8 → Nat) (al : Nat) (st : CState) (newId : Nat → Nat)
    (fd : Bool) (h : fd = true ∨ 127 < st.trans.length) :
    writeState classOf al st newId fd =
      [KIND_DENSE, newId st.fail] ++ (denseRow classOf al st newId).toList ++ wTail st := by
  unfold writeState wTail denseRow
  have hc : (fd || decide ((st.trans.map fun (b, t) => (classOf b, newId t)).length > 127)) = true := by
    rcases h with h | h
    · simp [h]
    · simp [h]
  simp only [hc, if_true, foldl_map_set]
  cases hm : st.matches_.isEmpty
  · simp only [Bool.not_false, Bool.not_true, Bool.false_eq_true, if_false]
    rfl
  · simp

theorem writeState_one (classOf : UInt8 → Nat) (al : Nat) (st : CState) (newId : Nat → Nat)
    (fd : Bool) (h : fd = false) (b : UInt8) (t : Nat) (hl : st.trans = [(b, t)])
    (hm : st.matches_ = []) :
    writeState classOf al st newId fd = [KIND_ONE + classOf b * 256, newId st.fail, newId t] := by
  unfold writeState
  simp [h, hl, hm]

theorem writeState_sparse (classOf : UInt8 → Nat) (al : Nat) (st : CState) (newId : Nat → Nat)
    (fd : Bool) (h : fd = false) (hl : st.trans.length ≤ 127)
    (hne : ¬ (st.trans.length = 1 ∧ st.matches_ = [])) :
    writeState classOf al st newId fd =
      [st.trans.length, newId st.fail] ++
        writeState.chunks (st.trans.map fun x => classOf x.1) (st.trans.length + 1) ++
        (st.trans.map fun x => newId x.2) ++ wTail st := by
  subst h
  unfold writeState wTail
  have hc : ¬ (st.trans.length > 127) := by omega
  have e1 : ((fun x : Nat × Nat => x.1) ∘ fun (x : UInt8 × Nat) => match x with | (b, t) => (classOf b, newId t)) =
      fun x => classOf x.1 := rfl
  have e2 : ((fun x : Nat × Nat => x.2) ∘ fun (x : UInt8 × Nat) => match x with | (b, t) => (classOf b, newId t)) =
      fun x => newId x.2 := rfl
  simp only [List.length_map, Bool.false_or, List.map_map, decide_eq_true_eq, hc, if_false, e1, e2]
  have h1 : (st.trans.length == 1 && !(!st.matches_.isEmpty)) = false := by
    cases hm : st.matches_.isEmpty
    · simp
    · simp only [Bool.not_true, Bool.not_false, Bool.and_true, beq_eq_false_iff_ne]
      intro e; exact hne ⟨e, by simpa using hm⟩
  rw [h1]
  simp only [Bool.false_eq_true, if_false]
  cases hm : st.matches_.isEmpty
  · simp only [Bool.not_false, Bool.not_true, Bool.false_eq_true, if_false]
    rfl
  · simp

end AcVerif.L1eP
