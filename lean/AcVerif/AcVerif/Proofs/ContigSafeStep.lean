import AcVerif.Proofs.ContigSafeDecode
import AcVerif.Proofs.ContigSim
/-!
# L1eSafe proofs, part 3: the checked `next_state` / match reads at live states

For the compiled NFA `N` (`FS`, `FX`) and `M = cBuild N dd bc hasPre`:

* `live_in_range`: the words of a live state `s` lie inside `repr`
  (`newId s + length ≤ repr.size`);
* `DepU`: a depth bound for the states of an unanchored run; a failure link strictly decreases it
  (`DepU_fail`), so `fuel > depth` is enough;
* `stepQ_same`: `M.nextState?` on `newId s` never reads out of range and mirrors `CNfa.nextState`;
* `next?_live`: with fuel `repr.size + 1` it returns `some` of the totalised `M.nextState`;
* `matchList?_live`: all reads of `match_len` / `match_pattern` at a live match state are in range.
-/
namespace AcVerif.L1eP
open AcVerif AcVerif.CNfa AcVerif.L1cP AcVerif.L1dP AcVerif.LmP

section
variable {k : MatchKind} {Q : PatSet UInt8} {L : List (List UInt8)} {N : CNfa}
variable (dd : Nat) (bc hasPre : Bool)

/-- the words of a live state lie inside `repr` -/
theorem live_in_range (h : FS k Q L N) {s : Nat} (hv : Lv L s) :
    cNewId N dd bc s + (wOf N dd bc s).length ≤ (cRepr N dd bc).size := by
  have hS := shufOK N h.four_le_size
  have hs := hv.lt_size h
  have h1 := hv.ne_fail h
  have hp1 := posOf_ne_one hS hs h1
  have hpl : posOf N s < N.size := hS.pos_lt s hs
  rw [cNewId_eq hS dd bc hs h1, cRepr_size]
  have hsz : (wOf N dd bc s).length = sizeAt N dd bc (posOf N s) := by
    unfold sizeAt wOf
    have : (posOf N s == FAIL) = false := by simpa [FAIL] using hp1
    rw [this]
    simp only [Bool.false_eq_true, if_false]
    rw [cW_posOf hS dd bc (fun t => t) hs]
    exact writeState_length_congr _ _ _ _ _ _
  rw [hsz]
  exact psum_succ_le (sizeAt N dd bc) hpl

/-- a live state id is a valid index of `repr` (and so is the failure-link word after it) -/
theorem live_lt_size (h : FS k Q L N) {s : Nat} (hv : Lv L s) :
    cNewId N dd bc s + 1 < (cRepr N dd bc).size := by
  have := live_in_range dd bc h hv
  have := writeState_length_ge (clsOf N bc) (ncOf N bc) (N.getD s {}) (cNewId N dd bc)
    (decide ((storedDepths N).getD s 0 < dd))
  unfold wOf at *
  omega

/-- every read of the checked lookup at a live state is in range -/
theorem found?_live (h : FS k Q L N) (hX : FX L N) {s : Nat} (hv : Lv L s) (b : UInt8) :
    (cBuild N dd bc hasPre).found? (clsOf N bc b) (cNewId N dd bc s) =
      some (if follow N s b = FAIL then none else some (cNewId N dd bc (follow N s b))) := by
  rw [← found_live dd bc h hX hv b]
  exact found?_written (m := cBuild N dd bc hasPre) (classOf := clsOf N bc) (al := ncOf N bc)
    (newId := cNewId N dd bc) (st := N.getD s {}) (fd := decide ((storedDepths N).getD s 0 < dd))
    (classOK_clsOf N bc).lt (ncOf_le N bc) (live_slice dd bc h hv) (live_in_range dd bc h hv) b

/-- the failure-link read at a live state is in range -/
theorem fail?_live (h : FS k Q L N) {s : Nat} (hv : Lv L s) :
    (cBuild N dd bc hasPre).repr[cNewId N dd bc s + 1]? =
      some (cNewId N dd bc (N.getD s {}).fail) := by
  rw [← fail_live dd bc h hv]
  exact getElem?_getD_of_lt _ (live_lt_size dd bc h hv)

/-- all reads of `match_len` / `match_pattern` at a live match state are in range -/
theorem matchList?_live (h : FS k Q L N) {s : Nat} (hv : Lv L s)
    (hm : (N.getD s {}).matches_ ≠ []) :
    (cBuild N dd bc hasPre).matchList? (cNewId N dd bc s) =
      some ((cBuild N dd bc hasPre).matchList (cNewId N dd bc s)) :=
  matchList?_written (m := cBuild N dd bc hasPre) (classOf := clsOf N bc) (al := ncOf N bc)
    (newId := cNewId N dd bc) (st := N.getD s {}) (fd := decide ((storedDepths N).getD s 0 < dd))
    hm rfl (live_slice dd bc h hv) (live_in_range dd bc h hv)

/-! ## the failure chain is short -/

/-- `s` is dead or a trie node of depth at most `d` -/
def DepU (L : List (List UInt8)) (s d : Nat) : Prop :=
  s = DEAD ∨ ∃ u, (u = [] ∨ u ∈ L) ∧ s = nu L u ∧ u.length ≤ d

theorem DepU.vu {s d : Nat} (hd : DepU L s d) : VU L s := by
  rcases hd with e | ⟨u, hu, e, _⟩
  · exact Or.inl e
  · exact Or.inr ⟨u, hu, e⟩

/-- the failure link of a trie node of depth `≤ d` leads to a state of depth `≤ d - 1` -/
theorem DepU_fail (h : FS k Q L N) {u : List UInt8} (hu : u ∈ L) {d : Nat} (hd : u.length ≤ d) :
    0 < d ∧ DepU L (N.getD (nu L u) {}).fail (d - 1) := by
  have hne := h.ne_nil hu
  rw [h.fail u hu]
  unfold finalFail
  match u, hne, hd with
  | a :: t, _, hd =>
    simp only [List.length_cons] at hd
    rw [failStd_cons]
    split
    · exact ⟨by omega, Or.inl rfl⟩
    · have := lsp_length_le Q t
      exact ⟨by omega, Or.inr ⟨lsp Q t, h.lsp_mem t, rfl, by omega⟩⟩

/-- a live state of an unanchored run has depth `< N.size - 3` -/
theorem DepU_of_VU (h : FS k Q L N) {s : Nat} (hv : VU L s) : DepU L s (N.size - 4) := by
  rcases hv with e | ⟨u, hu, e⟩
  · exact Or.inl e
  · have := h.len_lt_size hu
    exact Or.inr ⟨u, hu, e, by omega⟩

/-! ## the checked `next_state` -/

theorem nextState?_succ (m : ContigM) (anch : Bool) (fuel sid : Nat) (byte : UInt8) :
    m.nextState? anch (fuel + 1) sid byte =
      match m.found? (m.classOf byte) sid with
      | none => none
      | some (some next) => some next
      | some none =>
        if anch then some DEAD
        else
          match m.repr[sid + 1]? with
          | none => none
          | some f => m.nextState? anch fuel f byte := rfl

/-- unanchored: with more fuel than the depth of the state, no read of `M.nextState?` is out of
range, and it mirrors `CNfa.nextState` -/
theorem stepQ_unanch (h : FS k Q L N) (hX : FX L N) (b : UInt8) :
    ∀ (fuel s d hp : Nat), d < fuel → DepU L s d →
      (cBuild N dd bc hasPre).nextState? false fuel (cNewId N dd bc s) b =
        some (cNewId N dd bc (nextState N false fuel s b hp).1) := by
  intro fuel
  induction fuel with
  | zero => intro s d hp hlt; omega
  | succ fuel ih =>
    intro s d hp hlt hd
    have hv : Lv L s := Or.inl hd.vu
    rw [nextState?_succ]
    show (match (cBuild N dd bc hasPre).found? (clsOf N bc b) (cNewId N dd bc s) with
      | none => none
      | some (some next) => some next
      | some none =>
        if false = true then some DEAD
        else
          match (cBuild N dd bc hasPre).repr[cNewId N dd bc s + 1]? with
          | none => none
          | some f => (cBuild N dd bc hasPre).nextState? false fuel f b) = _
    rw [found?_live dd bc hasPre h hX hv b, fail?_live dd bc hasPre h hv]
    by_cases hf : follow N s b = FAIL
    · rw [if_pos hf, nextState_go N fuel s b hp hf]
      simp only [Bool.false_eq_true, if_false]
      rcases hd with e | ⟨u, hu, e, hl⟩
      · subst e; rw [h.goto_dead] at hf; cases hf
      · subst e
        rcases hu with e | hm
        · subst e; rw [nu_nil] at hf; exact absurd hf (follow_su_ne_fail h b)
        · obtain ⟨hpos, hd'⟩ := DepU_fail h hm hl
          exact ih _ (d - 1) (hp + 1) (by omega) hd'
    · rw [if_neg hf, nextState_stop N false fuel s b hp hf]

/-- anchored: one iteration, no read out of range -/
theorem stepQ_anch (h : FS k Q L N) (hX : FX L N) (b : UInt8) (fuel s hp : Nat) (hv : VA L s) :
    (cBuild N dd bc hasPre).nextState? true (fuel + 1) (cNewId N dd bc s) b =
      some (cNewId N dd bc (nextState N true (fuel + 1) s b hp).1) := by
  have hS := shufOK N h.four_le_size
  have hv' : Lv L s := Or.inr hv
  rw [nextState?_succ]
  show (match (cBuild N dd bc hasPre).found? (clsOf N bc b) (cNewId N dd bc s) with
    | none => none
    | some (some next) => some next
    | some none =>
      if true = true then some DEAD
      else
        match (cBuild N dd bc hasPre).repr[cNewId N dd bc s + 1]? with
        | none => none
        | some f => (cBuild N dd bc hasPre).nextState? true fuel f b) = _
  rw [found?_live dd bc hasPre h hX hv' b]
  by_cases hf : follow N s b = FAIL
  · rw [if_pos hf, nextState_anch_fail N fuel s b hp hf]
    simp only [if_true]
    show some DEAD = some (cNewId N dd bc DEAD)
    rw [show DEAD = 0 from rfl, cNewId_dead hS dd bc]
  · rw [if_neg hf, nextState_stop N true fuel s b hp hf]

/-- with fuel `repr.size + 1` the checked `next_state` at a live state returns `some` of what the
totalised one returns: no index is out of range and the fuel does not run out -/
theorem next?_live (h : FS k Q L N) (hX : FX L N) (anch : Bool) (b : UInt8) {s : Nat}
    (hv : LvA L anch s) :
    (cBuild N dd bc hasPre).nextState? anch ((cBuild N dd bc hasPre).repr.size + 1)
        (cNewId N dd bc s) b =
      some ((cBuild N dd bc hasPre).nextState anch ((cBuild N dd bc hasPre).repr.size + 1)
        (cNewId N dd bc s) b (0, 0)).1 := by
  rw [step_same dd bc hasPre h hX anch b _ s 0 0 hv]
  have hsz : N.size ≤ (cBuild N dd bc hasPre).repr.size + 1 := size_le_repr N dd bc
  have h4 := h.four_le_size
  cases anch with
  | true => exact stepQ_anch dd bc hasPre h hX b _ s 0 hv
  | false =>
    exact stepQ_unanch dd bc hasPre h hX b _ s (N.size - 4) 0 (by omega) (DepU_of_VU h hv)

end

end AcVerif.L1eP
