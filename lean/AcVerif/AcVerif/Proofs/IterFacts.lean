import AcVerif.Spec
import AcVerif.Engine.Iter
/-!
# Facts about the specification's iterator `iterSpec`

`iterSpec F s e` drives an arbitrary search function `F start = answer of the
search on the span [start, e]`.  All that the iterator needs of `F` is that
an answer lies inside the span it was asked about (`SpanOK`), which every
`IsFind` answer does.  Under that hypothesis:

* every yielded match is the answer `F st` of some restarted search, hence an
  occurrence (`iter_answer`, `iter_occ`);
* the ends are strictly increasing (`iter_sorted`);
* each match starts at or after the previous one's end (`iter_nonoverlap`);
* the fuel `e + 2 - s` is never exhausted (`iter_fuel_enough`).

Finally `findIter_spec`: when every restarted engine search returns the
specified answer, the engine's iterator is the specification's iterator.
-/
namespace AcVerif.MiscP
variable {α : Type}

/-- what the iterator needs of the search function: an answer to the search
on `[st, e]` lies inside `[st, e]` -/
def SpanOK (F : Nat → Option Mat) (e : Nat) : Prop :=
  ∀ st, st ≤ e + 1 → ∀ m, F st = some m → st ≤ m.start ∧ m.start ≤ m.stop ∧ m.stop ≤ e

theorem isOcc_bounds {P : List (List α)} {hay : List α} {s e : Nat} {m : Mat}
    (h : IsOcc P hay s e m) : s ≤ m.start ∧ m.start ≤ m.stop ∧ m.stop ≤ e := by
  obtain ⟨p, _, h1, h2, h3, _⟩ := h
  omega

theorem spanOK_of_isFind {k : MatchKind} {P : List (List α)} {hay : List α} {e : Nat}
    {anch : Bool} {F : Nat → Option Mat}
    (hF : ∀ st, st ≤ e + 1 → IsFind k P hay st e anch (F st)) : SpanOK F e := by
  intro st hst m hm
  have h := hF st hst
  rw [hm] at h
  exact isOcc_bounds h.1.1

/-- the match yielded by one `FindIter::next` call at `start` with previous end `last` -/
def iterNext (F : Nat → Option Mat) (start : Nat) (last : Option Nat) : Option Mat :=
  match F start with
  | none => none
  | some m => if m.start = m.stop ∧ last = some m.stop then F (start + 1) else some m

theorem iterSpecAux_zero (F : Nat → Option Mat) (start : Nat) (last : Option Nat) :
    iterSpecAux F 0 start last = [] := rfl

theorem iterSpecAux_succ (F : Nat → Option Mat) (fuel start : Nat) (last : Option Nat) :
    iterSpecAux F (fuel + 1) start last =
      match iterNext F start last with
      | none => []
      | some m => m :: iterSpecAux F fuel m.stop (some m.stop) := by
  rw [iterSpecAux, iterNext]
  cases F start with
  | none => rfl
  | some m =>
    simp only []
    split
    · cases F (start + 1) <;> rfl
    · rfl

/-- one step: where the yielded match lies, and which search produced it -/
theorem iterNext_props {F : Nat → Option Mat} {e start : Nat} {last : Option Nat} {m : Mat}
    (h : SpanOK F e) (hs : start ≤ e + 1) (hm : iterNext F start last = some m) :
    start ≤ m.start ∧ m.start ≤ m.stop ∧ m.stop ≤ e ∧ (last = some start → start < m.stop) ∧
      ∃ st, start ≤ st ∧ st ≤ e + 1 ∧ F st = some m := by
  unfold iterNext at hm
  cases h0 : F start with
  | none => rw [h0] at hm; cases hm
  | some m0 =>
    rw [h0] at hm
    simp only [] at hm
    have b0 := h start hs m0 h0
    split at hm
    · rename_i hc
      have hs1 : start + 1 ≤ e + 1 := by omega
      have b1 := h (start + 1) hs1 m hm
      exact ⟨by omega, b1.2.1, b1.2.2, fun _ => by omega, start + 1, by omega, hs1, hm⟩
    · rename_i hc
      have hm' : m0 = m := Option.some.inj hm
      subst hm'
      refine ⟨b0.1, b0.2.1, b0.2.2, fun hl => ?_, start, Nat.le_refl _, hs, h0⟩
      subst hl
      rcases Nat.lt_or_ge start m0.stop with h1 | h1
      · exact h1
      · exact absurd ⟨by omega, by congr 1; omega⟩ hc

/-- every yielded match: where it lies relative to the current start, and its origin -/
theorem iterAux_all {F : Nat → Option Mat} {e : Nat} (h : SpanOK F e) :
    ∀ (fuel start : Nat) (last : Option Nat), start ≤ e + 1 →
      ∀ m ∈ iterSpecAux F fuel start last,
        start ≤ m.start ∧ m.start ≤ m.stop ∧ m.stop ≤ e ∧ (last = some start → start < m.stop) ∧
          ∃ st, start ≤ st ∧ st ≤ e + 1 ∧ F st = some m := by
  intro fuel
  induction fuel with
  | zero => intro start last _ m hm; simp [iterSpecAux_zero] at hm
  | succ fuel ih =>
    intro start last hs m hm
    rw [iterSpecAux_succ] at hm
    cases h0 : iterNext F start last with
    | none => rw [h0] at hm; simp at hm
    | some m0 =>
      rw [h0] at hm
      have p0 := iterNext_props h hs h0
      rcases List.mem_cons.mp hm with rfl | hm'
      · exact p0
      · have hs' : m0.stop ≤ e + 1 := by omega
        obtain ⟨q1, q2, q3, q4, st, q5, q6, q7⟩ := ih m0.stop (some m0.stop) hs' m hm'
        have := q4 rfl
        exact ⟨by omega, q2, q3, fun _ => by omega, st, by omega, q6, q7⟩

theorem iterAux_pairwise {F : Nat → Option Mat} {e : Nat} (h : SpanOK F e) :
    ∀ (fuel start : Nat) (last : Option Nat), start ≤ e + 1 →
      (iterSpecAux F fuel start last).Pairwise (fun a b => a.stop < b.stop ∧ a.stop ≤ b.start) := by
  intro fuel
  induction fuel with
  | zero => intro start last _; rw [iterSpecAux_zero]; exact List.Pairwise.nil
  | succ fuel ih =>
    intro start last hs
    rw [iterSpecAux_succ]
    cases h0 : iterNext F start last with
    | none => exact List.Pairwise.nil
    | some m0 =>
      have p0 := iterNext_props h hs h0
      have hs' : m0.stop ≤ e + 1 := by omega
      refine List.Pairwise.cons (fun m hm => ?_) (ih m0.stop (some m0.stop) hs')
      have q := iterAux_all h fuel m0.stop (some m0.stop) hs' m hm
      exact ⟨q.2.2.2.1 rfl, q.1⟩

/-- the fuel is never exhausted: once it covers the remaining span, more fuel changes nothing -/
theorem iterAux_fuel {F : Nat → Option Mat} {e : Nat} (h : SpanOK F e) :
    ∀ (fuel start : Nat) (last : Option Nat), start ≤ e + 1 →
      ((last = none ∧ e + 2 - start ≤ fuel) ∨ (last = some start ∧ e + 1 - start ≤ fuel)) →
      iterSpecAux F fuel start last = iterSpecAux F (fuel + 1) start last := by
  intro fuel
  induction fuel with
  | zero =>
    intro start last hs hf
    rw [iterSpecAux_zero, iterSpecAux_succ]
    cases h0 : iterNext F start last with
    | none => rfl
    | some m0 =>
      have p0 := iterNext_props h hs h0
      rcases hf with ⟨_, hf⟩ | ⟨hl, hf⟩
      · omega
      · have := p0.2.2.2.1 hl
        omega
  | succ fuel ih =>
    intro start last hs hf
    rw [iterSpecAux_succ, iterSpecAux_succ F (fuel + 1)]
    cases h0 : iterNext F start last with
    | none => rfl
    | some m0 =>
      have p0 := iterNext_props h hs h0
      have hs' : m0.stop ≤ e + 1 := by omega
      simp only []
      rw [ih m0.stop (some m0.stop) hs' (Or.inr ⟨rfl, ?_⟩)]
      rcases hf with ⟨_, hf⟩ | ⟨hl, hf⟩
      · omega
      · have := p0.2.2.2.1 hl
        omega

/-! ## The facts, for a search function that returns `IsFind` answers -/

section
variable {k : MatchKind} {P : List (List α)} {hay : List α} {s e : Nat} {anch : Bool}
  {F : Nat → Option Mat}

/-- every yielded match is the answer of a search restarted at some `st ≥ s` -/
theorem iter_answer (hF : ∀ st, st ≤ e + 1 → IsFind k P hay st e anch (F st)) (hs : s ≤ e + 1) :
    ∀ m ∈ iterSpec F s e, ∃ st, s ≤ st ∧ st ≤ e + 1 ∧ F st = some m :=
  fun m hm => (iterAux_all (spanOK_of_isFind hF) _ s none hs m hm).2.2.2.2

theorem isOcc_mono {s s' : Nat} {m : Mat} (h : IsOcc P hay s' e m) (hs : s ≤ s') :
    IsOcc P hay s e m := by
  obtain ⟨p, h0, h1, h2⟩ := h
  exact ⟨p, h0, Nat.le_trans hs h1, h2⟩

/-- every yielded match is an occurrence inside the iterator's span (and, for an
anchored search, starts where the search that found it was started) -/
theorem iter_occ (hF : ∀ st, st ≤ e + 1 → IsFind k P hay st e anch (F st)) (hs : s ≤ e + 1) :
    ∀ m ∈ iterSpec F s e, IsOcc P hay s e m ∧
      ∃ st, s ≤ st ∧ IsOccA P hay st e anch m := by
  intro m hm
  obtain ⟨st, h1, h2, h3⟩ := iter_answer hF hs m hm
  have h := hF st h2
  rw [h3] at h
  exact ⟨isOcc_mono h.1.1 h1, st, h1, h.1⟩

/-- the ends of the yielded matches are strictly increasing -/
theorem iter_sorted (hF : ∀ st, st ≤ e + 1 → IsFind k P hay st e anch (F st)) (hs : s ≤ e + 1) :
    (iterSpec F s e).Pairwise (fun a b => a.stop < b.stop) :=
  (iterAux_pairwise (spanOK_of_isFind hF) _ s none hs).imp fun h => h.1

/-- each yielded match starts at or after the end of every earlier one -/
theorem iter_nonoverlap (hF : ∀ st, st ≤ e + 1 → IsFind k P hay st e anch (F st))
    (hs : s ≤ e + 1) :
    (iterSpec F s e).Pairwise (fun a b => a.stop ≤ b.start) :=
  (iterAux_pairwise (spanOK_of_isFind hF) _ s none hs).imp fun h => h.2

/-- the yielded matches are well formed and inside the span -/
theorem iter_in_range (hF : ∀ st, st ≤ e + 1 → IsFind k P hay st e anch (F st))
    (hs : s ≤ e + 1) :
    ∀ m ∈ iterSpec F s e, s ≤ m.start ∧ m.start ≤ m.stop ∧ m.stop ≤ e := by
  intro m hm
  have q := iterAux_all (spanOK_of_isFind hF) _ s none hs m hm
  exact ⟨q.1, q.2.1, q.2.2.1⟩

/-- the fuel `e + 2 - s` of `iterSpec` is never exhausted -/
theorem iter_fuel_enough (hF : ∀ st, st ≤ e + 1 → IsFind k P hay st e anch (F st))
    (hs : s ≤ e + 1) (fuel : Nat) (hfuel : e + 2 - s ≤ fuel) :
    iterSpecAux F fuel s none = iterSpecAux F (fuel + 1) s none :=
  iterAux_fuel (spanOK_of_isFind hF) fuel s none hs (Or.inl ⟨rfl, hfuel⟩)

/-- hence any larger fuel gives the same list as `iterSpec` -/
theorem iter_fuel_any (hF : ∀ st, st ≤ e + 1 → IsFind k P hay st e anch (F st))
    (hs : s ≤ e + 1) (fuel : Nat) (hfuel : e + 2 - s ≤ fuel) :
    iterSpecAux F fuel s none = iterSpec F s e := by
  induction fuel with
  | zero =>
    have : e + 2 - s = 0 := by omega
    rw [iterSpec, this]
  | succ fuel ih =>
    rcases Nat.lt_or_ge fuel (e + 2 - s) with h | h
    · have : e + 2 - s = fuel + 1 := by omega
      rw [iterSpec, this]
    · rw [← iter_fuel_enough hF hs fuel h, ih h]

end

/-! ## The engine's iterator is the specification's iterator -/

variable {σ : Type}

/-- if every restarted search returns THE specified answer, the iterator is the
specification's iterator -/
theorem findIter_spec (A : Aut σ α) (i : Input α) (k : MatchKind) (P : List (List α))
    (hstart : (A.start i.anch).isSome)
    (hfind : ∀ st (h : st ≤ i.e + 1), ∃ r,
      tryFindFwd A none { i with s := st, valid := ⟨i.valid.1, h⟩ } = .ok r ∧
        IsFind k P i.hay st i.e i.anch r) :
    ∃ F, (∀ st, st ≤ i.e + 1 → IsFind k P i.hay st i.e i.anch (F st)) ∧
      findIter A none i = .ok (iterSpec F i.s i.e) := by
  refine ⟨findAt A none i, fun st h => ?_, ?_⟩
  · obtain ⟨r, h1, h2⟩ := hfind st h
    unfold findAt
    rw [dif_pos h, h1]
    exact h2
  · unfold findIter
    cases h0 : A.start i.anch with
    | none => rw [h0] at hstart; cases hstart
    | some q => rfl

end AcVerif.MiscP
