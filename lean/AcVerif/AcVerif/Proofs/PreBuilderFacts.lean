import AcVerif.Pre.Builder
import AcVerif.Proofs.FoldFacts
/-!
# C05, part B: facts about the prefilter builder model

* `memchrIn` / `memmemIn` meet their "least position" specifications;
* what the start-byte and rare-byte sub-builders guarantee after all patterns
  have been added (independently of the frequency table `freq`);
* `PreBuilder.build` case analysis: which sub-builder a returned choice came from.
-/
namespace AcVerif.PreP
open AcVerif

/-! ## `memchr` / `memmem` -/

theorem find_shift_none {n s : Nat} {p : Nat → Bool}
    (h : ((List.range n).map (· + s)).find? p = none) : ∀ x, s ≤ x → x < s + n → p x = false := by
  intro x h1 h2
  rw [List.find?_eq_none] at h
  have := h x (List.mem_map.2 ⟨x - s, List.mem_range.2 (by omega), by omega⟩)
  simpa using this

theorem find_shift_some {n s x : Nat} {p : Nat → Bool}
    (h : ((List.range n).map (· + s)).find? p = some x) :
    s ≤ x ∧ x < s + n ∧ p x = true ∧ ∀ y, s ≤ y → y < x → p y = false := by
  rw [List.find?_map] at h
  simp only [Option.map_eq_some_iff] at h
  obtain ⟨k, hk, rfl⟩ := h
  rw [List.find?_range_eq_some] at hk
  obtain ⟨h1, h2, h3⟩ := hk
  have := List.mem_range.1 h2
  refine ⟨by omega, by omega, h1, ?_⟩
  intro y hy1 hy2
  have := h3 (y - s) (by omega)
  simp only [Function.comp, Bool.not_eq_eq_eq_not, Bool.not_true] at this
  rw [show y - s + s = y by omega] at this
  exact this

theorem memchrIn_none {pred : UInt8 → Bool} {hay : List UInt8} {s e : Nat}
    (h : memchrIn pred hay s e = none) :
    ∀ p, s ≤ p → p < e → ∀ b, hay[p]? = some b → pred b = false := by
  intro p h1 h2 b hb
  have := find_shift_none h p h1 (by omega)
  simpa [hb] using this

theorem memchrIn_some {pred : UInt8 → Bool} {hay : List UInt8} {s e p : Nat}
    (h : memchrIn pred hay s e = some p) :
    s ≤ p ∧ p < e ∧ (∃ b, hay[p]? = some b ∧ pred b = true) ∧
      ∀ p', s ≤ p' → p' < p → ∀ b, hay[p']? = some b → pred b = false := by
  obtain ⟨h1, h2, h3, h4⟩ := find_shift_some h
  refine ⟨h1, by omega, ?_, ?_⟩
  · cases hb : hay[p]? with
    | none => simp [hb] at h3
    | some b => exact ⟨b, rfl, by simpa [hb] using h3⟩
  · intro p' hp1 hp2 b hb
    have := h4 p' hp1 hp2
    simpa [hb] using this

theorem memmemIn_none {needle hay : List UInt8} {s e : Nat} (h : memmemIn needle hay s e = none) :
    ∀ p, s ≤ p → p + needle.length ≤ e → ¬ needle <+: hay.drop p := by
  intro p h1 h2 h3
  have := find_shift_none h p h1 (by omega)
  simp only [Bool.and_eq_false_iff, decide_eq_false_iff_not] at this
  rcases this with h | h
  · exact h h2
  · rw [List.isPrefixOf_iff_prefix.2 h3] at h; cases h

theorem memmemIn_some {needle hay : List UInt8} {s e p : Nat}
    (h : memmemIn needle hay s e = some p) :
    s ≤ p ∧ p + needle.length ≤ e ∧ needle <+: hay.drop p ∧
      ∀ p', s ≤ p' → p' < p → p' + needle.length ≤ e → ¬ needle <+: hay.drop p' := by
  obtain ⟨h1, _, h3, h4⟩ := find_shift_some h
  simp only [Bool.and_eq_true, decide_eq_true_eq, List.isPrefixOf_iff_prefix] at h3
  refine ⟨h1, h3.1, h3.2, ?_⟩
  intro p' hp1 hp2 hp3 hp4
  have := h4 p' hp1 hp2
  simp only [Bool.and_eq_false_iff, decide_eq_false_iff_not] at this
  rcases this with h | h
  · exact h hp3
  · rw [List.isPrefixOf_iff_prefix.2 hp4] at h; cases h

theorem mem_sortedBytes {set : List UInt8} {x : UInt8} : x ∈ sortedBytes set ↔ x ∈ set := by
  simp only [sortedBytes, List.mem_filter, List.mem_map, List.mem_range, List.contains_iff_mem]
  constructor
  · exact fun h => h.2
  · intro h
    exact ⟨⟨x.toNat, UInt8.toNat_lt x, by simp⟩, h⟩


/-! ## start bytes -/

theorem StartBytesB.addOne_spec (freq : UInt8 → Nat) (b : StartBytesB) (x : UInt8) :
    (b.addOne freq x).fold = b.fold ∧ b.count ≤ (b.addOne freq x).count ∧
    (∀ y, y ∈ b.set → y ∈ (b.addOne freq x).set) ∧ x ∈ (b.addOne freq x).set ∧
    (∀ y, y ∈ (b.addOne freq x).set → y ∈ b.set ∨ y = x) := by
  unfold StartBytesB.addOne
  split
  · rename_i h
    exact ⟨rfl, Nat.le_refl _, fun _ h => h, by simpa using h, fun _ h => Or.inl h⟩
  · refine ⟨rfl, by simp, fun y hy => by simp [hy], by simp, ?_⟩
    intro y hy
    simpa using hy

/-- `add` for a non-empty pattern -/
theorem StartBytesB.add_spec (freq : UInt8 → Nat) (b : StartBytesB) (x : UInt8) (t : List UInt8) :
    (b.add freq (x :: t)).fold = b.fold ∧ b.count ≤ (b.add freq (x :: t)).count ∧
    (∀ y, y ∈ b.set → y ∈ (b.add freq (x :: t)).set) ∧
    (b.count ≤ 3 → x ∈ (b.add freq (x :: t)).set ∧
      (b.fold = true → oppositeAsciiCase x ∈ (b.add freq (x :: t)).set)) := by
  unfold StartBytesB.add
  split
  · rename_i h
    exact ⟨rfl, Nat.le_refl _, fun _ h => h, fun h' => by omega⟩
  · obtain ⟨f1, c1, s1, m1, _⟩ := StartBytesB.addOne_spec freq b x
    simp only
    split
    · obtain ⟨f2, c2, s2, m2, _⟩ :=
        StartBytesB.addOne_spec freq (b.addOne freq x) (oppositeAsciiCase x)
      exact ⟨f2.trans f1, Nat.le_trans c1 c2, fun y hy => s2 y (s1 y hy),
        fun _ => ⟨s2 x m1, fun _ => m2⟩⟩
    · rename_i hf
      rw [f1] at hf
      exact ⟨f1, c1, s1, fun _ => ⟨m1, fun h => absurd h hf⟩⟩

theorem StartBytesB.add_nil (freq : UInt8 → Nat) (b : StartBytesB) : b.add freq [] = b := by
  unfold StartBytesB.add
  split <;> rfl

theorem StartBytesB.foldl_spec (freq : UInt8 → Nat) (pats : List (List UInt8)) :
    ∀ (b : StartBytesB), 
    ((pats.foldl (StartBytesB.add freq) b).fold = b.fold ∧
     b.count ≤ (pats.foldl (StartBytesB.add freq) b).count ∧
    (∀ y, y ∈ b.set → y ∈ (pats.foldl (StartBytesB.add freq) b).set)) ∧
    ((pats.foldl (StartBytesB.add freq) b).count ≤ 3 → ∀ p ∈ pats, ∀ x, p.head? = some x →
      x ∈ (pats.foldl (StartBytesB.add freq) b).set ∧
      (b.fold = true → oppositeAsciiCase x ∈ (pats.foldl (StartBytesB.add freq) b).set)) := by
  induction pats with
  | nil => intro b; exact ⟨⟨rfl, Nat.le_refl _, fun _ h => h⟩, fun _ p hp => by cases hp⟩
  | cons p ps ih =>
    intro b
    simp only [List.foldl_cons]
    obtain ⟨⟨f2, c2, s2⟩, m2⟩ := ih (b.add freq p)
    cases p with
    | nil =>
      rw [StartBytesB.add_nil] at *
      refine ⟨⟨f2, c2, s2⟩, ?_⟩
      intro hc p hp x hx
      rcases List.mem_cons.1 hp with rfl | hp
      · cases hx
      · exact m2 hc p hp x hx
    | cons x t =>
      obtain ⟨f1, c1, s1, m1⟩ := StartBytesB.add_spec freq b x t
      refine ⟨⟨f2.trans f1, Nat.le_trans c1 c2, fun y hy => s2 y (s1 y hy)⟩, ?_⟩
      intro hc p hp y hy
      rcases List.mem_cons.1 hp with rfl | hp
      · simp only [List.head?_cons, Option.some.injEq] at hy
        subst hy
        have := m1 (by omega)
        exact ⟨s2 _ this.1, fun hf => s2 _ (this.2 hf)⟩
      · have := m2 hc p hp y hy
        exact ⟨this.1, fun hf => this.2 (f1.trans hf)⟩

theorem StartBytesB.build_some {b : StartBytesB} {bs : List UInt8} (h : b.build = some bs) :
    b.count ≤ 3 ∧ bs = sortedBytes b.set := by
  unfold StartBytesB.build at h
  split at h
  · cases h
  · simp only at h
    split at h
    · cases h
    · split at h
      · cases h
      · injection h with h
        exact ⟨by omega, h.symm⟩


/-! ## rare bytes -/

/-- the offset update of `set_offset` -/
def updOff (f : UInt8 → Nat) (y : UInt8) (pos : Nat) : UInt8 → Nat :=
  fun z => if z == y then max (f z) pos else f z

theorem updOff_le (f : UInt8 → Nat) (y : UInt8) (pos : Nat) (z : UInt8) : f z ≤ updOff f y pos z := by
  unfold updOff; split <;> omega

theorem updOff_self (f : UInt8 → Nat) (y : UInt8) (pos : Nat) : pos ≤ updOff f y pos y := by
  unfold updOff; simp only [beq_self_eq_true, if_true]; omega

theorem RareBytesB.setOffset_offsets (b : RareBytesB) (pos : Nat) (x : UInt8) :
    (b.setOffset pos x).offsets =
      if b.fold then updOff (updOff b.offsets x pos) (oppositeAsciiCase x) pos
      else updOff b.offsets x pos := rfl

theorem RareBytesB.setOffset_spec (b : RareBytesB) (pos : Nat) (x : UInt8) :
    (b.setOffset pos x).rareSet = b.rareSet ∧ (b.setOffset pos x).available = b.available ∧
    (b.setOffset pos x).count = b.count ∧ (b.setOffset pos x).fold = b.fold ∧
    (∀ z, b.offsets z ≤ (b.setOffset pos x).offsets z) ∧
    pos ≤ (b.setOffset pos x).offsets x ∧
    (b.fold = true → pos ≤ (b.setOffset pos x).offsets (oppositeAsciiCase x)) := by
  refine ⟨rfl, rfl, rfl, rfl, ?_, ?_, ?_⟩
  · intro z
    rw [RareBytesB.setOffset_offsets]
    split
    · exact Nat.le_trans (updOff_le _ _ _ _) (updOff_le _ _ _ _)
    · exact updOff_le _ _ _ _
  · rw [RareBytesB.setOffset_offsets]
    split
    · exact Nat.le_trans (updOff_self _ _ _) (updOff_le _ _ _ _)
    · exact updOff_self _ _ _
  · intro hf
    rw [RareBytesB.setOffset_offsets, hf]
    exact updOff_self _ _ _

theorem RareBytesB.scan_spec (freq : UInt8 → Nat) : ∀ (bytes : List UInt8) (b : RareBytesB)
    (pos : Nat) (found : Bool) (rarest : UInt8 × Nat),
    (RareBytesB.scan freq b pos found rarest bytes).1.rareSet = b.rareSet ∧
    (RareBytesB.scan freq b pos found rarest bytes).1.available = b.available ∧
    (RareBytesB.scan freq b pos found rarest bytes).1.count = b.count ∧
    (RareBytesB.scan freq b pos found rarest bytes).1.fold = b.fold ∧
    (∀ z, b.offsets z ≤ (RareBytesB.scan freq b pos found rarest bytes).1.offsets z) ∧
    (∀ j x, bytes[j]? = some x →
      pos + j ≤ (RareBytesB.scan freq b pos found rarest bytes).1.offsets x ∧
      (b.fold = true →
        pos + j ≤ (RareBytesB.scan freq b pos found rarest bytes).1.offsets (oppositeAsciiCase x))) ∧
    ((RareBytesB.scan freq b pos found rarest bytes).2.1 = true →
      found = true ∨ ∃ x ∈ bytes, x ∈ b.rareSet) ∧
    ((RareBytesB.scan freq b pos found rarest bytes).2.1 = false →
      (RareBytesB.scan freq b pos found rarest bytes).2.2.1 = rarest.1 ∨
      (RareBytesB.scan freq b pos found rarest bytes).2.2.1 ∈ bytes) := by
  intro bytes
  induction bytes with
  | nil =>
    intro b pos found rarest
    exact ⟨rfl, rfl, rfl, rfl, fun _ => Nat.le_refl _, fun j x h => by simp at h,
      fun h => Or.inl h, fun _ => Or.inl rfl⟩
  | cons x rest ih =>
    intro b pos found rarest
    obtain ⟨s1, s2, s3, s4, s5, s6, s7⟩ := RareBytesB.setOffset_spec b pos x
    -- common part, for any continuation of the scan
    have common : ∀ (f' : Bool) (r' : UInt8 × Nat),
        (RareBytesB.scan freq (b.setOffset pos x) (pos + 1) f' r' rest).1.rareSet = b.rareSet ∧
        (RareBytesB.scan freq (b.setOffset pos x) (pos + 1) f' r' rest).1.available = b.available ∧
        (RareBytesB.scan freq (b.setOffset pos x) (pos + 1) f' r' rest).1.count = b.count ∧
        (RareBytesB.scan freq (b.setOffset pos x) (pos + 1) f' r' rest).1.fold = b.fold ∧
        (∀ z, b.offsets z ≤
          (RareBytesB.scan freq (b.setOffset pos x) (pos + 1) f' r' rest).1.offsets z) ∧
        (∀ j y, (x :: rest)[j]? = some y →
          pos + j ≤ (RareBytesB.scan freq (b.setOffset pos x) (pos + 1) f' r' rest).1.offsets y ∧
          (b.fold = true → pos + j ≤
            (RareBytesB.scan freq (b.setOffset pos x) (pos + 1) f' r' rest).1.offsets
              (oppositeAsciiCase y))) := by
      intro f' r'
      obtain ⟨i1, i2, i3, i4, i5, i6, _, _⟩ := ih (b.setOffset pos x) (pos + 1) f' r'
      refine ⟨i1.trans s1, i2.trans s2, i3.trans s3, i4.trans s4,
        fun z => Nat.le_trans (s5 z) (i5 z), ?_⟩
      intro j y hj
      cases j with
      | zero =>
        simp only [List.getElem?_cons_zero, Option.some.injEq] at hj
        subst hj
        exact ⟨Nat.le_trans s6 (i5 _), fun hf => Nat.le_trans (s7 hf) (i5 _)⟩
      | succ j =>
        simp only [List.getElem?_cons_succ] at hj
        have := i6 j y hj
        rw [s4] at this
        exact ⟨by have := this.1; omega, fun hf => by have := this.2 hf; omega⟩
    simp only [RareBytesB.scan]
    split
    · -- already found
      rename_i hf
      obtain ⟨c1, c2, c3, c4, c5, c6⟩ := common found rarest
      refine ⟨c1, c2, c3, c4, c5, c6, fun _ => Or.inl hf, ?_⟩
      intro h
      obtain ⟨_, _, _, _, _, _, i7, _⟩ := ih (b.setOffset pos x) (pos + 1) found rarest
      -- found stays true
      exfalso
      have : ∀ (bytes : List UInt8) (b : RareBytesB) (pos : Nat) (r : UInt8 × Nat),
          (RareBytesB.scan freq b pos true r bytes).2.1 = true := by
        intro bytes
        induction bytes with
        | nil => intros; rfl
        | cons y ys ih' => intro b pos r; simp only [RareBytesB.scan, if_true]; exact ih' _ _ _
      rw [hf, this] at h
      cases h
    · split
      · rename_i hf hc
        obtain ⟨c1, c2, c3, c4, c5, c6⟩ := common true rarest
        refine ⟨c1, c2, c3, c4, c5, c6, fun _ => Or.inr ⟨x, by simp, ?_⟩, ?_⟩
        · rw [s1] at hc; simpa using hc
        · intro h
          exfalso
          have : ∀ (bytes : List UInt8) (b : RareBytesB) (pos : Nat) (r : UInt8 × Nat),
              (RareBytesB.scan freq b pos true r bytes).2.1 = true := by
            intro bytes
            induction bytes with
            | nil => intros; rfl
            | cons y ys ih' => intro b pos r; simp only [RareBytesB.scan, if_true]; exact ih' _ _ _
          rw [this] at h
          cases h
      · rename_i hf hc
        obtain ⟨c1, c2, c3, c4, c5, c6⟩ :=
          common false (if freq x < rarest.2 then (x, freq x) else rarest)
        obtain ⟨_, _, _, _, _, _, i7, i8⟩ := ih (b.setOffset pos x) (pos + 1) false
          (if freq x < rarest.2 then (x, freq x) else rarest)
        refine ⟨c1, c2, c3, c4, c5, c6, ?_, ?_⟩
        · intro h
          rcases i7 h with h' | ⟨y, hy, hy'⟩
          · cases h'
          · rw [s1] at hy'
            exact Or.inr ⟨y, List.mem_cons_of_mem _ hy, hy'⟩
        · intro h
          rcases i8 h with h' | h'
          · rw [h']
            split
            · right; simp
            · left; rfl
          · right; exact List.mem_cons_of_mem _ h'

theorem RareBytesB.addOneRare_spec (freq : UInt8 → Nat) (b : RareBytesB) (x : UInt8) :
    (b.addOneRare freq x).fold = b.fold ∧ (b.addOneRare freq x).available = b.available ∧
    (b.addOneRare freq x).offsets = b.offsets ∧
    (∀ y, y ∈ b.rareSet → y ∈ (b.addOneRare freq x).rareSet) ∧
    x ∈ (b.addOneRare freq x).rareSet := by
  unfold RareBytesB.addOneRare
  split
  · rename_i h
    exact ⟨rfl, rfl, rfl, fun _ h => h, by simpa using h⟩
  · exact ⟨rfl, rfl, rfl, fun y hy => by simp [hy], by simp⟩

/-- `RareBytesB.add`: flags and sets only grow; if the builder is still available afterwards and
the pattern is non-empty, all its positions are recorded and it contains a rare byte -/
theorem RareBytesB.add_spec (freq : UInt8 → Nat) (b : RareBytesB) (bytes : List UInt8) :
    (b.add freq bytes).fold = b.fold ∧
    ((b.add freq bytes).available = true → b.available = true) ∧
    (∀ y, y ∈ b.rareSet → y ∈ (b.add freq bytes).rareSet) ∧
    (∀ z, b.offsets z ≤ (b.add freq bytes).offsets z) ∧
    ((b.add freq bytes).available = true → bytes ≠ [] →
      (∀ j x, bytes[j]? = some x → j ≤ (b.add freq bytes).offsets x ∧
        (b.fold = true → j ≤ (b.add freq bytes).offsets (oppositeAsciiCase x))) ∧
      ∃ y ∈ bytes, y ∈ (b.add freq bytes).rareSet) := by
  unfold RareBytesB.add
  split
  · rename_i h
    have : b.available = false := by simpa using h
    exact ⟨rfl, fun h => h, fun _ h => h, fun _ => Nat.le_refl _,
      fun h' => by rw [this] at h'; cases h'⟩
  · split
    · exact ⟨rfl, fun h => (by cases h), fun _ h => h, fun _ => Nat.le_refl _, fun h => (by cases h)⟩
    · split
      · exact ⟨rfl, fun h => (by cases h), fun _ h => h, fun _ => Nat.le_refl _,
          fun h => (by cases h)⟩
      · split
        · exact ⟨rfl, fun h => h, fun _ h => h, fun _ => Nat.le_refl _, fun _ h => absurd rfl h⟩
        · rename_i x t _
          obtain ⟨c1, c2, c3, c4, c5, c6, c7, c8⟩ :=
            RareBytesB.scan_spec freq (x :: t) b 0 false (x, freq x)
          simp only
          generalize RareBytesB.scan freq b 0 false (x, freq x) (x :: t) = r at *
          obtain ⟨b', found', rarest'⟩ := r
          simp only at c1 c2 c3 c4 c5 c6 c7 c8 ⊢
          have hoff : ∀ j y, (x :: t)[j]? = some y → j ≤ b'.offsets y ∧
              (b.fold = true → j ≤ b'.offsets (oppositeAsciiCase y)) := by
            intro j y hj
            have := c6 j y hj
            simpa using this
          split
          · rename_i hfound
            refine ⟨c4, fun h => c2 ▸ h, fun y hy => c1 ▸ hy, c5, fun _ _ => ⟨hoff, ?_⟩⟩
            rcases c7 hfound with h | ⟨y, hy, hy'⟩
            · cases h
            · exact ⟨y, hy, c1 ▸ hy'⟩
          · rename_i hfound
            have hfound' : found' = false := by simpa using hfound
            have hmem : rarest'.1 ∈ x :: t := by
              rcases c8 hfound' with h | h
              · rw [h]; simp
              · exact h
            obtain ⟨a1, a2, a3, a4, a5⟩ := RareBytesB.addOneRare_spec freq b' rarest'.1
            split
            · rename_i hfold
              obtain ⟨d1, d2, d3, d4, d5⟩ := RareBytesB.addOneRare_spec freq
                (b'.addOneRare freq rarest'.1) (oppositeAsciiCase rarest'.1)
              refine ⟨d1.trans (a1.trans c4), fun h => c2 ▸ a2 ▸ d2 ▸ h,
                fun y hy => d4 y (a4 y (c1 ▸ hy)), ?_, fun _ _ => ⟨?_, rarest'.1, hmem, d4 _ a5⟩⟩
              · intro z; rw [d3, a3]; exact c5 z
              · intro j y hj; rw [d3, a3]; exact hoff j y hj
            · rename_i hfold
              rw [a1, c4] at hfold
              refine ⟨a1.trans c4, fun h => c2 ▸ a2 ▸ h, fun y hy => a4 y (c1 ▸ hy), ?_,
                fun _ _ => ⟨?_, rarest'.1, hmem, a5⟩⟩
              · intro z; rw [a3]; exact c5 z
              · intro j y hj; rw [a3]; exact hoff j y hj

theorem RareBytesB.foldl_spec (freq : UInt8 → Nat) (pats : List (List UInt8)) :
    ∀ (b : RareBytesB),
    ((pats.foldl (RareBytesB.add freq) b).fold = b.fold ∧
     ((pats.foldl (RareBytesB.add freq) b).available = true → b.available = true) ∧
     (∀ y, y ∈ b.rareSet → y ∈ (pats.foldl (RareBytesB.add freq) b).rareSet) ∧
     (∀ z, b.offsets z ≤ (pats.foldl (RareBytesB.add freq) b).offsets z)) ∧
    ((pats.foldl (RareBytesB.add freq) b).available = true → ∀ p ∈ pats, p ≠ [] →
      (∀ j x, p[j]? = some x → j ≤ (pats.foldl (RareBytesB.add freq) b).offsets x ∧
        (b.fold = true → j ≤ (pats.foldl (RareBytesB.add freq) b).offsets (oppositeAsciiCase x))) ∧
      ∃ y ∈ p, y ∈ (pats.foldl (RareBytesB.add freq) b).rareSet) := by
  induction pats with
  | nil =>
    intro b
    exact ⟨⟨rfl, fun h => h, fun _ h => h, fun _ => Nat.le_refl _⟩, fun _ p hp => by cases hp⟩
  | cons p ps ih =>
    intro b
    simp only [List.foldl_cons]
    obtain ⟨⟨f2, a2, s2, o2⟩, m2⟩ := ih (b.add freq p)
    obtain ⟨f1, a1, s1, o1, m1⟩ := RareBytesB.add_spec freq b p
    refine ⟨⟨f2.trans f1, fun h => a1 (a2 h), fun y hy => s2 y (s1 y hy),
      fun z => Nat.le_trans (o1 z) (o2 z)⟩, ?_⟩
    intro hav q hq hqne
    rcases List.mem_cons.1 hq with rfl | hq
    · obtain ⟨h1, y, hy, hy'⟩ := m1 (a2 hav) hqne
      refine ⟨fun j x hj => ?_, y, hy, s2 y hy'⟩
      have := h1 j x hj
      exact ⟨Nat.le_trans this.1 (o2 _), fun hf => Nat.le_trans (this.2 hf) (o2 _)⟩
    · obtain ⟨h1, h2⟩ := m2 hav q hq hqne
      exact ⟨fun j x hj => ⟨(h1 j x hj).1, fun hf => (h1 j x hj).2 (f1.trans hf)⟩, h2⟩

theorem RareBytesB.build_some {b : RareBytesB} {bs : List UInt8} (h : b.build = some bs) :
    b.available = true ∧ b.count ≤ 3 ∧ bs = sortedBytes b.rareSet := by
  unfold RareBytesB.build at h
  split at h
  · cases h
  · rename_i hc
    simp only [Bool.or_eq_true, Bool.not_eq_true', decide_eq_true_eq, not_or] at hc
    simp only at h
    split at h
    · cases h
    · injection h with h
      exact ⟨by simpa using hc.1, by omega, h.symm⟩


/-! ### case-insensitive: the rare set is closed under `oppositeAsciiCase` -/

def RareClosed (b : RareBytesB) : Prop :=
  b.fold = true → ∀ y, y ∈ b.rareSet → oppositeAsciiCase y ∈ b.rareSet

theorem RareBytesB.mem_addOneRare (freq : UInt8 → Nat) (b : RareBytesB) (x y : UInt8) :
    y ∈ (b.addOneRare freq x).rareSet ↔ y ∈ b.rareSet ∨ y = x := by
  unfold RareBytesB.addOneRare
  split
  · rename_i h
    have hx : x ∈ b.rareSet := by simpa using h
    constructor
    · exact Or.inl
    · rintro (h | rfl)
      · exact h
      · exact hx
  · simp

theorem RareBytesB.add_closed (freq : UInt8 → Nat) (b : RareBytesB) (bytes : List UInt8)
    (hc : RareClosed b) : RareClosed (b.add freq bytes) := by
  unfold RareBytesB.add
  split
  · exact hc
  · split
    · exact hc
    · split
      · exact hc
      · split
        · exact hc
        · rename_i x t _
          obtain ⟨c1, _, _, c4, _⟩ := RareBytesB.scan_spec freq (x :: t) b 0 false (x, freq x)
          simp only
          generalize RareBytesB.scan freq b 0 false (x, freq x) (x :: t) = r at *
          obtain ⟨b', found', rarest'⟩ := r
          simp only at c1 c4 ⊢
          have hc' : RareClosed b' := by
            intro hf y hy
            rw [c1] at hy ⊢
            exact hc (c4 ▸ hf) y hy
          split
          · exact hc'
          · obtain ⟨a1, _, _, _, _⟩ := RareBytesB.addOneRare_spec freq b' rarest'.1
            split
            · rename_i hfold
              intro _ y hy
              rw [RareBytesB.mem_addOneRare, RareBytesB.mem_addOneRare] at hy ⊢
              rcases hy with (hy | rfl) | rfl
              · exact Or.inl (Or.inl (hc' (a1 ▸ hfold) y hy))
              · exact Or.inr rfl
              · rw [MiscP.opp_involution]; exact Or.inl (Or.inr rfl)
            · rename_i hfold
              intro hf
              exact absurd hf hfold

theorem RareBytesB.foldl_closed (freq : UInt8 → Nat) (pats : List (List UInt8)) :
    ∀ (b : RareBytesB), RareClosed b → RareClosed (pats.foldl (RareBytesB.add freq) b) := by
  induction pats with
  | nil => intro b h; exact h
  | cons p ps ih => intro b h; exact ih _ (RareBytesB.add_closed freq b p h)

/-! ## `prefilter::Builder::build` -/

/-- the `(packed, patlen, minlen)` triple of `prefilter::Builder::build` -/
def packedTriple (K : Consts) (b : PreBuilder) (avx2 ssse3 : Bool) : Option PreChoice × Nat × Nat :=
  if b.fold then (none, 18446744073709551615, 0)
  else match (match b.kind with | .std => none | .lf => some PKind.lf | .ll => some PKind.ll) with
    | none => (none, 18446744073709551615, 0)
    | some pkind =>
      match b.packed with
      | none => (none, 0, 18446744073709551615)
      | some ps =>
        ((packedBuild K pkind ps none none none true avx2 ssse3).map PreChoice.packed, ps.length,
          (ps.map List.length).foldl min 18446744073709551615)

theorem build_eq (K : Consts) (b : PreBuilder) (avx2 ssse3 : Bool) :
    PreBuilder.build K b avx2 ssse3 =
      if !b.enabled then none
      else
        match (if !b.fold then b.memOne else none) with
        | some needle => some (.memmem needle)
        | none =>
          let T := packedTriple K b avx2 ssse3
          match b.start.build, b.rare.build with
          | some sb, some rb =>
            if T.2.1 ≤ K.prePackedPatlen && T.2.2 ≥ 2 && b.start.count ≥ 3 && b.rare.count ≥ 3 then T.1
            else if b.start.count < b.rare.count then some (.startBytes sb)
            else if b.start.rankSum ≤ b.rare.rankSum + K.preRankSlack then some (.startBytes sb)
            else some (.rareBytes rb b.rare.offsets)
          | some sb, none =>
            if T.2.1 ≤ K.prePackedPatlen && T.2.2 ≥ 2 && b.start.count ≥ 3 then T.1 else some (.startBytes sb)
          | none, some rb =>
            if T.2.1 ≤ K.prePackedPatlen && T.2.2 ≥ 2 && b.rare.count ≥ 3 then T.1
            else some (.rareBytes rb b.rare.offsets)
          | none, none => if b.fold then none else T.1 := by
  rfl

theorem packedTriple_fst {K : Consts} {b : PreBuilder} {avx2 ssse3 : Bool} {ch : PreChoice}
    (h : (packedTriple K b avx2 ssse3).1 = some ch) :
    b.fold = false ∧ b.kind ≠ .std ∧ ∃ s, ch = .packed s := by
  unfold packedTriple at h
  split at h
  · cases h
  · rename_i hf
    split at h
    · cases h
    · rename_i pk hk
      split at h
      · cases h
      · simp only [Option.map_eq_some_iff] at h
        obtain ⟨s, _, rfl⟩ := h
        refine ⟨by simpa using hf, ?_, s, rfl⟩
        intro hstd
        rw [hstd] at hk
        cases hk

/-- what `build` returning a choice tells about the builder -/
theorem build_cases {K : Consts} {b : PreBuilder} {avx2 ssse3 : Bool} {ch : PreChoice}
    (h : PreBuilder.build K b avx2 ssse3 = some ch) :
    b.enabled = true ∧
    match ch with
    | .memmem n => b.fold = false ∧ b.memOne = some n
    | .startBytes bs => b.start.build = some bs
    | .rareBytes bs offs => b.rare.build = some bs ∧ offs = b.rare.offsets
    | .packed _ => b.fold = false ∧ b.kind ≠ .std := by
  rw [build_eq] at h
  split at h
  · cases h
  · rename_i hen
    refine ⟨by simpa using hen, ?_⟩
    have hT : ∀ {c}, (packedTriple K b avx2 ssse3).1 = some c →
        b.fold = false ∧ b.kind ≠ .std ∧ ∃ s, c = .packed s := packedTriple_fst
    split at h
    · rename_i needle hm
      injection h with h
      subst h
      simp only
      split at hm
      · rename_i hf; exact ⟨by simpa using hf, hm⟩
      · cases hm
    · simp only at h
      split at h
      · rename_i sb rb hsb hrb
        split at h
        · obtain ⟨h1, h2, s, rfl⟩ := hT h; exact ⟨h1, h2⟩
        · split at h
          · injection h with h; subst h; exact hsb
          · split at h
            · injection h with h; subst h; exact hsb
            · injection h with h; subst h; exact ⟨hrb, rfl⟩
      · rename_i sb hsb hrb
        split at h
        · obtain ⟨h1, h2, s, rfl⟩ := hT h; exact ⟨h1, h2⟩
        · injection h with h; subst h; exact hsb
      · rename_i rb hsb hrb
        split at h
        · obtain ⟨h1, h2, s, rfl⟩ := hT h; exact ⟨h1, h2⟩
        · injection h with h; subst h; exact ⟨hrb, rfl⟩
      · split at h
        · cases h
        · obtain ⟨h1, h2, s, rfl⟩ := hT h; exact ⟨h1, h2⟩

/-! ## `prefilter::Builder::add` -/

theorem PreBuilder.add_nonempty (K : Consts) (freq : UInt8 → Nat) (b : PreBuilder)
    (bytes : List UInt8) (hb : b.enabled = true) (hne : bytes ≠ []) :
    (b.add K freq bytes).enabled = true ∧ (b.add K freq bytes).fold = b.fold ∧
    (b.add K freq bytes).kind = b.kind ∧
    (b.add K freq bytes).start = b.start.add freq bytes ∧
    (b.add K freq bytes).rare = b.rare.add freq bytes ∧
    (b.add K freq bytes).memCount = b.memCount + 1 ∧
    (b.add K freq bytes).memOne = if b.memCount + 1 == 1 then some bytes else none := by
  have he : bytes.isEmpty = false := by
    cases bytes with
    | nil => exact absurd rfl hne
    | cons _ _ => rfl
  unfold PreBuilder.add
  simp [he, hb]

/-- a disabled builder stays disabled -/
theorem PreBuilder.add_disabled (K : Consts) (freq : UInt8 → Nat) (b : PreBuilder)
    (bytes : List UInt8) (hb : b.enabled = false) : (b.add K freq bytes).enabled = false := by
  unfold PreBuilder.add
  by_cases he : bytes.isEmpty = true
  · simp [he]
  · simp [he, hb]

/-- an empty pattern disables the builder -/
theorem PreBuilder.add_empty (K : Consts) (freq : UInt8 → Nat) (b : PreBuilder) :
    (b.add K freq []).enabled = false := by
  unfold PreBuilder.add
  simp

theorem PreBuilder.foldl_disabled (K : Consts) (freq : UInt8 → Nat) (pats : List (List UInt8)) :
    ∀ (b : PreBuilder), b.enabled = false →
      (pats.foldl (PreBuilder.add K freq) b).enabled = false := by
  induction pats with
  | nil => intro b h; exact h
  | cons p ps ih => intro b h; exact ih _ (PreBuilder.add_disabled K freq b p h)

theorem PreBuilder.foldl_empty (K : Consts) (freq : UInt8 → Nat) (pats : List (List UInt8))
    (h : [] ∈ pats) : ∀ (b : PreBuilder), (pats.foldl (PreBuilder.add K freq) b).enabled = false := by
  induction pats with
  | nil => cases h
  | cons p ps ih =>
    intro b
    rcases List.mem_cons.1 h with rfl | h
    · exact PreBuilder.foldl_disabled K freq ps _ (PreBuilder.add_empty K freq b)
    · exact ih h _

theorem PreBuilder.foldl_nonempty (K : Consts) (freq : UInt8 → Nat) (pats : List (List UInt8))
    (hne : ∀ p ∈ pats, p ≠ []) : ∀ (b : PreBuilder), b.enabled = true →
    (pats.foldl (PreBuilder.add K freq) b).enabled = true ∧
    (pats.foldl (PreBuilder.add K freq) b).fold = b.fold ∧
    (pats.foldl (PreBuilder.add K freq) b).kind = b.kind ∧
    (pats.foldl (PreBuilder.add K freq) b).start = pats.foldl (StartBytesB.add freq) b.start ∧
    (pats.foldl (PreBuilder.add K freq) b).rare = pats.foldl (RareBytesB.add freq) b.rare ∧
    (pats.foldl (PreBuilder.add K freq) b).memCount = b.memCount + pats.length := by
  induction pats with
  | nil => intro b hb; exact ⟨hb, rfl, rfl, rfl, rfl, rfl⟩
  | cons p ps ih =>
    intro b hb
    obtain ⟨a1, a2, a3, a4, a5, a6, _⟩ :=
      PreBuilder.add_nonempty K freq b p hb (hne p (by simp))
    obtain ⟨i1, i2, i3, i4, i5, i6⟩ := ih (fun q hq => hne q (by simp [hq])) _ a1
    simp only [List.foldl_cons, List.length_cons]
    exact ⟨i1, i2.trans a2, i3.trans a3, by rw [i4, a4], by rw [i5, a5], by rw [i6, a6]; omega⟩

/-- the builder only remembers a `memmem` needle when exactly one pattern was added -/
theorem PreBuilder.foldl_memOne (K : Consts) (freq : UInt8 → Nat) (pats : List (List UInt8))
    (hne : ∀ p ∈ pats, p ≠ []) (kind : MatchKind) (fold : Bool) (needle : List UInt8)
    (h : (pats.foldl (PreBuilder.add K freq) (PreBuilder.new kind fold)).memOne = some needle) :
    pats = [needle] := by
  rcases List.eq_nil_or_concat pats with rfl | ⟨done, x, rfl⟩
  · cases h
  · rw [List.concat_eq_append] at *
    rw [List.foldl_append] at h
    simp only [List.foldl_cons, List.foldl_nil] at h
    obtain ⟨i1, _, _, _, _, i6⟩ := PreBuilder.foldl_nonempty K freq done
      (fun q hq => hne q (by simp [hq])) (PreBuilder.new kind fold) rfl
    obtain ⟨_, _, _, _, _, _, a7⟩ := PreBuilder.add_nonempty K freq _ x i1 (hne x (by simp))
    rw [a7, i6] at h
    have h0 : (PreBuilder.new kind fold).memCount = 0 := rfl
    rw [h0] at h
    split at h
    · rename_i hc
      injection h with h
      subst h
      have : done.length = 0 := by simpa using hc
      rw [List.eq_nil_of_length_eq_zero this]; rfl
    · cases h

end AcVerif.PreP
