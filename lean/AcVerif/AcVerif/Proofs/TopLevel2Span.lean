import AcVerif.TopLevel2
import AcVerif.Proofs.SpanSpec
import AcVerif.Proofs.IterFacts
import AcVerif.Theorems.SpecUnique
import AcVerif.Proofs.TopLevelEval
/-!
# Capstone proofs, part 8: a span is the sub-slice (C10), for the answers of restarted searches

`EngP.find_slice` relates the answer for the span `[s, e]` to the answer for the whole sub-slice.
The iterator restarts the search inside the span, so here the statement is generalised to the span
`[s + st, e]` versus the span `[st, e - s]` of the sub-slice (`find_slice_at`), and lifted to
`iterSpec` (`iter_slice`, `iter_frame`).
-/
namespace AcVerif.TopP
open AcVerif AcVerif.MiscP AcVerif.EngP
variable {α : Type}

/-! ## occurrences -/

/-- the span start is only a lower bound on the start of the occurrence -/
theorem isOcc_from_iff (P : List (List α)) (H : List α) (a b : Nat) (m : Mat) :
    IsOcc P H a b m ↔ IsOcc P H 0 b m ∧ a ≤ m.start := by
  unfold IsOcc
  constructor
  · rintro ⟨p, h1, h2, h3, h4, h5⟩
    exact ⟨⟨p, h1, Nat.zero_le _, h3, h4, h5⟩, h2⟩
  · rintro ⟨⟨p, h1, _, h3, h4, h5⟩, h2⟩
    exact ⟨p, h1, h2, h3, h4, h5⟩

theorem occ_slice_at (P : List (List α)) (hay : List α) (s e st : Nat) (hse : s ≤ e) (m : Mat) :
    IsOcc P ((hay.take e).drop s) st (e - s) m ↔ IsOcc P hay (st + s) e (m.shift s) := by
  constructor
  · intro h
    obtain ⟨h0, hst⟩ := (isOcc_from_iff P _ st (e - s) m).1 h
    have h1 := (occ_slice P hay s e hse m).1 h0
    exact (isOcc_from_iff P hay (st + s) e _).2
      ⟨((isOcc_from_iff P hay s e _).1 h1).1, by simp only [Mat.shift_start]; omega⟩
  · intro h
    obtain ⟨h0, hst⟩ := (isOcc_from_iff P hay (st + s) e _).1 h
    simp only [Mat.shift_start] at hst
    have h1 : IsOcc P hay s e (m.shift s) :=
      (isOcc_from_iff P hay s e _).2 ⟨h0, by simp only [Mat.shift_start]; omega⟩
    have h2 := (occ_slice P hay s e hse m).2 h1
    exact (isOcc_from_iff P _ st (e - s) m).2 ⟨h2, by omega⟩

theorem occA_slice_at (P : List (List α)) (hay : List α) (s e st : Nat) (hse : s ≤ e)
    (anch : Bool) (m : Mat) :
    IsOccA P ((hay.take e).drop s) st (e - s) anch m ↔
      IsOccA P hay (st + s) e anch (m.shift s) := by
  unfold IsOccA
  rw [occ_slice_at P hay s e st hse m, Mat.shift_start]
  constructor
  · rintro ⟨h1, h2⟩; exact ⟨h1, fun h => by have := h2 h; omega⟩
  · rintro ⟨h1, h2⟩; exact ⟨h1, fun h => by have := h2 h; omega⟩

theorem occA_slice_at_surj (P : List (List α)) (hay : List α) (s e st : Nat) (anch : Bool)
    (m : Mat) (h : IsOccA P hay (st + s) e anch m) : ∃ m' : Mat, m = m'.shift s := by
  have := occ_inside P hay (st + s) e m h.1
  exact shift_surj_of_le m s (by omega) this.2.1

/-- the answer for the span `[st, e - s]` of the sub-slice, translated, is the answer for the span
`[st + s, e]` -/
theorem find_slice_at (k : MatchKind) (P : List (List α)) (hay : List α) (s e st : Nat)
    (hse : s ≤ e) (anch : Bool) (r : Option Mat) :
    IsFind k P ((hay.take e).drop s) st (e - s) anch r ↔
      IsFind k P hay (st + s) e anch (r.map (·.shift s)) := by
  cases r with
  | none =>
    simp only [IsFind, Option.map_none]
    constructor
    · intro h m hm
      obtain ⟨m', rfl⟩ := occA_slice_at_surj P hay s e st anch m hm
      exact h m' ((occA_slice_at P hay s e st hse anch m').2 hm)
    · intro h m hm
      exact h _ ((occA_slice_at P hay s e st hse anch m).1 hm)
  | some m =>
    simp only [IsFind, Option.map_some]
    rw [occA_slice_at P hay s e st hse anch m]
    constructor
    · rintro ⟨h1, h2⟩
      refine ⟨h1, fun m' hm' => ?_⟩
      obtain ⟨m'', rfl⟩ := occA_slice_at_surj P hay s e st anch m' hm'
      exact (better_shift k m m'' s).2 (h2 m'' ((occA_slice_at P hay s e st hse anch m'').2 hm'))
    · rintro ⟨h1, h2⟩
      refine ⟨h1, fun m' hm' => ?_⟩
      exact (better_shift k m m' s).1 (h2 _ ((occA_slice_at P hay s e st hse anch m').1 hm'))

/-! ## the iterator -/

theorem shift_zero : (fun m : Mat => m.shift 0) = id := by
  funext m; cases m; rfl

theorem iterNext_shift {F F' : Nat → Option Mat} {d lo e' : Nat} (hok : SpanOK F' e')
    (hF : ∀ st, lo ≤ st → st ≤ e' + 1 → F (st + d) = (F' st).map (·.shift d))
    (start : Nat) (last : Option Nat) (hlo : lo ≤ start) (hs : start ≤ e' + 1) :
    iterNext F (start + d) (last.map (· + d)) = (iterNext F' start last).map (·.shift d) := by
  unfold iterNext
  rw [hF start hlo hs]
  cases h0 : F' start with
  | none => rfl
  | some m0 =>
    simp only [Option.map_some]
    have b0 := hok start hs m0 h0
    have hc : ((m0.shift d).start = (m0.shift d).stop ∧
          last.map (· + d) = some (m0.shift d).stop) ↔
        (m0.start = m0.stop ∧ last = some m0.stop) := by
      simp only [Mat.shift_start, Mat.shift_stop]
      cases last with
      | none => simp
      | some x => simp only [Option.map_some, Option.some.injEq]; omega
    by_cases hcc : m0.start = m0.stop ∧ last = some m0.stop
    · rw [if_pos (hc.2 hcc), if_pos hcc]
      have : start + d + 1 = (start + 1) + d := by omega
      rw [this, hF (start + 1) (by omega) (by omega)]
    · rw [if_neg (fun h => hcc (hc.1 h)), if_neg hcc]
      rfl

theorem iterAux_shift {F F' : Nat → Option Mat} {d lo e' : Nat} (hok : SpanOK F' e')
    (hF : ∀ st, lo ≤ st → st ≤ e' + 1 → F (st + d) = (F' st).map (·.shift d)) :
    ∀ (fuel start : Nat) (last : Option Nat), lo ≤ start → start ≤ e' + 1 →
      iterSpecAux F fuel (start + d) (last.map (· + d)) =
        (iterSpecAux F' fuel start last).map (·.shift d) := by
  intro fuel
  induction fuel with
  | zero => intro start last _ _; rfl
  | succ fuel ih =>
    intro start last hlo hs
    rw [iterSpecAux_succ, iterSpecAux_succ, iterNext_shift hok hF start last hlo hs]
    cases h0 : iterNext F' start last with
    | none => rfl
    | some m0 =>
      have p0 := iterNext_props hok hs h0
      have := ih m0.stop (some m0.stop) (by omega) (by omega)
      exact congrArg (m0.shift d :: ·) this

/-- the iterator over the span is the translated iterator over the sub-slice -/
theorem iter_slice {k : MatchKind} {P : List (List α)} {hay : List α} {s e : Nat} {anch : Bool}
    (hse : s ≤ e) {F F' : Nat → Option Mat}
    (hF : ∀ st, st ≤ e + 1 → IsFind k P hay st e anch (F st))
    (hF' : ∀ st, st ≤ (e - s) + 1 → IsFind k P ((hay.take e).drop s) st (e - s) anch (F' st)) :
    iterSpec F s e = (iterSpec F' 0 (e - s)).map (·.shift s) := by
  have hok : SpanOK F' (e - s) := spanOK_of_isFind hF'
  have hFF : ∀ st, 0 ≤ st → st ≤ (e - s) + 1 → F (st + s) = (F' st).map (·.shift s) := by
    intro st _ hst
    exact IsFind_unique k P hay (st + s) e anch _ _ (hF (st + s) (by omega))
      ((find_slice_at k P hay s e st hse anch (F' st)).1 (hF' st hst))
  have := iterAux_shift hok hFF (e - s + 2 - 0) 0 none (Nat.le_refl _) (Nat.zero_le _)
  rw [Nat.zero_add] at this
  unfold iterSpec
  rw [show e + 2 - s = e - s + 2 - 0 by omega]
  exact this

/-- the iterator only reads the haystack inside the span -/
theorem iter_frame {k : MatchKind} {P : List (List α)} {hay hay' : List α} {s e : Nat}
    {anch : Bool} (hsame : (hay.take e).drop s = (hay'.take e).drop s) (hs : s ≤ e + 1)
    {F F' : Nat → Option Mat}
    (hF : ∀ st, st ≤ e + 1 → IsFind k P hay st e anch (F st))
    (hF' : ∀ st, st ≤ e + 1 → IsFind k P hay' st e anch (F' st)) :
    iterSpec F s e = iterSpec F' s e := by
  have hok : SpanOK F' e := spanOK_of_isFind hF'
  have hFF : ∀ st, s ≤ st → st ≤ e + 1 → F (st + 0) = (F' st).map (·.shift 0) := by
    intro st h1 h2
    rw [shift_zero, Option.map_id_fun, id]
    have hsame' : (hay.take e).drop st = (hay'.take e).drop st := by
      have := congrArg (List.drop (st - s)) hsame
      rw [List.drop_drop, List.drop_drop, show s + (st - s) = st by omega] at this
      exact this
    exact IsFind_unique k P hay st e anch _ _ (hF st h2)
      ((find_frame k P hay hay' st e hsame' anch (F' st)).2 (hF' st h2))
  have := iterAux_shift hok hFF (e + 2 - s) s none (Nat.le_refl _) hs
  rw [shift_zero, List.map_id_fun, id] at this
  exact this

/-! ## the engine without prefilter only reads the span (every mode) -/

/-- `try_find_fwd` without prefilter is a function of the span bounds, the flags and the bytes
inside the span -/
theorem tryFindS_frame {σ : Type} (A : Aut σ α) (i i' : Input α)
    (hs' : i'.s = i.s) (he' : i'.e = i.e) (ha : i'.anch = i.anch)
    (hea : i'.earliest = i.earliest)
    (hsame : (i.hay.take i.e).drop i.s = (i'.hay.take i.e).drop i.s) :
    tryFindS A i = tryFindS A i' := by
  unfold tryFindS findImpS Input.isDone
  rw [hs', he', ha, hea, ← hsame]

/-- `AhoCorasick::try_find` on a searcher without prefilter, every mode -/
theorem topFind_frame_nopre (s : Searcher) (hpre : s.pre = none) (i i' : Input UInt8)
    (hs' : i'.s = i.s) (he' : i'.e = i.e) (ha : i'.anch = i.anch)
    (hea : i'.earliest = i.earliest)
    (hsame : (i.hay.take i.e).drop i.s = (i'.hay.take i.e).drop i.s) :
    topFind s i = topFind s i' := by
  rw [topFind_eq_S s hpre, topFind_eq_S s hpre]
  unfold topFindS
  rw [ha, tryFindS_frame s.aut i i' hs' he' ha hea hsame]

/-! ## the specification's haystack of a sub-slice -/

theorem specHay_slice (f : Bool) (hay : List UInt8) (s e : Nat) :
    specHay f ((hay.take e).drop s) = ((specHay f hay).take e).drop s := by
  cases f
  · rfl
  · simp only [specHay, List.map_drop, List.map_take]

theorem specHay_length (f : Bool) (hay : List UInt8) : (specHay f hay).length = hay.length := by
  cases f
  · rfl
  · exact List.length_map _

end AcVerif.TopP
