import AcVerif.Proofs.StreamResume
import AcVerif.Proofs.StreamIdeal
/-!
# Stream search: draining the resumable chunk iterator

From a state satisfying the invariant, `ChunkIter.drainT` (the caller pulls on
after an error item) yields an item list whose chunks – the error items
removed – meet the chunk-sequence specification `Spec … false` (a COMPLETE
run: nothing lost, nothing invented, in order), with at most one error item
(none if the fault is already behind us), and `emptyReads = 0`.
`streamT_master` instantiates this for the ideal standard automaton.
-/
namespace AcVerif.StreamP
open AcVerif
variable {σ α : Type}

/-- number of error items of a chunk-level item list -/
def errItems (items : List (Option (Chunk α))) : Nat := (items.filter Option.isNone).length

@[simp] theorem errItems_nil : errItems ([] : List (Option (Chunk α))) = 0 := rfl
@[simp] theorem errItems_none (items : List (Option (Chunk α))) :
    errItems (none :: items) = errItems items + 1 := rfl
@[simp] theorem errItems_some (c : Chunk α) (items : List (Option (Chunk α))) :
    errItems (some c :: items) = errItems items := rfl

theorem fm_none {β γ : Type} (f : β → Option γ) (x : β) (xs : List β) (h : f x = none) :
    (x :: xs).filterMap f = xs.filterMap f := by
  simp only [List.filterMap_cons, h]

theorem fm_some {β γ : Type} (f : β → Option γ) (x : β) (xs : List β) (y : γ) (h : f x = some y) :
    (x :: xs).filterMap f = y :: xs.filterMap f := by
  simp only [List.filterMap_cons, h]

section
variable {A : Aut σ α} {st0 : σ} {data : List α} {sched : List Nat} {fa : Option Nat}
  {Lm C : Nat}

theorem drainT_spec (H : Hyp A st0 data sched Lm C) (n : Nat) (it : ChunkIter σ α) (r : Nat)
    (h : Inv A st0 data sched fa Lm C r it) (hn : data.length - off it + 1 ≤ n)
    (hn' : ¬ Spent it.rdr → data.length - off it + 2 ≤ n) :
    ∃ items, ChunkIter.drainT A n it = (items, 0) ∧
      Spec (firstMatch A st0 data) data false (off it) r (items.filterMap id) ∧
      errItems items ≤ 1 ∧ (Spent it.rdr → errItems items = 0) := by
  induction n generalizing it r with
  | zero => omega
  | succ n ih =>
    rw [ChunkIter.drainT]
    have hp := next_postT H (nextFuel it) it r h (need_le_nextFuel h)
    generalize ChunkIter.nextT A it (nextFuel it) = res at hp
    match res, hp with
    | (.done, it'), hp =>
      obtain ⟨h1, h2, h3⟩ := hp
      refine ⟨[], by simp only [h1], Or.inr ⟨h2, h3⟩, Nat.zero_le _, fun _ => rfl⟩
    | (.ioErr, it'), hp =>
      obtain ⟨h1, h2, h3, h4⟩ := hp
      have := hn' h3
      obtain ⟨items, hd, hs, _, he⟩ := ih it' r h1 (by omega) (fun hns => absurd h4 hns)
      have he' := he h4
      refine ⟨none :: items, by simp only [hd], ?_, ?_, fun hsp => absurd hsp h3⟩
      · rw [fm_none id _ _ rfl, ← h2]; exact hs
      · rw [errItems_none, he']; exact Nat.le_refl _
    | (.chunk (.nonMatch b), it'), hp =>
      obtain ⟨⟨h1, h2, h3⟩, h4⟩ := hp
      have hle := h1.off_le
      obtain ⟨items, hd, hs, he1, he⟩ := ih it' r h1 (by omega)
        (fun hns => by have := hn' (fun hsp => hns (h4 hsp)); omega)
      refine ⟨some (.nonMatch b) :: items, by simp only [hd], ?_, he1, fun hsp => he (h4 hsp)⟩
      rw [fm_some id _ _ _ rfl]
      exact ⟨off it', h2, hle, h3, hs⟩
    | (.chunk (.mtch b m), it'), hp =>
      obtain ⟨⟨h1, h2, h3, h4, h5⟩, h6⟩ := hp
      have hrN : r ≤ data.length := Nat.le_trans h.scan.1 h.scan.2.1
      have hm := H.fok r m hrN h2
      have hle := h1.off_le
      rw [h4] at hle
      obtain ⟨items, hd, hs, he1, he⟩ := ih it' m.stop h1 (by omega)
        (fun hns => by have := hn' (fun hsp => hns (h6 hsp)); omega)
      refine ⟨some (.mtch b m) :: items, by simp only [hd], ?_, he1, fun hsp => he (h6 hsp)⟩
      rw [fm_some id _ _ _ rfl]
      rw [h4] at hs
      exact ⟨h2, h3, h5, hs⟩

end

/-! ## from chunk-level items to `StreamFindIter` items -/

theorem findItem_mats (items : List (Option (Chunk α))) :
    (items.filterMap findItem).filterMap id = chunkMats (items.filterMap id) := by
  induction items with
  | nil => rfl
  | cons x items ih =>
    match x with
    | none =>
      rw [fm_some findItem _ _ _ rfl, fm_none id _ _ rfl, fm_none id _ _ rfl]
      exact ih
    | some (.nonMatch b) =>
      rw [fm_none findItem _ _ rfl, fm_some id _ _ _ rfl, chunkMats_nonMatch]
      exact ih
    | some (.mtch b m) =>
      rw [fm_some findItem _ _ (some m) rfl, fm_some id _ _ _ rfl, fm_some id _ _ _ rfl,
        chunkMats_mtch, ih]

theorem findItem_errs (items : List (Option (Chunk α))) :
    ((items.filterMap findItem).filter (· == none)).length = errItems items := by
  induction items with
  | nil => rfl
  | cons x items ih =>
    match x with
    | none =>
      rw [fm_some findItem _ _ none rfl, List.filter_cons_of_pos (by rfl),
        List.length_cons, ih, errItems_none]
    | some (.nonMatch b) =>
      rw [fm_none findItem _ _ rfl, ih, errItems_some]
    | some (.mtch b m) =>
      rw [fm_some findItem _ _ (some m) rfl, List.filter_cons_of_neg (by simp), ih,
        errItems_some]

/-- no error item: the items are the matches -/
theorem items_of_no_err (items : List (Option Mat))
    (h : (items.filter (· == none)).length = 0) : items = (items.filterMap id).map some := by
  induction items with
  | nil => rfl
  | cons x items ih =>
    match x with
    | none => simp at h
    | some m =>
      rw [List.filter_cons_of_neg (by simp)] at h
      rw [fm_some id _ _ m rfl, List.map_cons, ← ih h]

/-! ## the ideal standard automaton -/

section Ideal
variable {α : Type} [DecidableEq α]

/-- `streamFindT` on the ideal standard automaton, whatever the fault: the
chunks of the item list (error items removed) meet `Spec … false` -/
theorem streamT_master (P : List (List α)) (sk : StartKind) (hsk : supportsAnch sk false)
    (hne : ∀ p ∈ P, p ≠ []) (data : List α) (sched : List Nat) (hs : ∀ x ∈ sched, 1 ≤ x)
    (spare : Option Nat) (minFactor defaultCap : Nat)
    (hcap : (Buffer.new (α := α) (ideal .std P sk false).maxLen spare minFactor defaultCap).min <
        (Buffer.new (α := α) (ideal .std P sk false).maxLen spare minFactor defaultCap).cap)
    (fa : Option Nat) :
    ∃ it items,
      ChunkIter.new (ideal .std P sk false) { data := data, sched := sched, failAt := fa } spare
        minFactor defaultCap = .ok it ∧
      ChunkIter.drainT (ideal .std P sk false) (drainFuelT data) it = (items, 0) ∧
      Spec (firstMatch (ideal .std P sk false) (.at []) data) data false 0 0
        (items.filterMap id) ∧
      errItems items ≤ 1 ∧ (fa = none → errItems items = 0) := by
  have H := hyp_ideal P sk hsk hne data sched hs spare minFactor defaultCap hcap
  have hI := inv_init P sk data sched fa spare minFactor defaultCap
  obtain ⟨items, hd, hsp, he1, he⟩ := drainT_spec H (drainFuelT data) _ 0 hI
    (by unfold drainFuelT; omega) (fun _ => by unfold drainFuelT; omega)
  refine ⟨_, items, new_ok P sk hsk hne _ spare minFactor defaultCap, hd, hsp, he1, ?_⟩
  intro hfa
  exact he (spent_of_none hfa)

end Ideal

end AcVerif.StreamP
