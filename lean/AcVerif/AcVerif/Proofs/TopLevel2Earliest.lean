import AcVerif.TopLevel2
import AcVerif.Proofs.TopLevelApi
/-!
# Capstone proofs, part 10: earliest mode on the leftmost match kinds (C14), no prefilter

`ref_earliest`: C14 on the reference automaton, uniformly in `fold`; `api_find_earliest`: on a good
searcher without prefilter.
-/
namespace AcVerif.TopP
open AcVerif AcVerif.MiscP AcVerif.BuildP

/-- what C14 says of a pair (earliest answer, normal answer) -/
def EarliestOK (P : List (List UInt8)) (hay : List UInt8) (s e : Nat) (anch : Bool)
    (r r' : Option Mat) : Prop :=
  r.isSome = r'.isSome ∧
    ∀ m, r = some m → IsOccA P hay s e anch m ∧ ∀ m', r' = some m' → m.stop ≤ m'.stop

theorem leftmost_of_ne_std {k : MatchKind} (hk : k ≠ .std) : k = .ll ∨ k = .lf := by
  cases k <;> simp at hk ⊢

/-- C14 (+ C11): on the reference automaton the earliest-mode search of a leftmost searcher reports
a genuine admissible occurrence, exactly when the normal search reports one, ending no later -/
theorem ref_earliest (f : Bool) (k : MatchKind) (hk : k ≠ .std) (P : List (List UInt8))
    (sk : StartKind) (i : Input UInt8) (h : supportsAnch sk i.anch) :
    ∃ r r', tryFindFwd (refAut f k P sk false) none { i with earliest := true } = .ok r ∧
      tryFindFwd (refAut f k P sk false) none { i with earliest := false } = .ok r' ∧
      IsFind k (specPats f P) (specHay f i.hay) i.s i.e i.anch r' ∧
      EarliestOK (specPats f P) (specHay f i.hay) i.s i.e i.anch r r' := by
  have hk' := leftmost_of_ne_std hk
  obtain ⟨r'', h2', hf⟩ := ref_find f k P sk { i with earliest := false } h (Or.inr rfl)
  cases f
  · obtain ⟨r, r', h1, h2, h3, h4⟩ := C14_earliest k hk' P sk i h
    have : r'' = r' := by
      have := h2'.symm.trans h2
      injection this
    subst this
    exact ⟨r, r'', h1, h2, hf, h3, h4⟩
  · obtain ⟨r, r', h1, h2, h3, h4⟩ :=
      C14_earliest k hk' (P.map (·.map foldByte)) sk (i.mapHay foldByte) h
    have e1 : tryFindFwd (refAut true k P sk false) none { i with earliest := true } = .ok r :=
      (tryFindFwd_comap _ foldByte { i with earliest := true }).trans h1
    have e2 : tryFindFwd (refAut true k P sk false) none { i with earliest := false } = .ok r' :=
      (tryFindFwd_comap _ foldByte { i with earliest := false }).trans h2
    have : r'' = r' := by
      have := h2'.symm.trans e2
      injection this
    subst this
    exact ⟨r, r'', e1, e2, hf, h3, h4⟩

/-- **`try_find` in earliest mode on a leftmost searcher**, no prefilter -/
theorem api_find_earliest {s : Searcher} {kd : AcKind} (hg : Good s kd) (hpre : s.pre = none)
    (hk : s.cfg.matchKind ≠ .std) (i : Input UInt8) (h : supportsAnch s.cfg.startKind i.anch) :
    ∃ r r', topFind s { i with earliest := true } = .ok r ∧
      topFind s { i with earliest := false } = .ok r' ∧
      IsFind s.cfg.matchKind (specPats s.cfg.fold s.pats) (specHay s.cfg.fold i.hay)
        i.s i.e i.anch r' ∧
      EarliestOK (specPats s.cfg.fold s.pats) (specHay s.cfg.fold i.hay) i.s i.e i.anch r r' := by
  obtain ⟨r, r', h1, h2, h3, h4⟩ := ref_earliest s.cfg.fold s.cfg.matchKind hk s.pats
    (autSk kd s.cfg.startKind) i (supports_autSk kd h)
  refine ⟨r, r', ?_, ?_, h3, h4⟩
  · unfold topFind
    rw [show ({ i with earliest := true } : Input UInt8).anch = i.anch from rfl, gate_none h, hpre]
    show tryFindFwd s.aut none { i with earliest := true } = _
    rw [hg.find_ref, hg.hasPre_false hpre, h1]
  · unfold topFind
    rw [show ({ i with earliest := false } : Input UInt8).anch = i.anch from rfl, gate_none h,
      hpre]
    show tryFindFwd s.aut none { i with earliest := false } = _
    rw [hg.find_ref, hg.hasPre_false hpre, h2]

end AcVerif.TopP
