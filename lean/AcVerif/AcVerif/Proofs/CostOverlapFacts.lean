import AcVerif.Proofs.CostBounds
/-!
# the per-call counters are ghost state of the stepwise overlapping search
-/
namespace AcVerif
namespace CostP
variable {α : Type} [DecidableEq α]

theorem ovlCost_fst' (k : MatchKind) (Q : PatSet α) (A : Aut (St α) α) (g : α → α)
    (hay : List α) (s e : Nat) (he : e ≤ hay.length) (pre : Option (Prefilter α)) (anch : Bool)
    (sid : St α) (at_ : Nat) (cost : Cost) :
    (ovlCost k Q A g hay s e he pre anch sid at_ cost).1 = ovlLoop A hay s e he pre anch sid at_ :=
  ovlCost_fst k Q A g hay s e he pre anch _ sid at_ cost (Nat.le_refl _)

theorem ovlImpCost_fst (k : MatchKind) (Q : PatSet α) (A : Aut (St α) α) (g : α → α) (i : Input α)
    (pre : Option (Prefilter α)) (st : OState (St α)) :
    (ovlImpCost k Q A g i pre st).map (·.1) = ovlImp A i pre st := by
  unfold ovlImpCost ovlImp
  cases st.id with
  | none =>
    cases A.start i.anch with
    | none => rfl
    | some sid =>
      simp only []
      split
      · rfl
      · simp only [Except.map, ovlCost_fst']
  | some sid =>
    cases st.nextIdx with
    | none => simp only [Except.map, ovlCost_fst']
    | some idx =>
      simp only []
      split
      · rfl
      · simp only [Except.map, ovlCost_fst']

/-- the model's per-call counters belong to exactly the call sequence of the engine -/
theorem tryOvlCost_fst (k : MatchKind) (Q : PatSet α) (A : Aut (St α) α) (g : α → α)
    (pre : Option (Prefilter α)) (i : Input α) (st : OState (St α)) :
    (tryOvlCost k Q A g pre i st).map (·.1) = tryFindOverlappingFwd A pre i st := by
  unfold tryOvlCost tryFindOverlappingFwd
  simp only []
  split
  · rfl
  · split
    · cases A.start i.anch <;> rfl
    · split <;> exact ovlImpCost_fst ..

end CostP
end AcVerif
