import AcVerif.Proofs.CompilerFinal
import AcVerif.Proofs.Transfer
/-!
# L1c proofs, part 7: `next_state` on the compiled automaton simulates the ideal automaton
-/
namespace AcVerif.L1cP
open AcVerif AcVerif.CNfa AcVerif.LmP

/-! ## `nextState` -/

theorem nextState_stop (n : CNfa) (anch : Bool) (fuel s : Nat) (b : UInt8) (hp : Nat)
    (h : follow n s b ≠ FAIL) : nextState n anch (fuel + 1) s b hp = (follow n s b, hp) := by
  rw [nextState]
  have : (follow n s b != FAIL) = true := by simpa using h
  simp only [this, if_true]

theorem nextState_go (n : CNfa) (fuel s : Nat) (b : UInt8) (hp : Nat)
    (h : follow n s b = FAIL) :
    nextState n false (fuel + 1) s b hp = nextState n false fuel (n.getD s {}).fail b (hp + 1) := by
  rw [nextState]
  have : ¬ (follow n s b != FAIL) = true := by rw [h]; simp
  simp only [this, if_false, Bool.false_eq_true]

theorem nextState_anch_fail (n : CNfa) (fuel s : Nat) (b : UInt8) (hp : Nat)
    (h : follow n s b = FAIL) : nextState n true (fuel + 1) s b hp = (DEAD, hp) := by
  rw [nextState]
  have : (follow n s b != FAIL) = false := by rw [h]; simp
  simp only [this, Bool.false_eq_true, if_false, if_true]

theorem nextState_dead (n : CNfa) (anch : Bool) (fuel : Nat) (b : UInt8) (hp : Nat)
    (h : follow n DEAD b = DEAD) : nextState n anch fuel DEAD b hp = (DEAD, hp) := by
  cases fuel with
  | zero => rfl
  | succ fuel =>
    rw [nextState_stop n anch fuel DEAD b hp (by rw [h]; simp [DEAD, FAIL]), h]

section
variable {k : MatchKind} {Q : PatSet UInt8} {L : List (List UInt8)} {N : CNfa}

theorem FS.isPref_iff_mem (h : FS k Q L N) (u : List UInt8) (b : UInt8) :
    isPref Q (u ++ [b]) = true ↔ u ++ [b] ∈ L := by
  rw [h.mem]; simp

theorem FS.lsp_mem (h : FS k Q L N) (w : List UInt8) : lsp Q w = [] ∨ lsp Q w ∈ L := by
  by_cases h0 : lsp Q w = []
  · exact Or.inl h0
  · exact Or.inr ((h.mem _).2 ⟨h0, lsp_isPref h0⟩)

theorem FS.len_lt_size (h : FS k Q L N) {u : List UInt8} (hu : u = [] ∨ u ∈ L) :
    u.length + 3 < N.size := by
  rcases hu with h0 | hm
  · subst h0; rw [h.size]; simp
  · have h1 := h.depth u hm
    have h2 : nu L u < L.length + 4 := nu_lt hm (fun e => ((h.mem u).1 hm).1 e)
    rw [h.size]; omega

theorem hops_nil (k : MatchKind) (Q : PatSet UInt8) (c : UInt8) (fuel : Nat) :
    hops k Q c fuel [] = 0 := by
  cases fuel with
  | zero => rfl
  | succ f => rw [hops]; split <;> simp

theorem hops_goto (k : MatchKind) (Q : PatSet UInt8) (c : UInt8) (fuel : Nat) (u : List UInt8)
    (hp : isPref Q (u ++ [c]) = true) : hops k Q c fuel u = 0 := by
  cases fuel with
  | zero => rfl
  | succ f => rw [hops, if_pos hp]

/-- one unanchored `next_state` call from the node `w`: the failure chain ends in the model's next
state after exactly `hops` links -/
theorem run_step (h : FS k Q L N) (b : UInt8) :
    ∀ (m : Nat) (w : List UInt8), w.length ≤ m → (w = [] ∨ w ∈ L) → ∀ fuel hp, w.length < fuel →
      nextState N false fuel (nu L w) b hp =
        (sidOf L (Ideal.next k Q false (.at w) b), hp + hops k Q b w.length w) := by
  intro m
  induction m with
  | zero =>
    intro w hw _ fuel hp hfuel
    have : w = [] := List.eq_nil_of_length_eq_zero (by omega)
    subst this
    obtain ⟨fuel', rfl⟩ : ∃ f', fuel = f' + 1 := ⟨fuel - 1, by omega⟩
    rw [hops_nil, Nat.add_zero]
    by_cases hp' : isPref Q ([] ++ [b]) = true
    · have hin := (h.isPref_iff_mem [] b).1 hp'
      have hf := h.goto_in [] b (Or.inl rfl) hin
      rw [nextState_stop _ _ _ _ _ _ (by rw [hf]; exact nu_ne_fail _ _), hf,
        next_goto k Q [] b hp']
      rfl
    · have hout : [b] ∉ L := fun hin => hp' ((h.isPref_iff_mem [] b).2 hin)
      have hf := h.goto_root b hout
      rw [nu_nil, nextState_stop _ _ _ _ _ _ (by rw [hf]; exact sidOf_ne_fail _ _), hf]
      rfl
  | succ m ih =>
    intro w hw hwL fuel hp hfuel
    obtain ⟨fuel', rfl⟩ : ∃ f', fuel = f' + 1 := ⟨fuel - 1, by omega⟩
    by_cases hp' : isPref Q (w ++ [b]) = true
    · have hin := (h.isPref_iff_mem w b).1 hp'
      have hf := h.goto_in w b hwL hin
      rw [nextState_stop _ _ _ _ _ _ (by rw [hf]; exact nu_ne_fail _ _), hf,
        next_goto k Q w b hp', hops_goto k Q b _ w hp']
      rfl
    · cases w with
      | nil =>
        have hout : [b] ∉ L := fun hin => hp' ((h.isPref_iff_mem [] b).2 hin)
        have hf := h.goto_root b hout
        rw [nu_nil, nextState_stop _ _ _ _ _ _ (by rw [hf]; exact sidOf_ne_fail _ _), hf,
          hops_nil]
        rfl
      | cons a t =>
        have hwL' : a :: t ∈ L := hwL.resolve_left (List.cons_ne_nil _ _)
        have hout : a :: t ++ [b] ∉ L := fun hin => hp' ((h.isPref_iff_mem _ b).2 hin)
        have hf := h.goto_out _ b hwL' hout
        rw [nextState_go _ _ _ _ _ hf, h.fail _ hwL', next_unfold k Q a t b hp']
        have hl := lsp_length_le Q t
        have hh : hops k Q b (a :: t).length (a :: t) =
            hops k Q b (t.length + 1) (a :: t) := rfl
        rw [hh, hops, if_neg hp', if_neg (List.cons_ne_nil _ _)]
        unfold finalFail
        simp only [failStd_cons]
        by_cases hb : (k != .std && blocked Q (a :: t) ((a :: t).length - (lsp Q t).length)) = true
        · simp only [hb, if_true]
          show nextState N false fuel' DEAD b (hp + 1) = (DEAD, hp + 1)
          exact nextState_dead N false fuel' b _ (h.goto_dead b)
        · simp only [hb, Bool.false_eq_true, if_false]
          simp only [List.length_cons] at hw hfuel
          show nextState N false fuel' (nu L (lsp Q t)) b (hp + 1) = _
          rw [ih (lsp Q t) (by omega) (h.lsp_mem t) fuel' (hp + 1) (by omega),
            CostP.hops_fuel k Q b t.length (lsp Q t).length (lsp Q t) hl (Nat.le_refl _)]
          simp only [Nat.add_assoc]

/-! ## the simulation relation -/

/-- state `sid` of the compiled automaton represents the model state `q` in anchoring mode `anch`:
trie nodes by their numbers, the root by the start state of that mode -/
def Rel (L : List (List UInt8)) (anch : Bool) (sid : Nat) : St UInt8 → Prop
  | .dead => sid = DEAD
  | .at u => if u = [] then sid = (if anch then SA else SU) else u ∈ L ∧ sid = nu L u

theorem Rel_of_node {anch : Bool} {u : List UInt8} (hu : u ∈ L) (h0 : u ≠ []) :
    Rel L anch (nu L u) (.at u) := by
  show (if u = [] then _ else u ∈ L ∧ nu L u = nu L u)
  rw [if_neg h0]; exact ⟨hu, rfl⟩

/-- `Rel` for the unanchored mode is `sidOf` on valid states -/
theorem Rel_sidOf (_h : FS k Q L N) (q : St UInt8)
    (hq : match q with | .dead => True | .at v => v = [] ∨ v ∈ L) : Rel L false (sidOf L q) q := by
  cases q with
  | dead => rfl
  | «at» v =>
    by_cases h0 : v = []
    · subst h0; simp [Rel, sidOf]
    · exact Rel_of_node (hq.resolve_left h0) h0

theorem next_valid (h : FS k Q L N) (anch : Bool) (w : List UInt8) (b : UInt8) :
    match Ideal.next k Q anch (.at w) b with
    | .dead => True
    | .at v => v = [] ∨ v ∈ L := by
  have hpre : ∀ v, isPref Q v = true → v = [] ∨ v ∈ L := by
    intro v hv
    by_cases h0 : v = []
    · exact Or.inl h0
    · exact Or.inr ((h.mem v).2 ⟨h0, hv⟩)
  have hanch : match stepAnch Q w b with | .dead => True | .at v => v = [] ∨ v ∈ L := by
    unfold stepAnch
    by_cases hp : isPref Q (w ++ [b]) = true
    · rw [if_pos hp]; exact hpre _ hp
    · rw [if_neg hp]; trivial
  have hlm : match stepLm Q w b with | .dead => True | .at v => v = [] ∨ v ∈ L := by
    unfold stepLm
    by_cases hp : isPref Q (w ++ [b]) = true
    · rw [if_pos hp]; exact hpre _ hp
    · rw [if_neg hp]
      simp only []
      by_cases hb : blocked Q w (w.length + 1 - (lsp Q (w ++ [b])).length) = true
      · rw [if_pos hb]; trivial
      · rw [if_neg hb]; exact h.lsp_mem _
  cases anch with
  | true => simpa [Ideal.next] using hanch
  | false =>
    cases k with
    | std => simp only [Ideal.next, Bool.false_eq_true, if_false, stepStd]; exact h.lsp_mem _
    | lf => simpa [Ideal.next] using hlm
    | ll => simpa [Ideal.next] using hlm

theorem step_unanch (h : FS k Q L N) {sid : Nat} {q : St UInt8} (hr : Rel L false sid q)
    (b : UInt8) :
    nextState N false (N.size + 1) sid b 0 =
      (sidOf L (Ideal.next k Q false q b), Ideal.hops k Q false q b) := by
  cases q with
  | dead =>
    have : sid = DEAD := hr
    subst this
    rw [nextState_dead N false _ b 0 (h.goto_dead b)]
    rfl
  | «at» u =>
    have hu : (u = [] ∨ u ∈ L) ∧ sid = nu L u := by
      by_cases h0 : u = []
      · subst h0
        simp only [Rel, if_true, Bool.false_eq_true, if_false] at hr
        exact ⟨Or.inl rfl, by rw [hr, nu_nil]⟩
      · simp only [Rel, if_neg h0] at hr
        exact ⟨Or.inr hr.1, hr.2⟩
    rw [hu.2, run_step h b u.length u (Nat.le_refl _) hu.1 (N.size + 1) 0
      (by have := h.len_lt_size hu.1; omega), Nat.zero_add]
    simp only [Ideal.hops, Bool.false_eq_true, if_false]

theorem step_anch (h : FS k Q L N) {sid : Nat} {q : St UInt8} (hr : Rel L true sid q)
    (b : UInt8) :
    Rel L true (nextState N true (N.size + 1) sid b 0).1 (Ideal.next k Q true q b) := by
  cases q with
  | dead =>
    have : sid = DEAD := hr
    subst this
    rw [nextState_dead N true _ b 0 (h.goto_dead b)]
    rfl
  | «at» u =>
    have hnext : Ideal.next k Q true (.at u) b = stepAnch Q u b := by
      simp only [Ideal.next, if_true]
    rw [hnext]
    have hsnoc : u ++ [b] ≠ [] := by simp
    -- in both cases the transition on `b` is the trie edge or `FAIL`
    have hfol : follow N sid b = if u ++ [b] ∈ L then nu L (u ++ [b]) else FAIL := by
      by_cases h0 : u = []
      · subst h0
        simp only [Rel, if_true] at hr
        rw [hr]; exact h.goto_sa b
      · simp only [Rel, if_neg h0] at hr
        rw [hr.2]
        by_cases hin : u ++ [b] ∈ L
        · rw [if_pos hin]; exact h.goto_in u b (Or.inr hr.1) hin
        · rw [if_neg hin]; exact h.goto_out u b hr.1 hin
    unfold stepAnch
    by_cases hin : u ++ [b] ∈ L
    · rw [if_pos hin] at hfol
      rw [if_pos ((h.isPref_iff_mem u b).2 hin),
        nextState_stop N true _ sid b 0 (by rw [hfol]; exact nu_ne_fail _ _), hfol]
      exact Rel_of_node hin hsnoc
    · rw [if_neg hin] at hfol
      rw [if_neg (fun hp => hin ((h.isPref_iff_mem u b).1 hp)), nextState_anch_fail N _ sid b 0 hfol]
      rfl

/-- one step preserves the relation, in either mode -/
theorem Rel_step (h : FS k Q L N) (anch : Bool) {sid : Nat} {q : St UInt8}
    (hr : Rel L anch sid q) (b : UInt8) :
    Rel L anch (nextState N anch (N.size + 1) sid b 0).1 (Ideal.next k Q anch q b) := by
  cases anch with
  | true => exact step_anch h hr b
  | false =>
    rw [step_unanch h hr b]
    apply Rel_sidOf h
    cases q with
    | dead => simp [Ideal.next]
    | «at» u => exact next_valid h false u b

/-- related states carry the same match list and flags -/
theorem Rel_mats (h : FS k Q L N) {anch : Bool} {sid : Nat} {q : St UInt8}
    (hr : Rel L anch sid q) : (N.getD sid {}).matches_ = Ideal.out k Q q := by
  cases q with
  | dead =>
    have : sid = DEAD := hr
    subst this
    rw [h.mats_dead]; cases k <;> rfl
  | «at» u =>
    by_cases h0 : u = []
    · subst h0
      simp only [Rel, if_true] at hr
      cases anch with
      | true => simp only [if_true] at hr; rw [hr]; exact h.mats_sa
      | false =>
        simp only [Bool.false_eq_true, if_false] at hr
        rw [hr]
        have := h.mats [] (Or.inl rfl)
        rw [nu_nil] at this; exact this
    · simp only [Rel, if_neg h0] at hr
      rw [hr.2]; exact h.mats u (Or.inr hr.1)

theorem Rel_dead_iff {anch : Bool} {sid : Nat} {q : St UInt8} (hr : Rel L anch sid q) :
    (sid == DEAD) = (q == St.dead) := by
  cases q with
  | dead =>
    have : sid = DEAD := hr
    subst this; simp
  | «at» u =>
    have : sid ≠ DEAD := by
      by_cases h0 : u = []
      · subst h0
        simp only [Rel, if_true] at hr
        rw [hr]; cases anch <;> simp [SA, SU, DEAD]
      · simp only [Rel, if_neg h0] at hr
        rw [hr.2]; exact nu_ne_dead L u
    have h1 : (sid == DEAD) = false := by simpa using this
    rw [h1]; rfl

theorem Rel_start_iff {anch : Bool} {sid : Nat} {q : St UInt8} (hr : Rel L anch sid q) :
    (sid == SU || sid == SA) = (q == St.at []) := by
  cases q with
  | dead =>
    have : sid = DEAD := hr
    subst this; simp [DEAD, SU, SA]
  | «at» u =>
    by_cases h0 : u = []
    · subst h0
      simp only [Rel, if_true] at hr
      rw [hr]; cases anch <;> simp [SA, SU]
    · simp only [Rel, if_neg h0] at hr
      have := nu_ge (L := L) h0
      have h1 : (sid == SU || sid == SA) = false := by
        rw [hr.2]; simp only [SU, SA, Bool.or_eq_false_iff, beq_eq_false_iff_ne, ne_eq]
        omega
      rw [h1]
      have : ¬ (St.at u = St.at []) := by
        intro e; injection e with e; exact h0 e
      simp [this]

end

end AcVerif.L1cP
