import AcVerif.Proofs.CompilerBfs
/-!
# L1c proofs, part 6: `close_start_state_loop_for_leftmost` and the specification of `compile`
-/
namespace AcVerif.L1cP
open AcVerif AcVerif.CNfa AcVerif.LmP

/-- everything the run-time needs to know about the compiled automaton -/
structure FS (k : MatchKind) (Q : PatSet UInt8) (L : List (List UInt8)) (N : CNfa) : Prop where
  size : N.size = L.length + 4
  mem : ∀ v, v ∈ L ↔ v ≠ [] ∧ isPref Q v = true
  depth : ∀ u, u ∈ L → u.length + 3 ≤ nu L u
  goto_in : ∀ u b, (u = [] ∨ u ∈ L) → u ++ [b] ∈ L → follow N (nu L u) b = nu L (u ++ [b])
  goto_out : ∀ u b, u ∈ L → u ++ [b] ∉ L → follow N (nu L u) b = FAIL
  goto_root : ∀ b, [b] ∉ L → follow N SU b = sidOf L (Ideal.next k Q false (.at []) b)
  goto_dead : ∀ b, follow N DEAD b = DEAD
  goto_sa : ∀ b, follow N SA b = if [b] ∈ L then nu L [b] else FAIL
  fail : ∀ u, u ∈ L → (N.getD (nu L u) {}).fail = sidOf L (finalFail k Q u)
  mats : ∀ u, (u = [] ∨ u ∈ L) → (N.getD (nu L u) {}).matches_ = Ideal.out k Q (.at u)
  mats_dead : (N.getD DEAD {}).matches_ = []
  mats_sa : (N.getD SA {}).matches_ = Ideal.out k Q (.at [])

theorem compile_eq (k : MatchKind) (P : List (List UInt8)) :
    compile k false P = closeStartLoop k (fillFailure k false (startPhase (buildTrie k false P))) :=
  rfl

/-- the start state after `close_start_state_loop_for_leftmost` fired -/
def closeSU (n : CNfa) : CNfa :=
  n.modify SU fun st =>
    { st with trans := st.trans.map fun (b, t) => (b, if t == SU then DEAD else t) }

theorem closeStartLoop_eq (k : MatchKind) (n : CNfa) :
    closeStartLoop k n = if (k.isLeftmost && isMatch n SU) = true then closeSU n else n := rfl

theorem getD_closeSU (n : CNfa) (h : SU < n.size) (sid : Nat) :
    (closeSU n).getD sid {} =
      if sid = SU then
        { n.getD SU {} with
          trans := (n.getD SU {}).trans.map fun x => (x.1, if x.2 == SU then DEAD else x.2) }
      else n.getD sid {} := by
  unfold closeSU
  rw [getD_modify]
  by_cases e : sid = SU
  · subst e; rw [if_pos ⟨rfl, h⟩, if_pos rfl]
  · rw [if_neg (fun hh => e hh.1.symm), if_neg e]

theorem FS_of_FI {k : MatchKind} {Q : PatSet UInt8} {L : List (List UInt8)} {n0 n : CNfa}
    {pend : List (List UInt8)} (hB : PB Q L n0) (h : FI k Q L n0 n pend)
    (hall : ∀ v, v ∈ L → v ∉ pend) : FS k Q L (closeStartLoop k n) := by
  have hmSU : (n.getD SU {}).matches_ = idsOf Q [] := by
    rw [h.mats_root hB, out_nil]
  have him : isMatch n SU = !(idsOf Q []).isEmpty := by rw [isMatch_eq, hmSU]
  have hSUlt : SU < n.size := by rw [h.size, hB.size]; simp [SU]
  have hnode : ∀ u, u ∈ L → nu L u ≠ SU := by
    intro u hu
    have := nu_ge (L := L) (hB.ne_nil hu)
    simp only [SU]; omega
  rw [closeStartLoop_eq, him]
  by_cases hcond : (k.isLeftmost && !(idsOf Q []).isEmpty) = true
  · rw [if_pos hcond]
    simp only [Bool.and_eq_true, Bool.not_eq_true', List.isEmpty_eq_false_iff] at hcond
    obtain ⟨hlm, h0⟩ := hcond
    have hk : k ≠ .std := (isLeftmost_eq_true k).1 hlm
    have hget := getD_closeSU n hSUlt
    have hfull : ∀ b, ∃ t, (b, t) ∈ (n.getD SU {}).trans := by
      intro b; rw [h.trans]; exact hB.full b
    have hfolSU : ∀ b, follow (closeSU n) SU b =
        if follow n SU b = SU then DEAD else follow n SU b := by
      intro b
      rw [follow_eq, hget, if_pos rfl]
      show lookup ((n.getD SU {}).trans.map fun x => (x.1, if x.2 == SU then DEAD else x.2)) b = _
      rw [lookup_map (fun t => if t == SU then DEAD else t) _ b (hfull b), ← follow_eq]
      by_cases e : follow n SU b = SU
      · simp [e]
      · simp [e]
    have hfol : ∀ sid b, sid ≠ SU → follow (closeSU n) sid b = follow n0 sid b := by
      intro sid b hs
      rw [follow_eq, hget, if_neg hs, ← follow_eq, h.follow_eq0]
    refine
      { size := by unfold closeSU; rw [Array.size_modify, h.size]; exact hB.size, mem := hB.mem,
        depth := hB.depth, goto_in := ?_, goto_out := ?_, goto_root := ?_, goto_dead := ?_,
        goto_sa := ?_, fail := ?_, mats := ?_, mats_dead := ?_, mats_sa := ?_ }
    · intro u b hu hin
      rcases hu with e | hm
      · subst e
        have := hB.goto_in [] b (Or.inl rfl) hin
        rw [nu_nil, ← h.follow_eq0] at this
        rw [nu_nil, hfolSU, this, if_neg]
        have := nu_ge (L := L) (u := [] ++ [b]) (by simp)
        simp only [SU]; omega
      · rw [hfol _ _ (hnode u hm)]; exact hB.goto_in u b (Or.inr hm) hin
    · intro u b hu hout
      rw [hfol _ _ (hnode u hu)]; exact hB.goto_out u b hu hout
    · intro b hout
      have := hB.goto_root b hout
      rw [← h.follow_eq0] at this
      rw [hfolSU, this, if_pos rfl]
      have hp : ¬ isPref Q [b] = true := fun hp => hout ((hB.isPref_iff_mem [] b).1 hp)
      have hn : Ideal.next k Q false (.at []) b = .dead := by
        have : Ideal.next k Q false (.at []) b = stepLm Q [] b := by
          cases k with
          | std => exact absurd rfl hk
          | lf => rfl
          | ll => rfl
        rw [this, stepLm_root, if_neg hp, if_neg (by simpa using h0)]
      rw [hn]; rfl
    · intro b
      rw [hfol _ _ (by simp [DEAD, SU])]; exact hB.goto_dead b
    · intro b
      rw [hfol _ _ (by simp [SA, SU])]; exact hB.goto_sa b
    · intro u hu
      rw [hget, if_neg (hnode u hu)]; exact (h.done u hu (hall u hu)).1
    · intro u hu
      rcases hu with e | hm
      · subst e; rw [nu_nil, hget, if_pos rfl]; exact h.mats_root hB
      · rw [hget, if_neg (hnode u hm)]; exact (h.done u hm (hall u hm)).2
    · rw [hget, if_neg (by simp [DEAD, SU])]; exact h.mats_dead hB
    · rw [hget, if_neg (by simp [SA, SU]), h.keep SA (by simp [SA]), hB.mats_sa, out_nil]
  · rw [if_neg hcond]
    have hk : k = .std ∨ idsOf Q [] = [] := by
      by_cases hstd : k = .std
      · exact Or.inl hstd
      · right
        rw [(isLeftmost_eq_true k).2 hstd] at hcond
        simpa using hcond
    refine
      { size := by rw [h.size]; exact hB.size, mem := hB.mem,
        depth := hB.depth, goto_in := ?_, goto_out := ?_, goto_root := ?_, goto_dead := ?_,
        goto_sa := ?_, fail := ?_, mats := ?_, mats_dead := h.mats_dead hB, mats_sa := ?_ }
    · intro u b hu hin; rw [h.follow_eq0]; exact hB.goto_in u b hu hin
    · intro u b hu hout; rw [h.follow_eq0]; exact hB.goto_out u b hu hout
    · intro b hout
      have hp : ¬ isPref Q [b] = true := fun hp => hout ((hB.isPref_iff_mem [] b).1 hp)
      rw [h.follow_eq0, hB.goto_root b hout, next_root k Q b hp hk]
      simp [sidOf]
    · intro b; rw [h.follow_eq0]; exact hB.goto_dead b
    · intro b; rw [h.follow_eq0]; exact hB.goto_sa b
    · intro u hu; exact (h.done u hu (hall u hu)).1
    · intro u hu
      rcases hu with e | hm
      · subst e; rw [nu_nil]; exact h.mats_root hB
      · exact (h.done u hm (hall u hm)).2
    · rw [h.keep SA (by simp [SA]), hB.mats_sa, out_nil]

/-- the compiled automaton meets the final specification -/
theorem compile_spec (k : MatchKind) (P : List (List UInt8)) :
    ∃ L, FS k (patSet k P) L (compile k false P) := by
  obtain ⟨L, hT⟩ := buildTrie_spec k P
  have hB := PB_startPhase hT
  obtain ⟨pend, hF, hall⟩ := fillFailure_spec (k := k) hB
  exact ⟨L, by rw [compile_eq]; exact FS_of_FI hB hF hall⟩

end AcVerif.L1cP
