import AcVerif.Proofs.LmBasic
import AcVerif.Proofs.Struct
/-!
# Leftmost semantics: the search loop on the ideal leftmost automaton

`findQ` is `findS` specialised to the ideal leftmost automaton over a kept set
`Q`; the unanchored invariant (sections B, C of the plan) is proved on it.
-/
namespace AcVerif.LmP
open AcVerif
set_option linter.unusedSectionVars false
variable {α : Type} [DecidableEq α]

def stepQ (Q : PatSet α) (anch : Bool) (u : List α) (c : α) : St α :=
  if anch then stepAnch Q u c else stepLm Q u c

/-- `findS` on the ideal leftmost automaton, live state `.at u` -/
def findQ (Q : PatSet α) (plen : Nat → Nat) (s : Nat) (anch earliest : Bool) :
    List α → Nat → Option Mat → List α → Option Mat
  | _, _, mat, [] => mat
  | u, at_, mat, c :: rest =>
    match stepQ Q anch u c with
    | .dead => mat
    | .at u' =>
      match outLm Q u' with
      | [] => findQ Q plen s anch earliest u' (at_ + 1) mat rest
      | pid :: _ =>
        if anch = true ∧ s < at_ + 1 - plen pid then
          findQ Q plen s anch earliest u' (at_ + 1) mat rest
        else if earliest then some ⟨pid, at_ + 1 - plen pid, at_ + 1⟩
        else findQ Q plen s anch earliest u' (at_ + 1)
          (some ⟨pid, at_ + 1 - plen pid, at_ + 1⟩) rest

theorem ideal_next (k : MatchKind) (hk : k = .ll ∨ k = .lf) (P : List (List α)) (sk : StartKind)
    (anch : Bool) (u : List α) (c : α) :
    (ideal k P sk false).next anch (.at u) c = stepQ (patSet k P) anch u c := by
  rcases hk with rfl | rfl <;> rfl

theorem findS_ideal_eq (k : MatchKind) (hk : k = .ll ∨ k = .lf) (P : List (List α))
    (sk : StartKind) (s : Nat) (anch earliest : Bool) (rest : List α) :
    ∀ (u : List α) (at_ : Nat) (mat : Option Mat),
    findS (ideal k P sk false) s anch earliest (.at u) at_ mat rest =
      findQ (patSet k P) (fun pid => (P.getD pid []).length) s anch earliest u at_ mat rest := by
  induction rest with
  | nil => intros; rfl
  | cons c rest ih =>
    intro u at_ mat
    simp only [findS, findQ, ideal_next k hk]
    cases hst : stepQ (patSet k P) anch u c with
    | dead =>
      simp [ideal]
    | «at» u' =>
      have hout : (ideal k P sk false).mpats (.at u') = outLm (patSet k P) u' := by
        rcases hk with rfl | rfl <;> rfl
      have hsp : (ideal k P sk false).isSpecial (.at u') = !(outLm (patSet k P) u').isEmpty := by
        rcases hk with rfl | rfl <;> simp [ideal, Ideal.out]
      have hm : (ideal k P sk false).isMatch (.at u') = !(outLm (patSet k P) u').isEmpty := by
        rcases hk with rfl | rfl <;> simp [ideal, Ideal.out]
      have hd : (ideal k P sk false).isDead (.at u') = false := by
        simp [ideal]
      have hpl : (ideal k P sk false).patLen = fun pid => (P.getD pid []).length := rfl
      simp only [hsp, hm, hd, getMatch, hout, hpl]
      cases ho : outLm (patSet k P) u' with
      | nil => simp [ih]
      | cons pid t =>
        simp only [List.isEmpty_cons, Bool.not_false, if_true, List.getD_cons_zero, ih]
        generalize (P.getD pid []).length = L
        by_cases ha : anch = true <;> by_cases hlt : s < at_ + 1 - L
        · simp [ha, hlt]
        · simp [ha, hlt]
        · simp [ha]
        · simp [ha]

/-! ## Best occurrence so far -/

/-- the match reported for the relative occurrence `(q, st)` in a span starting at `s` -/
def matOf (s : Nat) (q : List α × Nat) (st : Nat) : Mat :=
  ⟨q.2, s + st, s + st + q.1.length⟩

/-- relative leftmost-longest preference -/
def prefLL (q : List α × Nat) (st : Nat) (q' : List α × Nat) (st' : Nat) : Prop :=
  st < st' ∨ (st = st' ∧ (q'.1.length < q.1.length ∨ (q.1.length = q'.1.length ∧ q.2 ≤ q'.2)))

/-- `mat` is the `prefLL`-best admissible occurrence in `w` (`none` if there is none);
anchored searches only admit offset `0` -/
def BestIn (Q : PatSet α) (s : Nat) (anch : Bool) (w : List α) : Option Mat → Prop
  | none => ∀ q st, (anch = true → st = 0) → ¬ OccIn Q w q st
  | some m => ∃ q st, (anch = true → st = 0) ∧ OccIn Q w q st ∧ m = matOf s q st ∧
      ∀ q' st', (anch = true → st' = 0) → OccIn Q w q' st' → prefLL q st q' st'

/-- `r` is `none` or some admissible occurrence in `w` -/
def OccOrNone (Q : PatSet α) (s : Nat) (anch : Bool) (w : List α) (r : Option Mat) : Prop :=
  ∀ m, r = some m → ∃ q st, (anch = true → st = 0) ∧ OccIn Q w q st ∧ m = matOf s q st

theorem BestIn.occOrNone {Q : PatSet α} {s : Nat} {anch : Bool} {w : List α} {r : Option Mat}
    (h : BestIn Q s anch w r) : OccOrNone Q s anch w r := by
  intro m hm
  subst hm
  obtain ⟨q, st, h1, h2, h3, _⟩ := h
  exact ⟨q, st, h1, h2, h3⟩

theorem OccOrNone.append {Q : PatSet α} {s : Nat} {anch : Bool} {w : List α} {r : Option Mat}
    (h : OccOrNone Q s anch w r) (t : List α) : OccOrNone Q s anch (w ++ t) r := by
  intro m hm
  obtain ⟨q, st, h1, h2, h3⟩ := h m hm
  exact ⟨q, st, h1, h2.append t, h3⟩

/-- every occurrence in `w` lies inside the window of the current node `lsp Q w` -/
def Cover (Q : PatSet α) (w : List α) : Prop :=
  ∀ q st, OccIn Q w q st → w.length - (lsp Q w).length ≤ st

theorem cover_nil (Q : PatSet α) : Cover Q [] := by
  intro q st _; simp [lsp]

/-- an occurrence in `w ++ [c]` is an occurrence in `w` or ends at the very end -/
theorem OccIn.old_or_new {Q : PatSet α} {w : List α} {c : α} {q : List α × Nat} {st : Nat}
    (h : OccIn Q (w ++ [c]) q st) : OccIn Q w q st ∨ (w ++ [c]).length ≤ st + q.1.length := by
  by_cases hl : st + q.1.length ≤ w.length
  · exact Or.inl (h.of_append hl)
  · right; simp only [List.length_append, List.length_singleton]; omega

/-! ## B: the unanchored run -/

theorem stepLm_live {Q : PatSet α} {w : List α} {c : α} {u' : List α} (hc : Cover Q w)
    (h : stepLm Q (lsp Q w) c = .at u') : u' = lsp Q (w ++ [c]) ∧ Cover Q (w ++ [c]) := by
  unfold stepLm at h
  split at h
  · rename_i hp
    injection h with h
    have hl : lsp Q (w ++ [c]) = lsp Q w ++ [c] := by rw [lsp_step, lsp_of_isPref hp]
    refine ⟨by rw [hl, h], ?_⟩
    intro q st ho
    rcases ho.old_or_new with h1 | h1
    · have := hc q st h1
      rw [hl]; simp only [List.length_append, List.length_singleton]; omega
    · exact ho.ge_of_end h1
  · simp only at h
    split at h
    · exact absurd h (by simp)
    · rename_i hb
      injection h with h
      rw [← lsp_step] at h hb
      refine ⟨h.symm, ?_⟩
      intro q st ho
      rcases ho.old_or_new with h1 | h1
      · have h2 := hc q st h1
        have h3 := h1.unshift (lsp_suffix Q w) h2
        have hb' := blocked_eq_false (by simpa using hb)
        have := lsp_length_le Q w
        have hlt : ¬ (st - (w.length - (lsp Q w).length) <
            (lsp Q w).length + 1 - (lsp Q (w ++ [c])).length) := by
          intro hlt
          exact hb' _ hlt q h3.1 h3.2.2
        simp only [List.length_append, List.length_singleton]; omega
      · exact ho.ge_of_end h1

theorem stepLm_dead {Q : PatSet α} {w : List α} {c : α}
    (h : stepLm Q (lsp Q w) c = .dead) :
    ∃ q0 st0, OccIn Q w q0 st0 ∧ st0 < w.length + 1 - (lsp Q (w ++ [c])).length := by
  unfold stepLm at h
  split at h
  · exact absurd h (by simp)
  · simp only at h
    split at h
    · rename_i hb
      rw [← lsp_step] at hb
      obtain ⟨st0, hst0, q0, hq0, hp0⟩ := blocked_iff.1 hb
      have hl := lsp_length_le Q w
      have ho : OccIn Q (lsp Q w) q0 st0 := ⟨hq0, by omega, hp0⟩
      refine ⟨q0, _, ho.shift (lsp_suffix Q w), by omega⟩
    · exact absurd h (by simp)

/-! ## C: the engine invariant, unanchored -/

theorem prefLL.le {q q' : List α × Nat} {st st' : Nat} (h : prefLL q st q' st') : st ≤ st' := by
  rcases h with h | h <;> omega

theorem best_dead {Q : PatSet α} {s : Nat} {w : List α} {c : α} {rest : List α} {mat : Option Mat}
    (hb : BestIn Q s false w mat)
    (hd : ∃ q0 st0, OccIn Q w q0 st0 ∧ st0 < w.length + 1 - (lsp Q (w ++ [c])).length) :
    BestIn Q s false (w ++ c :: rest) mat := by
  obtain ⟨q0, st0, ho0, hlt0⟩ := hd
  cases mat with
  | none => exact absurd ho0 (hb q0 st0 (by simp))
  | some m =>
    obtain ⟨q, st, _, ho, hm, hbest⟩ := hb
    refine ⟨q, st, by simp, ho.append _, hm, ?_⟩
    intro q' st' _ ho'
    by_cases hl : st' + q'.1.length ≤ w.length
    · exact hbest q' st' (by simp) (ho'.of_append hl)
    · left
      have h1 := (hbest q0 st0 (by simp) ho0).le
      by_cases hs : st' ≤ (w ++ [c]).length
      · rw [List.append_cons] at ho'
        have := ho'.ge_of_reach hs (by simp only [List.length_append, List.length_singleton]; omega)
        simp only [List.length_append, List.length_singleton] at this
        omega
      · simp only [List.length_append, List.length_singleton] at hs
        omega

theorem no_new_of_outLm_nil {Q : PatSet α} {w : List α} (h : outLm Q (lsp Q w) = [])
    {q : List α × Nat} {st : Nat} (ho : OccIn Q w q st) (he : w.length ≤ st + q.1.length) :
    ∃ q0 st0, OccIn Q w q0 st0 ∧ st0 < st ∧ st0 + q0.1.length < w.length := by
  have hge := ho.ge_of_end he
  have hs := lsp_suffix Q w
  have hl := lsp_length_le Q w
  have hu := ho.unshift hs hge
  have hlen := ho.len_le
  have heq := hu.eq_drop (by omega)
  obtain ⟨st0, hst0, q0, hq0, hp0, hlt0⟩ := outLm_nil h _ hu.2.1 q ho.1 heq
  have ho0 : OccIn Q (lsp Q w) q0 st0 := ⟨hq0, by omega, hp0⟩
  exact ⟨q0, _, ho0.shift hs, by omega, by omega⟩

theorem best_keep {Q : PatSet α} {s : Nat} {w : List α} {c : α} {mat : Option Mat}
    (hb : BestIn Q s false w mat)
    (hn : ∀ q st, OccIn Q (w ++ [c]) q st → (w ++ [c]).length ≤ st + q.1.length →
      ∃ q0 st0, OccIn Q (w ++ [c]) q0 st0 ∧ st0 < st ∧ st0 + q0.1.length < (w ++ [c]).length) :
    BestIn Q s false (w ++ [c]) mat := by
  cases mat with
  | none =>
    intro q st _ ho
    rcases ho.old_or_new with h1 | h1
    · exact hb q st (by simp) h1
    · obtain ⟨q0, st0, ho0, _, hl0⟩ := hn q st ho h1
      simp only [List.length_append, List.length_singleton] at hl0
      exact hb q0 st0 (by simp) (ho0.of_append (by omega))
  | some m =>
    obtain ⟨q, st, _, ho, hm, hbest⟩ := hb
    refine ⟨q, st, by simp, ho.append _, hm, ?_⟩
    intro q' st' _ ho'
    rcases ho'.old_or_new with h1 | h1
    · exact hbest q' st' (by simp) h1
    · obtain ⟨q0, st0, ho0, hlt, hl0⟩ := hn q' st' ho' h1
      simp only [List.length_append, List.length_singleton] at hl0
      have := (hbest q0 st0 (by simp) (ho0.of_append (by omega))).le
      left; omega

theorem best_new {Q : PatSet α} (hI : IdsInc Q) {s : Nat} {w : List α} (hc : Cover Q w)
    {pid : Nat} {t : List Nat} (h : outLm Q (lsp Q w) = pid :: t) :
    ∃ q ∈ Q, q.2 = pid ∧ q.1.length ≤ w.length ∧
      BestIn Q s false w (some (matOf s q (w.length - q.1.length))) := by
  obtain ⟨k, hk, q, hq, hqk, hqp, hleast, _, hnb⟩ := outLm_cons hI h
  have hs := lsp_suffix Q w
  have hl := lsp_length_le Q w
  have hql : q.1.length = (lsp Q w).length - k := by rw [hqk, List.length_drop]
  have ho : OccIn Q (lsp Q w) q k := ⟨hq, hk, by rw [hqk]; exact List.prefix_refl _⟩
  have ho' := ho.shift hs
  have hst : k + (w.length - (lsp Q w).length) = w.length - q.1.length := by omega
  rw [hst] at ho'
  refine ⟨q, hq, hqp, by omega, q, _, by simp, ho', rfl, ?_⟩
  intro q' st' _ hoq'
  have h1 := hc q' st' hoq'
  have h2 := hoq'.unshift hs h1
  have h3 : ¬ (st' - (w.length - (lsp Q w).length) < k) := fun hlt =>
    blocked_eq_false hnb _ hlt q' h2.1 h2.2.2
  have hlen' := hoq'.len_le
  by_cases hlt : w.length - q.1.length < st'
  · exact Or.inl hlt
  · right
    refine ⟨by omega, ?_⟩
    by_cases hlt2 : q'.1.length < q.1.length
    · exact Or.inl hlt2
    · right
      have hst' : st' = w.length - q.1.length := by omega
      refine ⟨by omega, ?_⟩
      have e1 := hoq'.eq_drop (by omega)
      have e2 := ho'.eq_drop (by omega)
      have : q'.1 = (lsp Q w).drop k := by rw [← hqk, e1, e2, hst']
      have := hleast q' hoq'.1 this
      omega

/-- the unanchored loop invariant: with `mat` the best occurrence in the consumed text `w`,
the loop returns an occurrence of the whole text (or `none`), and, in non-earliest mode, the
best one -/
theorem findQ_unanch {Q : PatSet α} (hI : IdsInc Q) {plen : Nat → Nat}
    (hpl : ∀ q ∈ Q, plen q.2 = q.1.length) (s : Nat) (earliest : Bool) (rest : List α) :
    ∀ (w : List α) (mat : Option Mat), Cover Q w → BestIn Q s false w mat →
      OccOrNone Q s false (w ++ rest)
        (findQ Q plen s false earliest (lsp Q w) (s + w.length) mat rest) ∧
      (earliest = false → BestIn Q s false (w ++ rest)
        (findQ Q plen s false earliest (lsp Q w) (s + w.length) mat rest)) := by
  induction rest with
  | nil =>
    intro w mat _ hb
    simp only [findQ, List.append_nil]
    exact ⟨hb.occOrNone, fun _ => hb⟩
  | cons c rest ih =>
    intro w mat hc hb
    have e1 : s + w.length + 1 = s + (w ++ [c]).length := by
      simp only [List.length_append, List.length_singleton]; omega
    simp only [findQ, stepQ, Bool.false_eq_true, if_false, false_and]
    cases hst : stepLm Q (lsp Q w) c with
    | dead =>
      have := best_dead (rest := rest) hb (stepLm_dead hst)
      exact ⟨this.occOrNone, fun _ => this⟩
    | «at» u' =>
      obtain ⟨rfl, hc'⟩ := stepLm_live hc hst
      simp only
      cases ho : outLm Q (lsp Q (w ++ [c])) with
      | nil =>
        simp only
        have hb' : BestIn Q s false (w ++ [c]) mat :=
          best_keep hb (fun q st hoq he => no_new_of_outLm_nil ho hoq he)
        rw [List.append_cons, e1]
        exact ih _ _ hc' hb'
      | cons pid t =>
        simp only
        obtain ⟨q, hq, hqp, hql, hbn⟩ := best_new (s := s) hI hc' ho
        have hm : (⟨pid, s + w.length + 1 - plen pid, s + w.length + 1⟩ : Mat) =
            matOf s q ((w ++ [c]).length - q.1.length) := by
          have := hpl q hq
          rw [hqp] at this
          simp only [List.length_append, List.length_singleton] at hql
          simp only [matOf, this, hqp, List.length_append, List.length_singleton, Mat.mk.injEq,
            true_and]
          omega
        rw [hm]
        cases earliest with
        | true =>
          simp only [if_true]
          rw [List.append_cons]
          exact ⟨hbn.occOrNone.append _, by simp⟩
        | false =>
          simp only [Bool.false_eq_true, if_false]
          rw [List.append_cons, e1]
          have := ih _ _ hc' hbn
          exact ⟨this.1, fun _ => this.2 rfl⟩

end AcVerif.LmP
