import AcVerif.Cost
import AcVerif.Fold
import AcVerif.Engine.Overlap
import AcVerif.CostOverlap
import AcVerif.Proofs.LmBasic
/-!
# C19: bounded work per haystack byte (helpers)

* `hops_potential` – the classical amortisation of Aho-Corasick: one
  `next_state` call from node `u` that follows `h` failure links ends in a node
  of depth at most `|u| + 1 - h`.
* `findCost_fst`, `findCost_transitions_le`, `findCost_fails_le`,
  `findCost_fails_anchored` – the counters of `findCost`.
* `ovlLoop_at_ge`, `ovlLoop_at_le` – the overlapping loop only moves forward.
-/
namespace AcVerif

/-- depth of a model state -/
def St.depth {α : Type} : St α → Nat
  | .dead => 0
  | .at u => u.length

namespace CostP
open AcVerif.LmP
set_option linter.unusedSectionVars false
variable {α : Type} [DecidableEq α]

@[simp] theorem depth_dead : (St.dead : St α).depth = 0 := rfl
@[simp] theorem depth_at (u : List α) : (St.at u).depth = u.length := rfl

/-! ## one `next_state` call -/

/-- when `u ++ [c]` is not a trie node, the target is computed from the failure node of `u` -/
theorem lsp_snoc_of_not_isPref {Q : PatSet α} {a : α} {t : List α} {c : α}
    (h : ¬ isPref Q (a :: t ++ [c]) = true) :
    lsp Q (a :: t ++ [c]) = lsp Q (lsp Q t ++ [c]) := by
  have : lsp Q (a :: t ++ [c]) = lsp Q (t ++ [c]) := by
    show lsp Q (a :: (t ++ [c])) = _
    rw [lsp]; exact if_neg h
  rw [this]; exact lsp_step Q t c

/-- the potential lemma: following `h` failure links from `u` on byte `c` ends in a node of depth
at most `|u| + 1 - h` (the node reached is `lsp Q (u ++ [c])`, or the dead state) -/
theorem hops_potential (k : MatchKind) (Q : PatSet α) (c : α) :
    ∀ (fuel : Nat) (u : List α), u.length ≤ fuel →
      (lsp Q (u ++ [c])).length + hops k Q c fuel u ≤ u.length + 1
  | 0, u, hu => by
    have : u = [] := List.eq_nil_of_length_eq_zero (by omega)
    subst this
    have := lsp_length_le Q ([] ++ [c])
    simp only [hops]; simpa using this
  | fuel + 1, u, hu => by
    have hle := lsp_length_le Q (u ++ [c])
    have hlen : (u ++ [c]).length = u.length + 1 := by simp
    rw [hops]
    split
    · omega
    · rename_i hp
      split
      · omega
      · rename_i hne
        cases u with
        | nil => exact absurd rfl hne
        | cons a t =>
          have hv : failStd Q (a :: t) = lsp Q t := rfl
          have hstep := lsp_snoc_of_not_isPref (Q := Q) (a := a) (t := t) (c := c) hp
          have hvl := lsp_length_le Q t
          have hle2 := lsp_length_le Q (lsp Q t ++ [c])
          have hlen2 : (lsp Q t ++ [c]).length = (lsp Q t).length + 1 := by simp
          simp only [hv]
          rw [hstep]
          have ih := hops_potential k Q c fuel (lsp Q t) (by simp at hu; omega)
          simp only [List.length_cons]
          split
          · omega
          · omega

/-- for an unanchored step the depth of the state reached is at most `|lsp Q (u ++ [c])|` -/
theorem depth_next_le (k : MatchKind) (Q : PatSet α) (u : List α) (c : α) :
    (Ideal.next k Q false (.at u) c).depth ≤ (lsp Q (u ++ [c])).length := by
  cases k <;> simp only [Ideal.next, Bool.false_eq_true, if_false, stepStd, stepLm, depth_at] <;>
    first
    | exact Nat.le_refl _
    | (split
       · rename_i h; rw [lsp_of_isPref h]; exact Nat.le_refl _
       · split
         · simp
         · exact Nat.le_refl _)

theorem step_potential (k : MatchKind) (Q : PatSet α) (q : St α) (c : α) :
    (Ideal.next k Q false q c).depth + Ideal.hops k Q false q c ≤ q.depth + 1 := by
  cases q with
  | dead => simp [Ideal.next, Ideal.hops]
  | «at» u =>
    have h1 := depth_next_le k Q u c
    have h2 := hops_potential k Q c u.length u (Nat.le_refl _)
    simp only [Ideal.hops, Bool.false_eq_true, if_false, depth_at]
    omega

theorem step_anchored (k : MatchKind) (Q : PatSet α) (q : St α) (c : α) :
    Ideal.hops k Q true q c = 0 := by
  cases q <;> simp [Ideal.hops]

/-- an anchored step goes at most one level deeper (trie edges only) -/
theorem depth_next_anchored_le (k : MatchKind) (Q : PatSet α) (q : St α) (c : α) :
    (Ideal.next k Q true q c).depth ≤ q.depth + 1 := by
  cases q with
  | dead => simp [Ideal.next]
  | «at» u =>
    simp only [Ideal.next, if_true, stepAnch]
    split <;> simp

/-- one step, either anchoring mode -/
theorem step_potential' (k : MatchKind) (Q : PatSet α) (anch : Bool) (q : St α) (c : α) :
    (Ideal.next k Q anch q c).depth + Ideal.hops k Q anch q c ≤ q.depth + 1 := by
  cases anch with
  | false => exact step_potential k Q q c
  | true => rw [step_anchored]; exact depth_next_anchored_le k Q q c

/-! ## `hops` does not depend on the fuel, and its chain computes `Ideal.next` -/

/-- any fuel `≥ |u|` gives the same count -/
theorem hops_fuel (k : MatchKind) (Q : PatSet α) (c : α) :
    ∀ (f1 f2 : Nat) (u : List α), u.length ≤ f1 → u.length ≤ f2 →
      hops k Q c f1 u = hops k Q c f2 u
  | 0, 0, _, _, _ => rfl
  | 0, f2 + 1, u, h1, _ => by
    have : u = [] := List.eq_nil_of_length_eq_zero (by omega)
    subst this
    rw [hops, hops]; split <;> simp
  | f1 + 1, 0, u, _, h2 => by
    have : u = [] := List.eq_nil_of_length_eq_zero (by omega)
    subst this
    rw [hops, hops]; split <;> simp
  | f1 + 1, f2 + 1, u, h1, h2 => by
    rw [hops, hops]
    split
    · rfl
    · split
      · rfl
      · rename_i hne
        cases u with
        | nil => exact absurd rfl hne
        | cons a t =>
          have hvl : (failStd Q (a :: t)).length ≤ t.length := lsp_length_le Q t
          simp only [List.length_cons] at h1 h2
          simp only []
          rw [hops_fuel k Q c f1 f2 (failStd Q (a :: t)) (by omega) (by omega)]

/-- the failure chain of one `next_state` call, with the state it ends in: the node that has a
goto on `c` (then take it), the root (then take the root's own transition), or the dead state -/
def walk (k : MatchKind) (Q : PatSet α) (c : α) : Nat → List α → St α × Nat
  | 0, _ => (Ideal.next k Q false (.at []) c, 0)
  | fuel + 1, u =>
    if isPref Q (u ++ [c]) then (.at (u ++ [c]), 0)
    else if u = [] then (Ideal.next k Q false (.at []) c, 0)
    else
      let v := failStd Q u
      if k != .std && blocked Q u (u.length - v.length) then (.dead, 1)
      else ((walk k Q c fuel v).1, 1 + (walk k Q c fuel v).2)

/-- `hops` counts the steps of `walk` -/
theorem walk_snd (k : MatchKind) (Q : PatSet α) (c : α) :
    ∀ (fuel : Nat) (u : List α), (walk k Q c fuel u).2 = hops k Q c fuel u
  | 0, _ => rfl
  | fuel + 1, u => by
    rw [walk, hops]
    split
    · rfl
    · split
      · rfl
      · simp only []
        split
        · rfl
        · simp only [walk_snd k Q c fuel]

theorem blocked_mono {Q : PatSet α} {u : List α} {i j : Nat} (hij : i ≤ j)
    (h : blocked Q u i = true) : blocked Q u j = true := by
  rw [blocked_iff] at h ⊢
  obtain ⟨st, hst, hq⟩ := h
  exact ⟨st, Nat.lt_of_lt_of_le hst hij, hq⟩

/-- occurrences starting inside a suffix `v` of `u` are occurrences in `v` -/
theorem blocked_suffix {Q : PatSet α} {u v : List α} (hs : v <:+ u) (j : Nat)
    (hnb : blocked Q u (u.length - v.length) = false) :
    blocked Q u (u.length - v.length + j) = blocked Q v j := by
  have hnb' := blocked_eq_false hnb
  rw [Bool.eq_iff_iff, blocked_iff, blocked_iff]
  constructor
  · rintro ⟨st, hst, q, hq, hp⟩
    have hge : u.length - v.length ≤ st := by
      apply Nat.le_of_not_lt
      intro hlt
      exact hnb' st hlt q hq hp
    refine ⟨st - (u.length - v.length), by omega, q, hq, ?_⟩
    rw [← drop_of_suffix hs]
    have : st - (u.length - v.length) + (u.length - v.length) = st := by omega
    rw [this]; exact hp
  · rintro ⟨st, hst, q, hq, hp⟩
    refine ⟨st + (u.length - v.length), by omega, q, hq, ?_⟩
    rw [drop_of_suffix hs]; exact hp

/-- leftmost step: when the failure link of `u` is not the dead state, the transition of `u` on
a byte without goto is the transition of its failure node -/
theorem stepLm_fail {Q : PatSet α} {a : α} {t : List α} {c : α}
    (hp : ¬ isPref Q (a :: t ++ [c]) = true)
    (hnb : blocked Q (a :: t) ((a :: t).length - (lsp Q t).length) = false) :
    stepLm Q (a :: t) c = stepLm Q (lsp Q t) c := by
  have hw := lsp_snoc_of_not_isPref hp
  have hs : lsp Q t <:+ a :: t := (lsp_suffix Q t).trans (List.suffix_cons a t)
  have hvl : (lsp Q t).length ≤ t.length := lsp_length_le Q t
  have hwl : (lsp Q (lsp Q t ++ [c])).length ≤ (lsp Q t).length + 1 := by
    have := lsp_length_le Q (lsp Q t ++ [c]); simpa using this
  rw [stepLm, if_neg hp, stepLm]
  simp only [hw]
  by_cases hv : isPref Q (lsp Q t ++ [c]) = true
  · rw [if_pos hv, lsp_of_isPref hv]
    have : (a :: t).length + 1 - (lsp Q t ++ [c]).length = (a :: t).length - (lsp Q t).length := by
      simp only [List.length_append, List.length_cons, List.length_nil]; omega
    rw [this, hnb]; simp
  · rw [if_neg hv]
    have hlen : (a :: t).length + 1 - (lsp Q (lsp Q t ++ [c])).length =
        (a :: t).length - (lsp Q t).length +
          ((lsp Q t).length + 1 - (lsp Q (lsp Q t ++ [c])).length) := by
      simp only [List.length_cons]; omega
    rw [hlen, blocked_suffix hs _ hnb]

/-- the state reached by the failure chain is the model's `Ideal.next` -/
theorem walk_fst (k : MatchKind) (Q : PatSet α) (c : α) :
    ∀ (fuel : Nat) (u : List α), u.length ≤ fuel →
      (walk k Q c fuel u).1 = Ideal.next k Q false (.at u) c
  | 0, u, hu => by
    have : u = [] := List.eq_nil_of_length_eq_zero (by omega)
    subst this; rfl
  | fuel + 1, u, hu => by
    rw [walk]
    split
    · rename_i hp
      cases k <;> simp only [Ideal.next, Bool.false_eq_true, if_false, stepStd, stepLm, if_pos hp,
        lsp_of_isPref hp]
    · rename_i hp
      split
      · rename_i h0; subst h0; rfl
      · rename_i hne
        cases u with
        | nil => exact absurd rfl hne
        | cons a t =>
          have hv : failStd Q (a :: t) = lsp Q t := rfl
          have hvl : (lsp Q t).length ≤ t.length := lsp_length_le Q t
          have hw := lsp_snoc_of_not_isPref hp
          simp only [List.length_cons] at hu
          have ih := walk_fst k Q c fuel (lsp Q t) (by omega)
          simp only [hv]
          split
          · rename_i hb
            simp only [Bool.and_eq_true, bne_iff_ne, ne_eq] at hb
            have hwl : (lsp Q (a :: t ++ [c])).length ≤ (lsp Q t).length + 1 := by
              rw [hw]; have := lsp_length_le Q (lsp Q t ++ [c]); simpa using this
            have hb' : blocked Q (a :: t) ((a :: t).length + 1 - (lsp Q (a :: t ++ [c])).length)
                = true := blocked_mono (by omega) hb.2
            cases k with
            | std => exact absurd rfl hb.1
            | lf => simp only [Ideal.next, Bool.false_eq_true, if_false, stepLm, if_neg hp, hb',
                if_true]
            | ll => simp only [Ideal.next, Bool.false_eq_true, if_false, stepLm, if_neg hp, hb',
                if_true]
          · rename_i hb
            show (walk k Q c fuel (lsp Q t)).1 = _
            rw [ih]
            cases k with
            | std =>
              simp only [Ideal.next, Bool.false_eq_true, if_false, stepStd]
              rw [hw, ← lsp_step]
            | lf =>
              have hnb : blocked Q (a :: t) ((a :: t).length - (lsp Q t).length) = false := by
                simpa using hb
              simp only [Ideal.next, Bool.false_eq_true, if_false]
              exact (stepLm_fail hp hnb).symm
            | ll =>
              have hnb : blocked Q (a :: t) ((a :: t).length - (lsp Q t).length) = false := by
                simpa using hb
              simp only [Ideal.next, Bool.false_eq_true, if_false]
              exact (stepLm_fail hp hnb).symm

/-- summary: one `next_state` call from node `u` on byte `c`, modelled as the failure chain
`walk`, returns the model's next state and takes `Ideal.hops` failure-link traversals -/
theorem walk_eq (k : MatchKind) (Q : PatSet α) (u : List α) (c : α) :
    walk k Q c u.length u = (Ideal.next k Q false (.at u) c, Ideal.hops k Q false (.at u) c) := by
  apply Prod.ext
  · exact walk_fst k Q c _ u (Nat.le_refl _)
  · exact walk_snd k Q c _ u

/-! ## the search loop with counters -/

/-- the counters are ghost state: the first component of `findCost` is `findLoop` -/
theorem findCost_fst (k : MatchKind) (Q : PatSet α) (A : Aut (St α) α) (g : α → α)
    (hay : List α) (s e : Nat) (he : e ≤ hay.length) (pre : Option (Prefilter α))
    (anch earliest : Bool) :
    ∀ (n : Nat) (sid : St α) (at_ : Nat) (mat : Option Mat) (cost : Cost), e - at_ ≤ n →
      (findCost k Q A g hay s e he pre anch earliest sid at_ mat cost).1 =
        findLoop A hay s e he pre anch earliest sid at_ mat
  | 0, sid, at_, mat, cost, hn => by
    have h : ¬ at_ < e := by omega
    rw [findCost, findLoop, dif_neg h, dif_neg h]
  | n + 1, sid, at_, mat, cost, hn => by
    by_cases h : at_ < e
    · rw [findCost, findLoop, dif_pos h, dif_pos h]
      have ih := findCost_fst k Q A g hay s e he pre anch earliest n
      have hn' : e - (at_ + 1) ≤ n := by omega
      simp only []
      split
      · split
        · rfl
        · split
          · split
            · split
              · rfl
              · exact ih _ _ _ _ hn'
            · exact ih _ _ _ _ hn'
          · cases pre with
            | none => exact ih _ _ _ _ hn'
            | some p =>
              dsimp only
              cases (p hay at_ e).intoOption with
              | none => rfl
              | some i =>
                dsimp only
                split
                · rename_i hi; exact ih _ _ _ _ (by omega)
                · exact ih _ _ _ _ hn'
      · exact ih _ _ _ _ hn'
    · rw [findCost, findLoop, dif_neg h, dif_neg h]

/-- at most one `next_state` call per byte of the remaining span -/
theorem findCost_transitions_le (k : MatchKind) (Q : PatSet α) (A : Aut (St α) α) (g : α → α)
    (hay : List α) (s e : Nat) (he : e ≤ hay.length) (pre : Option (Prefilter α))
    (anch earliest : Bool) :
    ∀ (n : Nat) (sid : St α) (at_ : Nat) (mat : Option Mat) (cost : Cost), e - at_ ≤ n →
      (findCost k Q A g hay s e he pre anch earliest sid at_ mat cost).2.transitions ≤
        cost.transitions + (e - at_)
  | 0, sid, at_, mat, cost, hn => by
    have h : ¬ at_ < e := by omega
    rw [findCost, dif_neg h]; exact Nat.le_add_right _ _
  | n + 1, sid, at_, mat, cost, hn => by
    by_cases h : at_ < e
    · rw [findCost, dif_pos h]
      have ih := findCost_transitions_le k Q A g hay s e he pre anch earliest n
      have hn' : e - (at_ + 1) ≤ n := by omega
      simp only []
      split
      · split
        · show cost.transitions + 1 ≤ _; omega
        · split
          · split
            · split
              · show cost.transitions + 1 ≤ _; omega
              · refine Nat.le_trans (ih _ _ _ _ hn') ?_; show cost.transitions + 1 + _ ≤ _; omega
            · refine Nat.le_trans (ih _ _ _ _ hn') ?_; show cost.transitions + 1 + _ ≤ _; omega
          · split
            · split
              · show cost.transitions + 1 ≤ _; omega
              · split
                · rename_i hi
                  refine Nat.le_trans (ih _ _ _ _ (by omega)) ?_
                  show cost.transitions + 1 + _ ≤ _; omega
                · refine Nat.le_trans (ih _ _ _ _ hn') ?_; show cost.transitions + 1 + _ ≤ _; omega
            · refine Nat.le_trans (ih _ _ _ _ hn') ?_; show cost.transitions + 1 + _ ≤ _; omega
      · refine Nat.le_trans (ih _ _ _ _ hn') ?_; show cost.transitions + 1 + _ ≤ _; omega
    · rw [findCost, dif_neg h]; exact Nat.le_add_right _ _

/-- the transition counter never decreases -/
theorem findCost_transitions_ge (k : MatchKind) (Q : PatSet α) (A : Aut (St α) α) (g : α → α)
    (hay : List α) (s e : Nat) (he : e ≤ hay.length) (pre : Option (Prefilter α))
    (anch earliest : Bool) :
    ∀ (n : Nat) (sid : St α) (at_ : Nat) (mat : Option Mat) (cost : Cost), e - at_ ≤ n →
      cost.transitions ≤
        (findCost k Q A g hay s e he pre anch earliest sid at_ mat cost).2.transitions
  | 0, sid, at_, mat, cost, hn => by
    have h : ¬ at_ < e := by omega
    rw [findCost, dif_neg h]; exact Nat.le_refl _
  | n + 1, sid, at_, mat, cost, hn => by
    by_cases h : at_ < e
    · rw [findCost, dif_pos h]
      have ih := findCost_transitions_ge k Q A g hay s e he pre anch earliest n
      have hn' : e - (at_ + 1) ≤ n := by omega
      have h1 : cost.transitions ≤ cost.transitions + 1 := Nat.le_succ _
      simp only []
      split
      · split
        · exact h1
        · split
          · split
            · split
              · exact h1
              · exact Nat.le_trans h1 (ih _ _ _ ⟨cost.transitions + 1, _⟩ hn')
            · exact Nat.le_trans h1 (ih _ _ _ ⟨cost.transitions + 1, _⟩ hn')
          · split
            · split
              · exact h1
              · split
                · rename_i hi; exact Nat.le_trans h1 (ih _ _ _ ⟨cost.transitions + 1, _⟩ (by omega))
                · exact Nat.le_trans h1 (ih _ _ _ ⟨cost.transitions + 1, _⟩ hn')
            · exact Nat.le_trans h1 (ih _ _ _ ⟨cost.transitions + 1, _⟩ hn')
      · exact Nat.le_trans h1 (ih _ _ _ ⟨cost.transitions + 1, _⟩ hn')
    · rw [findCost, dif_neg h]; exact Nat.le_refl _

/-- the amortised bound, for any automaton whose `next` is `Ideal.next` after the byte map `g`:
`fails' ≤ fails + depth(sid) + (transitions' - transitions)` -/
theorem findCost_fails_le (k : MatchKind) (Q : PatSet α) (A : Aut (St α) α) (g : α → α)
    (hA : ∀ anch q c, A.next anch q c = Ideal.next k Q anch q (g c))
    (hay : List α) (s e : Nat) (he : e ≤ hay.length) (pre : Option (Prefilter α))
    (anch earliest : Bool) :
    ∀ (n : Nat) (sid : St α) (at_ : Nat) (mat : Option Mat) (cost : Cost), e - at_ ≤ n →
      (findCost k Q A g hay s e he pre anch earliest sid at_ mat cost).2.fails +
          cost.transitions ≤
        cost.fails + sid.depth +
          (findCost k Q A g hay s e he pre anch earliest sid at_ mat cost).2.transitions
  | 0, sid, at_, mat, cost, hn => by
    have h : ¬ at_ < e := by omega
    rw [findCost, dif_neg h]; show cost.fails + cost.transitions ≤ cost.fails + sid.depth + cost.transitions; omega
  | n + 1, sid, at_, mat, cost, hn => by
    by_cases h : at_ < e
    · rw [findCost, dif_pos h]
      have ih := findCost_fails_le k Q A g hA hay s e he pre anch earliest n
      have hn' : e - (at_ + 1) ≤ n := by omega
      have hp := step_potential' k Q anch sid (g (hay[at_]'(Nat.lt_of_lt_of_le h he)))
      rw [← hA] at hp
      -- the invariant after the step, as a function of the recursive call's result
      have key : ∀ (r : Option Mat × Cost),
          r.2.fails + (cost.transitions + 1) ≤
            (cost.fails + Ideal.hops k Q anch sid (g (hay[at_]'(Nat.lt_of_lt_of_le h he)))) +
              (A.next anch sid (hay[at_]'(Nat.lt_of_lt_of_le h he))).depth + r.2.transitions →
          r.2.fails + cost.transitions ≤ cost.fails + sid.depth + r.2.transitions := by
        intro r hr; omega
      have base : ∀ (m : Option Mat) (H : Nat), H ≤ sid.depth + 1 →
          ((m, (⟨cost.transitions + 1, cost.fails + H⟩ : Cost)) : Option Mat × Cost).2.fails +
              cost.transitions ≤
            cost.fails + sid.depth +
              ((m, (⟨cost.transitions + 1, cost.fails + H⟩ : Cost)) :
                Option Mat × Cost).2.transitions := by
        intro m H hH
        show cost.fails + H + cost.transitions ≤ cost.fails + sid.depth + (cost.transitions + 1)
        omega
      have hH : Ideal.hops k Q anch sid (g (hay[at_]'(Nat.lt_of_lt_of_le h he))) ≤
          sid.depth + 1 := by omega
      simp only []
      split
      · split
        · exact base _ _ hH
        · split
          · split
            · split
              · exact base _ _ hH
              · exact key _ (ih _ _ _ _ hn')
            · exact key _ (ih _ _ _ _ hn')
          · split
            · split
              · exact base _ _ hH
              · split
                · rename_i hi; exact key _ (ih _ _ _ _ (by omega))
                · exact key _ (ih _ _ _ _ hn')
            · exact key _ (ih _ _ _ _ hn')
      · exact key _ (ih _ _ _ _ hn')
    · rw [findCost, dif_neg h]; show cost.fails + cost.transitions ≤ cost.fails + sid.depth + cost.transitions; omega

/-- an anchored search never follows a failure link (any automaton `A`) -/
theorem findCost_fails_anchored (k : MatchKind) (Q : PatSet α) (A : Aut (St α) α) (g : α → α)
    (hay : List α) (s e : Nat) (he : e ≤ hay.length) (pre : Option (Prefilter α))
    (earliest : Bool) :
    ∀ (n : Nat) (sid : St α) (at_ : Nat) (mat : Option Mat) (cost : Cost), e - at_ ≤ n →
      (findCost k Q A g hay s e he pre true earliest sid at_ mat cost).2.fails = cost.fails
  | 0, sid, at_, mat, cost, hn => by
    have h : ¬ at_ < e := by omega
    rw [findCost, dif_neg h]
  | n + 1, sid, at_, mat, cost, hn => by
    by_cases h : at_ < e
    · rw [findCost, dif_pos h]
      have ih := findCost_fails_anchored k Q A g hay s e he pre earliest n
      have hn' : e - (at_ + 1) ≤ n := by omega
      have h0 := step_anchored k Q sid (g (hay[at_]'(Nat.lt_of_lt_of_le h he)))
      simp only [h0, Nat.add_zero]
      split
      · split
        · rfl
        · split
          · split
            · split
              · rfl
              · exact ih _ _ _ _ hn'
            · exact ih _ _ _ _ hn'
          · split
            · split
              · rfl
              · split
                · rename_i hi; exact ih _ _ _ _ (by omega)
                · exact ih _ _ _ _ hn'
            · exact ih _ _ _ _ hn'
      · exact ih _ _ _ _ hn'
    · rw [findCost, dif_neg h]

/-! ## the overlapping loop only moves forward -/

/-- `ovlLoop` never moves `at` backwards -/
theorem ovlLoop_at_ge {σ : Type} (A : Aut σ α) (hay : List α) (s e : Nat)
    (he : e ≤ hay.length) (pre : Option (Prefilter α)) (anch : Bool) :
    ∀ (n : Nat) (sid : σ) (at_ : Nat), e - at_ ≤ n →
      at_ ≤ (ovlLoop A hay s e he pre anch sid at_).at_
  | 0, sid, at_, hn => by
    have h : ¬ at_ < e := by omega
    rw [ovlLoop, dif_neg h]; exact Nat.le_refl _
  | n + 1, sid, at_, hn => by
    by_cases h : at_ < e
    · rw [ovlLoop, dif_pos h]
      have ih := ovlLoop_at_ge A hay s e he pre anch n
      have hn' : e - (at_ + 1) ≤ n := by omega
      have base : at_ ≤ at_ := Nat.le_refl _
      have key : ∀ (r : OState σ) (j : Nat), at_ < j → j ≤ r.at_ → at_ ≤ r.at_ := by
        intro r j hj hr; omega
      simp only []
      split
      · split
        · exact base
        · split
          · split
            · exact base
            · exact key _ _ (Nat.lt_succ_self _) (ih _ _ hn')
          · split
            · split
              · exact base
              · split
                · rename_i hi; exact key _ _ hi (ih _ _ (by omega))
                · exact key _ _ (Nat.lt_succ_self _) (ih _ _ hn')
            · exact key _ _ (Nat.lt_succ_self _) (ih _ _ hn')
      · exact key _ _ (Nat.lt_succ_self _) (ih _ _ hn')
    · rw [ovlLoop, dif_neg h]; exact Nat.le_refl _

/-- the prefilter only reports candidate positions inside the span it was given -/
def PreInSpan (pre : Option (Prefilter α)) : Prop :=
  ∀ p, pre = some p → ∀ (hay : List α) (a e i : Nat), (p hay a e).intoOption = some i → i ≤ e

theorem preInSpan_none : PreInSpan (Option.none : Option (Prefilter α)) := by
  intro p hp; cases hp

/-- `ovlLoop` stays inside the span, provided the prefilter does -/
theorem ovlLoop_at_le {σ : Type} (A : Aut σ α) (hay : List α) (s e : Nat)
    (he : e ≤ hay.length) (pre : Option (Prefilter α)) (hpre : PreInSpan pre) (anch : Bool) :
    ∀ (n : Nat) (sid : σ) (at_ : Nat), e - at_ ≤ n →
      (ovlLoop A hay s e he pre anch sid at_).at_ ≤ max at_ e
  | 0, sid, at_, hn => by
    have h : ¬ at_ < e := by omega
    rw [ovlLoop, dif_neg h]; exact Nat.le_max_left _ _
  | n + 1, sid, at_, hn => by
    by_cases h : at_ < e
    · rw [ovlLoop, dif_pos h]
      have ih := ovlLoop_at_le A hay s e he pre hpre anch n
      have hn' : e - (at_ + 1) ≤ n := by omega
      have base : at_ ≤ max at_ e := Nat.le_max_left _ _
      have key : ∀ (r : OState σ) (j : Nat), j ≤ e → r.at_ ≤ max j e → r.at_ ≤ max at_ e := by
        intro r j hj hr
        rw [Nat.max_eq_right hj] at hr
        exact Nat.le_trans hr (Nat.le_max_right _ _)
      simp only []
      split
      · split
        · exact base
        · split
          · split
            · exact base
            · exact key _ _ h (ih _ _ hn')
          · split
            · split
              · exact base
              · split
                · rename_i p _ i hi hgt
                  have hie : i ≤ e := hpre p rfl hay at_ e i hi
                  exact key _ _ hie (ih _ _ (by omega))
                · exact key _ _ h (ih _ _ hn')
            · exact key _ _ h (ih _ _ hn')
      · exact key _ _ h (ih _ _ hn')
    · rw [ovlLoop, dif_neg h]; exact Nat.le_max_left _ _

/-! ## the overlapping loop with counters -/

/-- the counters are ghost state -/
theorem ovlCost_fst (k : MatchKind) (Q : PatSet α) (A : Aut (St α) α) (g : α → α)
    (hay : List α) (s e : Nat) (he : e ≤ hay.length) (pre : Option (Prefilter α)) (anch : Bool) :
    ∀ (n : Nat) (sid : St α) (at_ : Nat) (cost : Cost), e - at_ ≤ n →
      (ovlCost k Q A g hay s e he pre anch sid at_ cost).1 =
        ovlLoop A hay s e he pre anch sid at_
  | 0, sid, at_, cost, hn => by
    have h : ¬ at_ < e := by omega
    rw [ovlCost, ovlLoop, dif_neg h, dif_neg h]
  | n + 1, sid, at_, cost, hn => by
    by_cases h : at_ < e
    · rw [ovlCost, ovlLoop, dif_pos h, dif_pos h]
      have ih := ovlCost_fst k Q A g hay s e he pre anch n
      have hn' : e - (at_ + 1) ≤ n := by omega
      simp only []
      split
      · split
        · rfl
        · split
          · split
            · rfl
            · exact ih _ _ _ hn'
          · cases pre with
            | none => exact ih _ _ _ hn'
            | some p =>
              dsimp only
              cases (p hay at_ e).intoOption with
              | none => rfl
              | some i =>
                dsimp only
                split
                · rename_i hi; exact ih _ _ _ (by omega)
                · exact ih _ _ _ hn'
      · exact ih _ _ _ hn'
    · rw [ovlCost, ovlLoop, dif_neg h, dif_neg h]

/-- depth of the state stored in an `OverlappingState` (0 when none is stored) -/
def odepth (st : OState (St α)) : Nat :=
  match st.id with
  | some q => q.depth
  | Option.none => 0

/-- the invariant of one call of the overlapping loop, entered with counters `cost` in a state
of depth `d` at position `at_`, for its result `r`: the transition counter only grows; every
transition consumes a position (`transitions' - transitions ≤ at' + 1 - at`); and the failure hops
are paid for by depth, the depth of the stored state being carried over to the next call:
`fails' + depth(sid') ≤ fails + depth(sid) + (transitions' - transitions)`. -/
def OvlInv (cost : Cost) (d at_ : Nat) (r : OState (St α) × Cost) : Prop :=
  cost.transitions ≤ r.2.transitions ∧
  r.2.transitions + at_ ≤ cost.transitions + r.1.at_ + 1 ∧
  r.2.fails + odepth r.1 + cost.transitions ≤ cost.fails + d + r.2.transitions

theorem ovlInv_stop (cost : Cost) (sid : St α) (at_ : Nat) :
    OvlInv cost sid.depth at_
      ({ mat := Option.none, id := some sid, at_ := at_, nextIdx := Option.none }, cost) := by
  refine ⟨Nat.le_refl _, ?_, ?_⟩
  · show cost.transitions + at_ ≤ cost.transitions + at_ + 1; omega
  · show cost.fails + sid.depth + cost.transitions ≤ cost.fails + sid.depth + cost.transitions
    exact Nat.le_refl _

theorem ovlCost_bounds (k : MatchKind) (Q : PatSet α) (A : Aut (St α) α) (g : α → α)
    (hA : ∀ anch q c, A.next anch q c = Ideal.next k Q anch q (g c))
    (hay : List α) (s e : Nat) (he : e ≤ hay.length) (pre : Option (Prefilter α)) (anch : Bool) :
    ∀ (n : Nat) (sid : St α) (at_ : Nat) (cost : Cost), e - at_ ≤ n →
      OvlInv cost sid.depth at_ (ovlCost k Q A g hay s e he pre anch sid at_ cost)
  | 0, sid, at_, cost, hn => by
    have h : ¬ at_ < e := by omega
    rw [ovlCost, dif_neg h]; exact ovlInv_stop cost sid at_
  | n + 1, sid, at_, cost, hn => by
    by_cases h : at_ < e
    · have ih := ovlCost_bounds k Q A g hA hay s e he pre anch n
      have hn' : e - (at_ + 1) ≤ n := by omega
      have hp := step_potential' k Q anch sid (g (hay[at_]'(Nat.lt_of_lt_of_le h he)))
      rw [← hA] at hp
      -- a result that is the stepped state, stopping here
      have base : ∀ (o1 : Option Mat) (o2 : Option Nat) (H : Nat) (q : St α),
          q.depth + H ≤ sid.depth + 1 →
          OvlInv cost sid.depth at_
            ({ mat := o1, id := some q, at_ := at_, nextIdx := o2 },
              ⟨cost.transitions + 1, cost.fails + H⟩) := by
        intro o1 o2 H q hH
        refine ⟨?_, ?_, ?_⟩
        · show cost.transitions ≤ cost.transitions + 1; omega
        · show cost.transitions + 1 + at_ ≤ cost.transitions + at_ + 1; omega
        · show cost.fails + H + q.depth + cost.transitions ≤
            cost.fails + sid.depth + (cost.transitions + 1)
          omega
      -- a result obtained by continuing from the stepped state at a later position `j`
      have key : ∀ (r : OState (St α) × Cost) (H D j : Nat), D + H ≤ sid.depth + 1 → at_ < j →
          OvlInv ⟨cost.transitions + 1, cost.fails + H⟩ D j r →
          OvlInv cost sid.depth at_ r := by
        intro r H D j hH hj ⟨h1, h2, h3⟩
        have h1' : cost.transitions + 1 ≤ r.2.transitions := h1
        have h2' : r.2.transitions + j ≤ cost.transitions + 1 + r.1.at_ + 1 := h2
        have h3' : r.2.fails + odepth r.1 + (cost.transitions + 1) ≤
            cost.fails + H + D + r.2.transitions := h3
        exact ⟨by omega, by omega, by omega⟩
      rw [ovlCost, dif_pos h]
      simp only []
      split
      · split
        · exact base _ _ _ _ hp
        · split
          · split
            · exact base _ _ _ _ hp
            · exact key _ _ _ _ hp (Nat.lt_succ_self _) (ih _ _ _ hn')
          · split
            · split
              · exact base _ _ _ _ hp
              · split
                · rename_i hi; exact key _ _ _ _ hp hi (ih _ _ _ (by omega))
                · exact key _ _ _ _ hp (Nat.lt_succ_self _) (ih _ _ _ hn')
            · exact key _ _ _ _ hp (Nat.lt_succ_self _) (ih _ _ _ hn')
      · exact key _ _ _ _ hp (Nat.lt_succ_self _) (ih _ _ _ hn')
    · rw [ovlCost, dif_neg h]; exact ovlInv_stop cost sid at_

end CostP
end AcVerif
