import AcVerif.Proofs.NfaIdsSim
import AcVerif.Proofs.DenseRows
/-!
# L1c-ids proofs, part 4: the stored dense rows

`densify` runs before `shuffle`, and `NFA::remap` rewrites the rows with the same map as the sparse
lists.  If the rows of `N` agree with its sparse lists (`followD N rows = follow N`, proved for the
compiled NFA in `DenseRows.lean`), then so do the stored rows of `buildNfaIds N`, at *every* id:
`follow_transition` through the stored rows is `follow` on the stored states.
-/
namespace AcVerif.L1cIdsP
open AcVerif AcVerif.CNfa AcVerif.L1cP AcVerif.L1dP AcVerif.L1eP AcVerif.L1dIdsP

/-- the byte classes of the noncontiguous NFA -/
def nClass (N : CNfa) : UInt8 → Nat := classOfMarks (marksOf (trieBytes N))

theorem buildDenseIds_getD_lt (N : CNfa) (dd : Nat) {i : Nat} (hi : i < N.size) :
    (buildDenseIds N dd).getD i none =
      ((denseRows N dd).getD ((cOrder N).getD i 0) none).map
        fun row => row.map fun t => posOf N t := by
  unfold buildDenseIds
  exact getD_map_range _ _ _ _ hi

theorem buildDenseIds_getD_ge (N : CNfa) (dd : Nat) {i : Nat} (hi : N.size ≤ i) :
    (buildDenseIds N dd).getD i none = none := by
  unfold buildDenseIds
  exact getD_map_range_ge _ _ _ _ hi

theorem getD_map_fix (row : Array Nat) (g : Nat → Nat) (d c : Nat) (hg : g d = d) :
    (row.map g).getD c d = g (row.getD c d) := by
  by_cases hc : c < row.size
  · exact getD_map' row g d d hc
  · simp [Array.getD_eq_getD_getElem?, hc, hg]

section
variable {N : CNfa} (hS : ShufOK N)
include hS

/-- `follow_transition` through the stored rows commutes with the renumbering -/
theorem followD_ids (hasPre : Bool) (dd : Nat) {s : Nat} (hs : s < N.size) (b : UInt8) :
    (buildNfaIds N hasPre).followD (nClass N) (buildDenseIds N dd) (posOf N s) b =
      posOf N (followD N (denseRows N dd) s b) := by
  unfold NfaI.followD followD
  rw [buildDenseIds_getD_lt N dd (show posOf N s < N.size from hS.pos_lt s hs)]
  have eo : (cOrder N).getD (posOf N s) 0 = s := hS.order_pos s hs
  rw [eo]
  cases hr : (denseRows N dd).getD s none with
  | none =>
    show follow (buildNfaIds N hasPre).states (posOf N s) b = _
    rw [buildNfaIds_states]
    exact follow_ids hS hs b
  | some row =>
    show (row.map fun t => posOf N t).getD (nClass N b) FAIL = posOf N (row.getD (nClass N b) FAIL)
    exact getD_map_fix row _ FAIL _ (posOf_fail hS)

/-- hence, if the rows of `N` agree with its sparse lists, the stored rows agree with the stored
sparse lists, at every id -/
theorem followD_stored (hasPre : Bool) (dd : Nat)
    (hf : ∀ sid b, followD N (denseRows N dd) sid b = follow N sid b) (q : Nat) (b : UInt8) :
    (buildNfaIds N hasPre).followD (nClass N) (buildDenseIds N dd) q b =
      follow (buildNfaIds N hasPre).states q b := by
  by_cases hq : q < N.size
  · have hs := hS.order_lt q hq
    have e : posOf N ((cOrder N).getD q 0) = q := hS.pos_order q hq
    have := followD_ids hS hasPre dd hs b
    rw [e] at this
    rw [this, hf, buildNfaIds_states, ← follow_ids hS hs b, e]
  · unfold NfaI.followD
    rw [buildDenseIds_getD_ge N dd (by omega)]

theorem nextStateD_stored (hasPre : Bool) (dd : Nat)
    (hf : ∀ sid b, followD N (denseRows N dd) sid b = follow N sid b) (anch : Bool) :
    ∀ (fuel q : Nat) (b : UInt8) (hops : Nat),
      (buildNfaIds N hasPre).nextStateD (nClass N) (buildDenseIds N dd) anch fuel q b hops =
        (buildNfaIds N hasPre).nextState anch fuel q b hops
  | 0, _, _, _ => rfl
  | fuel + 1, q, b, hops => by
    show (if ((buildNfaIds N hasPre).followD (nClass N) (buildDenseIds N dd) q b != FAIL) = true
        then ((buildNfaIds N hasPre).followD (nClass N) (buildDenseIds N dd) q b, hops)
        else if anch = true then (DEAD, hops)
        else (buildNfaIds N hasPre).nextStateD (nClass N) (buildDenseIds N dd) anch fuel
          ((buildNfaIds N hasPre).states.getD q {}).fail b (hops + 1)) =
      (if (follow (buildNfaIds N hasPre).states q b != FAIL) = true
        then (follow (buildNfaIds N hasPre).states q b, hops)
        else if anch = true then (DEAD, hops)
        else nextState (buildNfaIds N hasPre).states anch fuel
          ((buildNfaIds N hasPre).states.getD q {}).fail b (hops + 1))
    rw [followD_stored hS hasPre dd hf, nextStateD_stored hasPre dd hf anch fuel]
    rfl

/-- the record reading through the stored rows *is* the record scanning the stored lists -/
theorem toAutD_stored (hasPre : Bool) (dd : Nat)
    (hf : ∀ sid b, followD N (denseRows N dd) sid b = follow N sid b) (k : MatchKind)
    (P : List (List UInt8)) :
    (buildNfaIds N hasPre).toAutD (nClass N) (buildDenseIds N dd) k P hasPre =
      (buildNfaIds N hasPre).toAut k P hasPre := by
  have : (fun (anch : Bool) (sid : Nat) (b : UInt8) =>
      ((buildNfaIds N hasPre).nextStateD (nClass N) (buildDenseIds N dd) anch
        ((buildNfaIds N hasPre).states.size + 1) sid b 0).1) =
      fun anch sid b =>
        (buildNfaIds N hasPre).next anch ((buildNfaIds N hasPre).states.size + 1) sid b := by
    funext anch sid b
    rw [nextStateD_stored hS hasPre dd hf]
    rfl
  unfold NfaI.toAutD
  rw [this]
  rfl

end

end AcVerif.L1cIdsP
