import AcVerif.BuildChecked
/-!
# C20 build proofs, part 1: how the lengths of `states` / `sparse` / `matches` evolve

Quantitative facts about the transcribed compiler, straight from the definitions (no semantic
invariant is needed): every phase only grows the three vectors, `build_trie` adds at most one state
and at most one (two when case folding) transition per pattern byte and one match entry per
pattern, and the phases after `build_trie` do not change the number of states.
-/
namespace AcVerif.BuildP
open AcVerif AcVerif.CNfa

/-! ## sums over the states -/

/-- `Σ_s g (states[s])` -/
def wsum (g : CState → Nat) (n : CNfa) : Nat := (n.toList.map g).sum

def gT (st : CState) : Nat := st.trans.length
def gM (st : CState) : Nat := st.matches_.length

theorem sparseLen_eq (n : CNfa) : sparseLen n = 1 + wsum gT n := rfl
theorem matchesLen_eq (n : CNfa) : matchesLen n = 1 + wsum gM n := rfl

theorem list_sum_modify_le (g : CState → Nat) (f : CState → CState) (h : ∀ a, g a ≤ g (f a)) :
    ∀ (l : List CState) (i : Nat), (l.map g).sum ≤ ((l.modify i f).map g).sum
  | [], _ => by simp
  | a :: l, 0 => by
    simp only [List.modify_zero_cons, List.map_cons, List.sum_cons]
    have := h a; omega
  | a :: l, i + 1 => by
    simp only [List.modify_succ_cons, List.map_cons, List.sum_cons]
    have := list_sum_modify_le g f h l i; omega

theorem list_sum_modify_ge (g : CState → Nat) (f : CState → CState) (c : Nat)
    (h : ∀ a, g (f a) ≤ g a + c) :
    ∀ (l : List CState) (i : Nat), ((l.modify i f).map g).sum ≤ (l.map g).sum + c
  | [], _ => by simp
  | a :: l, 0 => by
    simp only [List.modify_zero_cons, List.map_cons, List.sum_cons]
    have := h a; omega
  | a :: l, i + 1 => by
    simp only [List.modify_succ_cons, List.map_cons, List.sum_cons]
    have := list_sum_modify_ge g f c h l i; omega

theorem wsum_modify_le (g : CState → Nat) (f : CState → CState) (h : ∀ a, g a ≤ g (f a))
    (n : CNfa) (i : Nat) : wsum g n ≤ wsum g (n.modify i f) := by
  unfold wsum; rw [Array.toList_modify]; exact list_sum_modify_le g f h _ _

theorem wsum_modify_ge (g : CState → Nat) (f : CState → CState) (c : Nat)
    (h : ∀ a, g (f a) ≤ g a + c) (n : CNfa) (i : Nat) :
    wsum g (n.modify i f) ≤ wsum g n + c := by
  unfold wsum; rw [Array.toList_modify]; exact list_sum_modify_ge g f c h _ _

theorem wsum_modify_eq (g : CState → Nat) (f : CState → CState) (h : ∀ a, g (f a) = g a)
    (n : CNfa) (i : Nat) : wsum g (n.modify i f) = wsum g n := by
  have h1 := wsum_modify_le g f (fun a => by rw [h a]; exact Nat.le_refl _) n i
  have h2 := wsum_modify_ge g f 0 (fun a => by rw [h a]; exact Nat.le_refl _) n i
  omega

theorem wsum_push (g : CState → Nat) (n : CNfa) (x : CState) :
    wsum g (n.push x) = wsum g n + g x := by
  unfold wsum
  rw [Array.toList_push, List.map_append, List.sum_append]
  simp

/-! ## `add_transition` -/

theorem length_insertTrans_ge (b : UInt8) (t : Nat) :
    ∀ l : List (UInt8 × Nat), l.length ≤ (insertTrans b t l).length
  | [] => by simp [insertTrans]
  | (c, u) :: rest => by
    unfold insertTrans
    split
    · simp
    · split
      · simp
      · have := length_insertTrans_ge b t rest
        simp only [List.length_cons]; omega

theorem length_insertTrans_le (b : UInt8) (t : Nat) :
    ∀ l : List (UInt8 × Nat), (insertTrans b t l).length ≤ l.length + 1
  | [] => by simp [insertTrans]
  | (c, u) :: rest => by
    unfold insertTrans
    split
    · simp
    · split
      · simp
      · have := length_insertTrans_le b t rest
        simp only [List.length_cons]; omega

theorem size_addTransition (n : CNfa) (p : Nat) (b : UInt8) (t : Nat) :
    (addTransition n p b t).size = n.size := by
  unfold addTransition; rw [Array.size_modify]

theorem gT_addTransition_le (n : CNfa) (p : Nat) (b : UInt8) (t : Nat) :
    wsum gT n ≤ wsum gT (addTransition n p b t) :=
  wsum_modify_le gT (fun st => { st with trans := insertTrans b t st.trans })
    (fun a => length_insertTrans_ge b t a.trans) n p

theorem gT_addTransition_ge (n : CNfa) (p : Nat) (b : UInt8) (t : Nat) :
    wsum gT (addTransition n p b t) ≤ wsum gT n + 1 :=
  wsum_modify_ge gT (fun st => { st with trans := insertTrans b t st.trans }) 1
    (fun a => length_insertTrans_le b t a.trans) n p

theorem gM_addTransition (n : CNfa) (p : Nat) (b : UInt8) (t : Nat) :
    wsum gM (addTransition n p b t) = wsum gM n :=
  wsum_modify_eq gM (fun st => { st with trans := insertTrans b t st.trans }) (fun _ => rfl) n p

/-! ## one pattern of `build_trie` -/

/-- the number of `alloc_transition` calls per new trie state: 1, or at most 2 when case folding -/
def foldC (fold : Bool) : Nat := if fold then 2 else 1

theorem addPattern_sizes (lf fold : Bool) :
    ∀ (pat : List UInt8) (n : CNfa) (prev : Nat) (saw : Bool) (n' : CNfa) (last : Nat),
      addPattern lf fold n prev saw pat = some (n', last) →
      n.size ≤ n'.size ∧ n'.size ≤ n.size + pat.length ∧
      wsum gT n ≤ wsum gT n' ∧ wsum gT n' ≤ wsum gT n + foldC fold * pat.length ∧
      wsum gM n' = wsum gM n
  | [], n, prev, saw, n', last, h => by
    simp only [addPattern, Option.some.injEq, Prod.mk.injEq] at h
    obtain ⟨rfl, _⟩ := h
    simp
  | b :: rest, n, prev, saw, n', last, h => by
    rw [addPattern] at h
    simp only at h
    split at h
    · exact absurd h (by simp)
    · split at h
      · have ih := addPattern_sizes lf fold rest _ _ _ _ _ h
        have hc : 0 < foldC fold := by unfold foldC; split <;> omega
        simp only [List.length_cons, Nat.mul_add, Nat.mul_one]
        omega
      · have ih := addPattern_sizes lf fold rest _ _ _ _ _ h
        obtain ⟨i1, i2, i3, i4, i5⟩ := ih
        -- the automaton handed to the recursive call
        have hpush : wsum gT (n.push { fail := SU }) = wsum gT n := by
          rw [wsum_push]; rfl
        have hpushM : wsum gM (n.push { fail := SU }) = wsum gM n := by
          rw [wsum_push]; rfl
        cases fold with
        | false =>
          simp only [Bool.false_eq_true, if_false] at i1 i2 i3 i4 i5
          rw [size_addTransition, Array.size_push] at i1 i2
          have a1 := gT_addTransition_le (n.push { fail := SU }) prev b n.size
          have a2 := gT_addTransition_ge (n.push { fail := SU }) prev b n.size
          rw [gM_addTransition, hpushM] at i5
          simp only [foldC, Bool.false_eq_true, if_false, Nat.one_mul, List.length_cons] at i4 ⊢
          refine ⟨by omega, by omega, by omega, by omega, i5⟩
        | true =>
          simp only [if_true] at i1 i2 i3 i4 i5
          rw [size_addTransition, size_addTransition, Array.size_push] at i1 i2
          have a1 := gT_addTransition_le (n.push { fail := SU }) prev b n.size
          have a2 := gT_addTransition_ge (n.push { fail := SU }) prev b n.size
          have a3 := gT_addTransition_le (addTransition (n.push { fail := SU }) prev b n.size) prev
            (oppositeAsciiCase b) n.size
          have a4 := gT_addTransition_ge (addTransition (n.push { fail := SU }) prev b n.size) prev
            (oppositeAsciiCase b) n.size
          rw [gM_addTransition, gM_addTransition, hpushM] at i5
          simp only [foldC, if_true, List.length_cons, Nat.mul_add, Nat.mul_one] at i4 ⊢
          refine ⟨by omega, by omega, by omega, by omega, i5⟩

/-- one iteration of the `'PATTERNS` loop -/
theorem trieStep_sizes (k : MatchKind) (fold : Bool) (n : CNfa) (x : List UInt8 × Nat) :
    n.size ≤ (trieStep k fold n x).size ∧ (trieStep k fold n x).size ≤ n.size + x.1.length ∧
    wsum gT n ≤ wsum gT (trieStep k fold n x) ∧
    wsum gT (trieStep k fold n x) ≤ wsum gT n + foldC fold * x.1.length ∧
    wsum gM n ≤ wsum gM (trieStep k fold n x) ∧ wsum gM (trieStep k fold n x) ≤ wsum gM n + 1 := by
  unfold trieStep
  split
  · simp
  · rename_i n' last h
    obtain ⟨h1, h2, h3, h4, h5⟩ := addPattern_sizes _ _ _ _ _ _ _ _ h
    rw [Array.size_modify]
    have m1 := wsum_modify_le gM (fun st => { st with matches_ := st.matches_ ++ [x.2] })
      (fun a => by simp [gM]) n' last
    have m2 := wsum_modify_ge gM (fun st => { st with matches_ := st.matches_ ++ [x.2] }) 1
      (fun a => by simp [gM]) n' last
    have m3 := wsum_modify_eq gT (fun st => { st with matches_ := st.matches_ ++ [x.2] })
      (fun _ => rfl) n' last
    rw [m3]
    refine ⟨h1, h2, h3, h4, by omega, by omega⟩

/-- total number of pattern bytes -/
def totalLen (P : List (List UInt8)) : Nat := (P.map List.length).sum

def totalLenX (xs : List (List UInt8 × Nat)) : Nat := (xs.map fun x => x.1.length).sum

theorem foldl_trieStep_sizes (k : MatchKind) (fold : Bool) :
    ∀ (xs : List (List UInt8 × Nat)) (n : CNfa),
      n.size ≤ (xs.foldl (trieStep k fold) n).size ∧
      (xs.foldl (trieStep k fold) n).size ≤ n.size + totalLenX xs ∧
      wsum gT n ≤ wsum gT (xs.foldl (trieStep k fold) n) ∧
      wsum gT (xs.foldl (trieStep k fold) n) ≤ wsum gT n + foldC fold * totalLenX xs ∧
      wsum gM n ≤ wsum gM (xs.foldl (trieStep k fold) n) ∧
      wsum gM (xs.foldl (trieStep k fold) n) ≤ wsum gM n + xs.length
  | [], n => by simp [totalLenX]
  | x :: xs, n => by
    have h := trieStep_sizes k fold n x
    have ih := foldl_trieStep_sizes k fold xs (trieStep k fold n x)
    simp only [List.foldl_cons, totalLenX, List.map_cons, List.sum_cons, List.length_cons,
      Nat.mul_add] at ih ⊢
    omega

theorem totalLenX_zipIdx (P : List (List UInt8)) (j : Nat) : totalLenX (P.zipIdx j) = totalLen P := by
  induction P generalizing j with
  | nil => rfl
  | cons p P ih =>
    simp only [totalLenX, totalLen, List.zipIdx_cons, List.map_cons, List.sum_cons] at ih ⊢
    rw [ih]

theorem buildTrie_eq (k : MatchKind) (fold : Bool) (P : List (List UInt8)) :
    buildTrie k fold P = P.zipIdx.foldl (trieStep k fold) init := rfl

theorem init_size : init.size = 4 := rfl

theorem wsum_gT_init : wsum gT init = 768 := by decide +kernel

theorem wsum_gM_init : wsum gM init = 0 := by decide +kernel

/-- the sizes after `build_trie` -/
theorem buildTrie_sizes (k : MatchKind) (fold : Bool) (P : List (List UInt8)) :
    4 ≤ (buildTrie k fold P).size ∧ (buildTrie k fold P).size ≤ 4 + totalLen P ∧
    769 ≤ sparseLen (buildTrie k fold P) ∧
    sparseLen (buildTrie k fold P) ≤ 769 + foldC fold * totalLen P ∧
    matchesLen (buildTrie k fold P) ≤ 1 + P.length := by
  have h := foldl_trieStep_sizes k fold P.zipIdx init
  rw [← buildTrie_eq, totalLenX_zipIdx, init_size, wsum_gT_init, wsum_gM_init,
    List.length_zipIdx] at h
  rw [sparseLen_eq, matchesLen_eq]
  omega

/-! ## the phases after `build_trie` keep `states.len()` and only grow `matches` -/

/-- same number of states, no fewer match entries -/
def Grows (n0 n : CNfa) : Prop := n.size = n0.size ∧ wsum gM n0 ≤ wsum gM n

theorem Grows.refl (n : CNfa) : Grows n n := ⟨rfl, Nat.le_refl _⟩

theorem Grows.trans {a b c : CNfa} (h1 : Grows a b) (h2 : Grows b c) : Grows a c :=
  ⟨h2.1.trans h1.1, Nat.le_trans h1.2 h2.2⟩

theorem Grows.modify {a n : CNfa} {i : Nat} {f : CState → CState}
    (hf : ∀ st, gM st ≤ gM (f st)) (h : Grows a n) : Grows a (n.modify i f) :=
  h.trans ⟨Array.size_modify, wsum_modify_le gM f hf n i⟩

theorem Grows.copy {a n : CNfa} {src dst : Nat} (h : Grows a n) :
    Grows a (copyMatches n src dst) := by
  unfold copyMatches
  apply Grows.modify
  · intro st; simp [gM]
  · exact h

theorem grows_setAnchoredStart (n : CNfa) : Grows n (setAnchoredStart n) := by
  unfold setAnchoredStart
  apply Grows.copy
  apply Grows.modify
  · intro st; exact Nat.le_refl _
  · exact Grows.refl n

theorem grows_addStartLoop (n : CNfa) : Grows n (addStartLoop n) := by
  unfold addStartLoop
  apply Grows.modify
  · intro st; exact Nat.le_refl _
  · exact Grows.refl n

theorem grows_closeStartLoop (k : MatchKind) (n : CNfa) : Grows n (closeStartLoop k n) := by
  unfold closeStartLoop
  split
  · apply Grows.modify
    · intro st; exact Nat.le_refl _
    · exact Grows.refl n
  · exact Grows.refl n

theorem grows_fillState (lm sm us : Bool) (id : Nat) :
    ∀ (l : List (UInt8 × Nat)) (acc : CNfa × List Nat × List Nat) (a : CNfa),
      Grows a acc.1 → Grows a (fillState lm sm us id l acc).1
  | [], acc, a, h => by rw [fillState]; exact h
  | (b, next) :: rest, (n, queue, seen), a, h => by
    rw [fillState]
    split
    · exact grows_fillState lm sm us id rest _ a h
    · simp only
      split
      · apply grows_fillState lm sm us id rest _ a
        apply Grows.modify
        · intro st; exact Nat.le_refl _
        · exact h
      · apply grows_fillState lm sm us id rest _ a
        apply Grows.copy
        apply Grows.modify
        · intro st; exact Nat.le_refl _
        · exact h

theorem grows_fillStart (lm sm : Bool) :
    ∀ (l : List (UInt8 × Nat)) (acc : CNfa × List Nat × List Nat) (a : CNfa),
      Grows a acc.1 → Grows a (fillStart lm sm l acc).1
  | [], acc, a, h => by rw [fillStart]; exact h
  | (b, next) :: rest, (n, queue, seen), a, h => by
    rw [fillStart]
    split
    · exact grows_fillStart lm sm rest _ a h
    · simp only
      apply grows_fillStart lm sm rest _ a
      simp only
      have h1 : Grows a (if (lm && (sm || isMatch n next)) = true
          then n.modify next fun st => { st with fail := DEAD } else n) := by
        split
        · apply Grows.modify
          · intro st; exact Nat.le_refl _
          · exact h
        · exact h
      split
      · exact Grows.copy h1
      · exact h1

theorem grows_bfs (lm sm us : Bool) :
    ∀ (fuel : Nat) (acc : CNfa × List Nat × List Nat) (a : CNfa),
      Grows a acc.1 → Grows a (bfs lm sm us fuel acc)
  | 0, (n, _, _), a, h => by rw [bfs]; exact h
  | fuel + 1, (n, [], seen), a, h => by rw [bfs]; exact h
  | fuel + 1, (n, id :: queue', seen), a, h => by
    rw [bfs]
    exact grows_bfs lm sm us fuel _ a (grows_fillState lm sm us id _ (n, queue', seen) a h)

theorem grows_fillFailure (k : MatchKind) (fold : Bool) (n : CNfa) :
    Grows n (fillFailure k fold n) := by
  unfold fillFailure
  simp only
  have h1 := grows_fillStart k.isLeftmost (isMatch n SU) (n.getD SU {}).trans (n, [], []) n
    (Grows.refl n)
  generalize fillStart k.isLeftmost (isMatch n SU) (n.getD SU {}).trans (n, [], []) = r at h1
  obtain ⟨n1, q1, s1⟩ := r
  exact grows_bfs _ _ _ _ (n1, q1, if fold = true then s1 else []) n h1

theorem grows_finishCompile (k : MatchKind) (fold : Bool) (t : CNfa) :
    Grows t (finishCompile k fold t) := by
  unfold finishCompile
  exact (((grows_setAnchoredStart t).trans (grows_addStartLoop _)).trans
    (grows_fillFailure k fold _)).trans (grows_closeStartLoop k _)

theorem compile_eq_finish (k : MatchKind) (fold : Bool) (P : List (List UInt8)) :
    compile k fold P = finishCompile k fold (buildTrie k fold P) := rfl

theorem size_compile (k : MatchKind) (fold : Bool) (P : List (List UInt8)) :
    (compile k fold P).size = (buildTrie k fold P).size :=
  (grows_finishCompile k fold _).1

theorem matchesLen_trie_le_compile (k : MatchKind) (fold : Bool) (P : List (List UInt8)) :
    matchesLen (buildTrie k fold P) ≤ matchesLen (compile k fold P) := by
  have := (grows_finishCompile k fold (buildTrie k fold P)).2
  rw [matchesLen_eq, matchesLen_eq, compile_eq_finish]; omega

theorem size_compile_bounds (k : MatchKind) (fold : Bool) (P : List (List UInt8)) :
    4 ≤ (compile k fold P).size ∧ (compile k fold P).size ≤ 4 + totalLen P := by
  rw [size_compile]
  exact ⟨(buildTrie_sizes k fold P).1, (buildTrie_sizes k fold P).2.1⟩

end AcVerif.BuildP
