import AcVerif.PreScan
import AcVerif.Proofs.Transfer
/-!
# The per-call prefilter extents transfer along observational equivalence

`ovlScanLoop`, `tryOvlScan` and `ovlCallsScan` only observe an automaton through
`is_special` / `is_dead` / `is_match` and the match list (as `ovlLoop` does,
`Proofs/Transfer.lean`), so two observationally equivalent automaton records report the same
extents, for every prefilter function and every input.
-/
namespace AcVerif
namespace ScanP
open AcVerif.EngP
variable {σ τ α : Type}

theorem ovlScanLoop_transfer (A : Aut σ α) (B : Aut τ α) (hl : ∀ pid, A.patLen pid = B.patLen pid)
    (hay : List α) (s e : Nat) (he : e ≤ hay.length) (pre : Option (Prefilter α))
    (anch : Bool) (n : Nat) :
    ∀ (a : σ) (b : τ) (at_ acc : Nat), e - at_ ≤ n →
      ObsEquiv A B false anch a b →
      ovlScanLoop A hay s e he pre anch a at_ acc = ovlScanLoop B hay s e he pre anch b at_ acc := by
  induction n with
  | zero =>
    intro a b at_ acc hn hab
    have h : ¬ at_ < e := by omega
    rw [ovlScanLoop.eq_1 A, ovlScanLoop.eq_1 B, dif_neg h, dif_neg h]
  | succ n ih =>
    intro a b at_ acc hn hab
    rw [ovlScanLoop.eq_1 A, ovlScanLoop.eq_1 B]
    by_cases h : at_ < e
    · simp only [dif_pos h]
      have hab' := hab.next (hay[at_]'(Nat.lt_of_lt_of_le h he))
      rw [hab'.special, hab'.dead, hab'.isMatch, getMatch_zero_transfer hl hab']
      have ih1 : ∀ acc', ovlScanLoop A hay s e he pre anch
            (A.next anch a (hay[at_]'(Nat.lt_of_lt_of_le h he))) (at_ + 1) acc' =
          ovlScanLoop B hay s e he pre anch
            (B.next anch b (hay[at_]'(Nat.lt_of_lt_of_le h he))) (at_ + 1) acc' :=
        fun acc' => ih _ _ _ acc' (by omega) hab'
      split
      · split
        · rfl
        · split
          · split
            · rfl
            · exact ih1 _
          · split
            · split
              · rfl
              · split
                · exact ih _ _ _ _ (by omega) hab'
                · exact ih1 _
            · exact ih1 _
      · exact ih1 _
    · rw [dif_neg h, dif_neg h]

/-- one call: corresponding states (`ORel`) give the same extent -/
theorem tryOvlScan_transfer (A : Aut σ α) (B : Aut τ α) (pre : Option (Prefilter α)) (i : Input α)
    (hk : A.kind = B.kind) (hl : ∀ pid, A.patLen pid = B.patLen pid)
    (h : StartEquiv A B false i.anch) (x : OState σ) (y : OState τ) (hxy : ORel A B i.anch x y) :
    tryOvlScan A pre i x = tryOvlScan B pre i y := by
  obtain ⟨xm, xi, xa, xn⟩ := x
  obtain ⟨ym, yi, ya, yn⟩ := y
  obtain ⟨h1, h2, h3, h4⟩ := hxy
  simp only at h1 h2 h3 h4
  subst h1 h2 h3
  unfold tryOvlScan
  rw [hk]
  split
  · rfl
  · split
    · rfl
    · simp only
      cases xi <;> cases yi <;> simp only at h4
      · simp only
        rcases h.cases with ⟨hA, hB⟩ | ⟨a, b, hA, hB, h⟩ <;> rw [hA, hB]
        simp only
        rw [h.isMatch, h.mpats]
        split
        · rfl
        · exact ovlScanLoop_transfer A B hl _ _ _ _ _ _ _ _ _ _ _ (Nat.le_refl _) h
      · rename_i a b
        simp only
        cases xn
        · simp only
          exact ovlScanLoop_transfer A B hl _ _ _ _ _ _ _ _ _ _ _ (Nat.le_refl _) h4
        · simp only
          rw [h4.mpats, getMatch_transfer hl h4]
          split
          · rfl
          · exact ovlScanLoop_transfer A B hl _ _ _ _ _ _ _ _ _ _ _ (Nat.le_refl _) h4

/-- a call history: the same list of extents -/
theorem ovlCallsScan_transfer (A : Aut σ α) (B : Aut τ α) (pre : Option (Prefilter α))
    (i : Input α) (hk : A.kind = B.kind) (hl : ∀ pid, A.patLen pid = B.patLen pid)
    (h : StartEquiv A B false i.anch) (n : Nat) :
    ∀ (x : OState σ) (y : OState τ), ORel A B i.anch x y →
      ovlCallsScan A pre i n x = ovlCallsScan B pre i n y := by
  induction n with
  | zero => intro x y _; rfl
  | succ n ih =>
    intro x y hxy
    have := tryFindOverlappingFwd_transfer A B pre i hk hl h x y hxy
    have hxy' : ORel A B i.anch { x with mat := Option.none } { y with mat := Option.none } :=
      ⟨rfl, hxy.2.1, hxy.2.2.1, hxy.2.2.2⟩
    simp only [ovlCallsScan]
    cases hA : tryFindOverlappingFwd A pre i x <;> cases hB : tryFindOverlappingFwd B pre i y <;>
      rw [hA, hB] at this <;> simp only [ExRel] at this
    simp only
    rw [tryOvlScan_transfer A B pre i hk hl h _ _ hxy', ih _ _ this]

end ScanP
end AcVerif
