import AcVerif.Proofs.Struct
/-!
# Earliest versus normal mode of the generic loop (any automaton)

The earliest-mode loop returns at the first position where the normal loop
sets `mat`; afterwards the normal loop only replaces `mat` by matches ending
later.
-/
namespace AcVerif.LmP
open AcVerif
variable {σ α : Type}

theorem getMatch_stop (A : Aut σ α) (sid : σ) (idx at_ : Nat) :
    (getMatch A sid idx at_).stop = at_ := rfl

/-- once `mat` is set, the normal loop returns a match ending no earlier -/
theorem findS_some_mono (A : Aut σ α) (s : Nat) (anch : Bool) (rest : List α) :
    ∀ (sid : σ) (at_ : Nat) (m : Mat), m.stop ≤ at_ →
      ∃ m', findS A s anch false sid at_ (some m) rest = some m' ∧ m.stop ≤ m'.stop := by
  induction rest with
  | nil => intro sid at_ m _; exact ⟨m, rfl, Nat.le_refl _⟩
  | cons c rest ih =>
    intro sid at_ m hm
    simp only [findS, Bool.false_eq_true, if_false]
    have keep := ih (A.next anch sid c) (at_ + 1) m (by omega)
    split
    · split
      · exact ⟨m, rfl, Nat.le_refl _⟩
      · split
        · split
          · obtain ⟨m', h1, h2⟩ := ih (A.next anch sid c) (at_ + 1)
              (getMatch A (A.next anch sid c) 0 (at_ + 1)) (by rw [getMatch_stop]; omega)
            rw [getMatch_stop] at h2
            exact ⟨m', h1, by omega⟩
          · exact keep
        · exact keep
    · exact keep

theorem findS_earliest_cmp (A : Aut σ α) (s : Nat) (anch : Bool) (rest : List α) :
    ∀ (sid : σ) (at_ : Nat),
      (findS A s anch true sid at_ none rest).isSome =
        (findS A s anch false sid at_ none rest).isSome ∧
      ∀ m m', findS A s anch true sid at_ none rest = some m →
        findS A s anch false sid at_ none rest = some m' → m.stop ≤ m'.stop := by
  induction rest with
  | nil => intro sid at_; simp [findS]
  | cons c rest ih =>
    intro sid at_
    simp only [findS, Bool.false_eq_true, if_false, if_true]
    have keep := ih (A.next anch sid c) (at_ + 1)
    split
    · split
      · simp
      · split
        · split
          · obtain ⟨m', h1, h2⟩ := findS_some_mono A s anch rest (A.next anch sid c) (at_ + 1)
              (getMatch A (A.next anch sid c) 0 (at_ + 1)) (by rw [getMatch_stop]; omega)
            rw [h1]
            refine ⟨rfl, ?_⟩
            intro m m'' e1 e2
            injection e1 with e1; injection e2 with e2
            subst e1 e2; exact h2
          · exact keep
        · exact keep
    · exact keep

/-- `tryFindFwd` without prefilter on a non-standard automaton: earliest mode finds a match
iff normal mode does, and it ends no later -/
theorem tryFind_earliest_cmp (A : Aut σ α) (hk : A.kind ≠ .std) (i : Input α)
    (r r' : Option Mat)
    (h1 : tryFindFwd A none { i with earliest := true } = .ok r)
    (h2 : tryFindFwd A none { i with earliest := false } = .ok r') :
    r.isSome = r'.isSome ∧ ∀ m m', r = some m → r' = some m' → m.stop ≤ m'.stop := by
  have hkind : (A.kind == MatchKind.std) = false := by
    cases hh : A.kind <;> simp_all
  unfold tryFindFwd at h1 h2
  simp only [Input.isDone, hkind, Bool.false_or, Bool.or_false] at h1 h2
  by_cases hd : i.s > i.e
  · simp only [hd, decide_true, if_true] at h1 h2
    cases hs : A.start i.anch with
    | none => rw [hs] at h1; simp at h1
    | some sid =>
      rw [hs] at h1 h2
      injection h1 with h1; injection h2 with h2
      subst h1 h2; simp
  · simp only [hd, decide_false, Bool.false_eq_true, if_false] at h1 h2
    have key : ∀ b : Bool,
        findImp A { i with earliest := true } none b true = .ok r →
        findImp A { i with earliest := false } none b false = .ok r' →
        r.isSome = r'.isSome ∧ ∀ m m', r = some m → r' = some m' → m.stop ≤ m'.stop := by
      intro b g1 g2
      unfold findImp at g1 g2
      simp only at g1 g2
      cases hs : A.start i.anch with
      | none => rw [hs] at g1; simp at g1
      | some sid =>
        rw [hs] at g1 g2
        simp only [Bool.and_true, Bool.and_false, Bool.false_eq_true, if_false,
          findLoop_eq_findS] at g1 g2
        cases hm : A.isMatch sid with
        | true =>
          simp only [hm, if_true] at g1 g2
          injection g1 with g1; injection g2 with g2
          obtain ⟨m', e1, e2⟩ := findS_some_mono A i.s b ((i.hay.take i.e).drop i.s) sid i.s
            (getMatch A sid 0 i.s) (by rw [getMatch_stop]; omega)
          rw [e1] at g2
          subst g1 g2
          refine ⟨rfl, ?_⟩
          intro m m'' e3 e4
          injection e3 with e3; injection e4 with e4
          subst e3 e4; exact e2
        | false =>
          simp only [hm, Bool.false_eq_true, if_false] at g1 g2
          injection g1 with g1; injection g2 with g2
          subst g1 g2
          exact findS_earliest_cmp A i.s b _ sid i.s
    by_cases ha : i.anch = true
    · rw [if_pos ha] at h1 h2; exact key true h1 h2
    · rw [if_neg ha] at h1 h2; exact key false h1 h2

end AcVerif.LmP
