import AcVerif.Proofs.PreLoop
import AcVerif.Proofs.LmTop
import AcVerif.Theorems.C02
import AcVerif.Theorems.SpecUnique
import AcVerif.Proofs.Comap
/-!
# C05, part A: a sound prefilter is transparent

`PrefilterSound` is what the engine needs from a prefilter.  The proof goes
through the specification ("restart lemma"): whenever the prefilter-free loop
sits in the start state with no match recorded, what it computes from there is
by definition a *fresh* search on the remaining span, whose value is THE
`IsFind` answer for that span; the verdict of a sound prefilter about the
remaining span determines that answer (or reduces it to the answer of a shorter
span, handled by induction).

Everything is proved for the automaton `(ideal …).comap g` reading the haystack
through a byte map `g` (`transparent_comap`), with the prefilter reading the raw
haystack and sound relative to the mapped one (`PrefilterSoundAt`); `g = id`
gives the plain statement, `g = foldByte` the case-insensitive searcher.
-/
namespace AcVerif

/-- what the engine needs from a prefilter for pattern list `P` under semantics `k` -/
structure PrefilterSound {α : Type} (k : MatchKind) (P : List (List α)) (pre : Prefilter α) : Prop where
  /-- `None`: no pattern occurs in the span -/
  none_sound : ∀ hay s e, e ≤ hay.length → s ≤ e → pre hay s e = .none → ∀ m, ¬ IsOcc P hay s e m
  /-- `PossibleStartOfMatch(i)`: inside the span, and no occurrence starts before `i` -/
  pos_sound : ∀ hay s e i, e ≤ hay.length → s ≤ e → pre hay s e = .pos i →
    s ≤ i ∧ ∀ m, IsOcc P hay s e m → i ≤ m.start
  /-- `Match(m)`: it is THE answer of the search on that span -/
  mtch_sound : ∀ hay s e m, e ≤ hay.length → s ≤ e → pre hay s e = .mtch m →
    IsFind k P hay s e false (some m)

/-- Soundness for one haystack: `f = pre rawHay` is the prefilter as the loop calls it, `hay` is
the haystack the automaton effectively reads (`rawHay` itself, or `rawHay` mapped through the
case fold when the automaton is a `comap`). -/
structure PrefilterSoundAt {α : Type} (k : MatchKind) (P : List (List α)) (f : Nat → Nat → Cand)
    (hay : List α) : Prop where
  none_sound : ∀ s e, e ≤ hay.length → s ≤ e → f s e = .none → ∀ m, ¬ IsOcc P hay s e m
  pos_sound : ∀ s e i, e ≤ hay.length → s ≤ e → f s e = .pos i →
    s ≤ i ∧ ∀ m, IsOcc P hay s e m → i ≤ m.start
  mtch_sound : ∀ s e m, e ≤ hay.length → s ≤ e → f s e = .mtch m →
    IsFind k P hay s e false (some m)

theorem PrefilterSound.at {α : Type} {k : MatchKind} {P : List (List α)} {pre : Prefilter α}
    (h : PrefilterSound k P pre) (hay : List α) : PrefilterSoundAt k P (pre hay) hay :=
  ⟨h.none_sound hay, h.pos_sound hay, h.mtch_sound hay⟩

end AcVerif

namespace AcVerif.PreP
open AcVerif
set_option linter.unusedSectionVars false
variable {α : Type} [DecidableEq α]

/-! ## specification facts: moving the span start -/
section Spec
omit [DecidableEq α]

theorem isOcc_mono {P : List (List α)} {hay : List α} {s s' e : Nat} {m : Mat}
    (h : IsOcc P hay s' e m) (hs : s ≤ s') : IsOcc P hay s e m := by
  obtain ⟨p, h1, h2, h3, h4, h5⟩ := h
  exact ⟨p, h1, by omega, h3, h4, h5⟩

theorem isOcc_restrict {P : List (List α)} {hay : List α} {s s' e : Nat} {m : Mat}
    (h : IsOcc P hay s e m) (hs : s' ≤ m.start) : IsOcc P hay s' e m := by
  obtain ⟨p, h1, _, h3, h4, h5⟩ := h
  exact ⟨p, h1, hs, h3, h4, h5⟩

theorem isOccA_false {P : List (List α)} {hay : List α} {s e : Nat} {m : Mat} :
    IsOccA P hay s e false m ↔ IsOcc P hay s e m := by
  simp [IsOccA]

theorem isOcc_start_le {P : List (List α)} {hay : List α} {s e : Nat} {m : Mat}
    (h : IsOcc P hay s e m) : s ≤ m.start ∧ m.start ≤ e := by
  obtain ⟨p, _, h2, h3, h4, _⟩ := h
  omega

/-- no occurrence of the span `[a, e]` starts before `i`: searching `[a, e]` is searching
`[i, e]` -/
theorem isFind_shift (k : MatchKind) {P : List (List α)} {hay : List α} {a i e : Nat}
    (hlo : ∀ m, IsOcc P hay a e m → i ≤ m.start) (hai : a ≤ i) {r : Option Mat}
    (h : IsFind k P hay i e false r) : IsFind k P hay a e false r := by
  have hiff : ∀ m, IsOccA P hay a e false m ↔ IsOccA P hay i e false m := by
    intro m
    rw [isOccA_false, isOccA_false]
    exact ⟨fun hm => isOcc_restrict hm (hlo m hm), fun hm => isOcc_mono hm hai⟩
  cases r with
  | none => intro m hm; exact h m ((hiff m).1 hm)
  | some m => exact ⟨(hiff m).2 h.1, fun m' hm' => h.2 m' ((hiff m').1 hm')⟩

/-- the answer of `[a, e]` is still the answer after moving the span start towards it -/
theorem isFind_restrict (k : MatchKind) {P : List (List α)} {hay : List α} {a a' e : Nat} {m : Mat}
    (h : IsFind k P hay a e false (some m)) (ha : a ≤ a') (ham : a' ≤ m.start) :
    IsFind k P hay a' e false (some m) := by
  refine ⟨isOccA_false.2 (isOcc_restrict (isOccA_false.1 h.1) ham), ?_⟩
  intro m' hm'
  exact h.2 m' (isOccA_false.2 (isOcc_mono (isOccA_false.1 hm') ha))

theorem isFind_none_of_no_occ (k : MatchKind) {P : List (List α)} {hay : List α} {a a' e : Nat}
    (h : ∀ m, ¬ IsOcc P hay a e m) (ha : a ≤ a') : IsFind k P hay a' e false none := by
  intro m hm
  exact h m (isOcc_mono (isOccA_false.1 hm) ha)

end Spec

/-! ## the restart induction, on abstract automata -/

/-- Strong induction on the remaining length: from the start state with nothing recorded, the
loop that consults a sound prefilter computes the fresh prefilter-free search. -/
theorem restart_generic {σ : Type} {A0 A1 : Aut σ α} {q0 : σ} (k : MatchKind)
    (P : List (List α)) (pre : Prefilter α) (hay hay' : List α)
    (hs : PrefilterSoundAt k P (pre hay) hay')
    (s e : Nat) (he : e ≤ hay.length) (he' : e ≤ hay'.length) (ea : Bool)
    (Fspec : ∀ j, j ≤ e →
      IsFind k P hay' j e false (findLoop A0 hay s e he none false ea q0 j none))
    (Lock : ∀ b, b ≤ e →
      (∀ at_, b ≤ at_ → at_ < e → follow A1 hay s e he pre ea q0 at_ none =
        findLoop A0 hay s e he none false ea q0 (at_ + 1) none) →
      findLoop A1 hay s e he (some pre) false ea q0 b none =
        findLoop A0 hay s e he none false ea q0 b none) :
    ∀ (n b : Nat), e - b = n → b ≤ e →
      findLoop A1 hay s e he (some pre) false ea q0 b none =
        findLoop A0 hay s e he none false ea q0 b none := by
  intro n
  induction n using Nat.strongRecOn with
  | _ n ih =>
    intro b hn hbe
    apply Lock b hbe
    intro at_ hb hlt
    have IH : ∀ j, at_ < j → j ≤ e →
        findLoop A1 hay s e he (some pre) false ea q0 j none =
          findLoop A0 hay s e he none false ea q0 j none :=
      fun j h1 h2 => ih (e - j) (by omega) j rfl h2
    have hF := Fspec (at_ + 1) (by omega)
    unfold follow
    cases hc : pre hay at_ e with
    | none =>
      simp only [Cand.intoOption]
      have hno := hs.none_sound at_ e he' (by omega) hc
      exact IsFind_unique k P hay' (at_ + 1) e false _ _
        (isFind_none_of_no_occ k hno (by omega)) hF
    | mtch m =>
      simp only [Cand.intoOption]
      have hm := hs.mtch_sound at_ e m he' (by omega) hc
      have hme := (isOcc_start_le (isOccA_false.1 hm.1)).2
      split
      · rename_i hgt
        have h1 : findLoop A0 hay s e he none false ea q0 m.start none = some m :=
          IsFind_unique k P hay' m.start e false _ _ (Fspec m.start hme)
            (isFind_restrict k hm (by omega) (Nat.le_refl _))
        have h2 : findLoop A0 hay s e he none false ea q0 (at_ + 1) none = some m :=
          IsFind_unique k P hay' (at_ + 1) e false _ _ hF
            (isFind_restrict k hm (by omega) (by omega))
        exact (IH m.start hgt hme).trans (h1.trans h2.symm)
      · exact IH (at_ + 1) (by omega) (by omega)
    | pos i =>
      simp only [Cand.intoOption]
      obtain ⟨hle, hlo⟩ := hs.pos_sound at_ e i he' (by omega) hc
      split
      · rename_i hgt
        have hlo' : ∀ m, IsOcc P hay' (at_ + 1) e m → i ≤ m.start :=
          fun m hm => hlo m (isOcc_mono hm (by omega))
        by_cases hie : i ≤ e
        · refine (IH i hgt hie).trans ?_
          exact IsFind_unique k P hay' (at_ + 1) e false _ _
            (isFind_shift k hlo' (by omega) (Fspec i hie)) hF
        · rw [findLoop_done _ _ _ _ _ _ _ _ _ _ _ (by omega)]
          refine IsFind_unique k P hay' (at_ + 1) e false _ _ ?_ hF
          intro m hm
          have h1 := hlo' m (isOccA_false.1 hm)
          have h2 := (isOcc_start_le (isOccA_false.1 hm)).2
          omega
      · exact IH (at_ + 1) (by omega) (by omega)

/-- the prefilter call before the loop -/
theorem initial_generic {σ : Type} {A0 A1 : Aut σ α} {q0 : σ} (k : MatchKind)
    (P : List (List α)) (pre : Prefilter α) (hay hay' : List α)
    (hs : PrefilterSoundAt k P (pre hay) hay')
    (s e : Nat) (he : e ≤ hay.length) (he' : e ≤ hay'.length) (hse : s ≤ e) (ea : Bool)
    (Fspec : ∀ j, j ≤ e →
      IsFind k P hay' j e false (findLoop A0 hay s e he none false ea q0 j none))
    (L : ∀ b, b ≤ e → findLoop A1 hay s e he (some pre) false ea q0 b none =
        findLoop A0 hay s e he none false ea q0 b none) :
    (match pre hay s e with
      | .none => (Except.ok Option.none : Except MatchErr (Option Mat))
      | .mtch m => .ok (some m)
      | .pos j => .ok (findLoop A1 hay s e he (some pre) false ea q0 j none)) =
      .ok (findLoop A0 hay s e he none false ea q0 s none) := by
  have hF := Fspec s hse
  cases hc : pre hay s e with
  | none =>
    simp only
    congr 1
    exact IsFind_unique k P hay' s e false _ _
      (isFind_none_of_no_occ k (hs.none_sound s e he' hse hc) (Nat.le_refl _)) hF
  | mtch m =>
    simp only
    congr 1
    exact IsFind_unique k P hay' s e false _ _ (hs.mtch_sound s e m he' hse hc) hF
  | pos i =>
    simp only
    congr 1
    obtain ⟨hle, hlo⟩ := hs.pos_sound s e i he' hse hc
    by_cases hie : i ≤ e
    · refine (L i hie).trans ?_
      exact IsFind_unique k P hay' s e false _ _ (isFind_shift k hlo hle (Fspec i hie)) hF
    · rw [findLoop_done _ _ _ _ _ _ _ _ _ _ _ (by omega)]
      refine IsFind_unique k P hay' s e false _ _ ?_ hF
      intro m hm
      have h1 := hlo m (isOccA_false.1 hm)
      have h2 := (isOcc_start_le (isOccA_false.1 hm)).2
      omega

/-! ## the ideal automaton -/

/-- without empty patterns the start state is not a match state -/
theorem out_nil (k : MatchKind) {Q : PatSet α} (hQ : ∀ q ∈ Q, q.1 ≠ []) :
    Ideal.out k Q (.at []) = [] := by
  have h1 : outStd Q [] = [] := by
    simp only [outStd, idsOf, List.length_nil, Nat.zero_add, List.range_one, List.flatMap_cons,
      List.flatMap_nil, List.append_nil, List.drop_nil, List.map_eq_nil_iff,
      List.filter_eq_nil_iff, decide_eq_true_eq]
    exact fun q hq => hQ q hq
  have h2 : outLm Q [] = [] := by
    have : (List.range ([] : List α).length.succ).find?
        (fun k => Q.any fun q => q.1 = ([] : List α).drop k) = none := by
      rw [List.find?_eq_none]
      intro x _
      simp only [List.drop_nil, List.any_eq_true, decide_eq_true_eq, not_exists, not_and]
      exact fun q hq => hQ q hq
    simp only [outLm]
    rw [this]
  cases k <;> simp only [Ideal.out, h1, h2]

theorem patSet_ne_nil {k : MatchKind} {P : List (List α)} (hne : ∀ p ∈ P, p ≠ []) :
    ∀ q ∈ patSet k P, q.1 ≠ [] := by
  intro q hq
  exact hne q.1 (List.mem_of_getElem? (LmP.mem_patSet hq))

theorem sameButSpecial_ideal (k : MatchKind) (P : List (List α)) (sk : StartKind) :
    SameButSpecial (ideal k P sk false) (ideal k P sk true) where
  next := rfl
  dead := rfl
  isMatch := rfl
  mpats := rfl
  patLen := rfl
  special := by
    intro q h
    simp only [ideal, Bool.or_eq_true] at h ⊢
    simp only [Bool.false_and, Bool.true_and]
    exact ⟨Or.inl h, Or.inl h⟩

theorem startFlagged_ideal (k : MatchKind) (P : List (List α)) (hne : ∀ p ∈ P, p ≠ [])
    (sk : StartKind) : StartFlagged (ideal k P sk false) (ideal k P sk true) (.at []) where
  toSameButSpecial := sameButSpecial_ideal k P sk
  special0 := by intro q; simp [ideal]
  special1 := by intro q hq; simp [ideal, hq]
  q0_special := by simp [ideal]
  q0_dead := by simp [ideal]
  q0_match := by
    show (!(Ideal.out k (patSet k P) (.at [])).isEmpty) = false
    rw [out_nil k (patSet_ne_nil hne)]; rfl

/-- the fresh prefilter-free search on `[j, e]` returns THE answer for `[j, e]` -/
theorem fresh_isFind (k : MatchKind) (P : List (List α)) (hne : ∀ p ∈ P, p ≠ [])
    (sk : StartKind) (hsk : supportsAnch sk false) (hay : List α) (s e : Nat)
    (he : e ≤ hay.length) (ea : Bool) (hk : k = .std ∨ ea = false) (j : Nat) (hj : j ≤ e) :
    IsFind k P hay j e false
      (findLoop (ideal k P sk false) hay s e he none false (k == .std || ea) (.at []) j none) := by
  let i : Input α := ⟨hay, j, e, false, ea, ⟨he, by omega⟩⟩
  have hrun : tryFindFwd (ideal k P sk false) none i =
      .ok (findLoop (ideal k P sk false) hay s e he none false (k == .std || ea) (.at []) j
        none) := by
    have hd : i.isDone = false := by simp [Input.isDone, i]; omega
    have hm : (ideal k P sk false).isMatch (.at []) = false :=
      (startFlagged_ideal k P hne sk).q0_match
    have hkind : (ideal k P sk false).kind = k := rfl
    unfold tryFindFwd
    simp only [hd, Bool.false_eq_true, if_false, hkind]
    have hanch : i.anch = false := rfl
    simp only [hanch, Bool.false_eq_true, if_false]
    unfold findImp
    rw [hanch, LmP.start_ideal hsk]
    simp only [hm, Bool.false_and, Bool.false_eq_true, if_false]
    exact congrArg Except.ok (findLoop_s_irrel _ _ _ _ _ _ _ _ _ _)
  have hea : i.earliest = ea := rfl
  have key : ∃ r, tryFindFwd (ideal k P sk false) none i = .ok r ∧
      IsFind k P i.hay i.s i.e i.anch r := by
    cases k with
    | std => exact C02_find P sk i hsk
    | lf =>
      rcases hk with hk | hk
      · cases hk
      · exact LmP.find_lf P sk i (hea.trans hk) hsk
    | ll =>
      rcases hk with hk | hk
      · cases hk
      · exact LmP.find_ll P sk i (hea.trans hk) hsk
  obtain ⟨r, h1, h2⟩ := key
  have : r = findLoop (ideal k P sk false) hay s e he none false (k == .std || ea) (.at []) j
      none := by
    have := h1.symm.trans hrun
    injection this
  rw [← this]
  exact h2

/-! ## the invariant of the prefilter-free run that forces `mat = none` in the start state -/

/-- leftmost: the run from a restart at `b` has consumed `w`, sits in `lsp Q w`, every occurrence
in `w` lies in the window of the current node, and `mat` is the best occurrence in `w` -/
def InvLm (Q : PatSet α) (b : Nat) (q : St α) (at_ : Nat) (mat : Option Mat) : Prop :=
  ∃ w, q = .at (lsp Q w) ∧ at_ = b + w.length ∧ LmP.Cover Q w ∧ LmP.BestIn Q b false w mat

theorem invLm_init (Q : PatSet α) (hQ : ∀ q ∈ Q, q.1 ≠ []) (b : Nat) :
    InvLm Q b (.at []) b none := by
  refine ⟨[], rfl, rfl, LmP.cover_nil Q, ?_⟩
  intro q st _ ho
  have hl := ho.len_le
  simp only [List.length_nil] at hl
  exact hQ q ho.1 (List.eq_nil_of_length_eq_zero (by omega))

theorem invLm_start (Q : PatSet α) (hQ : ∀ q ∈ Q, q.1 ≠ []) (b : Nat) (at_ : Nat)
    (mat : Option Mat) (h : InvLm Q b (.at []) at_ mat) : mat = none := by
  obtain ⟨w, hq, _, hc, hb⟩ := h
  have hl : lsp Q w = [] := by injection hq with hq; exact hq.symm
  cases mat with
  | none => rfl
  | some m =>
    exfalso
    obtain ⟨q, st, _, ho, _, _⟩ := hb
    have h1 := hc q st ho
    have h2 := ho.len_le
    rw [hl] at h1
    simp only [List.length_nil] at h1
    exact hQ q ho.1 (List.eq_nil_of_length_eq_zero (by omega))

theorem invLm_step (k : MatchKind) (hk : k = .ll ∨ k = .lf) (P : List (List α)) (sk : StartKind)
    (b : Nat) (q : St α) (at_ : Nat) (mat : Option Mat) (c : α)
    (hinv : InvLm (patSet k P) b q at_ mat)
    (hd : (ideal k P sk false).isDead ((ideal k P sk false).next false q c) = false) :
    ((ideal k P sk false).isMatch ((ideal k P sk false).next false q c) = true →
      InvLm (patSet k P) b ((ideal k P sk false).next false q c) (at_ + 1)
        (some (getMatch (ideal k P sk false) ((ideal k P sk false).next false q c) 0 (at_ + 1)))) ∧
    ((ideal k P sk false).isMatch ((ideal k P sk false).next false q c) = false →
      InvLm (patSet k P) b ((ideal k P sk false).next false q c) (at_ + 1) mat) := by
  obtain ⟨w, rfl, hat, hc, hbest⟩ := hinv
  have hnx : (ideal k P sk false).next false (.at (lsp (patSet k P) w)) c =
      stepLm (patSet k P) (lsp (patSet k P) w) c := by
    rw [LmP.ideal_next k hk P sk false]; rfl
  generalize hq' : (ideal k P sk false).next false (.at (lsp (patSet k P) w)) c = q' at hd ⊢
  have hst := hnx.symm.trans hq'
  cases q' with
  | dead => simp [ideal] at hd
  | «at» u' =>
    obtain ⟨rfl, hc'⟩ := LmP.stepLm_live hc hst
    have hout : (ideal k P sk false).mpats (.at (lsp (patSet k P) (w ++ [c]))) =
        outLm (patSet k P) (lsp (patSet k P) (w ++ [c])) := by
      rcases hk with rfl | rfl <;> rfl
    have hm : (ideal k P sk false).isMatch (.at (lsp (patSet k P) (w ++ [c]))) =
        !(outLm (patSet k P) (lsp (patSet k P) (w ++ [c]))).isEmpty := by
      rcases hk with rfl | rfl <;> simp [ideal, Ideal.out]
    have hpl : (ideal k P sk false).patLen = fun pid => (P.getD pid []).length := rfl
    have hat' : at_ + 1 = b + (w ++ [c]).length := by
      simp only [List.length_append, List.length_singleton]; omega
    rw [hm]
    cases ho : outLm (patSet k P) (lsp (patSet k P) (w ++ [c])) with
    | nil =>
      refine ⟨fun h => by simp at h, fun _ => ?_⟩
      exact ⟨w ++ [c], rfl, hat', hc',
        LmP.best_keep hbest (fun q st hoq he => LmP.no_new_of_outLm_nil ho hoq he)⟩
    | cons pid t =>
      refine ⟨fun _ => ?_, fun h => by simp at h⟩
      obtain ⟨q, hq, hqp, hql, hbn⟩ := LmP.best_new (s := b) (LmP.idsInc_patSet k P) hc' ho
      have hmat : getMatch (ideal k P sk false) (.at (lsp (patSet k P) (w ++ [c]))) 0 (at_ + 1) =
          LmP.matOf b q ((w ++ [c]).length - q.1.length) := by
        have hlen := LmP.plen_patSet q hq
        simp only at hlen
        rw [hqp] at hlen
        simp only [getMatch, hout, ho, List.getD_cons_zero, hpl, hlen, LmP.matOf, hqp,
          Mat.mk.injEq, true_and]
        omega
      rw [hmat]
      exact ⟨w ++ [c], rfl, hat', hc', hbn⟩

/-! ## feeding the haystack through a byte map (`Aut.comap`, the case-insensitive searcher) -/

theorem SameButSpecial.comap {σ : Type} {A0 A1 : Aut σ α} (h : SameButSpecial A0 A1) (g : α → α) :
    SameButSpecial (A0.comap g) (A1.comap g) where
  next := by
    show (fun anch q c => A1.next anch q (g c)) = fun anch q c => A0.next anch q (g c)
    rw [h.next]
  dead := h.dead
  isMatch := h.isMatch
  mpats := h.mpats
  patLen := h.patLen
  special := h.special

theorem StartFlagged.comap {σ : Type} {A0 A1 : Aut σ α} {q0 : σ} (h : StartFlagged A0 A1 q0)
    (g : α → α) : StartFlagged (A0.comap g) (A1.comap g) q0 where
  toSameButSpecial := h.toSameButSpecial.comap g
  special0 := h.special0
  special1 := h.special1
  q0_special := h.q0_special
  q0_dead := h.q0_dead
  q0_match := h.q0_match

/-- the fresh prefilter-free search of the mapped automaton returns THE answer on the mapped
haystack -/
theorem fresh_isFind_comap (k : MatchKind) (P : List (List α)) (hne : ∀ p ∈ P, p ≠ [])
    (sk : StartKind) (hsk : supportsAnch sk false) (g : α → α) (hay : List α) (s e : Nat)
    (he : e ≤ hay.length) (ea : Bool) (hk : k = .std ∨ ea = false) (j : Nat) (hj : j ≤ e) :
    IsFind k P (hay.map g) j e false
      (findLoop ((ideal k P sk false).comap g) hay s e he none false (k == .std || ea) (.at []) j
        none) := by
  have he' : e ≤ (hay.map g).length := by simpa using he
  have := fresh_isFind k P hne sk hsk (hay.map g) s e he' ea hk j hj
  rw [← MiscP.findLoop_comap (ideal k P sk false) g hay s e he he'] at this
  exact this

/-- `lockstep` instantiated: on the (mapped) ideal automaton, if following the prefilter from the
start state is correct at every position from `b` on, the loop with prefilter started fresh at
`b` equals the prefilter-free loop -/
theorem lock_ideal (k : MatchKind) (P : List (List α)) (hne : ∀ p ∈ P, p ≠ []) (sk : StartKind)
    (g : α → α) (hay : List α) (s e : Nat) (he : e ≤ hay.length) (pre : Prefilter α) (ea : Bool)
    (hk : k = .std → ea = true) (b : Nat)
    (R : ∀ at_, b ≤ at_ → at_ < e →
      follow ((ideal k P sk true).comap g) hay s e he pre ea (.at []) at_ none =
        findLoop ((ideal k P sk false).comap g) hay s e he none false ea (.at []) (at_ + 1) none) :
    findLoop ((ideal k P sk true).comap g) hay s e he (some pre) false ea (.at []) b none =
      findLoop ((ideal k P sk false).comap g) hay s e he none false ea (.at []) b none := by
  have hA := (startFlagged_ideal k P hne sk).comap g
  by_cases hstd : k = .std
  · have hea := hk hstd
    refine lockstep hA hay s e he pre ea (fun _ _ mat => mat = none) b ?_ ?_ R (e - b) (.at []) b
      none rfl (Nat.le_refl _) rfl
    · intro q at_ mat h _ hinv _
      exact ⟨fun _ h' => (by rw [hea] at h'; cases h'), fun _ => hinv⟩
    · intro _ _ h; exact h
  · have hk' : k = .ll ∨ k = .lf := by cases k <;> simp at hstd ⊢
    have hQ := patSet_ne_nil (k := k) hne
    refine lockstep hA hay s e he pre ea (InvLm (patSet k P) b) b ?_ (invLm_start _ hQ b) R
      (e - b) (.at []) b none rfl (Nat.le_refl _) (invLm_init _ hQ b)
    intro q at_ mat h _ hinv hd
    have := invLm_step k hk' P sk b q at_ mat (g (hay[at_]'(Nat.lt_of_lt_of_le h he))) hinv hd
    exact ⟨fun h1 _ => this.1 h1, this.2⟩

/-- the restart lemma on the (mapped) ideal automaton -/
theorem restart_ideal (k : MatchKind) (P : List (List α)) (hne : ∀ p ∈ P, p ≠ [])
    (pre : Prefilter α) (sk : StartKind) (hsk : supportsAnch sk false) (g : α → α)
    (hay : List α) (hs : PrefilterSoundAt k P (pre hay) (hay.map g))
    (s e : Nat) (he : e ≤ hay.length) (ea : Bool)
    (hk : k = .std ∨ ea = false) (b : Nat) (hb : b ≤ e) :
    findLoop ((ideal k P sk true).comap g) hay s e he (some pre) false (k == .std || ea) (.at [])
        b none =
      findLoop ((ideal k P sk false).comap g) hay s e he none false (k == .std || ea) (.at [])
        b none :=
  restart_generic k P pre hay (hay.map g) hs s e he (by simpa using he) (k == .std || ea)
    (fresh_isFind_comap k P hne sk hsk g hay s e he ea hk)
    (fun b _ R => lock_ideal k P hne sk g hay s e he pre (k == .std || ea)
      (fun h => by simp [h]) b R) (e - b) b rfl hb

/-! ## `findImp` / `tryFindFwd` -/

theorem findImp_noPre {σ : Type} {A0 A1 : Aut σ α} (h : SameButSpecial A0 A1)
    (hstart : A1.start = A0.start) (i : Input α) (anch ea : Bool) :
    findImp A1 i none anch ea = findImp A0 i none anch ea := by
  unfold findImp
  rw [hstart]
  cases A0.start i.anch with
  | none => rfl
  | some q => simp only [h.isMatch, h.getMatch, findLoop_noPre h]

theorem findImp_pre (k : MatchKind) (P : List (List α)) (hne : ∀ p ∈ P, p ≠ [])
    (pre : Prefilter α) (sk : StartKind) (g : α → α) (i : Input α)
    (hs : PrefilterSoundAt k P (pre i.hay) (i.hay.map g))
    (ha : i.anch = false) (hsk : supportsAnch sk false) (hse : i.s ≤ i.e)
    (hk : k = .std ∨ i.earliest = false) :
    findImp ((ideal k P sk true).comap g) i (some pre) false (k == .std || i.earliest) =
      findImp ((ideal k P sk false).comap g) i none false (k == .std || i.earliest) := by
  have hA := startFlagged_ideal k P hne sk
  have hst0 : ((ideal k P sk false).comap g).start i.anch = some (.at []) := by
    rw [ha]; exact LmP.start_ideal (k := k) (P := P) hsk
  have hst1 : ((ideal k P sk true).comap g).start i.anch = some (.at []) := hst0
  have hm0 : ((ideal k P sk false).comap g).isMatch (.at []) = false := hA.q0_match
  have hm1 : ((ideal k P sk true).comap g).isMatch (.at []) = false := hA.q0_match
  unfold findImp
  rw [hst0, hst1]
  simp only [hm0, hm1, Bool.false_and, Bool.false_eq_true, if_false]
  exact initial_generic k P pre i.hay (i.hay.map g) hs i.s i.e i.valid.1
    (by simpa using i.valid.1) hse (k == .std || i.earliest)
    (fresh_isFind_comap k P hne sk hsk g i.hay i.s i.e i.valid.1 i.earliest hk)
    (restart_ideal k P hne pre sk hsk g i.hay hs i.s i.e i.valid.1 i.earliest hk)

/-- Transparency for an automaton that reads the haystack through a byte map `g`, with a
prefilter that reads the raw haystack and is sound relative to the mapped one. -/
theorem transparent_comap (k : MatchKind) (P : List (List α)) (hne : ∀ p ∈ P, p ≠ [])
    (pre : Prefilter α) (sk : StartKind) (g : α → α) (i : Input α)
    (hs : PrefilterSoundAt k P (pre i.hay) (i.hay.map g))
    (he : k = .std ∨ i.earliest = false) (h : supportsAnch sk i.anch) :
    tryFindFwd ((ideal k P sk true).comap g) (some pre) i =
      tryFindFwd ((ideal k P sk false).comap g) none i := by
  unfold tryFindFwd
  cases hd : i.isDone with
  | true => rfl
  | false =>
    have hse : i.s ≤ i.e := by
      simp only [Input.isDone, decide_eq_false_iff_not] at hd; omega
    have hk1 : ((ideal k P sk true).comap g).kind = k := rfl
    have hk0 : ((ideal k P sk false).comap g).kind = k := rfl
    simp only [Bool.false_eq_true, if_false, hk1, hk0]
    cases ha : i.anch with
    | true =>
      simp only [if_true]
      exact findImp_noPre ((sameButSpecial_ideal k P sk).comap g) rfl i true _
    | false =>
      simp only [Bool.false_eq_true, if_false]
      rw [ha] at h
      exact findImp_pre k P hne pre sk g i hs ha h hse he

theorem comap_id {σ : Type} (A : Aut σ α) : A.comap id = A := rfl

end AcVerif.PreP
