import AcVerif.Proofs.DfaRow
import AcVerif.Proofs.CompilerFoldFinal
/-!
# L1d (fold) proofs, part 1: byte classes are a congruence of the NFA compiled with
`ascii_case_insensitive`; the rows of the DFA

Port of the `FS`-dependent part of `Proofs/DfaRow.lean` to `FSf` (the specification of
`CNfa.compile k true P`, nodes named by the FOLDED strings, the edge to `u ++ [foldByte b]` taken
on the raw byte `b`).  The class map of the DFA builder is computed from `trieBytes N`, the bytes
with an explicit edge in `N` itself, so BOTH cases of a letter of the trie are marked and two
different bytes of one class still have no edge at any live state (`follow_cong_VU_f`,
`follow_cong_VA_f`, `nextState_cong_f`); a row of a live state holds `next_state` (`rowU_spec_f`,
`rowA_spec_f`).  `ClassOK`, `VU`, `VA`, `row_fold`, `sparseIter_spec`, … are re-used unchanged.
-/
namespace AcVerif.L1dFoldP
open AcVerif AcVerif.CNfa AcVerif.L1cP AcVerif.LmP AcVerif.L1dP AcVerif.L1cFoldP

/-! ## membership in `trieBytes` -/

section
variable {k : MatchKind} {Q : PatSet UInt8} {L : List (List UInt8)} {N : CNfa}

theorem _root_.AcVerif.L1cFoldP.FSf.ne_nil (h : FSf k Q L N) {u : List UInt8} (hu : u ∈ L) : u ≠ [] := ((h.mem u).1 hu).1

theorem _root_.AcVerif.L1cFoldP.FSf.nu_lt_size (h : FSf k Q L N) {u : List UInt8} (hu : u = [] ∨ u ∈ L) :
    nu L u < N.size := by
  rw [h.size]
  rcases hu with e | hm
  · subst e; simp [SU]
  · exact nu_lt hm (h.ne_nil hm)

theorem _root_.AcVerif.L1cFoldP.FSf.four_le_size (h : FSf k Q L N) : 4 ≤ N.size := by rw [h.size]; omega

/-- a child edge puts its byte into `trieBytes` -/
theorem _root_.AcVerif.L1cFoldP.FSf.edge_mem (h : FSf k Q L N) {u : List UInt8} {b : UInt8} (hu : u = [] ∨ u ∈ L)
    (hin : u ++ [foldByte b] ∈ L) : b ∈ trieBytes N := by
  have hf := h.goto_in u b hu hin
  have hge : 4 ≤ nu L (u ++ [foldByte b]) := nu_ge (by simp)
  rcases hu with e | hm
  · subst e
    rw [nu_nil] at hf
    apply mem_trieBytes_su (by have := h.four_le_size; simp only [SU]; omega) <;> rw [hf] <;>
      simp only [FAIL, SU, DEAD] <;> omega
  · apply mem_trieBytes_node (h.nu_lt_size (Or.inr hm)) (nu_ge (h.ne_nil hm))
    rw [hf]; simp only [FAIL]; omega

/-! ## `follow` at the live states, for a byte outside the trie -/

theorem follow_node_out_f (h : FSf k Q L N) {u : List UInt8} (hu : u ∈ L) {b : UInt8}
    (hb : b ∉ trieBytes N) : follow N (nu L u) b = FAIL := by
  by_cases hin : u ++ [foldByte b] ∈ L
  · exact absurd (h.edge_mem (Or.inr hu) hin) hb
  · exact h.goto_out u b hu hin

theorem follow_sa_out_f (h : FSf k Q L N) {b : UInt8} (hb : b ∉ trieBytes N) :
    follow N SA b = FAIL := by
  rw [h.goto_sa, if_neg]
  intro hin
  exact hb (h.edge_mem (u := []) (Or.inl rfl) hin)

theorem follow_su_out_f (h : FSf k Q L N) {b : UInt8} (hb : b ∉ trieBytes N) :
    follow N SU b = sidOf L (if k = .std ∨ idsOf Q [] = [] then .at [] else .dead) := by
  have hout : [foldByte b] ∉ L := fun hin => hb (h.edge_mem (u := []) (Or.inl rfl) hin)
  have hp : ¬ isPref Q [foldByte b] = true :=
    fun hp => hout ((h.isPref_iff_mem [] (foldByte b)).1 hp)
  rw [h.goto_root b hout, next_root_out k Q (foldByte b) hp]

/-- the unanchored start state has no `FAIL` entry -/
theorem follow_su_ne_fail_f (h : FSf k Q L N) (b : UInt8) : follow N SU b ≠ FAIL := by
  by_cases hin : [foldByte b] ∈ L
  · have := h.goto_in [] b (Or.inl rfl) hin
    rw [nu_nil] at this
    rw [this]; exact nu_ne_fail _ _
  · rw [h.goto_root b hin]; exact sidOf_ne_fail _ _

/-! ## live states -/

theorem _root_.AcVerif.L1dP.VU.lt_size_f (h : FSf k Q L N) {s : Nat} (hv : VU L s) : s < N.size := by
  rcases hv with e | ⟨u, hu, e⟩
  · subst e; have := h.four_le_size; simp only [DEAD]; omega
  · subst e; exact h.nu_lt_size hu

theorem _root_.AcVerif.L1dP.VA.lt_size_f (h : FSf k Q L N) {s : Nat} (hv : VA L s) : s < N.size := by
  rcases hv with e | e | ⟨u, hu, e⟩
  · subst e; have := h.four_le_size; simp only [DEAD]; omega
  · subst e; have := h.four_le_size; simp only [SA]; omega
  · subst e; exact h.nu_lt_size (Or.inr hu)

theorem _root_.AcVerif.L1dP.VU.ne_sa_f (h : FSf k Q L N) {s : Nat} (hv : VU L s) : s ≠ SA ∧ s ≠ FAIL := by
  rcases hv with e | ⟨u, hu, e⟩
  · subst e; simp [DEAD, SA, FAIL]
  · subst e
    rcases hu with e | hm
    · subst e; simp [SU, SA, FAIL]
    · have := nu_ge (L := L) (h.ne_nil hm)
      simp only [SA, FAIL]; omega

theorem _root_.AcVerif.L1dP.VA.ne_su_f (h : FSf k Q L N) {s : Nat} (hv : VA L s) : s ≠ SU ∧ s ≠ FAIL := by
  rcases hv with e | e | ⟨u, hu, e⟩
  · subst e; simp [DEAD, SU, FAIL]
  · subst e; simp [SU, SA, FAIL]
  · subst e
    have := nu_ge (L := L) (h.ne_nil hu)
    simp only [SU, FAIL]; omega

/-- failure links of trie nodes lead to live states -/
theorem VU_fail_f (h : FSf k Q L N) {u : List UInt8} (hu : u ∈ L) :
    VU L (N.getD (nu L u) {}).fail := by
  rw [h.fail u hu]
  unfold finalFail
  split
  · exact Or.inl rfl
  · exact Or.inr ⟨failStd Q u, h.lsp_mem _, rfl⟩

/-! ## the congruence -/

variable {classOf : UInt8 → Nat} {nc : Nat}

theorem follow_cong_VU_f (h : FSf k Q L N) (hC : ClassOK N classOf nc) {s : Nat} (hv : VU L s)
    {b b' : UInt8} (hc : classOf b = classOf b') : follow N s b = follow N s b' := by
  by_cases e : b = b'
  · rw [e]
  · obtain ⟨hb, hb'⟩ := hC.cong b b' hc e
    rcases hv with e | ⟨u, hu, e⟩
    · subst e; rw [h.goto_dead, h.goto_dead]
    · subst e
      rcases hu with e | hm
      · subst e; rw [nu_nil, follow_su_out_f h hb, follow_su_out_f h hb']
      · rw [follow_node_out_f h hm hb, follow_node_out_f h hm hb']

theorem follow_cong_VA_f (h : FSf k Q L N) (hC : ClassOK N classOf nc) {s : Nat} (hv : VA L s)
    {b b' : UInt8} (hc : classOf b = classOf b') : follow N s b = follow N s b' := by
  by_cases e : b = b'
  · rw [e]
  · obtain ⟨hb, hb'⟩ := hC.cong b b' hc e
    rcases hv with e | e | ⟨u, hm, e⟩
    · subst e; rw [h.goto_dead, h.goto_dead]
    · subst e; rw [follow_sa_out_f h hb, follow_sa_out_f h hb']
    · subst e; rw [follow_node_out_f h hm hb, follow_node_out_f h hm hb']

/-- `next_state` (unanchored) is constant on byte classes, at live states -/
theorem nextState_cong_f (h : FSf k Q L N) (hC : ClassOK N classOf nc) {b b' : UInt8}
    (hc : classOf b = classOf b') :
    ∀ (fuel s hp : Nat), VU L s → nextState N false fuel s b hp = nextState N false fuel s b' hp := by
  intro fuel
  induction fuel with
  | zero => intro s hp _; rfl
  | succ fuel ih =>
    intro s hp hv
    have hf := follow_cong_VU_f h hC hv hc
    by_cases hfail : follow N s b = FAIL
    · rw [nextState_go N fuel s b hp hfail, nextState_go N fuel s b' hp (hf ▸ hfail)]
      apply ih
      rcases hv with e | ⟨u, hu, e⟩
      · subst e; rw [h.goto_dead] at hfail; cases hfail
      · subst e
        rcases hu with e | hm
        · subst e; rw [nu_nil] at hfail; exact absurd hfail (follow_su_ne_fail_f h b)
        · exact VU_fail_f h hm
    · rw [nextState_stop N false fuel s b hp hfail,
        nextState_stop N false fuel s b' hp (hf ▸ hfail), hf]

/-! ## what one row entry holds -/

/-- the `.1` of an unanchored `next_state` at a node does not depend on fuel / hop counter -/
theorem nextState_fst_f (h : FSf k Q L N) {v : List UInt8} (hv : v = [] ∨ v ∈ L) (r : UInt8)
    (fuel hp : Nat) (hfuel : v.length < fuel) :
    (nextState N false fuel (nu L v) r hp).1 = sidOf L (Ideal.next k Q false (.at v) (foldByte r)) := by
  rw [run_step_f h r v.length v (Nat.le_refl _) hv fuel hp hfuel]

/-- the unanchored entry: explicit transition, or `FAIL` resolved through the failure link -/
theorem unanch_entry_f (h : FSf k Q L N) {s : Nat} (hv : VU L s) (r : UInt8) :
    (if follow N s r == FAIL then resolveFail N s r else follow N s r) =
      (nextState N false (N.size + 1) s r 0).1 := by
  by_cases hf : follow N s r = FAIL
  · rw [nextState_go N N.size s r 0 hf, hf]
    simp only [beq_self_eq_true, if_true]
    unfold resolveFail
    rcases hv with e | ⟨u, hu, e⟩
    · subst e; rw [h.goto_dead] at hf; cases hf
    · subst e
      rcases hu with e | hm
      · subst e; rw [nu_nil] at hf; exact absurd hf (follow_su_ne_fail_f h r)
      · rcases VU_fail_f h hm with e | ⟨v, hv, e⟩
        · rw [e]
          simp only [beq_self_eq_true, if_true]
          rw [nextState_dead N false _ r _ (h.goto_dead r)]
        · rw [e]
          have hne : (nu L v == DEAD) = false := by simpa using nu_ne_dead L v
          simp only [hne, Bool.false_eq_true, if_false]
          have hl := h.len_lt_size hv
          rw [nextState_fst_f h hv r _ _ (by omega), nextState_fst_f h hv r _ _ (by omega)]
  · rw [nextState_stop N false N.size s r 0 hf]
    have : (follow N s r == FAIL) = false := by simpa using hf
    rw [this]; rfl

/-! ## rows -/

/-- the unanchored row of a live state holds `next_state(Anchored::No, ·)` -/
theorem rowU_spec_f (h : FSf k Q L N) (hC : ClassOK N classOf nc) {s : Nat} (hv : VU L s) (b : UInt8)
    (d : Nat) :
    (dfaRow N classOf nc false s).getD (classOf b) d = (nextState N false (N.size + 1) s b 0).1 := by
  rw [dfaRow_eq]
  refine (row_fold N s classOf (fun r => some (nextState N false (N.size + 1) s r 0).1)
    ?_ _ ?_ _ b ?_ d).trans ?_
  · intro b b' hc
    rw [nextState_cong_f h hC hc _ _ _ hv]
  · intro r
    simp only [Bool.false_eq_true, if_false]
    rw [unanch_entry_f h hv r]
  · rw [Array.size_replicate]; exact hC.lt b
  · rfl

/-- the anchored row of a live state holds `next_state(Anchored::Yes, ·)` -/
theorem rowA_spec_f (h : FSf k Q L N) (hC : ClassOK N classOf nc) {s : Nat} (hv : VA L s) (b : UInt8)
    (d : Nat) :
    (dfaRow N classOf nc true s).getD (classOf b) d = (nextState N true (N.size + 1) s b 0).1 := by
  rw [dfaRow_eq]
  refine (row_fold N s classOf (fun r => some (nextState N true (N.size + 1) s r 0).1)
    ?_ _ ?_ _ b ?_ d).trans ?_
  · intro b b' hc
    rw [anch_entry, anch_entry, follow_cong_VA_f h hC hv hc]
  · intro r
    simp only [if_true]
    rw [anch_entry]
  · rw [Array.size_replicate]; exact hC.lt b
  · rfl

end

end AcVerif.L1dFoldP
