import AcVerif.Engine.Replace
/-!
# The splice loop of `try_replace_all*` against its specification
-/
namespace AcVerif
variable {α : Type}

/-- the specification of splicing: copy up to each match, append the
replacement, continue after it -/
def spliceSpec (hay : List α) (repl : Mat → List α) : Nat → List Mat → List α
  | last, [] => hay.drop last
  | last, m :: ms => (hay.take m.start).drop last ++ repl m ++ spliceSpec hay repl m.stop ms

/-- `&hay[a..b]` on a `str` does not panic: ordered, in range, both character boundaries -/
def SliceOK (hay : List UInt8) (a b : Nat) : Prop :=
  isCharBoundary hay a = true ∧ isCharBoundary hay b = true ∧ a ≤ b ∧ b ≤ hay.length

/-- every slice taken while splicing the matches `ms` from `last_match = last` is fine:
`&hay[last..m.start]`, the closure argument `&hay[m.start..m.stop]`, and the final `&hay[last..]` -/
def SlicesOK (hay : List UInt8) : Nat → List Mat → Prop
  | last, [] => SliceOK hay last hay.length
  | last, m :: ms => SliceOK hay last m.start ∧ SliceOK hay m.start m.stop ∧ SlicesOK hay m.stop ms

namespace MiscP

/-- the matches the loop actually processes when the closure returns `false`
at call number `K` (calls are numbered from `k`) -/
def cut : Option Nat → Nat → List Mat → List Mat
  | none, _, l => l
  | some K, k, l => l.take (K + 1 - k)

theorem spliceLoop_fst (hay : List α) (repl : Mat → List α) (stop : Option Nat)
    (keep : Mat → Bool) (ms : List Mat) :
    ∀ (k last : Nat) (dst : List α) (log : List (Mat × List α)),
      (∀ K, stop = some K → k ≤ K) →
      (spliceLoop hay repl stop keep k last ms dst log).1 =
        dst ++ spliceSpec hay repl last (cut stop k (ms.filter keep)) := by
  induction ms with
  | nil =>
    intro k last dst log _
    cases stop <;> simp [spliceLoop, cut, spliceSpec]
  | cons m ms ih =>
    intro k last dst log hk
    rw [spliceLoop]
    cases hkeep : keep m with
    | false =>
      simp only [Bool.not_false, if_true, List.filter_cons, hkeep]
      exact ih k last dst log hk
    | true =>
      simp only [Bool.not_true, List.filter_cons, hkeep, if_true]
      simp only [Bool.false_eq_true, if_false]
      cases stop with
      | none =>
        simp only [cut, spliceSpec]
        rw [if_neg (by simp)]
        rw [ih (k + 1) m.stop _ _ (by intro K h; cases h)]
        simp [cut, List.append_assoc]
      | some K =>
        have hkK := hk K rfl
        by_cases hK : K = k
        · subst hK
          rw [if_pos (by simp)]
          have : K + 1 - K = 1 := by omega
          simp [cut, this, spliceSpec, List.append_assoc]
        · rw [if_neg (by simpa using hK)]
          rw [ih (k + 1) m.stop _ _ (by intro K' h; cases h; omega)]
          have : K + 1 - k = (K + 1 - (k + 1)) + 1 := by omega
          simp only [cut]
          rw [this, List.take_succ_cons]
          simp [spliceSpec, List.append_assoc]

theorem spliceLoop_snd (hay : List α) (repl : Mat → List α) (stop : Option Nat)
    (keep : Mat → Bool) (ms : List Mat) :
    ∀ (k last : Nat) (dst : List α) (log : List (Mat × List α)),
      (∀ K, stop = some K → k ≤ K) →
      (spliceLoop hay repl stop keep k last ms dst log).2 =
        log.reverse ++ (cut stop k (ms.filter keep)).map
          fun m => (m, (hay.take m.stop).drop m.start) := by
  induction ms with
  | nil =>
    intro k last dst log _
    cases stop <;> simp [spliceLoop, cut]
  | cons m ms ih =>
    intro k last dst log hk
    rw [spliceLoop]
    cases hkeep : keep m with
    | false =>
      simp only [Bool.not_false, if_true, List.filter_cons, hkeep]
      exact ih k last dst log hk
    | true =>
      simp only [Bool.not_true, List.filter_cons, hkeep, if_true]
      simp only [Bool.false_eq_true, if_false]
      cases stop with
      | none =>
        rw [if_neg (by simp)]
        rw [ih (k + 1) m.stop _ _ (by intro K h; cases h)]
        simp [cut]
      | some K =>
        have hkK := hk K rfl
        by_cases hK : K = k
        · subst hK
          rw [if_pos (by simp)]
          have : K + 1 - K = 1 := by omega
          simp [cut, this]
        · rw [if_neg (by simpa using hK)]
          rw [ih (k + 1) m.stop _ _ (by intro K' h; cases h; omega)]
          have : K + 1 - k = (K + 1 - (k + 1)) + 1 := by omega
          simp only [cut]
          rw [this, List.take_succ_cons]
          simp

theorem filter_const_true (l : List Mat) : l.filter (fun _ => true) = l :=
  List.filter_eq_self.mpr (fun _ _ => rfl)

/-- a middle slice followed by the rest is the tail -/
theorem take_drop_append_drop (hay : List α) {a b : Nat} (h : a ≤ b) :
    (hay.take b).drop a ++ hay.drop b = hay.drop a := by
  have h1 : (hay.take b).drop a = (hay.drop a).take (b - a) := by
    rw [List.drop_take]
  have h2 : hay.drop b = (hay.drop a).drop (b - a) := by
    rw [List.drop_drop]; congr 1; omega
  rw [h1, h2, List.take_append_drop]

/-- replacing every match by the bytes it matched gives back the haystack (from `last` on) -/
theorem spliceSpec_identity (hay : List α) (ms : List Mat) :
    ∀ last, ms.Pairwise (fun a b => a.stop ≤ b.start) → (∀ m ∈ ms, m.start ≤ m.stop) →
      (∀ m ∈ ms, last ≤ m.start) →
      spliceSpec hay (fun m => (hay.take m.stop).drop m.start) last ms = hay.drop last := by
  induction ms with
  | nil => intro last _ _ _; rfl
  | cons m ms ih =>
    intro last hs hin hl
    rw [List.pairwise_cons] at hs
    simp only [spliceSpec]
    rw [ih m.stop hs.2 (fun x hx => hin x (List.mem_cons_of_mem _ hx)) hs.1,
      List.append_assoc, take_drop_append_drop hay (hin m List.mem_cons_self),
      take_drop_append_drop hay (hl m List.mem_cons_self)]

/-! ## character boundaries -/

theorem isCharBoundary_zero (hay : List UInt8) : isCharBoundary hay 0 = true := by
  simp [isCharBoundary]

theorem isCharBoundary_length (hay : List UInt8) : isCharBoundary hay hay.length = true := by
  unfold isCharBoundary
  split
  · rfl
  · simp

theorem isCharBoundary_le {hay : List UInt8} {i : Nat} (h : isCharBoundary hay i = true) :
    i ≤ hay.length := by
  unfold isCharBoundary at h
  split at h
  · omega
  · rcases Nat.lt_or_ge i hay.length with hi | hi
    · omega
    · rw [List.getElem?_eq_none hi] at h
      simp at h
      omega

theorem slicesOK_filter (hay : List UInt8) (ms : List Mat) :
    ∀ last, ms.Pairwise (fun a b => a.stop ≤ b.start) → (∀ m ∈ ms, m.start ≤ m.stop) →
      (∀ m ∈ ms, last ≤ m.start) → isCharBoundary hay last = true →
      SlicesOK hay last
        (ms.filter fun m => isCharBoundary hay m.start && isCharBoundary hay m.stop) := by
  induction ms with
  | nil =>
    intro last _ _ _ hb
    exact ⟨hb, isCharBoundary_length hay, isCharBoundary_le hb, Nat.le_refl _⟩
  | cons m ms ih =>
    intro last hs hin hl hb
    rw [List.pairwise_cons] at hs
    have hin' : ∀ x ∈ ms, x.start ≤ x.stop := fun x hx => hin x (List.mem_cons_of_mem _ hx)
    have hm := hin m List.mem_cons_self
    cases hk : (isCharBoundary hay m.start && isCharBoundary hay m.stop) with
    | false =>
      rw [List.filter_cons, if_neg (by simp [hk])]
      refine ih last hs.2 hin' (fun x hx => hl x (List.mem_cons_of_mem _ hx)) hb
    | true =>
      rw [List.filter_cons, if_pos (by simp [hk])]
      rw [Bool.and_eq_true] at hk
      exact ⟨⟨hb, hk.1, hl m List.mem_cons_self, isCharBoundary_le hk.1⟩,
        ⟨hk.1, hk.2, hm, isCharBoundary_le hk.2⟩,
        ih m.stop hs.2 hin' hs.1 hk.2⟩

/-- stopping early keeps every slice fine (the final slice then starts at the
end of the last processed match) -/
theorem slicesOK_take (hay : List UInt8) (l : List Mat) :
    ∀ last n, SlicesOK hay last l → SlicesOK hay last (l.take n) := by
  induction l with
  | nil => intro last n h; simpa using h
  | cons m l ih =>
    intro last n h
    cases n with
    | zero =>
      exact ⟨h.1.1, isCharBoundary_length hay, isCharBoundary_le h.1.1, Nat.le_refl _⟩
    | succ n => exact ⟨h.1, h.2.1, ih m.stop n h.2.2⟩

end MiscP
end AcVerif
