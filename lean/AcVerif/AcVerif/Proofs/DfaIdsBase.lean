import AcVerif.DfaIds
import AcVerif.Proofs.ContigSim
import AcVerif.Proofs.DfaBothSim
/-!
# L1d-ids proofs, part 1: stride, the flat table, the match table, flags by shuffled position
-/
namespace AcVerif.L1dIdsP
open AcVerif AcVerif.CNfa AcVerif.L1cP AcVerif.L1dP AcVerif.L1eP

/-! ## `stride2` -/

theorem stride2Of_spec {a : Nat} (h : a ≤ 256) : a ≤ 2 ^ stride2Of a := by
  unfold stride2Of
  cases hf : (List.range 9).find? fun k => decide (a ≤ 2 ^ k) with
  | none => simpa using h
  | some k =>
    have := List.find?_some hf
    simpa using this

/-- the stride exponent of the DFA built from `N` -/
def s2Of (N : CNfa) (bc : Bool) : Nat := stride2Of (ncOf N bc)

/-- the stride -/
def strideOf (N : CNfa) (bc : Bool) : Nat := 2 ^ s2Of N bc

theorem nc_le_stride (N : CNfa) (bc : Bool) : ncOf N bc ≤ strideOf N bc :=
  stride2Of_spec (ncOf_le N bc)

theorem stride_pos (N : CNfa) (bc : Bool) : 0 < strideOf N bc := Nat.two_pow_pos _

theorem cls_lt_stride (N : CNfa) (bc : Bool) (b : UInt8) : clsOf N bc b < strideOf N bc :=
  Nat.lt_of_lt_of_le ((classOK_clsOf N bc).lt b) (nc_le_stride N bc)

theorem shl_eq (i : Nat) (N : CNfa) (bc : Bool) : i <<< s2Of N bc = i * strideOf N bc :=
  Nat.shiftLeft_eq _ _

theorem shr_mul (i : Nat) (N : CNfa) (bc : Bool) : (i * strideOf N bc) >>> s2Of N bc = i := by
  rw [Nat.shiftRight_eq_div_pow]
  exact Nat.mul_div_cancel _ (stride_pos N bc)

/-! ## the flat table and the match table -/

theorem flatTable_size (rows : Array (Array Nat)) (sl s2 : Nat) :
    (flatTable rows sl s2).size = sl * 2 ^ s2 := by
  simp [flatTable, Nat.shiftLeft_eq]

theorem flatTable_getD (rows : Array (Array Nat)) (sl s2 : Nat) {i c : Nat} (hi : i < sl)
    (hc : c < 2 ^ s2) :
    (flatTable rows sl s2).getD (i * 2 ^ s2 + c) 0 = (rows.getD i #[]).getD c 0 := by
  have hlt : i * 2 ^ s2 + c < sl * 2 ^ s2 := by
    have : (i + 1) * 2 ^ s2 ≤ sl * 2 ^ s2 := Nat.mul_le_mul_right _ hi
    rw [Nat.add_mul, Nat.one_mul] at this
    omega
  unfold flatTable
  have hsl : sl <<< s2 = sl * 2 ^ s2 := Nat.shiftLeft_eq _ _
  have h1 : 1 <<< s2 = 2 ^ s2 := Nat.one_shiftLeft _
  rw [hsl, h1, getD_map_range _ _ _ _ hlt]
  have hpos : 0 < 2 ^ s2 := Nat.two_pow_pos _
  have e1 : (i * 2 ^ s2 + c) / 2 ^ s2 = i := by
    rw [Nat.mul_comm, Nat.mul_add_div hpos, Nat.div_eq_of_lt hc, Nat.add_zero]
  have e2 : (i * 2 ^ s2 + c) % 2 ^ s2 = c := by
    rw [Nat.mul_comm, Nat.mul_add_mod, Nat.mod_eq_of_lt hc]
  rw [e1, e2]

theorem flatTable_lt (sl s2 : Nat) {i c : Nat} (hi : i < sl) (hc : c < 2 ^ s2) :
    i * 2 ^ s2 + c < sl * 2 ^ s2 := by
  have : (i + 1) * 2 ^ s2 ≤ sl * 2 ^ s2 := Nat.mul_le_mul_right _ hi
  rw [Nat.add_mul, Nat.one_mul] at this
  omega

theorem matchTable_size (ms : Array (List Nat)) (num : Nat) : (matchTable ms num).size = num := by
  simp [matchTable]

theorem matchTable_getD (ms : Array (List Nat)) (num : Nat) {j : Nat} (h : j < num) :
    (matchTable ms num).getD j [] = ms.getD (j + 2) [] := by
  unfold matchTable
  rw [getD_map_range _ _ _ _ h]

/-! ## flags by shuffled position -/

section
variable {n : CNfa} (hS : ShufOK n)
include hS

theorem posOf_zero_iff {s : Nat} (hs : s < n.size) : posOf n s = 0 ↔ s = 0 := by
  have h4 := hS.na_ge
  have h5 := hS.na_le
  constructor
  · intro e
    have : posOf n s = posOf n 0 := by rw [e]; exact hS.pos0.symm
    exact posOf_inj hS hs (by omega) this
  · intro e; subst e; exact hS.pos0

/-- `is_match` by position range -/
theorem posFlag_match (hm : CNfa.isMatch n SU = CNfa.isMatch n SA) {s : Nat} (hs : s < n.size)
    (h1 : s ≠ 1) :
    (posOf n s ≠ 0 ∧ posOf n s ≤ nfaMaxMatch n (cNa n)) ↔ (s ≠ 0 ∧ CNfa.isMatch n s = true) := by
  have h4 := hS.na_ge
  have h5 := hS.na_le
  obtain ⟨p1, p2, p3, p4, p5, p6, p7⟩ := pos_class hS hs h1
  have hz := posOf_zero_iff hS hs
  have hsu : SU = 2 := rfl
  have hsa : SA = 3 := rfl
  rw [hsu, hsa] at hm
  unfold nfaMaxMatch
  rw [hsa]
  by_cases e0 : s = 0
  · have := hz.2 e0
    constructor
    · intro h; exact absurd this h.1
    · intro h; exact absurd e0 h.1
  have hp0 : posOf n s ≠ 0 := fun e => e0 (hz.1 e)
  by_cases e2 : s = 2
  · subst e2
    have := p4 rfl
    cases hA : CNfa.isMatch n 3
    · rw [hA] at hm
      simp only [Bool.false_eq_true, if_false, hm, and_false, iff_false, not_and]
      intro _; omega
    · rw [hA] at hm
      simp only [if_true, hm, and_true]
      constructor
      · intro _; exact e0
      · intro _; exact ⟨hp0, by omega⟩
  by_cases e3 : s = 3
  · subst e3
    have := p5 rfl
    cases hA : CNfa.isMatch n 3
    · simp only [Bool.false_eq_true, if_false, and_false, iff_false, not_and]
      intro _; omega
    · simp only [if_true, and_true]
      constructor
      · intro _; exact e0
      · intro _; exact ⟨hp0, by omega⟩
  have hs4 : 4 ≤ s := by omega
  cases hms : CNfa.isMatch n s
  · have := p7 hs4 hms
    simp only [Bool.false_eq_true, and_false, iff_false, not_and]
    intro _
    split <;> omega
  · have := p6 hs4 hms
    simp only [and_true]
    constructor
    · intro _; exact e0
    · intro _
      refine ⟨hp0, ?_⟩
      split <;> omega

/-- `is_special` by position range -/
theorem posFlag_special (hasPre : Bool) (hm : CNfa.isMatch n SU = CNfa.isMatch n SA) {s : Nat}
    (hs : s < n.size) (h1 : s ≠ 1) :
    posOf n s ≤ nfaMaxSpecial n (cNa n) hasPre ↔
      (s = 0 ∨ CNfa.isMatch n s = true ∨ (hasPre = true ∧ (s = 2 ∨ s = 3))) := by
  have h4 := hS.na_ge
  have h5 := hS.na_le
  have hfm := posFlag_match hS hm hs h1
  have hz := posOf_zero_iff hS hs
  unfold nfaMaxSpecial
  cases hasPre
  · simp only [Bool.false_eq_true, if_false, false_and, or_false]
    constructor
    · intro hle
      by_cases e0 : s = 0
      · exact Or.inl e0
      · exact Or.inr (hfm.1 ⟨fun e => e0 (hz.1 e), hle⟩).2
    · rintro (e0 | hms)
      · rw [hz.2 e0]; exact Nat.zero_le _
      · by_cases e0 : s = 0
        · rw [hz.2 e0]; exact Nat.zero_le _
        · exact (hfm.2 ⟨e0, hms⟩).2
  · simp only [if_true, true_and]
    obtain ⟨p1, p2, p3, p4, p5, p6, p7⟩ := pos_class hS hs h1
    constructor
    · intro hle
      by_cases e0 : s = 0
      · exact Or.inl e0
      · by_cases es : s = 2
        · exact Or.inr (Or.inr (Or.inl es))
        · by_cases es3 : s = 3
          · exact Or.inr (Or.inr (Or.inr es3))
          · cases hms : CNfa.isMatch n s
            · have := p7 (by omega) hms; omega
            · exact Or.inr (Or.inl rfl)
    · rintro (e0 | hms | es | es)
      · have := p3 e0; omega
      · by_cases e0 : s = 0
        · have := p3 e0; omega
        · by_cases es : s = 2
          · have := p4 es; omega
          · by_cases es3 : s = 3
            · have := p5 es3; omega
            · have := p6 (by omega) hms; omega
      · have := p4 es; omega
      · have := p5 es; omega

/-- a state at a position `≤ max_match_id` (other than dead / fail) is a match state -/
theorem nfaMaxMatch_ge_one : 1 ≤ nfaMaxMatch n (cNa n) := by
  have h4 := hS.na_ge
  unfold nfaMaxMatch
  split <;> omega

theorem nfaMaxMatch_lt : nfaMaxMatch n (cNa n) < cNa n := by
  have h4 := hS.na_ge
  unfold nfaMaxMatch
  split <;> omega

theorem nfaMaxSpecial_lt (hasPre : Bool) : nfaMaxSpecial n (cNa n) hasPre < cNa n := by
  have h4 := hS.na_ge
  have := nfaMaxMatch_lt hS
  unfold nfaMaxSpecial
  split <;> omega

end

/-! ## observations of the NFA in propositional form -/

theorem mats_eq_nil_of_not_match {N : CNfa} {s : Nat} (h : CNfa.isMatch N s = false) :
    (N.getD s {}).matches_ = [] := by
  unfold CNfa.isMatch at h
  cases hms : (N.getD s {}).matches_ with
  | nil => rfl
  | cons a l => rw [hms] at h; simp at h

theorem mats_ne_nil_of_match {N : CNfa} {s : Nat} (h : CNfa.isMatch N s = true) :
    (N.getD s {}).matches_ ≠ [] := by
  unfold CNfa.isMatch at h
  intro e; rw [e] at h; simp at h

end AcVerif.L1dIdsP
