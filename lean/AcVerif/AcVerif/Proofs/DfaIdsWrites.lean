import AcVerif.Proofs.DfaIdsAll
/-!
# L1d-ids proofs, part 7: `set_matches` never panics

`DFA::set_matches` computes `(sid >> stride2).checked_sub(2).unwrap()` and indexes `matches` with
it.  Every match state of the shuffled NFA sits at a position `2 ≤ i ≤ max_match_id`, so the DFA
indices it gets are `≥ 2` and `< num_match_states + 2`.
-/
namespace AcVerif.L1dIdsP
open AcVerif AcVerif.CNfa AcVerif.L1cP AcVerif.L1dP AcVerif.L1eP

/-- the `FAIL` state of the compiled NFA is as allocated: no transitions, no matches -/
theorem compile_getD_fail (k : MatchKind) (P : List (List UInt8)) :
    (compile k false P).getD 1 {} = { fail := SU } := by
  obtain ⟨L, hT⟩ := buildTrie_spec k P
  have hB := PB_startPhase hT
  obtain ⟨pend, hF, _⟩ := fillFailure_spec (k := k) hB
  have h4 : 4 ≤ (buildTrie k false P).size := by rw [hT.size]; omega
  have e1 : (fillFailure k false (startPhase (buildTrie k false P))).getD 1 {} = { fail := SU } := by
    rw [hF.keep 1 (by omega), getD_startPhase _ h4, if_neg (by simp [SU]), if_neg (by simp [SA]),
      hT.s1]
  rw [compile_eq, closeStartLoop_eq]
  split
  · rw [getD_closeSU _ (by rw [hF.size, hB.size]; simp [SU]) 1, if_neg (by simp [SU])]
    exact e1
  · exact e1

theorem compile_isMatch_fail (k : MatchKind) (P : List (List UInt8)) :
    CNfa.isMatch (compile k false P) 1 = false := by
  rw [isMatch_eq, compile_getD_fail]; rfl

/-- a match state of the shuffled NFA sits at a position in `2 ..= max_match_id` -/
theorem match_pos_range (k : MatchKind) (P : List (List UInt8)) {i : Nat}
    (hi : i < (compile k false P).size)
    (hm : CNfa.isMatch (compile k false P) ((cOrder (compile k false P)).getD i 0) = true) :
    2 ≤ i ∧ i ≤ nfaMaxMatch (compile k false P) (cNa (compile k false P)) := by
  obtain ⟨L, hFS⟩ := compile_spec k P
  have hS := shufOK _ hFS.four_le_size
  have hs := hS.order_lt i hi
  have hp : posOf (compile k false P) ((cOrder (compile k false P)).getD i 0) = i := hS.pos_order i hi
  have h1 : (cOrder (compile k false P)).getD i 0 ≠ 1 := by
    intro e
    rw [e, compile_isMatch_fail] at hm
    cases hm
  have h0 : (cOrder (compile k false P)).getD i 0 ≠ 0 := by
    intro e
    rw [e] at hm
    have := FS_isMatch_dead hFS
    rw [show DEAD = 0 from rfl] at this
    rw [this] at hm
    cases hm
  have := (posFlag_match hS (FS_isMatch_SU_SA hFS) hs h1).2 ⟨h0, hm⟩
  have hp1 := posOf_ne_one hS hs h1
  rw [hp] at this hp1
  omega

end AcVerif.L1dIdsP
