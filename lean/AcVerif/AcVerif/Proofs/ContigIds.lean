import AcVerif.Proofs.ContigLayout
/-!
# L1e proofs, part 4: the new ids

`newId s` is the offset of the position of `s`; `FAIL` keeps its number (the sentinel of dense
rows), no state gets the number 1, the dead state gets 0; the words at `newId s` are
`State::write` of `s`; the id ranges `≤ maxMatchId`, `≤ maxSpecialId` are the flags.
-/
namespace AcVerif.L1eP
open AcVerif AcVerif.CNfa AcVerif.L1cP AcVerif.L1dP

section
variable {n : CNfa} (hS : ShufOK n) (dd : Nat) (bc : Bool)

/-- shuffled position of an old id -/
def posOf (n : CNfa) (s : Nat) : Nat := (cPos n).getD s 0

/-- `State::write` of the old state `s` -/
def wOf (n : CNfa) (dd : Nat) (bc : Bool) (s : Nat) : List Nat :=
  writeState (clsOf n bc) (ncOf n bc) (n.getD s {}) (cNewId n dd bc)
    (decide ((storedDepths n).getD s 0 < dd))

include hS

theorem posOf_ne_one {s : Nat} (hs : s < n.size) (h1 : s ≠ 1) : posOf n s ≠ 1 := by
  intro e
  have h4 := hS.na_ge
  have h5 := hS.na_le
  have a := hS.order_pos s hs
  have b := hS.order_pos 1 (by omega)
  rw [hS.pos1] at b
  unfold posOf at e
  rw [e, b] at a
  exact h1 a.symm

theorem posOf_inj {s t : Nat} (hs : s < n.size) (ht : t < n.size) (e : posOf n s = posOf n t) :
    s = t := by
  have a := hS.order_pos s hs
  have b := hS.order_pos t ht
  unfold posOf at e
  rw [e, b] at a
  exact a.symm

theorem cNewId_eq {s : Nat} (hs : s < n.size) (h1 : s ≠ 1) :
    cNewId n dd bc s = offAt n dd bc (posOf n s) := by
  have := posOf_ne_one hS hs h1
  unfold cNewId
  unfold posOf at this ⊢
  rw [cOffsets_getD n dd bc (hS.pos_lt s hs), if_neg this]

theorem cNewId_fail : cNewId n dd bc 1 = 1 := by
  have h4 := hS.na_ge
  have h5 := hS.na_le
  unfold cNewId
  rw [hS.pos1, cOffsets_getD n dd bc (by omega), if_pos rfl]

theorem cNewId_dead : cNewId n dd bc 0 = 0 := by
  have h4 := hS.na_ge
  have h5 := hS.na_le
  rw [cNewId_eq hS dd bc (by omega) (by omega)]
  unfold posOf
  rw [hS.pos0]; rfl

theorem cNewId_big {s : Nat} (hs : n.size ≤ s) : cNewId n dd bc s = 0 := by
  have h4 := hS.na_ge
  have h5 := hS.na_le
  unfold cNewId
  have : (cPos n).getD s 0 = 0 := by
    simp [Array.getD_eq_getD_getElem?, hS.size_pos, hs]
  rw [this, cOffsets_getD n dd bc (by omega), if_neg (by omega)]
  rfl

theorem cNewId_zero_iff {s : Nat} (hs : s < n.size) (h1 : s ≠ 1) :
    cNewId n dd bc s = 0 ↔ s = 0 := by
  constructor
  · intro e
    rw [cNewId_eq hS dd bc hs h1] at e
    by_cases e0 : posOf n s = 0
    · have h4 := hS.na_ge
      have h5 := hS.na_le
      apply posOf_inj hS hs (by omega)
      rw [e0]; unfold posOf; rw [hS.pos0]
    · have := offAt_lt n dd bc (show 0 < posOf n s by omega) (by omega)
      omega
  · intro e; subst e; exact cNewId_dead hS dd bc

/-- no state has offset 1 (`FAIL` is the "no transition" sentinel of dense rows) -/
theorem cNewId_ne_one {s : Nat} (h1 : s ≠ 1) : cNewId n dd bc s ≠ 1 := by
  by_cases hs : s < n.size
  · rw [cNewId_eq hS dd bc hs h1]
    by_cases e0 : posOf n s = 0
    · rw [e0]; show (0 : Nat) ≠ 1; omega
    · have := offAt_lt n dd bc (show 0 < posOf n s by omega) (by omega)
      omega
  · rw [cNewId_big hS dd bc (by omega)]; omega

theorem cW_posOf (f : Nat → Nat) {s : Nat} (hs : s < n.size) :
    cW n dd bc f (posOf n s) =
      writeState (clsOf n bc) (ncOf n bc) (n.getD s {}) f (decide ((storedDepths n).getD s 0 < dd)) := by
  unfold cW posOf
  rw [hS.order_pos s hs]

/-- the words at `newId s` are `State::write` of `s` -/
theorem slice_state {s : Nat} (hs : s < n.size) (h1 : s ≠ 1) {j : Nat}
    (hj : j < (wOf n dd bc s).length) :
    (cRepr n dd bc).getD (cNewId n dd bc s + j) 0 = (wOf n dd bc s).getD j 0 := by
  rw [cNewId_eq hS dd bc hs h1]
  have e := cW_posOf hS dd bc (cNewId n dd bc) hs
  have := cRepr_slice n dd bc (i := posOf n s) (hS.pos_lt s hs) (posOf_ne_one hS hs h1) (j := j)
    (by rw [e]; exact hj)
  rw [e] at this
  exact this

/-- order of the new ids = order of the positions -/
theorem cNewId_le_iff {s t : Nat} (hs : s < n.size) (h1 : s ≠ 1) (ht : t < n.size) (h1' : t ≠ 1) :
    cNewId n dd bc s ≤ cNewId n dd bc t ↔ posOf n s ≤ posOf n t := by
  rw [cNewId_eq hS dd bc hs h1, cNewId_eq hS dd bc ht h1']
  exact offAt_le_iff n dd bc (posOf_ne_one hS hs h1) (posOf_ne_one hS ht h1')

end

end AcVerif.L1eP
