import AcVerif.Proofs.NfaMemInv
/-!
# L1c-mem proofs, part 2: writes to the transition lists
(`add_transition`, `init_full_state`, in-place rewriting of `next`)
-/
namespace AcVerif.MemP
open AcVerif MemNfa
open AcVerif.L1cP (lookup lookup_cons lookup_nil Sorted)

/-! ## writes that keep every `link` and `byte` -/

theorem MemOKW.congr_tr {m m' : MemNfa} {tc mc : Nat → List Nat} (h : MemOKW m tc mc)
    (hst : m'.states = m.states) (hmt : m'.matches_ = m.matches_)
    (hsz : m'.sparse.size = m.sparse.size)
    (hl : ∀ i, (m'.tr i).link = (m.tr i).link) (hb : ∀ i, (m'.tr i).byte = (m.tr i).byte)
    (h0 : m'.tr 0 = {}) : MemOKW m' tc mc := by
  have hst' : ∀ s, m'.st s = m.st s := fun s => by simp [MemNfa.st, hst]
  have hmt' : ∀ i, m'.mt i = m.mt i := fun s => by simp [MemNfa.mt, hmt]
  have hml : mlink m' = mlink m := funext fun i => by simp [mlink, hmt']
  have htl : tlink m' = tlink m := funext fun i => hl i
  exact {
    tpos := hsz ▸ h.tpos
    mpos := hmt ▸ h.mpos
    tsent := h0
    msent := by rw [hmt']; exact h.msent
    tchain := fun s => by rw [htl, hst']; exact h.tchain s
    tlt := fun s i hi => hsz ▸ h.tlt s i hi
    tsorted := fun s => by simpa only [hb] using h.tsorted s
    tdisj := h.tdisj
    mchain := fun s => by rw [hml, hst']; exact h.mchain s
    mlt := fun s i hi => hmt ▸ h.mlt s i hi
    mnodup := h.mnodup
    mdisj := h.mdisj }

/-- `self.sparse[c].next = t` -/
def setNext (m : MemNfa) (c t : Nat) : MemNfa := m.setTr c { m.tr c with next := t }

theorem tr_setNext (m : MemNfa) {c : Nat} (hc : c < m.sparse.size) (t j : Nat) :
    (setNext m c t).tr j = if j = c then { m.tr c with next := t } else m.tr j := by
  unfold setNext
  rw [tr_setTr]
  by_cases hj : j = c
  · simp [hj, hc]
  · simp [hj]

theorem setNext_okw {m : MemNfa} {tc mc : Nat → List Nat} (h : MemOKW m tc mc) {c : Nat}
    (hc : c < m.sparse.size) (hc0 : c ≠ 0) (t : Nat) : MemOKW (setNext m c t) tc mc := by
  refine h.congr_tr rfl rfl (sparse_size_setTr _ _ _) ?_ ?_ ?_
  · intro i; rw [tr_setNext m hc]; split
    · rename_i e; rw [e]
    · rfl
  · intro i; rw [tr_setNext m hc]; split
    · rename_i e; rw [e]
    · rfl
  · rw [tr_setNext m hc, if_neg (Ne.symm hc0)]; exact h.tsent

theorem kv_setNext (m : MemNfa) {c : Nat} (hc : c < m.sparse.size) (t j : Nat) :
    kv (setNext m c t) j = if j = c then ((m.tr c).byte, t) else kv m j := by
  unfold kv
  rw [tr_setNext m hc]
  split <;> rfl

/-! ## splicing a fresh cell into a transition list -/

/-- allocate a cell `(b, t)` with link `ln` and hook it behind `lp` (behind the list head of
`prev` when `lp = 0`): lines 395-397 (`lp = 0`), 415-417 and 452-460 -/
def insCell (m : MemNfa) (prev lp ln : Nat) (b : UInt8) (t : Nat) : MemNfa :=
  let m1 := m.allocTransition.1.setTr m.sparse.size { byte := b, next := t, link := ln }
  if lp = 0 then m1.setSt prev { m1.st prev with sparse := m.sparse.size }
  else m1.setTr lp { m1.tr lp with link := m.sparse.size }

theorem sparse_size_insCell (m : MemNfa) (prev lp ln : Nat) (b : UInt8) (t : Nat) :
    (insCell m prev lp ln b t).sparse.size = m.sparse.size + 1 := by
  unfold insCell; split <;> simp

theorem matches_insCell (m : MemNfa) (prev lp ln : Nat) (b : UInt8) (t : Nat) :
    (insCell m prev lp ln b t).matches_ = m.matches_ := by
  unfold insCell; split <;> simp

theorem states_size_insCell (m : MemNfa) (prev lp ln : Nat) (b : UInt8) (t : Nat) :
    (insCell m prev lp ln b t).states.size = m.states.size := by
  unfold insCell; split <;> simp

theorem tr_insCell (m : MemNfa) (prev : Nat) {lp : Nat} (hlp : lp < m.sparse.size) (ln : Nat)
    (b : UInt8) (t j : Nat) :
    (insCell m prev lp ln b t).tr j =
      if j = m.sparse.size then { byte := b, next := t, link := ln }
      else if j = lp ∧ lp ≠ 0 then { m.tr lp with link := m.sparse.size } else m.tr j := by
  unfold insCell
  by_cases h0 : lp = 0
  · simp only [if_pos h0, tr_setSt, tr_setTr, sparse_size_allocTransition, tr_allocTransition]
    by_cases hj : j = m.sparse.size
    · simp [hj]
    · simp [hj, h0]
  · simp only [if_neg h0, tr_setTr, sparse_size_setTr, sparse_size_allocTransition,
      tr_allocTransition]
    have hne : lp ≠ m.sparse.size := by omega
    by_cases hj : j = m.sparse.size
    · have : ¬ j = lp := by omega
      simp [hj, Ne.symm hne]
    · by_cases hjl : j = lp
      · subst hjl
        have : j < m.sparse.size + 1 := by omega
        simp [hj, h0, this]
      · simp [hj, hjl]

theorem st_insCell (m : MemNfa) {prev : Nat} (hp : prev < m.states.size) (lp ln : Nat)
    (b : UInt8) (t s : Nat) :
    (insCell m prev lp ln b t).st s =
      if s = prev ∧ lp = 0 then { m.st prev with sparse := m.sparse.size } else m.st s := by
  unfold insCell
  by_cases h0 : lp = 0
  · simp only [if_pos h0, st_setSt, st_setTr, st_allocTransition, states_setTr,
      states_allocTransition]
    by_cases hs : s = prev
    · simp [hs, hp, h0]
    · simp [hs]
  · simp [h0]

theorem mt_insCell (m : MemNfa) (prev lp ln : Nat) (b : UInt8) (t j : Nat) :
    (insCell m prev lp ln b t).mt j = m.mt j := by
  simp [MemNfa.mt, matches_insCell]

theorem getLast?_getD_eq_zero {l : List Nat} (h0 : ∀ i ∈ l, i ≠ 0) :
    l.getLast?.getD 0 = 0 ↔ l = [] := by
  constructor
  · intro h
    cases hl : l.getLast? with
    | none => exact List.getLast?_eq_none_iff.1 hl
    | some p =>
      rw [hl] at h
      exact absurd h (h0 p (List.mem_of_getLast? hl))
  · intro h; subst h; rfl

theorem headD_eq_zero {l : List Nat} (h0 : ∀ i ∈ l, i ≠ 0) : l.headD 0 = 0 ↔ l = [] := by
  cases l with
  | nil => simp
  | cons a as => simpa using h0 a List.mem_cons_self

theorem insCell_okw {m : MemNfa} {tc mc : Nat → List Nat} (h : MemOKW m tc mc) {prev : Nat}
    (hp : prev < m.states.size) {pre suf : List Nat} (hsplit : tc prev = pre ++ suf)
    {b : UInt8} (t : Nat) (hpre : ∀ i ∈ pre, (m.tr i).byte < b)
    (hsuf : ∀ i ∈ suf, b < (m.tr i).byte) :
    MemOKW (insCell m prev (pre.getLast?.getD 0) (suf.headD 0) b t)
      (upd tc prev (pre ++ m.sparse.size :: suf)) mc := by
  -- abbreviations
  have hne0 : ∀ i ∈ pre ++ suf, i ≠ 0 := hsplit ▸ h.tne0 prev
  have hltc : ∀ i ∈ pre ++ suf, i < m.sparse.size := hsplit ▸ h.tlt prev
  have hnd : (pre ++ suf).Nodup := hsplit ▸ h.tnodup prev
  have hlp : pre.getLast?.getD 0 < m.sparse.size := by
    cases hl : pre.getLast? with
    | none => exact h.tpos
    | some p => exact hltc p (List.mem_append_left _ (List.mem_of_getLast? hl))
  have hlp0 : pre.getLast?.getD 0 = 0 ↔ pre = [] :=
    getLast?_getD_eq_zero fun i hi => hne0 i (List.mem_append_left _ hi)
  generalize hm' : insCell m prev (pre.getLast?.getD 0) (suf.headD 0) b t = m'
  have htr : ∀ j, m'.tr j =
      if j = m.sparse.size then { byte := b, next := t, link := suf.headD 0 }
      else if j = pre.getLast?.getD 0 ∧ pre.getLast?.getD 0 ≠ 0
        then { m.tr (pre.getLast?.getD 0) with link := m.sparse.size } else m.tr j :=
    fun j => hm' ▸ tr_insCell m prev hlp _ b t j
  have hst : ∀ s, m'.st s =
      if s = prev ∧ pre.getLast?.getD 0 = 0 then { m.st prev with sparse := m.sparse.size }
      else m.st s := fun s => hm' ▸ st_insCell m hp _ _ b t s
  have hmt : ∀ j, m'.mt j = m.mt j := fun j => hm' ▸ mt_insCell m prev _ _ b t j
  have hsz : m'.sparse.size = m.sparse.size + 1 := hm' ▸ sparse_size_insCell ..
  have hmsz : m'.matches_ = m.matches_ := hm' ▸ matches_insCell ..
  -- old cells keep their byte; cells other than the last of `pre` keep their link
  have hbyte : ∀ j, j < m.sparse.size → (m'.tr j).byte = (m.tr j).byte := by
    intro j hj
    rw [htr, if_neg (by omega)]
    split
    · rename_i e; rw [e.1]
    · rfl
  have hlink : ∀ j, j < m.sparse.size → pre.getLast? ≠ some j → tlink m' j = tlink m j := by
    intro j hj hne
    unfold tlink
    rw [htr, if_neg (by omega)]
    split
    · rename_i e
      exfalso
      cases hl : pre.getLast? with
      | none => rw [hl] at e; exact e.2 rfl
      | some p => rw [hl] at e hne; exact hne (by rw [e.1]; rfl)
    · rfl
  have hmsorted : ∀ _s : Nat, ∀ l : List Nat, (∀ i ∈ l, i < m.sparse.size) →
      (l.Pairwise fun i j => (m.tr i).byte < (m.tr j).byte) →
      l.Pairwise fun i j => (m'.tr i).byte < (m'.tr j).byte := by
    intro _ l hl hs
    refine hs.imp_of_mem ?_
    intro a c ha hc hac
    rw [hbyte a (hl a ha), hbyte c (hl c hc)]; exact hac
  have hml : mlink m' = mlink m := funext fun i => by simp [mlink, hmt]
  have hstm : ∀ s, (m'.st s).matches_ = (m.st s).matches_ := by
    intro s; rw [hst]; split
    · rename_i e; rw [e.1]
    · rfl
  have hnew : m.sparse.size ∉ pre ++ suf := fun hm => Nat.lt_irrefl _ (hltc _ hm)
  exact {
    tpos := by omega
    mpos := hmsz ▸ h.mpos
    tsent := by
      rw [htr, if_neg (by have := h.tpos; omega), if_neg (fun e => e.2 e.1.symm)]
      exact h.tsent
    msent := by rw [hmt]; exact h.msent
    tchain := by
      intro s
      by_cases hs : s = prev
      · subst hs
        rw [upd_self]
        have hhead : (m'.st s).sparse = if pre = [] then m.sparse.size else (m.st s).sparse := by
          rw [hst]
          by_cases hpn : pre = []
          · rw [if_pos ⟨rfl, hlp0.2 hpn⟩, if_pos hpn]
          · rw [if_neg (fun e => hpn (hlp0.1 e.2)), if_neg hpn]
        rw [hhead]
        refine IsChain.insert (hsplit ▸ h.tchain s) hnd (by have := h.tpos; omega) hnew ?_ ?_ ?_
        · show (m'.tr _).link = _
          rw [htr, if_pos rfl]
        · intro p hp'
          have hpm : p ∈ pre ++ suf := List.mem_append_left _ (List.mem_of_getLast? hp')
          show (m'.tr p).link = _
          rw [htr, if_neg (by have := hltc p hpm; omega), hp']
          simp [hne0 p hpm]
        · intro i hi hne
          exact hlink i (hltc i hi) hne
      · rw [upd_ne _ _ hs]
        have : m'.st s = m.st s := by rw [hst, if_neg (fun e => hs e.1)]
        rw [this]
        refine (h.tchain s).congr ?_
        intro i hi
        refine hlink i (h.tlt s i hi) ?_
        intro e
        have : i ∈ tc prev := hsplit ▸ List.mem_append_left _ (List.mem_of_getLast? e)
        exact h.tdisj s prev hs i hi this
    tlt := by
      intro s i hi
      by_cases hs : s = prev
      · subst hs
        rw [upd_self] at hi
        rw [hsz]
        rcases List.mem_append.1 hi with e | e
        · exact Nat.lt_succ_of_lt (hltc i (List.mem_append_left _ e))
        · rcases List.mem_cons.1 e with e | e
          · omega
          · exact Nat.lt_succ_of_lt (hltc i (List.mem_append_right _ e))
      · rw [upd_ne _ _ hs] at hi
        rw [hsz]; exact Nat.lt_succ_of_lt (h.tlt s i hi)
    tsorted := by
      intro s
      by_cases hs : s = prev
      · subst hs
        rw [upd_self]
        have hold := hmsorted s _ hltc (hsplit ▸ h.tsorted s)
        have hold' := List.pairwise_append.1 hold
        have hbn : (m'.tr m.sparse.size).byte = b := by rw [htr, if_pos rfl]
        refine List.pairwise_append.2 ⟨hold'.1, List.pairwise_cons.2 ⟨?_, hold'.2.1⟩, ?_⟩
        · intro j hj
          rw [hbn, hbyte j (hltc j (List.mem_append_right _ hj))]
          exact hsuf j hj
        · intro i hi j hj
          rcases List.mem_cons.1 hj with e | e
          · rw [e, hbn, hbyte i (hltc i (List.mem_append_left _ hi))]
            exact hpre i hi
          · exact hold'.2.2 i hi j e
      · rw [upd_ne _ _ hs]
        exact hmsorted s _ (h.tlt s) (h.tsorted s)
    tdisj := by
      intro s s' hss i hi hi'
      have key : ∀ x, x ∈ pre ++ m.sparse.size :: suf → x ∈ tc prev ∨ x = m.sparse.size := by
        intro x hx
        rcases List.mem_append.1 hx with e | e
        · exact Or.inl (hsplit ▸ List.mem_append_left _ e)
        · rcases List.mem_cons.1 e with e | e
          · exact Or.inr e
          · exact Or.inl (hsplit ▸ List.mem_append_right _ e)
      by_cases hs : s = prev
      · subst hs
        rw [upd_self] at hi
        rw [upd_ne _ _ (Ne.symm hss)] at hi'
        rcases key i hi with e | e
        · exact h.tdisj s s' hss i e hi'
        · have := h.tlt s' i hi'; omega
      · rw [upd_ne _ _ hs] at hi
        by_cases hs' : s' = prev
        · subst hs'
          rw [upd_self] at hi'
          rcases key i hi' with e | e
          · exact h.tdisj s s' hss i hi e
          · have := h.tlt s i hi; omega
        · rw [upd_ne _ _ hs'] at hi'
          exact h.tdisj s s' hss i hi hi'
    mchain := fun s => by rw [hml, hstm]; exact h.mchain s
    mlt := fun s i hi => hmsz ▸ h.mlt s i hi
    mnodup := h.mnodup
    mdisj := h.mdisj }

/-- what the old cells yield is unchanged by `insCell` -/
theorem kv_insCell_old (m : MemNfa) (prev : Nat) {lp : Nat} (hlp : lp < m.sparse.size) (ln : Nat)
    (b : UInt8) (t : Nat) {j : Nat} (hj : j < m.sparse.size) :
    kv (insCell m prev lp ln b t) j = kv m j := by
  unfold kv
  rw [tr_insCell m prev hlp, if_neg (by omega)]
  split
  · rename_i e; rw [e.1]
  · rfl

theorem kv_insCell_new (m : MemNfa) (prev : Nat) {lp : Nat} (hlp : lp < m.sparse.size) (ln : Nat)
    (b : UInt8) (t : Nat) : kv (insCell m prev lp ln b t) m.sparse.size = (b, t) := by
  unfold kv
  rw [tr_insCell m prev hlp, if_pos rfl]

/-! ## `add_transition` -/

theorem getLast?_cons_getD (i : Nat) (pre : List Nat) (d : Nat) :
    (i :: pre).getLast?.getD d = pre.getLast?.getD i := by
  cases pre with
  | nil => rfl
  | cons a as =>
    rw [List.getLast?_cons_cons]
    cases h : (a :: as).getLast? with
    | none => exact absurd (List.getLast?_eq_none_iff.1 h) (List.cons_ne_nil _ _)
    | some x => rfl

/-- the insertion-point walk (lines 408-413) passes exactly the cells with a smaller byte -/
theorem addTransWalk_spec (m : MemNfa) (b : UInt8) {ln : Nat} {rest : List Nat}
    (hc : IsChain (tlink m) ln rest) {fuel : Nat} (hf : rest.length ≤ fuel) (lp : Nat) :
    ∃ pre suf, rest = pre ++ suf ∧ (∀ i ∈ pre, (m.tr i).byte < b) ∧
      (∀ j, suf.head? = some j → ¬ (m.tr j).byte < b) ∧
      addTransWalk m b fuel lp ln = (pre.getLast?.getD lp, suf.headD 0) := by
  induction rest generalizing ln lp fuel with
  | nil =>
    have : ln = 0 := hc
    subst this
    refine ⟨[], [], rfl, (fun _ hi => nomatch hi), (fun _ hj => nomatch hj), ?_⟩
    cases fuel <;> simp [addTransWalk]
  | cons i is ih =>
    obtain ⟨e, hi0, hrest⟩ := hc
    subst e
    cases fuel with
    | zero => simp at hf
    | succ f =>
      by_cases hlt : (m.tr ln).byte < b
      · obtain ⟨pre, suf, hsp, hpre, hsuf, hw⟩ := ih hrest (by simpa using hf) ln
        refine ⟨ln :: pre, suf, by rw [hsp]; rfl, ?_, hsuf, ?_⟩
        · intro j hj
          rcases List.mem_cons.1 hj with e | e
          · rw [e]; exact hlt
          · exact hpre j e
        · simp only [addTransWalk]
          rw [if_pos ⟨hi0, hlt⟩, getLast?_cons_getD]
          exact hw
      · refine ⟨[], ln :: is, rfl, (fun _ hi => nomatch hi), ?_, ?_⟩
        · intro j hj
          have : ln = j := by simpa using hj
          subst this; exact hlt
        · simp only [addTransWalk]
          rw [if_neg (fun e => hlt e.2)]
          rfl

theorem lt_of_sorted_head {m : MemNfa} {b : UInt8} {c : Nat} {rest : List Nat}
    (hs : (c :: rest).Pairwise fun i j => (m.tr i).byte < (m.tr j).byte)
    (hb : b < (m.tr c).byte) : ∀ i ∈ c :: rest, b < (m.tr i).byte := by
  intro i hi
  rcases List.mem_cons.1 hi with e | e
  · rw [e]; exact hb
  · exact UInt8.lt_trans hb ((List.pairwise_cons.1 hs).1 i e)

/-- `add_transition` either splices a fresh cell at the sorted position or overwrites the
`next` of the cell with the same byte -/
theorem addTransition_cases {m : MemNfa} {tc mc : Nat → List Nat} (h : MemOKW m tc mc)
    (prev : Nat) (b : UInt8) (t : Nat) :
    ∃ pre suf, tc prev = pre ++ suf ∧ (∀ i ∈ pre, (m.tr i).byte < b) ∧
      (((∀ i ∈ suf, b < (m.tr i).byte) ∧
          m.addTransition prev b t = insCell m prev (pre.getLast?.getD 0) (suf.headD 0) b t) ∨
       (∃ c suf', suf = c :: suf' ∧ (m.tr c).byte = b ∧
          m.addTransition prev b t = setNext m c t)) := by
  have hch := h.tchain prev
  have hso := h.tsorted prev
  have hlen := h.tlen prev
  cases hl : tc prev with
  | nil =>
    rw [hl] at hch
    have hhead : (m.st prev).sparse = 0 := hch
    refine ⟨[], [], rfl, (fun _ hi => nomatch hi), Or.inl ⟨(fun _ hi => nomatch hi), ?_⟩⟩
    unfold addTransition
    simp only [hhead, true_or, if_true]
    rfl
  | cons c rest =>
    rw [hl] at hch hso hlen
    obtain ⟨hhead, hc0, hrest⟩ := hch
    by_cases h1 : b < (m.tr c).byte
    · refine ⟨[], c :: rest, rfl, (fun _ hi => nomatch hi),
        Or.inl ⟨lt_of_sorted_head hso h1, ?_⟩⟩
      unfold addTransition
      simp only [hhead, h1, or_true, if_true]
      rfl
    · by_cases h2 : b = (m.tr c).byte
      · refine ⟨[], c :: rest, rfl, (fun _ hi => nomatch hi), Or.inr ⟨c, rest, rfl, h2.symm, ?_⟩⟩
        unfold addTransition
        simp only [hhead]
        rw [if_neg (fun e => e.elim hc0 h1), if_pos h2]
        rfl
      · have hcb : (m.tr c).byte < b := by
          rw [UInt8.lt_iff_toNat_lt] at h1 ⊢
          have : ¬ b.toNat = (m.tr c).byte.toNat := fun e => h2 (UInt8.toNat_inj.1 e)
          omega
        obtain ⟨pre, suf, hsp, hpre, hsuf, hw⟩ :=
          addTransWalk_spec m b hrest (fuel := m.sparse.size + 1)
            (by simp at hlen; omega) c
        have hw : m.addTransWalk b (m.sparse.size + 1) c (m.tr c).link =
            (pre.getLast?.getD c, suf.headD 0) := hw
        have hpre' : ∀ i ∈ c :: pre, (m.tr i).byte < b := by
          intro i hi
          rcases List.mem_cons.1 hi with e | e
          · rw [e]; exact hcb
          · exact hpre i e
        have hlp : (c :: pre).getLast?.getD 0 = pre.getLast?.getD c := getLast?_cons_getD _ _ _
        have hne0 : ∀ i ∈ c :: rest, i ≠ 0 := hl ▸ h.tne0 prev
        have hlp0 : pre.getLast?.getD c ≠ 0 := by
          rw [← hlp]
          intro e
          have := (getLast?_getD_eq_zero (l := c :: pre) (fun i hi => hne0 i (by
            rcases List.mem_cons.1 hi with e | e
            · rw [e]; exact List.mem_cons_self
            · exact List.mem_cons_of_mem _ (hsp ▸ List.mem_append_left _ e)))).1 e
          exact List.cons_ne_nil _ _ this
        have hsuf0 : ∀ i ∈ suf, i ≠ 0 := fun i hi =>
          hne0 i (List.mem_cons_of_mem _ (hsp ▸ List.mem_append_right _ hi))
        have hsosuf : suf.Pairwise fun i j => (m.tr i).byte < (m.tr j).byte := by
          have := (List.pairwise_cons.1 hso).2
          rw [hsp] at this
          exact (List.pairwise_append.1 this).2.1
        refine ⟨c :: pre, suf, by rw [hsp]; rfl, hpre', ?_⟩
        by_cases h3 : suf.headD 0 = 0 ∨ b < (m.tr (suf.headD 0)).byte
        · left
          constructor
          · rcases h3 with e | e
            · rw [(headD_eq_zero hsuf0).1 e]; intro i hi; cases hi
            · cases suf with
              | nil => intro i hi; cases hi
              | cons j js => exact lt_of_sorted_head hsosuf e
          · unfold addTransition
            simp only [hhead]
            rw [if_neg (fun e => e.elim hc0 h1), if_neg h2, hw]
            simp only
            rw [if_pos h3, hlp]
            unfold insCell
            rw [if_neg hlp0]
            rfl
        · right
          have h3' : suf.headD 0 ≠ 0 ∧ ¬ b < (m.tr (suf.headD 0)).byte :=
            ⟨fun e => h3 (Or.inl e), fun e => h3 (Or.inr e)⟩
          cases suf with
          | nil => exact absurd rfl h3'.1
          | cons j js =>
            have hnlt := hsuf j rfl
            have hbj : (m.tr j).byte = b := by
              have := h3'.2
              simp only [List.headD_cons] at this
              rw [UInt8.lt_iff_toNat_lt] at this hnlt
              apply UInt8.toNat_inj.1
              omega
            refine ⟨j, js, rfl, hbj, ?_⟩
            unfold addTransition
            simp only [hhead]
            rw [if_neg (fun e => e.elim hc0 h1), if_neg h2, hw]
            simp only
            rw [if_neg h3]
            rfl

/-! ### the abstract counterpart: `CNfa.insertTrans` -/

theorem insertTrans_ins {b : UInt8} {t : Nat} {l1 l2 : List (UInt8 × Nat)}
    (h1 : ∀ x ∈ l1, x.1 < b) (h2 : ∀ x ∈ l2, b < x.1) :
    CNfa.insertTrans b t (l1 ++ l2) = l1 ++ (b, t) :: l2 := by
  induction l1 with
  | nil =>
    cases l2 with
    | nil => rfl
    | cons x r =>
      obtain ⟨c, s⟩ := x
      simp only [List.nil_append, CNfa.insertTrans]
      rw [if_pos (h2 (c, s) List.mem_cons_self)]
  | cons x r ih =>
    obtain ⟨c, s⟩ := x
    have hcb : c < b := h1 (c, s) List.mem_cons_self
    have n1 : ¬ b < c := by
      rw [UInt8.lt_iff_toNat_lt] at hcb ⊢; omega
    have n2 : ¬ (b == c) = true := by
      intro e
      have e : b = c := by simpa using e
      subst e; exact UInt8.lt_irrefl _ hcb
    simp only [List.cons_append, CNfa.insertTrans]
    rw [if_neg n1, if_neg n2, ih fun y hy => h1 y (List.mem_cons_of_mem _ hy)]

theorem insertTrans_ow {b : UInt8} {t t0 : Nat} {l1 l2 : List (UInt8 × Nat)}
    (h1 : ∀ x ∈ l1, x.1 < b) :
    CNfa.insertTrans b t (l1 ++ (b, t0) :: l2) = l1 ++ (b, t) :: l2 := by
  induction l1 with
  | nil =>
    simp only [List.nil_append, CNfa.insertTrans]
    rw [if_neg (UInt8.lt_irrefl _), if_pos (by simp)]
  | cons x r ih =>
    obtain ⟨c, s⟩ := x
    have hcb : c < b := h1 (c, s) List.mem_cons_self
    have n1 : ¬ b < c := by
      rw [UInt8.lt_iff_toNat_lt] at hcb ⊢; omega
    have n2 : ¬ (b == c) = true := by
      intro e
      have e : b = c := by simpa using e
      subst e; exact UInt8.lt_irrefl _ hcb
    simp only [List.cons_append, CNfa.insertTrans]
    rw [if_neg n1, if_neg n2, ih fun y hy => h1 y (List.mem_cons_of_mem _ hy)]

/-- everything an observer sees of `insCell` -/
theorem insCell_spec {m : MemNfa} {tc mc : Nat → List Nat} (hw : MemOKW m tc mc) {prev : Nat}
    (hp : prev < m.states.size) {pre suf : List Nat} (hsplit : tc prev = pre ++ suf)
    {b : UInt8} (t : Nat) (hpre : ∀ i ∈ pre, (m.tr i).byte < b)
    (hsuf : ∀ i ∈ suf, b < (m.tr i).byte) :
    let m' := insCell m prev (pre.getLast?.getD 0) (suf.headD 0) b t
    MemOKW m' (upd tc prev (pre ++ m.sparse.size :: suf)) mc ∧
    m'.iterTrans prev = pre.map (kv m) ++ (b, t) :: suf.map (kv m) ∧
    (∀ i, i < m.sparse.size → (m'.tr i).byte = (m.tr i).byte) ∧
    (∀ s, s ≠ prev → m'.iterTrans s = m.iterTrans s) ∧
    (∀ s, m'.iterMatches s = m.iterMatches s) ∧
    (∀ s, (m'.st s).fail = (m.st s).fail) ∧
    m'.states.size = m.states.size ∧ m'.sparse.size = m.sparse.size + 1 := by
  intro m'
  have hltc : ∀ i ∈ pre ++ suf, i < m.sparse.size := hsplit ▸ hw.tlt prev
  have hlp : pre.getLast?.getD 0 < m.sparse.size := by
    cases hl : pre.getLast? with
    | none => exact hw.tpos
    | some p => exact hltc p (List.mem_append_left _ (List.mem_of_getLast? hl))
  have hw' := insCell_okw hw hp hsplit t hpre hsuf
  have hold : ∀ l : List Nat, (∀ i ∈ l, i < m.sparse.size) →
      l.map (kv m') = l.map (kv m) :=
    fun l hl => List.map_congr_left fun i hi => kv_insCell_old m prev hlp _ b t (hl i hi)
  refine ⟨hw', ?_, ?_, ?_, ?_, ?_, states_size_insCell .., sparse_size_insCell ..⟩
  · rw [iterTrans_eq hw', upd_self, List.map_append, List.map_cons,
      show kv m' m.sparse.size = (b, t) from kv_insCell_new m prev hlp _ b t,
      hold pre fun i hi => hltc i (List.mem_append_left _ hi),
      hold suf fun i hi => hltc i (List.mem_append_right _ hi)]
  · intro i hi
    exact congrArg Prod.fst (kv_insCell_old m prev hlp (suf.headD 0) b t hi)
  · intro s hs
    rw [iterTrans_eq hw', iterTrans_eq hw, upd_ne _ _ hs, hold _ (hw.tlt s)]
  · intro s
    apply iterMatches_congr (matches_insCell ..)
    show ((insCell ..).st s).matches_ = _
    rw [st_insCell m hp]; split
    · rename_i e; rw [e.1]
    · rfl
  · intro s
    show ((insCell ..).st s).fail = _
    rw [st_insCell m hp]; split
    · rename_i e; rw [e.1]
    · rfl

/-- **`add_transition` refines the sorted insert with overwrite.** -/
theorem addTransition_spec {m : MemNfa} (h : MemOK m) {prev : Nat} (hp : prev < m.states.size)
    (b : UInt8) (t : Nat) :
    MemOK (m.addTransition prev b t) ∧
    (m.addTransition prev b t).iterTrans prev = CNfa.insertTrans b t (m.iterTrans prev) ∧
    (∀ s, s ≠ prev → (m.addTransition prev b t).iterTrans s = m.iterTrans s) ∧
    (∀ s, (m.addTransition prev b t).iterMatches s = m.iterMatches s) ∧
    (∀ s, ((m.addTransition prev b t).st s).fail = (m.st s).fail) ∧
    (m.addTransition prev b t).states.size = m.states.size := by
  obtain ⟨tc, mc, hw⟩ := h
  obtain ⟨pre, suf, hsplit, hpre, hcase⟩ := addTransition_cases hw prev b t
  have hltc : ∀ i ∈ pre ++ suf, i < m.sparse.size := hsplit ▸ hw.tlt prev
  rcases hcase with ⟨hsuf, heq⟩ | ⟨c, suf', hsuf, hcb, heq⟩
  · -- a fresh cell
    rw [heq]
    obtain ⟨hw', h2, _, h3, h4, h5, h6, _⟩ := insCell_spec hw hp hsplit t hpre hsuf
    refine ⟨⟨_, _, hw'⟩, ?_, h3, h4, h5, h6⟩
    rw [h2, iterTrans_eq hw, hsplit, List.map_append]
    symm
    apply insertTrans_ins
    · intro x hx
      obtain ⟨i, hi, rfl⟩ := List.mem_map.1 hx
      exact hpre i hi
    · intro x hx
      obtain ⟨i, hi, rfl⟩ := List.mem_map.1 hx
      exact hsuf i hi
  · -- the byte is already there
    rw [heq]
    have hcm : c ∈ pre ++ suf := by rw [hsuf]; exact List.mem_append_right _ List.mem_cons_self
    have hc : c < m.sparse.size := hltc c hcm
    have hc0 : c ≠ 0 := hw.tne0 prev c (hsplit ▸ hcm)
    have hw' := setNext_okw hw hc hc0 t
    have hnd : (pre ++ c :: suf').Nodup := hsuf ▸ hsplit ▸ hw.tnodup prev
    have hold : ∀ l : List Nat, c ∉ l → l.map (kv (setNext m c t)) = l.map (kv m) := by
      intro l hl
      refine List.map_congr_left fun i hi => ?_
      rw [kv_setNext m hc, if_neg (fun (e : i = c) => hl (e ▸ hi))]
    have hnd' := List.nodup_append.1 hnd
    refine ⟨⟨_, _, hw'⟩, ?_, ?_, fun s => iterMatches_congr (m := m) (m' := setNext m c t) rfl rfl, fun s => rfl, rfl⟩
    · rw [iterTrans_eq hw', iterTrans_eq hw, hsplit, hsuf, List.map_append, List.map_cons,
        List.map_append, List.map_cons, kv_setNext m hc, if_pos rfl,
        hold pre (fun hm => hnd'.2.2 c hm c List.mem_cons_self rfl),
        hold suf' (List.nodup_cons.1 hnd'.2.1).1]
      symm
      show CNfa.insertTrans b t (_ ++ ((m.tr c).byte, (m.tr c).next) :: _) = _
      rw [hcb]
      apply insertTrans_ow
      intro x hx
      obtain ⟨i, hi, rfl⟩ := List.mem_map.1 hx
      exact hpre i hi
    · intro s hs
      rw [iterTrans_eq hw', iterTrans_eq hw]
      apply hold
      intro hm
      exact hw.tdisj s prev hs c hm (hsplit ▸ hcm)

end AcVerif.MemP
