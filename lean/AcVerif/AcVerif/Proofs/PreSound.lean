import AcVerif.Proofs.PreBuilderFacts
import AcVerif.Proofs.PreTransparent
/-!
# C05, part B: the modelled prefilters are sound

Soundness (`PrefilterSound`) of each `PreChoice.findIn` from the abstract
property of its parameters (the needle is the only pattern / every pattern
starts with a listed byte / every pattern contains a listed byte and the offset
table bounds every position of every byte).
-/
namespace AcVerif.PreP
open AcVerif

theorem prefix_getElem? {α : Type} {p hay : List α} {st j : Nat} {b : α}
    (h : p <+: hay.drop st) (hj : p[j]? = some b) : hay[st + j]? = some b := by
  obtain ⟨t, ht⟩ := h
  have hlt : j < p.length := by
    rcases Nat.lt_or_ge j p.length with h | h
    · exact h
    · rw [List.getElem?_eq_none h] at hj; cases hj
  rw [← List.getElem?_drop, ← ht, List.getElem?_append_left hlt]
  exact hj

/-! ## memmem -/

theorem memmem_sound (k : MatchKind) (needle : List UInt8) :
    PrefilterSound k [needle] (PreChoice.memmem needle).findIn where
  none_sound := by
    intro hay s e _ _ h m hm
    simp only [PreChoice.findIn] at h
    split at h
    · rename_i hn
      obtain ⟨p, hp, h1, h2, h3, h4⟩ := hm
      have hpid : p = needle := by
        cases hi : m.pid with
        | zero => rw [hi] at hp; simpa using hp.symm
        | succ n => rw [hi] at hp; simp at hp
      subst hpid
      exact memmemIn_none hn m.start h1 (by omega) h4
    · cases h
  pos_sound := by
    intro hay s e i _ _ h
    simp only [PreChoice.findIn] at h
    split at h <;> cases h
  mtch_sound := by
    intro hay s e m _ hse h
    simp only [PreChoice.findIn] at h
    split at h
    · cases h
    · rename_i p0 hp0
      injection h with h
      subst h
      obtain ⟨h1, h2, h3, h4⟩ := memmemIn_some hp0
      refine ⟨⟨⟨needle, rfl, h1, rfl, h2, h3⟩, fun h => by cases h⟩, ?_⟩
      intro m' ⟨⟨p, hp, g1, g2, g3, g4⟩, _⟩
      have hpid : m'.pid = 0 ∧ p = needle := by
        cases hi : m'.pid with
        | zero => rw [hi] at hp; exact ⟨rfl, by simpa using hp.symm⟩
        | succ n => rw [hi] at hp; simp at hp
      obtain ⟨hpid, rfl⟩ := hpid
      have hge : p0 ≤ m'.start := by
        apply Nat.le_of_not_lt
        intro hlt
        exact h4 m'.start g1 hlt (by omega) g4
      cases k with
      | std =>
        simp only [better, betterStd]
        rcases Nat.lt_or_ge p0 m'.start with h | h
        · left; omega
        · right; exact ⟨by omega, Or.inr ⟨by omega, by omega⟩⟩
      | lf =>
        simp only [better, betterLF]
        rcases Nat.lt_or_ge p0 m'.start with h | h
        · left; exact h
        · right; exact ⟨by omega, by omega⟩
      | ll =>
        simp only [better, betterLL]
        rcases Nat.lt_or_ge p0 m'.start with h | h
        · left; exact h
        · right; exact ⟨by omega, Or.inr ⟨by omega, by omega⟩⟩

/-! ## start bytes -/

theorem startBytes_sound (k : MatchKind) (pats : List (List UInt8)) (bs : List UInt8)
    (hcov : ∀ p ∈ pats, ∃ b ∈ bs, p.head? = some b) :
    PrefilterSound k pats (PreChoice.startBytes bs).findIn := by
  -- an occurrence puts a listed byte at its start
  have key : ∀ hay s e m, IsOcc pats hay s e m →
      s ≤ m.start ∧ m.start < e ∧ ∃ b, hay[m.start]? = some b ∧ bs.contains b = true := by
    intro hay s e m ⟨p, hp, h1, h2, h3, h4⟩
    obtain ⟨b, hb, hhead⟩ := hcov p (List.mem_of_getElem? hp)
    have h0 : p[0]? = some b := by rw [← List.head?_eq_getElem?]; exact hhead
    have hlen : 0 < p.length := by
      cases p with
      | nil => cases hhead
      | cons _ _ => simp
    have := prefix_getElem? h4 h0
    exact ⟨h1, by omega, b, by simpa using this, List.contains_iff_mem.2 hb⟩
  refine ⟨?_, ?_, ?_⟩
  · intro hay s e _ _ h m hm
    simp only [PreChoice.findIn] at h
    split at h
    · rename_i hn
      obtain ⟨h1, h2, b, hb, hc⟩ := key hay s e m hm
      have := memchrIn_none hn m.start h1 h2 b hb
      rw [hc] at this; cases this
    · cases h
  · intro hay s e i _ _ h
    simp only [PreChoice.findIn] at h
    split at h
    · cases h
    · rename_i p0 hp0
      injection h with h
      subst h
      obtain ⟨g1, _, _, g4⟩ := memchrIn_some hp0
      refine ⟨g1, ?_⟩
      intro m hm
      obtain ⟨h1, h2, b, hb, hc⟩ := key hay s e m hm
      apply Nat.le_of_not_lt
      intro hlt
      have := g4 m.start h1 hlt b hb
      rw [hc] at this; cases this
  · intro hay s e m _ _ h
    simp only [PreChoice.findIn] at h
    split at h <;> cases h

/-! ## rare bytes -/

theorem rareBytes_sound (k : MatchKind) (pats : List (List UInt8)) (bs : List UInt8)
    (offs : UInt8 → Nat)
    (hcov : ∀ p ∈ pats, ∃ j : Nat, ∃ b ∈ bs, p[j]? = some b)
    (hoff : ∀ p ∈ pats, ∀ (j : Nat) (b : UInt8), p[j]? = some b → j ≤ offs b) :
    PrefilterSound k pats (PreChoice.rareBytes bs offs).findIn := by
  -- an occurrence puts a listed byte inside itself
  have key : ∀ (hay : List UInt8) (st : Nat) (p : List UInt8), p ∈ pats → p <+: hay.drop st →
      ∃ (j : Nat) (b : UInt8), j < p.length ∧ hay[st + j]? = some b ∧ bs.contains b = true := by
    intro hay st p hp h4
    obtain ⟨j, b, hb, hj⟩ := hcov p hp
    have hlt : j < p.length := by
      rcases Nat.lt_or_ge j p.length with h | h
      · exact h
      · rw [List.getElem?_eq_none h] at hj; cases hj
    exact ⟨j, b, hlt, prefix_getElem? h4 hj, List.contains_iff_mem.2 hb⟩
  refine ⟨?_, ?_, ?_⟩
  · intro hay s e _ _ h m hm
    simp only [PreChoice.findIn] at h
    split at h
    · rename_i hn
      obtain ⟨p, hp, f1, f2, f3, f4⟩ := hm
      obtain ⟨j, b, hj, hb, hc⟩ := key hay m.start p (List.mem_of_getElem? hp) f4
      have := memchrIn_none hn (m.start + j) (by omega) (by omega) b hb
      rw [hc] at this; cases this
    · cases h
  · intro hay s e i _ _ h
    simp only [PreChoice.findIn] at h
    split at h
    · cases h
    · rename_i pos hpos
      injection h with h
      subst h
      obtain ⟨g1, g2, ⟨c, hc, _⟩, g4⟩ := memchrIn_some hpos
      refine ⟨Nat.le_max_left _ _, ?_⟩
      intro m hm
      obtain ⟨p, hp, f1, f2, f3, f4⟩ := hm
      obtain ⟨j, b, hj, hb, hbc⟩ := key hay m.start p (List.mem_of_getElem? hp) f4
      -- the first listed byte is found no later than the one inside the occurrence
      have hle : pos ≤ m.start + j := by
        apply Nat.le_of_not_lt
        intro hlt
        have := g4 (m.start + j) (by omega) hlt b hb
        rw [hbc] at this; cases this
      rcases Nat.lt_or_ge pos m.start with hlt | hge
      · exact Nat.max_le.2 ⟨f1, by omega⟩
      · -- `hay[pos]` is the pattern's byte at offset `pos - m.start`
        have hpj : (pos - m.start) < p.length := by omega
        have hbyte : hay[m.start + (pos - m.start)]? = some p[pos - m.start] :=
          prefix_getElem? f4 (List.getElem?_eq_getElem hpj)
        rw [show m.start + (pos - m.start) = pos by omega, hc] at hbyte
        injection hbyte with hbyte
        have hoffs := hoff p (List.mem_of_getElem? hp) (pos - m.start) c
          (by rw [hbyte]; exact List.getElem?_eq_getElem hpj)
        have hget : hay.getD pos 0 = c := by
          rw [List.getD_eq_getElem?_getD, hc]; rfl
        rw [hget]
        exact Nat.max_le.2 ⟨f1, by omega⟩
  · intro hay s e m _ _ h
    simp only [PreChoice.findIn] at h
    split at h <;> cases h

/-! ## case-insensitive: the prefilter reads the raw haystack, occurrences are those of the
folded patterns in the folded haystack -/

/-- a byte of an occurrence of the folded pattern is, in the raw haystack, the pattern's byte in
one of its two cases -/
theorem fold_occ_byte {p hay : List UInt8} {st j : Nat} {x : UInt8}
    (h : p.map foldByte <+: (hay.map foldByte).drop st) (hj : p[j]? = some x) :
    ∃ c, hay[st + j]? = some c ∧ (c = x ∨ c = oppositeAsciiCase x) := by
  have h1 : (p.map foldByte)[j]? = some (foldByte x) := by rw [List.getElem?_map, hj]; rfl
  have h2 := prefix_getElem? h h1
  rw [List.getElem?_map] at h2
  cases hc : hay[st + j]? with
  | none => rw [hc] at h2; cases h2
  | some c =>
    rw [hc] at h2
    simp only [Option.map_some, Option.some.injEq] at h2
    exact ⟨c, rfl, (MiscP.fold_eq_iff c x).1 h2⟩

theorem getElem?_map_fold {pats : List (List UInt8)} {pid : Nat} {p' : List UInt8}
    (h : (pats.map (·.map foldByte))[pid]? = some p') :
    ∃ p, p ∈ pats ∧ p' = p.map foldByte := by
  rw [List.getElem?_map] at h
  cases hp : pats[pid]? with
  | none => rw [hp] at h; cases h
  | some p =>
    rw [hp] at h
    simp only [Option.map_some, Option.some.injEq] at h
    exact ⟨p, List.mem_of_getElem? hp, h.symm⟩

theorem startBytes_sound_fold (k : MatchKind) (pats : List (List UInt8)) (bs : List UInt8)
    (hcov : ∀ p ∈ pats, ∃ b, p.head? = some b ∧ b ∈ bs ∧ oppositeAsciiCase b ∈ bs)
    (hay : List UInt8) :
    PrefilterSoundAt k (pats.map (·.map foldByte)) ((PreChoice.startBytes bs).findIn hay)
      (hay.map foldByte) := by
  have key : ∀ s e m, IsOcc (pats.map (·.map foldByte)) (hay.map foldByte) s e m →
      s ≤ m.start ∧ m.start < e ∧ ∃ c, hay[m.start]? = some c ∧ bs.contains c = true := by
    intro s e m ⟨p', hp', h1, h2, h3, h4⟩
    obtain ⟨p, hp, rfl⟩ := getElem?_map_fold hp'
    obtain ⟨b, hhead, hb, hb'⟩ := hcov p hp
    have h0 : p[0]? = some b := by rw [← List.head?_eq_getElem?]; exact hhead
    have hlen : 0 < p.length := by
      cases p with
      | nil => cases hhead
      | cons _ _ => simp
    obtain ⟨c, hc, hcb⟩ := fold_occ_byte h4 h0
    rw [List.length_map] at h2
    refine ⟨h1, by omega, c, by simpa using hc, List.contains_iff_mem.2 ?_⟩
    rcases hcb with rfl | rfl
    · exact hb
    · exact hb'
  refine ⟨?_, ?_, ?_⟩
  · intro s e _ _ h m hm
    simp only [PreChoice.findIn] at h
    split at h
    · rename_i hn
      obtain ⟨h1, h2, b, hb, hc⟩ := key s e m hm
      have := memchrIn_none hn m.start h1 h2 b hb
      rw [hc] at this; cases this
    · cases h
  · intro s e i _ _ h
    simp only [PreChoice.findIn] at h
    split at h
    · cases h
    · rename_i p0 hp0
      injection h with h
      subst h
      obtain ⟨g1, _, _, g4⟩ := memchrIn_some hp0
      refine ⟨g1, ?_⟩
      intro m hm
      obtain ⟨h1, h2, b, hb, hc⟩ := key s e m hm
      apply Nat.le_of_not_lt
      intro hlt
      have := g4 m.start h1 hlt b hb
      rw [hc] at this; cases this
  · intro s e m _ _ h
    simp only [PreChoice.findIn] at h
    split at h <;> cases h

theorem rareBytes_sound_fold (k : MatchKind) (pats : List (List UInt8)) (bs : List UInt8)
    (offs : UInt8 → Nat)
    (hcov : ∀ p ∈ pats, ∃ (j : Nat) (b : UInt8), p[j]? = some b ∧ b ∈ bs ∧
      oppositeAsciiCase b ∈ bs)
    (hoff : ∀ p ∈ pats, ∀ (j : Nat) (b : UInt8), p[j]? = some b →
      j ≤ offs b ∧ j ≤ offs (oppositeAsciiCase b))
    (hay : List UInt8) :
    PrefilterSoundAt k (pats.map (·.map foldByte)) ((PreChoice.rareBytes bs offs).findIn hay)
      (hay.map foldByte) := by
  have key : ∀ (st : Nat) (p : List UInt8), p ∈ pats →
      p.map foldByte <+: (hay.map foldByte).drop st →
      ∃ (j : Nat) (c : UInt8), j < p.length ∧ hay[st + j]? = some c ∧ bs.contains c = true := by
    intro st p hp h4
    obtain ⟨j, b, hj, hb, hb'⟩ := hcov p hp
    have hlt : j < p.length := by
      rcases Nat.lt_or_ge j p.length with h | h
      · exact h
      · rw [List.getElem?_eq_none h] at hj; cases hj
    obtain ⟨c, hc, hcb⟩ := fold_occ_byte h4 hj
    refine ⟨j, c, hlt, hc, List.contains_iff_mem.2 ?_⟩
    rcases hcb with rfl | rfl
    · exact hb
    · exact hb'
  refine ⟨?_, ?_, ?_⟩
  · intro s e _ _ h m hm
    simp only [PreChoice.findIn] at h
    split at h
    · rename_i hn
      obtain ⟨p', hp', f1, f2, f3, f4⟩ := hm
      obtain ⟨p, hp, rfl⟩ := getElem?_map_fold hp'
      rw [List.length_map] at f2
      obtain ⟨j, b, hj, hb, hc⟩ := key m.start p hp f4
      have := memchrIn_none hn (m.start + j) (by omega) (by omega) b hb
      rw [hc] at this; cases this
    · cases h
  · intro s e i _ _ h
    simp only [PreChoice.findIn] at h
    split at h
    · cases h
    · rename_i pos hpos
      injection h with h
      subst h
      obtain ⟨g1, g2, ⟨c, hc, _⟩, g4⟩ := memchrIn_some hpos
      refine ⟨Nat.le_max_left _ _, ?_⟩
      intro m hm
      obtain ⟨p', hp', f1, f2, f3, f4⟩ := hm
      obtain ⟨p, hp, rfl⟩ := getElem?_map_fold hp'
      rw [List.length_map] at f2
      obtain ⟨j, b, hj, hb, hbc⟩ := key m.start p hp f4
      have hle : pos ≤ m.start + j := by
        apply Nat.le_of_not_lt
        intro hlt
        have := g4 (m.start + j) (by omega) hlt b hb
        rw [hbc] at this; cases this
      rcases Nat.lt_or_ge pos m.start with hlt | hge
      · exact Nat.max_le.2 ⟨f1, by omega⟩
      · have hpj : (pos - m.start) < p.length := by omega
        obtain ⟨c', hc', hcc⟩ := fold_occ_byte f4 (List.getElem?_eq_getElem hpj)
        rw [show m.start + (pos - m.start) = pos by omega, hc] at hc'
        injection hc' with hc'
        subst hc'
        have hoffs := hoff p hp (pos - m.start) _ (List.getElem?_eq_getElem hpj)
        have hget : hay.getD pos 0 = c := by
          rw [List.getD_eq_getElem?_getD, hc]; rfl
        rw [hget]
        have : pos - m.start ≤ offs c := by
          rcases hcc with h | h
          · rw [h]; exact hoffs.1
          · rw [h]; exact hoffs.2
        exact Nat.max_le.2 ⟨f1, by omega⟩
  · intro s e m _ _ h
    simp only [PreChoice.findIn] at h
    split at h <;> cases h

end AcVerif.PreP
