import AcVerif.Proofs.BuildCheckedBase
import AcVerif.Proofs.CompilerBase
/-!
# C20 build proofs: `states.len() < sparse.len()` after `build_trie`

The real code allocates a new `sparse` entry exactly when `add_transition` lengthens a list.  We
count, per state, the entries whose target is not FAIL (`gN`) and those whose target is FAIL
(`gC`); `gT = gN + gC`.  Every new trie state comes with a *new non-FAIL entry* in its parent: either
a fresh entry (parent is not the unanchored start state) or an overwritten FAIL entry (parent is the
unanchored start state).  So `Σ gN` grows by at least one per state, starting from 256 (the DEAD
state's self loops) with 4 states.  The anchored start state is never touched by `build_trie` and
contributes 256 FAIL entries.  Together: `size + 252 + 256 ≤ Σ gT = sparseLen - 1`.
-/
namespace AcVerif.BuildP
open AcVerif AcVerif.CNfa AcVerif.L1cP

/-! ## counting entries by target -/

/-- the entries of a transition list whose target is not FAIL -/
def nfL (l : List (UInt8 × Nat)) : Nat := l.countP fun x => x.2 != FAIL
/-- the entries of a transition list whose target is FAIL -/
def cfL (l : List (UInt8 × Nat)) : Nat := l.countP fun x => x.2 == FAIL

def gN (st : CState) : Nat := nfL st.trans
def gC (st : CState) : Nat := cfL st.trans

theorem nfL_cons (x : UInt8 × Nat) (l : List (UInt8 × Nat)) :
    nfL (x :: l) = nfL l + if x.2 = FAIL then 0 else 1 := by
  unfold nfL
  rw [List.countP_cons]
  by_cases h : x.2 = FAIL <;> simp [h]

theorem length_eq_nfL_add_cfL : ∀ l : List (UInt8 × Nat), l.length = nfL l + cfL l
  | [] => rfl
  | x :: l => by
    have ih := length_eq_nfL_add_cfL l
    unfold nfL cfL at ih ⊢
    rw [List.countP_cons, List.countP_cons, List.length_cons]
    by_cases h : x.2 = FAIL <;> simp [h] <;> omega

theorem gT_eq (st : CState) : gT st = gN st + gC st := length_eq_nfL_add_cfL st.trans

/-- inserting / overwriting with a non-FAIL target never loses a non-FAIL entry -/
theorem nfL_insertTrans_ge (b : UInt8) {t : Nat} (ht : t ≠ FAIL) :
    ∀ l : List (UInt8 × Nat), nfL l ≤ nfL (insertTrans b t l)
  | [] => by simp [insertTrans, nfL]
  | (c, u) :: rest => by
    unfold insertTrans
    split
    · rw [nfL_cons (b, t)]; omega
    · split
      · rw [nfL_cons, nfL_cons]
        simp only [if_neg ht]
        split <;> omega
      · have := nfL_insertTrans_ge b ht rest
        rw [nfL_cons, nfL_cons (c, u)]; omega

/-- when `follow` read FAIL for the byte, a non-FAIL target is one more non-FAIL entry: the entry is
either new or replaces the (first) entry for the byte, whose target was FAIL -/
theorem nfL_insertTrans_succ (b : UInt8) {t : Nat} (ht : t ≠ FAIL) :
    ∀ l : List (UInt8 × Nat), lookup l b = FAIL → nfL l + 1 ≤ nfL (insertTrans b t l)
  | [], _ => by simp [insertTrans, nfL, ht]
  | (c, u) :: rest, h => by
    rw [lookup_cons] at h
    unfold insertTrans
    split
    · rw [nfL_cons (b, t)]; simp only [if_neg ht]; omega
    · split
      · rename_i hbc
        have hbc : b = c := by simpa using hbc
        rw [if_pos hbc.symm] at h
        rw [nfL_cons, nfL_cons]
        simp only [if_neg ht, if_pos h]; omega
      · rename_i hbc
        have hbc : ¬ b = c := by simpa using hbc
        rw [if_neg (fun e => hbc e.symm)] at h
        have := nfL_insertTrans_succ b ht rest h
        rw [nfL_cons, nfL_cons (c, u)]; omega

/-! ## more on sums over the states -/

theorem list_sum_modify_add (g : CState → Nat) (f : CState → CState) (d : Nat)
    (h0 : ∀ a, g a ≤ g (f a)) :
    ∀ (l : List CState) (i : Nat), i < l.length → (∀ a, l[i]? = some a → g a + d ≤ g (f a)) →
      (l.map g).sum + d ≤ ((l.modify i f).map g).sum
  | [], _, hi, _ => by simp at hi
  | a :: l, 0, _, h => by
    simp only [List.modify_zero_cons, List.map_cons, List.sum_cons]
    have := h a (by simp); omega
  | a :: l, i + 1, hi, h => by
    simp only [List.modify_succ_cons, List.map_cons, List.sum_cons]
    have := list_sum_modify_add g f d h0 l i (by simpa using hi) (fun a ha => h a (by simpa using ha))
    omega

/-- a modification inside the array that gains `d` at its index gains `d` in the sum -/
theorem wsum_modify_add (g : CState → Nat) (f : CState → CState) (d : Nat)
    (h0 : ∀ a, g a ≤ g (f a)) (n : CNfa) (i : Nat) (hi : i < n.size)
    (h : g (n.getD i {}) + d ≤ g (f (n.getD i {}))) :
    wsum g n + d ≤ wsum g (n.modify i f) := by
  unfold wsum; rw [Array.toList_modify]
  apply list_sum_modify_add g f d h0 _ _ (by simpa using hi)
  intro a ha
  rw [Array.getElem?_toList] at ha
  rw [Array.getD_eq_getD_getElem?, ha] at h
  exact h

theorem list_sum_add (g g1 g2 : CState → Nat) (h : ∀ a, g a = g1 a + g2 a) :
    ∀ l : List CState, (l.map g).sum = (l.map g1).sum + (l.map g2).sum
  | [] => rfl
  | a :: l => by
    simp only [List.map_cons, List.sum_cons]
    have := list_sum_add g g1 g2 h l
    have := h a
    omega

theorem wsum_add (g g1 g2 : CState → Nat) (h : ∀ a, g a = g1 a + g2 a) (n : CNfa) :
    wsum g n = wsum g1 n + wsum g2 n := list_sum_add g g1 g2 h _

theorem list_sum_ge_term (g : CState → Nat) :
    ∀ (l : List CState) (i : Nat) (a : CState), l[i]? = some a → g a ≤ (l.map g).sum
  | [], _, _, h => by simp at h
  | x :: l, 0, a, h => by
    have : x = a := by simpa using h
    subst this
    simp only [List.map_cons, List.sum_cons]; omega
  | x :: l, i + 1, a, h => by
    have := list_sum_ge_term g l i a (by simpa using h)
    simp only [List.map_cons, List.sum_cons]; omega

theorem wsum_ge_term (g : CState → Nat) (n : CNfa) (i : Nat) (hi : i < n.size) :
    g (n.getD i {}) ≤ wsum g n := by
  unfold wsum
  apply list_sum_ge_term g _ i
  rw [Array.getElem?_toList, Array.getD_eq_getD_getElem?, Array.getElem?_eq_getElem hi]
  rfl

/-! ## the invariant -/

/-- at least 4 states; every stored target is a state, and not the anchored start state; the anchored
start state still has its 256 transitions to FAIL; at least `c` non-FAIL entries in total -/
def Jc (c : Nat) (n : CNfa) : Prop :=
  4 ≤ n.size ∧ (∀ s x, x ∈ (n.getD s {}).trans → x.2 < n.size ∧ x.2 ≠ SA) ∧
  (n.getD SA {}).trans = fullTrans FAIL ∧ c ≤ wsum gN n

theorem Jc.mono {c c' : Nat} {n : CNfa} (h : Jc c n) (hc : c' ≤ c) : Jc c' n :=
  ⟨h.1, h.2.1, h.2.2.1, Nat.le_trans hc h.2.2.2⟩

theorem wsum_gN_init : wsum gN init = 256 := by decide +kernel

theorem Jc_init : Jc (init.size + 252) init := by
  refine ⟨Nat.le_refl _, ?_, rfl, ?_⟩
  · intro s x hx
    have hs : s < 4 := by
      apply Decidable.byContradiction
      intro hge
      rw [getD_of_size_le init (by rw [init_size]; omega)] at hx
      simp at hx
    have h4 : s = 0 ∨ s = 1 ∨ s = 2 ∨ s = 3 := by omega
    rcases h4 with rfl | rfl | rfl | rfl
    · have : x.2 = DEAD := snd_of_mem_fullTrans (t := DEAD) hx
      rw [this]; decide
    · exact absurd hx (by simp [init])
    · have : x.2 = FAIL := snd_of_mem_fullTrans (t := FAIL) hx
      rw [this]; decide
    · have : x.2 = FAIL := snd_of_mem_fullTrans (t := FAIL) hx
      rw [this]; decide
  · rw [wsum_gN_init, init_size]; omega

theorem Jc_push {c : Nat} {n : CNfa} (h : Jc c n) : Jc c (n.push { fail := SU }) := by
  obtain ⟨h1, h2, h3, h4⟩ := h
  refine ⟨by rw [Array.size_push]; omega, ?_, ?_, ?_⟩
  · intro s x hx
    rw [Array.size_push]
    by_cases hs : s = n.size
    · subst hs; rw [getD_push_eq] at hx; simp at hx
    · rw [getD_push_ne _ _ hs] at hx
      have := h2 s x hx
      exact ⟨by omega, this.2⟩
  · rw [getD_push_ne _ _ (by simp only [SA]; omega)]; exact h3
  · rw [wsum_push]; exact Nat.le_trans h4 (Nat.le_add_right _ _)

theorem gN_addTransition_le (n : CNfa) (p : Nat) (b : UInt8) {t : Nat} (ht : t ≠ FAIL) :
    wsum gN n ≤ wsum gN (addTransition n p b t) :=
  wsum_modify_le gN (fun st => { st with trans := insertTrans b t st.trans })
    (fun a => nfL_insertTrans_ge b ht a.trans) n p

theorem gN_addTransition_succ (n : CNfa) (p : Nat) (b : UInt8) {t : Nat} (ht : t ≠ FAIL)
    (hp : p < n.size) (hf : follow n p b = FAIL) :
    wsum gN n + 1 ≤ wsum gN (addTransition n p b t) :=
  wsum_modify_add gN (fun st => { st with trans := insertTrans b t st.trans }) 1
    (fun a => nfL_insertTrans_ge b ht a.trans) n p hp
    (nfL_insertTrans_succ b ht _ (by rw [← follow_eq]; exact hf))

/-- `add_transition` at a state other than the anchored start state, to a legal target -/
theorem Jc_addTransition {c c' : Nat} {n : CNfa} (h : Jc c n) {p : Nat} (b : UInt8) {t : Nat}
    (hpa : p ≠ SA) (ht : t < n.size) (hta : t ≠ SA)
    (hc : c' ≤ wsum gN (addTransition n p b t)) : Jc c' (addTransition n p b t) := by
  obtain ⟨h1, h2, h3, _⟩ := h
  refine ⟨by rw [size_addTransition]; exact h1, ?_, ?_, hc⟩
  · intro s x hx
    rw [size_addTransition]
    unfold addTransition at hx
    rw [getD_modify] at hx
    split at hx
    · rcases mem_insertTrans hx with e | e
      · subst e; exact ⟨ht, hta⟩
      · exact h2 s x e
    · exact h2 s x hx
  · unfold addTransition
    rw [getD_modify_ne _ _ hpa]; exact h3

/-- a modification that keeps the transitions -/
theorem Jc_modify {c : Nat} {n : CNfa} (h : Jc c n) (i : Nat) (f : CState → CState)
    (hf : ∀ st, (f st).trans = st.trans) : Jc c (n.modify i f) := by
  obtain ⟨h1, h2, h3, h4⟩ := h
  have hg : ∀ s, ((n.modify i f).getD s {}).trans = (n.getD s {}).trans := by
    intro s
    rw [getD_modify]
    split
    · exact hf _
    · rfl
  refine ⟨by rw [Array.size_modify]; exact h1, ?_, ?_, ?_⟩
  · intro s x hx
    rw [hg] at hx
    rw [Array.size_modify]; exact h2 s x hx
  · rw [hg]; exact h3
  · rw [wsum_modify_eq gN f (fun a => by unfold gN; rw [hf a])]; exact h4

/-- the invariant proper: one non-FAIL entry per state beyond the initial four -/
def J (n : CNfa) : Prop := Jc (n.size + 252) n

/-! ## one pattern of `build_trie` -/

theorem addPattern_J (lf fold : Bool) :
    ∀ (pat : List UInt8) (n : CNfa) (prev : Nat) (saw : Bool) (n' : CNfa) (last : Nat),
      J n → prev < n.size → prev ≠ SA →
      addPattern lf fold n prev saw pat = some (n', last) → J n'
  | [], n, prev, saw, n', last, hJ, _, _, h => by
    simp only [addPattern, Option.some.injEq, Prod.mk.injEq] at h
    obtain ⟨rfl, _⟩ := h
    exact hJ
  | b :: rest, n, prev, saw, n', last, hJ, hp, hpa, h => by
    rw [addPattern] at h
    simp only at h
    split at h
    · exact absurd h (by simp)
    · split at h
      · rename_i hne
        have hne : follow n prev b ≠ FAIL := by simpa using hne
        have hmem := mem_of_lookup (l := (n.getD prev {}).trans) (b := b) rfl
          (by rw [← follow_eq]; exact hne)
        rw [← follow_eq] at hmem
        have := hJ.2.1 prev _ hmem
        exact addPattern_J lf fold rest _ _ _ _ _ hJ this.1 this.2 h
      · rename_i hne
        have hf : follow n prev b = FAIL := by simpa using hne
        have h4 : 4 ≤ n.size := hJ.1
        have htF : n.size ≠ FAIL := by simp only [FAIL]; omega
        have htA : n.size ≠ SA := by simp only [SA]; omega
        have hJ1 : Jc (n.size + 252) (n.push { fail := SU }) := Jc_push hJ
        have hs1 : (n.push ({ fail := SU } : CState)).size = n.size + 1 := Array.size_push _
        have hf1 : follow (n.push { fail := SU }) prev b = FAIL := by
          unfold follow at hf ⊢
          rw [getD_push_ne _ _ (by omega)]; exact hf
        have hc := gN_addTransition_succ (n.push { fail := SU }) prev b (t := n.size) htF
          (by omega) hf1
        have hJ2 : Jc (n.size + 1 + 252) (addTransition (n.push { fail := SU }) prev b n.size) :=
          Jc_addTransition hJ1 b hpa (by omega) htA (by have := hJ1.2.2.2; omega)
        have hs2 : (addTransition (n.push { fail := SU }) prev b n.size).size = n.size + 1 := by
          rw [size_addTransition, hs1]
        refine addPattern_J lf fold rest _ n.size _ _ _ ?_ ?_ htA h
        · cases fold with
          | false =>
            simp only [Bool.false_eq_true, if_false]
            unfold J; rw [hs2]; exact hJ2
          | true =>
            simp only [if_true]
            unfold J; rw [size_addTransition, hs2]
            have hc2 := gN_addTransition_le (addTransition (n.push { fail := SU }) prev b n.size)
              prev (oppositeAsciiCase b) (t := n.size) htF
            exact Jc_addTransition hJ2 _ hpa (by omega) htA (by have := hJ2.2.2.2; omega)
        · cases fold with
          | false => simp only [Bool.false_eq_true, if_false]; omega
          | true => simp only [if_true]; rw [size_addTransition]; omega

theorem trieStep_J (k : MatchKind) (fold : Bool) (n : CNfa) (x : List UInt8 × Nat) (hJ : J n) :
    J (trieStep k fold n x) := by
  unfold trieStep
  split
  · exact hJ
  · rename_i n' last h
    have h' := addPattern_J _ _ _ _ _ _ _ _ hJ (by have := hJ.1; simp only [SU]; omega)
      (by decide) h
    unfold J
    rw [Array.size_modify]
    exact Jc_modify h' _ _ (fun _ => rfl)

theorem foldl_trieStep_J (k : MatchKind) (fold : Bool) :
    ∀ (xs : List (List UInt8 × Nat)) (n : CNfa), J n → J (xs.foldl (trieStep k fold) n)
  | [], _, h => h
  | x :: xs, n, h => by
    rw [List.foldl_cons]
    exact foldl_trieStep_J k fold xs _ (trieStep_J k fold n x h)

theorem buildTrie_J (k : MatchKind) (fold : Bool) (P : List (List UInt8)) :
    J (buildTrie k fold P) := by
  rw [buildTrie_eq]; exact foldl_trieStep_J k fold _ _ Jc_init

theorem cfL_fullTrans_FAIL : cfL (fullTrans FAIL) = 256 := by decide +kernel

/-- the invariant gives the bound -/
theorem J_bound {n : CNfa} (h : J n) : n.size + 509 ≤ sparseLen n := by
  obtain ⟨h1, _, h3, h4⟩ := h
  have ha := wsum_add gT gN gC gT_eq n
  have hb := wsum_ge_term gC n SA (by simp only [SA]; omega)
  have hc : gC (n.getD SA {}) = 256 := by unfold gC; rw [h3]; exact cfL_fullTrans_FAIL
  rw [sparseLen_eq]
  omega

/-- `build_trie` leaves more `sparse` entries than states: every state beyond the initial four has a
non-FAIL transition leading to it, the DEAD state has 256 of its own, and the anchored start state
has 256 FAIL transitions (`509 = 1 + 256 + 256 - 4`) -/
theorem size_lt_sparseLen (k : MatchKind) (fold : Bool) (P : List (List UInt8)) :
    (CNfa.buildTrie k fold P).size + 509 ≤ sparseLen (CNfa.buildTrie k fold P) :=
  J_bound (buildTrie_J k fold P)

theorem size_compile_lt_sparseLen (k : MatchKind) (fold : Bool) (P : List (List UInt8)) :
    (CNfa.compile k fold P).size + 509 ≤ sparseLen (CNfa.buildTrie k fold P) := by
  rw [size_compile]; exact size_lt_sparseLen k fold P

end AcVerif.BuildP
