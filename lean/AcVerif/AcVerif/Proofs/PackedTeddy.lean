import AcVerif.Proofs.PackedRK
/-!
# Packed searchers: Teddy (helpers for C06 and C15)

* `Teddy.new`: patterns with equal fingerprints share a bucket, every bucket
  is `order` filtered (`buckets_getD`, `bkOf`);
* mask soundness (`sup_member`): a pattern of bucket `b` whose `i`-th byte is
  `c` sets bit `b` of `member i c`;
* lane algebra (`candidate_spec`): bit `b` of lane `j` of the candidate is set
  whenever a pattern of bucket `b` agrees with the haystack on its first
  `maskLen` bytes at the lane's offset (bytes before the window come from the
  carries, which are sound or all ones);
* `verify` at one lane is `bestAt` (`lane_find`), the window verification is
  the first non-`none` `bestAt` of its lanes (`window_eq`);
* the schedule (`mainLoop_scan`, `find_scan`) covers every offset in
  increasing order, so `find` is a left-to-right scan.
-/
namespace AcVerif
namespace PackedP

/-! ## bucket assignment -/

/-- one step of the bucket assignment fold of `Teddy.new` -/
def tStep (p : PPatterns) (n nB : Nat) (acc : List (List Nat) × List (PBytes × Nat)) (id : Nat) :
    List (List Nat) × List (PBytes × Nat) :=
  let (bs, map) := acc
  let key := ((p.get id).take n).map (· &&& 0xF)
  match map.find? (·.1 == key) with
  | some (_, b) => (bs.modify b (· ++ [id]), map)
  | none =>
    let b := (nB - 1) - (id % nB)
    (bs.modify b (· ++ [id]), map ++ [(key, b)])

/-- low-nybble fingerprint of pattern `id` -/
def keyOf (p : PPatterns) (n id : Nat) : PBytes := ((p.get id).take n).map (· &&& 0xF)

/-- bucket recorded for a fingerprint -/
def lookup (map : List (PBytes × Nat)) (key : PBytes) : Option Nat :=
  (map.find? (·.1 == key)).map (·.2)

theorem lookup_append_of_some (map ext : List (PBytes × Nat)) (key : PBytes) (b : Nat)
    (h : lookup map key = some b) : lookup (map ++ ext) key = some b := by
  unfold lookup at h ⊢
  rw [List.find?_append]
  cases hf : map.find? (·.1 == key) with
  | none => rw [hf] at h; cases h
  | some e => rw [hf] at h; simpa using h

theorem lookup_append_of_none (map : List (PBytes × Nat)) (key : PBytes) (b : Nat)
    (h : map.find? (·.1 == key) = none) : lookup (map ++ [(key, b)]) key = some b := by
  unfold lookup
  rw [List.find?_append, h]
  simp

theorem lookup_lt (map : List (PBytes × Nat)) (nB : Nat) (hmap : ∀ e ∈ map, e.2 < nB)
    (key : PBytes) (b : Nat) (h : lookup map key = some b) : b < nB := by
  unfold lookup at h
  cases hf : map.find? (·.1 == key) with
  | none => rw [hf] at h; cases h
  | some e =>
    rw [hf] at h
    have := hmap e (List.mem_of_find?_eq_some hf)
    simp at h
    omega

/-- invariant of the bucket-assignment fold after processing the ids `l` -/
structure BInv (p : PPatterns) (n nB : Nat) (l : List Nat)
    (acc : List (List Nat) × List (PBytes × Nat)) : Prop where
  len : acc.1.length = nB
  lt : ∀ e ∈ acc.2, e.2 < nB
  bucket : ∀ b, b < nB →
    acc.1.getD b [] = l.filter (fun id => lookup acc.2 (keyOf p n id) == some b)
  found : ∀ id ∈ l, (lookup acc.2 (keyOf p n id)).isSome

theorem binv_step (p : PPatterns) (n nB : Nat) (hB : 0 < nB) (l : List Nat)
    (acc : List (List Nat) × List (PBytes × Nat)) (id : Nat) (h : BInv p n nB l acc) :
    BInv p n nB (l ++ [id]) (tStep p n nB acc id) := by
  obtain ⟨bs, map⟩ := acc
  obtain ⟨h1, h2, h3, h4⟩ := h
  simp only at h1 h2 h3 h4
  unfold tStep
  simp only
  cases hf : map.find? (·.1 == ((p.get id).take n).map (· &&& 0xF)) with
  | some e =>
    obtain ⟨k', b⟩ := e
    have hlk : lookup map (keyOf p n id) = some b := by
      unfold lookup keyOf; rw [hf]; rfl
    have hb : b < nB := lookup_lt map nB h2 _ _ hlk
    refine ⟨by simp [h1], h2, ?_, ?_⟩
    · intro b' hb'
      simp only
      rw [getD_modify_append, h3 b' hb', List.filter_append, h1]
      by_cases hbb : b = b'
      · subst hbb; simp [hb, hlk]
      · simp [hbb, hlk]
    · intro id' hid'
      rcases List.mem_append.1 hid' with hid' | hid'
      · exact h4 id' hid'
      · rw [List.mem_singleton.1 hid']; simp [hlk]
  | none =>
    have hb : (nB - 1) - (id % nB) < nB := by omega
    have hlk : lookup (map ++ [(keyOf p n id, (nB - 1) - (id % nB))]) (keyOf p n id) =
        some ((nB - 1) - (id % nB)) := lookup_append_of_none map _ _ hf
    have hold : ∀ id' ∈ l, lookup (map ++ [(keyOf p n id, (nB - 1) - (id % nB))]) (keyOf p n id') =
        lookup map (keyOf p n id') := by
      intro id' hid'
      have := h4 id' hid'
      rw [Option.isSome_iff_exists] at this
      obtain ⟨b', hb'⟩ := this
      rw [hb', lookup_append_of_some _ _ _ _ hb']
    refine ⟨by simp [h1], ?_, ?_, ?_⟩
    · intro e he
      rcases List.mem_append.1 he with he | he
      · exact h2 e he
      · rw [List.mem_singleton.1 he]; exact hb
    · intro b' hb'
      show (bs.modify _ _).getD b' [] = (l ++ [id]).filter (fun id' =>
        lookup (map ++ [(keyOf p n id, (nB - 1) - (id % nB))]) (keyOf p n id') == some b')
      have hfc : l.filter (fun id' =>
          lookup (map ++ [(keyOf p n id, (nB - 1) - (id % nB))]) (keyOf p n id') == some b') =
          l.filter (fun id' => lookup map (keyOf p n id') == some b') :=
        List.filter_congr (fun id' hid' => by rw [hold id' hid'])
      have hnew : [id].filter (fun id' =>
          lookup (map ++ [(keyOf p n id, (nB - 1) - (id % nB))]) (keyOf p n id') == some b') =
          if (nB - 1) - (id % nB) = b' then [id] else [] := by
        simp [List.filter_cons, hlk]
      rw [getD_modify_append, h3 b' hb', List.filter_append, h1, hfc, hnew]
      by_cases hbb : (nB - 1) - (id % nB) = b'
      · simp [hbb, hb']
      · simp [hbb]
    · intro id' hid'
      show (lookup (map ++ [(keyOf p n id, (nB - 1) - (id % nB))]) (keyOf p n id')).isSome
      rcases List.mem_append.1 hid' with hid' | hid'
      · rw [hold id' hid']; exact h4 id' hid'
      · rw [List.mem_singleton.1 hid', hlk]; rfl

theorem binv_foldl (p : PPatterns) (n nB : Nat) (hB : 0 < nB) (l l0 : List Nat)
    (acc : List (List Nat) × List (PBytes × Nat)) (h : BInv p n nB l0 acc) :
    BInv p n nB (l0 ++ l) (l.foldl (tStep p n nB) acc) := by
  induction l generalizing l0 acc with
  | nil => simpa using h
  | cons y ys ih =>
    rw [List.foldl_cons, show l0 ++ y :: ys = (l0 ++ [y]) ++ ys by simp]
    exact ih _ _ (binv_step p n nB hB l0 acc y h)

theorem binv_init (p : PPatterns) (n nB : Nat) : BInv p n nB [] (List.replicate nB [], []) := by
  refine ⟨by simp, by simp, ?_, by simp⟩
  intro b hb
  simp [List.getD_eq_getElem?_getD, hb]

theorem teddy_buckets_eq (p : PPatterns) (nB : Nat) :
    (Teddy.new p nB).buckets =
      (p.order.foldl (tStep p (min 4 p.minLen) nB) (List.replicate nB [], [])).1 := rfl
theorem teddy_maskLen (p : PPatterns) (nB : Nat) : (Teddy.new p nB).maskLen = min 4 p.minLen := rfl
theorem teddy_pats (p : PPatterns) (nB : Nat) : (Teddy.new p nB).pats = p := rfl
theorem teddy_nBuckets (p : PPatterns) (nB : Nat) : (Teddy.new p nB).nBuckets = nB := rfl

/-- bucket of pattern `id` in the final table (a function of its fingerprint) -/
def bkOf (p : PPatterns) (nB : Nat) (id : Nat) : Option Nat :=
  lookup (p.order.foldl (tStep p (min 4 p.minLen) nB) (List.replicate nB [], [])).2
    (keyOf p (min 4 p.minLen) id)

theorem binv_final (p : PPatterns) (nB : Nat) (hB : 0 < nB) :
    BInv p (min 4 p.minLen) nB p.order
      (p.order.foldl (tStep p (min 4 p.minLen) nB) (List.replicate nB [], [])) := by
  have := binv_foldl p (min 4 p.minLen) nB hB p.order [] _ (binv_init p _ nB)
  simpa using this

theorem bkOf_congr (p : PPatterns) (nB : Nat) (id id' : Nat)
    (h : keyOf p (min 4 p.minLen) id = keyOf p (min 4 p.minLen) id') :
    bkOf p nB id = bkOf p nB id' := by
  unfold bkOf; rw [h]

theorem bkOf_lt (p : PPatterns) (nB : Nat) (hB : 0 < nB) (id : Nat) (hid : id ∈ p.order) :
    ∃ b, bkOf p nB id = some b ∧ b < nB := by
  have hinv := binv_final p nB hB
  have := hinv.found id hid
  rw [Option.isSome_iff_exists] at this
  obtain ⟨b, hb⟩ := this
  exact ⟨b, hb, lookup_lt _ nB hinv.lt _ _ hb⟩

theorem buckets_getD (p : PPatterns) (nB : Nat) (hB : 0 < nB) (b : Nat) (hb : b < nB) :
    (Teddy.new p nB).buckets.getD b [] = p.order.filter (fun id => bkOf p nB id == some b) := by
  rw [teddy_buckets_eq]
  exact (binv_final p nB hB).bucket b hb


/-! ## bits -/

theorem bit_of_testBit (x b : Nat) (h : x.testBit b = true) : (x &&& (1 <<< b) != 0) = true := by
  rw [Nat.one_shiftLeft]
  have : (x &&& 2 ^ b).testBit b = true := by
    rw [Nat.testBit_and, h, Nat.testBit_two_pow]; simp
  simp only [bne_iff_ne, ne_eq]
  intro h0
  rw [h0, Nat.zero_testBit] at this
  cases this

theorem testBit_one_shiftLeft (b : Nat) : (1 <<< b).testBit b = true := by
  rw [Nat.one_shiftLeft, Nat.testBit_two_pow]; simp

theorem testBit_allOnes (nB b : Nat) (h : b < nB) : ((1 <<< nB) - 1).testBit b = true := by
  rw [Nat.one_shiftLeft, Nat.testBit_two_pow_sub_one]; simpa using h

/-- the mask folds set bit `b` for every listed bucket `b` satisfying the condition -/
theorem mask_fold_testBit (cond : Nat → Bool) (l : List Nat) (acc b : Nat)
    (h : acc.testBit b = true ∨ (b ∈ l ∧ cond b = true)) :
    (l.foldl (fun acc b => if cond b then acc ||| (1 <<< b) else acc) acc).testBit b = true := by
  induction l generalizing acc with
  | nil =>
    rcases h with h | ⟨h, _⟩
    · exact h
    · cases h
  | cons y ys ih =>
    rw [List.foldl_cons]
    apply ih
    rcases h with h | ⟨h, hc⟩
    · left
      split
      · rw [Nat.testBit_or, h]; rfl
      · exact h
    · rcases List.mem_cons.1 h with rfl | h
      · left
        rw [if_pos hc, Nat.testBit_or, testBit_one_shiftLeft]; simp
      · exact Or.inr ⟨h, hc⟩

/-! ## mask soundness -/

/-- `v` has the bit of every bucket holding a pattern whose `i`-th byte is `c` -/
def Sup (t : Teddy) (i : Nat) (c : UInt8) (v : Nat) : Prop :=
  ∀ b, b < t.nBuckets → ∀ id ∈ t.buckets.getD b [], (t.pats.get id).getD i 0 = c →
    v.testBit b = true

theorem sup_member (t : Teddy) (i : Nat) (c : UInt8) : Sup t i c (t.member i c) := by
  intro b hb id hid hc
  unfold Teddy.member
  rw [Nat.testBit_and, Bool.and_eq_true]
  constructor
  · unfold Teddy.maskLo
    apply mask_fold_testBit
    refine Or.inr ⟨List.mem_range.2 hb, ?_⟩
    rw [List.any_eq_true]
    exact ⟨id, hid, by rw [hc]; simp⟩
  · unfold Teddy.maskHi
    apply mask_fold_testBit
    refine Or.inr ⟨List.mem_range.2 hb, ?_⟩
    rw [List.any_eq_true]
    exact ⟨id, hid, by rw [hc]; simp⟩

theorem sup_allOnes (t : Teddy) (i : Nat) (c : UInt8) : Sup t i c ((1 <<< t.nBuckets) - 1) :=
  fun b hb _ _ _ => testBit_allOnes _ b hb


/-! ## lane algebra -/

theorem getD_of_lt {α : Type} (l : List α) (j : Nat) (d : α) (h : j < l.length) :
    l.getD j d = l[j] := by
  rw [List.getD_eq_getElem?_getD, List.getElem?_eq_getElem h]; rfl

theorem getD_map0 (f : UInt8 → Nat) (l : PBytes) (j : Nat) (h : j < l.length) :
    (l.map f).getD j 0 = f (l.getD j 0) := by
  rw [getD_of_lt _ _ _ (by simpa using h), getD_of_lt _ _ _ h, List.getElem_map]

theorem chunk_length (hay : PBytes) (cur w : Nat) (hfit : cur + w ≤ hay.length) :
    ((hay.drop cur).take w).length = w := by
  rw [List.length_take, List.length_drop]; omega

theorem chunk_getD (hay : PBytes) (cur w l : Nat) (hl : l < w) :
    ((hay.drop cur).take w).getD l 0 = hay.getD (cur + l) 0 := by
  rw [List.getD_eq_getElem?_getD, List.getD_eq_getElem?_getD, List.getElem?_take_of_lt hl,
    List.getElem?_drop]

theorem getD_zipWith_and (a v : List Nat) (j : Nat) (ha : j < a.length) (hv : j < v.length) :
    (List.zipWith (· &&& ·) a v).getD j 0 = a.getD j 0 &&& v.getD j 0 := by
  rw [getD_of_lt _ _ _ (by rw [List.length_zipWith]; omega), getD_of_lt _ _ _ ha,
    getD_of_lt _ _ _ hv, List.getElem_zipWith]

theorem foldl_zipWith_and (vs : List (List Nat)) (acc : List Nat) (w : Nat) (hacc : acc.length = w)
    (hvs : ∀ v ∈ vs, v.length = w) :
    (vs.foldl (fun a v => List.zipWith (· &&& ·) a v) acc).length = w ∧
    ∀ j b, j < w → (acc.getD j 0).testBit b = true →
      (∀ v ∈ vs, (v.getD j 0).testBit b = true) →
      ((vs.foldl (fun a v => List.zipWith (· &&& ·) a v) acc).getD j 0).testBit b = true := by
  induction vs generalizing acc with
  | nil => exact ⟨hacc, fun j b _ h _ => h⟩
  | cons v vs ih =>
    have hv := hvs v (by simp)
    have hlen : (List.zipWith (· &&& ·) acc v).length = w := by
      rw [List.length_zipWith]; omega
    obtain ⟨h1, h2⟩ := ih (List.zipWith (· &&& ·) acc v) hlen
      (fun v' hv' => hvs v' (List.mem_cons_of_mem _ hv'))
    rw [List.foldl_cons]
    refine ⟨h1, ?_⟩
    intro j b hj hacc' hall
    apply h2 j b hj
    · rw [getD_zipWith_and _ _ _ (by omega) (by omega), Nat.testBit_and, hacc',
        hall v (by simp)]
      rfl
    · exact fun v' hv' => hall v' (List.mem_cons_of_mem _ hv')

theorem shiftIn_length (k : Nat) (cur prev : List Nat) (w : Nat) (hc : cur.length = w)
    (hp : prev.length = w) (hk : k ≤ w) : (shiftIn k cur prev).length = w := by
  unfold shiftIn
  rw [List.length_append, List.length_drop, List.length_take]; omega

theorem shiftIn_getD (k : Nat) (cur prev : List Nat) (w j : Nat) (hc : cur.length = w)
    (hp : prev.length = w) (hk : k ≤ w) (hj : j < w) :
    (shiftIn k cur prev).getD j 0 =
      if j < k then prev.getD (w - k + j) 0 else cur.getD (j - k) 0 := by
  unfold shiftIn
  rw [List.getD_eq_getElem?_getD, List.getD_eq_getElem?_getD, List.getD_eq_getElem?_getD]
  have hdl : (prev.drop (prev.length - k)).length = k := by rw [List.length_drop]; omega
  split
  · rename_i hjk
    rw [List.getElem?_append_left (by omega), List.getElem?_drop, hp]
  · rename_i hjk
    rw [List.getElem?_append_right (by omega), hdl, List.getElem?_take_of_lt (by omega)]


/-- the per-index member vectors of a window -/
def resOf (t : Teddy) (chunk : PBytes) : List (List Nat) :=
  (List.range t.maskLen).map fun i => chunk.map (t.member i)

/-- the shifted member vectors of a window -/
def shiftedOf (t : Teddy) (chunk : PBytes) (prevs : List (List Nat)) : List (List Nat) :=
  (List.range t.maskLen).map fun i =>
    if i + 1 < t.maskLen then
      shiftIn (t.maskLen - 1 - i) ((resOf t chunk).getD i []) (prevs.getD i [])
    else (resOf t chunk).getD i []

theorem candidate_fst (t : Teddy) (chunk : PBytes) (prevs : List (List Nat)) :
    (t.candidate chunk prevs).1 =
      (shiftedOf t chunk prevs).foldl (fun acc v => List.zipWith (· &&& ·) acc v)
        (allOnes t.nBuckets chunk.length) := rfl

theorem candidate_snd (t : Teddy) (chunk : PBytes) (prevs : List (List Nat)) :
    (t.candidate chunk prevs).2 = (resOf t chunk).take (t.maskLen - 1) := rfl

theorem resOf_getD (t : Teddy) (chunk : PBytes) (i : Nat) (hi : i < t.maskLen) :
    (resOf t chunk).getD i [] = chunk.map (t.member i) := by
  unfold resOf
  rw [List.getD_eq_getElem?_getD, List.getElem?_map, List.getElem?_range hi]
  rfl

/-- the carries at window position `cur`: lane `l` of carry `i` is sound for the byte `w` before
lane `l` of the window (either a member vector of the previous window or all ones) -/
def CarryOK (t : Teddy) (hay : PBytes) (w cur : Nat) (prevs : List (List Nat)) : Prop :=
  ∀ i, i + 1 < t.maskLen → (prevs.getD i []).length = w ∧
    ∀ l, l < w → Sup t i (hay.getD (cur + l - w) 0) ((prevs.getD i []).getD l 0)

theorem carryOK_init (t : Teddy) (hay : PBytes) (w cur : Nat) :
    CarryOK t hay w cur (List.replicate (t.maskLen - 1) (allOnes t.nBuckets w)) := by
  intro i hi
  have hg : (List.replicate (t.maskLen - 1) (allOnes t.nBuckets w)).getD i [] =
      allOnes t.nBuckets w := by
    rw [List.getD_eq_getElem?_getD, List.getElem?_replicate, if_pos (by omega)]; rfl
  rw [hg]
  refine ⟨by simp [allOnes], ?_⟩
  intro l hl
  have : (allOnes t.nBuckets w).getD l 0 = (1 <<< t.nBuckets) - 1 := by
    unfold allOnes
    rw [List.getD_eq_getElem?_getD, List.getElem?_replicate, if_pos hl]; rfl
  rw [this]
  exact sup_allOnes t i _

/-- lane `j` of the `i`-th shifted vector is sound for the byte at offset `i` of the lane's position -/
theorem shifted_sup (t : Teddy) (hay : PBytes) (w cur : Nat) (prevs : List (List Nat))
    (hfit : cur + w ≤ hay.length) (hn1 : t.maskLen - 1 ≤ cur) (hnw : t.maskLen - 1 ≤ w)
    (hc : CarryOK t hay w cur prevs) (i : Nat) (hi : i < t.maskLen) :
    let v := if i + 1 < t.maskLen then
        shiftIn (t.maskLen - 1 - i) ((resOf t ((hay.drop cur).take w)).getD i []) (prevs.getD i [])
      else (resOf t ((hay.drop cur).take w)).getD i []
    v.length = w ∧ ∀ j, j < w →
      Sup t i (hay.getD (cur - (t.maskLen - 1) + j + i) 0) (v.getD j 0) := by
  intro v
  have hcl := chunk_length hay cur w hfit
  have hres : (resOf t ((hay.drop cur).take w)).getD i [] =
      ((hay.drop cur).take w).map (t.member i) := resOf_getD t _ i hi
  have hresl : ((resOf t ((hay.drop cur).take w)).getD i []).length = w := by
    rw [hres, List.length_map, hcl]
  have hresg : ∀ l, l < w → ((resOf t ((hay.drop cur).take w)).getD i []).getD l 0 =
      t.member i (hay.getD (cur + l) 0) := by
    intro l hl
    rw [hres, getD_map0 _ _ _ (by omega), chunk_getD hay cur w l hl]
  by_cases hi1 : i + 1 < t.maskLen
  · have hv : v = shiftIn (t.maskLen - 1 - i) ((resOf t ((hay.drop cur).take w)).getD i [])
        (prevs.getD i []) := if_pos hi1
    obtain ⟨hp1, hp2⟩ := hc i hi1
    rw [hv]
    refine ⟨shiftIn_length _ _ _ w hresl hp1 (by omega), ?_⟩
    intro j hj
    rw [shiftIn_getD _ _ _ w j hresl hp1 (by omega) hj]
    split
    · rename_i hjk
      have := hp2 (w - (t.maskLen - 1 - i) + j) (by omega)
      rw [show cur + (w - (t.maskLen - 1 - i) + j) - w = cur - (t.maskLen - 1) + j + i by omega]
        at this
      exact this
    · rename_i hjk
      rw [hresg _ (by omega),
        show cur + (j - (t.maskLen - 1 - i)) = cur - (t.maskLen - 1) + j + i by omega]
      exact sup_member t i _
  · have hv : v = (resOf t ((hay.drop cur).take w)).getD i [] := if_neg hi1
    rw [hv]
    refine ⟨hresl, ?_⟩
    intro j hj
    rw [hresg j hj, show cur + j = cur - (t.maskLen - 1) + j + i by omega]
    exact sup_member t i _

theorem candidate_spec (t : Teddy) (hay : PBytes) (w cur : Nat) (prevs : List (List Nat))
    (hfit : cur + w ≤ hay.length) (hn1 : t.maskLen - 1 ≤ cur) (hnw : t.maskLen - 1 ≤ w)
    (hc : CarryOK t hay w cur prevs) :
    (t.candidate ((hay.drop cur).take w) prevs).1.length = w ∧
    (∀ j, j < w → ∀ b, b < t.nBuckets → ∀ id ∈ t.buckets.getD b [],
      (∀ i, i < t.maskLen →
        (t.pats.get id).getD i 0 = hay.getD (cur - (t.maskLen - 1) + j + i) 0) →
      ((t.candidate ((hay.drop cur).take w) prevs).1.getD j 0).testBit b = true) ∧
    CarryOK t hay w (cur + w) (t.candidate ((hay.drop cur).take w) prevs).2 := by
  have hcl := chunk_length hay cur w hfit
  have hvs : ∀ v ∈ shiftedOf t ((hay.drop cur).take w) prevs, v.length = w := by
    intro v hv
    unfold shiftedOf at hv
    rw [List.mem_map] at hv
    obtain ⟨i, hi, rfl⟩ := hv
    exact (shifted_sup t hay w cur prevs hfit hn1 hnw hc i (List.mem_range.1 hi)).1
  have hao : (allOnes t.nBuckets ((hay.drop cur).take w).length).length = w := by
    simp [allOnes, hcl]
  obtain ⟨f1, f2⟩ := foldl_zipWith_and _ _ w hao hvs
  rw [candidate_fst, candidate_snd]
  refine ⟨f1, ?_, ?_⟩
  · intro j hj b hb id hid hbytes
    apply f2 j b hj
    · unfold allOnes
      rw [List.getD_eq_getElem?_getD, List.getElem?_replicate, if_pos (by omega)]
      exact testBit_allOnes _ b hb
    · intro v hv
      unfold shiftedOf at hv
      rw [List.mem_map] at hv
      obtain ⟨i, hi, rfl⟩ := hv
      have hi' := List.mem_range.1 hi
      exact (shifted_sup t hay w cur prevs hfit hn1 hnw hc i hi').2 j hj b hb id hid
        (hbytes i hi')
  · intro i hi
    have hg : ((resOf t ((hay.drop cur).take w)).take (t.maskLen - 1)).getD i [] =
        ((hay.drop cur).take w).map (t.member i) := by
      rw [List.getD_eq_getElem?_getD, List.getElem?_take_of_lt (by omega),
        ← List.getD_eq_getElem?_getD, resOf_getD t _ i (by omega)]
    rw [hg]
    refine ⟨by rw [List.length_map, hcl], ?_⟩
    intro l hl
    rw [getD_map0 _ _ _ (by omega), chunk_getD hay cur w l hl,
      show cur + w + l - w = cur + l by omega]
    exact sup_member t i _


/-! ## verification -/

theorem range_findSome?_none {β : Type} (g : Nat → Option β) (n : Nat) :
    (List.range n).findSome? g = none ↔ ∀ j, j < n → g j = none := by
  rw [List.findSome?_eq_none_iff]
  constructor
  · exact fun h j hj => h j (List.mem_range.2 hj)
  · exact fun h j hj => h j (List.mem_range.1 hj)

theorem range_findSome?_single {β : Type} (g : Nat → Option β) (n b0 : Nat) (hb0 : b0 < n)
    (h : ∀ b, b < n → b ≠ b0 → g b = none) : (List.range n).findSome? g = g b0 := by
  induction n with
  | zero => omega
  | succ n ih =>
    rw [List.range_succ, List.findSome?_append]
    rcases Nat.eq_or_lt_of_le (Nat.le_of_lt_succ hb0) with rfl | hlt
    · rw [(range_findSome?_none g b0).2 (fun j hj => h j (by omega) (by omega))]
      simp only [List.findSome?_cons, List.findSome?_nil, Option.none_or]
      cases g b0 <;> rfl
    · rw [ih hlt (fun b hb hne => h b (by omega) hne)]
      simp only [List.findSome?_cons, List.findSome?_nil, h n (by omega) (by omega)]
      cases g b0 <;> rfl

theorem range_findSome?_some {β : Type} (g : Nat → Option β) (n : Nat) (v : β)
    (h : (List.range n).findSome? g = some v) :
    ∃ j, j < n ∧ g j = some v ∧ ∀ j', j' < j → g j' = none := by
  induction n with
  | zero => simp at h
  | succ n ih =>
    rw [List.range_succ, List.findSome?_append] at h
    cases hA : (List.range n).findSome? g with
    | some v' =>
      rw [hA] at h
      simp only [Option.some_or, Option.some.injEq] at h
      subst h
      obtain ⟨j, hj, h1, h2⟩ := ih hA
      exact ⟨j, by omega, h1, h2⟩
    | none =>
      rw [hA] at h
      simp only [Option.none_or, List.findSome?_cons, List.findSome?_nil] at h
      refine ⟨n, by omega, ?_, (range_findSome?_none g n).1 hA⟩
      cases hg : g n with
      | none => rw [hg] at h; cases h
      | some v' => rw [hg] at h; exact h

theorem prefix_getD (p l : PBytes) (pos i : Nat) (h : p <+: l.drop pos) (hi : i < p.length) :
    p.getD i 0 = l.getD (pos + i) 0 := by
  obtain ⟨t, ht⟩ := h
  rw [List.getD_eq_getElem?_getD, List.getD_eq_getElem?_getD, ← List.getElem?_drop, ← ht,
    List.getElem?_append_left hi]

variable (kind : PKind) (pats : List PBytes)

theorem vf_ne_none_prefix (hay : PBytes) (pos id : Nat)
    (h : vf (PPatterns.new kind pats) hay pos id ≠ none) : pats.getD id [] <+: hay.drop pos := by
  unfold vf at h
  split at h
  · rename_i hp
    rw [new_get] at hp
    unfold isPrefixAt at hp
    exact List.isPrefixOf_iff_prefix.1 hp
  · exact absurd rfl h

/-- patterns verified at one offset have the fingerprint of the haystack there -/
theorem keyOf_of_vf (hay : PBytes) (pos id : Nat) (hid : id < pats.length)
    (h : vf (PPatterns.new kind pats) hay pos id ≠ none) :
    keyOf (PPatterns.new kind pats) (min 4 (PPatterns.new kind pats).minLen) id =
      ((hay.drop pos).take (min 4 (PPatterns.new kind pats).minLen)).map (· &&& 0xF) := by
  unfold keyOf
  rw [new_get, take_eq_of_prefix _ _ _ (vf_ne_none_prefix kind pats hay pos id h)
    (by have := minLen_le kind pats id hid; omega)]

theorem mem_bucket (nB : Nat) (hB : 0 < nB) (b : Nat) (hb : b < nB) (id : Nat) :
    id ∈ (Teddy.new (PPatterns.new kind pats) nB).buckets.getD b [] ↔
      id < pats.length ∧ bkOf (PPatterns.new kind pats) nB id = some b := by
  rw [buckets_getD _ nB hB b hb, List.mem_filter, mem_order]
  simp

/-- verification of one lane yields the first verified pattern of `order`, provided the lane has
the bit of every bucket holding a pattern that occurs there -/
theorem lane_find (nB : Nat) (hB : 0 < nB) (hay : PBytes) (pos x : Nat)
    (hx : ∀ b, b < nB → ∀ id ∈ (Teddy.new (PPatterns.new kind pats) nB).buckets.getD b [],
      vf (PPatterns.new kind pats) hay pos id ≠ none → x.testBit b = true) :
    (List.range nB).findSome? (fun b =>
      if x &&& (1 <<< b) != 0 then
        ((Teddy.new (PPatterns.new kind pats) nB).buckets.getD b []).findSome?
          (vf (PPatterns.new kind pats) hay pos)
      else none) = bestAt (PPatterns.new kind pats) hay pos := by
  by_cases hex : ∃ id, id < pats.length ∧ vf (PPatterns.new kind pats) hay pos id ≠ none
  · obtain ⟨id0, hid0, hm0⟩ := hex
    obtain ⟨b0, hbk0, hb0⟩ := bkOf_lt (PPatterns.new kind pats) nB hB id0
      ((mem_order kind pats id0).2 hid0)
    have hsame : ∀ id, id < pats.length → vf (PPatterns.new kind pats) hay pos id ≠ none →
        bkOf (PPatterns.new kind pats) nB id = some b0 := by
      intro id hid hm
      rw [← hbk0]
      apply bkOf_congr
      rw [keyOf_of_vf kind pats hay pos id hid hm, keyOf_of_vf kind pats hay pos id0 hid0 hm0]
    rw [range_findSome?_single _ nB b0 hb0]
    · have hbit := hx b0 hb0 id0 ((mem_bucket kind pats nB hB b0 hb0 id0).2 ⟨hid0, hbk0⟩) hm0
      rw [if_pos (bit_of_testBit x b0 hbit), buckets_getD _ nB hB b0 hb0, findSome?_filter']
      unfold bestAt
      apply findSome?_congr
      intro id hid
      have hid' := (mem_order kind pats id).1 hid
      by_cases hm : vf (PPatterns.new kind pats) hay pos id = none
      · rw [hm]; split <;> rfl
      · rw [hsame id hid' hm]; simp
    · intro b hb hne
      split
      · apply findSome?_eq_none_of_forall
        intro id hid
        obtain ⟨h1, h2⟩ := (mem_bucket kind pats nB hB b hb id).1 hid
        by_cases hm : vf (PPatterns.new kind pats) hay pos id = none
        · exact hm
        · rw [hsame id h1 hm] at h2
          exact absurd (Option.some.inj h2).symm hne
      · rfl
  · have hnone : ∀ id, id < pats.length → vf (PPatterns.new kind pats) hay pos id = none := by
      intro id hid
      by_cases hm : vf (PPatterns.new kind pats) hay pos id = none
      · exact hm
      · exact absurd ⟨id, hid, hm⟩ hex
    have hb : bestAt (PPatterns.new kind pats) hay pos = none := by
      unfold bestAt
      apply findSome?_eq_none_of_forall
      exact fun id hid => hnone id ((mem_order kind pats id).1 hid)
    rw [hb, range_findSome?_none]
    intro b hb
    split
    · apply findSome?_eq_none_of_forall
      intro id hid
      exact hnone id ((mem_bucket kind pats nB hB b hb id).1 hid).1
    · rfl

theorem verify_eq (t : Teddy) (hay : PBytes) (base : Nat) (cand : List Nat) :
    t.verify hay base cand = (List.range cand.length).findSome? fun j =>
      (List.range t.nBuckets).findSome? fun b =>
        if (cand.getD j 0) &&& (1 <<< b) != 0 then
          (t.buckets.getD b []).findSome? (vf t.pats hay (base + j))
        else none := rfl

/-- the verification of a window whose candidate is complete is the first non-`none` `bestAt` of
its lanes -/
theorem window_eq (nB : Nat) (hB : 0 < nB) (hay : PBytes) (base : Nat) (cand : List Nat)
    (hcomp : ∀ j, j < cand.length → ∀ b, b < nB →
      ∀ id ∈ (Teddy.new (PPatterns.new kind pats) nB).buckets.getD b [],
        vf (PPatterns.new kind pats) hay (base + j) id ≠ none →
        (cand.getD j 0).testBit b = true) :
    (if cand.all (· == 0) then none
      else (Teddy.new (PPatterns.new kind pats) nB).verify hay base cand) =
      (List.range cand.length).findSome? (fun j =>
        bestAt (PPatterns.new kind pats) hay (base + j)) := by
  have hv : (Teddy.new (PPatterns.new kind pats) nB).verify hay base cand =
      (List.range cand.length).findSome? (fun j =>
        bestAt (PPatterns.new kind pats) hay (base + j)) := by
    rw [verify_eq]
    apply findSome?_congr
    intro j hj
    exact lane_find kind pats nB hB hay (base + j) (cand.getD j 0)
      (hcomp j (List.mem_range.1 hj))
  split
  · rename_i hall
    symm
    rw [range_findSome?_none]
    intro j hj
    cases hb : bestAt (PPatterns.new kind pats) hay (base + j) with
    | none => rfl
    | some m =>
      exfalso
      unfold bestAt at hb
      obtain ⟨id, hid, hm⟩ := List.exists_of_findSome?_eq_some hb
      have hid' := (mem_order kind pats id).1 hid
      obtain ⟨b, hbk, hblt⟩ := bkOf_lt (PPatterns.new kind pats) nB hB id hid
      have hbit := hcomp j hj b hblt id ((mem_bucket kind pats nB hB b hblt id).2 ⟨hid', hbk⟩)
        (by rw [hm]; exact fun h => by cases h)
      rw [List.all_eq_true] at hall
      have hz := hall (cand.getD j 0) (by rw [getD_of_lt _ _ _ hj]; exact List.getElem_mem hj)
      rw [beq_iff_eq] at hz
      rw [hz, Nat.zero_testBit] at hbit
      cases hbit
  · exact hv


/-! ## the window schedule -/

theorem mainLoop_zero (t : Teddy) (hay : PBytes) (w cur : Nat) (prevs : List (List Nat))
    (loads : List Nat) : t.mainLoop hay w 0 cur prevs loads = (none, cur, loads) := rfl

theorem mainLoop_succ (t : Teddy) (hay : PBytes) (w fuel cur : Nat) (prevs : List (List Nat))
    (loads : List Nat) :
    t.mainLoop hay w (fuel + 1) cur prevs loads =
      if cur + w ≤ hay.length then
        match (if (t.candidate ((hay.drop cur).take w) prevs).1.all (· == 0) then none
          else t.verify hay (cur - (t.maskLen - 1)) (t.candidate ((hay.drop cur).take w) prevs).1) with
        | some m => (some m, cur, loads ++ [cur])
        | none => t.mainLoop hay w fuel (cur + w) (t.candidate ((hay.drop cur).take w) prevs).2
            (loads ++ [cur])
      else (none, cur, loads) := rfl

theorem findT_eq (t : Teddy) (hay : PBytes) (st w : Nat) :
    t.findT hay st w =
      match t.mainLoop hay w (hay.length / w + 2) (st + (t.maskLen - 1))
          (List.replicate (t.maskLen - 1) (allOnes t.nBuckets w)) [] with
      | (some m, _, loads) => (some m, loads)
      | (none, cur, loads) =>
        if cur < hay.length then
          (if (t.candidate ((hay.drop (hay.length - w)).take w)
              (List.replicate (t.maskLen - 1) (allOnes t.nBuckets w))).1.all (· == 0) then none
            else t.verify hay (hay.length - w - (t.maskLen - 1))
              (t.candidate ((hay.drop (hay.length - w)).take w)
                (List.replicate (t.maskLen - 1) (allOnes t.nBuckets w))).1, loads ++ [hay.length - w])
        else (none, loads) := rfl

variable (kind : PKind) (pats : List PBytes)

/-- a window with sound carries: its verification is the first non-`none` `bestAt` of its `w`
lanes, and its new carries are sound for the next window -/
theorem window_spec (nB : Nat) (hB : 0 < nB) (hay : PBytes) (w cur : Nat)
    (prevs : List (List Nat)) (hfit : cur + w ≤ hay.length)
    (hn1 : (Teddy.new (PPatterns.new kind pats) nB).maskLen - 1 ≤ cur)
    (hnw : (Teddy.new (PPatterns.new kind pats) nB).maskLen - 1 ≤ w)
    (hc : CarryOK (Teddy.new (PPatterns.new kind pats) nB) hay w cur prevs) :
    (if ((Teddy.new (PPatterns.new kind pats) nB).candidate ((hay.drop cur).take w) prevs).1.all
        (· == 0) then none
      else (Teddy.new (PPatterns.new kind pats) nB).verify hay
        (cur - ((Teddy.new (PPatterns.new kind pats) nB).maskLen - 1))
        ((Teddy.new (PPatterns.new kind pats) nB).candidate ((hay.drop cur).take w) prevs).1) =
      (List.range w).findSome? (fun j => bestAt (PPatterns.new kind pats) hay
        (cur - ((Teddy.new (PPatterns.new kind pats) nB).maskLen - 1) + j)) ∧
    CarryOK (Teddy.new (PPatterns.new kind pats) nB) hay w (cur + w)
      ((Teddy.new (PPatterns.new kind pats) nB).candidate ((hay.drop cur).take w) prevs).2 := by
  obtain ⟨h1, h2, h3⟩ := candidate_spec _ hay w cur prevs hfit hn1 hnw hc
  refine ⟨?_, h3⟩
  rw [window_eq kind pats nB hB hay _ _ ?_, h1]
  intro j hj b hb id hid hm
  rw [h1] at hj
  apply h2 j hj b hb id hid
  intro i hi
  have hlt := ((mem_bucket kind pats nB hB b hb id).1 hid).1
  have hlen := minLen_le kind pats id hlt
  rw [teddy_maskLen] at hi
  rw [teddy_pats, new_get]
  exact prefix_getD (pats.getD id []) hay _ i (vf_ne_none_prefix kind pats hay _ id hm) (by omega)

/-- outcome of the main loop started at window position `lo + (n-1)`: a match preceded only by
rejected offsets, or all offsets up to the stopping position rejected -/
def LoopRes (p : PPatterns) (hay : PBytes) (n w lo : Nat) (r : Option Mat × Nat × List Nat) : Prop :=
  match r.1 with
  | some m => lo ≤ m.start ∧ bestAt p hay m.start = some m ∧
      ∀ pos, lo ≤ pos → pos < m.start → bestAt p hay pos = none
  | none => n - 1 ≤ r.2.1 ∧ hay.length < r.2.1 + w ∧
      ∀ pos, lo ≤ pos → pos + (n - 1) < r.2.1 → bestAt p hay pos = none

theorem loopRes_none (p : PPatterns) (hay : PBytes) (n w lo c : Nat) (l : List Nat) :
    LoopRes p hay n w lo (none, c, l) ↔ (n - 1 ≤ c ∧ hay.length < c + w ∧
      ∀ pos, lo ≤ pos → pos + (n - 1) < c → bestAt p hay pos = none) := Iff.rfl

theorem loopRes_some (p : PPatterns) (hay : PBytes) (n w lo c : Nat) (l : List Nat) (m : Mat) :
    LoopRes p hay n w lo (some m, c, l) ↔ (lo ≤ m.start ∧ bestAt p hay m.start = some m ∧
      ∀ pos, lo ≤ pos → pos < m.start → bestAt p hay pos = none) := Iff.rfl

theorem loopRes_mono (p : PPatterns) (hay : PBytes) (n w lo lo' : Nat)
    (r : Option Mat × Nat × List Nat) (hle : lo ≤ lo')
    (hnone : ∀ pos, lo ≤ pos → pos < lo' → bestAt p hay pos = none)
    (h : LoopRes p hay n w lo' r) : LoopRes p hay n w lo r := by
  obtain ⟨a, c, l⟩ := r
  cases a with
  | some m =>
    obtain ⟨h1, h2, h3⟩ := h
    refine ⟨Nat.le_trans hle h1, h2, ?_⟩
    intro pos g1 g2
    rcases Nat.lt_or_ge pos lo' with hlt | hge
    · exact hnone pos g1 hlt
    · exact h3 pos hge g2
  | none =>
    obtain ⟨h1, h2, h3⟩ := h
    refine ⟨h1, h2, ?_⟩
    intro pos g1 g2
    rcases Nat.lt_or_ge pos lo' with hlt | hge
    · exact hnone pos g1 hlt
    · exact h3 pos hge g2

theorem mainLoop_scan (nB : Nat) (hB : 0 < nB) (hay : PBytes) (w : Nat)
    (hnw : (Teddy.new (PPatterns.new kind pats) nB).maskLen - 1 ≤ w)
    (fuel cur : Nat) (prevs : List (List Nat)) (loads : List Nat)
    (hn1 : (Teddy.new (PPatterns.new kind pats) nB).maskLen - 1 ≤ cur)
    (hc : CarryOK (Teddy.new (PPatterns.new kind pats) nB) hay w cur prevs)
    (hfuel : hay.length < fuel * w + cur + w) :
    LoopRes (PPatterns.new kind pats) hay (Teddy.new (PPatterns.new kind pats) nB).maskLen w
      (cur - ((Teddy.new (PPatterns.new kind pats) nB).maskLen - 1))
      ((Teddy.new (PPatterns.new kind pats) nB).mainLoop hay w fuel cur prevs loads) := by
  induction fuel generalizing cur prevs loads with
  | zero =>
    rw [mainLoop_zero, loopRes_none]
    refine ⟨hn1, by omega, ?_⟩
    intro pos g1 g2
    omega
  | succ fuel ih =>
    rw [mainLoop_succ]
    split
    · rename_i hfit
      obtain ⟨hwin, hc'⟩ := window_spec kind pats nB hB hay w cur prevs hfit hn1 hnw hc
      rw [hwin]
      cases hR : (List.range w).findSome? (fun j => bestAt (PPatterns.new kind pats) hay
          (cur - ((Teddy.new (PPatterns.new kind pats) nB).maskLen - 1) + j)) with
      | some m =>
        obtain ⟨j, hj, h1, h2⟩ := range_findSome?_some _ _ _ hR
        have hs := bestAt_start _ _ _ _ h1
        refine ⟨by omega, by rw [hs]; exact h1, ?_⟩
        intro pos g1 g2
        have := h2 (pos - (cur - ((Teddy.new (PPatterns.new kind pats) nB).maskLen - 1)))
          (by omega)
        rw [show cur - ((Teddy.new (PPatterns.new kind pats) nB).maskLen - 1) +
          (pos - (cur - ((Teddy.new (PPatterns.new kind pats) nB).maskLen - 1))) = pos by omega]
          at this
        exact this
      | none =>
        have hnone := (range_findSome?_none _ _).1 hR
        have hrec := ih (cur + w) _ (loads ++ [cur]) (by omega) hc'
          (by rw [Nat.succ_mul] at hfuel; omega)
        apply loopRes_mono _ _ _ _ _ _ _ (by omega) ?_ hrec
        intro pos g1 g2
        have := hnone (pos - (cur - ((Teddy.new (PPatterns.new kind pats) nB).maskLen - 1)))
          (by omega)
        rw [show cur - ((Teddy.new (PPatterns.new kind pats) nB).maskLen - 1) +
          (pos - (cur - ((Teddy.new (PPatterns.new kind pats) nB).maskLen - 1))) = pos by omega]
          at this
        exact this
    · rename_i hfit
      rw [loopRes_none]
      refine ⟨hn1, by omega, ?_⟩
      intro pos g1 g2
      omega


theorem scanRes_none (p : PPatterns) (hay : PBytes) (lo k : Nat) :
    ScanRes p hay lo k none ↔
      ∀ pos, lo ≤ pos → pos + k ≤ hay.length → bestAt p hay pos = none := Iff.rfl

theorem scanRes_some (p : PPatterns) (hay : PBytes) (lo k : Nat) (m : Mat) :
    ScanRes p hay lo k (some m) ↔ (lo ≤ m.start ∧ bestAt p hay m.start = some m ∧
      ∀ pos, lo ≤ pos → pos < m.start → bestAt p hay pos = none) := Iff.rfl

theorem fuel_enough (len w : Nat) (hw : 0 < w) : len < (len / w + 2) * w := by
  have h1 := Nat.div_add_mod len w
  have h2 := Nat.mod_lt len hw
  rw [Nat.add_mul, Nat.mul_comm (len / w) w]
  omega

variable (kind : PKind) (pats : List PBytes)

theorem teddy_maskLen_pos (hnz : ∀ p ∈ pats, p ≠ []) (nB : Nat) :
    0 < (Teddy.new (PPatterns.new kind pats) nB).maskLen := by
  rw [teddy_maskLen]
  have := minLen_pos kind pats hnz
  omega

theorem teddy_maskLen_le (nB : Nat) :
    (Teddy.new (PPatterns.new kind pats) nB).maskLen ≤ (PPatterns.new kind pats).minLen ∧
    (Teddy.new (PPatterns.new kind pats) nB).maskLen ≤ 4 := by
  rw [teddy_maskLen]; omega

/-- `Teddy.find` is a left-to-right scan of the offsets where `maskLen` bytes fit -/
theorem find_scan (hnz : ∀ p ∈ pats, p ≠ []) (nB : Nat) (hB : 0 < nB) (hay : PBytes) (st w : Nat)
    (hw : 0 < w) (hnw : (Teddy.new (PPatterns.new kind pats) nB).maskLen - 1 ≤ w)
    (hlen : st + w + ((Teddy.new (PPatterns.new kind pats) nB).maskLen - 1) ≤ hay.length) :
    ScanRes (PPatterns.new kind pats) hay st (Teddy.new (PPatterns.new kind pats) nB).maskLen
      ((Teddy.new (PPatterns.new kind pats) nB).find hay st w) := by
  have hnpos := teddy_maskLen_pos kind pats hnz nB
  have hloop := mainLoop_scan kind pats nB hB hay w hnw (hay.length / w + 2)
    (st + ((Teddy.new (PPatterns.new kind pats) nB).maskLen - 1))
    (List.replicate ((Teddy.new (PPatterns.new kind pats) nB).maskLen - 1)
      (allOnes (Teddy.new (PPatterns.new kind pats) nB).nBuckets w)) [] (by omega)
    (carryOK_init _ hay w _) (by have := fuel_enough hay.length w hw; omega)
  rw [Nat.add_sub_cancel] at hloop
  unfold Teddy.find
  rw [findT_eq]
  revert hloop
  generalize (Teddy.new (PPatterns.new kind pats) nB).mainLoop hay w (hay.length / w + 2)
    (st + ((Teddy.new (PPatterns.new kind pats) nB).maskLen - 1))
    (List.replicate ((Teddy.new (PPatterns.new kind pats) nB).maskLen - 1)
      (allOnes (Teddy.new (PPatterns.new kind pats) nB).nBuckets w)) [] = r
  intro hloop
  obtain ⟨a, c, l⟩ := r
  cases a with
  | some m => exact (loopRes_some _ _ _ _ _ _ _ _).1 hloop
  | none =>
    obtain ⟨h1, h2, h3⟩ := (loopRes_none _ _ _ _ _ _ _).1 hloop
    dsimp only
    split
    · rename_i hc
      obtain ⟨hwin, _⟩ := window_spec kind pats nB hB hay w (hay.length - w)
        (List.replicate ((Teddy.new (PPatterns.new kind pats) nB).maskLen - 1)
          (allOnes (Teddy.new (PPatterns.new kind pats) nB).nBuckets w))
        (by omega) (by omega) hnw (carryOK_init _ hay w _)
      dsimp only
      rw [hwin]
      cases hR : (List.range w).findSome? (fun j => bestAt (PPatterns.new kind pats) hay
          (hay.length - w - ((Teddy.new (PPatterns.new kind pats) nB).maskLen - 1) + j)) with
      | none =>
        have hnone := (range_findSome?_none _ _).1 hR
        rw [scanRes_none]
        intro pos g1 g2
        rcases Nat.lt_or_ge pos
          (hay.length - w - ((Teddy.new (PPatterns.new kind pats) nB).maskLen - 1)) with hlt | hge
        · exact h3 pos g1 (by omega)
        · have := hnone (pos -
            (hay.length - w - ((Teddy.new (PPatterns.new kind pats) nB).maskLen - 1))) (by omega)
          rw [show hay.length - w - ((Teddy.new (PPatterns.new kind pats) nB).maskLen - 1) +
            (pos - (hay.length - w - ((Teddy.new (PPatterns.new kind pats) nB).maskLen - 1))) =
            pos by omega] at this
          exact this
      | some m =>
        obtain ⟨j, hj, g1, g2⟩ := range_findSome?_some _ _ _ hR
        have hs := bestAt_start _ _ _ _ g1
        rw [scanRes_some]
        refine ⟨by omega, by rw [hs]; exact g1, ?_⟩
        intro pos k1 k2
        rcases Nat.lt_or_ge pos
          (hay.length - w - ((Teddy.new (PPatterns.new kind pats) nB).maskLen - 1)) with hlt | hge
        · exact h3 pos k1 (by omega)
        · have := g2 (pos -
            (hay.length - w - ((Teddy.new (PPatterns.new kind pats) nB).maskLen - 1))) (by omega)
          rw [show hay.length - w - ((Teddy.new (PPatterns.new kind pats) nB).maskLen - 1) +
            (pos - (hay.length - w - ((Teddy.new (PPatterns.new kind pats) nB).maskLen - 1))) =
            pos by omega] at this
          exact this
    · rename_i hc
      rw [scanRes_none]
      intro pos g1 g2
      exact h3 pos g1 (by omega)

theorem teddy_find_isFind (hnz : ∀ p ∈ pats, p ≠ []) (nB : Nat) (hB : 0 < nB) (w : Nat)
    (hw : 0 < w) (hw3 : 3 ≤ w) (hay : PBytes) (st en : Nat) (hen : en ≤ hay.length)
    (hlen : st + w + (min 4 (PPatterns.new kind pats).minLen - 1) ≤ en) :
    IsFind kind.toMatchKind pats hay st en false
      ((Teddy.new (PPatterns.new kind pats) nB).find (hay.take en) st w) := by
  apply isFind_of_scanRes kind pats hnz hay st en
    (Teddy.new (PPatterns.new kind pats) nB).maskLen hen (teddy_maskLen_le kind pats nB).1
  apply find_scan kind pats hnz nB hB (hay.take en) st w hw
  · have := (teddy_maskLen_le kind pats nB).2; omega
  · rw [List.length_take, Nat.min_eq_left hen, teddy_maskLen]; exact hlen


/-! ## C15: the load positions -/

theorem mainLoop_loads (t : Teddy) (hay : PBytes) (w lo fuel cur : Nat) (prevs : List (List Nat))
    (loads : List Nat) (hlo : lo ≤ cur) (hold : ∀ c ∈ loads, lo ≤ c ∧ c + w ≤ hay.length) :
    ∀ c ∈ (t.mainLoop hay w fuel cur prevs loads).2.2, lo ≤ c ∧ c + w ≤ hay.length := by
  induction fuel generalizing cur prevs loads with
  | zero => rw [mainLoop_zero]; exact hold
  | succ fuel ih =>
    rw [mainLoop_succ]
    split
    · rename_i hfit
      have hnew : ∀ c ∈ loads ++ [cur], lo ≤ c ∧ c + w ≤ hay.length := by
        intro c hc
        rcases List.mem_append.1 hc with hc | hc
        · exact hold c hc
        · rw [List.mem_singleton.1 hc]; exact ⟨hlo, hfit⟩
      split
      · exact hnew
      · exact ih (cur + w) _ _ (by omega) hnew
    · exact hold

theorem findT_loads (t : Teddy) (hay : PBytes) (st w : Nat)
    (hlen : st + w + (t.maskLen - 1) ≤ hay.length) :
    ∀ cur ∈ (t.findT hay st w).2, st + (t.maskLen - 1) ≤ cur ∧ cur + w ≤ hay.length := by
  have hl := mainLoop_loads t hay w (st + (t.maskLen - 1)) (hay.length / w + 2)
    (st + (t.maskLen - 1)) (List.replicate (t.maskLen - 1) (allOnes t.nBuckets w)) []
    (Nat.le_refl _) (by simp)
  rw [findT_eq]
  revert hl
  generalize t.mainLoop hay w (hay.length / w + 2) (st + (t.maskLen - 1))
    (List.replicate (t.maskLen - 1) (allOnes t.nBuckets w)) [] = r
  intro hl
  obtain ⟨a, c, l⟩ := r
  cases a with
  | some m => exact hl
  | none =>
    dsimp only at hl ⊢
    split
    · dsimp only
      intro cur hcur
      rcases List.mem_append.1 hcur with hcur | hcur
      · exact hl cur hcur
      · rw [List.mem_singleton.1 hcur]; omega
    · exact hl

end PackedP
end AcVerif
